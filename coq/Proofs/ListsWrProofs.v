(* Proofs/ListsWrProofs.v — C16: written range / location lists read back as the same lists.
   Part 1: fixed-width and ULEB128 write->read lemmas; Part 2: DWARF 5 writers; Part 3: pre-v5 writers
   (rejects, ambiguity, decode/resolve); Part 4: tables (offsets, de-duplication); Part 5: unit base address;
   Part 6: panic freedom. *)
From Coq Require Import List NArith ZArith Bool Lia ZifyBool ZifyN ZifyNat.
From Coq.Strings Require Import Byte.
Require Import GV.Base.Res GV.Base.Byt GV.Base.Ints GV.Spec.LebSpec GV.Model.Leb GV.Model.Prim
  GV.Proofs.LebProofs GV.Spec.ListWrSpec GV.Model.ListsWr.
Import ListNotations.
Local Open Scope N_scope.
Local Arguments N.add : simpl never.
Local Arguments N.sub : simpl never.
Local Arguments N.mul : simpl never.
Local Arguments N.shiftl : simpl never.
Local Arguments N.shiftr : simpl never.
Local Arguments N.land : simpl never.
Local Arguments N.lor : simpl never.
Local Arguments N.pow : simpl never.
Local Arguments N.modulo : simpl never.
Local Arguments N.div : simpl never.
Local Arguments N.of_nat : simpl never.
Local Arguments N.to_nat : simpl never.
Local Ltac Zify.zify_post_hook ::= Z.div_mod_to_equations.

(* ================================================================ Part 1: primitive codecs *)

Lemma lw_take_app (a rest : list byte) : take (length a) (a ++ rest) = Some (a, rest).
Proof.
  induction a as [|x a IH]; cbn [length take app]; [reflexivity|]. now rewrite IH.
Qed.

Lemma lw_le_bytes_length n v : length (le_bytes n v) = n.
Proof. revert v; induction n as [|n IH]; intros v; cbn [le_bytes length]; [reflexivity|]. now rewrite IH. Qed.

Lemma lw_enc_un_length n be v : length (enc_un n be v) = n.
Proof. unfold enc_un, be_bytes. destruct be; [rewrite rev_length|]; apply lw_le_bytes_length. Qed.

Lemma lw_le_val_le_bytes n v : le_val (le_bytes n v) = v mod 256 ^ N.of_nat n.
Proof.
  revert v; induction n as [|n IH]; intros v; cbn [le_bytes le_val].
  - change (N.of_nat 0) with 0. change (256 ^ 0) with 1. now rewrite N.mod_1_r.
  - rewrite IH, b2n_n2b.
    replace (N.of_nat (S n)) with (N.of_nat n + 1) by lia.
    rewrite N.pow_add_r. change (256 ^ 1) with 256.
    rewrite (N.mul_comm (256 ^ N.of_nat n) 256).
    rewrite N.mod_mul_r by (try apply N.pow_nonzero; discriminate). reflexivity.
Qed.

Lemma lw_read_un_enc n be v rest :
  v < 256 ^ N.of_nat n -> read_un n be (enc_un n be v ++ rest) = Ok (v, rest).
Proof.
  intros Hv. unfold read_un, read_bytes.
  rewrite <- (lw_enc_un_length n be v) at 1. rewrite lw_take_app. cbn [bind].
  unfold enc_un, be_val, be_bytes. destruct be.
  - rewrite rev_involutive, lw_le_val_le_bytes, N.mod_small by exact Hv. reflexivity.
  - rewrite lw_le_val_le_bytes, N.mod_small by exact Hv. reflexivity.
Qed.

Definition size_ok (s : N) : Prop := s = 1 \/ s = 2 \/ s = 4 \/ s = 8.

Lemma lw_write_udata_ok be v size bs :
  write_udata be v size = Ok bs -> v < 2 ^ 64 ->
  size_ok size /\ v < amod size /\ bs = enc_un (N.to_nat size) be v.
Proof.
  unfold write_udata, size_ok, amod. intros H Hv.
  destruct (size =? 1) eqn:E1.
  { assert (size = 1) by lia; subst. destruct (v <? 256) eqn:E; [|discriminate].
    inversion H; subst. change (2 ^ (8 * 1)) with 256. repeat split; [lia|lia]. }
  destruct (size =? 2) eqn:E2.
  { assert (size = 2) by lia; subst. destruct (v <? two16) eqn:E; [|discriminate].
    inversion H; subst. change (2 ^ (8 * 2)) with 65536. unfold two16 in E. repeat split; [lia|lia]. }
  destruct (size =? 4) eqn:E4.
  { assert (size = 4) by lia; subst. destruct (v <? two32) eqn:E; [|discriminate].
    inversion H; subst. change (2 ^ (8 * 4)) with 4294967296. unfold two32 in E. repeat split; [lia|lia]. }
  destruct (size =? 8) eqn:E8; [|discriminate].
  assert (size = 8) by lia; subst. inversion H; subst.
  change (2 ^ (8 * 8)) with (2 ^ 64). repeat split; [lia|exact Hv].
Qed.

Lemma lw_write_udata_fits be v size :
  size_ok size -> v < amod size -> write_udata be v size = Ok (enc_un (N.to_nat size) be v).
Proof.
  unfold size_ok, amod, write_udata. intros [-> | [-> | [-> | ->]]] Hv; cbn [N.eqb Pos.eqb].
  - change (2 ^ (8 * 1)) with 256 in Hv. destruct (v <? 256) eqn:E; [reflexivity|lia].
  - change (2 ^ (8 * 2)) with 65536 in Hv. unfold two16. destruct (v <? 65536) eqn:E; [reflexivity|lia].
  - change (2 ^ (8 * 4)) with 4294967296 in Hv. unfold two32. destruct (v <? 4294967296) eqn:E; [reflexivity|lia].
  - reflexivity.
Qed.

Lemma lw_read_address_enc size be v rest :
  size_ok size -> v < amod size ->
  read_address size be (enc_un (N.to_nat size) be v ++ rest) = Ok (v, rest).
Proof.
  unfold size_ok, amod, read_address. intros [-> | [-> | [-> | ->]]] Hv; cbn [N.eqb Pos.eqb];
    apply lw_read_un_enc; exact Hv.
Qed.

Lemma lw_amod_le_64 size : size_ok size -> amod size <= 2 ^ 64.
Proof. unfold size_ok, amod. intros [-> | [-> | [-> | ->]]]; vm_compute; discriminate. Qed.

Lemma lw_mask_amod size : mask_of size = amod size - 1.
Proof. reflexivity. Qed.

(* ---- ULEB128: write then read ---- *)

Lemma lw_small_byte (x : N) : x < 128 ->
  cont_bit (n2b x) = false /\ N.land (b2n (n2b x)) 127 = x.
Proof.
  intros Hx. rewrite <- (N2Nat.id x). assert (Hn : (N.to_nat x < 128)%nat) by lia.
  revert Hn. generalize (N.to_nat x). intros n Hn.
  do 128 (destruct n as [|n]; [vm_compute; split; reflexivity|]). lia.
Qed.

Lemma lw_cont_byte (x : N) : x < 128 ->
  cont_bit (n2b (N.lor x CONT)) = true /\ N.land (b2n (n2b (N.lor x CONT))) 127 = x.
Proof.
  intros Hx. rewrite <- (N2Nat.id x). assert (Hn : (N.to_nat x < 128)%nat) by lia.
  revert Hn. generalize (N.to_nat x). intros n Hn.
  do 128 (destruct n as [|n]; [vm_compute; split; reflexivity|]). lia.
Qed.

Lemma lw_low7_land v : low7 (N.land v 255) = v mod 128.
Proof.
  unfold low7. rewrite <- N.land_assoc. change (N.land 255 127) with (N.ones 7).
  rewrite N.land_ones. reflexivity.
Qed.

Lemma lw_write_uleb_fuel fuel v bs rest :
  write_uleb_fuel fuel v = Ok bs ->
  split_leb (bs ++ rest) = Some (bs, rest) /\ uval bs = v /\ (1 <= length bs <= fuel)%nat.
Proof.
  revert v bs. induction fuel as [|f IH]; intros v bs; cbn [write_uleb_fuel]; [discriminate|].
  rewrite lw_low7_land, N.shiftr_div_pow2. change (2 ^ 7) with 128.
  assert (Hm : v mod 128 < 128) by lia.
  destruct (v / 128 =? 0) eqn:E.
  - intros H; inversion H; subst. destruct (lw_small_byte _ Hm) as [Hc Hl].
    cbn [app split_leb uval length]. rewrite Hc, Hl. repeat split; lia.
  - destruct (write_uleb_fuel f (v / 128)) as [r| | |] eqn:Hr; cbn [bind]; try discriminate.
    intros H; inversion H; subst.
    destruct (IH _ _ Hr) as [Hs [Hu Hlen]]. destruct (lw_cont_byte _ Hm) as [Hc Hl].
    cbn [app split_leb uval length]. rewrite Hc, Hs, Hl, Hu. repeat split; lia.
Qed.

Lemma lw_wuf_S f v :
  write_uleb_fuel (S f) v =
  if v / 128 =? 0 then Ok [n2b (v mod 128)]
  else let* rest := write_uleb_fuel f (v / 128) in Ok (n2b (N.lor (v mod 128) CONT) :: rest).
Proof.
  cbn [write_uleb_fuel]. rewrite lw_low7_land, N.shiftr_div_pow2. reflexivity.
Qed.

Lemma lw_write_uleb_total v : v < 2 ^ 64 -> exists bs, write_uleb128 v = Ok bs.
Proof.
  intros Hv. unfold write_uleb128.
  assert (G : forall fuel w, w < 2 ^ (7 * (N.of_nat fuel + 1)) -> exists bs, write_uleb_fuel (S fuel) w = Ok bs).
  { induction fuel as [|f IH]; intros w Hw; rewrite lw_wuf_S.
    - change (2 ^ (7 * (N.of_nat 0 + 1))) with 128 in Hw.
      destruct (w / 128 =? 0) eqn:E; [eexists; reflexivity|].
      assert (w / 128 = 0) by (apply N.div_small; exact Hw). lia.
    - destruct (w / 128 =? 0); [eexists; reflexivity|].
      destruct (IH (w / 128)) as [r Hr].
      { replace (7 * (N.of_nat (S f) + 1)) with (7 * (N.of_nat f + 1) + 7) in Hw by lia.
        rewrite N.pow_add_r in Hw. change (2 ^ 7) with 128 in Hw.
        apply N.div_lt_upper_bound; lia. }
      rewrite Hr. cbn [bind]. eexists; reflexivity. }
  apply (G 9%nat). change (7 * (N.of_nat 9 + 1)) with 70.
  apply N.lt_trans with (2 ^ 64); [exact Hv|]. vm_compute; reflexivity.
Qed.

Lemma lw_read_write_uleb dbg v bs rest :
  write_uleb128 v = Ok bs -> v < 2 ^ 64 -> read_uleb128 dbg (bs ++ rest) = Ok (v, rest).
Proof.
  intros H Hv. rewrite read_uleb128_exact. unfold uleb_spec, write_uleb128 in *.
  destruct (lw_write_uleb_fuel _ _ _ rest H) as [Hs [Hu Hl]].
  rewrite Hs, Hu.
  destruct ((length bs <=? 10)%nat && (v <? 2 ^ 64)) eqn:E; [reflexivity|lia].
Qed.

Lemma lw_write_uleb_nonempty v bs : write_uleb128 v = Ok bs -> (1 <= length bs)%nat.
Proof. intros H. destruct (lw_write_uleb_fuel _ _ _ [] H) as [_ [_ Hl]]. lia. Qed.

(* ================================================================ Part 2: DWARF 5 writers *)

Definition data_of (x : wloc) : list byte :=
  match x with
  | LBase _ => []
  | LOffsetPair _ _ d | LStartEnd _ _ d | LStartLength _ _ d | LDefault d => d
  end.

(* the input is a value of the Rust types; a range list carries no expression data *)
Definition wf (loc : bool) (x : wloc) : Prop :=
  wloc_wf x /\ N.of_nat (length (data_of x)) < 2 ^ 64 /\ (loc = false -> exists r, x = loc_of_range r).

Lemma lw_wf_range (r : wrange) : wloc_wf (loc_of_range r) -> wf false (loc_of_range r).
Proof. intros H. split; [exact H|]. split; [destruct r; vm_compute; reflexivity|]. intros _. eauto. Qed.

Lemma lw_wf_nodata loc x : wf loc x -> loc = false -> data_of x = [].
Proof. intros [_ [_ H]] Hl. destruct (H Hl) as [r ->]. destruct r; reflexivity. Qed.

Ltac bind_ok H :=
  match type of H with
  | bind ?r _ = Ok _ =>
      let E := fresh "E" in destruct r eqn:E; cbn [bind] in H; try discriminate H
  end.

Lemma lw_write_address_ok be a size bs :
  write_address be a size = Ok bs -> addr_wf a ->
  exists v, a = AConst v /\ size_ok size /\ v < amod size /\ bs = enc_un (N.to_nat size) be v.
Proof.
  destruct a as [v|s z]; cbn [write_address addr_wf]; [|discriminate].
  intros H Hv. destruct (lw_write_udata_ok _ _ _ _ H Hv) as [Hs [Hf Hb]]. eauto.
Qed.

Lemma lw_opt_data5 dbg loc be d x rest :
  opt_expression loc be 5 d = Ok x -> N.of_nat (length d) < 2 ^ 64 -> (loc = false -> d = []) ->
  dec_opt_data dbg loc true be (x ++ rest) = Ok (d, rest).
Proof.
  unfold opt_expression, dec_opt_data. destruct loc; intros H Hd Hn.
  - unfold write_expression in H. change (5 <=? 4) with false in H. cbv iota in H.
    bind_ok H. inversion H; subst. unfold dec_data.
    rewrite <- app_assoc. rewrite (lw_read_write_uleb dbg _ _ _ E Hd). cbn [bind].
    destruct (N.of_nat (length (d ++ rest)) <? N.of_nat (length d)) eqn:El.
    { rewrite app_length in El. lia. }
    unfold read_bytes. rewrite Nat2N.id, lw_take_app. reflexivity.
  - inversion H; subst. rewrite (Hn eq_refl). reflexivity.
Qed.

Lemma lw_b2n_n2b_kind k : k < 256 -> b2n (n2b k) = k.
Proof. apply b2n_n2b_small. Qed.

Lemma lw_entry5 dbg loc be asz x bs :
  write_entry_v5 loc be 5 asz x = Ok bs -> wf loc x ->
  exists k tail e, bs = n2b k :: tail /\ 1 <= k < 256 /\ ent_of x = Some e /\
    forall rest, dec5_entry dbg loc be asz k (tail ++ rest) = Ok (e, rest).
Proof.
  intros H Hw. pose proof (lw_wf_nodata _ _ Hw) as Hn. destruct Hw as [Hwf [Hd Hr]].
  destruct x as [a|b e d|b e d|b len d|d]; cbn [write_entry_v5] in H; cbn [wloc_wf data_of] in *.
  - (* base *)
    bind_ok H. inversion H; subst.
    destruct (lw_write_address_ok _ _ _ _ E Hwf) as [v [-> [Hs [Hv ->]]]].
    exists (kind_base loc), (enc_un (N.to_nat asz) be v), (EBase v).
    split; [reflexivity|]. split; [destruct loc; vm_compute; split; congruence|].
    split; [reflexivity|]. intros rest. unfold dec5_entry, kind_base.
    destruct loc; cbn [N.eqb Pos.eqb]; rewrite (lw_read_address_enc _ _ _ _ Hs Hv); reflexivity.
  - (* offset pair *)
    destruct Hwf as [Hb He]. bind_ok H. bind_ok H. bind_ok H. inversion H; subst.
    exists kind_offset_pair, (a ++ a0 ++ a1), (EOffsetPair b e d).
    split; [reflexivity|]. split; [vm_compute; split; congruence|]. split; [reflexivity|].
    intros rest. unfold dec5_entry, kind_offset_pair. cbn [N.eqb Pos.eqb].
    rewrite <- !app_assoc. rewrite (lw_read_write_uleb dbg _ _ _ E Hb). cbn [bind].
    rewrite (lw_read_write_uleb dbg _ _ _ E0 He). cbn [bind].
    rewrite (lw_opt_data5 dbg _ _ _ _ _ E1 Hd Hn). reflexivity.
  - (* start end *)
    destruct Hwf as [Hb He]. bind_ok H. bind_ok H. bind_ok H. inversion H; subst.
    destruct (lw_write_address_ok _ _ _ _ E Hb) as [vb [-> [Hs [Hvb ->]]]].
    destruct (lw_write_address_ok _ _ _ _ E0 He) as [ve [-> [_ [Hve ->]]]].
    exists (kind_start_end loc), (enc_un (N.to_nat asz) be vb ++ enc_un (N.to_nat asz) be ve ++ a1), (EStartEnd vb ve d).
    split; [reflexivity|]. split; [destruct loc; vm_compute; split; congruence|]. split; [reflexivity|].
    intros rest. unfold dec5_entry, kind_start_end.
    destruct loc; cbn [N.eqb Pos.eqb]; rewrite <- !app_assoc;
      rewrite (lw_read_address_enc _ _ _ _ Hs Hvb); cbn [bind];
      rewrite (lw_read_address_enc _ _ _ _ Hs Hve); cbn [bind];
      rewrite (lw_opt_data5 dbg _ _ _ _ _ E1 Hd Hn); reflexivity.
  - (* start length *)
    destruct Hwf as [Hb Hl]. bind_ok H. bind_ok H. bind_ok H. inversion H; subst.
    destruct (lw_write_address_ok _ _ _ _ E Hb) as [vb [-> [Hs [Hvb ->]]]].
    exists (kind_start_length loc), (enc_un (N.to_nat asz) be vb ++ a0 ++ a1), (EStartLength vb len d).
    split; [reflexivity|]. split; [destruct loc; vm_compute; split; congruence|]. split; [reflexivity|].
    intros rest. unfold dec5_entry, kind_start_length.
    destruct loc; cbn [N.eqb Pos.eqb]; rewrite <- !app_assoc;
      rewrite (lw_read_address_enc _ _ _ _ Hs Hvb); cbn [bind];
      rewrite (lw_read_write_uleb dbg _ _ _ E0 Hl); cbn [bind];
      rewrite (lw_opt_data5 dbg _ _ _ _ _ E1 Hd Hn); reflexivity.
  - (* default location: only in location lists *)
    bind_ok H. inversion H; subst.
    destruct loc.
    + exists kind_default, a, (EDefault d).
      split; [reflexivity|]. split; [vm_compute; split; congruence|]. split; [reflexivity|].
      intros rest. unfold dec5_entry, kind_default. cbn [N.eqb Pos.eqb andb].
      pose proof (lw_opt_data5 dbg true be d a rest E Hd Hn) as Hx. unfold dec_opt_data in Hx.
      rewrite Hx. reflexivity.
    + (* a range list has no such entry *)
      destruct (Hr eq_refl) as [r Hx]. destruct r; discriminate Hx.
Qed.

Lemma lw_pairs_ents_nil : ents_of [] = Some []. Proof. reflexivity. Qed.

Lemma lw_list5 dbg loc be asz l bs :
  write_list_v5 loc be 5 asz l = Ok bs -> Forall (wf loc) l ->
  exists es, ents_of l = Some es /\
    forall rest fuel, (length bs <= fuel)%nat ->
      dec5_fuel fuel dbg loc be asz (bs ++ rest) = Ok (es, rest).
Proof.
  revert bs. induction l as [|x r IH]; intros bs H Hwf; cbn [write_list_v5] in H.
  - inversion H; subst. exists []. split; [reflexivity|]. intros rest fuel Hf.
    destruct fuel as [|f]; [cbn [length] in Hf; lia|].
    cbn [dec5_fuel app read_u8 bind]. rewrite lw_b2n_n2b_kind by lia. reflexivity.
  - bind_ok H. bind_ok H. inversion H; subst.
    inversion Hwf as [|? ? Hx Hr]; subst.
    destruct (lw_entry5 dbg _ _ _ _ _ E Hx) as [k [tail [e [-> [Hk [He Hdec]]]]]].
    destruct (IH _ eq_refl Hr) as [es [Hes Hrest]].
    exists (e :: es). split; [cbn [ents_of]; rewrite He, Hes; reflexivity|].
    intros rest fuel Hf. destruct fuel as [|f]; [cbn [length app] in Hf; lia|].
    cbn [app length] in Hf. rewrite app_length in Hf.
    cbn [dec5_fuel app read_u8 bind]. rewrite lw_b2n_n2b_kind by lia.
    destruct (k =? 0) eqn:Ek; [lia|].
    rewrite <- app_assoc. rewrite Hdec. cbn [bind].
    rewrite Hrest by lia. reflexivity.
Qed.

Lemma lw_list5_dec dbg loc be asz l bs :
  write_list_v5 loc be 5 asz l = Ok bs -> Forall (wf loc) l ->
  exists es, ents_of l = Some es /\ forall rest, dec5 dbg loc be asz (bs ++ rest) = Ok (es, rest).
Proof.
  intros H Hwf. destruct (lw_list5 dbg _ _ _ _ _ H Hwf) as [es [He Hd]].
  exists es. split; [exact He|]. intros rest. unfold dec5. apply Hd. rewrite app_length. lia.
Qed.

(* ================================================================ Part 4 (used early): table layout *)

(* both table loops have this shape *)
Fixpoint tbl_gen (f : list wloc -> res (list byte)) (pos : N) (tbl : list (list wloc)) : res (list byte * list N) :=
  match tbl with
  | [] => Ok ([], [])
  | l :: r =>
      let* bs := f l in
      let* (rest, offs) := tbl_gen f (pos + N.of_nat (length bs)) r in
      Ok (bs ++ rest, pos :: offs)
  end.

Lemma lw_lists_v4_gen loc be version asz mk hb pos tbl :
  write_lists_v4 loc be version asz mk hb pos tbl = tbl_gen (write_list_v4 loc be version asz mk hb) pos tbl.
Proof. revert pos; induction tbl as [|l r IH]; intros pos; cbn [write_lists_v4 tbl_gen]; [reflexivity|].
  destruct (write_list_v4 loc be version asz mk hb l); cbn [bind]; try reflexivity. now rewrite IH. Qed.

Lemma lw_lists_v5_gen loc be version asz pos tbl :
  write_lists_v5 loc be version asz pos tbl = tbl_gen (write_list_v5 loc be version asz) pos tbl.
Proof. revert pos; induction tbl as [|l r IH]; intros pos; cbn [write_lists_v5 tbl_gen]; [reflexivity|].
  destruct (write_list_v5 loc be version asz l); cbn [bind]; try reflexivity. now rewrite IH. Qed.

Fixpoint offsets_from (pos : N) (bss : list (list byte)) : list N :=
  match bss with
  | [] => []
  | b :: r => pos :: offsets_from (pos + N.of_nat (length b)) r
  end.

(* the table is emitted as one copy of every element, in table order, and the offsets are the running positions *)
Lemma lw_tbl_gen_char f : forall tbl pos body offs,
  tbl_gen f pos tbl = Ok (body, offs) ->
  exists bss, Forall2 (fun l bs => f l = Ok bs) tbl bss /\ body = concat bss /\ offs = offsets_from pos bss.
Proof.
  induction tbl as [|l r IH]; intros pos body offs H; cbn [tbl_gen] in H.
  - inversion H; subst. exists []. repeat split; constructor.
  - bind_ok H. bind_ok H. destruct a0 as [rest o]. inversion H; subst.
    destruct (IH _ _ _ E0) as [bss [HF [-> ->]]].
    exists (a :: bss). split; [constructor; assumption|]. split; reflexivity.
Qed.

Lemma lw_offsets_from_nth : forall bss pos i bs,
  nth_error bss i = Some bs ->
  nth_error (offsets_from pos bss) i = Some (pos + N.of_nat (length (concat (firstn i bss)))) /\
  concat bss = concat (firstn i bss) ++ bs ++ concat (skipn (S i) bss).
Proof.
  induction bss as [|b r IH]; intros pos i bs H; destruct i as [|i]; cbn [nth_error] in H; try discriminate.
  - inversion H; subst. cbn [offsets_from nth_error firstn skipn concat app length]. split; [f_equal; lia|reflexivity].
  - destruct (IH (pos + N.of_nat (length b)) i bs H) as [H1 H2].
    cbn [offsets_from nth_error firstn skipn concat]. rewrite H1. split.
    + f_equal. rewrite app_length. lia.
    + rewrite H2 at 1. rewrite <- app_assoc. reflexivity.
Qed.

Lemma lw_forall2_nth {A B} (P : A -> B -> Prop) : forall la lb i a,
  Forall2 P la lb -> nth_error la i = Some a -> exists b, nth_error lb i = Some b /\ P a b.
Proof.
  intros la lb i a HF. revert i. induction HF as [|x y la lb Hxy HF IH]; intros i Hn; destruct i; cbn [nth_error] in *; try discriminate.
  - inversion Hn; subst. eauto.
  - apply IH. exact Hn.
Qed.

Lemma lw_at_offset_app (sec0 pre x : list byte) (start : N) :
  N.of_nat (length sec0) = start ->
  at_offset (start + N.of_nat (length pre)) (sec0 ++ pre ++ x) = x.
Proof.
  intros <-. unfold at_offset. rewrite app_assoc.
  replace (N.to_nat (N.of_nat (length sec0) + N.of_nat (length pre))) with (length (sec0 ++ pre) + 0)%nat
    by (rewrite app_length; lia).
  rewrite skipn_app. rewrite Nat.add_0_r, skipn_all. cbn [app].
  replace (length (sec0 ++ pre) - length (sec0 ++ pre))%nat with 0%nat by lia. reflexivity.
Qed.

(* per-index view of a generic table write *)
Lemma lw_tbl_gen_nth f tbl pos body offs (sec0 : list byte) :
  tbl_gen f pos tbl = Ok (body, offs) -> N.of_nat (length sec0) = pos ->
  length offs = length tbl /\
  forall i l, nth_error tbl i = Some l ->
    exists o bs post, nth_error offs i = Some o /\ f l = Ok bs /\ at_offset o (sec0 ++ body) = bs ++ post.
Proof.
  intros H Hs. destruct (lw_tbl_gen_char f _ _ _ _ H) as [bss [HF [-> ->]]]. split.
  - clear H Hs. revert pos. induction HF as [|x y la lb _ _ IH]; intros pos; cbn [offsets_from length]; [reflexivity|].
    now rewrite IH.
  - intros i l Hl. destruct (lw_forall2_nth _ _ _ _ _ HF Hl) as [bs [Hb Hfl]].
    destruct (lw_offsets_from_nth _ pos _ _ Hb) as [Ho Hc].
    exists (pos + N.of_nat (length (concat (firstn i bss)))), bs, (concat (skipn (S i) bss)).
    split; [exact Ho|]. split; [exact Hfl|]. rewrite Hc. apply lw_at_offset_app. exact Hs.
Qed.

Lemma lw_write_initial_length_len fmt64 be len il :
  write_initial_length fmt64 be len = Ok il -> N.of_nat (length il) = initial_length_size fmt64.
Proof.
  unfold write_initial_length, initial_length_size.
  destruct (negb fmt64 && (4294967280 <=? len) && (len <=? 4294967295)); [discriminate|].
  intros H. bind_ok H. inversion H; subst.
  unfold write_udata, word_size in E. destruct fmt64; cbn [N.eqb Pos.eqb] in E.
  - inversion E; subst. rewrite app_length, !lw_enc_un_length. reflexivity.
  - destruct (len <? two32); [|discriminate]. inversion E; subst. cbn [app]. rewrite lw_enc_un_length. reflexivity.
Qed.

Lemma lw_header_v5_len be version asz : length (header_v5 be version asz) = 8%nat.
Proof. unfold header_v5. rewrite !app_length, !lw_enc_un_length. reflexivity. Qed.

(* write_read_v5: every list of the table decodes, at the offset recorded for it, to exactly its entries *)
Lemma lw_write_read_v5 dbg loc be fmt64 asz start tbl out offs (sec0 : list byte) :
  write_tbl_v5 loc be fmt64 5 asz start tbl = Ok (out, offs) ->
  N.of_nat (length sec0) = start ->
  Forall (Forall (wf loc)) tbl ->
  length offs = length tbl /\
  forall i l, nth_error tbl i = Some l ->
    exists o es rest, nth_error offs i = Some o /\ ents_of l = Some es /\
      dec5 dbg loc be asz (at_offset o (sec0 ++ out)) = Ok (es, rest).
Proof.
  unfold write_tbl_v5. change (negb (5 =? 5)) with false. cbv iota.
  intros H Hs Hwf. bind_ok H. destruct a as [body o]. bind_ok H. inversion H; subst.
  rewrite lw_lists_v5_gen in E.
  pose proof (lw_write_initial_length_len _ _ _ _ E0) as Hil.
  pose proof (lw_header_v5_len be 5 asz) as Hh.
  destruct (lw_tbl_gen_nth _ _ _ _ _ (sec0 ++ a ++ header_v5 be 5 asz) E) as [Hlen Hn].
  { rewrite !app_length, Hh. lia. }
  split; [exact Hlen|]. intros i l Hl. destruct (Hn i l Hl) as [off [bs [post [Ho [Hw Hat]]]]].
  rewrite Forall_forall in Hwf. assert (Hwl : Forall (wf loc) l) by (apply Hwf; eapply nth_error_In; eauto).
  destruct (lw_list5_dec dbg _ _ _ _ _ Hw Hwl) as [es [Hes Hdec]].
  exists off, es, post. split; [exact Ho|]. split; [exact Hes|].
  replace (sec0 ++ a ++ header_v5 be 5 asz ++ body) with ((sec0 ++ a ++ header_v5 be 5 asz) ++ body)
    by (rewrite <- !app_assoc; reflexivity).
  rewrite Hat. apply Hdec.
Qed.

(* ================================================================ Part 3: DWARF 2-4 writers *)

Definition enc_word (be : bool) (asz v : N) : list byte := enc_un (N.to_nat asz) be v.

(* the pair format, as a function of the pairs *)
Definition enc_pair4 (loc be : bool) (asz : N) (p : ent) : list byte :=
  match p with
  | EBase a => enc_word be asz (mask_of asz) ++ enc_word be asz a
  | EPair b e d =>
      enc_word be asz b ++ enc_word be asz e ++
      (if loc then enc_un 2 be (N.of_nat (length d)) ++ d else [])
  | _ => []
  end.
Definition enc_list4 (loc be : bool) (asz : N) (ps : list ent) : list byte :=
  flat_map (enc_pair4 loc be asz) ps ++ enc_word be asz 0 ++ enc_word be asz 0.

(* what every emitted pair satisfies: it fits the address size and is not the (0,0) terminator *)
Definition pair_ok (loc : bool) (asz : N) (p : ent) : Prop :=
  match p with
  | EBase a => a < amod asz
  | EPair b e d =>
      b < amod asz /\ e < amod asz /\ ~ (b = 0 /\ e = 0) /\
      N.of_nat (length d) < 65536 /\ (loc = false -> d = [])
  | _ => False
  end.
(* what is NOT guaranteed (finding F8): a non-base pair does not begin with the base-selection marker *)
Definition pair_nomark (asz : N) (p : ent) : Prop :=
  match p with EPair b _ _ => b <> mask_of asz | _ => True end.

Lemma lw_opt_expr4 loc be version d x :
  opt_expression loc be version d = Ok x -> version <= 4 -> (loc = false -> d = []) ->
  x = (if loc then enc_un 2 be (N.of_nat (length d)) ++ d else []) /\
  N.of_nat (length d) < 65536.
Proof.
  unfold opt_expression. destruct loc; intros H Hv Hn.
  - unfold write_expression in H. destruct (version <=? 4) eqn:E; [|lia].
    bind_ok H. inversion H; subst.
    assert (Hl : N.of_nat (length d) < 2 ^ 64).
    { unfold write_udata in E0. cbn [N.eqb Pos.eqb] in E0.
      destruct (N.of_nat (length d) <? two16) eqn:E2; [|discriminate]. unfold two16 in E2.
      apply N.lt_trans with 65536; [lia|vm_compute; reflexivity]. }
    destruct (lw_write_udata_ok _ _ _ _ E0 Hl) as [_ [Hf ->]]. change (amod 2) with 65536 in Hf.
    split; [reflexivity|exact Hf].
  - inversion H; subst. rewrite (Hn eq_refl). split; [reflexivity|vm_compute; reflexivity].
Qed.

Lemma lw_enc_word_length be asz v : length (enc_word be asz v) = N.to_nat asz.
Proof. apply lw_enc_un_length. Qed.

Lemma lw_mask_pos asz : size_ok asz -> mask_of asz <> 0 /\ mask_of asz < amod asz.
Proof. intros [-> | [-> | [-> | ->]]]; vm_compute; split; congruence. Qed.

Lemma lw_sle_const v len e :
  start_length_end (AConst v) len = Ok e -> e = AConst (v + len) /\ v + len < 2 ^ 64.
Proof.
  cbn [start_length_end]. destruct (v + len <? 2 ^ 64) eqn:E; [|discriminate].
  intros H; inversion H; subst. split; [reflexivity|lia].
Qed.

Lemma lw_marker_mask asz : marker asz = mask_of asz.
Proof. reflexivity. Qed.

Lemma lw_marker_of_ok asz mk : marker_of asz = Ok mk -> 1 <= asz <= 8 /\ mk = marker asz.
Proof.
  unfold marker_of. destruct ((1 <=? asz) && (asz <=? 8)) eqn:E; [|discriminate]. intros H.
  assert (Hc : asz = 1 \/ asz = 2 \/ asz = 3 \/ asz = 4 \/ asz = 5 \/ asz = 6 \/ asz = 7 \/ asz = 8) by lia.
  split; [lia|].
  destruct Hc as [-> | [-> | [-> | [-> | [-> | [-> | [-> | ->]]]]]]]; vm_compute in H; inversion H; reflexivity.
Qed.

Lemma lw_marker_of_valid asz : size_ok asz -> marker_of asz = Ok (marker asz).
Proof. intros [-> | [-> | [-> | ->]]]; vm_compute; reflexivity. Qed.

Lemma lw_marker_of_bad asz : ~ (1 <= asz <= 8) -> marker_of asz = Err WUnsupportedWordSize.
Proof. intros H. unfold marker_of. destruct ((1 <=? asz) && (asz <=? 8)) eqn:E; [lia|reflexivity]. Qed.

(* W4: on success the writer has emitted exactly the pair encoding of `pairs_of l`, every pair fits and none is (0,0) *)
Lemma lw_write_v4_enc loc be version asz : forall l hb bs,
  write_list_v4 loc be version asz (marker asz) hb l = Ok bs -> version <= 4 -> Forall (wf loc) l ->
  size_ok asz /\ exists ps, pairs_of l = Some ps /\ Forall (pair_ok loc asz) ps /\ bs = enc_list4 loc be asz ps.
Proof.
  induction l as [|x r IH]; intros hb bs H Hv Hwf; cbn [write_list_v4] in H.
  - bind_ok H. inversion H; subst.
    assert (H0 : 0 < 2 ^ 64) by (vm_compute; reflexivity).
    destruct (lw_write_udata_ok _ _ _ _ E H0) as [Hs [_ ->]].
    split; [exact Hs|]. exists []. split; [reflexivity|]. split; [constructor|reflexivity].
  - inversion Hwf as [|? ? Hx Hr]; subst. pose proof (lw_wf_nodata _ _ Hx) as Hn.
    destruct Hx as [Hxw [Hd _]].
    destruct x as [a|b e d|b e d|b len d|d]; cbn [wloc_wf data_of] in *.
    + (* base *)
      bind_ok H. bind_ok H. bind_ok H. inversion H; subst.
      destruct (IH _ _ E1 Hv Hr) as [Hs [ps [Hp [Hok ->]]]].
      destruct (lw_write_address_ok _ _ _ _ E0 Hxw) as [v [-> [_ [Hvf ->]]]].
      destruct (lw_mask_pos _ Hs) as [_ Hmf]. pose proof (lw_amod_le_64 _ Hs) as H64.
      rewrite lw_marker_mask in E.
      destruct (lw_write_udata_ok _ _ _ _ E ltac:(lia)) as [_ [_ ->]].
      split; [exact Hs|]. exists (EBase v :: ps). cbn [pairs_of pair_of]. rewrite Hp.
      split; [reflexivity|]. split; [constructor; [exact Hvf|exact Hok]|].
      unfold enc_list4. cbn [flat_map enc_pair4]. unfold enc_word. rewrite <- !app_assoc. reflexivity.
    + (* offset pair *)
      destruct Hxw as [Hb He].
      destruct (b =? e) eqn:Ebe; [discriminate|]. destruct (negb hb) eqn:Ehb; [discriminate|].
      destruct (b =? marker asz) eqn:Ebm; [discriminate|].
      bind_ok H. bind_ok H. bind_ok H. bind_ok H. inversion H; subst.
      destruct (IH _ _ E2 Hv Hr) as [Hs [ps [Hp [Hok ->]]]].
      destruct (lw_write_udata_ok _ _ _ _ E Hb) as [_ [Hbf ->]].
      destruct (lw_write_udata_ok _ _ _ _ E0 He) as [_ [Hef ->]].
      destruct (lw_opt_expr4 _ _ _ _ _ E1 Hv Hn) as [-> Hdl].
      split; [exact Hs|]. exists (EPair b e d :: ps). cbn [pairs_of pair_of]. rewrite Hp.
      split; [reflexivity|]. split.
      * constructor; [|exact Hok]. cbn [pair_ok]. repeat split; try assumption. lia.
      * unfold enc_list4. cbn [flat_map enc_pair4]. unfold enc_word. rewrite <- !app_assoc. reflexivity.
    + (* start end *)
      destruct Hxw as [Hb He].
      destruct (addr_eqb b e) eqn:Ebe; [discriminate|]. destruct hb eqn:Ehb; [discriminate|].
      destruct (addr_eqb b (AConst (marker asz))) eqn:Ebm; [discriminate|].
      bind_ok H. bind_ok H. bind_ok H. bind_ok H. inversion H; subst.
      destruct (IH _ _ E2 Hv Hr) as [Hs [ps [Hp [Hok ->]]]].
      destruct (lw_write_address_ok _ _ _ _ E Hb) as [vb [-> [_ [Hbf ->]]]].
      destruct (lw_write_address_ok _ _ _ _ E0 He) as [ve [-> [_ [Hef ->]]]].
      destruct (lw_opt_expr4 _ _ _ _ _ E1 Hv Hn) as [-> Hdl].
      cbn [addr_eqb] in Ebe.
      split; [exact Hs|]. exists (EPair vb ve d :: ps). cbn [pairs_of pair_of]. rewrite Hp.
      split; [reflexivity|]. split.
      * constructor; [|exact Hok]. cbn [pair_ok]. repeat split; try assumption. lia.
      * unfold enc_list4. cbn [flat_map enc_pair4]. unfold enc_word. rewrite <- !app_assoc. reflexivity.
    + (* start length *)
      destruct Hxw as [Hb Hl].
      bind_ok H.
      destruct (addr_eqb b a) eqn:Ebe; [discriminate|]. destruct hb eqn:Ehb; [discriminate|].
      destruct (addr_eqb b (AConst (marker asz))) eqn:Ebm; [discriminate|].
      bind_ok H. bind_ok H. bind_ok H. bind_ok H. inversion H; subst.
      destruct (IH _ _ E3 Hv Hr) as [Hs [ps [Hp [Hok ->]]]].
      destruct (lw_write_address_ok _ _ _ _ E0 Hb) as [vb [-> [_ [Hbf ->]]]].
      destruct (lw_sle_const _ _ _ E) as [-> Hsum].
      destruct (lw_write_address_ok _ _ _ _ E1 Hsum) as [ve [Hve [_ [Hef ->]]]].
      inversion Hve; subst ve.
      destruct (lw_opt_expr4 _ _ _ _ _ E2 Hv Hn) as [-> Hdl].
      cbn [addr_eqb] in Ebe.
      split; [exact Hs|]. exists (EPair vb (vb + len) d :: ps). cbn [pairs_of pair_of]. rewrite Hp.
      split; [reflexivity|]. split.
      * constructor; [|exact Hok]. cbn [pair_ok]. repeat split; try assumption. lia.
      * unfold enc_list4. cbn [flat_map enc_pair4]. unfold enc_word. rewrite <- !app_assoc. reflexivity.
    + discriminate.
Qed.

Lemma lw_opt_data4 dbg loc be d rest :
  N.of_nat (length d) < 65536 -> (loc = false -> d = []) ->
  dec_opt_data dbg loc false be ((if loc then enc_un 2 be (N.of_nat (length d)) ++ d else []) ++ rest) = Ok (d, rest).
Proof.
  intros Hd Hn. unfold dec_opt_data. destruct loc.
  - unfold dec_data. rewrite <- app_assoc. rewrite lw_read_un_enc by exact Hd. cbn [bind].
    destruct (N.of_nat (length (d ++ rest)) <? N.of_nat (length d)) eqn:El.
    { rewrite app_length in El. lia. }
    unfold read_bytes. rewrite Nat2N.id, lw_take_app. reflexivity.
  - rewrite (Hn eq_refl). reflexivity.
Qed.

(* D4: the pair decoder inverts the pair encoding on lists without (0,0) pairs and without marker clashes *)
Lemma lw_dec4_enc dbg loc be asz : size_ok asz -> forall ps,
  Forall (pair_ok loc asz) ps -> Forall (pair_nomark asz) ps ->
  forall rest fuel, (length (flat_map (enc_pair4 loc be asz) ps) < fuel)%nat ->
    dec4_fuel fuel dbg loc be asz (enc_list4 loc be asz ps ++ rest) = Ok (ps, rest).
Proof.
  intros Hs. assert (Hz : 0 < amod asz) by (destruct Hs as [-> | [-> | [-> | ->]]]; vm_compute; reflexivity).
  assert (Hsz : (1 <= N.to_nat asz)%nat) by (destruct Hs as [-> | [-> | [-> | ->]]]; vm_compute; lia).
  destruct (lw_mask_pos _ Hs) as [Hm0 Hmf].
  induction ps as [|p ps IH]; intros Hok Hnm rest fuel Hf.
  - destruct fuel as [|f]; [cbn [flat_map length] in Hf; lia|].
    unfold enc_list4. cbn [flat_map app dec4_fuel]. unfold enc_word. rewrite <- app_assoc.
    rewrite (lw_read_address_enc _ _ _ _ Hs Hz). cbn [bind].
    rewrite (lw_read_address_enc _ _ _ _ Hs Hz). cbn [bind]. reflexivity.
  - inversion Hok as [|? ? Hp Hok']; subst. inversion Hnm as [|? ? Hq Hnm']; subst.
    destruct fuel as [|f]; [lia|].
    cbn [flat_map] in Hf. rewrite app_length in Hf.
    unfold enc_list4. cbn [flat_map]. rewrite <- !app_assoc.
    fold (enc_list4 loc be asz ps).
    destruct p as [a|b e d|b e d|b len d|d|b e d]; cbn [pair_ok] in Hp; try contradiction.
    + (* base selection *)
      cbn [enc_pair4] in *. rewrite app_length, !lw_enc_word_length in Hf.
      unfold enc_word at 1 2. rewrite <- !app_assoc. cbn [dec4_fuel].
      rewrite (lw_read_address_enc _ _ _ _ Hs Hmf). cbn [bind].
      rewrite (lw_read_address_enc _ _ _ _ Hs Hp). cbn [bind].
      destruct ((mask_of asz =? 0) && (a =? 0)) eqn:E0; [lia|].
      rewrite N.eqb_refl.
      replace (flat_map (enc_pair4 loc be asz) ps ++ enc_word be asz 0 ++ enc_word be asz 0 ++ rest)
        with (enc_list4 loc be asz ps ++ rest) by (unfold enc_list4; rewrite <- !app_assoc; reflexivity).
      rewrite IH by (try assumption; lia). reflexivity.
    + (* address or offset pair *)
      destruct Hp as [Hb [He [Hnz [Hd Hn]]]]. cbn [pair_nomark] in Hq.
      cbn [enc_pair4] in *. rewrite !app_length, !lw_enc_word_length in Hf.
      unfold enc_word at 1 2. rewrite <- !app_assoc. cbn [dec4_fuel].
      rewrite (lw_read_address_enc _ _ _ _ Hs Hb). cbn [bind].
      rewrite (lw_read_address_enc _ _ _ _ Hs He). cbn [bind].
      destruct ((b =? 0) && (e =? 0)) eqn:E0; [lia|].
      destruct (b =? mask_of asz) eqn:E1; [lia|].
      rewrite (lw_opt_data4 dbg _ _ _ _ Hd Hn). cbn [bind].
      replace (flat_map (enc_pair4 loc be asz) ps ++ enc_word be asz 0 ++ enc_word be asz 0 ++ rest)
        with (enc_list4 loc be asz ps ++ rest) by (unfold enc_list4; rewrite <- !app_assoc; reflexivity).
      rewrite IH by (try assumption; lia). reflexivity.
Qed.

Lemma lw_dec4_enc_full dbg loc be asz ps rest :
  size_ok asz -> Forall (pair_ok loc asz) ps -> Forall (pair_nomark asz) ps ->
  dec4 dbg loc be asz (enc_list4 loc be asz ps ++ rest) = Ok (ps, rest).
Proof.
  intros Hs Hok Hnm. unfold dec4. apply lw_dec4_enc; try assumption.
  unfold enc_list4. rewrite !app_length. lia.
Qed.

(* A4: without a marker clash in the list no emitted non-base pair begins with the marker *)
Lemma lw_pairs_ents : forall l ps, pairs_of l = Some ps -> exists es, ents_of l = Some es.
Proof.
  induction l as [|x r IH]; intros ps Hp; cbn [pairs_of ents_of] in *; [eauto|].
  destruct (pair_of x) as [p|] eqn:Ex; [|discriminate].
  destruct (pairs_of r) as [ps'|] eqn:Er; [|discriminate].
  destruct (IH _ eq_refl) as [es ->].
  destruct x as [[a|s z]|b' e' d'|[b'|s z] [e'|s' z'] d'|[b'|s z] len d'|d']; cbn [pair_of ent_of] in *;
    try discriminate; eauto.
Qed.

(* R1: a list that must be rejected never produces bytes *)
Lemma lw_opt_expr4_fits loc be version d :
  version <= 4 -> N.of_nat (length d) < 65536 -> exists x, opt_expression loc be version d = Ok x.
Proof.
  intros Hv Hd. unfold opt_expression, write_expression. destruct loc; [|eauto].
  destruct (version <=? 4) eqn:E; [|lia].
  rewrite (lw_write_udata_fits be _ 2) by (unfold size_ok; auto). cbn [bind]. eauto.
Qed.

Lemma lw_tombstone_pos asz : size_ok asz -> (tombstone asz <=? 0) = false.
Proof. intros [-> | [-> | [-> | ->]]]; vm_compute; reflexivity. Qed.

(* R4: for a list the pair format accepts, reading the pairs relative to the base means the same as the list.
   hb = false (no base address in force) implies that the reader's base is 0: address pairs are absolute. *)
(* R1: a list that must be rejected never produces bytes. Since the repair of the writers this includes the
   entries that begin with the base-selection marker and the StartLength sums that do not fit. *)
Lemma lw_never_bytes loc be version asz : forall l hb bs,
  write_list_v4 loc be version asz (marker asz) hb l = Ok bs -> Forall (wf loc) l -> rejected asz hb l = None.
Proof.
  induction l as [|x r IH]; intros hb bs H Hwf; [reflexivity|].
  inversion Hwf as [|? ? Hx Hr]; subst. destruct Hx as [Hxw _].
  cbn [write_list_v4] in H. cbn [rejected].
  destruct x as [a|b e d|b e d|b len d|d]; cbn [wloc_wf reject_entry is_base] in *.
  - bind_ok H. bind_ok H. bind_ok H. rewrite orb_true_r. eapply IH; eauto.
  - destruct (b =? e) eqn:Ebe; [discriminate|]. destruct hb; cbn [negb] in *; [|discriminate].
    destruct (b =? marker asz) eqn:Ebm; [discriminate|].
    bind_ok H. bind_ok H. bind_ok H. bind_ok H. cbn [orb]. eapply IH; eauto.
  - destruct (addr_eqb b e) eqn:Ebe; [discriminate|]. destruct hb; [discriminate|].
    destruct (addr_eqb b (AConst (marker asz))) eqn:Ebm; [discriminate|].
    bind_ok H. bind_ok H. bind_ok H. bind_ok H. cbn [orb]. eapply IH; eauto.
  - bind_ok H. destruct (addr_eqb b a) eqn:Ebe; [discriminate|]. destruct hb; [discriminate|].
    destruct (addr_eqb b (AConst (marker asz))) eqn:Ebm; [discriminate|].
    bind_ok H. bind_ok H. bind_ok H. bind_ok H.
    destruct b as [v|s z]; [|discriminate E0].
    destruct (lw_sle_const _ _ _ E) as [-> Hsum]. cbn [addr_eqb sum_fits] in *.
    destruct (v + len <? 2 ^ 64) eqn:Es; [|lia]. cbn [negb].
    destruct (len =? 0) eqn:El; [lia|].
    cbn [orb]. eapply IH; eauto.
  - discriminate.
Qed.

(* R2: the first entry that must be rejected decides the result, with exactly the error of the rule *)
Lemma lw_rejects loc be version asz : size_ok asz -> version <= 4 -> forall l hb e,
  Forall wloc_wf l -> rejected asz hb l = Some e -> plain_until_reject asz hb l = true ->
  write_list_v4 loc be version asz (marker asz) hb l = Err e.
Proof.
  intros Hs Hv. pose proof (lw_amod_le_64 _ Hs) as H64. destruct (lw_mask_pos _ Hs) as [_ Hmf].
  rewrite <- lw_marker_mask in Hmf.
  induction l as [|x r IH]; intros hb e Hwf Hrej Hpl; [discriminate|].
  inversion Hwf as [|? ? Hxw Hr]; subst.
  cbn [rejected plain_until_reject] in *. cbn [write_list_v4].
  destruct (reject_entry asz hb x) as [e'|] eqn:Ere.
  - (* x is the offender *)
    inversion Hrej; subst e'. clear IH Hrej.
    destruct x as [a|b e0 d|b e0 d|b len d|d]; cbn [reject_entry wloc_wf] in *.
    + discriminate.
    + destruct (b =? e0); [inversion Ere; reflexivity|]. destruct hb; cbn [negb] in *; [|inversion Ere; reflexivity].
      destruct (b =? marker asz); [inversion Ere; reflexivity|discriminate].
    + destruct (addr_eqb b e0); [inversion Ere; reflexivity|]. destruct hb; [inversion Ere; reflexivity|].
      destruct (addr_eqb b (AConst (marker asz))); [inversion Ere; reflexivity|discriminate].
    + destruct Hxw as [Hb Hl]. destruct b as [v|s z]; cbn [start_length_end addr_wf sum_fits] in *.
      * destruct (v + len <? 2 ^ 64) eqn:Es; cbn [negb] in Ere; [|inversion Ere; reflexivity]. cbn [bind addr_eqb].
        destruct (len =? 0) eqn:El.
        -- inversion Ere; subst. assert (len = 0) by lia; subst. rewrite N.add_0_r, N.eqb_refl. reflexivity.
        -- destruct (v =? v + len) eqn:Ev; [lia|]. destruct hb; [inversion Ere; reflexivity|].
           cbn [addr_eqb] in Ere.
           destruct (v =? marker asz); [inversion Ere; reflexivity|discriminate].
      * destruct (len <? 2 ^ 63) eqn:E63; cbn [andb negb] in Ere; [|inversion Ere; reflexivity].
        destruct (in_i64 (z + Z.of_N len)) eqn:Ei; cbn [negb] in Ere; [|inversion Ere; reflexivity].
        cbn [bind addr_eqb]. rewrite N.eqb_refl. cbn [andb].
        destruct (len =? 0) eqn:El.
        -- inversion Ere; subst. assert (len = 0) by lia; subst. change (Z.of_N 0) with 0%Z.
           rewrite Z.add_0_r, Z.eqb_refl. reflexivity.
        -- destruct (z =? z + Z.of_N len)%Z eqn:Ez; [lia|]. destruct hb; [inversion Ere; reflexivity|]. discriminate.
    + inversion Ere; reflexivity.
  - (* x is plain; the error comes from the rest *)
    apply andb_prop in Hpl. destruct Hpl as [Hp Hpl].
    specialize (IH _ _ Hr Hrej Hpl).
    destruct x as [a|b e0 d|b e0 d|b len d|d]; cbn [reject_entry plainb is_base wloc_wf] in *.
    + destruct a as [v|s z]; [|discriminate]. rewrite orb_true_r in IH.
      rewrite (lw_write_udata_fits be _ _ Hs Hmf). cbn [bind write_address].
      rewrite (lw_write_udata_fits be _ _ Hs) by lia. cbn [bind]. rewrite IH. reflexivity.
    + destruct (b =? e0); [discriminate|]. destruct hb; cbn [negb] in *; [|discriminate].
      destruct (b =? marker asz); [discriminate|]. cbn [orb] in *.
      rewrite !(lw_write_udata_fits be _ _ Hs) by lia. cbn [bind].
      destruct (lw_opt_expr4_fits loc be version d Hv ltac:(lia)) as [xx ->]. cbn [bind]. rewrite IH. reflexivity.
    + destruct b as [vb|s z]; [|discriminate]. destruct e0 as [ve|s z]; [|discriminate].
      destruct (addr_eqb (AConst vb) (AConst ve)); [discriminate|]. destruct hb; [discriminate|].
      destruct (addr_eqb (AConst vb) (AConst (marker asz))); [discriminate|]. cbn [orb write_address] in *.
      rewrite !(lw_write_udata_fits be _ _ Hs) by lia. cbn [bind].
      destruct (lw_opt_expr4_fits loc be version d Hv ltac:(lia)) as [xx ->]. cbn [bind]. rewrite IH. reflexivity.
    + destruct b as [vb|s z]; [|discriminate]. cbn [sum_fits] in Ere.
      destruct (vb + len <? 2 ^ 64) eqn:Es; cbn [negb] in Ere; [|discriminate].
      destruct (len =? 0) eqn:El; [discriminate|]. destruct hb; [discriminate|].
      destruct (addr_eqb (AConst vb) (AConst (marker asz))) eqn:Em; [discriminate|]. cbn [orb] in *.
      cbn [start_length_end]. rewrite Es. cbn [bind addr_eqb].
      destruct (vb =? vb + len) eqn:Ev; [lia|]. cbn [write_address].
      rewrite !(lw_write_udata_fits be _ _ Hs) by lia. cbn [bind].
      destruct (lw_opt_expr4_fits loc be version d Hv ltac:(lia)) as [xx ->]. cbn [bind]. rewrite IH. reflexivity.
    + discriminate.
Qed.

(* A4: a list that is not rejected has no emitted non-base pair beginning with the marker *)
Lemma lw_nomark asz : forall l hb ps,
  pairs_of l = Some ps -> rejected asz hb l = None -> Forall (pair_nomark asz) ps.
Proof.
  induction l as [|x r IH]; intros hb ps Hp Hrej; cbn [pairs_of rejected] in *.
  - inversion Hp; subst. constructor.
  - destruct (pair_of x) as [p|] eqn:Ex; [|discriminate].
    destruct (pairs_of r) as [ps'|] eqn:Er; [|discriminate]. inversion Hp; subst.
    destruct (reject_entry asz hb x) eqn:Ere; [discriminate|].
    constructor; [|eapply IH; eauto].
    destruct x as [[a|s z]|b' e' d'|[b'|s z] [e'|s' z'] d'|[b'|s z] len d'|d']; cbn [pair_of reject_entry] in *;
      try discriminate; inversion Ex; subst; cbn [pair_nomark]; try exact I.
    + destruct (b' =? e'); [discriminate|]. destruct (negb hb); [discriminate|].
      destruct (b' =? marker asz) eqn:E; [discriminate|]. rewrite <- lw_marker_mask. lia.
    + destruct (addr_eqb (AConst b') (AConst e')); [discriminate|]. destruct hb; [discriminate|].
      destruct (addr_eqb (AConst b') (AConst (marker asz))) eqn:E; [discriminate|]. cbn [addr_eqb] in E. rewrite <- lw_marker_mask. lia.
    + destruct (negb (sum_fits (LStartLength (AConst b') len d'))); [discriminate|].
      destruct (len =? 0); [discriminate|]. destruct hb; [discriminate|].
      destruct (addr_eqb (AConst b') (AConst (marker asz))) eqn:E; [discriminate|]. cbn [addr_eqb] in E. rewrite <- lw_marker_mask. lia.
Qed.

(* R4: for a list the pair format accepts, reading the pairs relative to the base means the same as the list.
   hb = false (no base address in force) implies that the reader's base is 0: address pairs are absolute. *)
Lemma lw_resolve_pairs loc asz : size_ok asz -> forall l hb base ps es,
  rejected asz hb l = None -> (hb = false -> base = 0) ->
  pairs_of l = Some ps -> ents_of l = Some es -> Forall (pair_ok loc asz) ps ->
  resolve asz base ps = resolve asz base es.
Proof.
  intros Hs. pose proof (lw_tombstone_pos _ Hs) as Ht. pose proof (lw_amod_le_64 _ Hs) as H64.
  induction l as [|x r IH]; intros hb base ps es Hrej Hb Hp He Hok; cbn [pairs_of ents_of rejected] in *.
  - inversion Hp; inversion He; subst. reflexivity.
  - destruct (pair_of x) as [p|] eqn:Ep; [|discriminate].
    destruct (pairs_of r) as [ps'|] eqn:Epr; [|discriminate].
    destruct (ent_of x) as [en|] eqn:Ee; [|discriminate].
    destruct (ents_of r) as [es'|] eqn:Eer; [|discriminate].
    inversion Hp; inversion He; subst ps es. clear Hp He.
    inversion Hok as [|? ? Hpo Hok']; subst.
    destruct (reject_entry asz hb x) eqn:Ere; [discriminate|].
    destruct x as [[a|s z]|b e d|[vb|s z] [ve|s' z'] d|[vb|s z] len d|d];
      cbn [pair_of ent_of reject_entry is_base] in *; try discriminate;
      inversion Ep; inversion Ee; subst p en; clear Ep Ee.
    + (* base *) cbn [resolve]. rewrite orb_true_r in Hrej. apply (IH true); try assumption; try reflexivity. discriminate.
    + (* offset pair *) cbn [resolve]. rewrite orb_false_r in Hrej.
      rewrite (IH hb base ps' es') by (try assumption; reflexivity). reflexivity.
    + (* start end *)
      destruct (addr_eqb (AConst vb) (AConst ve)); [discriminate|]. destruct hb; [discriminate|].
      rewrite (Hb eq_refl) in *. cbn [resolve]. rewrite Ht.
      cbn [pair_ok] in Hpo. destruct Hpo as [Hvb [Hve _]].
      rewrite !N.add_0_l, !N.mod_small by assumption.
      rewrite (IH false 0 ps' es') by (try assumption; reflexivity). reflexivity.
    + (* start length *)
      destruct (negb (sum_fits (LStartLength (AConst vb) len d))); [discriminate|].
      destruct (len =? 0); [discriminate|]. destruct hb; [discriminate|].
      rewrite (Hb eq_refl) in *. cbn [resolve]. rewrite Ht.
      cbn [pair_ok] in Hpo. destruct Hpo as [Hvb [Hve _]].
      rewrite !N.add_0_l, !N.mod_small by assumption.
      rewrite (IH false 0 ps' es') by (try assumption; reflexivity). reflexivity.
Qed.

(* write_read_v4 for one list: no side condition any more *)
Lemma lw_write_read_v4_list dbg' loc be version asz hb base l bs :
  write_list_v4 loc be version asz (marker asz) hb l = Ok bs -> version <= 4 -> Forall (wf loc) l ->
  (hb = false -> base = 0) ->
  exists ps es, pairs_of l = Some ps /\ ents_of l = Some es /\
    (forall rest, dec4 dbg' loc be asz (bs ++ rest) = Ok (ps, rest)) /\
    resolve asz base ps = resolve asz base es.
Proof.
  intros H Hv Hwf Hb.
  destruct (lw_write_v4_enc _ _ _ _ _ _ _ H Hv Hwf) as [Hs [ps [Hp [Hok ->]]]].
  destruct (lw_pairs_ents _ _ Hp) as [es He].
  pose proof (lw_never_bytes _ _ _ _ _ _ _ H Hwf) as Hrej.
  pose proof (lw_nomark _ _ _ _ Hp Hrej) as Hnm.
  exists ps, es. split; [exact Hp|]. split; [exact He|]. split.
  - intros rest. apply lw_dec4_enc_full; assumption.
  - eapply lw_resolve_pairs; eauto.
Qed.

(* table level *)
Lemma lw_write_read_v4 dbg' loc be version asz hb base start tbl out offs (sec0 : list byte) :
  write_tbl_v4 loc be version asz hb start tbl = Ok (out, offs) ->
  N.of_nat (length sec0) = start -> version <= 4 -> Forall (Forall (wf loc)) tbl ->
  (hb = false -> base = 0) ->
  length offs = length tbl /\
  forall i l, nth_error tbl i = Some l ->
    exists o ps es rest, nth_error offs i = Some o /\ ents_of l = Some es /\
      dec4 dbg' loc be asz (at_offset o (sec0 ++ out)) = Ok (ps, rest) /\
      resolve asz base ps = resolve asz base es.
Proof.
  intros H Hs Hv Hwf Hb. unfold write_tbl_v4 in H. bind_ok H.
  destruct (lw_marker_of_ok _ _ E) as [_ ->]. rewrite lw_lists_v4_gen in H.
  destruct (lw_tbl_gen_nth _ _ _ _ _ sec0 H Hs) as [Hlen Hn]. split; [exact Hlen|].
  intros i l Hl. destruct (Hn i l Hl) as [o [bs [post [Ho [Hw Hat]]]]].
  rewrite Forall_forall in Hwf. assert (Hwl : Forall (wf loc) l) by (apply Hwf; eapply nth_error_In; eauto).
  destruct (lw_write_read_v4_list dbg' _ _ _ _ _ base _ _ Hw Hv Hwl Hb) as [ps [es [Hp [He [Hd Hr]]]]].
  exists o, ps, es, post. split; [exact Ho|]. split; [exact He|]. split; [|exact Hr].
  rewrite Hat. apply Hd.
Qed.

(* ---- ambiguity: both halves hold for the repaired writers ---- *)
Lemma lw_ambiguity loc be version asz hb l bs :
  write_list_v4 loc be version asz (marker asz) hb l = Ok bs -> version <= 4 -> Forall (wf loc) l ->
  exists ps, pairs_of l = Some ps /\ bs = enc_list4 loc be asz ps /\
    Forall (fun p => match p with EPair b e _ => ~ (b = 0 /\ e = 0) /\ b <> amod asz - 1 | _ => True end) ps.
Proof.
  intros H Hv Hwf. destruct (lw_write_v4_enc _ _ _ _ _ _ _ H Hv Hwf) as [_ [ps [Hp [Hok Hb]]]].
  pose proof (lw_nomark _ _ _ _ Hp (lw_never_bytes _ _ _ _ _ _ _ H Hwf)) as Hnm.
  exists ps. split; [exact Hp|]. split; [exact Hb|].
  rewrite Forall_forall in *. intros p Hin. specialize (Hok p Hin). specialize (Hnm p Hin).
  destruct p; cbn [pair_ok pair_nomark] in *; try exact I. split; [tauto|exact Hnm].
Qed.

(* ================================================================ Part 4b: de-duplication (FnvIndexSet::insert_full) *)

Lemma lw_nodup_snoc {A} (l : list A) (x : A) : NoDup l -> ~ In x l -> NoDup (l ++ [x]).
Proof.
  induction l as [|y r IH]; intros Hnd Hx; cbn [app].
  - constructor; [intros []|constructor].
  - inversion Hnd as [|? ? Hy Hr]; subst. constructor.
    + intros Hi. apply in_app_or in Hi. destruct Hi as [Hi|[Hi|[]]]; [contradiction|]. subst. apply Hx. now left.
    + apply IH; [exact Hr|]. intros Hi. apply Hx. now right.
Qed.

Lemma lw_forall2_length {A B} (P : A -> B -> Prop) la lb : Forall2 P la lb -> length la = length lb.
Proof. induction 1; cbn [length]; congruence. Qed.

Section Dedup.
  Context {A : Type} (eqb : A -> A -> bool).
  Hypothesis eqb_spec : forall x y, eqb x y = true <-> x = y.

  Lemma lw_index_of_some x : forall l i, index_of eqb x l = Some i -> nth_error l i = Some x.
  Proof.
    induction l as [|y r IH]; intros i H; cbn [index_of] in H; [discriminate|].
    destruct (eqb x y) eqn:E.
    - inversion H; subst. apply eqb_spec in E. subst. reflexivity.
    - destruct (index_of eqb x r) as [j|] eqn:Ej; [|discriminate]. inversion H; subst. cbn [nth_error]. now apply IH.
  Qed.

  Lemma lw_index_of_none x : forall l, index_of eqb x l = None -> ~ In x l.
  Proof.
    induction l as [|y r IH]; intros H; cbn [index_of] in H; [intros []|].
    destruct (eqb x y) eqn:E; [discriminate|].
    destruct (index_of eqb x r) eqn:Ej; [discriminate|].
    intros [Hy|Hr]; [|now apply IH].
    subst y. assert (eqb x x = true) by (apply eqb_spec; reflexivity). congruence.
  Qed.

  (* one insertion: the id points at the list, earlier ids stay valid, no duplicate is created *)
  Lemma lw_tbl_add tbl x t i :
    tbl_add eqb tbl x = (t, i) ->
    nth_error t i = Some x /\ (exists suffix, t = tbl ++ suffix) /\ (NoDup tbl -> NoDup t) /\
    (forall y, In y t -> In y tbl \/ y = x).
  Proof.
    unfold tbl_add. destruct (index_of eqb x tbl) as [j|] eqn:E; intros H; inversion H; subst.
    - split; [now apply lw_index_of_some|]. split; [exists []; now rewrite app_nil_r|]. split; [auto|]. auto.
    - split; [rewrite nth_error_app2, Nat.sub_diag by lia; reflexivity|].
      split; [eauto|]. split.
      + intros Hnd. apply lw_nodup_snoc; [exact Hnd|]. now apply lw_index_of_none.
      + intros y Hy. apply in_app_or in Hy. destruct Hy as [Hy|[Hy|[]]]; auto.
  Qed.

  Lemma lw_tbl_add_all : forall xs tbl t ids,
    tbl_add_all eqb tbl xs = (t, ids) -> NoDup tbl ->
    NoDup t /\ (exists suffix, t = tbl ++ suffix) /\
    Forall2 (fun x i => nth_error t i = Some x) xs ids /\
    (forall y, In y t -> In y tbl \/ In y xs).
  Proof.
    induction xs as [|x r IH]; intros tbl t ids H Hnd; cbn [tbl_add_all] in H.
    - inversion H; subst. split; [exact Hnd|]. split; [exists []; now rewrite app_nil_r|]. split; [constructor|auto].
    - destruct (tbl_add eqb tbl x) as [t1 i] eqn:E1. destruct (tbl_add_all eqb t1 r) as [t2 ids'] eqn:E2.
      inversion H; subst. destruct (lw_tbl_add _ _ _ _ E1) as [Hi [[s1 Hs1] [Hn1 Hin1]]].
      destruct (IH _ _ _ E2 (Hn1 Hnd)) as [Hn2 [[s2 Hs2] [HF Hin2]]].
      split; [exact Hn2|]. split; [exists (s1 ++ s2); subst; now rewrite app_assoc|]. split.
      + constructor; [|exact HF]. subst t. rewrite nth_error_app1; [exact Hi|].
        apply nth_error_Some. congruence.
      + intros y Hy. destruct (Hin2 y Hy) as [Hy1|Hy2]; [|right; now right].
        destruct (Hin1 y Hy1) as [? | ->]; [now left|right; now left].
  Qed.

  (* equal lists <-> equal ids; the table holds each distinct list once *)
  Lemma lw_dedup xs t ids :
    tbl_add_all eqb [] xs = (t, ids) ->
    NoDup t /\ length ids = length xs /\
    (forall k x, nth_error xs k = Some x -> exists i, nth_error ids k = Some i /\ nth_error t i = Some x) /\
    (forall k1 k2 x1 x2 i1 i2, nth_error xs k1 = Some x1 -> nth_error xs k2 = Some x2 ->
       nth_error ids k1 = Some i1 -> nth_error ids k2 = Some i2 -> (x1 = x2 <-> i1 = i2)) /\
    (forall y, In y t <-> In y xs).
  Proof.
    intros H. destruct (lw_tbl_add_all _ _ _ _ H (NoDup_nil A)) as [Hnd [_ [HF Hin]]].
    split; [exact Hnd|]. split; [symmetry; eapply lw_forall2_length; eauto|].
    assert (Hk : forall k x, nth_error xs k = Some x -> exists i, nth_error ids k = Some i /\ nth_error t i = Some x).
    { intros k x Hx. destruct (lw_forall2_nth _ _ _ _ _ HF Hx) as [i [Hi Ht]]. eauto. }
    split; [exact Hk|]. split.
    - intros k1 k2 x1 x2 i1 i2 H1 H2 Hi1 Hi2.
      destruct (Hk _ _ H1) as [j1 [Hj1 Ht1]]. destruct (Hk _ _ H2) as [j2 [Hj2 Ht2]].
      assert (j1 = i1) by congruence. assert (j2 = i2) by congruence. subst j1 j2. split.
      + intros ->. eapply (proj1 (NoDup_nth_error t) Hnd); [apply nth_error_Some; congruence|congruence].
      + intros ->. congruence.
    - intros y. split.
      + intros Hy. destruct (Hin y Hy) as [[]|Hy']; exact Hy'.
      + intros Hy. apply In_nth_error in Hy. destruct Hy as [k Hkx].
        destruct (Hk _ _ Hkx) as [i [_ Hti]]. eapply nth_error_In; eauto.
  Qed.
End Dedup.

Lemma lw_addr_eqb_spec a b : addr_eqb a b = true <-> a = b.
Proof.
  destruct a as [x|s z], b as [y|s' z']; cbn [addr_eqb]; split; intros H; try discriminate.
  - f_equal; lia. - inversion H; lia. - apply andb_prop in H. destruct H. f_equal; lia.
  - inversion H; subst. rewrite N.eqb_refl, Z.eqb_refl. reflexivity.
Qed.

Lemma lw_bytes_eqb_spec : forall a b, bytes_eqb' a b = true <-> a = b.
Proof.
  induction a as [|x r IH]; intros [|y s]; cbn [bytes_eqb']; split; intros H; try discriminate; try reflexivity.
  - apply andb_prop in H. destruct H as [H1 H2]. f_equal; [apply b2n_inj; lia|now apply IH].
  - inversion H; subst. rewrite N.eqb_refl. cbn [andb]. now apply IH.
Qed.

Lemma lw_list_eqb_spec {A} (eqb : A -> A -> bool) :
  (forall x y, eqb x y = true <-> x = y) -> forall a b, list_eqb eqb a b = true <-> a = b.
Proof.
  intros He. induction a as [|x r IH]; intros [|y s]; cbn [list_eqb]; split; intros H; try discriminate; try reflexivity.
  - apply andb_prop in H. destruct H as [H1 H2]. f_equal; [now apply He|now apply IH].
  - inversion H; subst. apply andb_true_intro. split; [now apply He|now apply IH].
Qed.

Lemma lw_wloc_eqb_spec x y : wloc_eqb x y = true <-> x = y.
Proof.
  destruct x, y; cbn [wloc_eqb]; split; intros H; try discriminate;
    repeat match goal with
           | H : _ && _ = true |- _ => apply andb_prop in H; destruct H
           | H : addr_eqb _ _ = true |- _ => apply lw_addr_eqb_spec in H
           | H : bytes_eqb' _ _ = true |- _ => apply lw_bytes_eqb_spec in H
           | H : (_ =? _) = true |- _ => apply N.eqb_eq in H
           end; subst; try reflexivity;
    inversion H; subst;
    repeat (apply andb_true_intro; split);
    try (apply lw_addr_eqb_spec; reflexivity); try (apply lw_bytes_eqb_spec; reflexivity); try apply N.eqb_refl.
Qed.

Lemma lw_wrange_eqb_spec x y : wrange_eqb x y = true <-> x = y.
Proof.
  destruct x, y; cbn [wrange_eqb]; split; intros H; try discriminate;
    repeat match goal with
           | H : _ && _ = true |- _ => apply andb_prop in H; destruct H
           | H : addr_eqb _ _ = true |- _ => apply lw_addr_eqb_spec in H
           | H : (_ =? _) = true |- _ => apply N.eqb_eq in H
           end; subst; try reflexivity;
    inversion H; subst;
    repeat (apply andb_true_intro; split);
    try (apply lw_addr_eqb_spec; reflexivity); try apply N.eqb_refl.
Qed.

(* ================================================================ Part 5: the unit base address *)

Lemma lw_is_const0 v : is_address_const0 v = true <-> v = VAddress (AConst 0).
Proof.
  destruct v as [[[|p]|s z]|u|]; cbn [is_address_const0]; split; intros H; try discriminate; try reflexivity.
Qed.

(* the writer's flag is false only when the reader's base address is 0 *)
Lemma lw_base_from_root attrs : have_base_address attrs = false -> unit_base attrs = 0.
Proof.
  unfold unit_base, have_base_address.
  assert (G : forall attrs cur,
    (cur = None \/ cur = Some (VAddress (AConst 0))) ->
    existsb (fun p => (fst p =? DW_AT_low_pc) && negb (is_address_const0 (snd p))) attrs = false ->
    last_low_pc cur attrs = None \/ last_low_pc cur attrs = Some (VAddress (AConst 0))).
  { induction attrs0 as [|[n v] r IH]; intros cur Hc H; cbn [last_low_pc existsb fst snd] in *; [exact Hc|].
    apply orb_false_elim in H. destruct H as [H1 H2].
    apply IH; [|exact H2]. destruct (n =? DW_AT_low_pc); [|exact Hc].
    cbn [andb] in H1. right. f_equal. apply lw_is_const0. destruct (is_address_const0 v); [reflexivity|discriminate]. }
  intros H. destruct (G attrs None (or_introl eq_refl) H) as [-> | ->]; reflexivity.
Qed.

Lemma lw_have_base_iff attrs :
  have_base_address attrs = true <->
  exists v, In (DW_AT_low_pc, v) attrs /\ v <> VAddress (AConst 0).
Proof.
  unfold have_base_address. rewrite existsb_exists. split.
  - intros [[n v] [Hin H]]. cbn [fst snd] in H. apply andb_prop in H. destruct H as [Hn Hv].
    assert (n = DW_AT_low_pc) by lia; subst n. exists v. split; [exact Hin|].
    intros Hc. apply lw_is_const0 in Hc. rewrite Hc in Hv. discriminate.
  - intros [v [Hin Hv]]. exists (DW_AT_low_pc, v). split; [exact Hin|]. cbn [fst snd].
    rewrite N.eqb_refl. cbn [andb]. destruct (is_address_const0 v) eqn:E; [|reflexivity].
    apply lw_is_const0 in E. contradiction.
Qed.

(* ================================================================ Part 6: panic freedom *)

Definition np {A} (r : res A) : Prop := r <> Panic /\ r <> OutOfFuel.

Lemma lw_np_ok {A} (a : A) : np (Ok a). Proof. split; discriminate. Qed.
Lemma lw_np_err {A} e : np (@Err A e). Proof. split; discriminate. Qed.
Lemma lw_np_bind {A B} (r : res A) (f : A -> res B) :
  np r -> (forall a, r = Ok a -> np (f a)) -> np (bind r f).
Proof. intros [H1 H2] Hf. destruct r; cbn [bind]; try contradiction; [now apply Hf|apply lw_np_err]. Qed.

Lemma lw_np_write_udata be v size : np (write_udata be v size).
Proof.
  unfold write_udata.
  repeat match goal with |- np (if ?c then _ else _) => destruct c end; try apply lw_np_ok; apply lw_np_err.
Qed.

Lemma lw_np_write_address be a size : np (write_address be a size).
Proof. destruct a; cbn [write_address]; [apply lw_np_write_udata|apply lw_np_err]. Qed.

Lemma lw_np_write_uleb v : v < 2 ^ 64 -> np (write_uleb128 v).
Proof. intros Hv. destruct (lw_write_uleb_total v Hv) as [bs ->]. apply lw_np_ok. Qed.

Lemma lw_np_opt_expression loc be version d : N.of_nat (length d) < 2 ^ 64 -> np (opt_expression loc be version d).
Proof.
  intros Hd. unfold opt_expression, write_expression. destruct loc; [|apply lw_np_ok].
  apply lw_np_bind; [|intros; apply lw_np_ok].
  destruct (version <=? 4); [apply lw_np_write_udata|now apply lw_np_write_uleb].
Qed.

Ltac np_step :=
  first [ apply lw_np_ok | apply lw_np_err | apply lw_np_write_udata | apply lw_np_write_address
        | (apply lw_np_write_uleb; tauto) | (apply lw_np_opt_expression; assumption)
        | (apply lw_np_bind; [|intros ? ?]) ].

Lemma lw_np_entry_v5 loc be version asz x : wf loc x -> np (write_entry_v5 loc be version asz x).
Proof.
  intros [Hw [Hd _]]. destruct x as [a|b e d|b e d|b len d|d]; cbn [write_entry_v5 wloc_wf data_of] in *;
    repeat np_step.
Qed.

Lemma lw_np_list_v5 loc be version asz l : Forall (wf loc) l -> np (write_list_v5 loc be version asz l).
Proof.
  induction 1 as [|x r Hx Hr IH]; cbn [write_list_v5]; [apply lw_np_ok|].
  apply lw_np_bind; [now apply lw_np_entry_v5|intros ? _]. apply lw_np_bind; [exact IH|intros ? _; apply lw_np_ok].
Qed.

Lemma lw_np_tbl_gen f : forall tbl pos, Forall (fun l => np (f l)) tbl -> np (tbl_gen f pos tbl).
Proof.
  induction tbl as [|l r IH]; intros pos H; cbn [tbl_gen]; [apply lw_np_ok|].
  inversion H; subst. apply lw_np_bind; [assumption|intros ? _].
  apply lw_np_bind; [now apply IH|intros [? ?] _; apply lw_np_ok].
Qed.

Lemma lw_np_initial_length fmt64 be len : np (write_initial_length fmt64 be len).
Proof.
  unfold write_initial_length. destruct (negb fmt64 && (4294967280 <=? len) && (len <=? 4294967295)); [apply lw_np_err|].
  apply lw_np_bind; [apply lw_np_write_udata|intros; apply lw_np_ok].
Qed.

Lemma lw_np_tbl_v5 loc be fmt64 version asz start tbl :
  Forall (Forall (wf loc)) tbl -> np (write_tbl_v5 loc be fmt64 version asz start tbl).
Proof.
  intros H. unfold write_tbl_v5. destruct (negb (version =? 5)); [apply lw_np_err|].
  rewrite lw_lists_v5_gen. apply lw_np_bind.
  - apply lw_np_tbl_gen. eapply Forall_impl; [|exact H]. intros l Hl. now apply lw_np_list_v5.
  - intros [body offs] _. apply lw_np_bind; [apply lw_np_initial_length|intros; apply lw_np_ok].
Qed.


Lemma lw_np_sle b len : np (start_length_end b len).
Proof.
  destruct b as [v|s z]; cbn [start_length_end].
  - destruct (v + len <? 2 ^ 64); [apply lw_np_ok|apply lw_np_err].
  - destruct (len <? 2 ^ 63); [|apply lw_np_err]. destruct (in_i64 (z + Z.of_N len)); [apply lw_np_ok|apply lw_np_err].
Qed.

(* since the repair no operation of the pre-v5 writers can overflow: no side condition on the input *)
Lemma lw_np_list_v4 loc be version asz mk : forall l hb,
  Forall (wf loc) l -> np (write_list_v4 loc be version asz mk hb l).
Proof.
  induction l as [|x r IH]; intros hb Hwf; cbn [write_list_v4].
  - repeat np_step.
  - inversion Hwf as [|? ? [Hw [Hd _]] Hr]; subst.
    destruct x as [a|b e d|b e d|b len d|d]; cbn [wloc_wf data_of] in *.
    + repeat np_step. now apply IH.
    + destruct (b =? e); [apply lw_np_err|]. destruct (negb hb); [apply lw_np_err|].
      destruct (b =? mk); [apply lw_np_err|]. repeat np_step. now apply IH.
    + destruct (addr_eqb b e); [apply lw_np_err|]. destruct hb; [apply lw_np_err|].
      destruct (addr_eqb b (AConst mk)); [apply lw_np_err|]. repeat np_step. now apply IH.
    + apply lw_np_bind; [apply lw_np_sle|].
      intros e' _. destruct (addr_eqb b e'); [apply lw_np_err|]. destruct hb; [apply lw_np_err|].
      destruct (addr_eqb b (AConst mk)); [apply lw_np_err|]. repeat np_step. now apply IH.
    + apply lw_np_err.
Qed.

Lemma lw_np_tbl_v4 loc be version asz hb start tbl :
  Forall (Forall (wf loc)) tbl -> np (write_tbl_v4 loc be version asz hb start tbl).
Proof.
  intros Hwf. unfold write_tbl_v4. apply lw_np_bind.
  - unfold marker_of. destruct ((1 <=? asz) && (asz <=? 8)); [apply lw_np_ok|apply lw_np_err].
  - intros mk _. rewrite lw_lists_v4_gen. apply lw_np_tbl_gen.
    rewrite Forall_forall in *. intros l Hl. apply lw_np_list_v4; auto.
Qed.

Lemma lw_np_table_write loc be fmt64 version asz hb start tbl :
  Forall (Forall (wf loc)) tbl -> np (table_write loc be fmt64 version asz hb start tbl).
Proof.
  intros Hwf. unfold table_write. destruct tbl as [|l r]; [apply lw_np_ok|].
  destruct ((2 <=? version) && (version <=? 4)); [now apply lw_np_tbl_v4|].
  destruct (version =? 5); [now apply lw_np_tbl_v5|apply lw_np_err].
Qed.

Lemma lw_np_root_attrs be asz attrs : np (root_attrs_write be asz attrs).
Proof.
  induction attrs as [|[n v] r IH]; cbn [root_attrs_write]; [apply lw_np_ok|].
  destruct v; try exact IH. apply lw_np_bind; [apply lw_np_write_address|intros; exact IH].
Qed.

Lemma lw_wf_map_range rtbl :
  Forall (Forall wloc_wf) (map (map loc_of_range) rtbl) -> Forall (Forall (wf false)) (map (map loc_of_range) rtbl).
Proof.
  intros H. rewrite Forall_forall in *. intros l Hl. specialize (H l Hl).
  apply in_map_iff in Hl. destruct Hl as [rl [<- _]].
  rewrite Forall_forall in *. intros x Hx. specialize (H x Hx).
  apply in_map_iff in Hx. destruct Hx as [r [<- _]]. now apply lw_wf_range.
Qed.

Lemma lw_np_unit be fmt64 version asz attrs rstart lstart rtbl ltbl :
  Forall (Forall wloc_wf) (map (map loc_of_range) rtbl) -> Forall (Forall (wf true)) ltbl ->
  np (unit_write_lists be fmt64 version asz attrs rstart lstart rtbl ltbl).
Proof.
  intros Hr Hl. unfold unit_write_lists.
  destruct (negb ((2 <=? version) && (version <=? 5))); [apply lw_np_err|].
  apply lw_np_bind; [apply lw_np_table_write; now apply lw_wf_map_range|intros ? _].
  apply lw_np_bind; [now apply lw_np_table_write|intros ? _].
  apply lw_np_bind; [apply lw_np_root_attrs|intros; apply lw_np_ok].
Qed.

(* ================================================================ Part 7: RangeListTable::write / LocationListTable::write / Unit::write *)

Lemma lw_table_read_v5 dbg' loc be fmt64 asz hb start tbl out offs (sec0 : list byte) :
  table_write loc be fmt64 5 asz hb start tbl = Ok (out, offs) ->
  N.of_nat (length sec0) = start -> Forall (Forall (wf loc)) tbl ->
  length offs = length tbl /\
  forall i l, nth_error tbl i = Some l ->
    exists o es rest, nth_error offs i = Some o /\ ents_of l = Some es /\
      dec5 dbg' loc be asz (at_offset o (sec0 ++ out)) = Ok (es, rest).
Proof.
  intros H Hs Hwf. destruct tbl as [|l0 r].
  - cbn [table_write] in H. inversion H; subst. split; [reflexivity|]. intros [|i] l Hl; discriminate Hl.
  - unfold table_write in H. change ((2 <=? 5) && (5 <=? 4)) with false in H. change (5 =? 5) with true in H. cbv iota in H.
    eapply lw_write_read_v5; eauto.
Qed.

Lemma lw_table_read_v4 dbg' loc be fmt64 version asz hb base start tbl out offs (sec0 : list byte) :
  table_write loc be fmt64 version asz hb start tbl = Ok (out, offs) ->
  2 <= version <= 4 ->
  N.of_nat (length sec0) = start -> Forall (Forall (wf loc)) tbl -> (hb = false -> base = 0) ->
  length offs = length tbl /\
  forall i l, nth_error tbl i = Some l ->
    exists o ps es rest, nth_error offs i = Some o /\ ents_of l = Some es /\
      dec4 dbg' loc be asz (at_offset o (sec0 ++ out)) = Ok (ps, rest) /\
      resolve asz base ps = resolve asz base es.
Proof.
  intros H Hv Hs Hwf Hb. destruct tbl as [|l0 r].
  - cbn [table_write] in H. inversion H; subst. split; [reflexivity|]. intros [|i] l Hl; discriminate Hl.
  - unfold table_write in H. destruct ((2 <=? version) && (version <=? 4)) eqn:E; [|lia].
    eapply lw_write_read_v4; eauto. lia.
Qed.

Lemma lw_meaning_rng asz base (l : list wrange) es :
  ents_of (map loc_of_range l) = Some es -> meaning_rng asz base l = Some (map fst (resolve asz base es)).
Proof. intros H. unfold meaning_rng. rewrite H. reflexivity. Qed.

Lemma lw_meaning_loc asz base (l : list wloc) es :
  ents_of l = Some es -> meaning_loc asz base l = Some (resolve asz base es).
Proof. intros H. unfold meaning_loc. rewrite H. reflexivity. Qed.

Definition unit_wf (rtbl : list (list wrange)) (ltbl : list (list wloc)) : Prop :=
  Forall (Forall wloc_wf) (map (map loc_of_range) rtbl) /\ Forall (Forall (wf true)) ltbl.

(* Unit::write, DWARF 5: every added list is found at the offset recorded for its id and decodes to exactly its
   entries; hence it means, relative to ANY base address, what the written list means *)
(* Unit::write, DWARF 5: every added list is found at the offset recorded for its id and decodes to exactly its
   entries; hence it means, relative to ANY base address, what the written list means *)
Lemma lw_unit_read_v5 dbg' be fmt64 asz attrs rstart lstart rtbl ltbl rb ro lb lo (rsec lsec : list byte) base :
  unit_write_lists be fmt64 5 asz attrs rstart lstart rtbl ltbl = Ok ((rb, ro), (lb, lo)) ->
  N.of_nat (length rsec) = rstart -> N.of_nat (length lsec) = lstart -> unit_wf rtbl ltbl ->
  (forall i l, nth_error rtbl i = Some l ->
     exists o es rest, nth_error ro i = Some o /\
       dec5 dbg' false be asz (at_offset o (rsec ++ rb)) = Ok (es, rest) /\
       ents_of (map loc_of_range l) = Some es /\
       meaning_rng asz base l = Some (map fst (resolve asz base es))) /\
  (forall i l, nth_error ltbl i = Some l ->
     exists o es rest, nth_error lo i = Some o /\
       dec5 dbg' true be asz (at_offset o (lsec ++ lb)) = Ok (es, rest) /\
       ents_of l = Some es /\
       meaning_loc asz base l = Some (resolve asz base es)).
Proof.
  unfold unit_write_lists. change (negb ((2 <=? 5) && (5 <=? 5))) with false. cbv iota.
  intros H Hrs Hls [Hwr Hwl]. bind_ok H. bind_ok H. bind_ok H. inversion H; subst. split.
  - intros i l Hl.
    destruct (lw_table_read_v5 dbg' _ _ _ _ _ _ _ _ _ rsec E eq_refl (lw_wf_map_range _ Hwr)) as [_ Hn].
    destruct (Hn i (map loc_of_range l) (map_nth_error _ _ _ Hl)) as [o [es [rest [Ho [He Hd]]]]].
    exists o, es, rest. repeat split; try assumption. now apply lw_meaning_rng.
  - intros i l Hl.
    destruct (lw_table_read_v5 dbg' _ _ _ _ _ _ _ _ _ lsec E0 eq_refl Hwl) as [_ Hn].
    destruct (Hn i l Hl) as [o [es [rest [Ho [He Hd]]]]].
    exists o, es, rest. repeat split; try assumption. now apply lw_meaning_loc.
Qed.

(* Unit::write, DWARF 2-4: EVERY added list reads back, through the unit's base address as the reader derives it
   from the root DIE, as what the written list means *)
Lemma lw_unit_read_v4 dbg' be fmt64 version asz attrs rstart lstart rtbl ltbl rb ro lb lo (rsec lsec : list byte) :
  unit_write_lists be fmt64 version asz attrs rstart lstart rtbl ltbl = Ok ((rb, ro), (lb, lo)) ->
  2 <= version <= 4 ->
  N.of_nat (length rsec) = rstart -> N.of_nat (length lsec) = lstart -> unit_wf rtbl ltbl ->
  (forall i l, nth_error rtbl i = Some l ->
     exists o ps rest, nth_error ro i = Some o /\
       dec4 dbg' false be asz (at_offset o (rsec ++ rb)) = Ok (ps, rest) /\
       meaning_rng asz (unit_base attrs) l = Some (map fst (resolve asz (unit_base attrs) ps))) /\
  (forall i l, nth_error ltbl i = Some l ->
     exists o ps rest, nth_error lo i = Some o /\
       dec4 dbg' true be asz (at_offset o (lsec ++ lb)) = Ok (ps, rest) /\
       meaning_loc asz (unit_base attrs) l = Some (resolve asz (unit_base attrs) ps)).
Proof.
  unfold unit_write_lists. intros H Hv Hrs Hls [Hwr Hwl]. set (base := unit_base attrs).
  destruct (negb ((2 <=? version) && (version <=? 5))); [discriminate|].
  bind_ok H. bind_ok H. bind_ok H. inversion H; subst.
  pose proof (lw_base_from_root attrs) as Hb. fold base in Hb. split.
  - intros i l Hl.
    destruct (lw_table_read_v4 dbg' _ _ _ _ _ _ base _ _ _ _ rsec E Hv eq_refl (lw_wf_map_range _ Hwr) Hb) as [_ Hn].
    destruct (Hn i (map loc_of_range l) (map_nth_error _ _ _ Hl)) as [o [ps [es [rest [Ho [He [Hd Hr]]]]]]].
    exists o, ps, rest. repeat split; try assumption. rewrite Hr. now apply lw_meaning_rng.
  - intros i l Hl.
    destruct (lw_table_read_v4 dbg' _ _ _ _ _ _ base _ _ _ _ lsec E0 Hv eq_refl Hwl Hb) as [_ Hn].
    destruct (Hn i l Hl) as [o [ps [es [rest [Ho [He [Hd Hr]]]]]]].
    exists o, ps, rest. repeat split; try assumption. rewrite Hr. now apply lw_meaning_loc.
Qed.

(* rejects, through Unit::write with one list *)
Lemma lw_rejects_unit_rng be fmt64 version asz attrs rstart lstart (l : list wrange) e :
  size_ok asz -> 2 <= version <= 4 -> Forall wloc_wf (map loc_of_range l) ->
  rejected asz (have_base_address attrs) (map loc_of_range l) = Some e ->
  plain_until_reject asz (have_base_address attrs) (map loc_of_range l) = true ->
  unit_write_lists be fmt64 version asz attrs rstart lstart [l] [] = Err e.
Proof.
  intros Hs Hv Hwf Hr Hp. unfold unit_write_lists.
  destruct (negb ((2 <=? version) && (version <=? 5))) eqn:E; [lia|].
  cbn [map table_write]. destruct ((2 <=? version) && (version <=? 4)) eqn:E4; [|lia].
  unfold write_tbl_v4. rewrite (lw_marker_of_valid _ Hs). cbn [bind write_lists_v4].
  rewrite (lw_rejects false be version asz Hs ltac:(lia) _ _ _ Hwf Hr Hp). reflexivity.
Qed.

Lemma lw_rejects_unit_loc be fmt64 version asz attrs rstart lstart (l : list wloc) e :
  size_ok asz -> 2 <= version <= 4 -> Forall wloc_wf l ->
  rejected asz (have_base_address attrs) l = Some e ->
  plain_until_reject asz (have_base_address attrs) l = true ->
  unit_write_lists be fmt64 version asz attrs rstart lstart [] [l] = Err e.
Proof.
  intros Hs Hv Hwf Hr Hp. unfold unit_write_lists.
  destruct (negb ((2 <=? version) && (version <=? 5))) eqn:E; [lia|].
  cbn [map table_write bind]. destruct ((2 <=? version) && (version <=? 4)) eqn:E4; [|lia].
  unfold write_tbl_v4. rewrite (lw_marker_of_valid _ Hs). cbn [bind write_lists_v4].
  rewrite (lw_rejects true be version asz Hs ltac:(lia) _ _ _ Hwf Hr Hp). reflexivity.
Qed.

(* an address size outside 1..8 is refused before anything is written, whatever the lists are *)
Lemma lw_rejects_bad_address_size loc be fmt64 version asz hb start tbl :
  2 <= version <= 4 -> ~ (1 <= asz <= 8) -> tbl <> [] ->
  table_write loc be fmt64 version asz hb start tbl = Err WUnsupportedWordSize.
Proof.
  intros Hv Ha Ht. unfold table_write. destruct tbl as [|l r]; [contradiction|].
  destruct ((2 <=? version) && (version <=? 4)) eqn:E; [|lia].
  unfold write_tbl_v4. rewrite (lw_marker_of_bad _ Ha). reflexivity.
Qed.

Lemma lw_rejects_unit_bad_address_size be fmt64 version asz attrs rstart lstart rtbl ltbl :
  2 <= version <= 4 -> ~ (1 <= asz <= 8) -> rtbl <> [] \/ ltbl <> [] ->
  unit_write_lists be fmt64 version asz attrs rstart lstart rtbl ltbl = Err WUnsupportedWordSize.
Proof.
  intros Hv Ha Ht. unfold unit_write_lists.
  destruct (negb ((2 <=? version) && (version <=? 5))) eqn:E; [lia|].
  destruct rtbl as [|l r].
  - cbn [map table_write bind]. destruct Ht as [Ht|Ht]; [contradiction|].
    rewrite (lw_rejects_bad_address_size true be fmt64 version asz _ lstart ltbl Hv Ha Ht). reflexivity.
  - rewrite (lw_rejects_bad_address_size false be fmt64 version asz _ rstart (map (map loc_of_range) (l :: r)) Hv Ha)
      by (cbn [map]; discriminate). reflexivity.
Qed.

(* ================================================================ Part 8: statements exported to Properties/C16.v *)

Lemma lwp_one_copy_v4 : forall loc be version asz hb pos tbl body offs,
  write_tbl_v4 loc be version asz hb pos tbl = Ok (body, offs) ->
  exists bss, Forall2 (fun l bs => write_list_v4 loc be version asz (marker asz) hb l = Ok bs) tbl bss /\
    body = concat bss /\ offs = offsets_from pos bss.
Proof.
  intros loc be version asz hb pos tbl body offs H. unfold write_tbl_v4 in H. bind_ok H.
  destruct (lw_marker_of_ok _ _ E) as [_ ->]. rewrite lw_lists_v4_gen in H. exact (lw_tbl_gen_char _ _ _ _ _ H).
Qed.

Lemma lwp_one_copy_v5 : forall loc be version asz pos tbl body offs,
  write_lists_v5 loc be version asz pos tbl = Ok (body, offs) ->
  exists bss, Forall2 (fun l bs => write_list_v5 loc be version asz l = Ok bs) tbl bss /\
    body = concat bss /\ offs = offsets_from pos bss.
Proof. intros loc be version asz pos tbl body offs H. rewrite lw_lists_v5_gen in H. exact (lw_tbl_gen_char _ _ _ _ _ H). Qed.

Lemma lwp_no_panic : forall be fmt64 version asz attrs rstart lstart (rtbl : list (list wrange)) (ltbl : list (list wloc)),
  unit_wf rtbl ltbl ->
  unit_write_lists be fmt64 version asz attrs rstart lstart rtbl ltbl <> Panic /\
  unit_write_lists be fmt64 version asz attrs rstart lstart rtbl ltbl <> OutOfFuel.
Proof. intros be fmt64 version asz attrs rstart lstart rtbl ltbl [Hr Hl]. exact (lw_np_unit be fmt64 version asz attrs rstart lstart rtbl ltbl Hr Hl). Qed.

Lemma lwp_rejects_v4 : forall (loc be : bool) (version asz : N) (l : list wloc) (hb : bool) (e : error),
  size_ok asz -> version <= 4 -> Forall wloc_wf l ->
  rejected asz hb l = Some e -> plain_until_reject asz hb l = true ->
  write_list_v4 loc be version asz (marker asz) hb l = Err e.
Proof. intros loc be version asz l hb e Hs Hv. exact (lw_rejects loc be version asz Hs Hv l hb e). Qed.

Lemma lwp_rejected_never_bytes : forall (loc be : bool) (version asz : N) (l : list wloc) (hb : bool) (bs : list byte),
  write_list_v4 loc be version asz (marker asz) hb l = Ok bs -> Forall (wf loc) l -> rejected asz hb l = None.
Proof. intros loc be version asz. exact (lw_never_bytes loc be version asz). Qed.

Lemma lwp_dedup_rng : forall (xs : list (list wrange)) t ids,
  rng_add_all [] xs = (t, ids) ->
  NoDup t /\ length ids = length xs /\
  (forall k x, nth_error xs k = Some x -> exists i, nth_error ids k = Some i /\ nth_error t i = Some x) /\
  (forall k1 k2 x1 x2 i1 i2, nth_error xs k1 = Some x1 -> nth_error xs k2 = Some x2 ->
     nth_error ids k1 = Some i1 -> nth_error ids k2 = Some i2 -> (x1 = x2 <-> i1 = i2)) /\
  (forall y, In y t <-> In y xs).
Proof. exact (lw_dedup _ (lw_list_eqb_spec _ lw_wrange_eqb_spec)). Qed.

Lemma lwp_dedup_loc : forall (xs : list (list wloc)) t ids,
  loc_add_all [] xs = (t, ids) ->
  NoDup t /\ length ids = length xs /\
  (forall k x, nth_error xs k = Some x -> exists i, nth_error ids k = Some i /\ nth_error t i = Some x) /\
  (forall k1 k2 x1 x2 i1 i2, nth_error xs k1 = Some x1 -> nth_error xs k2 = Some x2 ->
     nth_error ids k1 = Some i1 -> nth_error ids k2 = Some i2 -> (x1 = x2 <-> i1 = i2)) /\
  (forall y, In y t <-> In y xs).
Proof. exact (lw_dedup _ (lw_list_eqb_spec _ lw_wloc_eqb_spec)). Qed.

(* ================================================================ Part 9: add ... add; write; read — end to end *)

Lemma lw_offsets_get offs i o : nth_error offs i = Some o -> offsets_get offs i = Ok o.
Proof. unfold offsets_get. intros ->. reflexivity. Qed.

Lemma lwp_added_lists_read_back_v5 :
  forall (dbg' be fmt64 : bool) (asz : N) attrs (rstart lstart : N)
    (rxs : list (list wrange)) (lxs : list (list wloc)) rtbl rids ltbl lids rb ro lb lo (rsec lsec : list byte) (base : N),
  rng_add_all [] rxs = (rtbl, rids) -> loc_add_all [] lxs = (ltbl, lids) ->
  unit_write_lists be fmt64 5 asz attrs rstart lstart rtbl ltbl = Ok ((rb, ro), (lb, lo)) ->
  N.of_nat (length rsec) = rstart -> N.of_nat (length lsec) = lstart -> unit_wf rtbl ltbl ->
  (forall k x, nth_error rxs k = Some x ->
     exists id o es rest, nth_error rids k = Some id /\ offsets_get ro id = Ok o /\
       dec5 dbg' false be asz (at_offset o (rsec ++ rb)) = Ok (es, rest) /\
       ents_of (map loc_of_range x) = Some es /\
       meaning_rng asz base x = Some (map fst (resolve asz base es))) /\
  (forall k x, nth_error lxs k = Some x ->
     exists id o es rest, nth_error lids k = Some id /\ offsets_get lo id = Ok o /\
       dec5 dbg' true be asz (at_offset o (lsec ++ lb)) = Ok (es, rest) /\
       ents_of x = Some es /\
       meaning_loc asz base x = Some (resolve asz base es)).
Proof.
  intros dbg' be fmt64 asz attrs rstart lstart rxs lxs rtbl rids ltbl lids rb ro lb lo rsec lsec base
    Hra Hla Hw Hrs Hls Hwf.
  destruct (lw_dedup _ (lw_list_eqb_spec _ lw_wrange_eqb_spec) _ _ _ Hra) as [_ [_ [Hrk _]]].
  destruct (lw_dedup _ (lw_list_eqb_spec _ lw_wloc_eqb_spec) _ _ _ Hla) as [_ [_ [Hlk _]]].
  destruct (lw_unit_read_v5 dbg' _ _ _ _ _ _ _ _ _ _ _ _ rsec lsec base Hw Hrs Hls Hwf) as [Hr Hl]. split.
  - intros k x Hx. destruct (Hrk k x Hx) as [id [Hid Ht]].
    destruct (Hr id x Ht) as [o [es [rest [Ho [Hd [He Hm]]]]]].
    exists id, o, es, rest. repeat split; try assumption. now apply lw_offsets_get.
  - intros k x Hx. destruct (Hlk k x Hx) as [id [Hid Ht]].
    destruct (Hl id x Ht) as [o [es [rest [Ho [Hd [He Hm]]]]]].
    exists id, o, es, rest. repeat split; try assumption. now apply lw_offsets_get.
Qed.

Lemma lwp_added_lists_read_back_v4 :
  forall (dbg' be fmt64 : bool) (version asz : N) attrs (rstart lstart : N)
    (rxs : list (list wrange)) (lxs : list (list wloc)) rtbl rids ltbl lids rb ro lb lo (rsec lsec : list byte),
  rng_add_all [] rxs = (rtbl, rids) -> loc_add_all [] lxs = (ltbl, lids) ->
  unit_write_lists be fmt64 version asz attrs rstart lstart rtbl ltbl = Ok ((rb, ro), (lb, lo)) ->
  2 <= version <= 4 ->
  N.of_nat (length rsec) = rstart -> N.of_nat (length lsec) = lstart -> unit_wf rtbl ltbl ->
  (forall k x, nth_error rxs k = Some x ->
     exists id o ps rest, nth_error rids k = Some id /\ offsets_get ro id = Ok o /\
       dec4 dbg' false be asz (at_offset o (rsec ++ rb)) = Ok (ps, rest) /\
       meaning_rng asz (unit_base attrs) x = Some (map fst (resolve asz (unit_base attrs) ps))) /\
  (forall k x, nth_error lxs k = Some x ->
     exists id o ps rest, nth_error lids k = Some id /\ offsets_get lo id = Ok o /\
       dec4 dbg' true be asz (at_offset o (lsec ++ lb)) = Ok (ps, rest) /\
       meaning_loc asz (unit_base attrs) x = Some (resolve asz (unit_base attrs) ps)).
Proof.
  intros dbg' be fmt64 version asz attrs rstart lstart rxs lxs rtbl rids ltbl lids rb ro lb lo rsec lsec
    Hra Hla Hw Hv Hrs Hls Hwf.
  destruct (lw_dedup _ (lw_list_eqb_spec _ lw_wrange_eqb_spec) _ _ _ Hra) as [_ [_ [Hrk _]]].
  destruct (lw_dedup _ (lw_list_eqb_spec _ lw_wloc_eqb_spec) _ _ _ Hla) as [_ [_ [Hlk _]]].
  destruct (lw_unit_read_v4 dbg' _ _ _ _ _ _ _ _ _ _ _ _ _ rsec lsec Hw Hv Hrs Hls Hwf) as [Hr Hl]. split.
  - intros k x Hx. destruct (Hrk k x Hx) as [id [Hid Ht]].
    destruct (Hr id x Ht) as [o [ps [rest [Ho [Hd Hm]]]]].
    exists id, o, ps, rest. repeat split; try assumption. now apply lw_offsets_get.
  - intros k x Hx. destruct (Hlk k x Hx) as [id [Hid Ht]].
    destruct (Hl id x Ht) as [o [ps [rest [Ho [Hd Hm]]]]].
    exists id, o, ps, rest. repeat split; try assumption. now apply lw_offsets_get.
Qed.
