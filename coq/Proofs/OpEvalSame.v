(* Proofs/OpEvalSame.v — eval_same: running the evaluator model on the bytes write::Expression emitted gives the
   same conversation as running it on a canonical re-encoding (Spec/StackSpec.v enc_op: DWARF 5 opcodes, minimal
   LEB128, no short forms) of the same operations, branches re-targeted to the re-encoding's own boundaries. *)
From Coq Require Import List NArith ZArith Bool Lia ZifyBool ZifyN ZifyNat.
From Coq.Strings Require Import Byte.
Require Import GV.Base.Res GV.Base.Byt GV.Base.Ints GV.Spec.LebSpec GV.Model.Leb GV.Model.Prim.
Require Import GV.Spec.OpEncSpec GV.Model.OpWr GV.Proofs.LebProofs GV.Proofs.OpWrProofs GV.Proofs.OpWrDec.
Require Import GV.Model.OpDec GV.Model.OpVal GV.Model.OpEval GV.Spec.StackSpec GV.Proofs.OpDecProofs GV.Proofs.OpEvalProofs.
Require Import GV.Proofs.OpRoundtrip GV.Proofs.OpEvalSim GV.Proofs.OpParseWf.
Import ListNotations.
Local Open Scope N_scope.

(* ---- boundaries of a concatenation ---- *)
Fixpoint psums (acc : nat) (l : list nat) : list nat :=
  acc :: match l with [] => [] | x :: r => psums (acc + x) r end.

Lemma psums_length : forall l acc, length (psums acc l) = S (length l).
Proof. induction l as [|x r IH]; intros acc; cbn [psums length]; [reflexivity|]. rewrite IH. reflexivity. Qed.

Lemma psums_concat : forall (segs : list (list byte)) acc k seg,
  nth_error segs k = Some seg ->
  exists bk, nth_error (psums acc (map (@length byte) segs)) k = Some bk /\
             nth_error (psums acc (map (@length byte) segs)) (S k) = Some (bk + length seg)%nat /\
             (acc <= bk)%nat /\
             skipn (bk - acc) (concat segs) = seg ++ skipn (bk - acc + length seg) (concat segs) /\
             (bk - acc + length seg <= length (concat segs))%nat.
Proof.
  induction segs as [|s0 r IH]; intros acc k seg H; [destruct k; discriminate|].
  destruct k as [|k]; cbn [nth_error] in H.
  - inversion H; subst. exists acc. cbn [map psums nth_error concat].
    split; [reflexivity|]. split; [destruct r; reflexivity|]. split; [lia|].
    rewrite Nat.sub_diag. cbn [skipn Nat.add]. rewrite skipn_app, skipn_all, Nat.sub_diag. cbn [skipn app].
    split; [reflexivity|]. rewrite app_length. lia.
  - destruct (IH (acc + length s0)%nat k seg H) as [bk [E1 [E2 [E3 [E4 E5]]]]].
    exists bk. cbn [map psums nth_error concat]. split; [exact E1|]. split; [exact E2|]. split; [lia|].
    replace (bk - acc)%nat with (length s0 + (bk - (acc + length s0)))%nat by lia.
    rewrite <- !Nat.add_assoc. rewrite !skipn_app.
    rewrite !(skipn_all2 s0) by lia. cbn [app].
    replace (length s0 + (bk - (acc + length s0)) - length s0)%nat with (bk - (acc + length s0))%nat by lia.
    replace (length s0 + (bk - (acc + length s0) + length seg) - length s0)%nat with (bk - (acc + length s0) + length seg)%nat by lia.
    split; [exact E4|]. rewrite app_length. lia.
Qed.

Lemma psums_last : forall l acc, nth_error (psums acc l) (length l) = Some (acc + fold_right Nat.add 0 l)%nat.
Proof.
  induction l as [|x r IH]; intros acc; cbn [psums length nth_error fold_right]; [f_equal; lia|].
  rewrite IH. f_equal. lia.
Qed.

Lemma concat_length (segs : list (list byte)) : length (concat segs) = fold_right Nat.add 0%nat (map (@length byte) segs).
Proof. induction segs as [|s r IH]; cbn; [reflexivity|]. rewrite app_length, IH. reflexivity. Qed.

(* ---- boundaries of what the table decoded ---- *)
Lemma decode_from_head c : forall fuel off bs o1 d1 l, decode_from fuel c off bs = Some ((o1, d1) :: l) -> o1 = off.
Proof.
  intros fuel off bs o1 d1 l H. destruct fuel; destruct bs as [|b r]; cbn [decode_from] in H; try discriminate.
  destruct (decode_one c (b :: r)) as [[d t]|]; [|discriminate].
  destruct (decode_from fuel c _ t); [|discriminate]. inversion H; reflexivity.
Qed.
Lemma decode_from_nil c : forall fuel off bs, decode_from fuel c off bs = Some [] -> bs = [].
Proof.
  intros fuel off bs H. destruct bs as [|b r]; [reflexivity|]. destruct fuel; cbn [decode_from] in H; [discriminate|].
  destruct (decode_one c (b :: r)) as [[d t]|]; [|discriminate].
  destruct (decode_from fuel c _ t); discriminate.
Qed.

Lemma skipn_skipn {A} : forall (x y : nat) (l : list A), skipn x (skipn y l) = skipn (y + x) l.
Proof. intros x y. induction y as [|y IH]; intros l; [reflexivity|]. destruct l; [destruct x; reflexivity|]. cbn [skipn Nat.add]. apply IH. Qed.

Lemma decode_from_nth c : forall fuel off0 bs0 dl,
  decode_from fuel c off0 bs0 = Some dl ->
  forall k off d, nth_error dl k = Some (off, d) ->
  exists nxt, nth_error (map fst dl ++ [off0 + blen bs0]) (S k) = Some nxt /\
              off0 <= off /\ off < nxt /\ nxt <= off0 + blen bs0 /\
              decode_one c (skipn (N.to_nat (off - off0)) bs0) = Some (d, skipn (N.to_nat (nxt - off0)) bs0).
Proof.
  induction fuel as [|fuel IH]; intros off0 bs0 dl H k off d Hk.
  - destruct bs0; [|discriminate]. inversion H; subst. destruct k; discriminate.
  - destruct bs0 as [|b r]; [inversion H; subst; destruct k; discriminate|].
    cbn [decode_from] in H.
    destruct (decode_one c (b :: r)) as [[d0 t]|] eqn:Ed; [|discriminate].
    set (used := N.of_nat (length (b :: r)) - N.of_nat (length t)) in *.
    destruct (decode_from fuel c (off0 + used) t) as [l|] eqn:El; [|discriminate].
    inversion H; subst dl. clear H.
    destruct (table_agrees_with_reader true c _ _ _ Ed) as [o [_ Hp]].
    destruct (parse_op_consumes _ _ _ _ _ Hp) as [b' [u Eu]]. inversion Eu as [[Eb Er]]. subst b' r. clear Eu.
    assert (Hused : used = N.of_nat (S (length u))).
    { unfold used. cbn [length]. rewrite app_length. lia. }
    assert (Ht : skipn (S (length u)) (b :: u ++ t) = t).
    { cbn [skipn]. apply skipn_app_exact. }
    assert (Hbl : blen (b :: u ++ t) = used + blen t).
    { unfold blen. rewrite Hused. cbn [length]. rewrite app_length. lia. }
    assert (Hnxt0 : nth_error (map fst l ++ [off0 + blen (b :: u ++ t)]) 0 = Some (off0 + used)).
    { destruct l as [|[o1 d1] l'].
      - apply decode_from_nil in El. subst t. cbn [map app nth_error]. f_equal; rewrite ?Hbl, ?blen_nil; lia.
      - apply decode_from_head in El. subst o1. reflexivity. }
    destruct k as [|k]; cbn [nth_error] in Hk.
    + inversion Hk; subst off d. exists (off0 + used).
      split; [exact Hnxt0|]. split; [lia|]. split; [lia|]. split; [lia|].
      rewrite N.sub_diag. cbn [N.to_nat skipn].
      replace (N.to_nat (off0 + used - off0)) with (S (length u)) by lia. rewrite Ht. exact Ed.
    + destruct (IH _ _ _ El k off d Hk) as [nxt [N1 [N2 [N3 [N4 N5]]]]].
      exists nxt.
      replace (off0 + used + blen t) with (off0 + blen (b :: u ++ t)) in N1, N4 by lia.
      split; [exact N1|]. split; [lia|]. split; [lia|]. split; [lia|].
      rewrite <- Ht in N5. rewrite !skipn_skipn in N5.
      replace (N.to_nat (off - off0)) with (S (length u) + N.to_nat (off - (off0 + used)))%nat by lia.
      replace (N.to_nat (nxt - off0)) with (S (length u) + N.to_nat (nxt - (off0 + used)))%nat by lia.
      exact N5.
Qed.

(* ---- the two boundary lists and the re-targeting relation ---- *)
Definition A_of (dl : list (N * dop)) (bs : list byte) : list nat :=
  map (fun x => N.to_nat (fst x)) dl ++ [length bs].
Definition canon_bytes (e' : OpDec.enc) (ops2 : list operation) : list byte := concat (map (enc_op e') ops2).
Definition B_of (e' : OpDec.enc) (ops2 : list operation) : list nat :=
  psums 0 (map (@length byte) (map (enc_op e') ops2)).

(* ops2 = the operations the reader sees in the written bytes, with every Skip/Bra displacement replaced by
   the one that reaches the same operation in the re-encoding *)
Definition retargeted (A B : list nat) (ros1 ops2 : list operation) : Prop :=
  length ros1 = length ops2 /\
  forall k o1 o2 a' b', nth_error ros1 k = Some o1 -> nth_error ops2 k = Some o2 ->
    nth_error A (S k) = Some a' -> nth_error B (S k) = Some b' -> orel (combine A B) a' b' o1 o2.

Lemma enc_op_nonempty e' o : (1 <= length (enc_op e' o))%nat.
Proof.
  destruct o; cbn [enc_op length]; try lia.
  - destruct (base_type =? 0); cbn [length app]; lia.
  - destruct (base_type =? 0); cbn [length]; lia.
  - destruct offset; cbn [length]; lia.
  - destruct bit_offset; cbn [length]; lia.
Qed.

Lemma combine_nth {X Y} : forall (l1 : list X) (l2 : list Y) k a b,
  nth_error l1 k = Some a -> nth_error l2 k = Some b -> In (a, b) (combine l1 l2).
Proof.
  induction l1 as [|x r IH]; intros l2 k a b H1 H2; [destruct k; discriminate|].
  destruct l2 as [|y r2]; [destruct k; discriminate|]. destruct k as [|k]; cbn [nth_error combine] in *.
  - inversion H1; inversion H2; subst. left; reflexivity.
  - right. eapply IH; eauto.
Qed.
Lemma combine_In_nth {X Y} : forall (l1 : list X) (l2 : list Y) a b,
  In (a, b) (combine l1 l2) -> exists k, nth_error l1 k = Some a /\ nth_error l2 k = Some b.
Proof.
  induction l1 as [|x r IH]; intros l2 a b H; [destruct H|]. destruct l2 as [|y r2]; [destruct H|].
  cbn [combine] in H. destruct H as [E|H].
  - inversion E; subst. exists 0%nat. auto.
  - destruct (IH _ _ _ H) as [k [K1 K2]]. exists (S k). auto.
Qed.

Lemma A_of_nth dl bs k v :
  nth_error (map fst dl ++ [0 + blen bs]) k = Some v -> nth_error (A_of dl bs) k = Some (N.to_nat v).
Proof.
  unfold A_of. intros H.
  replace (map (fun x : N * dop => N.to_nat (fst x)) dl ++ [length bs]) with (map N.to_nat (map fst dl ++ [0 + blen bs])).
  - rewrite nth_error_map, H. reflexivity.
  - rewrite map_app, map_map. cbn [map]. unfold blen. rewrite N.add_0_l, Nat2N.id. reflexivity.
Qed.

Section Same.
Variable c0 : dcfg.
Let e' := renc c0.
Variables (bs : list byte) (dl : list (N * dop)) (ros1 ops2 : list operation).
Hypothesis Hdec : decode c0 bs = Some dl.
Hypothesis Hros : map (fun x => tr (snd x)) dl = map Some ros1.
Hypothesis Hwf2 : Forall (StackSpec.wf_op e') ops2.
Hypothesis Hlen1 : N.of_nat (length bs) < 2 ^ 63.
Hypothesis Hlen2 : N.of_nat (length (canon_bytes e' ops2)) < 2 ^ 63.
Hypothesis Hret : retargeted (A_of dl bs) (B_of e' ops2) ros1 ops2.

Lemma same_lengths : length dl = length ros1 /\ length ros1 = length ops2.
Proof. split; [|apply Hret]. pose proof (f_equal (@length _) Hros) as H. rewrite !map_length in H. exact H. Qed.

Lemma layout_same : layout_ok e' bs (canon_bytes e' ops2) (combine (A_of dl bs) (B_of e' ops2)).
Proof.
  destruct same_lengths as [L1 L2].
  assert (LA : length (A_of dl bs) = S (length dl)) by (unfold A_of; rewrite app_length, map_length; cbn; lia).
  assert (LB : length (B_of e' ops2) = S (length ops2)) by (unfold B_of; rewrite psums_length, !map_length; reflexivity).
  assert (Alast : nth_error (A_of dl bs) (length dl) = Some (length bs)).
  { unfold A_of. rewrite nth_error_app2 by (rewrite map_length; lia). rewrite map_length, Nat.sub_diag. reflexivity. }
  assert (Blast : nth_error (B_of e' ops2) (length ops2) = Some (length (canon_bytes e' ops2))).
  { unfold B_of, canon_bytes. pose proof (psums_last (map (@length byte) (map (enc_op e') ops2)) 0) as P.
    rewrite !map_length in P. rewrite P. rewrite concat_length. reflexivity. }
  (* what holds at every index below the last *)
  assert (Hk : forall k off d, nth_error dl k = Some (off, d) ->
            exists o1 o2 a' b',
              nth_error (A_of dl bs) k = Some (N.to_nat off) /\ (N.to_nat off < length bs)%nat /\
              nth_error ros1 k = Some o1 /\ nth_error ops2 k = Some o2 /\
              nth_error (A_of dl bs) (S k) = Some a' /\ nth_error (B_of e' ops2) (S k) = Some b' /\
              (exists b, nth_error (B_of e' ops2) k = Some b /\ (b < length (canon_bytes e' ops2))%nat /\
                 parse_op true e' (skipn b (canon_bytes e' ops2)) = Ok (o2, skipn b' (canon_bytes e' ops2))) /\
              parse_op true e' (skipn (N.to_nat off) bs) = Ok (o1, skipn a' bs)).
  { intros k off d Hd.
    destruct (decode_from_nth c0 _ _ _ _ Hdec k off d Hd) as [nxt [N1 [N2 [N3 [N4 N5]]]]].
    rewrite N.sub_0_r in N5. rewrite N.sub_0_r in N5.
    destruct (table_agrees_with_reader true c0 _ _ _ N5) as [o1 [To Po]].
    assert (R1 : nth_error ros1 k = Some o1).
    { pose proof (f_equal (fun l => nth_error l k) Hros) as E. cbv beta in E. rewrite !nth_error_map, Hd in E.
      cbn [option_map snd] in E. rewrite To in E. destruct (nth_error ros1 k); inversion E; reflexivity. }
    assert (Hk2 : (k < length ops2)%nat) by (rewrite <- L2, <- L1; apply nth_error_Some; congruence).
    destruct (nth_error ops2 k) as [o2|] eqn:E2; [|apply nth_error_None in E2; lia].
    assert (Es : nth_error (map (enc_op e') ops2) k = Some (enc_op e' o2)) by (rewrite nth_error_map, E2; reflexivity).
    destruct (psums_concat _ 0 _ _ Es) as [bk [B1 [B2 [_ [B4 B5]]]]].
    rewrite !Nat.sub_0_r in B4, B5.
    exists o1, o2, (N.to_nat nxt), (bk + length (enc_op e' o2))%nat.
    assert (A0 : nth_error (A_of dl bs) k = Some (N.to_nat off)).
    { apply A_of_nth. rewrite nth_error_app1 by (rewrite map_length; apply nth_error_Some; congruence).
      rewrite nth_error_map, Hd. reflexivity. }
    split; [exact A0|]. split; [unfold blen in N4; lia|]. split; [exact R1|]. split; [reflexivity|].
    split; [apply A_of_nth; exact N1|]. split; [exact B2|]. split.
    - exists bk. split; [exact B1|]. pose proof (enc_op_nonempty e' o2). split; [unfold canon_bytes; lia|].
      unfold canon_bytes. rewrite B4. apply decode_roundtrip_lemma.
      rewrite Forall_forall in Hwf2. apply Hwf2. eapply nth_error_In; eauto.
    - exact Po. }
  split.
  { (* (0, 0) *)
    eapply (combine_nth _ _ 0%nat).
    - unfold A_of. destruct dl as [|[o1 d1] l] eqn:Edl.
      + unfold decode in Hdec. apply decode_from_nil in Hdec. subst bs. reflexivity.
      + unfold decode in Hdec. apply decode_from_head in Hdec. subst o1. reflexivity.
    - unfold B_of. destruct (map (@length byte) (map (enc_op e') ops2)); reflexivity. }
  split; [exact Hlen1|]. split; [exact Hlen2|].
  intros a b Hin. destruct (combine_In_nth _ _ _ _ Hin) as [k [Ka Kb]].
  assert (Hkl : (k <= length dl)%nat).
  { assert (k < length (A_of dl bs))%nat by (apply nth_error_Some; congruence). lia. }
  destruct (Nat.eq_dec k (length dl)) as [->|Nk].
  - rewrite Alast in Ka. inversion Ka; subst a. rewrite L1, L2 in Kb. rewrite Blast in Kb. inversion Kb; subst b.
    split; [lia|]. split; [lia|]. split; [tauto|]. intros X; lia.
  - destruct (nth_error dl k) as [[off d]|] eqn:Ed; [|apply nth_error_None in Ed; lia].
    destruct (Hk _ _ _ Ed) as [o1 [o2 [a' [b' [A0 [A1 [R1 [R2 [A2 [B2 [[b0 [B0 [B1 PB]]] PA]]]]]]]]]]].
    rewrite A0 in Ka. inversion Ka; subst a. rewrite B0 in Kb. inversion Kb; subst b.
    split; [lia|]. split; [lia|]. split; [split; intros; lia|]. intros _.
    exists o1, o2, a', b'. split; [eapply combine_nth; eauto|]. split; [exact PA|]. split; [exact PB|].
    destruct Hret as [_ Hr]. eapply Hr; eauto.
Qed.

Theorem run_same F fuel dbg c answers :
  c_enc c = e' -> run F fuel dbg c bs answers = run F fuel dbg c (canon_bytes e' ops2) answers.
Proof. intros Hc. eapply run_layout_independent; [exact layout_same|exact Hc]. Qed.

End Same.

(* eval_same: for every expression decode_written covers, and every canonical re-encoding ops2 of what the reader
   sees in the written bytes (each operation well-formed for StackSpec.enc_op, Skip/Bra re-targeted to the
   re-encoding's own boundaries — `retargeted`), the evaluator's whole conversation is the same on both byte
   strings, for every fops, fuel, build mode, configuration and answer list. *)
Theorem eval_same_lemma dbg0 e uo refs base ex bs fx :
  forallb OpWr.wf_op ex = true -> wf_uoffs uo = true -> forallb decodable ex = true ->
  base + blen bs < 2 ^ 63 ->
  write_expr dbg0 e uo refs base ex = Ok (bs, fx) ->
  exists dl ros1,
    decode (dcfg_of e) bs = Some dl /\
    operations true (renc (dcfg_of e)) bs = (ros1, None) /\
    map (fun x => tr (snd x)) dl = map Some ros1 /\
    forall ops2,
      Forall (StackSpec.wf_op (renc (dcfg_of e))) ops2 ->
      N.of_nat (length (canon_bytes (renc (dcfg_of e)) ops2)) < 2 ^ 63 ->
      retargeted (A_of dl bs) (B_of (renc (dcfg_of e)) ops2) ros1 ops2 ->
      forall F fuel dbg c answers, c_enc c = renc (dcfg_of e) ->
        run F fuel dbg c bs answers = run F fuel dbg c (canon_bytes (renc (dcfg_of e)) ops2) answers.
Proof.
  intros Hwf Huo Hd Hpos H.
  destruct (decode_written_expr _ _ _ _ _ _ _ _ Hwf Huo Hd Hpos H) as [offsets [dl [Ho [Hdec Hdd]]]].
  pose proof Hdec as Hdec'. unfold decode in Hdec'.
  destruct (decode_from_operations true _ _ _ _ _ Hdec' (S (length bs))) as [ros [Hr Hm]]; [lia|].
  exists dl, ros. split; [exact Hdec|]. split; [exact Hr|]. split; [exact Hm|].
  intros ops2 Hw2 Hl2 Hret F fuel dbg c answers Hc.
  eapply run_same; eauto.
  unfold blen in Hpos. change (2 ^ 63) with 9223372036854775808 in *. lia.
Qed.

(* ================= a computable canonical re-encoding ================= *)

Definition i16b (d : Z) : bool := ((-32768 <=? d) && (d <? 32768))%Z.

Fixpoint find_idx (A : list nat) (x : Z) (k : nat) : option nat :=
  match A with
  | [] => None
  | a :: r => if (Z.of_nat a =? x)%Z then Some k else find_idx r x (S k)
  end.

(* the k-th operation with its branch re-aimed at the boundary of B that corresponds to the boundary of A it
   reaches; None when it reaches no boundary or a displacement does not fit i16 *)
Definition retarget (A B : list nat) (k : nat) (o : operation) : option operation :=
  let tgt (d : Z) :=
    match nth_error A (S k), nth_error B (S k) with
    | Some a', Some b' =>
        match find_idx A (Z.of_nat a' + d) 0 with
        | Some j =>
            match nth_error B j with
            | Some bj => let d2 := (Z.of_nat bj - Z.of_nat b')%Z in
                         if i16b d && i16b d2 then Some d2 else None
            | None => None
            end
        | None => None
        end
    | _, _ => None
    end in
  match o with
  | OSkip d => option_map OSkip (tgt d)
  | OBra d => option_map OBra (tgt d)
  | _ => Some o
  end.

Fixpoint canon_from (A B : list nat) (k : nat) (ros : list operation) : option (list operation) :=
  match ros with
  | [] => Some []
  | o :: r =>
      match retarget A B k o, canon_from A B (S k) r with
      | Some o', Some l => Some (o' :: l)
      | _, _ => None
      end
  end.

Definition canon_ops (e' : OpDec.enc) (dl : list (N * dop)) (bs : list byte) (ros1 : list operation) : option (list operation) :=
  canon_from (A_of dl bs) (B_of e' ros1) 0 ros1.

Lemma find_idx_spec : forall A x k j, find_idx A x k = Some j ->
  exists a, (k <= j)%nat /\ nth_error A (j - k) = Some a /\ Z.of_nat a = x.
Proof.
  induction A as [|a r IH]; intros x k j H; cbn [find_idx] in H; [discriminate|].
  destruct (Z.of_nat a =? x)%Z eqn:E.
  - inversion H; subst. exists a. rewrite Nat.sub_diag. split; [lia|]. split; [reflexivity|lia].
  - destruct (IH _ _ _ H) as [a0 [L [N1 N2]]]. exists a0. split; [lia|].
    replace (j - k)%nat with (S (j - S k)) by lia. auto.
Qed.

Lemma canon_from_nth A B : forall ros k ops2, canon_from A B k ros = Some ops2 ->
  length ops2 = length ros /\
  forall i o1, nth_error ros i = Some o1 -> exists o2, nth_error ops2 i = Some o2 /\ retarget A B (k + i) o1 = Some o2.
Proof.
  induction ros as [|o r IH]; intros k ops2 H; cbn [canon_from] in H.
  - inversion H; subst. split; [reflexivity|]. intros i o1 Hi. destruct i; discriminate.
  - destruct (retarget A B k o) as [o'|] eqn:Er; [|discriminate].
    destruct (canon_from A B (S k) r) as [l|] eqn:El; [|discriminate]. inversion H; subst.
    destruct (IH _ _ El) as [Hl Hn]. split; [cbn [length]; lia|].
    intros i o1 Hi. destruct i as [|i]; cbn [nth_error] in *.
    + inversion Hi; subst. exists o'. rewrite Nat.add_0_r. auto.
    + destruct (Hn _ _ Hi) as [o2 [N1 N2]]. exists o2. replace (k + S i)%nat with (S k + i)%nat by lia. auto.
Qed.

Lemma retarget_size e' A B k o o' : retarget A B k o = Some o' -> length (enc_op e' o') = length (enc_op e' o).
Proof.
  unfold retarget. destruct o; intros H; try (inversion H; reflexivity).
  - destruct (nth_error A (S k)), (nth_error B (S k)); try discriminate.
    destruct (find_idx A _ 0); try discriminate. destruct (nth_error B n1); try discriminate.
    destruct (i16b target && _); inversion H. cbn [enc_op length]. unfold enc_i16. rewrite !enc_un_len. reflexivity.
  - destruct (nth_error A (S k)), (nth_error B (S k)); try discriminate.
    destruct (find_idx A _ 0); try discriminate. destruct (nth_error B n1); try discriminate.
    destruct (i16b target && _); inversion H. cbn [enc_op length]. unfold enc_i16. rewrite !enc_un_len. reflexivity.
Qed.

Lemma canon_from_sizes e' A B : forall ros k ops2, canon_from A B k ros = Some ops2 ->
  map (@length byte) (map (enc_op e') ops2) = map (@length byte) (map (enc_op e') ros).
Proof.
  induction ros as [|o r IH]; intros k ops2 H; cbn [canon_from] in H.
  - inversion H; reflexivity.
  - destruct (retarget A B k o) as [o'|] eqn:Er; [|discriminate].
    destruct (canon_from A B (S k) r) as [l|] eqn:El; [|discriminate]. inversion H; subst.
    cbn [map]. rewrite (retarget_size _ _ _ _ _ _ Er), (IH _ _ El). reflexivity.
Qed.

Lemma orel_refl pts a' b' o : (forall d, o <> OSkip d) -> (forall d, o <> OBra d) -> orel pts a' b' o o.
Proof. intros H1 H2. destruct o; cbn; try reflexivity; exfalso; [eapply H2|eapply H1]; reflexivity. Qed.

Theorem canon_ops_retargeted e' dl bs ros1 ops2 :
  canon_ops e' dl bs ros1 = Some ops2 -> retargeted (A_of dl bs) (B_of e' ops2) ros1 ops2.
Proof.
  unfold canon_ops. intros H.
  assert (HB : B_of e' ops2 = B_of e' ros1) by (unfold B_of; rewrite (canon_from_sizes _ _ _ _ _ _ H); reflexivity).
  rewrite HB. set (A := A_of dl bs) in *. set (B := B_of e' ros1) in *.
  destruct (canon_from_nth _ _ _ _ _ H) as [Hl Hn]. split; [symmetry; exact Hl|].
  intros k o1 o2 a' b' K1 K2 KA KB.
  destruct (Hn _ _ K1) as [o2' [K2' Hr]]. rewrite K2 in K2'. inversion K2'; subst o2'. cbn [Nat.add] in Hr.
  assert (Hgen : forall d d2 (mk : Z -> operation),
            (match find_idx A (Z.of_nat a' + d) 0 with
             | Some j => match nth_error B j with
                         | Some bj => if i16b d && i16b (Z.of_nat bj - Z.of_nat b') then Some (Z.of_nat bj - Z.of_nat b')%Z else None
                         | None => None end
             | None => None end) = Some d2 ->
            i16 d /\ i16 d2 /\ exists aj bj, In (aj, bj) (combine A B) /\
              (Z.of_nat a' + d = Z.of_nat aj)%Z /\ (Z.of_nat b' + d2 = Z.of_nat bj)%Z).
  { intros d d2 _ Ht. destruct (find_idx A (Z.of_nat a' + d) 0) as [j|] eqn:Ef; [|discriminate].
    destruct (nth_error B j) as [bj|] eqn:Eb; [|discriminate].
    destruct (i16b d && i16b (Z.of_nat bj - Z.of_nat b')) eqn:Ei; [|discriminate]. inversion Ht; subst d2.
    destruct (find_idx_spec _ _ _ _ Ef) as [aj [_ [Na Za]]]. rewrite Nat.sub_0_r in Na.
    unfold i16b, i16 in *. split; [lia|]. split; [lia|]. exists aj, bj.
    split; [eapply combine_nth; eauto|]. split; lia. }
  unfold retarget in Hr. rewrite KA, KB in Hr.
  destruct o1; try (inversion Hr; subst; apply orel_refl; intros d Hd; discriminate Hd).
  - (* Bra *) destruct (match find_idx A (Z.of_nat a' + target) 0 with Some j => _ | None => None end) as [d2|] eqn:Et;
      [|discriminate]. inversion Hr; subst. cbn [orel]. eapply (Hgen target d2 OBra). exact Et.
  - (* Skip *) destruct (match find_idx A (Z.of_nat a' + target) 0 with Some j => _ | None => None end) as [d2|] eqn:Et;
      [|discriminate]. inversion Hr; subst. cbn [orel]. eapply (Hgen target d2 OSkip). exact Et.
Qed.

Theorem eval_same_canon dbg0 e uo refs base ex bs fx :
  forallb OpWr.wf_op ex = true -> wf_uoffs uo = true -> forallb decodable ex = true ->
  base + blen bs < 2 ^ 63 ->
  write_expr dbg0 e uo refs base ex = Ok (bs, fx) ->
  exists dl ros1,
    decode (dcfg_of e) bs = Some dl /\
    operations true (renc (dcfg_of e)) bs = (ros1, None) /\
    map (fun x => tr (snd x)) dl = map Some ros1 /\
    forall ops2,
      canon_ops (renc (dcfg_of e)) dl bs ros1 = Some ops2 ->
      Forall (StackSpec.wf_op (renc (dcfg_of e))) ops2 ->
      N.of_nat (length (canon_bytes (renc (dcfg_of e)) ops2)) < 2 ^ 63 ->
      forall F fuel dbg c answers, c_enc c = renc (dcfg_of e) ->
        run F fuel dbg c bs answers = run F fuel dbg c (canon_bytes (renc (dcfg_of e)) ops2) answers.
Proof.
  intros Hwf Huo Hd Hpos H.
  destruct (eval_same_lemma _ _ _ _ _ _ _ _ Hwf Huo Hd Hpos H) as [dl [ros1 [E1 [E2 [E3 E4]]]]].
  exists dl, ros1. split; [exact E1|]. split; [exact E2|]. split; [exact E3|].
  intros ops2 Hc Hw Hl. apply E4; [exact Hw|exact Hl|]. apply canon_ops_retargeted. exact Hc.
Qed.

(* ---- the canonical operations are well-formed: no side condition left on them ---- *)
Lemma operations_fuel_wf dbg e' : e_asz e' < 256 -> forall fuel bs ros st,
  operations_fuel fuel dbg e' bs = (ros, st) -> Forall (StackSpec.wf_op e') ros.
Proof.
  intros Ha. induction fuel as [|fuel IH]; intros bs ros st H; cbn [operations_fuel] in H.
  - inversion H; constructor.
  - destruct bs as [|b r]; [inversion H; constructor|].
    destruct (parse_op dbg e' (b :: r)) as [[o t]|x| |] eqn:Ep; try (inversion H; constructor).
    destruct (operations_fuel fuel dbg e' t) as [l t'] eqn:El. inversion H; subst.
    constructor; [eapply parse_wf; eauto|eapply IH; eauto].
Qed.

Lemma i16b_in_signed d : i16b d = true -> in_signed 16 d = true.
Proof. unfold i16b, in_signed. change (Z.of_N (2 ^ (16 - 1))) with 32768%Z. lia. Qed.

Lemma retarget_wf e' A B k o o' : StackSpec.wf_op e' o -> retarget A B k o = Some o' -> StackSpec.wf_op e' o'.
Proof.
  unfold retarget. intros Hw H. destruct o; try (inversion H; subst; exact Hw).
  - destruct (nth_error A (S k)), (nth_error B (S k)); try discriminate.
    destruct (find_idx A _ 0); try discriminate. destruct (nth_error B n1); try discriminate.
    destruct (i16b target && i16b (Z.of_nat n2 - Z.of_nat n0)) eqn:E; inversion H; subst.
    cbn [StackSpec.wf_op]. apply i16b_in_signed. apply andb_true_iff in E. tauto.
  - destruct (nth_error A (S k)), (nth_error B (S k)); try discriminate.
    destruct (find_idx A _ 0); try discriminate. destruct (nth_error B n1); try discriminate.
    destruct (i16b target && i16b (Z.of_nat n2 - Z.of_nat n0)) eqn:E; inversion H; subst.
    cbn [StackSpec.wf_op]. apply i16b_in_signed. apply andb_true_iff in E. tauto.
Qed.

Lemma canon_from_wf e' A B : forall ros k ops2, Forall (StackSpec.wf_op e') ros ->
  canon_from A B k ros = Some ops2 -> Forall (StackSpec.wf_op e') ops2.
Proof.
  induction ros as [|o r IH]; intros k ops2 HF H; cbn [canon_from] in H.
  - inversion H; constructor.
  - destruct (retarget A B k o) as [o'|] eqn:Er; [|discriminate].
    destruct (canon_from A B (S k) r) as [l|] eqn:El; [|discriminate]. inversion H; subst.
    inversion HF; subst. constructor; [eapply retarget_wf; eauto|eapply IH; eauto].
Qed.

(* eval_same with the only side conditions that are not automatic: the canonical re-encoding exists (its
   re-computed branch displacements fit i16) and is shorter than 2^63 bytes *)
Theorem eval_same_final dbg0 e uo refs base ex bs fx :
  wf_enc e = true ->
  forallb OpWr.wf_op ex = true -> wf_uoffs uo = true -> forallb decodable ex = true ->
  base + blen bs < 2 ^ 63 ->
  write_expr dbg0 e uo refs base ex = Ok (bs, fx) ->
  exists dl ros1,
    decode (dcfg_of e) bs = Some dl /\
    operations true (renc (dcfg_of e)) bs = (ros1, None) /\
    map (fun x => tr (snd x)) dl = map Some ros1 /\
    forall ops2,
      canon_ops (renc (dcfg_of e)) dl bs ros1 = Some ops2 ->
      N.of_nat (length (canon_bytes (renc (dcfg_of e)) ops2)) < 2 ^ 63 ->
      forall F fuel dbg c answers, c_enc c = renc (dcfg_of e) ->
        run F fuel dbg c bs answers = run F fuel dbg c (canon_bytes (renc (dcfg_of e)) ops2) answers.
Proof.
  intros He Hwf Huo Hd Hpos H.
  destruct (eval_same_canon _ _ _ _ _ _ _ _ Hwf Huo Hd Hpos H) as [dl [ros1 [E1 [E2 [E3 E4]]]]].
  exists dl, ros1. split; [exact E1|]. split; [exact E2|]. split; [exact E3|].
  intros ops2 Hc Hl. apply E4; [exact Hc| |exact Hl].
  unfold canon_ops in Hc. eapply canon_from_wf; [|exact Hc].
  unfold operations in E2. eapply operations_fuel_wf; [|exact E2].
  unfold renc, dcfg_of. cbn [e_asz d_asize]. unfold wf_enc in He. apply andb_true_iff in He. destruct He as [_ He]. lia.
Qed.
