(* Proofs/OpEvalSame.v — eval_same: running the evaluator model on the bytes write::Expression emitted gives the
   same conversation as running it on a canonical re-encoding (Spec/StackSpec.v enc_op: DWARF 5 opcodes, minimal
   LEB128, no short forms) of the same operations, branches re-targeted to the re-encoding's own boundaries. *)
From Coq Require Import List NArith ZArith Bool Lia ZifyBool ZifyN ZifyNat.
From Coq.Strings Require Import Byte.
Require Import GV.Base.Res GV.Base.Byt GV.Base.Ints GV.Spec.LebSpec GV.Model.Leb GV.Model.Prim.
Require Import GV.Spec.OpEncSpec GV.Model.OpWr GV.Proofs.LebProofs GV.Proofs.OpWrProofs GV.Proofs.OpWrDec.
Require Import GV.Model.OpDec GV.Model.OpVal GV.Model.OpEval GV.Spec.StackSpec GV.Proofs.OpDecProofs GV.Proofs.OpEvalProofs.
Require Import GV.Proofs.OpRoundtrip GV.Proofs.OpEvalSim.
Import ListNotations.
Local Open Scope N_scope.

(* ---- boundaries of a concatenation ---- *)
Fixpoint psums (acc : nat) (l : list nat) : list nat :=
  acc :: match l with [] => [] | x :: r => psums (acc + x) r end.

Lemma psums_length : forall l acc, length (psums acc l) = S (length l).
Proof. induction l as [|x r IH]; intros acc; cbn [psums length]; [reflexivity|]. rewrite IH. reflexivity. Qed.

Lemma psums_concat : forall (segs : list (list byte)) acc k seg,
  nth_error segs k = Some seg ->
  exists bk, nth_error (psums acc (map (@length byte) segs)) k = Some bk /\
             nth_error (psums acc (map (@length byte) segs)) (S k) = Some (bk + length seg)%nat /\
             (acc <= bk)%nat /\
             skipn (bk - acc) (concat segs) = seg ++ skipn (bk - acc + length seg) (concat segs) /\
             (bk - acc + length seg <= length (concat segs))%nat.
Proof.
  induction segs as [|s0 r IH]; intros acc k seg H; [destruct k; discriminate|].
  destruct k as [|k]; cbn [nth_error] in H.
  - inversion H; subst. exists acc. cbn [map psums nth_error concat].
    split; [reflexivity|]. split; [destruct r; reflexivity|]. split; [lia|].
    rewrite Nat.sub_diag. cbn [skipn Nat.add]. rewrite skipn_app, skipn_all, Nat.sub_diag. cbn [skipn app].
    split; [reflexivity|]. rewrite app_length. lia.
  - destruct (IH (acc + length s0)%nat k seg H) as [bk [E1 [E2 [E3 [E4 E5]]]]].
    exists bk. cbn [map psums nth_error concat]. split; [exact E1|]. split; [exact E2|]. split; [lia|].
    replace (bk - acc)%nat with (length s0 + (bk - (acc + length s0)))%nat by lia.
    rewrite <- !Nat.add_assoc. rewrite !skipn_app.
    rewrite !(skipn_all2 s0) by lia. cbn [app].
    replace (length s0 + (bk - (acc + length s0)) - length s0)%nat with (bk - (acc + length s0))%nat by lia.
    replace (length s0 + (bk - (acc + length s0) + length seg) - length s0)%nat with (bk - (acc + length s0) + length seg)%nat by lia.
    split; [exact E4|]. rewrite app_length. lia.
Qed.

Lemma psums_last : forall l acc, nth_error (psums acc l) (length l) = Some (acc + fold_right Nat.add 0 l)%nat.
Proof.
  induction l as [|x r IH]; intros acc; cbn [psums length nth_error fold_right]; [f_equal; lia|].
  rewrite IH. f_equal. lia.
Qed.

Lemma concat_length (segs : list (list byte)) : length (concat segs) = fold_right Nat.add 0%nat (map (@length byte) segs).
Proof. induction segs as [|s r IH]; cbn; [reflexivity|]. rewrite app_length, IH. reflexivity. Qed.

(* ---- boundaries of what the table decoded ---- *)
Lemma decode_from_head c : forall fuel off bs o1 d1 l, decode_from fuel c off bs = Some ((o1, d1) :: l) -> o1 = off.
Proof.
  intros fuel off bs o1 d1 l H. destruct fuel; destruct bs as [|b r]; cbn [decode_from] in H; try discriminate.
  destruct (decode_one c (b :: r)) as [[d t]|]; [|discriminate].
  destruct (decode_from fuel c _ t); [|discriminate]. inversion H; reflexivity.
Qed.
Lemma decode_from_nil c : forall fuel off bs, decode_from fuel c off bs = Some [] -> bs = [].
Proof.
  intros fuel off bs H. destruct bs as [|b r]; [reflexivity|]. destruct fuel; cbn [decode_from] in H; [discriminate|].
  destruct (decode_one c (b :: r)) as [[d t]|]; [|discriminate].
  destruct (decode_from fuel c _ t); discriminate.
Qed.

Lemma skipn_skipn {A} : forall (x y : nat) (l : list A), skipn x (skipn y l) = skipn (y + x) l.
Proof. intros x y. induction y as [|y IH]; intros l; [reflexivity|]. destruct l; [destruct x; reflexivity|]. cbn [skipn Nat.add]. apply IH. Qed.

Lemma decode_from_nth c : forall fuel off0 bs0 dl,
  decode_from fuel c off0 bs0 = Some dl ->
  forall k off d, nth_error dl k = Some (off, d) ->
  exists nxt, nth_error (map fst dl ++ [off0 + blen bs0]) (S k) = Some nxt /\
              off0 <= off /\ off < nxt /\ nxt <= off0 + blen bs0 /\
              decode_one c (skipn (N.to_nat (off - off0)) bs0) = Some (d, skipn (N.to_nat (nxt - off0)) bs0).
Proof.
  induction fuel as [|fuel IH]; intros off0 bs0 dl H k off d Hk.
  - destruct bs0; [|discriminate]. inversion H; subst. destruct k; discriminate.
  - destruct bs0 as [|b r]; [inversion H; subst; destruct k; discriminate|].
    cbn [decode_from] in H.
    destruct (decode_one c (b :: r)) as [[d0 t]|] eqn:Ed; [|discriminate].
    set (used := N.of_nat (length (b :: r)) - N.of_nat (length t)) in *.
    destruct (decode_from fuel c (off0 + used) t) as [l|] eqn:El; [|discriminate].
    inversion H; subst dl. clear H.
    destruct (table_agrees_with_reader true c _ _ _ Ed) as [o [_ Hp]].
    destruct (parse_op_consumes _ _ _ _ _ Hp) as [b' [u Eu]]. inversion Eu as [[Eb Er]]. subst b' r. clear Eu.
    assert (Hused : used = N.of_nat (S (length u))).
    { unfold used. cbn [length]. rewrite app_length. lia. }
    assert (Ht : skipn (S (length u)) (b :: u ++ t) = t).
    { cbn [skipn]. apply skipn_app_exact. }
    assert (Hbl : blen (b :: u ++ t) = used + blen t).
    { unfold blen. rewrite Hused. cbn [length]. rewrite app_length. lia. }
    assert (Hnxt0 : nth_error (map fst l ++ [off0 + blen (b :: u ++ t)]) 0 = Some (off0 + used)).
    { destruct l as [|[o1 d1] l'].
      - apply decode_from_nil in El. subst t. cbn [map app nth_error]. f_equal; rewrite ?Hbl, ?blen_nil; lia.
      - apply decode_from_head in El. subst o1. reflexivity. }
    destruct k as [|k]; cbn [nth_error] in Hk.
    + inversion Hk; subst off d. exists (off0 + used).
      split; [exact Hnxt0|]. split; [lia|]. split; [lia|]. split; [lia|].
      rewrite N.sub_diag. cbn [N.to_nat skipn].
      replace (N.to_nat (off0 + used - off0)) with (S (length u)) by lia. rewrite Ht. exact Ed.
    + destruct (IH _ _ _ El k off d Hk) as [nxt [N1 [N2 [N3 [N4 N5]]]]].
      exists nxt.
      replace (off0 + used + blen t) with (off0 + blen (b :: u ++ t)) in N1, N4 by lia.
      split; [exact N1|]. split; [lia|]. split; [lia|]. split; [lia|].
      rewrite <- Ht in N5. rewrite !skipn_skipn in N5.
      replace (N.to_nat (off - off0)) with (S (length u) + N.to_nat (off - (off0 + used)))%nat by lia.
      replace (N.to_nat (nxt - off0)) with (S (length u) + N.to_nat (nxt - (off0 + used)))%nat by lia.
      exact N5.
Qed.

(* ---- the two boundary lists and the re-targeting relation ---- *)
Definition A_of (dl : list (N * dop)) (bs : list byte) : list nat :=
  map (fun x => N.to_nat (fst x)) dl ++ [length bs].
Definition canon_bytes (e' : OpDec.enc) (ops2 : list operation) : list byte := concat (map (enc_op e') ops2).
Definition B_of (e' : OpDec.enc) (ops2 : list operation) : list nat :=
  psums 0 (map (@length byte) (map (enc_op e') ops2)).

(* ops2 = the operations the reader sees in the written bytes, with every Skip/Bra displacement replaced by
   the one that reaches the same operation in the re-encoding *)
Definition retargeted (A B : list nat) (ros1 ops2 : list operation) : Prop :=
  length ros1 = length ops2 /\
  forall k o1 o2 a' b', nth_error ros1 k = Some o1 -> nth_error ops2 k = Some o2 ->
    nth_error A (S k) = Some a' -> nth_error B (S k) = Some b' -> orel (combine A B) a' b' o1 o2.

Lemma enc_op_nonempty e' o : (1 <= length (enc_op e' o))%nat.
Proof.
  destruct o; cbn [enc_op length]; try lia.
  - destruct (base_type =? 0); cbn [length app]; lia.
  - destruct (base_type =? 0); cbn [length]; lia.
  - destruct offset; cbn [length]; lia.
  - destruct bit_offset; cbn [length]; lia.
Qed.

Lemma combine_nth {X Y} : forall (l1 : list X) (l2 : list Y) k a b,
  nth_error l1 k = Some a -> nth_error l2 k = Some b -> In (a, b) (combine l1 l2).
Proof.
  induction l1 as [|x r IH]; intros l2 k a b H1 H2; [destruct k; discriminate|].
  destruct l2 as [|y r2]; [destruct k; discriminate|]. destruct k as [|k]; cbn [nth_error combine] in *.
  - inversion H1; inversion H2; subst. left; reflexivity.
  - right. eapply IH; eauto.
Qed.
Lemma combine_In_nth {X Y} : forall (l1 : list X) (l2 : list Y) a b,
  In (a, b) (combine l1 l2) -> exists k, nth_error l1 k = Some a /\ nth_error l2 k = Some b.
Proof.
  induction l1 as [|x r IH]; intros l2 a b H; [destruct H|]. destruct l2 as [|y r2]; [destruct H|].
  cbn [combine] in H. destruct H as [E|H].
  - inversion E; subst. exists 0%nat. auto.
  - destruct (IH _ _ _ H) as [k [K1 K2]]. exists (S k). auto.
Qed.

Lemma A_of_nth dl bs k v :
  nth_error (map fst dl ++ [0 + blen bs]) k = Some v -> nth_error (A_of dl bs) k = Some (N.to_nat v).
Proof.
  unfold A_of. intros H.
  replace (map (fun x : N * dop => N.to_nat (fst x)) dl ++ [length bs]) with (map N.to_nat (map fst dl ++ [0 + blen bs])).
  - rewrite nth_error_map, H. reflexivity.
  - rewrite map_app, map_map. cbn [map]. unfold blen. rewrite N.add_0_l, Nat2N.id. reflexivity.
Qed.

Section Same.
Variable c0 : dcfg.
Let e' := renc c0.
Variables (bs : list byte) (dl : list (N * dop)) (ros1 ops2 : list operation).
Hypothesis Hdec : decode c0 bs = Some dl.
Hypothesis Hros : map (fun x => tr (snd x)) dl = map Some ros1.
Hypothesis Hwf2 : Forall (StackSpec.wf_op e') ops2.
Hypothesis Hlen1 : N.of_nat (length bs) < 2 ^ 63.
Hypothesis Hlen2 : N.of_nat (length (canon_bytes e' ops2)) < 2 ^ 63.
Hypothesis Hret : retargeted (A_of dl bs) (B_of e' ops2) ros1 ops2.

Lemma same_lengths : length dl = length ros1 /\ length ros1 = length ops2.
Proof. split; [|apply Hret]. pose proof (f_equal (@length _) Hros) as H. rewrite !map_length in H. exact H. Qed.

Lemma layout_same : layout_ok e' bs (canon_bytes e' ops2) (combine (A_of dl bs) (B_of e' ops2)).
Proof.
  destruct same_lengths as [L1 L2].
  assert (LA : length (A_of dl bs) = S (length dl)) by (unfold A_of; rewrite app_length, map_length; cbn; lia).
  assert (LB : length (B_of e' ops2) = S (length ops2)) by (unfold B_of; rewrite psums_length, !map_length; reflexivity).
  assert (Alast : nth_error (A_of dl bs) (length dl) = Some (length bs)).
  { unfold A_of. rewrite nth_error_app2 by (rewrite map_length; lia). rewrite map_length, Nat.sub_diag. reflexivity. }
  assert (Blast : nth_error (B_of e' ops2) (length ops2) = Some (length (canon_bytes e' ops2))).
  { unfold B_of, canon_bytes. pose proof (psums_last (map (@length byte) (map (enc_op e') ops2)) 0) as P.
    rewrite !map_length in P. rewrite P. rewrite concat_length. reflexivity. }
  (* what holds at every index below the last *)
  assert (Hk : forall k off d, nth_error dl k = Some (off, d) ->
            exists o1 o2 a' b',
              nth_error (A_of dl bs) k = Some (N.to_nat off) /\ (N.to_nat off < length bs)%nat /\
              nth_error ros1 k = Some o1 /\ nth_error ops2 k = Some o2 /\
              nth_error (A_of dl bs) (S k) = Some a' /\ nth_error (B_of e' ops2) (S k) = Some b' /\
              (exists b, nth_error (B_of e' ops2) k = Some b /\ (b < length (canon_bytes e' ops2))%nat /\
                 parse_op true e' (skipn b (canon_bytes e' ops2)) = Ok (o2, skipn b' (canon_bytes e' ops2))) /\
              parse_op true e' (skipn (N.to_nat off) bs) = Ok (o1, skipn a' bs)).
  { intros k off d Hd.
    destruct (decode_from_nth c0 _ _ _ _ Hdec k off d Hd) as [nxt [N1 [N2 [N3 [N4 N5]]]]].
    rewrite N.sub_0_r in N5. rewrite N.sub_0_r in N5.
    destruct (table_agrees_with_reader true c0 _ _ _ N5) as [o1 [To Po]].
    assert (R1 : nth_error ros1 k = Some o1).
    { pose proof (f_equal (fun l => nth_error l k) Hros) as E. cbv beta in E. rewrite !nth_error_map, Hd in E.
      cbn [option_map snd] in E. rewrite To in E. destruct (nth_error ros1 k); inversion E; reflexivity. }
    assert (Hk2 : (k < length ops2)%nat) by (rewrite <- L2, <- L1; apply nth_error_Some; congruence).
    destruct (nth_error ops2 k) as [o2|] eqn:E2; [|apply nth_error_None in E2; lia].
    assert (Es : nth_error (map (enc_op e') ops2) k = Some (enc_op e' o2)) by (rewrite nth_error_map, E2; reflexivity).
    destruct (psums_concat _ 0 _ _ Es) as [bk [B1 [B2 [_ [B4 B5]]]]].
    rewrite !Nat.sub_0_r in B4, B5.
    exists o1, o2, (N.to_nat nxt), (bk + length (enc_op e' o2))%nat.
    assert (A0 : nth_error (A_of dl bs) k = Some (N.to_nat off)).
    { apply A_of_nth. rewrite nth_error_app1 by (rewrite map_length; apply nth_error_Some; congruence).
      rewrite nth_error_map, Hd. reflexivity. }
    split; [exact A0|]. split; [unfold blen in N4; lia|]. split; [exact R1|]. split; [reflexivity|].
    split; [apply A_of_nth; exact N1|]. split; [exact B2|]. split.
    - exists bk. split; [exact B1|]. pose proof (enc_op_nonempty e' o2). split; [unfold canon_bytes; lia|].
      unfold canon_bytes. rewrite B4. apply decode_roundtrip_lemma.
      rewrite Forall_forall in Hwf2. apply Hwf2. eapply nth_error_In; eauto.
    - exact Po. }
  split.
  { (* (0, 0) *)
    eapply (combine_nth _ _ 0%nat).
    - unfold A_of. destruct dl as [|[o1 d1] l] eqn:Edl.
      + unfold decode in Hdec. apply decode_from_nil in Hdec. subst bs. reflexivity.
      + unfold decode in Hdec. apply decode_from_head in Hdec. subst o1. reflexivity.
    - unfold B_of. destruct (map (@length byte) (map (enc_op e') ops2)); reflexivity. }
  split; [exact Hlen1|]. split; [exact Hlen2|].
  intros a b Hin. destruct (combine_In_nth _ _ _ _ Hin) as [k [Ka Kb]].
  assert (Hkl : (k <= length dl)%nat).
  { assert (k < length (A_of dl bs))%nat by (apply nth_error_Some; congruence). lia. }
  destruct (Nat.eq_dec k (length dl)) as [->|Nk].
  - rewrite Alast in Ka. inversion Ka; subst a. rewrite L1, L2 in Kb. rewrite Blast in Kb. inversion Kb; subst b.
    split; [lia|]. split; [lia|]. split; [tauto|]. intros X; lia.
  - destruct (nth_error dl k) as [[off d]|] eqn:Ed; [|apply nth_error_None in Ed; lia].
    destruct (Hk _ _ _ Ed) as [o1 [o2 [a' [b' [A0 [A1 [R1 [R2 [A2 [B2 [[b0 [B0 [B1 PB]]] PA]]]]]]]]]]].
    rewrite A0 in Ka. inversion Ka; subst a. rewrite B0 in Kb. inversion Kb; subst b.
    split; [lia|]. split; [lia|]. split; [split; intros; lia|]. intros _.
    exists o1, o2, a', b'. split; [eapply combine_nth; eauto|]. split; [exact PA|]. split; [exact PB|].
    destruct Hret as [_ Hr]. eapply Hr; eauto.
Qed.

Theorem run_same F fuel dbg c answers :
  c_enc c = e' -> run F fuel dbg c bs answers = run F fuel dbg c (canon_bytes e' ops2) answers.
Proof. intros Hc. eapply run_layout_independent; [exact layout_same|exact Hc]. Qed.

End Same.

(* eval_same: for every expression decode_written covers, and every canonical re-encoding ops2 of what the reader
   sees in the written bytes (each operation well-formed for StackSpec.enc_op, Skip/Bra re-targeted to the
   re-encoding's own boundaries — `retargeted`), the evaluator's whole conversation is the same on both byte
   strings, for every fops, fuel, build mode, configuration and answer list. *)
Theorem eval_same_lemma dbg0 e uo refs base ex bs fx :
  forallb OpWr.wf_op ex = true -> wf_uoffs uo = true -> forallb decodable ex = true ->
  base + blen bs < 2 ^ 63 ->
  write_expr dbg0 e uo refs base ex = Ok (bs, fx) ->
  exists dl ros1,
    decode (dcfg_of e) bs = Some dl /\
    operations true (renc (dcfg_of e)) bs = (ros1, None) /\
    map (fun x => tr (snd x)) dl = map Some ros1 /\
    forall ops2,
      Forall (StackSpec.wf_op (renc (dcfg_of e))) ops2 ->
      N.of_nat (length (canon_bytes (renc (dcfg_of e)) ops2)) < 2 ^ 63 ->
      retargeted (A_of dl bs) (B_of (renc (dcfg_of e)) ops2) ros1 ops2 ->
      forall F fuel dbg c answers, c_enc c = renc (dcfg_of e) ->
        run F fuel dbg c bs answers = run F fuel dbg c (canon_bytes (renc (dcfg_of e)) ops2) answers.
Proof.
  intros Hwf Huo Hd Hpos H.
  destruct (decode_written_expr _ _ _ _ _ _ _ _ Hwf Huo Hd Hpos H) as [offsets [dl [Ho [Hdec Hdd]]]].
  pose proof Hdec as Hdec'. unfold decode in Hdec'.
  destruct (decode_from_operations true _ _ _ _ _ Hdec' (S (length bs))) as [ros [Hr Hm]]; [lia|].
  exists dl, ros. split; [exact Hdec|]. split; [exact Hr|]. split; [exact Hm|].
  intros ops2 Hw2 Hl2 Hret F fuel dbg c answers Hc.
  eapply run_same; eauto.
  unfold blen in Hpos. change (2 ^ 63) with 9223372036854775808 in *. lia.
Qed.
