(* Proofs/CfiRdBs.v — EhHdrTable::lookup refines "last row whose location is <= address"
   (C05 clause: binary search), proved against the actual loop of the model:
   split at (len/2)*row_size, pivot = first row of the tail, len - len/2 / len/2. *)
From Coq Require Import List NArith ZArith Bool Lia ZifyBool ZifyN ZifyNat.
From Coq.Strings Require Import Byte.
Require Import GV.Base.Res GV.Base.Byt GV.Base.Ints GV.Model.Leb GV.Model.Prim GV.Spec.LebSpec.
Require Import GV.Spec.CfiSpec GV.Model.CfiRd GV.Proofs.CfiRdBase.
Import ListNotations.
Local Open Scope N_scope.

Local Ltac Zify.zify_post_hook ::= Z.div_mod_to_equations.
Local Arguments N.add : simpl never.
Local Arguments N.sub : simpl never.
Local Arguments N.mul : simpl never.
Local Arguments N.shiftl : simpl never.
Local Arguments N.shiftr : simpl never.
Local Arguments N.land : simpl never.
Local Arguments N.lor : simpl never.
Local Arguments N.pow : simpl never.
Local Arguments N.div : simpl never.
Local Arguments N.modulo : simpl never.

(* ------------------------------------------------------------------ framing of fixed-size reads *)
Lemma lift_read_un_frame : forall k be o w, (k <= length w)%nat ->
  lift (read_un k be) (mkrd o w) =
  Ok ((if be then be_val (firstn k w) else le_val (firstn k w)), mkrd (o + N.of_nat k) (skipn k w)).
Proof.
  intros k be o w H. unfold lift. cbn [win off]. rewrite read_un_firstn by exact H. cbn [bind].
  do 2 f_equal. f_equal. unfold nlen. rewrite skipn_length. lia.
Qed.

Lemma lift_read_in_frame : forall k be o w, (k <= length w)%nat ->
  lift (read_in k be) (mkrd o w) =
  Ok (to_signed (8 * N.of_nat k) (if be then be_val (firstn k w) else le_val (firstn k w)),
      mkrd (o + N.of_nat k) (skipn k w)).
Proof.
  intros k be o w H. unfold lift, read_in. cbn [win off]. rewrite read_un_firstn by exact H. cbn [bind].
  do 2 f_equal. f_equal. unfold nlen. rewrite skipn_length. lia.
Qed.

(* result of a pointer parse with the reader state dropped *)
Definition decode_at (dbg be : bool) (enc : N) (pp : pparams) (o : N) (bs : list byte) : res pointer :=
  let* (p, _) := parse_encoded_pointer dbg be enc pp (mkrd o bs) in Ok p.

Lemma firstn_firstn_same : forall (k : nat) (w : list byte), firstn k (firstn k w) = firstn k w.
Proof. intros. rewrite firstn_firstn, Nat.min_id. reflexivity. Qed.

(* a fixed-size field depends only on its own bytes and leaves the reader just after them *)
Lemma pev_frame : forall dbg be enc pp size o w,
  tbl_field_size enc = Some size -> size <= nlen w ->
  parse_encoded_value dbg be enc pp (mkrd o w) =
  let* (v, _) := parse_encoded_value dbg be enc pp (mkrd o (firstn (N.to_nat size) w)) in
  Ok (v, mkrd (o + size) (skipn (N.to_nat size) w)).
Proof.
  intros dbg be enc pp size o w Hs Hw. unfold tbl_field_size in Hs. cbv zeta in Hs. unfold parse_encoded_value. cbv zeta.
  assert (Hlen : forall k : nat, N.of_nat k = size -> (k <= length w)%nat /\ (k <= length (firstn k w))%nat).
  { intros k Hk. unfold nlen in Hw. split; [lia|]. rewrite firstn_length. lia. }
  set (f := pe_format enc) in *. clearbody f.
  destruct ((f =? 10) || (f =? 2)) eqn:A.
  { injection Hs as <-. destruct (Hlen 2%nat eq_refl).
    assert (f = 10 \/ f = 2) as [-> | ->] by lia; cbn [N.eqb Pos.eqb].
    - rewrite !lift_read_in_frame by assumption. cbn [bind]. rewrite firstn_firstn_same. reflexivity.
    - rewrite !lift_read_un_frame by assumption. cbn [bind]. rewrite firstn_firstn_same. reflexivity. }
  destruct ((f =? 11) || (f =? 3)) eqn:B.
  { injection Hs as <-. destruct (Hlen 4%nat eq_refl).
    assert (f = 11 \/ f = 3) as [-> | ->] by lia; cbn [N.eqb Pos.eqb].
    - rewrite !lift_read_in_frame by assumption. cbn [bind]. rewrite firstn_firstn_same. reflexivity.
    - rewrite !lift_read_un_frame by assumption. cbn [bind]. rewrite firstn_firstn_same. reflexivity. }
  destruct ((f =? 12) || (f =? 4)) eqn:C; [|discriminate].
  injection Hs as <-. destruct (Hlen 8%nat eq_refl).
  assert (f = 12 \/ f = 4) as [-> | ->] by lia; cbn [N.eqb Pos.eqb].
  - rewrite !lift_read_in_frame by assumption. cbn [bind]. rewrite firstn_firstn_same. reflexivity.
  - rewrite !lift_read_un_frame by assumption. cbn [bind]. rewrite firstn_firstn_same. reflexivity.
Qed.

Lemma pep_frame : forall dbg be enc pp size o w,
  tbl_field_size enc = Some size -> size <= nlen w ->
  parse_encoded_pointer dbg be enc pp (mkrd o w) =
  let* p := decode_at dbg be enc pp o (firstn (N.to_nat size) w) in
  Ok (p, mkrd (o + size) (skipn (N.to_nat size) w)).
Proof.
  intros dbg be enc pp size o w Hs Hw. unfold decode_at, parse_encoded_pointer.
  destruct (negb (pe_is_valid enc)); [reflexivity|].
  destruct (enc =? DW_EH_PE_omit); [reflexivity|].
  cbn [off].
  match goal with |- (let* base := ?B in _) = _ => destruct B as [base| | |]; cbn [bind]; try reflexivity end.
  rewrite (pev_frame _ _ _ _ _ _ _ Hs Hw).
  destruct (parse_encoded_value dbg be enc pp (mkrd o (firstn (N.to_nat size) w))) as [[v r1]| | |];
    cbn [bind]; try reflexivity.
  destruct (wadd_sized dbg base v (pp_asz pp)); cbn [bind]; reflexivity.
Qed.

(* ------------------------------------------------------------------ the table as rows *)
Definition flat (rows : list (list byte * list byte)) : list byte :=
  concat (map (fun r => fst r ++ snd r) rows).
Definition wf_rows (size : N) (rows : list (list byte * list byte)) : Prop :=
  Forall (fun r => nlen (fst r) = size /\ nlen (snd r) = size) rows.

Lemma flat_app : forall r1 r2, flat (r1 ++ r2) = flat r1 ++ flat r2.
Proof. intros. unfold flat. rewrite map_app, concat_app. reflexivity. Qed.

Lemma flat_cons : forall r rs, flat (r :: rs) = fst r ++ snd r ++ flat rs.
Proof. intros. unfold flat. cbn [map concat]. rewrite <- app_assoc. reflexivity. Qed.

Lemma nlen_flat : forall size rows, wf_rows size rows -> nlen (flat rows) = N.of_nat (length rows) * (size * 2).
Proof.
  intros size rows H. induction H as [|r rs [H1 H2] _ IH].
  - reflexivity.
  - rewrite flat_cons, !nlen_app, IH, H1, H2. cbn [length]. lia.
Qed.

Lemma wf_rows_app : forall size r1 r2, wf_rows size (r1 ++ r2) <-> wf_rows size r1 /\ wf_rows size r2.
Proof. intros. unfold wf_rows. apply Forall_app. Qed.

Lemma size_nat_gt : forall n, n < 2 ^ N.of_nat (N.size_nat n).
Proof.
  intros [|p]; [reflexivity|]. cbn [N.size_nat].
  induction p as [p IH|p IH|]; cbn [Pos.size_nat]; rewrite ?Nat2N.inj_succ, ?N.pow_succ_r'; try lia.
Qed.

Lemma lookup_loop_S : forall f dbg hb h row_size address len reader,
  lookup_loop (S f) dbg hb h row_size address len reader =
  if len <=? 1 then Ok reader else
  let* k := (if two64 <=? len / 2 * row_size then Err EUnexpectedEof else Ok (len / 2 * row_size)) in
  let* (head, tail) := rd_split k reader in
  let* (p, _) := parse_encoded_pointer dbg (h_be h) (h_enc h) (hdr_pp hb h) tail in
  let* pivot := pointer_direct p in
  if pivot =? address then Ok tail
  else if pivot <? address then lookup_loop f dbg hb h row_size address (len - len / 2) tail
  else lookup_loop f dbg hb h row_size address (len / 2) head.
Proof. reflexivity. Qed.

Section Bsearch.
  Variables (dbg : bool) (hb : sbases) (h : hdr) (size a o0 : N).
  Variable rows : list (list byte * list byte).
  Variable locs : list N.
  Hypothesis Hsize : tbl_field_size (h_enc h) = Some size.
  Hypothesis Hwf : wf_rows size rows.
  Let row := size * 2.
  Let dec := decode_at dbg (h_be h) (h_enc h) (hdr_pp hb h).
  Let L (i : nat) := nth i locs 0.
  Let n := length rows.
  Hypothesis Hdec : forall i r, nth_error rows i = Some r ->
    dec (o0 + N.of_nat i * row) (fst r) = Ok (Direct (L i)).
  Hypothesis Hnomul : N.of_nat n * row < 2 ^ 64.

  Definition bs_post (k : nat) : Prop :=
    (k = 0%nat \/ L k <= a) /\ ((S k < n)%nat -> a < L (S k) \/ L k = a).

  Lemma size_pos : 0 < size.
  Proof.
    unfold tbl_field_size in Hsize. cbv zeta in Hsize.
    destruct (_ || _) in Hsize; [injection Hsize; lia|].
    destruct (_ || _) in Hsize; [injection Hsize; lia|].
    destruct (_ || _) in Hsize; [injection Hsize; lia|discriminate].
  Qed.

  Lemma lookup_loop_inv : forall k pre mid post junk,
    rows = pre ++ mid ++ post -> mid <> [] ->
    N.of_nat (length mid) <= 2 ^ N.of_nat k ->
    (length pre = 0%nat \/ L (length pre) <= a) ->
    ((length pre + length mid < n)%nat -> a < L (length pre + length mid)) ->
    exists i r junk',
      nth_error rows i = Some r /\ bs_post i /\
      lookup_loop (S k) dbg hb h row a (N.of_nat (length mid))
        (mkrd (o0 + nlen (flat pre)) (flat mid ++ junk))
      = Ok (mkrd (o0 + N.of_nat i * row) (fst r ++ snd r ++ junk')).
  Proof.
    induction k as [|k IH]; intros pre mid post junk Hrows Hne Hk Hlo Hhi.
    - (* one row *)
      change (2 ^ N.of_nat 0) with 1 in Hk.
      destruct mid as [|r [|r2 mid]]; [congruence| |cbn [length] in Hk; lia].
      exists (length pre), r, junk. split; [|split].
      + rewrite Hrows. rewrite nth_error_app2 by lia. rewrite Nat.sub_diag. reflexivity.
      + split; [exact Hlo|]. intros Hn. left. replace (S (length pre)) with (length pre + length [r])%nat by (cbn [length]; lia). apply Hhi. cbn [length]. lia.
      + rewrite lookup_loop_S. cbn [length]. change (N.of_nat 1 <=? 1) with true. cbv iota.
        rewrite flat_cons. change (flat []) with (@nil byte). rewrite app_nil_r, <- app_assoc.
        assert (Hwp : wf_rows size pre).
        { rewrite Hrows in Hwf. apply wf_rows_app in Hwf. tauto. }
        rewrite (nlen_flat _ _ Hwp). reflexivity.
    - rewrite lookup_loop_S.
      destruct (N.of_nat (length mid) <=? 1) eqn:E1.
      + (* one row *)
        destruct mid as [|r [|r2 mid]]; [congruence| |cbn [length] in E1; lia].
        exists (length pre), r, junk. split; [|split].
        * rewrite Hrows. rewrite nth_error_app2 by lia. rewrite Nat.sub_diag. reflexivity.
        * split; [exact Hlo|]. intros Hn. left. replace (S (length pre)) with (length pre + length [r])%nat by (cbn [length]; lia). apply Hhi. cbn [length]. lia.
        * rewrite flat_cons. change (flat []) with (@nil byte). rewrite app_nil_r, <- app_assoc.
          assert (Hwp : wf_rows size pre).
          { rewrite Hrows in Hwf. apply wf_rows_app in Hwf. tauto. }
          rewrite (nlen_flat _ _ Hwp). reflexivity.
      + (* split *)
        set (m := (length mid / 2)%nat).
        assert (Hm1 : (1 <= m)%nat) by (unfold m; lia).
        assert (Hm2 : (m < length mid)%nat) by (unfold m; lia).
        assert (Hhalf : N.of_nat (length mid) / 2 = N.of_nat m) by (unfold m; lia).
        rewrite Hhalf.
        assert (Hwf3 : wf_rows size pre /\ wf_rows size mid /\ wf_rows size post).
        { rewrite Hrows in Hwf. apply wf_rows_app in Hwf as [H1 H2]. apply wf_rows_app in H2. tauto. }
        destruct Hwf3 as (Hwp & Hwm & Hwpo).
        assert (Hlen : length rows = (length pre + length mid + length post)%nat).
        { rewrite Hrows, !app_length. lia. }
        assert (Hmul : N.of_nat m * row < 2 ^ 64) by (unfold n in Hnomul; nia).
        change two64 with (2 ^ 64). destruct (2 ^ 64 <=? N.of_nat m * row) eqn:Emul; [lia|]. cbn [bind].
        replace (flat mid) with (flat (firstn m mid) ++ flat (skipn m mid)) by (rewrite <- flat_app, firstn_skipn; reflexivity).
        rewrite <- app_assoc.
        assert (Hw1 : wf_rows size (firstn m mid) /\ wf_rows size (skipn m mid)).
        { rewrite <- (firstn_skipn m mid) in Hwm. apply wf_rows_app in Hwm. exact Hwm. }
        destruct Hw1 as (Hw1 & Hw2).
        assert (Hl1 : length (firstn m mid) = m) by (rewrite firstn_length; lia).
        assert (Hl2 : length (skipn m mid) = (length mid - m)%nat) by apply skipn_length.
        replace (N.of_nat m * row) with (nlen (flat (firstn m mid)))
          by (rewrite (nlen_flat _ _ Hw1), Hl1; reflexivity).
        rewrite rd_split_app. cbn [bind].
        destruct (skipn m mid) as [|r mid2] eqn:Emid2; [cbn [length] in Hl2; lia|].
        rewrite flat_cons, <- !app_assoc.
        assert (Hr : nlen (fst r) = size /\ nlen (snd r) = size) by (inversion Hw2; assumption).
        destruct Hr as (Hr1 & Hr2).
        rewrite (pep_frame _ _ _ _ size) by (rewrite ?nlen_app; try exact Hsize; lia).
        assert (Hfn : forall t, firstn (N.to_nat size) (fst r ++ t) = fst r) by (intros t; rewrite <- Hr1; apply firstn_nlen_app).
        rewrite Hfn.
        assert (Hnth : nth_error rows (length pre + m) = Some r).
        { rewrite Hrows. rewrite nth_error_app2 by lia.
          replace (length pre + m - length pre)%nat with m by lia.
          rewrite nth_error_app1 by lia.
          rewrite <- (firstn_skipn m mid). rewrite nth_error_app2 by lia.
          rewrite Hl1, Nat.sub_diag, Emid2. reflexivity. }
        assert (Hoff : o0 + nlen (flat pre) + nlen (flat (firstn m mid)) = o0 + N.of_nat (length pre + m) * row).
        { rewrite (nlen_flat _ _ Hwp), (nlen_flat _ _ Hw1), Hl1. unfold row. lia. }
        rewrite Hoff. fold dec. rewrite (Hdec _ _ Hnth). cbn [bind pointer_direct].
        destruct (L (length pre + m) =? a) eqn:Eeq.
        * (* Equal *)
          exists (length pre + m)%nat, r, (flat mid2 ++ junk). split; [exact Hnth|]. split.
          -- split; [right; lia|]. intros _. right. lia.
          -- reflexivity.
        * destruct (L (length pre + m) <? a) eqn:Elt.
          -- (* Less: continue in the tail *)
             replace (N.of_nat (length mid) - N.of_nat m) with (N.of_nat (length (r :: mid2))) by (rewrite Hl2; lia).
             specialize (IH (pre ++ firstn m mid) (r :: mid2) post junk).
             destruct IH as (i & ri & junk' & Hi1 & Hi2 & Hi3).
             ++ rewrite <- app_assoc. rewrite <- Emid2. rewrite (app_assoc (firstn m mid)), firstn_skipn. exact Hrows.
             ++ discriminate.
             ++ rewrite Hl2. rewrite Nat2N.inj_succ, N.pow_succ_r' in Hk. lia.
             ++ right. rewrite app_length, Hl1. lia.
             ++ rewrite app_length, Hl1, Hl2. intros Hn. replace (length pre + m + (length mid - m))%nat with (length pre + length mid)%nat by lia.
                apply Hhi. lia.
             ++ exists i, ri, junk'. split; [exact Hi1|]. split; [exact Hi2|].
                rewrite flat_app, nlen_app in Hi3. rewrite N.add_assoc in Hi3.
                rewrite flat_cons, <- !app_assoc in Hi3. rewrite Hoff in Hi3. exact Hi3.
          -- (* Greater: continue in the head *)
             replace (N.of_nat m) with (N.of_nat (length (firstn m mid))) by (rewrite Hl1; reflexivity).
             specialize (IH pre (firstn m mid) (skipn m mid ++ post) []).
             destruct IH as (i & ri & junk' & Hi1 & Hi2 & Hi3).
             ++ rewrite (app_assoc (firstn m mid)), firstn_skipn. exact Hrows.
             ++ intros Hnil. rewrite Hnil in Hl1. cbn [length] in Hl1. lia.
             ++ rewrite Hl1. rewrite Nat2N.inj_succ, N.pow_succ_r' in Hk. lia.
             ++ exact Hlo.
             ++ rewrite Hl1. intros _. lia.
             ++ exists i, ri, junk'. split; [exact Hi1|]. split; [exact Hi2|].
                rewrite app_nil_r in Hi3. exact Hi3.
  Qed.

  Variable extra : list byte.
  Hypothesis Hne : rows <> [].
  Hypothesis Hcount : h_count h = N.of_nat n.
  Hypothesis Htable : h_table h = mkrd o0 (flat rows ++ extra).

  Lemma bind_ret : forall A (x : res A), (let* p := x in Ok p) = x.
  Proof. intros A [v| | |]; reflexivity. Qed.

  (* the row the search returns, for ANY table whose location fields decode (sorted or not) *)
  Lemma hdr_lookup_rows : exists i r,
    nth_error rows i = Some r /\ bs_post i /\
    hdr_lookup dbg hb h a = dec (o0 + N.of_nat i * row + size) (snd r).
  Proof.
    destruct (lookup_loop_inv (N.size_nat (N.of_nat n)) [] rows [] extra) as (i & r & junk' & Hi1 & Hi2 & Hi3).
    - rewrite app_nil_r. reflexivity.
    - exact Hne.
    - apply N.lt_le_incl, size_nat_gt.
    - left. reflexivity.
    - cbn [length]. unfold n. lia.
    - exists i, r. split; [exact Hi1|]. split; [exact Hi2|].
      unfold hdr_lookup. rewrite Hsize, Hcount, Htable. unfold lookup_fuel.
      change (flat []) with (@nil byte) in Hi3. change (nlen []) with 0 in Hi3. rewrite N.add_0_r in Hi3.
      fold row. fold n in Hi3. rewrite Hi3. cbn [bind].
      assert (Hr : nlen (fst r) = size /\ nlen (snd r) = size).
      { unfold wf_rows in Hwf. rewrite Forall_forall in Hwf. apply Hwf. eapply nth_error_In. exact Hi1. }
      destruct Hr as (Hr1 & Hr2).
      rewrite <- Hr1 at 1. rewrite rd_skip_app. cbn [bind]. rewrite Hr1.
      rewrite (pep_frame _ _ _ _ size) by (rewrite ?nlen_app; try exact Hsize; lia).
      assert (Hfn : firstn (N.to_nat size) (snd r ++ junk') = snd r) by (rewrite <- Hr2; apply firstn_nlen_app).
      rewrite Hfn. fold dec.
      destruct (dec (o0 + N.of_nat i * row + size) (snd r)) as [p| | |]; reflexivity.
  Qed.
End Bsearch.

(* ------------------------------------------------------------------ bs_index *)
Lemma last_le_from_spec : forall locs a i best,
  (last_le_from locs a i best = best /\ forall j, (j < length locs)%nat -> a < nth j locs 0) \/
  (exists j, (j < length locs)%nat /\ last_le_from locs a i best = (i + j)%nat /\ nth j locs 0 <= a /\
             forall j', (j < j')%nat -> (j' < length locs)%nat -> a < nth j' locs 0).
Proof.
  induction locs as [|l r IH]; intros a i best.
  - left. split; [reflexivity|]. intros j Hj. cbn [length] in Hj. lia.
  - cbn [last_le_from].
    destruct (IH a (S i) (if l <=? a then i else best)) as [[Hk Hall]|(j & Hj & Hk & Hle & Hall)].
    + destruct (l <=? a) eqn:E.
      * right. exists 0%nat. cbn [length nth]. split; [lia|]. split; [lia|]. split; [lia|].
        intros j' H1 H2. destruct j' as [|j']; [lia|]. cbn [nth]. apply Hall. lia.
      * left. split; [exact Hk|]. intros j Hj. destruct j as [|j]; cbn [nth]; [lia|].
        apply Hall. cbn [length] in Hj. lia.
    + right. exists (S j). cbn [length nth]. split; [lia|]. split; [lia|]. split; [exact Hle|].
      intros j' H1 H2. destruct j' as [|j']; [lia|]. cbn [nth]. apply Hall; lia.
Qed.

Lemma bs_post_unique : forall locs a n i,
  strictly_sorted locs -> length locs = n -> (i < n)%nat ->
  ((i = 0%nat \/ nth i locs 0 <= a) /\ ((S i < n)%nat -> a < nth (S i) locs 0 \/ nth i locs 0 = a)) ->
  i = bs_index locs a.
Proof.
  intros locs a n i Hs Hn Hi [H1 H2]. unfold bs_index.
  destruct (last_le_from_spec locs a 0 0) as [[Hk Hall]|(j & Hj & Hk & Hle & Hall)].
  - rewrite Hk. destruct H1 as [H1|H1]; [exact H1|]. specialize (Hall i). lia.
  - rewrite Hk. cbn [Nat.add].
    destruct (Nat.lt_trichotomy i j) as [Hlt|[Heq|Hgt]]; [exfalso|exact Heq|exfalso].
    + assert (HS : (S i < n)%nat) by lia. specialize (H2 HS).
      assert (Hij : nth i locs 0 < nth j locs 0) by (apply Hs; lia).
      destruct (Nat.eq_dec (S i) j) as [E|E].
      * subst j. lia.
      * assert (nth (S i) locs 0 < nth j locs 0) by (apply Hs; lia). lia.
    + specialize (Hall i Hgt). destruct H1 as [H1|H1]; lia.
Qed.

(* ------------------------------------------------------------------ bsearch_spec *)
(* row i of the table decodes (location field) to Direct (nth i locs) *)
Definition rows_decode (dbg : bool) (hb : sbases) (h : hdr) (size o0 : N)
           (rows : list (list byte * list byte)) (locs : list N) : Prop :=
  length locs = length rows /\
  forall i r, nth_error rows i = Some r ->
    decode_at dbg (h_be h) (h_enc h) (hdr_pp hb h) (o0 + N.of_nat i * (size * 2)) (fst r) = Ok (Direct (nth i locs 0)).

(* the search postcondition for an arbitrary (possibly unsorted) table *)
Definition search_post (locs : list N) (a : N) (k : nat) : Prop :=
  (k < length locs)%nat /\
  (k = 0%nat \/ nth k locs 0 <= a) /\
  ((S k < length locs)%nat -> a < nth (S k) locs 0 \/ nth k locs 0 = a).

Lemma bsearch_any_lem : forall dbg hb h size a o0 rows locs extra,
  tbl_field_size (h_enc h) = Some size -> wf_rows size rows -> rows <> [] ->
  h_count h = N.of_nat (length rows) -> h_table h = mkrd o0 (flat rows ++ extra) ->
  rows_decode dbg hb h size o0 rows locs ->
  N.of_nat (length rows) * (size * 2) < 2 ^ 64 ->
  exists k r, nth_error rows k = Some r /\ search_post locs a k /\
    hdr_lookup dbg hb h a =
    decode_at dbg (h_be h) (h_enc h) (hdr_pp hb h) (o0 + N.of_nat k * (size * 2) + size) (snd r).
Proof.
  intros dbg hb h size a o0 rows locs extra Hs Hwf Hne Hc Ht [Hlen Hdec] Hmul.
  destruct (hdr_lookup_rows dbg hb h size a o0 rows locs Hs Hwf Hdec Hmul extra Hne Hc Ht) as (i & r & Hi & Hp & Hl).
  exists i, r. split; [exact Hi|]. split; [|exact Hl].
  assert (Hin : (i < length rows)%nat) by (apply nth_error_Some; congruence).
  unfold bs_post in Hp. unfold search_post. rewrite Hlen. split; [exact Hin|exact Hp].
Qed.

Lemma bsearch_spec_lem : forall dbg hb h size a o0 rows locs extra,
  tbl_field_size (h_enc h) = Some size -> wf_rows size rows -> rows <> [] ->
  h_count h = N.of_nat (length rows) -> h_table h = mkrd o0 (flat rows ++ extra) ->
  rows_decode dbg hb h size o0 rows locs ->
  N.of_nat (length rows) * (size * 2) < 2 ^ 64 ->
  strictly_sorted locs ->
  exists r, nth_error rows (bs_index locs a) = Some r /\
    hdr_lookup dbg hb h a =
    decode_at dbg (h_be h) (h_enc h) (hdr_pp hb h)
      (o0 + N.of_nat (bs_index locs a) * (size * 2) + size) (snd r).
Proof.
  intros dbg hb h size a o0 rows locs extra Hs Hwf Hne Hc Ht Hd Hmul Hsorted.
  destruct (bsearch_any_lem dbg hb h size a o0 rows locs extra Hs Hwf Hne Hc Ht Hd Hmul) as (k & r & Hk & Hp & Hl).
  destruct Hp as (Hlt & Hp).
  assert (Hk' : k = bs_index locs a) by (eapply bs_post_unique; eauto).
  subst k. exists r. split; assumption.
Qed.
