(* Proofs/NavProofs.v — positioned reads, next_sibling and the tree iterator over well-formed units;
   termination and panic-freedom of every cursor step over arbitrary input. *)
From Coq Require Import List NArith ZArith Bool Lia ZifyBool ZifyN ZifyNat.
From Coq.Strings Require Import Byte.
Require Import GV.Base.Res GV.Base.Byt GV.Base.Ints GV.Model.Leb GV.Model.Prim
               GV.Spec.LebSpec GV.Spec.FormSpec GV.Model.Attr GV.Spec.Forest GV.Model.AbbrevRd
               GV.Model.DieRd GV.Proofs.AttrProofs GV.Proofs.AbbrevRdProofs GV.Proofs.DieRdProofs.
Import ListNotations.
Local Open Scope N_scope.
Local Arguments N.add : simpl never.
Local Arguments N.sub : simpl never.
Local Arguments N.mul : simpl never.
Local Arguments N.pow : simpl never.
Local Arguments N.of_nat : simpl never.
Local Arguments Z.add : simpl never.
Local Arguments Z.sub : simpl never.

(* ------------------------------------------------------------------ *)
(** * Events at a shifted depth *)

Definition shift_die (k : Z) (d : die) : die :=
  mkDie (d_offset d) (d_depth d - k) (d_tag d) (d_children d) (d_attrs d).
Definition shift (k : Z) (x : xev) : xev := mkX (x_bytes x) (shift_die k (x_die x)) (x_post x - k).

Lemma shift_head codes bigend k d off t :
  shift k (head_ev codes bigend d off t) = head_ev codes bigend (d - k) off t.
Proof.
  unfold shift, head_ev, shift_die, root_die, post_depth. cbn [x_bytes x_die x_post d_offset d_depth d_tag d_children d_attrs].
  f_equal. destruct (has_children t); lia.
Qed.

Lemma shift_null k off d : shift k (null_ev off d) = null_ev off (d - k).
Proof.
  unfold shift, null_ev, shift_die, null_at. cbn [x_bytes x_die x_post d_offset d_depth d_tag d_children d_attrs].
  f_equal. lia.
Qed.

(* readable at every depth *)
Definition ev_gen (dbg : bool) (e : enc) (tbl : abbrevs) (x : xev) : Prop := forall k, ev_ok dbg e tbl (shift k x).

Lemma shift_0 x : shift 0 x = x.
Proof.
  destruct x as [b [o d t c a] p]. unfold shift, shift_die. cbn [x_bytes x_die x_post d_offset d_depth d_tag d_children d_attrs].
  rewrite !Z.sub_0_r. reflexivity.
Qed.

Lemma ev_gen_ok dbg e tbl x : ev_gen dbg e tbl x -> ev_ok dbg e tbl x.
Proof. intros H. specialize (H 0%Z). rewrite shift_0 in H. exact H. Qed.

Lemma head_ev_gen dbg e tbl codes d off t :
  addr_size_ok e -> covered tbl codes t -> node_ok codes e t -> node_fits codes (off, t) ->
  ev_gen dbg e tbl (head_ev codes (be e) d off t).
Proof. intros He Hc Hok Hfit k. rewrite shift_head. apply head_ev_ok; assumption. Qed.

Lemma null_ev_gen dbg e tbl off d : ev_gen dbg e tbl (null_ev off d).
Proof. intros k. rewrite shift_null. apply null_ev_ok. Qed.

Lemma evs_list_gen_of dbg e tbl codes d : forall l off,
  Forall (fun t => forall d o, Forall (placed_ok e tbl codes) (placed codes o t) ->
                               Forall (ev_gen dbg e tbl) (evs codes (be e) d o t)) l ->
  Forall (placed_ok e tbl codes) (on_list (placed codes) (tree_size codes) off l) ->
  Forall (ev_gen dbg e tbl) (evs_list codes (be e) d off l).
Proof.
  unfold evs_list. induction l as [|t l IH]; intros off H Hp; [constructor|]. inversion H; subst.
  rewrite on_list_cons in *. apply Forall_app in Hp. destruct Hp as [Hp1 Hp2].
  apply Forall_app. split; auto.
Qed.

Lemma evs_gen dbg e tbl codes : addr_size_ok e -> forall t d off,
  Forall (placed_ok e tbl codes) (placed codes off t) -> Forall (ev_gen dbg e tbl) (evs codes (be e) d off t).
Proof.
  intros He. induction t as [tag flag items kids IH] using tree_ind'. intros d off Hp.
  set (t := Node tag flag items kids) in *.
  rewrite placed_unfold in Hp. inversion Hp as [|? ? (Hc & Hok & Hfit) Hk]; subst. cbn [snd] in *.
  change (t_kids t) with kids in Hk.
  rewrite evs_unfold. change (t_kids t) with kids. constructor; [apply head_ev_gen; assumption|].
  destruct (has_children t); [|constructor].
  apply Forall_app. split; [|constructor; [apply null_ev_gen|constructor]].
  apply (evs_list_gen_of dbg e tbl codes (d + 1) kids); assumption.
Qed.

Lemma evs_list_gen dbg e tbl codes d l off : addr_size_ok e ->
  Forall (placed_ok e tbl codes) (on_list (placed codes) (tree_size codes) off l) ->
  Forall (ev_gen dbg e tbl) (evs_list codes (be e) d off l).
Proof.
  intros He. apply evs_list_gen_of. apply Forall_forall. intros t _ d' o. apply evs_gen. exact He.
Qed.

Lemma pad_evs_gen dbg e tbl : forall n off d, Forall (ev_gen dbg e tbl) (pad_evs off d n).
Proof. induction n as [|n IH]; intros off d; constructor; [apply null_ev_gen|apply IH]. Qed.

Lemma body_evs_gen dbg e tbl codes off f pad : addr_size_ok e ->
  all_covered tbl codes f -> forest_ok codes e f -> sibs_fit codes off f ->
  Forall (ev_gen dbg e tbl) (body_evs codes (be e) off f pad).
Proof.
  intros He H1 H2 H3. unfold body_evs. apply Forall_app. split.
  - apply evs_list_gen; [exact He|]. apply placed_ok_all; assumption.
  - apply pad_evs_gen.
Qed.

Lemma xbytes_shift k l : xbytes (map (shift k) l) = xbytes l.
Proof. unfold xbytes. rewrite map_map. reflexivity. Qed.

Lemma chain_shift k : forall l off d, chain off d l -> chain off (d - k) (map (shift k) l).
Proof.
  induction l as [|x l IH]; intros off d H; [exact I|]. destruct H as (A & B & C).
  cbn [map chain shift x_die x_bytes x_post shift_die d_offset d_depth]. repeat split; [exact A|lia|].
  apply IH. exact C.
Qed.

Lemma Forall_gen_shift dbg e tbl k l : Forall (ev_gen dbg e tbl) l -> Forall (ev_ok dbg e tbl) (map (shift k) l).
Proof. intros H. apply Forall_map. eapply Forall_impl; [|exact H]. intros x Hx. apply Hx. Qed.

(* ------------------------------------------------------------------ *)
(** * Positioned reads *)

(* a reader started at an event boundary of a unit body, with depth 0 *)
Lemma at_chain_positioned dbg e tbl l1 l2 off E :
  Forall (ev_gen dbg e tbl) (l1 ++ l2) -> chain off 0 (l1 ++ l2) ->
  E = off + nlen (xbytes (l1 ++ l2)) -> E < two63 ->
  at_chain dbg e tbl E [] (mkRaw (xbytes l2) E 0) (map (shift (end_depth 0 l1)) l2).
Proof.
  intros Hok Hch HE HE63. unfold two63 in HE63. apply Forall_app in Hok. destruct Hok as [_ Hok2].
  apply chain_app in Hch. destruct Hch as [_ Hch2]. rewrite xbytes_app, nlen_app in HE.
  split; cbn [r_in r_end r_depth]; rewrite ?app_nil_r, ?xbytes_shift; try reflexivity.
  - apply Forall_gen_shift. exact Hok2.
  - replace (E - nlen (xbytes l2)) with (off + nlen (xbytes l1)) by lia.
    pose proof (chain_shift (end_depth 0 l1) l2 _ _ Hch2) as C. rewrite Z.sub_diag in C. exact C.
  - lia.
  - unfold two64. lia.
  - split; unfold nlen in *; lia.
Qed.

(* where an entry of the forest sits in the event list *)
Lemma on_list_in {A} (f : N -> tree -> list A) size : forall l off p,
  In p (on_list f size off l) ->
  exists la k lb, l = la ++ k :: lb /\ In p (f (off + sumN (map size la)) k).
Proof.
  induction l as [|t l IH]; intros off p H; [destruct H|]. rewrite on_list_cons in H.
  apply in_app_or in H. destruct H as [H|H].
  - exists [], t, l. split; [reflexivity|]. cbn [map sumN fold_right]. rewrite N.add_0_r. exact H.
  - destruct (IH _ _ H) as (la & k & lb & -> & Hin). exists (t :: la), k, lb. split; [reflexivity|].
    cbn [map sumN fold_right]. rewrite N.add_assoc. exact Hin.
Qed.

Lemma evs_list_app codes bigend d la lb off :
  evs_list codes bigend d off (la ++ lb) =
  evs_list codes bigend d off la ++ evs_list codes bigend d (off + forest_size codes la) lb.
Proof. unfold evs_list, forest_size. apply on_list_app. Qed.

Lemma evs_list_len codes bigend d l off : nlen (xbytes (evs_list codes bigend d off l)) = forest_size codes l.
Proof. rewrite evs_list_bytes. apply enc_forest_list_len. Qed.

Lemma xbytes_cons x l : xbytes (x :: l) = x_bytes x ++ xbytes l. Proof. reflexivity. Qed.

Lemma evs_locate codes bigend : forall t0 d off o t,
  In (o, t) (placed codes off t0) ->
  exists l1 l2 dd, evs codes bigend d off t0 = l1 ++ head_ev codes bigend dd o t :: l2 /\
                   o = off + nlen (xbytes l1) /\ end_depth d l1 = dd.
Proof.
  induction t0 as [tag flag items kids IH] using tree_ind'. intros d off o t Hin.
  set (t0 := Node tag flag items kids) in *.
  rewrite placed_unfold in Hin. change (t_kids t0) with kids in Hin. destruct Hin as [Heq|Hin].
  - inversion Heq; subst o t. exists [], (tl (evs codes bigend d off t0)), d.
    split; [rewrite evs_unfold; reflexivity|]. split; [change (nlen (xbytes [])) with 0; lia|reflexivity].
  - destruct (on_list_in _ _ _ _ _ Hin) as (la & k & lb & Ek & Hk).
    rewrite Forall_forall in IH. assert (Hkin : In k kids) by (rewrite Ek; apply in_or_app; right; left; reflexivity).
    destruct (IH k Hkin (d + 1)%Z _ o t Hk) as (m1 & m2 & dd & Em & Ho & Hd).
    assert (Hc : has_children t0 = true).
    { destruct (has_children t0) eqn:E; [reflexivity|]. apply no_children_no_kids in E.
      change (t_kids t0) with kids in E. rewrite E in Hkin. destruct Hkin. }
    rewrite evs_unfold, Hc. change (t_kids t0) with kids.
    fold (evs_list codes bigend (d + 1) (kids_off codes off t0) kids).
    rewrite Ek, evs_list_app. unfold evs_list at 2. rewrite on_list_cons. unfold forest_size. rewrite Em.
    exists (head_ev codes bigend d off t0 :: evs_list codes bigend (d + 1) (kids_off codes off t0) la ++ m1).
    eexists. exists dd. split; [|split].
    + cbn [app]. f_equal. rewrite <- !app_assoc. cbn [app]. reflexivity.
    + rewrite xbytes_cons, xbytes_app, !nlen_app, evs_list_len. cbn [head_ev x_bytes].
      rewrite head_bytes_len. pose proof (kids_off_ge codes off t0). unfold forest_size in *. lia.
    + cbn [end_depth head_ev x_post]. rewrite end_depth_app.
      destruct (evs_list_chain codes bigend (post_depth d t0) la (kids_off codes off t0)) as [_ E].
      unfold post_depth in *. rewrite Hc in *. rewrite E. exact Hd.
Qed.

Lemma evs_list_locate codes bigend d : forall f off o t,
  In (o, t) (on_list (placed codes) (tree_size codes) off f) ->
  exists l1 l2 dd, evs_list codes bigend d off f = l1 ++ head_ev codes bigend dd o t :: l2 /\
                   o = off + nlen (xbytes l1) /\ end_depth d l1 = dd.
Proof.
  intros f off o t Hin. destruct (on_list_in _ _ _ _ _ Hin) as (la & k & lb & -> & Hk).
  destruct (evs_locate codes bigend k d _ o t Hk) as (m1 & m2 & dd & Em & Ho & Hd).
  rewrite evs_list_app. unfold evs_list at 2. rewrite on_list_cons. unfold forest_size. rewrite Em.
  exists (evs_list codes bigend d off la ++ m1). eexists. exists dd. split; [|split].
  - rewrite <- !app_assoc. cbn [app]. reflexivity.
  - rewrite xbytes_app, nlen_app, evs_list_len. unfold forest_size in *. lia.
  - rewrite end_depth_app. destruct (evs_list_chain codes bigend d la off) as [_ E]. rewrite E. exact Hd.
Qed.

Lemma body_locate codes bigend off f pad o t :
  In (o, t) (on_list (placed codes) (tree_size codes) off f) ->
  exists l1 l2 dd, body_evs codes bigend off f pad = l1 ++ head_ev codes bigend dd o t :: l2 /\
                   o = off + nlen (xbytes l1) /\ end_depth 0 l1 = dd.
Proof.
  intros Hin. destruct (evs_list_locate codes bigend 0 f off o t Hin) as (l1 & l2 & dd & E & Ho & Hd).
  unfold body_evs. rewrite E. exists l1. eexists. exists dd. split; [|split; assumption].
  rewrite <- app_assoc. cbn [app]. reflexivity.
Qed.

Lemma entries_at_offset_raw dbg h o r :
  entries_raw dbg h (Some o) = Ok r -> entries_at_offset dbg h o = Ok (mkCur r null_die).
Proof.
  unfold entries_raw, entries_at_offset, cursor_new. cbn [bind].
  destruct (range_from dbg h o) as [input| | |]; cbn [bind]; try discriminate.
  intros H. rewrite H. reflexivity.
Qed.

Lemma entries_tree_raw dbg h o r :
  entries_raw dbg h (Some o) = Ok r -> entries_tree dbg h (Some o) = Ok (mkTree (r_in r) r null_die).
Proof.
  unfold entries_raw, entries_tree. cbn [bind].
  destruct (range_from dbg h o) as [input| | |]; cbn [bind]; try discriminate.
  unfold raw_new. destruct (chk_add 64 dbg o (nlen input)) as [x| | |]; cbn [bind]; try discriminate.
  intros H. inversion H; subst. reflexivity.
Qed.

Lemma filter_shift k : forall l,
  filter not_null (map x_die (map (shift k) l)) = map (shift_die k) (filter not_null (map x_die l)).
Proof.
  induction l as [|x l IH]; [reflexivity|]. cbn [map filter shift x_die].
  assert (E : not_null (shift_die k (x_die x)) = not_null (x_die x)) by reflexivity.
  rewrite E. destruct (not_null (x_die x)); cbn [map]; rewrite IH; reflexivity.
Qed.

Section Unit.
  Variables (dbg bigend types : bool) (uoff : N) (h : uheader) (codes : coding) (f : list tree) (pad : nat)
            (tbl : abbrevs).
  Let e := unit_enc bigend h.
  Let hl := header_len h.
  Let body := enc_forest codes bigend hl f pad.
  Let hdr := parsed_header bigend types uoff h body.
  Let E := hl + nlen body.
  Hypothesis He : addr_size_ok e.
  Hypothesis Hlen : hl + nlen body < two63.
  Hypothesis Hcov : all_covered tbl codes f.
  Hypothesis Hok : forest_ok codes e f.
  Hypothesis Hfit : sibs_fit codes hl f.

  Lemma unit_gen : Forall (ev_gen dbg e tbl) (body_evs codes bigend hl f pad).
  Proof. change bigend with (be e). apply body_evs_gen; assumption. Qed.

  (* the reader obtained by entries_raw(Some o) for the offset o of an event boundary *)
  Lemma positioned l1 l2 o :
    body_evs codes bigend hl f pad = l1 ++ l2 -> l2 <> [] -> o = hl + nlen (xbytes l1) ->
    entries_raw dbg hdr (Some o) = Ok (mkRaw (xbytes l2) E 0) /\
    at_chain dbg e tbl E [] (mkRaw (xbytes l2) E 0) (map (shift (end_depth 0 l1)) l2).
  Proof.
    intros Hsplit Hne Ho.
    assert (Hb : body = xbytes l1 ++ xbytes l2).
    { unfold body. rewrite <- (body_evs_bytes codes bigend hl f pad), Hsplit. apply xbytes_app. }
    pose proof unit_gen as Hgen. rewrite Hsplit in Hgen.
    assert (Hne2 : xbytes l2 <> []).
    { destruct l2 as [|x l2]; [congruence|]. apply Forall_app in Hgen. destruct Hgen as [_ Hg].
      inversion Hg as [|? ? Hx _]; subst. destruct (ev_gen_ok _ _ _ _ Hx) as ((b & r & Eb) & _).
      rewrite xbytes_cons, Eb. discriminate. }
    split.
    - unfold hdr. rewrite Hb. unfold E. rewrite Hb.
      apply entries_raw_at; [rewrite <- Hb; exact Hlen|exact Hne2|exact Ho].
    - apply (at_chain_positioned dbg e tbl l1 l2 hl E); [exact Hgen| |unfold E|exact Hlen].
      + rewrite <- Hsplit. apply body_evs_chain.
      + rewrite <- Hsplit, body_evs_bytes. reflexivity.
  Qed.

  (* Theorem 6b: UnitHeader::entry at the offset of any entry returns that entry (depth 0) *)
  Lemma entry_at_offset o t :
    In (o, t) (on_list (placed codes) (tree_size codes) hl f) ->
    entry_at dbg hdr tbl o = Ok (root_die codes o 0 t).
  Proof.
    intros Hin. destruct (body_locate codes bigend hl f pad o t Hin) as (l1 & l2 & dd & Eb & Ho & Hd).
    destruct (positioned l1 (head_ev codes bigend dd o t :: l2) o Eb ltac:(discriminate) Ho) as [Hraw Hat].
    unfold entry_at. rewrite Hraw. cbn [bind].
    cbn [map] in Hat. destruct (at_chain_step _ _ _ _ _ _ _ _ Hat) as (Hr & _).
    change (u_enc hdr) with e. rewrite Hr. cbn [bind].
    rewrite Hd, shift_head, Z.sub_diag. cbn [head_ev x_die].
    assert (Hn : node_ok codes e t).
    { unfold forest_ok in Hok. rewrite Forall_forall in Hok. apply Hok.
      rewrite <- (placed_list_nodes codes f hl). apply (in_map snd) in Hin. exact Hin. }
    rewrite (root_die_not_null codes e o 0 t Hn). reflexivity.
  Qed.

  (* Theorem 6c: a cursor started at the offset of any entry reports that entry and everything after
     it in preorder, with depths relative to the entry *)
  Lemma dfs_from_offset o t :
    In (o, t) (on_list (placed codes) (tree_size codes) hl f) ->
    exists p1 p2 dd c,
      preorder codes hl 0 f = p1 ++ root_die codes o dd t :: p2 /\
      entries_at_offset dbg hdr o = Ok c /\
      dfs_all (cursor_fuel c) dbg e tbl c = Ok (map (shift_die dd) (root_die codes o dd t :: p2), None).
  Proof.
    intros Hin. destruct (body_locate codes bigend hl f pad o t Hin) as (l1 & l2 & dd & Eb & Ho & Hd).
    destruct (positioned l1 (head_ev codes bigend dd o t :: l2) o Eb ltac:(discriminate) Ho) as [Hraw Hat].
    assert (Hn : node_ok codes e t).
    { unfold forest_ok in Hok. rewrite Forall_forall in Hok. apply Hok.
      rewrite <- (placed_list_nodes codes f hl). apply (in_map snd) in Hin. exact Hin. }
    exists (filter not_null (map x_die l1)), (filter not_null (map x_die l2)), dd.
    eexists. split; [|split].
    - rewrite <- (raw_seq_preorder codes e hl f pad Hok), <- body_evs_dies with (bigend := bigend), Eb.
      rewrite map_app, filter_app. cbn [map filter head_ev x_die]. unfold not_null at 2.
      rewrite (root_die_not_null codes e o dd t Hn). reflexivity.
    - apply entries_at_offset_raw. exact Hraw.
    - set (c := mkCur (mkRaw (xbytes (head_ev codes bigend dd o t :: l2)) E 0) null_die).
      change (mkRaw (xbytes (head_ev codes bigend dd o t :: l2)) E 0) with (c_raw c) in Hat.
      pose proof (at_chain_fuel _ _ _ _ _ _ Hat) as Hf. unfold cursor_fuel.
      rewrite (dfs_all_chain dbg e tbl _ _ _ c Hat Hf). rewrite Hd, filter_shift.
      cbn [map filter head_ev x_die]. unfold not_null at 1.
      rewrite (root_die_not_null codes e o dd t Hn). reflexivity.
  Qed.
End Unit.
