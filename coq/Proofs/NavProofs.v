(* Proofs/NavProofs.v — positioned reads, next_sibling and the tree iterator over well-formed units;
   termination and panic-freedom of every cursor step over arbitrary input. *)
From Coq Require Import List NArith ZArith Bool Lia ZifyBool ZifyN ZifyNat.
From Coq.Strings Require Import Byte.
Require Import GV.Base.Res GV.Base.Byt GV.Base.Ints GV.Model.Leb GV.Model.Prim
               GV.Spec.LebSpec GV.Spec.FormSpec GV.Model.Attr GV.Spec.Forest GV.Model.AbbrevRd
               GV.Model.DieRd GV.Proofs.AttrProofs GV.Proofs.AbbrevRdProofs GV.Proofs.DieRdProofs.
Import ListNotations.
Local Open Scope N_scope.
Local Arguments N.add : simpl never.
Local Arguments N.sub : simpl never.
Local Arguments N.mul : simpl never.
Local Arguments N.pow : simpl never.
Local Arguments N.of_nat : simpl never.
Local Arguments Z.add : simpl never.
Local Arguments Z.sub : simpl never.

(* ------------------------------------------------------------------ *)
(** * Events at a shifted depth *)

Definition shift_die (k : Z) (d : die) : die :=
  mkDie (d_offset d) (d_depth d - k) (d_tag d) (d_children d) (d_attrs d).
Definition shift (k : Z) (x : xev) : xev := mkX (x_bytes x) (shift_die k (x_die x)) (x_post x - k).

Lemma shift_head codes bigend k d off t :
  shift k (head_ev codes bigend d off t) = head_ev codes bigend (d - k) off t.
Proof.
  unfold shift, head_ev, shift_die, root_die, post_depth. cbn [x_bytes x_die x_post d_offset d_depth d_tag d_children d_attrs].
  f_equal. destruct (has_children t); lia.
Qed.

Lemma shift_null k off d : shift k (null_ev off d) = null_ev off (d - k).
Proof.
  unfold shift, null_ev, shift_die, null_at. cbn [x_bytes x_die x_post d_offset d_depth d_tag d_children d_attrs].
  f_equal. lia.
Qed.

(* readable at every depth *)
Definition ev_gen (dbg : bool) (e : enc) (tbl : abbrevs) (x : xev) : Prop := forall k, ev_ok dbg e tbl (shift k x).

Lemma shift_0 x : shift 0 x = x.
Proof.
  destruct x as [b [o d t c a] p]. unfold shift, shift_die. cbn [x_bytes x_die x_post d_offset d_depth d_tag d_children d_attrs].
  rewrite !Z.sub_0_r. reflexivity.
Qed.

Lemma ev_gen_ok dbg e tbl x : ev_gen dbg e tbl x -> ev_ok dbg e tbl x.
Proof. intros H. specialize (H 0%Z). rewrite shift_0 in H. exact H. Qed.

Lemma head_ev_gen dbg e tbl codes d off t :
  addr_size_ok e -> covered tbl codes t -> node_ok codes e t -> node_fits codes (off, t) ->
  ev_gen dbg e tbl (head_ev codes (be e) d off t).
Proof. intros He Hc Hok Hfit k. rewrite shift_head. apply head_ev_ok; assumption. Qed.

Lemma null_ev_gen dbg e tbl off d : ev_gen dbg e tbl (null_ev off d).
Proof. intros k. rewrite shift_null. apply null_ev_ok. Qed.

Lemma evs_list_gen_of dbg e tbl codes d : forall l off,
  Forall (fun t => forall d o, Forall (placed_ok e tbl codes) (placed codes o t) ->
                               Forall (ev_gen dbg e tbl) (evs codes (be e) d o t)) l ->
  Forall (placed_ok e tbl codes) (on_list (placed codes) (tree_size codes) off l) ->
  Forall (ev_gen dbg e tbl) (evs_list codes (be e) d off l).
Proof.
  unfold evs_list. induction l as [|t l IH]; intros off H Hp; [constructor|]. inversion H; subst.
  rewrite on_list_cons in *. apply Forall_app in Hp. destruct Hp as [Hp1 Hp2].
  apply Forall_app. split; auto.
Qed.

Lemma evs_gen dbg e tbl codes : addr_size_ok e -> forall t d off,
  Forall (placed_ok e tbl codes) (placed codes off t) -> Forall (ev_gen dbg e tbl) (evs codes (be e) d off t).
Proof.
  intros He. induction t as [tag flag items kids IH] using tree_ind'. intros d off Hp.
  set (t := Node tag flag items kids) in *.
  rewrite placed_unfold in Hp. inversion Hp as [|? ? (Hc & Hok & Hfit) Hk]; subst. cbn [snd] in *.
  change (t_kids t) with kids in Hk.
  rewrite evs_unfold. change (t_kids t) with kids. constructor; [apply head_ev_gen; assumption|].
  destruct (has_children t); [|constructor].
  apply Forall_app. split; [|constructor; [apply null_ev_gen|constructor]].
  apply (evs_list_gen_of dbg e tbl codes (d + 1) kids); assumption.
Qed.

Lemma evs_list_gen dbg e tbl codes d l off : addr_size_ok e ->
  Forall (placed_ok e tbl codes) (on_list (placed codes) (tree_size codes) off l) ->
  Forall (ev_gen dbg e tbl) (evs_list codes (be e) d off l).
Proof.
  intros He. apply evs_list_gen_of. apply Forall_forall. intros t _ d' o. apply evs_gen. exact He.
Qed.

Lemma pad_evs_gen dbg e tbl : forall n off d, Forall (ev_gen dbg e tbl) (pad_evs off d n).
Proof. induction n as [|n IH]; intros off d; constructor; [apply null_ev_gen|apply IH]. Qed.

Lemma body_evs_gen dbg e tbl codes off f pad : addr_size_ok e ->
  all_covered tbl codes f -> forest_ok codes e f -> sibs_fit codes off f ->
  Forall (ev_gen dbg e tbl) (body_evs codes (be e) off f pad).
Proof.
  intros He H1 H2 H3. unfold body_evs. apply Forall_app. split.
  - apply evs_list_gen; [exact He|]. apply placed_ok_all; assumption.
  - apply pad_evs_gen.
Qed.

Lemma xbytes_shift k l : xbytes (map (shift k) l) = xbytes l.
Proof. unfold xbytes. rewrite map_map. reflexivity. Qed.

Lemma chain_shift k : forall l off d, chain off d l -> chain off (d - k) (map (shift k) l).
Proof.
  induction l as [|x l IH]; intros off d H; [exact I|]. destruct H as (A & B & C).
  cbn [map chain shift x_die x_bytes x_post shift_die d_offset d_depth]. repeat split; [exact A|lia|].
  apply IH. exact C.
Qed.

Lemma Forall_gen_shift dbg e tbl k l : Forall (ev_gen dbg e tbl) l -> Forall (ev_ok dbg e tbl) (map (shift k) l).
Proof. intros H. apply Forall_map. eapply Forall_impl; [|exact H]. intros x Hx. apply Hx. Qed.

(* ------------------------------------------------------------------ *)
(** * Positioned reads *)

(* a reader started at an event boundary of a unit body, with depth 0 *)
Lemma at_chain_positioned dbg e tbl l1 l2 off E :
  Forall (ev_gen dbg e tbl) (l1 ++ l2) -> chain off 0 (l1 ++ l2) ->
  E = off + nlen (xbytes (l1 ++ l2)) -> E < two63 ->
  at_chain dbg e tbl E [] (mkRaw (xbytes l2) E 0) (map (shift (end_depth 0 l1)) l2).
Proof.
  intros Hok Hch HE HE63. unfold two63 in HE63. apply Forall_app in Hok. destruct Hok as [_ Hok2].
  apply chain_app in Hch. destruct Hch as [_ Hch2]. rewrite xbytes_app, nlen_app in HE.
  split; cbn [r_in r_end r_depth]; rewrite ?app_nil_r, ?xbytes_shift; try reflexivity.
  - apply Forall_gen_shift. exact Hok2.
  - replace (E - nlen (xbytes l2)) with (off + nlen (xbytes l1)) by lia.
    pose proof (chain_shift (end_depth 0 l1) l2 _ _ Hch2) as C. rewrite Z.sub_diag in C. exact C.
  - lia.
  - unfold two64. lia.
  - split; unfold nlen in *; lia.
Qed.

(* where an entry of the forest sits in the event list *)
Lemma on_list_in {A} (f : N -> tree -> list A) size : forall l off p,
  In p (on_list f size off l) ->
  exists la k lb, l = la ++ k :: lb /\ In p (f (off + sumN (map size la)) k).
Proof.
  induction l as [|t l IH]; intros off p H; [destruct H|]. rewrite on_list_cons in H.
  apply in_app_or in H. destruct H as [H|H].
  - exists [], t, l. split; [reflexivity|]. cbn [map sumN fold_right]. rewrite N.add_0_r. exact H.
  - destruct (IH _ _ H) as (la & k & lb & -> & Hin). exists (t :: la), k, lb. split; [reflexivity|].
    cbn [map sumN fold_right]. rewrite N.add_assoc. exact Hin.
Qed.

Lemma evs_list_app codes bigend d la lb off :
  evs_list codes bigend d off (la ++ lb) =
  evs_list codes bigend d off la ++ evs_list codes bigend d (off + forest_size codes la) lb.
Proof. unfold evs_list, forest_size. apply on_list_app. Qed.

Lemma evs_list_len codes bigend d l off : nlen (xbytes (evs_list codes bigend d off l)) = forest_size codes l.
Proof. rewrite evs_list_bytes. apply enc_forest_list_len. Qed.

Lemma xbytes_cons x l : xbytes (x :: l) = x_bytes x ++ xbytes l. Proof. reflexivity. Qed.

Definition tail_evs_of (codes : coding) (bigend : bool) (d : Z) (off : N) (t : tree) : list xev :=
  if has_children t
  then on_list (evs codes bigend (d + 1)) (tree_size codes) (kids_off codes off t) (t_kids t) ++
       [null_ev (off + tree_size codes t - 1) (d + 1)]
  else [].

Lemma evs_locate codes bigend : forall t0 d off o t,
  In (o, t) (placed codes off t0) ->
  exists l1 l2 dd, evs codes bigend d off t0 = l1 ++ evs codes bigend dd o t ++ l2 /\
                   o = off + nlen (xbytes l1) /\ end_depth d l1 = dd.
Proof.
  induction t0 as [tag flag items kids IH] using tree_ind'. intros d off o t Hin.
  set (t0 := Node tag flag items kids) in *.
  rewrite placed_unfold in Hin. change (t_kids t0) with kids in Hin. destruct Hin as [Heq|Hin].
  - inversion Heq; subst o t. exists [], [], d.
    split; [rewrite app_nil_r; reflexivity|]. split; [change (nlen (xbytes [])) with 0; lia|reflexivity].
  - destruct (on_list_in _ _ _ _ _ Hin) as (la & k & lb & Ek & Hk).
    rewrite Forall_forall in IH. assert (Hkin : In k kids) by (rewrite Ek; apply in_or_app; right; left; reflexivity).
    destruct (IH k Hkin (d + 1)%Z _ o t Hk) as (m1 & m2 & dd & Em & Ho & Hd).
    assert (Hc : has_children t0 = true).
    { destruct (has_children t0) eqn:E; [reflexivity|]. apply no_children_no_kids in E.
      change (t_kids t0) with kids in E. rewrite E in Hkin. destruct Hkin. }
    rewrite (evs_unfold codes bigend d off t0), Hc. change (t_kids t0) with kids.
    fold (evs_list codes bigend (d + 1) (kids_off codes off t0) kids).
    rewrite Ek, evs_list_app. unfold evs_list at 2. rewrite on_list_cons. unfold forest_size. rewrite Em.
    exists (head_ev codes bigend d off t0 :: evs_list codes bigend (d + 1) (kids_off codes off t0) la ++ m1).
    eexists. exists dd. split; [|split].
    + cbn [app]. f_equal. rewrite <- !app_assoc. reflexivity.
    + rewrite xbytes_cons, xbytes_app, !nlen_app, evs_list_len. cbn [head_ev x_bytes].
      rewrite head_bytes_len. pose proof (kids_off_ge codes off t0). unfold forest_size in *. lia.
    + cbn [end_depth head_ev x_post]. rewrite end_depth_app.
      destruct (evs_list_chain codes bigend (post_depth d t0) la (kids_off codes off t0)) as [_ E].
      unfold post_depth in *. rewrite Hc in *. rewrite E. exact Hd.
Qed.

Lemma evs_list_locate codes bigend d : forall f off o t,
  In (o, t) (on_list (placed codes) (tree_size codes) off f) ->
  exists l1 l2 dd, evs_list codes bigend d off f = l1 ++ evs codes bigend dd o t ++ l2 /\
                   o = off + nlen (xbytes l1) /\ end_depth d l1 = dd.
Proof.
  intros f off o t Hin. destruct (on_list_in _ _ _ _ _ Hin) as (la & k & lb & -> & Hk).
  destruct (evs_locate codes bigend k d _ o t Hk) as (m1 & m2 & dd & Em & Ho & Hd).
  rewrite evs_list_app. unfold evs_list at 2. rewrite on_list_cons. unfold forest_size. rewrite Em.
  exists (evs_list codes bigend d off la ++ m1). eexists. exists dd. split; [|split].
  - rewrite <- !app_assoc. reflexivity.
  - rewrite xbytes_app, nlen_app, evs_list_len. unfold forest_size in *. lia.
  - rewrite end_depth_app. destruct (evs_list_chain codes bigend d la off) as [_ E]. rewrite E. exact Hd.
Qed.

Lemma body_locate codes bigend off f pad o t :
  In (o, t) (on_list (placed codes) (tree_size codes) off f) ->
  exists l1 l2 dd, body_evs codes bigend off f pad =
                     l1 ++ head_ev codes bigend dd o t :: tail_evs_of codes bigend dd o t ++ l2 /\
                   o = off + nlen (xbytes l1) /\ end_depth 0 l1 = dd.
Proof.
  intros Hin. destruct (evs_list_locate codes bigend 0 f off o t Hin) as (l1 & l2 & dd & E & Ho & Hd).
  unfold body_evs. rewrite E. exists l1, (l2 ++ pad_evs (off + forest_size codes f) 0 pad), dd.
  split; [|split; assumption].
  rewrite evs_unfold. fold (tail_evs_of codes bigend dd o t). rewrite <- !app_assoc. cbn [app].
  reflexivity.
Qed.

Lemma entries_at_offset_raw dbg h o r :
  entries_raw dbg h (Some o) = Ok r -> entries_at_offset dbg h o = Ok (mkCur r null_die).
Proof.
  unfold entries_raw, entries_at_offset, cursor_new. cbn [bind].
  destruct (range_from dbg h o) as [input| | |]; cbn [bind]; try discriminate.
  intros H. rewrite H. reflexivity.
Qed.

Lemma entries_tree_raw dbg h o r :
  entries_raw dbg h (Some o) = Ok r -> entries_tree dbg h (Some o) = Ok (mkTree (r_in r) r null_die).
Proof.
  unfold entries_raw, entries_tree. cbn [bind].
  destruct (range_from dbg h o) as [input| | |]; cbn [bind]; try discriminate.
  unfold raw_new. destruct (chk_add 64 dbg o (nlen input)) as [x| | |]; cbn [bind]; try discriminate.
  intros H. inversion H; subst. reflexivity.
Qed.

Lemma filter_shift k : forall l,
  filter not_null (map x_die (map (shift k) l)) = map (shift_die k) (filter not_null (map x_die l)).
Proof.
  induction l as [|x l IH]; [reflexivity|]. cbn [map filter shift x_die].
  assert (E : not_null (shift_die k (x_die x)) = not_null (x_die x)) by reflexivity.
  rewrite E. destruct (not_null (x_die x)); cbn [map]; rewrite IH; reflexivity.
Qed.

Section Unit.
  Variables (dbg bigend types : bool) (uoff : N) (h : uheader) (codes : coding) (f : list tree) (pad : nat)
            (tbl : abbrevs).
  Let e := unit_enc bigend h.
  Let hl := header_len h.
  Let body := enc_forest codes bigend hl f pad.
  Let hdr := parsed_header bigend types uoff h body.
  Let E := hl + nlen body.
  Hypothesis He : addr_size_ok e.
  Hypothesis Hlen : hl + nlen body < two63.
  Hypothesis Hcov : all_covered tbl codes f.
  Hypothesis Hok : forest_ok codes e f.
  Hypothesis Hfit : sibs_fit codes hl f.

  Lemma unit_gen : Forall (ev_gen dbg e tbl) (body_evs codes bigend hl f pad).
  Proof. change bigend with (be e). apply body_evs_gen; assumption. Qed.

  (* the reader obtained by entries_raw(Some o) for the offset o of an event boundary *)
  Lemma positioned l1 l2 o :
    body_evs codes bigend hl f pad = l1 ++ l2 -> l2 <> [] -> o = hl + nlen (xbytes l1) ->
    entries_raw dbg hdr (Some o) = Ok (mkRaw (xbytes l2) E 0) /\
    at_chain dbg e tbl E [] (mkRaw (xbytes l2) E 0) (map (shift (end_depth 0 l1)) l2).
  Proof.
    intros Hsplit Hne Ho.
    assert (Hb : body = xbytes l1 ++ xbytes l2).
    { unfold body. rewrite <- (body_evs_bytes codes bigend hl f pad), Hsplit. apply xbytes_app. }
    pose proof unit_gen as Hgen. rewrite Hsplit in Hgen.
    assert (Hne2 : xbytes l2 <> []).
    { destruct l2 as [|x l2]; [congruence|]. apply Forall_app in Hgen. destruct Hgen as [_ Hg].
      inversion Hg as [|? ? Hx _]; subst. destruct (ev_gen_ok _ _ _ _ Hx) as ((b & r & Eb) & _).
      rewrite xbytes_cons, Eb. discriminate. }
    split.
    - unfold hdr. rewrite Hb. unfold E. rewrite Hb.
      apply entries_raw_at; [rewrite <- Hb; exact Hlen|exact Hne2|exact Ho].
    - apply (at_chain_positioned dbg e tbl l1 l2 hl E); [exact Hgen| |unfold E|exact Hlen].
      + rewrite <- Hsplit. apply body_evs_chain.
      + rewrite <- Hsplit, body_evs_bytes. reflexivity.
  Qed.

  (* Theorem 6b: UnitHeader::entry at the offset of any entry returns that entry (depth 0) *)
  Lemma entry_at_offset o t :
    In (o, t) (on_list (placed codes) (tree_size codes) hl f) ->
    entry_at dbg hdr tbl o = Ok (root_die codes o 0 t).
  Proof.
    intros Hin. destruct (body_locate codes bigend hl f pad o t Hin) as (l1 & l2 & dd & Eb & Ho & Hd).
    destruct (positioned l1 (head_ev codes bigend dd o t :: tail_evs_of codes bigend dd o t ++ l2) o Eb ltac:(discriminate) Ho) as [Hraw Hat].
    unfold entry_at. rewrite Hraw. cbn [bind].
    cbn [map] in Hat. destruct (at_chain_step _ _ _ _ _ _ _ _ Hat) as (Hr & _).
    change (u_enc hdr) with e. rewrite Hr. cbn [bind].
    rewrite Hd, shift_head, Z.sub_diag. cbn [head_ev x_die].
    assert (Hn : node_ok codes e t).
    { unfold forest_ok in Hok. rewrite Forall_forall in Hok. apply Hok.
      rewrite <- (placed_list_nodes codes f hl). apply (in_map snd) in Hin. exact Hin. }
    rewrite (root_die_not_null codes e o 0 t Hn). reflexivity.
  Qed.

  (* Theorem 6c: a cursor started at the offset of any entry reports that entry and everything after
     it in preorder, with depths relative to the entry *)
  Lemma dfs_from_offset o t :
    In (o, t) (on_list (placed codes) (tree_size codes) hl f) ->
    exists p1 p2 dd c,
      preorder codes hl 0 f = p1 ++ root_die codes o dd t :: p2 /\
      entries_at_offset dbg hdr o = Ok c /\
      dfs_all (cursor_fuel c) dbg e tbl c = Ok (map (shift_die dd) (root_die codes o dd t :: p2), None).
  Proof.
    intros Hin. destruct (body_locate codes bigend hl f pad o t Hin) as (l1 & l2 & dd & Eb & Ho & Hd).
    destruct (positioned l1 (head_ev codes bigend dd o t :: tail_evs_of codes bigend dd o t ++ l2) o Eb ltac:(discriminate) Ho) as [Hraw Hat].
    assert (Hn : node_ok codes e t).
    { unfold forest_ok in Hok. rewrite Forall_forall in Hok. apply Hok.
      rewrite <- (placed_list_nodes codes f hl). apply (in_map snd) in Hin. exact Hin. }
    exists (filter not_null (map x_die l1)), (filter not_null (map x_die (tail_evs_of codes bigend dd o t ++ l2))), dd.
    eexists. split; [|split].
    - rewrite <- (raw_seq_preorder codes e hl f pad Hok), <- body_evs_dies with (bigend := bigend), Eb.
      rewrite map_app, filter_app. cbn [map filter head_ev x_die]. unfold not_null at 2.
      rewrite (root_die_not_null codes e o dd t Hn). reflexivity.
    - apply entries_at_offset_raw. exact Hraw.
    - set (c := mkCur (mkRaw (xbytes (head_ev codes bigend dd o t :: tail_evs_of codes bigend dd o t ++ l2)) E 0) null_die).
      change (mkRaw (xbytes (head_ev codes bigend dd o t :: tail_evs_of codes bigend dd o t ++ l2)) E 0) with (c_raw c) in Hat.
      pose proof (at_chain_fuel _ _ _ _ _ _ Hat) as Hf. unfold cursor_fuel.
      rewrite (dfs_all_chain dbg e tbl _ _ _ c Hat Hf). rewrite Hd, filter_shift.
      cbn [map filter head_ev x_die]. unfold not_null at 1.
      rewrite (root_die_not_null codes e o dd t Hn). reflexivity.
  Qed.
End Unit.

(* ------------------------------------------------------------------ *)
(** * next_sibling *)

Inductive answer : Type :=
| ASome (d : die) (c : cursor) | ANone | AErr (x : error) | ARes (x : error) | APanic | AOOF.

(* what a caller observes of a step: the entry returned together with the cursor it continues with;
   after `None` or an error the cursor is not used for navigation any more *)
Definition ans (r : res (step (option die))) : answer :=
  match r with
  | Ok (SOk (Some d) c) => ASome d c
  | Ok (SOk None _) => ANone
  | Ok (SErr x _) => AErr x
  | Err x => ARes x
  | Panic => APanic
  | OutOfFuel => AOOF
  end.

(* the second half of the loop body of next_sibling: next_entry, depth test, loop *)
Definition sib_half (fuel : nat) (dbg : bool) (e : enc) (tbl : abbrevs) (T : Z) (c1 : cursor)
  : res (step (option die)) :=
  let* s := next_entry dbg e tbl c1 in
  match s with
  | SErr x c' => Ok (SErr x c')
  | SOk false c' => Ok (SOk None c')
  | SOk true c' =>
      if (d_depth (c_cur c') =? T)%Z then Ok (SOk (current c') c')
      else sibling_loop fuel dbg e tbl T c'
  end.

Lemma sibling_loop_S k dbg e tbl T c :
  sibling_loop (S k) dbg e tbl T c =
  let* r1 := (match current c with
              | Some cur => sibling_jump dbg (c_raw c) cur
              | None => Ok (c_raw c)
              end) in
  sib_half k dbg e tbl T (mkCur r1 (c_cur c)).
Proof. reflexivity. Qed.

Lemma sib_half_cur f dbg e tbl T r c1 c2 :
  ans (sib_half f dbg e tbl T (mkCur r c1)) = ans (sib_half f dbg e tbl T (mkCur r c2)).
Proof.
  unfold sib_half, next_entry. cbn [c_raw c_cur]. destruct (raw_is_empty r); [reflexivity|].
  destruct (read_entry dbg e tbl r) as [[[ok d] r']| | |]; reflexivity.
Qed.

Definition tail_evs := tail_evs_of.
Lemma tail_evs_eq codes bigend d off t :
  tail_evs codes bigend d off t =
  if has_children t
  then evs_list codes bigend (d + 1) (kids_off codes off t) (t_kids t) ++
       [null_ev (off + tree_size codes t - 1) (d + 1)]
  else [].
Proof. reflexivity. Qed.

Lemma evs_tail codes bigend d off t :
  evs codes bigend d off t = head_ev codes bigend d off t :: tail_evs codes bigend d off t.
Proof. rewrite evs_unfold. reflexivity. Qed.

Lemma tail_end_depth codes bigend d off t :
  end_depth (post_depth d t) (tail_evs codes bigend d off t) = d.
Proof.
  destruct (evs_chain codes bigend t d off) as [_ E]. rewrite evs_tail in E.
  cbn [end_depth head_ev x_post] in E. exact E.
Qed.

Lemma tail_bytes_len codes bigend d off t :
  kids_off codes off t + nlen (xbytes (tail_evs codes bigend d off t)) = off + tree_size codes t.
Proof.
  pose proof (evs_bytes codes bigend t d off) as E. rewrite evs_tail, xbytes_cons in E.
  apply (f_equal nlen) in E. rewrite nlen_app, enc_tree_len in E. cbn [head_ev x_bytes] in E.
  rewrite head_bytes_len in E. pose proof (kids_off_ge codes off t). lia.
Qed.

Lemma at_chain_nil dbg e tbl E rest r l :
  at_chain dbg e tbl E rest r l -> r = mkRaw (xbytes l ++ rest) E (r_depth r).
Proof. intros [_ Hin Hend _ _ _ _]. destruct r as [i en d]. cbn [r_in r_end r_depth] in *. subst. reflexivity. Qed.

Lemma at_chain_drop dbg e tbl E rest : forall l1 r l2,
  at_chain dbg e tbl E rest r (l1 ++ l2) ->
  at_chain dbg e tbl E rest (mkRaw (xbytes l2 ++ rest) E (end_depth (r_depth r) l1)) l2.
Proof.
  induction l1 as [|x l1 IH]; intros r l2 H.
  - cbn [app end_depth] in *. rewrite <- (at_chain_nil _ _ _ _ _ _ _ H). exact H.
  - cbn [app] in H. destruct (at_chain_step _ _ _ _ _ _ _ _ H) as (_ & H' & _).
    apply IH in H'. cbn [r_depth end_depth] in *. exact H'.
Qed.

(* the sibling pointer of a well-formed entry *)
Lemma find_sibling e next : forall items s v,
  Forall (item_ok e) items ->
  find (fun p : aspec * attr_value => at_name (fst p) =? DW_AT_sibling) (map (item_val next) items) = Some (s, v) ->
  at_name s = DW_AT_sibling /\ v = VUnitRef next.
Proof.
  induction items as [|it items IH]; intros s v Hok H; [discriminate|]. inversion Hok as [|? ? Hit Hl]; subst.
  cbn [map find] in H. destruct it as [a|w]; cbn [item_val fst] in H.
  - destruct Hit as (u & (_ & _ & _ & Hn) & Hr). unfold resolve in Hr.
    destruct (enc_layout _ _ _); [|discriminate]. destruct (form_value _ _ _ _ _); [|discriminate].
    inversion Hr; subst a. cbn [a_spec at_name] in H.
    replace (u_name u =? DW_AT_sibling) with false in H by (symmetry; apply N.eqb_neq; exact Hn).
    apply IH; assumption.
  - cbn [sib_spec at_name] in H. rewrite N.eqb_refl in H. inversion H; subst. split; reflexivity.
Qed.

Lemma die_sibling_root codes e off d t : node_ok codes e t ->
  die_sibling (root_die codes off d t) = None \/
  die_sibling (root_die codes off d t) = Some (off + tree_size codes t).
Proof.
  intros [_ Hitems]. unfold die_sibling, die_attr_value, root_die. cbn [d_attrs d_offset].
  destruct (find _ _) as [[s v]|] eqn:F; [|left; reflexivity].
  apply (find_sibling e) in F; [|exact Hitems]. destruct F as [Hs ->]. rewrite Hs.
  change (attr_normalise DW_AT_sibling (VUnitRef (off + tree_size codes t))) with (VUnitRef (off + tree_size codes t)).
  pose proof (tree_size_pos codes t). cbv beta iota.
  destruct (N.ltb_spec off (off + tree_size codes t)); [right; reflexivity|lia].
Qed.

Lemma sibling_jump_root dbg e tbl codes E rest r d off t l2 :
  node_ok codes e t ->
  at_chain dbg e tbl E rest r (tail_evs codes (be e) d off t ++ l2) ->
  E = kids_off codes off t + nlen (xbytes (tail_evs codes (be e) d off t ++ l2) ++ rest) ->
  sibling_jump dbg r (root_die codes off d t) = Ok r \/
  sibling_jump dbg r (root_die codes off d t) = Ok (mkRaw (xbytes l2 ++ rest) E d).
Proof.
  intros Hn Hat HE. unfold sibling_jump. cbn [root_die d_children].
  destruct (has_children t); [|left; reflexivity].
  fold (root_die codes off d t).
  destruct (die_sibling_root codes e off d t Hn) as [-> | ->]; [left; reflexivity|]. right.
  unfold seek_forward. pose proof (at_chain_nil _ _ _ _ _ _ _ Hat) as Er.
  destruct Hat as [_ Hin Hend _ Hle _ _].
  unfold next_offset, chk_sub. rewrite Hend, Hin.
  replace (nlen (xbytes (tail_evs codes (be e) d off t ++ l2) ++ rest) <=? E) with true by lia. cbn [bind].
  pose proof (tail_bytes_len codes (be e) d off t) as Ht.
  rewrite xbytes_app, <- app_assoc, !nlen_app in *.
  replace (off + tree_size codes t <? E - (nlen (xbytes (tail_evs codes (be e) d off t)) + (nlen (xbytes l2) + nlen rest)))
    with false by lia.
  replace (off + tree_size codes t - (E - (nlen (xbytes (tail_evs codes (be e) d off t)) + (nlen (xbytes l2) + nlen rest))))
    with (nlen (xbytes (tail_evs codes (be e) d off t))) by lia.
  rewrite skip_n_app_len. cbn [bind root_die d_depth]. reflexivity.
Qed.

(* skipping a subtree: the loop started on the root entry of [t] behaves like the second half of an
   iteration started right after the subtree *)
Definition skip_claim (dbg : bool) (e : enc) (tbl : abbrevs) (codes : coding) (E : N) (rest : list byte) (T : Z)
  (t : tree) : Prop :=
  forall d off l2 c, (T <= d)%Z ->
    c_cur c = root_die codes off d t ->
    at_chain dbg e tbl E rest (c_raw c) (tail_evs codes (be e) d off t ++ l2) ->
    r_depth (c_raw c) = post_depth d t ->
    E = kids_off codes off t + nlen (xbytes (tail_evs codes (be e) d off t ++ l2) ++ rest) ->
    Forall (placed_ok e tbl codes) (placed codes off t) ->
    forall f r cur', sib_half f dbg e tbl T (mkCur (mkRaw (xbytes l2 ++ rest) E d) cur') = r -> ans r <> AOOF ->
    exists f', ans (sibling_loop f' dbg e tbl T c) = ans r.

Lemma skip_list dbg e tbl codes E rest T : forall ks D off' m r0,
  (T < D)%Z -> Forall (skip_claim dbg e tbl codes E rest T) ks ->
  at_chain dbg e tbl E rest r0 (evs_list codes (be e) D off' ks ++ m) -> r_depth r0 = D ->
  E = off' + nlen (xbytes (evs_list codes (be e) D off' ks ++ m) ++ rest) ->
  Forall (placed_ok e tbl codes) (on_list (placed codes) (tree_size codes) off' ks) ->
  forall f r cur', sib_half f dbg e tbl T (mkCur (mkRaw (xbytes m ++ rest) E D) cur') = r -> ans r <> AOOF ->
  exists f', forall cur'', ans (sib_half f' dbg e tbl T (mkCur r0 cur'')) = ans r.
Proof.
  induction ks as [|k ks IH]; intros D off' m r0 HT Hcl Hat Hd HE Hp f r cur' Hr Hoof.
  - exists f. intros cur''. cbn [evs_list on_list app] in Hat.
    rewrite (at_chain_nil _ _ _ _ _ _ _ Hat), Hd, <- Hr. apply sib_half_cur.
  - apply Forall_cons_iff in Hcl. destruct Hcl as [Hk Hks].
    unfold evs_list in Hat, HE. rewrite on_list_cons in Hat, HE. rewrite on_list_cons in Hp.
    fold (evs_list codes (be e) D (off' + tree_size codes k) ks) in Hat, HE.
    apply Forall_app in Hp. destruct Hp as [Hpk Hpks].
    rewrite evs_tail in Hat, HE. rewrite <- !app_assoc in Hat, HE. cbn [app] in Hat, HE.
    set (l2 := evs_list codes (be e) D (off' + tree_size codes k) ks ++ m) in *.
    destruct (at_chain_step _ _ _ _ _ _ _ _ Hat) as (_ & Hat1 & _).
    cbn [head_ev x_post] in Hat1.
    (* the state after the subtree of k *)
    pose proof (at_chain_drop _ _ _ _ _ _ _ _ Hat1) as Hat2. cbn [r_depth] in Hat2.
    rewrite tail_end_depth in Hat2.
    assert (HE1 : E = kids_off codes off' k + nlen (xbytes (tail_evs codes (be e) D off' k ++ l2) ++ rest)).
    { rewrite xbytes_cons in HE. cbn [head_ev x_bytes] in HE. rewrite <- app_assoc, nlen_app, head_bytes_len in HE.
      pose proof (kids_off_ge codes off' k). lia. }
    assert (HE2 : E = off' + tree_size codes k + nlen (xbytes l2 ++ rest)).
    { pose proof (tail_bytes_len codes (be e) D off' k). rewrite xbytes_app, <- app_assoc, nlen_app in HE1. lia. }
    destruct (IH D (off' + tree_size codes k) m (mkRaw (xbytes l2 ++ rest) E D) HT Hks Hat2 eq_refl HE2 Hpks f r cur' Hr Hoof)
      as (f1 & Hf1).
    set (c1 := mkCur (mkRaw (xbytes (tail_evs codes (be e) D off' k ++ l2) ++ rest) E (post_depth D k))
                     (root_die codes off' D k)).
    destruct (Hk D off' l2 c1 ltac:(lia) eq_refl Hat1 eq_refl HE1 Hpk f1
                 (sib_half f1 dbg e tbl T (mkCur (mkRaw (xbytes l2 ++ rest) E D) null_die)) null_die eq_refl)
      as (f2 & Hf2); [rewrite Hf1; exact Hoof|].
    exists f2. intros cur''. unfold sib_half at 1.
    rewrite (next_entry_chain dbg e tbl E rest (mkCur r0 cur'') _ _ Hat). cbn [bind c_cur head_ev x_die x_post root_die d_depth].
    replace (D =? T)%Z with false by lia. fold (root_die codes off' D k). fold c1.
    rewrite Hf2. apply Hf1.
Qed.

Lemma skip_tree dbg e tbl codes E rest T : forall t, skip_claim dbg e tbl codes E rest T t.
Proof.
  induction t as [tag flag items kids IH] using tree_ind'.
  set (t := Node tag flag items kids) in *.
  intros d off l2 c HT Hcur Hat Hdep HE Hp f r cur' Hr Hoof.
  rewrite placed_unfold in Hp. apply Forall_cons_iff in Hp. destruct Hp as [(Hcv & Hn & Hfit) Hpk]. cbn [snd] in *.
  change (t_kids t) with kids in Hpk.
  assert (Hcurrent : current c = Some (root_die codes off d t)).
  { unfold current. rewrite Hcur, (root_die_not_null codes e off d t Hn). reflexivity. }
  assert (Direct : forall g, ans (sib_half g dbg e tbl T (mkCur (mkRaw (xbytes l2 ++ rest) E d) (c_cur c))) =
                             ans (sib_half g dbg e tbl T (mkCur (mkRaw (xbytes l2 ++ rest) E d) cur'))).
  { intros g. apply sib_half_cur. }
  destruct (sibling_jump_root dbg e tbl codes E rest (c_raw c) d off t l2 Hn Hat HE) as [J|J].
  - (* no jump *)
    destruct (has_children t) eqn:Hc.
    + (* through the children, then their terminator *)
      rewrite tail_evs_eq in Hat, HE. rewrite Hc in Hat, HE. change (t_kids t) with kids in Hat, HE.
      rewrite <- app_assoc in Hat, HE. cbn [app] in Hat, HE.
      set (nul := null_ev (off + tree_size codes t - 1) (d + 1)) in *.
      unfold post_depth in Hdep. rewrite Hc in Hdep.
      pose proof (at_chain_drop _ _ _ _ _ _ _ _ Hat) as Hatm. rewrite Hdep in Hatm.
      destruct (evs_list_chain codes (be e) (d + 1) kids (kids_off codes off t)) as [_ Eend].
      rewrite Eend in Hatm.
      (* reading the terminator and going round the loop once more *)
      assert (Hm : forall cur0, ans (sib_half (S f) dbg e tbl T
                      (mkCur (mkRaw (xbytes (nul :: l2) ++ rest) E (d + 1)) cur0)) = ans r).
      { intros cur0. unfold sib_half at 1.
        rewrite (next_entry_chain dbg e tbl E rest (mkCur _ cur0) _ _ Hatm).
        cbn [bind c_cur nul null_ev x_die x_post null_at d_depth].
        replace (d + 1 =? T)%Z with false by lia. rewrite sibling_loop_S.
        unfold current at 1. cbn [c_cur is_null d_tag N.eqb c_raw bind].
        replace (d + 1 - 1)%Z with d by lia. rewrite <- Hr. apply sib_half_cur. }
      destruct (skip_list dbg e tbl codes E rest T kids (d + 1)%Z (kids_off codes off t) (nul :: l2) (c_raw c)
                  ltac:(lia) IH Hat Hdep HE Hpk (S f) _ null_die eq_refl) as (f' & Hf'); [rewrite Hm; exact Hoof|].
      exists (S f'). rewrite sibling_loop_S, Hcurrent, J. cbn [bind]. rewrite Hf'. apply Hm.
    + (* no children: the reader is already behind the entry *)
      rewrite tail_evs_eq in Hat. rewrite Hc in Hat. cbn [app] in Hat.
      unfold post_depth in Hdep. rewrite Hc in Hdep.
      exists (S f). rewrite sibling_loop_S, Hcurrent, J. cbn [bind].
      rewrite (at_chain_nil _ _ _ _ _ _ _ Hat), Hdep, Direct, Hr. reflexivity.
  - (* the DW_AT_sibling jump lands behind the subtree *)
    exists (S f). rewrite sibling_loop_S, Hcurrent, J. cbn [bind]. rewrite Direct, Hr. reflexivity.
Qed.

(* ------------------------------------------------------------------ *)
(** * Every input: steps consume input, the fuel of the model suffices, more fuel changes nothing *)

Lemma read_attributes_length dbg e : forall specs bs vs r,
  read_attributes dbg e specs bs = Ok (vs, r) -> (length r <= length bs)%nat.
Proof.
  induction specs as [|s specs IH]; intros bs vs r; cbn [read_attributes].
  - intros H. inversion H; subst. lia.
  - destruct (parse_attribute dbg e s bs) as [[v r1]| | |] eqn:E1; cbn [bind]; try discriminate.
    destruct (read_attributes dbg e specs r1) as [[vs' r2]| | |] eqn:E2; cbn [bind]; try discriminate.
    intros H. inversion H; subst. apply parse_attribute_length in E1. apply IH in E2. lia.
Qed.

Lemma read_entry_shrinks dbg e tbl r ok d r' :
  read_entry dbg e tbl r = Ok (ok, d, r') ->
  (length (r_in r') < length (r_in r))%nat /\ r_end r' = r_end r.
Proof.
  unfold read_entry. destruct (next_offset dbg r) as [off| | |]; cbn [bind]; try discriminate.
  unfold read_abbreviation.
  destruct (read_uleb128 dbg (r_in r)) as [[code rest]| | |] eqn:E1; cbn [bind]; try discriminate.
  apply read_uleb128_skip, skip_leb_shrinks in E1.
  destruct (code =? 0).
  - destruct (chk_s 64 dbg (r_depth r - 1)) as [d'| | |]; cbn [bind]; try discriminate.
    intros H. inversion H; subst. cbn [r_in r_end]. split; [exact E1|reflexivity].
  - destruct (tbl_get tbl code) as [a|]; cbn [bind]; [|discriminate].
    destruct (if ab_children a then chk_s 64 dbg (r_depth r + 1) else Ok (r_depth r)) as [d'| | |]; cbn [bind];
      try discriminate.
    unfold read_attrs. cbn [r_in r_end r_depth].
    destruct (read_attributes dbg e (ab_specs a) rest) as [[vs rest']| | |] eqn:E2; cbn [bind]; try discriminate.
    intros H. inversion H; subst. cbn [r_in r_end]. apply read_attributes_length in E2. split; [lia|reflexivity].
Qed.

Lemma sibling_jump_shrinks dbg r cur r' :
  sibling_jump dbg r cur = Ok r' -> (length (r_in r') <= length (r_in r))%nat /\ r_end r' = r_end r.
Proof.
  unfold sibling_jump. destruct (d_children cur); [|intros H; inversion H; subst; split; [lia|reflexivity]].
  destruct (die_sibling cur) as [o|]; [|intros H; inversion H; subst; split; [lia|reflexivity]].
  unfold seek_forward. destruct (next_offset dbg r) as [no| | |]; cbn [bind]; try discriminate.
  destruct (o <? no); cbn [bind]; [intros H; inversion H; subst; split; [lia|reflexivity]|].
  destruct (skip_n (o - no) (r_in r)) as [rest|x| |] eqn:E; cbn [bind]; try discriminate.
  - intros H. inversion H; subst. cbn [r_in r_end]. apply skip_n_spec in E. destruct E as (hd & E & _).
    rewrite E, app_length. split; [lia|reflexivity].
  - intros H. inversion H; subst. split; [lia|reflexivity].
Qed.

Lemma next_entry_shrinks dbg e tbl c c' :
  next_entry dbg e tbl c = Ok (SOk true c') -> (length (r_in (c_raw c')) < length (r_in (c_raw c)))%nat.
Proof.
  unfold next_entry. destruct (raw_is_empty (c_raw c)); [discriminate|].
  destruct (read_entry dbg e tbl (c_raw c)) as [[[ok d] r']| | |] eqn:E; try discriminate.
  - intros H. inversion H; subst. cbn [c_raw]. apply read_entry_shrinks in E. tauto.
  - destruct (next_offset dbg (c_raw c)); cbn [bind]; discriminate.
Qed.

Lemma chk_sub_not_oof bits dbg a b : chk_sub bits dbg a b <> OutOfFuel.
Proof. unfold chk_sub. destruct (b <=? a); [discriminate|]. destruct dbg; discriminate. Qed.
Lemma chk_add_not_oof bits dbg a b : chk_add bits dbg a b <> OutOfFuel.
Proof. unfold chk_add. destruct (a + b <? 2 ^ bits); [discriminate|]. destruct dbg; discriminate. Qed.
Lemma chk_s_not_oof bits dbg z : chk_s bits dbg z <> OutOfFuel.
Proof. unfold chk_s. destruct (in_signed bits z); [discriminate|]. destruct dbg; discriminate. Qed.

Lemma next_offset_not_oof dbg r : next_offset dbg r <> OutOfFuel.
Proof. apply chk_sub_not_oof. Qed.

Lemma read_entry_not_oof dbg e tbl r : read_entry dbg e tbl r <> OutOfFuel.
Proof.
  unfold read_entry. pose proof (next_offset_not_oof dbg r).
  destruct (next_offset dbg r) as [off| | |]; cbn [bind]; try congruence; try discriminate.
  unfold read_abbreviation. pose proof (read_uleb128_res dbg (r_in r)) as [_ U].
  destruct (read_uleb128 dbg (r_in r)) as [[code rest]| | |]; cbn [bind]; try congruence; try discriminate.
  destruct (code =? 0).
  - pose proof (chk_s_not_oof 64 dbg (r_depth r - 1)).
    destruct (chk_s 64 dbg (r_depth r - 1)); cbn [bind]; try congruence; discriminate.
  - destruct (tbl_get tbl code) as [a|]; cbn [bind]; [|discriminate].
    assert (Hd : (if ab_children a then chk_s 64 dbg (r_depth r + 1) else Ok (r_depth r)) <> OutOfFuel).
    { destruct (ab_children a); [apply chk_s_not_oof|discriminate]. }
    destruct (if ab_children a then chk_s 64 dbg (r_depth r + 1) else Ok (r_depth r)); cbn [bind]; try congruence;
      try discriminate.
    unfold read_attrs. cbn [r_in]. pose proof (read_attributes_res (ab_specs a) dbg e rest) as [_ A].
    destruct (read_attributes dbg e (ab_specs a) rest) as [[vs rest']| | |]; cbn [bind]; try congruence; discriminate.
Qed.

Lemma next_entry_not_oof dbg e tbl c : next_entry dbg e tbl c <> OutOfFuel.
Proof.
  unfold next_entry. destruct (raw_is_empty (c_raw c)); [discriminate|].
  pose proof (read_entry_not_oof dbg e tbl (c_raw c)).
  destruct (read_entry dbg e tbl (c_raw c)) as [[[ok d] r']| | |]; try congruence; try discriminate.
  pose proof (next_offset_not_oof dbg (c_raw c)).
  destruct (next_offset dbg (c_raw c)); cbn [bind]; try congruence; discriminate.
Qed.

Lemma sibling_loop_fuel dbg e tbl T : forall f c, (length (r_in (c_raw c)) < f)%nat ->
  sibling_loop f dbg e tbl T c <> OutOfFuel.
Proof.
  induction f as [|f IH]; intros c Hf; [lia|]. rewrite sibling_loop_S.
  assert (Hj : forall r1, (match current c with Some cur => sibling_jump dbg (c_raw c) cur | None => Ok (c_raw c) end) = Ok r1 ->
               (length (r_in r1) <= length (r_in (c_raw c)))%nat).
  { intros r1. destruct (current c); [intros H; apply sibling_jump_shrinks in H; tauto|].
    intros H. inversion H; subst. lia. }
  destruct (match current c with Some cur => sibling_jump dbg (c_raw c) cur | None => Ok (c_raw c) end)
    as [r1| | |] eqn:Ej; cbn [bind]; try discriminate.
  - specialize (Hj r1 eq_refl). unfold sib_half.
    destruct (next_entry dbg e tbl (mkCur r1 (c_cur c))) as [[[|] c'|x c']| | |] eqn:En; cbn [bind]; try discriminate.
    + destruct (d_depth (c_cur c') =? T)%Z; [discriminate|]. apply IH.
      apply next_entry_shrinks in En. cbn [c_raw] in En. lia.
    + exfalso. exact (next_entry_not_oof _ _ _ _ En).
  - exfalso. destruct (current c) as [cur|]; [|discriminate]. unfold sibling_jump in Ej.
    destruct (d_children cur); [|discriminate]. destruct (die_sibling cur); [|discriminate].
    unfold seek_forward in Ej. destruct (next_offset dbg (c_raw c)) as [no| | |] eqn:No; cbn [bind] in Ej; try discriminate.
    + destruct (n <? no); cbn [bind] in Ej; [discriminate|].
      pose proof (skip_n_res (n - no) (r_in (c_raw c))) as [_ S2].
      destruct (skip_n (n - no) (r_in (c_raw c))); cbn [bind] in Ej; try discriminate. congruence.
    + unfold next_offset, chk_sub in No. destruct (_ <=? _); [discriminate|]. destruct dbg; discriminate.
Qed.

Lemma sibling_loop_mono dbg e tbl T : forall f c r,
  sibling_loop f dbg e tbl T c = r -> r <> OutOfFuel -> forall f', (f <= f')%nat -> sibling_loop f' dbg e tbl T c = r.
Proof.
  induction f as [|f IH]; intros c r Hr Hoof f' Hle; [cbn in Hr; congruence|].
  destruct f' as [|f']; [lia|]. rewrite sibling_loop_S in *.
  destruct (match current c with Some cur => sibling_jump dbg (c_raw c) cur | None => Ok (c_raw c) end)
    as [r1| | |]; cbn [bind] in *; try exact Hr.
  unfold sib_half in *.
  destruct (next_entry dbg e tbl (mkCur r1 (c_cur c))) as [[[|] c'|x c']| | |]; cbn [bind] in *; try exact Hr.
  destruct (d_depth (c_cur c') =? T)%Z; [exact Hr|]. apply (IH c' r Hr Hoof). lia.
Qed.

(* an answer obtained with some fuel is the answer with the fuel the model uses *)
Lemma sibling_loop_ans dbg e tbl T c f' A :
  ans (sibling_loop f' dbg e tbl T c) = A -> A <> AOOF ->
  ans (sibling_loop (cursor_fuel c) dbg e tbl T c) = A.
Proof.
  intros HA Hoof.
  assert (H1 : sibling_loop f' dbg e tbl T c <> OutOfFuel).
  { intros E. rewrite E in HA. cbn in HA. congruence. }
  pose proof (sibling_loop_fuel dbg e tbl T (cursor_fuel c) c ltac:(unfold cursor_fuel; lia)) as H2.
  rewrite <- HA.
  rewrite <- (sibling_loop_mono dbg e tbl T f' c _ eq_refl H1 (Nat.max f' (cursor_fuel c)) ltac:(lia)).
  rewrite <- (sibling_loop_mono dbg e tbl T (cursor_fuel c) c _ eq_refl H2 (Nat.max f' (cursor_fuel c)) ltac:(lia)).
  reflexivity.
Qed.

(* ------------------------------------------------------------------ *)
(** * Theorem 5: iterating next_sibling reports exactly the following siblings *)

Lemma at_chain_intro dbg e tbl l off d rest E :
  Forall (ev_ok dbg e tbl) l -> chain off d l -> E = off + nlen (xbytes l ++ rest) -> E < two64 ->
  depth_ok d (xbytes l ++ rest) ->
  at_chain dbg e tbl E rest (mkRaw (xbytes l ++ rest) E d) l.
Proof.
  intros Hok Hch HE HE64 Hd. split; cbn [r_in r_end r_depth]; try reflexivity; try assumption.
  - replace (E - nlen (xbytes l ++ rest)) with off by lia. exact Hch.
  - lia.
Qed.

(* what ends a sibling list: the end of the input, or a null entry *)
Definition list_end (d : Z) (m : list xev) (rest : list byte) : Prop :=
  (m = [] /\ rest = []) \/ (exists o, m = [null_ev o d]).

Lemma roots_cons codes off d t ts :
  roots codes off d (t :: ts) = root_die codes off d t :: roots codes (off + tree_size codes t) d ts.
Proof. reflexivity. Qed.

Lemma siblings_iter dbg e tbl codes E rest d m : list_end d m rest ->
  forall ts t off c1 fuel,
  c_cur c1 = root_die codes off d t ->
  at_chain dbg e tbl E rest (c_raw c1)
           (tail_evs codes (be e) d off t ++ evs_list codes (be e) d (off + tree_size codes t) ts ++ m) ->
  r_depth (c_raw c1) = post_depth d t ->
  E = kids_off codes off t +
      nlen (xbytes (tail_evs codes (be e) d off t ++ evs_list codes (be e) d (off + tree_size codes t) ts ++ m) ++ rest) ->
  Forall (placed_ok e tbl codes) (on_list (placed codes) (tree_size codes) off (t :: ts)) ->
  (length ts < fuel)%nat ->
  siblings_all fuel dbg e tbl c1 = Ok (roots codes (off + tree_size codes t) d ts, None).
Proof.
  intros Hend. induction ts as [|t' ts IH]; intros t off c1 fuel Hcur Hat Hdep HE Hp Hf;
    (destruct fuel as [|fuel]; [lia|]); cbn [siblings_all];
    rewrite on_list_cons in Hp; apply Forall_app in Hp; destruct Hp as [Hpt Hpts].
  - (* last sibling *)
    assert (Hn : node_ok codes e t).
    { rewrite placed_unfold in Hpt. inversion Hpt as [|? ? (_ & Hn & _) _]. exact Hn. }
    unfold next_sibling. unfold current. rewrite Hcur, (root_die_not_null codes e off d t Hn).
    cbn [root_die d_depth]. fold (root_die codes off d t).
    cbn [evs_list on_list app] in Hat, HE.
    pose proof (at_chain_drop _ _ _ _ _ _ _ _ Hat) as Hat2. rewrite Hdep, tail_end_depth in Hat2.
    assert (Hans : ans (sib_half 0 dbg e tbl d (mkCur (mkRaw (xbytes m ++ rest) E d) null_die)) = ANone).
    { unfold sib_half. destruct Hend as [[-> ->]|(o & ->)].
      - rewrite next_entry_end by reflexivity. reflexivity.
      - rewrite (next_entry_chain dbg e tbl E rest (mkCur _ null_die) _ _ Hat2).
        cbn [bind c_cur null_ev x_die null_at d_depth]. rewrite Z.eqb_refl. reflexivity. }
    destruct (skip_tree dbg e tbl codes E rest d t d off m c1 ltac:(lia) Hcur Hat Hdep HE Hpt 0%nat _ null_die eq_refl)
      as (f' & Hf'); [rewrite Hans; discriminate|].
    rewrite Hans in Hf'. apply sibling_loop_ans in Hf'; [|discriminate].
    destruct (sibling_loop (cursor_fuel c1) dbg e tbl d c1) as [[[dd|] cc|x cc]| | |]; cbn [ans] in Hf'; try discriminate.
    reflexivity.
  - (* a following sibling t' *)
    assert (Hn : node_ok codes e t).
    { rewrite placed_unfold in Hpt. inversion Hpt as [|? ? (_ & Hn & _) _]. exact Hn. }
    assert (Hn' : node_ok codes e t').
    { rewrite on_list_cons in Hpts. apply Forall_app in Hpts. destruct Hpts as [Hpt' _].
      rewrite placed_unfold in Hpt'. inversion Hpt' as [|? ? (_ & Hn' & _) _]. exact Hn'. }
    unfold next_sibling. unfold current. rewrite Hcur, (root_die_not_null codes e off d t Hn).
    cbn [root_die d_depth]. fold (root_die codes off d t).
    set (o' := off + tree_size codes t) in *.
    unfold evs_list in Hat, HE. rewrite on_list_cons in Hat, HE.
    fold (evs_list codes (be e) d (o' + tree_size codes t') ts) in Hat, HE.
    rewrite evs_tail in Hat, HE. rewrite <- !app_assoc in Hat, HE. cbn [app] in Hat, HE.
    set (l3 := tail_evs codes (be e) d o' t' ++ evs_list codes (be e) d (o' + tree_size codes t') ts ++ m) in *.
    pose proof (at_chain_drop _ _ _ _ _ _ _ _ Hat) as Hat2. rewrite Hdep, tail_end_depth in Hat2.
    destruct (at_chain_step _ _ _ _ _ _ _ _ Hat2) as (_ & Hat3 & _). cbn [head_ev x_post] in Hat3.
    set (c2 := mkCur (mkRaw (xbytes l3 ++ rest) E (post_depth d t')) (root_die codes o' d t')).
    assert (Hans : ans (sib_half 0 dbg e tbl d (mkCur (mkRaw (xbytes (head_ev codes (be e) d o' t' :: l3) ++ rest) E d) null_die))
                   = ASome (root_die codes o' d t') c2).
    { unfold sib_half. rewrite (next_entry_chain dbg e tbl E rest (mkCur _ null_die) _ _ Hat2).
      cbn [bind c_cur head_ev x_die x_post root_die d_depth]. rewrite Z.eqb_refl.
      fold (root_die codes o' d t'). fold c2. unfold current. cbn [c_cur c2].
      rewrite (root_die_not_null codes e o' d t' Hn'). reflexivity. }
    destruct (skip_tree dbg e tbl codes E rest d t d off _ c1 ltac:(lia) Hcur Hat Hdep HE Hpt 0%nat _ null_die eq_refl)
      as (f' & Hf'); [rewrite Hans; discriminate|].
    rewrite Hans in Hf'. apply sibling_loop_ans in Hf'; [|discriminate].
    destruct (sibling_loop (cursor_fuel c1) dbg e tbl d c1) as [[[dd|] cc|x cc]| | |]; cbn [ans] in Hf'; try discriminate.
    inversion Hf'; subst dd cc. cbn [bind].
    assert (HE3 : E = kids_off codes o' t' + nlen (xbytes l3 ++ rest)).
    { pose proof (tail_bytes_len codes (be e) d off t) as Ht.
      rewrite xbytes_app, <- app_assoc, nlen_app, xbytes_cons in HE. cbn [head_ev x_bytes] in HE.
      rewrite <- app_assoc, nlen_app, head_bytes_len in HE. pose proof (kids_off_ge codes o' t'). unfold o' in *. lia. }
    rewrite (IH t' o' c2 fuel eq_refl Hat3 eq_refl HE3 Hpts ltac:(cbn in Hf; lia)).
    rewrite roots_cons. reflexivity.
Qed.

Lemma length_le_forest_size codes : forall ts, N.of_nat (length ts) <= forest_size codes ts.
Proof.
  unfold forest_size. induction ts as [|t ts IH]; [cbn; lia|]. cbn [length map sumN fold_right].
  pose proof (tree_size_pos codes t). fold (sumN (map (tree_size codes) ts)). lia.
Qed.

(* Theorem 5, on the bytes of a sibling list: the cursor about to read [t], whose following siblings
   are [ts], and after them the end of the input or a null entry *)
Lemma sibling_correct dbg e tbl codes t ts after off d E c :
  addr_size_ok e ->
  all_covered tbl codes (t :: ts) -> forest_ok codes e (t :: ts) -> sibs_fit codes off (t :: ts) ->
  (after = [] \/ exists more, after = x00 :: more) ->
  c_raw c = mkRaw (on_list (enc_tree codes (be e)) (tree_size codes) off (t :: ts) ++ after) E d ->
  E = off + nlen (on_list (enc_tree codes (be e)) (tree_size codes) off (t :: ts) ++ after) -> E < two64 ->
  depth_ok d (on_list (enc_tree codes (be e)) (tree_size codes) off (t :: ts) ++ after) ->
  exists c1, next_entry dbg e tbl c = Ok (SOk true c1) /\ c_cur c1 = root_die codes off d t /\
             siblings_all (cursor_fuel c1) dbg e tbl c1 = Ok (roots codes (off + tree_size codes t) d ts, None).
Proof.
  intros He H1 H2 H3 Hafter Hraw HE HE64 Hd.
  pose proof (placed_ok_all e tbl codes off (t :: ts) H1 H2 H3) as Hp.
  set (m := match after with [] => [] | _ => [null_ev (off + forest_size codes (t :: ts)) d] end).
  set (rest := tl after).
  assert (Hm : list_end d m rest).
  { unfold m, rest. destruct Hafter as [->|(more & ->)]; [left; split; reflexivity|right; eexists; reflexivity]. }
  assert (Hbytes : on_list (enc_tree codes (be e)) (tree_size codes) off (t :: ts) ++ after =
                   xbytes (evs_list codes (be e) d off (t :: ts) ++ m) ++ rest).
  { rewrite xbytes_app, evs_list_bytes, <- app_assoc. f_equal. unfold m, rest.
    destruct Hafter as [->|(more & ->)]; reflexivity. }
  rewrite Hbytes in *.
  assert (Hat : at_chain dbg e tbl E rest (c_raw c) (evs_list codes (be e) d off (t :: ts) ++ m)).
  { rewrite Hraw. apply (at_chain_intro dbg e tbl _ off d rest E); try assumption.
    - apply Forall_app. split; [apply evs_list_ok; assumption|].
      unfold m. destruct after; constructor; [apply null_ev_ok|constructor].
    - apply chain_app. destruct (evs_list_chain codes (be e) d (t :: ts) off) as [C Ee]. split; [exact C|].
      rewrite Ee, evs_list_len. unfold m. destruct after; [exact I|].
      cbn [chain null_ev x_die null_at d_offset d_depth]. repeat split. }
  unfold evs_list in Hat, HE. rewrite on_list_cons in Hat, HE.
  fold (evs_list codes (be e) d (off + tree_size codes t) ts) in Hat, HE.
  rewrite evs_tail in Hat, HE. rewrite <- !app_assoc in Hat, HE. cbn [app] in Hat, HE.
  destruct (at_chain_step _ _ _ _ _ _ _ _ Hat) as (_ & Hat1 & _). cbn [head_ev x_post] in Hat1.
  eexists. split; [apply (next_entry_chain _ _ _ _ _ _ _ _ Hat)|]. cbn [head_ev x_die x_post c_cur].
  split; [reflexivity|].
  apply (siblings_iter dbg e tbl codes E rest d m Hm ts t off); try assumption; try reflexivity.
  - rewrite xbytes_cons in HE. cbn [head_ev x_bytes] in HE. rewrite <- app_assoc, nlen_app, head_bytes_len in HE.
    pose proof (kids_off_ge codes off t). lia.
  - unfold cursor_fuel. cbn [c_raw r_in]. rewrite app_length.
    pose proof (length_le_forest_size codes ts) as L.
    rewrite <- (evs_list_len codes (be e) d ts (off + tree_size codes t)) in L. unfold nlen in L.
    rewrite !xbytes_app, !app_length. lia.
Qed.

(* ------------------------------------------------------------------ *)
(** * Theorem 6a: the tree iterator rebuilds the forest *)

Definition inert (D : Z) (d : die) : Prop :=
  ((d_depth d < D)%Z /\ (d_depth d + 1 = D)%Z /\ d_children d = true) \/ ((D <= d_depth d)%Z /\ d_children d = false).

(* EntriesTree::next(D) when the next event has depth D and the current entry does not jump *)
Lemma tree_next_read dbg e tbl E rest D ts x l fuel :
  at_chain dbg e tbl E rest (tr_raw ts) (x :: l) -> r_depth (tr_raw ts) = D -> inert D (tr_entry ts) ->
  (1 <= fuel)%nat ->
  tree_next fuel dbg e tbl D ts =
  Ok (TOk (negb (is_null (x_die x))) (mkTree (tr_root ts) (mkRaw (xbytes l ++ rest) E (x_post x)) (x_die x))).
Proof.
  intros Hat HD Hin Hf. destruct (at_chain_step _ _ _ _ _ _ _ _ Hat) as (Hr & _ & _ & Hdd & (b & r0 & Eb)).
  unfold tree_next. destruct Hin as [(H1 & H2 & H3)|(H1 & H3)].
  - replace (d_depth (tr_entry ts) <? D)%Z with true by lia.
    replace (d_depth (tr_entry ts) + 1 =? D)%Z with true by lia. rewrite andb_false_r, H3. cbn [negb].
    unfold raw_is_empty. rewrite Eb. cbn [is_nil]. rewrite Hr. reflexivity.
  - replace (d_depth (tr_entry ts) <? D)%Z with false by lia.
    destruct fuel as [|fuel]; [lia|]. cbn [tree_next_loop]. unfold sibling_jump. rewrite H3. cbn [bind].
    unfold raw_is_empty. rewrite Eb. cbn [is_nil]. rewrite Hr.
    replace (d_depth (x_die x) =? D)%Z with true by lia. reflexivity.
Qed.

Definition kid_trees (codes : coding) (D : Z) (off : N) (ks : list tree) : list dtree :=
  on_list (fun o k => [dtree_of codes D o k]) (tree_size codes) off ks.

Lemma dtree_of_unfold codes D off t :
  dtree_of codes D off t = DNode (root_die codes off D t) (kid_trees codes (D + 1) (kids_off codes off t) (t_kids t)).
Proof. destruct t. reflexivity. Qed.

Definition walk_claim (dbg : bool) (e : enc) (tbl : abbrevs) (codes : coding) (E : N) (rest : list byte) (k : tree)
  : Prop :=
  forall D off l2 ts fuel,
    tr_entry ts = root_die codes off D k ->
    at_chain dbg e tbl E rest (tr_raw ts) (tail_evs codes (be e) D off k ++ l2) ->
    r_depth (tr_raw ts) = post_depth D k ->
    Forall (placed_ok e tbl codes) (placed codes off k) ->
    (length (forest_nodes (t_kids k)) < fuel)%nat ->
    walk_children fuel dbg e tbl (D + 1) ts =
    Ok (kid_trees codes (D + 1) (kids_off codes off k) (t_kids k), None,
        if has_children k
        then mkTree (tr_root ts) (mkRaw (xbytes l2 ++ rest) E D) (null_at (off + tree_size codes k - 1) (D + 1))
        else ts).

Lemma walk_list dbg e tbl codes E rest : forall ks D off' oN l2 ts0 fuel,
  Forall (walk_claim dbg e tbl codes E rest) ks ->
  at_chain dbg e tbl E rest (tr_raw ts0) (evs_list codes (be e) D off' ks ++ null_ev oN D :: l2) ->
  r_depth (tr_raw ts0) = D -> inert D (tr_entry ts0) ->
  Forall (placed_ok e tbl codes) (on_list (placed codes) (tree_size codes) off' ks) ->
  (length (forest_nodes ks) < fuel)%nat ->
  walk_children fuel dbg e tbl D ts0 =
  Ok (kid_trees codes D off' ks, None,
      mkTree (tr_root ts0) (mkRaw (xbytes l2 ++ rest) E (D - 1)) (null_at oN D)).
Proof.
  induction ks as [|k ks IH]; intros D off' oN l2 ts0 fuel Hcl Hat HD Hin Hp Hf;
    (destruct fuel as [|fuel]; [lia|]); cbn [walk_children].
  - cbn [evs_list on_list app] in Hat.
    rewrite (tree_next_read dbg e tbl E rest D ts0 _ _ (tree_fuel ts0) Hat HD Hin ltac:(unfold tree_fuel; lia)).
    cbn [bind null_ev x_die x_post null_at is_null d_tag N.eqb negb]. reflexivity.
  - apply Forall_cons_iff in Hcl. destruct Hcl as [Hk Hks].
    rewrite on_list_cons in Hp. apply Forall_app in Hp. destruct Hp as [Hpk Hpks].
    assert (Hn : node_ok codes e k).
    { rewrite placed_unfold in Hpk. inversion Hpk as [|? ? (_ & Hn & _) _]. exact Hn. }
    unfold evs_list in Hat. rewrite on_list_cons in Hat.
    fold (evs_list codes (be e) D (off' + tree_size codes k) ks) in Hat.
    rewrite evs_tail in Hat. rewrite <- !app_assoc in Hat. cbn [app] in Hat.
    set (l3 := evs_list codes (be e) D (off' + tree_size codes k) ks ++ null_ev oN D :: l2) in *.
    rewrite (tree_next_read dbg e tbl E rest D ts0 _ _ (tree_fuel ts0) Hat HD Hin ltac:(unfold tree_fuel; lia)).
    cbn [bind head_ev x_die x_post]. rewrite (root_die_not_null codes e off' D k Hn). cbn [negb tr_entry].
    destruct (at_chain_step _ _ _ _ _ _ _ _ Hat) as (_ & Hat1 & _). cbn [head_ev x_post] in Hat1.
    set (t1 := mkTree (tr_root ts0) (mkRaw (xbytes (tail_evs codes (be e) D off' k ++ l3) ++ rest) E (post_depth D k))
                      (root_die codes off' D k)).
    cbn [forest_nodes flat_map] in Hf. rewrite app_length in Hf.
    assert (Hnk : nodes k = k :: forest_nodes (t_kids k)) by (destruct k; reflexivity).
    rewrite Hnk in Hf. cbn [length] in Hf. change (flat_map nodes ks) with (forest_nodes ks) in Hf.
    rewrite (Hk D off' l3 t1 fuel eq_refl Hat1 eq_refl Hpk ltac:(lia)). cbn [bind].
    (* the state after the subtree of k *)
    pose proof (at_chain_drop _ _ _ _ _ _ _ _ Hat1) as Hat2. cbn [r_depth] in Hat2. rewrite tail_end_depth in Hat2.
    set (t2 := if has_children k
               then mkTree (tr_root t1) (mkRaw (xbytes l3 ++ rest) E D) (null_at (off' + tree_size codes k - 1) (D + 1))
               else t1).
    assert (Ht2 : tr_root t2 = tr_root ts0 /\ at_chain dbg e tbl E rest (tr_raw t2) l3 /\ r_depth (tr_raw t2) = D /\
                  inert D (tr_entry t2)).
    { unfold t2. destruct (has_children k) eqn:Hc.
      - cbn [tr_root tr_raw tr_entry t1 r_depth]. split; [reflexivity|]. split; [exact Hat2|]. split; [reflexivity|].
        right. cbn [null_at d_depth d_children]. split; [lia|reflexivity].
      - cbn [tr_root tr_raw tr_entry t1 r_depth]. unfold post_depth in *. rewrite tail_evs_eq in *. rewrite Hc in *. cbn [app] in *.
        split; [reflexivity|]. split; [exact Hat1|]. split; [reflexivity|].
        right. cbn [root_die d_depth d_children]. split; [lia|exact Hc]. }
    destruct Ht2 as (Hroot & Hat3 & HD3 & Hin3).
    rewrite (IH D (off' + tree_size codes k) oN l2 t2 fuel Hks Hat3 HD3 Hin3 Hpks ltac:(lia)).
    rewrite Hroot. unfold kid_trees. rewrite on_list_cons. cbn [app]. rewrite dtree_of_unfold. reflexivity.
Qed.

Lemma walk_tree_claim dbg e tbl codes E rest : forall k, walk_claim dbg e tbl codes E rest k.
Proof.
  induction k as [tag flag items kids IH] using tree_ind'.
  set (k := Node tag flag items kids) in *.
  intros D off l2 ts fuel Hent Hat Hdep Hp Hf.
  rewrite placed_unfold in Hp. apply Forall_cons_iff in Hp. destruct Hp as [_ Hpk].
  change (t_kids k) with kids in *.
  destruct (has_children k) eqn:Hc.
  - rewrite tail_evs_eq in Hat. rewrite Hc in Hat. change (t_kids k) with kids in Hat.
    rewrite <- app_assoc in Hat. cbn [app] in Hat.
    unfold post_depth in Hdep. rewrite Hc in Hdep.
    rewrite (walk_list dbg e tbl codes E rest kids (D + 1)%Z (kids_off codes off k) _ l2 ts fuel IH Hat Hdep);
      [| |exact Hpk|exact Hf].
    + replace (D + 1 - 1)%Z with D by lia. reflexivity.
    + left. rewrite Hent. cbn [root_die d_depth d_children]. repeat split; [lia|exact Hc].
  - apply no_children_no_kids in Hc as Hk. change (t_kids k) with kids in Hk. subst kids.
    destruct fuel as [|fuel]; [lia|]. cbn [walk_children]. unfold tree_next.
    rewrite Hent. cbn [root_die d_depth d_children].
    replace (D <? D + 1)%Z with true by lia. replace (D + 1 =? D + 1)%Z with true by lia.
    rewrite andb_false_r, Hc. cbn [negb bind]. reflexivity.
Qed.

(* shifting the events of a subtree = the events of the subtree at the shifted depth *)
Lemma map_on_list {A B} (g : A -> B) (f : N -> tree -> list A) size : forall l off,
  map g (on_list f size off l) = on_list (fun o t => map g (f o t)) size off l.
Proof. induction l as [|t l IH]; intros off; [reflexivity|]. rewrite !on_list_cons, map_app, IH. reflexivity. Qed.

Lemma shift_evs codes bigend k : forall t d off,
  map (shift k) (evs codes bigend d off t) = evs codes bigend (d - k) off t.
Proof.
  induction t as [tag flag items kids IH] using tree_ind'. intros d off.
  set (t := Node tag flag items kids) in *.
  rewrite !evs_unfold. change (t_kids t) with kids. cbn [map]. rewrite shift_head. f_equal.
  destruct (has_children t); [|reflexivity].
  rewrite map_app. cbn [map]. rewrite shift_null. replace (d + 1 - k)%Z with (d - k + 1)%Z by lia. f_equal.
  rewrite map_on_list. apply on_list_ext. eapply Forall_impl; [|exact IH].
  intros k0 Hk o. cbv beta. rewrite Hk. f_equal. lia.
Qed.

Lemma shift_tail codes bigend k d off t :
  map (shift k) (tail_evs codes bigend d off t) = tail_evs codes bigend (d - k) off t.
Proof.
  pose proof (shift_evs codes bigend k t d off) as H. rewrite !evs_tail in H. cbn [map] in H.
  inversion H. reflexivity.
Qed.

Lemma nodes_le_size codes : forall t, N.of_nat (length (nodes t)) <= tree_size codes t.
Proof.
  induction t as [tag flag items kids IH] using tree_ind'.
  set (t := Node tag flag items kids) in *.
  rewrite tree_size_unfold. change (t_kids t) with kids.
  pose proof (enc_uleb_length (t_code codes t)) as Hu. unfold nlen.
  assert (Hk : N.of_nat (length (forest_nodes kids)) <= sumN (map (tree_size codes) kids)).
  { clear -IH. induction kids as [|k kids IHk]; [cbn; lia|]. inversion IH; subst.
    cbn [forest_nodes flat_map map sumN fold_right]. rewrite app_length.
    fold (sumN (map (tree_size codes) kids)). specialize (IHk ltac:(assumption)).
    change (flat_map nodes kids) with (forest_nodes kids). lia. }
  cbn [nodes t length]. change (flat_map nodes kids) with (forest_nodes kids).
  destruct (has_children t) eqn:Hc.
  - lia.
  - apply no_children_no_kids in Hc. change (t_kids t) with kids in Hc. subst kids. cbn [forest_nodes flat_map length]. lia.
Qed.

(* the entries of a subtree are among the entries of the tree *)
Lemma placed_sub codes (P : N * tree -> Prop) : forall k ok0 o t,
  In (o, t) (placed codes ok0 k) -> Forall P (placed codes ok0 k) -> Forall P (placed codes o t).
Proof.
  induction k as [tag flag items kids IH] using tree_ind'. intros ok0 o t Hk Hpk.
  set (k := Node tag flag items kids) in *.
  rewrite placed_unfold in Hk, Hpk. change (t_kids k) with kids in *. destruct Hk as [Heq|Hk].
  - inversion Heq; subst. rewrite placed_unfold. exact Hpk.
  - apply Forall_cons_iff in Hpk. destruct Hpk as [_ Hpk].
    destruct (on_list_in _ _ _ _ _ Hk) as (la & k' & lb & Ek & Hk').
    rewrite Forall_forall in IH.
    apply (IH k' ltac:(rewrite Ek; apply in_or_app; right; left; reflexivity) _ _ _ Hk').
    rewrite Ek, on_list_app, on_list_cons in Hpk. apply Forall_app in Hpk. destruct Hpk as [_ Hp].
    apply Forall_app in Hp. tauto.
Qed.

Section UnitTree.
  Variables (dbg bigend types : bool) (uoff : N) (h : uheader) (codes : coding) (f : list tree) (pad : nat)
            (tbl : abbrevs).
  Let e := unit_enc bigend h.
  Let hl := header_len h.
  Let body := enc_forest codes bigend hl f pad.
  Let hdr := parsed_header bigend types uoff h body.
  Hypothesis He : addr_size_ok e.
  Hypothesis Hlen : hl + nlen body < two63.
  Hypothesis Hcov : all_covered tbl codes f.
  Hypothesis Hok : forest_ok codes e f.
  Hypothesis Hfit : sibs_fit codes hl f.

  (* Theorem 6a: the tree iterator started at any entry rebuilds that entry's subtree, depth 0 at the
     entry *)
  Lemma tree_is_forest o t :
    In (o, t) (on_list (placed codes) (tree_size codes) hl f) ->
    exists ts, entries_tree dbg hdr (Some o) = Ok ts /\
               walk_tree dbg e tbl ts = Ok (Some (dtree_of codes 0 o t), None).
  Proof.
    intros Hin. destruct (body_locate codes bigend hl f pad o t Hin) as (l1 & l2 & dd & Eb & Ho & Hd).
    destruct (positioned dbg bigend types uoff h codes f pad tbl He Hlen Hcov Hok Hfit l1 _ o Eb ltac:(discriminate) Ho)
      as [Hraw Hat].
    fold e hl body hdr in Hraw, Hat. set (E := hl + nlen body) in *.
    assert (Hpall : Forall (placed_ok e tbl codes) (on_list (placed codes) (tree_size codes) hl f))
      by (apply placed_ok_all; assumption).
    assert (Hpt : Forall (placed_ok e tbl codes) (placed codes o t)).
    { destruct (on_list_in _ _ _ _ _ Hin) as (la & k & lb & Ef & Hk).
      rewrite Ef, on_list_app, on_list_cons in Hpall. apply Forall_app in Hpall. destruct Hpall as [_ Hp].
      apply Forall_app in Hp. destruct Hp as [Hpk _].
      exact (placed_sub codes (placed_ok e tbl codes) k _ o t Hk Hpk). }
    assert (Hn : node_ok codes e t).
    { rewrite placed_unfold in Hpt. inversion Hpt as [|? ? (_ & Hn & _) _]. exact Hn. }
    eexists. split; [apply entries_tree_raw; exact Hraw|].
    cbn [r_in]. unfold walk_tree, tree_root. cbn [tr_root tr_raw r_end].
    cbn [map] in Hat.
    destruct (at_chain_step _ _ _ _ _ _ _ _ Hat) as (Hr & Hat1 & _).
    rewrite Hr. clear Hr Hat.
    rewrite map_app, Hd in *. rewrite shift_head, Z.sub_diag in *.
    fold (tail_evs codes bigend dd o t) in Hat1 |- *. rewrite shift_tail, Z.sub_diag in *.
    change bigend with (be e) in Hat1 |- *.
    cbn [head_ev x_die x_post bind] in Hat1 |- *. rewrite (root_die_not_null codes e o 0 t Hn). cbn [negb tr_entry].
    set (t1 := mkTree _ _ _).
    rewrite (walk_tree_claim dbg e tbl codes E [] t 0%Z o _ t1 _ eq_refl Hat1 eq_refl Hpt).
    - cbn [bind]. rewrite dtree_of_unfold. change (0 + 1)%Z with 1%Z. reflexivity.
    - pose proof (nodes_le_size codes t) as Hs. assert (Hnk : nodes t = t :: forest_nodes (t_kids t)) by (destruct t; reflexivity).
      rewrite Hnk in Hs. cbn [length] in Hs.
      pose proof (evs_bytes codes bigend t dd o) as Hb. apply (f_equal nlen) in Hb. rewrite enc_tree_len in Hb.
      rewrite evs_unfold, xbytes_cons in Hb. fold (tail_evs_of codes bigend dd o t) in Hb.
      change (be e) with bigend. unfold tail_evs.
      rewrite !xbytes_cons, xbytes_app, !app_length. rewrite nlen_app in Hb. unfold nlen in *. lia.
  Qed.
End UnitTree.

(* ------------------------------------------------------------------ *)
(** * Every input: no cursor step panics or runs out of model fuel *)

(* the reader invariant established by EntriesRaw::new on a slice shorter than 2^63 bytes *)
Definition state_ok (r : raw_st) : Prop := nlen (r_in r) <= r_end r /\ depth_ok (r_depth r) (r_in r).

Lemma depth_ok_shorter d a b : (length b <= length a)%nat -> depth_ok d a -> depth_ok d b.
Proof. unfold depth_ok, nlen. intros H [A B]. split; lia. Qed.

Lemma read_entry_inv dbg e tbl r : state_ok r ->
  match read_entry dbg e tbl r with
  | Ok (ok, d, r') => state_ok r' /\ d_depth d = r_depth r /\ (length (r_in r') < length (r_in r))%nat
  | Err _ => True
  | Panic => False
  | OutOfFuel => False
  end.
Proof.
  intros [Hle [D1 D2]]. unfold read_entry, next_offset, chk_sub.
  replace (nlen (r_in r) <=? r_end r) with true by lia. cbn [bind].
  unfold read_abbreviation. pose proof (read_uleb128_res dbg (r_in r)) as [U1 U2].
  destruct (read_uleb128 dbg (r_in r)) as [[code rest]| | |] eqn:E1; cbn [bind]; try congruence; try exact I.
  apply read_uleb128_skip, skip_leb_shrinks in E1.
  assert (Hl : nlen rest + 1 <= nlen (r_in r)) by (unfold nlen; lia).
  destruct (code =? 0).
  - rewrite chk_s_ok by lia. cbn [bind r_in r_end r_depth d_depth]. unfold state_ok, depth_ok. cbn [r_in r_end r_depth].
    repeat split; lia.
  - destruct (tbl_get tbl code) as [a|]; cbn [bind]; [|exact I].
    assert (Hd : exists d', (if ab_children a then chk_s 64 dbg (r_depth r + 1) else Ok (r_depth r)) = Ok d' /\
                            (r_depth r <= d' <= r_depth r + 1)%Z).
    { destruct (ab_children a); [rewrite chk_s_ok by lia|]; eexists; split; try reflexivity; lia. }
    destruct Hd as (d' & -> & Hd'). cbn [bind r_in r_end r_depth].
    unfold read_attrs. pose proof (read_attributes_res (ab_specs a) dbg e rest) as [A1 A2].
    destruct (read_attributes dbg e (ab_specs a) rest) as [[vs rest']| | |] eqn:E2; cbn [bind]; try congruence; try exact I.
    apply read_attributes_length in E2. cbn [d_depth]. unfold state_ok, depth_ok. cbn [r_in r_end r_depth].
    unfold nlen in *. repeat split; lia.
Qed.

Definition cursor_ok (c : cursor) : Prop :=
  state_ok (c_raw c) /\ depth_ok (d_depth (c_cur c)) (r_in (c_raw c)).

Lemma next_entry_inv dbg e tbl c : cursor_ok c ->
  match next_entry dbg e tbl c with
  | Ok (SOk true c') => cursor_ok c' /\ (length (r_in (c_raw c')) < length (r_in (c_raw c)))%nat
  | Ok (SOk false c') => cursor_ok c' /\ r_in (c_raw c') = []
  | Ok (SErr _ c') => cursor_ok c' /\ r_in (c_raw c') = []
  | Err _ => False
  | Panic => False
  | OutOfFuel => False
  end.
Proof.
  intros [Hs Hc]. unfold next_entry. destruct (raw_is_empty (c_raw c)) eqn:Em.
  - unfold raw_is_empty in Em. destruct (r_in (c_raw c)) eqn:Ei; [|discriminate].
    split; [|exact Ei]. split; cbn [c_raw c_cur set_null d_depth]; [exact Hs|rewrite Ei in *; exact Hc].
  - pose proof (read_entry_inv dbg e tbl (c_raw c) Hs) as H.
    destruct (read_entry dbg e tbl (c_raw c)) as [[[ok d] r']|x| |]; try contradiction.
    + destruct H as (H1 & H2 & H3). split; [|exact H3]. split; cbn [c_raw c_cur]; [exact H1|].
      rewrite H2. destruct Hs as [_ Hd]. apply (depth_ok_shorter _ (r_in (c_raw c))); [lia|exact Hd].
    + destruct Hs as [Hle Hd]. unfold next_offset, chk_sub. replace (nlen (r_in (c_raw c)) <=? r_end (c_raw c)) with true by lia.
      cbn [bind]. split; [|reflexivity]. split; cbn [c_raw c_cur r_in r_end r_depth d_depth]; unfold state_ok; cbn [r_in r_end r_depth].
      * split; [change (nlen (@nil byte)) with 0; lia|]. apply (depth_ok_shorter _ (r_in (c_raw c))); [cbn; lia|exact Hd].
      * apply (depth_ok_shorter _ (r_in (c_raw c))); [cbn; lia|exact Hd].
Qed.

Lemma next_dfs_inv dbg e tbl : forall fuel c, cursor_ok c -> (length (r_in (c_raw c)) < fuel)%nat ->
  match next_dfs fuel dbg e tbl c with
  | Ok (SOk _ c') | Ok (SErr _ c') => cursor_ok c' /\ (length (r_in (c_raw c')) <= length (r_in (c_raw c)))%nat
  | _ => False
  end.
Proof.
  induction fuel as [|fuel IH]; intros c Hc Hf; [lia|]. cbn [next_dfs].
  pose proof (next_entry_inv dbg e tbl c Hc) as H.
  destruct (next_entry dbg e tbl c) as [[[|] c'|x c']| | |]; cbn [bind]; try contradiction.
  - destruct H as [H1 H2]. destruct (negb (is_null (c_cur c'))); [split; [exact H1|lia]|].
    specialize (IH c' H1 ltac:(lia)).
    destruct (next_dfs fuel dbg e tbl c') as [[o c''|x c'']| | |]; try contradiction; (split; [tauto|lia]).
  - destruct H as [H1 H2]. split; [exact H1|rewrite H2; cbn; lia].
  - destruct H as [H1 H2]. split; [exact H1|rewrite H2; cbn; lia].
Qed.

Lemma sibling_jump_inv dbg r cur : state_ok r -> depth_ok (d_depth cur) (r_in r) ->
  exists r', sibling_jump dbg r cur = Ok r' /\ state_ok r' /\ (length (r_in r') <= length (r_in r))%nat.
Proof.
  intros Hs Hc. unfold sibling_jump. destruct (d_children cur); [|exists r; split; [reflexivity|split; [exact Hs|lia]]].
  destruct (die_sibling cur) as [o|]; [|exists r; split; [reflexivity|split; [exact Hs|lia]]].
  unfold seek_forward, next_offset, chk_sub. destruct Hs as [Hle Hd].
  replace (nlen (r_in r) <=? r_end r) with true by lia. cbn [bind].
  destruct (o <? r_end r - nlen (r_in r)); cbn [bind]; [exists r; split; [reflexivity|split; [split; assumption|lia]]|].
  pose proof (skip_n_res (o - (r_end r - nlen (r_in r))) (r_in r)) as [S1 S2].
  destruct (skip_n (o - (r_end r - nlen (r_in r))) (r_in r)) as [rest|x| |] eqn:E; cbn [bind]; try congruence.
  - apply skip_n_spec in E. destruct E as (hd & E & _). eexists. split; [reflexivity|].
    assert (L : (length rest <= length (r_in r))%nat) by (rewrite E, app_length; lia).
    split; [|exact L]. split; cbn [r_in r_end r_depth]; [unfold nlen in *; lia|].
    apply (depth_ok_shorter _ (r_in r)); assumption.
  - exists r. split; [reflexivity|split; [split; assumption|lia]].
Qed.

Lemma sibling_loop_inv dbg e tbl T : forall fuel c, cursor_ok c -> (length (r_in (c_raw c)) < fuel)%nat ->
  match sibling_loop fuel dbg e tbl T c with
  | Ok (SOk _ c') | Ok (SErr _ c') => cursor_ok c'
  | _ => False
  end.
Proof.
  induction fuel as [|fuel IH]; intros c [Hs Hc] Hf; [lia|]. rewrite sibling_loop_S.
  assert (Hj : exists r1, (match current c with Some cur => sibling_jump dbg (c_raw c) cur | None => Ok (c_raw c) end) = Ok r1 /\
                          state_ok r1 /\ (length (r_in r1) <= length (r_in (c_raw c)))%nat).
  { unfold current. destruct (is_null (c_cur c)); [exists (c_raw c); split; [reflexivity|split; [exact Hs|lia]]|].
    apply sibling_jump_inv; assumption. }
  destruct Hj as (r1 & -> & Hs1 & Hl1). cbn [bind]. unfold sib_half.
  assert (Hc1 : cursor_ok (mkCur r1 (c_cur c))).
  { split; cbn [c_raw c_cur]; [exact Hs1|]. apply (depth_ok_shorter _ (r_in (c_raw c))); assumption. }
  pose proof (next_entry_inv dbg e tbl _ Hc1) as H.
  destruct (next_entry dbg e tbl (mkCur r1 (c_cur c))) as [[[|] c'|x c']| | |]; cbn [bind]; try contradiction.
  - destruct H as [H1 H2]. cbn [c_raw] in H2. destruct (d_depth (c_cur c') =? T)%Z; [exact H1|].
    apply IH; [exact H1|lia].
  - tauto.
  - tauto.
Qed.

(* the cursor steps of the public API, from any state satisfying the invariant *)
Lemma cursor_steps_total dbg e tbl c : cursor_ok c ->
  (forall r, next_entry dbg e tbl c = r -> r <> Panic /\ r <> OutOfFuel) /\
  (forall r, next_dfs (cursor_fuel c) dbg e tbl c = r -> r <> Panic /\ r <> OutOfFuel) /\
  (forall r, next_sibling (cursor_fuel c) dbg e tbl c = r -> r <> Panic /\ r <> OutOfFuel).
Proof.
  intros Hc. split; [|split]; intros r <-.
  - pose proof (next_entry_inv dbg e tbl c Hc) as H.
    destruct (next_entry dbg e tbl c) as [[[|] c'|x c']| | |]; try contradiction; split; discriminate.
  - pose proof (next_dfs_inv dbg e tbl (cursor_fuel c) c Hc ltac:(unfold cursor_fuel; lia)) as H.
    destruct (next_dfs (cursor_fuel c) dbg e tbl c) as [[o c'|x c']| | |]; try contradiction; split; discriminate.
  - unfold next_sibling. destruct (current c); [|split; discriminate].
    pose proof (sibling_loop_inv dbg e tbl (d_depth d) (cursor_fuel c) c Hc ltac:(unfold cursor_fuel; lia)) as H.
    destruct (sibling_loop (cursor_fuel c) dbg e tbl (d_depth d) c) as [[o c'|x c']| | |]; try contradiction; split; discriminate.
Qed.

(* the invariant holds for every cursor the API hands out on a slice shorter than 2^63 bytes *)
Lemma cursor_new_ok dbg input offset c :
  offset + nlen input < two63 -> cursor_new dbg input offset = Ok c -> cursor_ok c.
Proof.
  intros H. unfold cursor_new, raw_new, chk_add. change (2 ^ 64) with two64. unfold two63 in H. unfold two64.
  replace (offset + nlen input <? 18446744073709551616) with true by lia. cbn [bind].
  intros E. inversion E; subst. unfold cursor_ok, state_ok, depth_ok. cbn [c_raw c_cur r_in r_end r_depth null_die d_depth].
  repeat split; lia.
Qed.

(* ---- EntriesTree ---- *)
Definition tree_ok (t : tree_st) : Prop :=
  state_ok (tr_raw t) /\ depth_ok (d_depth (tr_entry t)) (r_in (tr_raw t)) /\
  nlen (tr_root t) <= r_end (tr_raw t) /\ depth_ok 0 (tr_root t).

Lemma tree_root_total dbg e tbl t : tree_ok t ->
  match tree_root dbg e tbl t with
  | Ok t' => tree_ok t'
  | Err _ => True
  | _ => False
  end.
Proof.
  intros (Hs & Hc & Hr & H0). unfold tree_root.
  assert (Hs0 : state_ok (mkRaw (tr_root t) (r_end (tr_raw t)) 0)) by (split; cbn [r_in r_end r_depth]; assumption).
  pose proof (read_entry_inv dbg e tbl _ Hs0) as H.
  destruct (read_entry dbg e tbl (mkRaw (tr_root t) (r_end (tr_raw t)) 0)) as [[[ok d] r']| | |] eqn:Er;
    cbn [bind]; try contradiction; [|exact I].
  destruct H as (H1 & H2 & H3). cbn [r_in r_depth] in *. destruct ok; cbn [negb]; [|exact I].
  apply read_entry_shrinks in Er. destruct Er as [_ Eend]. cbn [r_end] in Eend.
  split; cbn [tr_raw tr_entry tr_root]; [exact H1|]. split.
  - rewrite H2. apply (depth_ok_shorter _ (tr_root t)); [lia|exact H0].
  - split; [rewrite Eend; exact Hr|exact H0].
Qed.

Lemma tree_fail_total dbg t x : state_ok (tr_raw t) -> depth_ok 0 (tr_root t) -> nlen (tr_root t) <= r_end (tr_raw t) ->
  match tree_fail dbg t x with
  | Ok (TOk _ t') | Ok (TErr _ t') => tree_ok t'
  | _ => False
  end.
Proof.
  intros [Hle Hd] H0 Hr. unfold tree_fail, next_offset, chk_sub.
  replace (nlen (r_in (tr_raw t)) <=? r_end (tr_raw t)) with true by lia. cbn [bind].
  assert (Hd0 : depth_ok (r_depth (tr_raw t)) []) by (apply (depth_ok_shorter _ (r_in (tr_raw t))); [cbn; lia|exact Hd]).
  unfold tree_ok, state_ok. cbn [tr_raw tr_entry tr_root r_in r_end r_depth d_depth].
  split; [split; [change (nlen (@nil byte)) with 0; lia|exact Hd0]|]. split; [exact Hd0|]. split; assumption.
Qed.

Lemma tree_next_loop_total dbg e tbl depth : forall fuel t, tree_ok t -> (length (r_in (tr_raw t)) < fuel)%nat ->
  match tree_next_loop fuel dbg e tbl depth t with
  | Ok (TOk _ t') | Ok (TErr _ t') => tree_ok t'
  | _ => False
  end.
Proof.
  induction fuel as [|fuel IH]; intros t (Hs & Hc & Hr & H0) Hf; [lia|]. cbn [tree_next_loop].
  destruct (sibling_jump_inv dbg (tr_raw t) (tr_entry t) Hs Hc) as (r1 & Ej & Hs1 & Hl1). rewrite Ej. cbn [bind].
  apply sibling_jump_shrinks in Ej. destruct Ej as [_ Eend1].
  destruct (raw_is_empty r1) eqn:Em.
  - unfold tree_ok. cbn [tr_raw tr_entry tr_root set_null d_depth]. split; [exact Hs1|]. split.
    + apply (depth_ok_shorter _ (r_in (tr_raw t))); assumption.
    + split; [rewrite Eend1; exact Hr|exact H0].
  - pose proof (read_entry_inv dbg e tbl r1 Hs1) as H.
    destruct (read_entry dbg e tbl r1) as [[[ok d] r2]|x| |] eqn:Er; try contradiction.
    + destruct H as (H1 & H2 & H3). apply read_entry_shrinks in Er. destruct Er as [_ Eend2].
      assert (Hok2 : tree_ok (mkTree (tr_root t) r2 d)).
      { unfold tree_ok. cbn [tr_raw tr_entry tr_root]. split; [exact H1|]. split.
        - rewrite H2. destruct Hs1 as [_ Hd1]. apply (depth_ok_shorter _ (r_in r1)); [lia|exact Hd1].
        - split; [rewrite Eend2, Eend1; exact Hr|exact H0]. }
      destruct (d_depth d =? depth)%Z; [exact Hok2|]. apply IH; [exact Hok2|cbn [tr_raw]; lia].
    + apply tree_fail_total; cbn [tr_raw tr_root]; [exact Hs1|exact H0|rewrite Eend1; exact Hr].
Qed.

(* EntriesTree::next(depth) under its documented requirement depth <= entry.depth + 1 *)
Lemma tree_next_total dbg e tbl depth t : tree_ok t ->
  ((d_depth (tr_entry t) < depth)%Z -> (d_depth (tr_entry t) + 1 = depth)%Z) ->
  match tree_next (tree_fuel t) dbg e tbl depth t with
  | Ok (TOk _ t') | Ok (TErr _ t') => tree_ok t'
  | _ => False
  end.
Proof.
  intros Hok Hreq. unfold tree_next. destruct (d_depth (tr_entry t) <? depth)%Z eqn:Hlt.
  - replace (d_depth (tr_entry t) + 1 =? depth)%Z with true by lia. rewrite andb_false_r.
    destruct (negb (d_children (tr_entry t))); [exact Hok|].
    destruct Hok as (Hs & Hc & Hr & H0).
    destruct (raw_is_empty (tr_raw t)).
    + unfold tree_ok. cbn [tr_raw tr_entry tr_root set_null d_depth]. tauto.
    + pose proof (read_entry_inv dbg e tbl (tr_raw t) Hs) as H.
      destruct (read_entry dbg e tbl (tr_raw t)) as [[[ok d] r2]|x| |] eqn:Er; try contradiction.
      * destruct H as (H1 & H2 & H3). apply read_entry_shrinks in Er. destruct Er as [_ Eend2].
        unfold tree_ok. cbn [tr_raw tr_entry tr_root]. split; [exact H1|]. split.
        -- rewrite H2. destruct Hs as [_ Hd1]. apply (depth_ok_shorter _ (r_in (tr_raw t))); [lia|exact Hd1].
        -- split; [rewrite Eend2; exact Hr|exact H0].
      * apply tree_fail_total; assumption.
  - apply tree_next_loop_total; [exact Hok|unfold tree_fuel; lia].
Qed.

(* ---- unit headers ---- *)
Ltac un_step bigend n bs :=
  let A1 := fresh "A" in let A2 := fresh "A" in
  pose proof (read_un_not_panic n bigend bs) as [A1 A2];
  destruct (read_un n bigend bs) as [[? ?]| | |]; cbn [bind]; try (split; congruence).

Lemma read_initial_length_res bigend bs :
  read_initial_length bigend bs <> Panic /\ read_initial_length bigend bs <> OutOfFuel.
Proof.
  unfold read_initial_length. un_step bigend 4%nat bs.
  destruct (n <? 4294967280); [split; discriminate|].
  destruct (n =? 4294967295); [|split; discriminate]. un_step bigend 8%nat l.
Qed.

Lemma read_word_res f64 bigend bs : read_word f64 bigend bs <> Panic /\ read_word f64 bigend bs <> OutOfFuel.
Proof. unfold read_word. destruct f64; apply read_un_not_panic. Qed.

Lemma read_address_size_res bs : read_address_size bs <> Panic /\ read_address_size bs <> OutOfFuel.
Proof.
  unfold read_address_size. destruct bs as [|b r]; cbn [read_u8 bind]; [split; discriminate|].
  destruct ((b2n b =? 1) || (b2n b =? 2) || (b2n b =? 4) || (b2n b =? 8)); split; discriminate.
Qed.

Lemma sig_off_res bigend f64 (mk : N -> N -> utype) bs :
  (let* (s, r1) := read_u64 bigend bs in let* (o, r2) := read_word f64 bigend r1 in Ok (mk s o, r2)) <> Panic /\
  (let* (s, r1) := read_u64 bigend bs in let* (o, r2) := read_word f64 bigend r1 in Ok (mk s o, r2)) <> OutOfFuel.
Proof.
  unfold read_u64. un_step bigend 8%nat bs.
  pose proof (read_word_res f64 bigend l) as [W1 W2].
  destruct (read_word f64 bigend l) as [[o r2]| | |]; cbn [bind]; split; congruence.
Qed.

Lemma id_res bigend (mk : N -> utype) bs :
  (let* (i, r1) := read_u64 bigend bs in Ok (mk i, r1)) <> Panic /\
  (let* (i, r1) := read_u64 bigend bs in Ok (mk i, r1)) <> OutOfFuel.
Proof. unfold read_u64. un_step bigend 8%nat bs. Qed.

Lemma parse_unit_type_res bigend f64 code bs :
  parse_unit_type bigend f64 code bs <> Panic /\ parse_unit_type bigend f64 code bs <> OutOfFuel.
Proof.
  unfold parse_unit_type.
  destruct (code =? 1); [split; discriminate|].
  destruct (code =? 2); [apply sig_off_res|].
  destruct (code =? 3); [split; discriminate|].
  destruct (code =? 4); [apply id_res|].
  destruct (code =? 5); [apply id_res|].
  destruct (code =? 6); [apply sig_off_res|split; discriminate].
Qed.

Lemma parse_unit_header_res bigend types uoff bs :
  parse_unit_header bigend types uoff bs <> Panic /\ parse_unit_header bigend types uoff bs <> OutOfFuel.
Proof.
  unfold parse_unit_header.
  pose proof (read_initial_length_res bigend bs) as [A1 A2].
  destruct (read_initial_length bigend bs) as [[[len f64] r0]| | |]; cbn [bind]; try (split; congruence).
  pose proof (split_n_res r0 len) as [S1 S2].
  destruct (split_n len r0) as [[rest after]| | |]; cbn [bind]; try (split; congruence).
  unfold read_u16. un_step bigend 2%nat rest. rename n into version. rename l into r1.
  assert (Hmid : forall X : res (N * N * N * list byte),
            X = (if (2 <=? version) && (version <=? 4)
                 then let* (aoff, ra) := read_word f64 bigend r1 in
                      let* (asz, rb) := read_address_size ra in Ok (if types then 2 else 1, asz, aoff, rb)
                 else if version =? 5
                      then let* (ut, ra) := read_u8 r1 in
                           let* (asz, rb) := read_address_size ra in
                           let* (aoff, rc) := read_word f64 bigend rb in Ok (ut, asz, aoff, rc)
                      else Err EUnknownVersion) -> X <> Panic /\ X <> OutOfFuel).
  { intros X ->. destruct ((2 <=? version) && (version <=? 4)).
    - pose proof (read_word_res f64 bigend r1) as [W1 W2].
      destruct (read_word f64 bigend r1) as [[aoff ra]| | |]; cbn [bind]; try (split; congruence).
      pose proof (read_address_size_res ra) as [T1 T2].
      destruct (read_address_size ra) as [[asz rb]| | |]; cbn [bind]; split; congruence.
    - destruct (version =? 5); [|split; discriminate].
      destruct r1 as [|b ra]; cbn [read_u8 bind]; [split; discriminate|].
      pose proof (read_address_size_res ra) as [T1 T2].
      destruct (read_address_size ra) as [[asz rb]| | |]; cbn [bind]; try (split; congruence).
      pose proof (read_word_res f64 bigend rb) as [W1 W2].
      destruct (read_word f64 bigend rb) as [[aoff rc]| | |]; cbn [bind]; split; congruence. }
  match goal with |- (bind ?X _) <> _ /\ _ => pose proof (Hmid X eq_refl) as [M1 M2]; destruct X as [[[[ut asz] aoff] r2]| | |] end;
    cbn [bind]; try (split; congruence).
  pose proof (parse_unit_type_res bigend f64 ut r2) as [T1 T2].
  destruct (parse_unit_type bigend f64 ut r2) as [[utype r3]| | |]; cbn [bind]; split; congruence.
Qed.

(* the unit iterator: every unit consumes input, the offsets stay below 2^64 *)
Lemma parse_unit_header_length bigend types uoff bs h after :
  parse_unit_header bigend types uoff bs = Ok (h, after) -> (length after < length bs)%nat.
Proof.
  unfold parse_unit_header, read_initial_length.
  destruct (read_un 4 bigend bs) as [[v r]| | |] eqn:E1; cbn [bind]; try discriminate.
  apply read_un_length in E1.
  assert (Hil : forall X : res (N * bool * list byte),
            X = (if v <? 4294967280 then Ok (v, false, r)
                 else if v =? 4294967295 then let* (v8, r8) := read_un 8 bigend r in Ok (v8, true, r8)
                      else Err EUnknownReservedLength) ->
            forall len f64 r0, X = Ok (len, f64, r0) -> (length r0 <= length r)%nat).
  { intros X -> len f64 r0. destruct (v <? 4294967280); [intros H; inversion H; subst; lia|].
    destruct (v =? 4294967295); [|discriminate].
    destruct (read_un 8 bigend r) as [[v8 r8]| | |] eqn:E8; cbn [bind]; try discriminate.
    intros H. inversion H; subst. apply read_un_length in E8. lia. }
  match goal with |- (bind ?X _) = _ -> _ => pose proof (Hil X eq_refl) as Hx; destruct X as [[[len f64] r0]| | |] end;
    cbn [bind]; try discriminate.
  specialize (Hx len f64 r0 eq_refl).
  destruct (split_n len r0) as [[rest aft]| | |] eqn:Es; cbn [bind]; try discriminate.
  apply split_n_spec in Es. destruct Es as [Es _].
  intros H.
  assert (aft = after).
  { repeat match type of H with
           | bind ?X _ = Ok _ => destruct X as [[? ?]| | |]; cbn [bind] in H; try discriminate
           | (let (_, _) := ?p in _) = _ => destruct p
           end.
    inversion H. reflexivity. }
  subst aft. rewrite Es, app_length in Hx. lia.
Qed.

Lemma units_loop_total : forall fuel dbg bigend types offset bs,
  (length bs < fuel)%nat -> offset + nlen bs < two64 ->
  units_loop fuel dbg bigend types offset bs <> Panic /\ units_loop fuel dbg bigend types offset bs <> OutOfFuel.
Proof.
  induction fuel as [|fuel IH]; intros dbg bigend types offset bs Hf Hlen; [lia|]. cbn [units_loop].
  destruct (is_nil bs); [split; discriminate|].
  pose proof (parse_unit_header_res bigend types offset bs) as [P1 P2].
  destruct (parse_unit_header bigend types offset bs) as [[h after]| | |] eqn:E; try (split; congruence).
  apply parse_unit_header_length in E.
  unfold chk_sub. replace (nlen after <=? nlen bs) with true by (unfold nlen; lia). cbn [bind].
  unfold chk_add. change (2 ^ 64) with two64. unfold two64 in *.
  replace (offset + (nlen bs - nlen after) <? 18446744073709551616) with true by (unfold nlen in *; lia). cbn [bind].
  destruct (IH dbg bigend types (offset + (nlen bs - nlen after)) after ltac:(lia) ltac:(unfold nlen in *; lia)) as [I1 I2].
  destruct (units_loop fuel dbg bigend types (offset + (nlen bs - nlen after)) after) as [[l e]| | |]; cbn [bind];
    split; congruence.
Qed.

Lemma units_total dbg bigend types section : nlen section < two64 ->
  units dbg bigend types section <> Panic /\ units dbg bigend types section <> OutOfFuel.
Proof. intros H. unfold units. apply units_loop_total; [lia|lia]. Qed.
