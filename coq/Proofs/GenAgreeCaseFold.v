(* Proofs/GenAgreeCaseFold.v — translator tie for the non-ASCII case folding table used by
   case_folding_djb_hash (src/case_fold_data.rs, src/case_fold.rs), regenerated from the source text into
   coq/Gen/CaseFold.v: the properties case_fold_data's binary search and the DWARF 5 §6.1.1.4.5 hash rely on. *)
From Coq Require Import List NArith Bool Lia.
Require Import GV.Proofs.GenSweep.
Require GV.Gen.CaseFold.
Import ListNotations.
Local Open Scope N_scope.

Fixpoint strictly_sorted (l : list N) : bool :=
  match l with
  | a :: ((b :: _) as r) => (a <? b) && strictly_sorted r
  | _ => true
  end.
Definition is_scalar (c : N) : bool := (c <? 55296) || ((57343 <? c) && (c <? 1114112)).   (* a Rust char *)
Fixpoint lookup_fold (c : N) (l : list (N * N)) : option N :=
  match l with [] => None | (k, v) :: r => if c =? k then Some v else lookup_fold c r end.
(* case_fold_data: the table entry, else the character itself *)
Definition fold_data (c : N) : N := match lookup_fold c CaseFold.case_fold_data with Some v => v | None => c end.

Lemma gen_case_fold_table :
  (* keys strictly increasing: the binary search of case_fold_data finds every key, and no key is listed twice *)
  strictly_sorted (map fst CaseFold.case_fold_data) = true /\
  (* only non-ASCII scalar values, mapped to scalar values; an ASCII target (U+017F -> s, U+212A -> k, U+0130/0131 -> i)
     is a lower-case letter, i.e. a fixed point of the ASCII stage to_ascii_lowercase *)
  forallb (fun p => (127 <? fst p) && is_scalar (fst p) && is_scalar (snd p)
                    && ((127 <? snd p) || ((96 <? snd p) && (snd p <? 123)))) CaseFold.case_fold_data = true /\
  (* no entry folds a character to itself, and folding is idempotent: fold (fold c) = fold c *)
  forallb (fun p => negb (fst p =? snd p) && (fold_data (snd p) =? snd p)) CaseFold.case_fold_data = true /\
  (* the DWARF extension: dotted capital I and dotless i fold to ASCII 'i' *)
  fold_data 304 = 105 /\ fold_data 305 = 105.
Proof. repeat split; vm_compute; reflexivity. Qed.

(* idempotence for EVERY scalar value (characters without an entry are fixed) *)
Lemma gen_case_fold_idempotent : forall c, fold_data (fold_data c) = fold_data c.
Proof.
  intros c. unfold fold_data at 2 3. destruct (lookup_fold c CaseFold.case_fold_data) as [v|] eqn:E.
  - destruct gen_case_fold_table as [_ [_ [S _]]].
    assert (I : In (c, v) CaseFold.case_fold_data).
    { revert E. generalize CaseFold.case_fold_data. induction l as [|[k w] l IH]; cbn; [discriminate|].
      destruct (N.eqb_spec c k) as [->|]; intros E; [injection E as ->; left; reflexivity|right; apply IH; exact E]. }
    pose proof (forallb_In _ _ _ S _ I) as P. cbn [fst snd] in P.
    apply andb_prop in P. destruct P as [_ P]. apply N.eqb_eq in P. exact P.
  - unfold fold_data. rewrite E. reflexivity.
Qed.
