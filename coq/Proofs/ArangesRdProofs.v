(* Proofs/ArangesRdProofs.v — C17: .debug_aranges sets (header padding, tuple iteration) and
   .debug_pubnames/.debug_pubtypes sets: what is iterated is what is encoded; no panic for any bytes. *)
From Coq Require Import List NArith ZArith Bool Lia ZifyBool ZifyN ZifyNat.
From Coq.Strings Require Import Byte.
Require Import GV.Base.Res GV.Base.Byt GV.Base.Ints GV.Model.Leb GV.Model.Prim.
Require Import GV.Spec.LebSpec GV.Spec.LookupSpec GV.Model.IndexRd GV.Model.ArangesRd.
Require Import GV.Proofs.IndexRdProofs GV.Proofs.NamesRdProofs.
Import ListNotations.
Local Open Scope N_scope.
Local Arguments N.add : simpl never.
Local Arguments N.sub : simpl never.
Local Arguments N.mul : simpl never.
Local Arguments N.shiftl : simpl never.
Local Arguments N.shiftr : simpl never.
Local Arguments N.land : simpl never.
Local Arguments N.lor : simpl never.
Local Arguments N.pow : simpl never.
Local Arguments N.modulo : simpl never.
Local Arguments N.div : simpl never.
Local Arguments N.of_nat : simpl never.
Local Arguments N.to_nat : simpl never.
Ltac Zify.zify_post_hook ::= Z.div_mod_to_equations.

Definition valid_asz (s : N) : Prop := s = 1 \/ s = 2 \/ s = 4 \/ s = 8.

(* ------------------------------------------------------------------ any bytes: header *)

Lemma post_read_address_size bs :
  post (fun p => valid_asz (fst p) /\ (length (snd p) < length bs)%nat) (read_address_size bs).
Proof.
  unfold read_address_size. eapply post_bind; [apply post_read_u8|]. intros [s r] _ (_ & Hl). cbn [fst snd] in *.
  destruct ((s =? 1) || (s =? 2) || (s =? 4) || (s =? 8)) eqn:E; [|exact I].
  cbn. split; [unfold valid_asz; lia|lia].
Qed.

Lemma post_arange_header_parse dbg be off bs :
  post (fun p => valid_asz (ah_addr_size (fst p)) /\ (length (snd p) < length bs)%nat)
       (arange_header_parse dbg be off bs).
Proof.
  unfold arange_header_parse.
  eapply post_bind; [apply post_read_initial_length|]. intros [[len f64] r] _ (_ & Hl0). cbn [fst snd] in *.
  eapply post_bind; [apply post_rd_split|]. intros [rest after] _ (_ & Hafter & _). cbn [fst snd] in *.
  assert (Hla : (length after < length bs)%nat) by (subst after; rewrite skipn_length; lia).
  eapply post_bind; [apply post_read_un|]. intros [version r1] _ _.
  destruct (negb (version =? 2) && negb (version =? 3)); [exact I|].
  eapply post_bind; [apply post_read_word|]. intros [info r2] _ _.
  eapply post_bind; [apply post_read_address_size|]. intros [asz r3] _ (Hasz & _). cbn [fst] in Hasz.
  eapply post_bind; [apply post_read_u8|]. intros [seg r4] _ _.
  destruct (negb (seg =? 0)); [exact I|].
  replace (chk_add 8 dbg (if f64 then 12 else 4) 2) with (Ok (if f64 then 14 else 6) : res N)
    by (destruct f64, dbg; reflexivity). cbn [bind].
  replace (chk_add 8 dbg (if f64 then 14 else 6) (word_size f64)) with (Ok (if f64 then 22 else 10) : res N)
    by (destruct f64, dbg; reflexivity). cbn [bind].
  replace (chk_add 8 dbg (if f64 then 22 else 10) 1) with (Ok (if f64 then 23 else 11) : res N)
    by (destruct f64, dbg; reflexivity). cbn [bind].
  replace (chk_add 8 dbg (if f64 then 23 else 11) 1) with (Ok (arange_header_len f64) : res N)
    by (destruct f64, dbg; reflexivity). cbn [bind].
  assert (Ht : asz * 2 < 256 /\ asz * 2 <> 0) by (unfold valid_asz in Hasz; lia).
  destruct (256 <=? asz * 2) eqn:E1; [lia|]. destruct (asz * 2 =? 0) eqn:E2; [lia|].
  eapply post_bind with (P := fun _ => True).
  { destruct (arange_header_len f64 mod (asz * 2) =? 0); [exact I|].
    rewrite chk_sub_ok; [exact I|].
    pose proof (N.mod_lt (arange_header_len f64) (asz * 2) ltac:(lia)). lia. }
  intros padding _ _. eapply post_bind; [apply post_rd_skip|]. intros r5 _ _.
  cbn. split; [exact Hasz|exact Hla].
Qed.

Lemma ones_sized_valid dbg s : valid_asz s -> ones_sized dbg s = Ok (2 ^ (8 * s) - 1).
Proof. intros [->|[->|[->| ->]]]; destruct dbg; reflexivity. Qed.

Lemma tombstone_valid s : valid_asz s -> N.land (two64 - 2) (2 ^ (8 * s) - 1) = tombstone_min s.
Proof. intros [->|[->|[->| ->]]]; reflexivity. Qed.

Lemma post_read_address asz be bs :
  post (fun p => (length (snd p) < length bs)%nat \/ asz = 0) (read_address asz be bs).
Proof.
  unfold read_address.
  assert (UN : forall n, n <> O -> post (fun p : N * list byte => (length (snd p) < length bs)%nat \/ asz = 0)
                                        (read_un n be bs)).
  { intros n Hn. eapply post_weaken; [apply post_read_un|]. intros [v r] (_ & Hr & Hl). cbn [snd] in *.
    left. subst r. rewrite skipn_length. lia. }
  repeat match goal with |- post _ (if ?c then _ else _) => destruct c end;
    try (apply UN; discriminate); exact I.
Qed.

(* the tuple loops end and never panic once the address size has been validated by the header *)
Lemma arange_entries_loop_total dbg be asz : valid_asz asz -> forall fuel bs,
  (length bs < fuel)%nat ->
  let '(es, st) := arange_entries_loop dbg be fuel asz bs in st <> SPanic /\ st <> SFuel.
Proof.
  intros Hv. induction fuel as [|fuel IH]; intros bs Hf; [lia|]. cbn [arange_entries_loop].
  destruct bs as [|b0 bs0]; [split; discriminate|]. set (bs := b0 :: bs0) in *.
  rewrite chk_mul_ok by (change (2 ^ 8) with 256; unfold valid_asz in Hv; lia).
  destruct (blen bs <? 2 * asz); [split; discriminate|].
  pose proof (post_read_address asz be bs) as P1.
  destruct (read_address asz be bs) as [[begin r]| e | |]; cbn in P1; try contradiction; try (split; discriminate).
  pose proof (post_read_address asz be r) as P2.
  destruct (read_address asz be r) as [[len r']| e | |]; cbn in P2; try contradiction; try (split; discriminate).
  assert (Hl : (length r' < fuel)%nat).
  { unfold valid_asz in Hv. destruct P1 as [P1|P1]; [|lia]. destruct P2 as [P2|P2]; [|lia].
    unfold bs in *. cbn [length] in *. lia. }
  destruct ((begin =? 0) && (len =? 0)); [apply IH; exact Hl|].
  rewrite (ones_sized_valid dbg asz Hv).
  destruct (N.land (two64 - 2) (2 ^ (8 * asz) - 1) <=? begin); [apply IH; exact Hl|].
  destruct (two64 <=? begin + len); [split; discriminate|].
  destruct (2 ^ (8 * asz) - 1 <? begin + len); [split; discriminate|].
  specialize (IH r' Hl). destruct (arange_entries_loop dbg be fuel asz r') as [es st].
  unfold run_cons. cbn [snd]. exact IH.
Qed.

Lemma arange_raw_loop_total dbg be asz : valid_asz asz -> forall fuel bs,
  (length bs < fuel)%nat ->
  let '(es, st) := arange_raw_loop dbg be fuel asz bs in st <> SPanic /\ st <> SFuel.
Proof.
  intros Hv. induction fuel as [|fuel IH]; intros bs Hf; [lia|]. cbn [arange_raw_loop].
  destruct bs as [|b0 bs0]; [split; discriminate|]. set (bs := b0 :: bs0) in *.
  rewrite chk_mul_ok by (change (2 ^ 8) with 256; unfold valid_asz in Hv; lia).
  destruct (blen bs <? 2 * asz); [split; discriminate|].
  pose proof (post_read_address asz be bs) as P1.
  destruct (read_address asz be bs) as [[begin r]| e | |]; cbn in P1; try contradiction; try (split; discriminate).
  pose proof (post_read_address asz be r) as P2.
  destruct (read_address asz be r) as [[len r']| e | |]; cbn in P2; try contradiction; try (split; discriminate).
  assert (Hl : (length r' < fuel)%nat).
  { unfold valid_asz in Hv. destruct P1 as [P1|P1]; [|lia]. destruct P2 as [P2|P2]; [|lia].
    unfold bs in *. cbn [length] in *. lia. }
  destruct ((begin =? 0) && (len =? 0)); [apply IH; exact Hl|].
  specialize (IH r' Hl). destruct (arange_raw_loop dbg be fuel asz r') as [es st].
  unfold run_cons. cbn [snd]. exact IH.
Qed.

(* headers of ANY section shorter than 2^64 bytes: iteration ends without panic, every header has a
   validated address size, and the entries of every header iterate without panic *)
Lemma arange_headers_loop_total dbg be total : total < 2 ^ 64 -> forall fuel bs offset,
  (length bs < fuel)%nat -> offset + blen bs = total ->
  let '(hs, st) := arange_headers_loop dbg be fuel offset bs in
  st <> SPanic /\ st <> SFuel /\ Forall (fun h => valid_asz (ah_addr_size h)) hs.
Proof.
  intros Ht. induction fuel as [|fuel IH]; intros bs offset Hf Ho; [lia|]. cbn [arange_headers_loop].
  destruct bs as [|b0 bs0]; [repeat split; try discriminate; constructor|]. set (bs := b0 :: bs0) in *.
  pose proof (post_arange_header_parse dbg be offset bs) as P.
  destruct (arange_header_parse dbg be offset bs) as [[h rest]| e | |]; cbn in P; try contradiction.
  - destruct P as (Hv & Hl).
    assert (Hb : blen rest <= blen bs) by (unfold bs, blen in *; cbn [length] in *; lia).
    rewrite chk_sub_ok by exact Hb. cbn [bind].
    rewrite chk_add_ok by lia.
    specialize (IH rest (offset + (blen bs - blen rest))).
    destruct (arange_headers_loop dbg be fuel (offset + (blen bs - blen rest)) rest) as [hs st].
    unfold run_cons. cbn [fst snd].
    destruct IH as (H1 & H2 & H3); [unfold bs in *; cbn [length] in *; lia|unfold bs, blen in *; cbn [length] in *; lia|].
    repeat split; try assumption. constructor; assumption.
  - repeat split; try discriminate. constructor.
Qed.

Theorem arange_headers_total dbg be bs :
  blen bs < 2 ^ 64 ->
  let '(hs, st) := arange_headers dbg be bs in
  st <> SPanic /\ st <> SFuel /\
  Forall (fun h => snd (arange_entries dbg be h) <> SPanic /\ snd (arange_entries dbg be h) <> SFuel /\
                   snd (arange_raw_entries dbg be h) <> SPanic /\ snd (arange_raw_entries dbg be h) <> SFuel) hs.
Proof.
  intros Hb. unfold arange_headers.
  pose proof (arange_headers_loop_total dbg be (blen bs) Hb (S (length bs)) bs 0 ltac:(lia) ltac:(lia)) as T.
  destruct (arange_headers_loop dbg be (S (length bs)) 0 bs) as [hs st].
  destruct T as (T1 & T2 & T3). repeat split; try assumption.
  eapply Forall_impl; [|exact T3]. intros h Hv. cbv beta in Hv |- *.
  unfold arange_entries, arange_raw_entries.
  pose proof (arange_entries_loop_total dbg be (ah_addr_size h) Hv (S (length (ah_entries h))) (ah_entries h) ltac:(lia)) as E1.
  pose proof (arange_raw_loop_total dbg be (ah_addr_size h) Hv (S (length (ah_entries h))) (ah_entries h) ltac:(lia)) as E2.
  destruct (arange_entries_loop dbg be (S (length (ah_entries h))) (ah_addr_size h) (ah_entries h)) as [es st1].
  destruct (arange_raw_loop dbg be (S (length (ah_entries h))) (ah_addr_size h) (ah_entries h)) as [rs st2].
  cbn in E1, E2. cbn [snd]. tauto.
Qed.

Theorem arange_header_at_total dbg be off bs : post (fun h => valid_asz (ah_addr_size h)) (arange_header_at dbg be off bs).
Proof.
  unfold arange_header_at. eapply post_bind; [apply post_rd_skip|]. intros r _ _.
  eapply post_bind; [apply post_arange_header_parse|]. intros [h rest] _ (Hv & _). exact Hv.
Qed.

(* ------------------------------------------------------------------ encoded sets *)

Lemma arange_padding_spec f64 s : valid_asz s ->
  (arange_header_len f64 + arange_padding f64 s) mod (2 * s) = 0 /\ arange_padding f64 s < 2 * s.
Proof. intros [->|[->|[->| ->]]]; destruct f64; vm_compute; split; reflexivity. Qed.

Lemma read_address_enc s be v rest : valid_asz s -> v < 2 ^ (8 * s) ->
  read_address s be (enc_un (N.to_nat s) be v ++ rest) = Ok (v, rest).
Proof.
  intros [->|[->|[->| ->]]] Hv; unfold read_address; cbn [N.eqb Pos.eqb];
    apply read_un_enc_small; exact Hv.
Qed.

Definition arange_desc_wf (d : arange_desc) : Prop :=
  valid_asz (a_addr_size d) /\ a_seg_size d = 0 /\ (a_version d = 2 \/ a_version d = 3) /\
  a_info_offset d < (if a_fmt64 d then 2 ^ 64 else 2 ^ 32).

Theorem arange_header_encoded dbg be off d rest :
  arange_desc_wf d ->
  blen (enc_arange_body be d) < (if a_fmt64 d then 2 ^ 64 else 4294967280) ->
  arange_header_parse dbg be off (enc_arange_set be d ++ rest) =
    Ok ({| ah_offset := off; ah_length := blen (enc_arange_body be d); ah_fmt64 := a_fmt64 d;
           ah_version := a_version d; ah_info_offset := a_info_offset d; ah_addr_size := a_addr_size d;
           ah_entries := concat (map (enc_tuple (a_addr_size d) be) (a_tuples d)) ++ a_tail d |}, rest).
Proof.
  intros (Hv & Hseg & Hver & Hinfo) Hlen. unfold arange_header_parse, enc_arange_set. cbv zeta.
  change (N.of_nat (length (enc_arange_body be d))) with (blen (enc_arange_body be d)).
  set (L := blen (enc_arange_body be d)) in *.
  rewrite <- app_assoc. rewrite read_initial_length_enc by exact Hlen. cbn [bind].
  rewrite rd_split_app_n by reflexivity. cbn [bind].
  unfold enc_arange_body. rewrite <- ?app_assoc.
  rewrite read_un_enc_small by (change (8 * N.of_nat 2) with 16; change (2 ^ 16) with 65536; lia). cbn [bind].
  assert (Ev : negb (a_version d =? 2) && negb (a_version d =? 3) = false) by lia.
  rewrite Ev. rewrite read_word_enc by exact Hinfo. cbn [bind].
  assert (Hs256 : a_addr_size d < 256) by (unfold valid_asz in Hv; lia).
  cbn [app]. unfold read_address_size. cbn [read_u8 bind]. rewrite b2n_n2b_small by exact Hs256.
  assert (Eok : (a_addr_size d =? 1) || (a_addr_size d =? 2) || (a_addr_size d =? 4) || (a_addr_size d =? 8) = true)
    by (unfold valid_asz in Hv; lia).
  rewrite Eok. cbn [read_u8 bind]. rewrite Hseg. change (b2n (n2b 0)) with 0. change (negb (0 =? 0)) with false. cbv iota.
  replace (chk_add 8 dbg (if a_fmt64 d then 12 else 4) 2) with (Ok (if a_fmt64 d then 14 else 6) : res N)
    by (destruct (a_fmt64 d), dbg; reflexivity). cbn [bind].
  replace (chk_add 8 dbg (if a_fmt64 d then 14 else 6) (word_size (a_fmt64 d))) with (Ok (if a_fmt64 d then 22 else 10) : res N)
    by (destruct (a_fmt64 d), dbg; reflexivity). cbn [bind].
  replace (chk_add 8 dbg (if a_fmt64 d then 22 else 10) 1) with (Ok (if a_fmt64 d then 23 else 11) : res N)
    by (destruct (a_fmt64 d), dbg; reflexivity). cbn [bind].
  replace (chk_add 8 dbg (if a_fmt64 d then 23 else 11) 1) with (Ok (arange_header_len (a_fmt64 d)) : res N)
    by (destruct (a_fmt64 d), dbg; reflexivity). cbn [bind].
  destruct (256 <=? a_addr_size d * 2) eqn:E1; [unfold valid_asz in Hv; lia|].
  destruct (a_addr_size d * 2 =? 0) eqn:E2; [unfold valid_asz in Hv; lia|].
  assert (Hpad : (if arange_header_len (a_fmt64 d) mod (a_addr_size d * 2) =? 0 then Ok 0
                  else chk_sub 8 dbg (a_addr_size d * 2) (arange_header_len (a_fmt64 d) mod (a_addr_size d * 2)))
                 = Ok (arange_padding (a_fmt64 d) (a_addr_size d))).
  { destruct Hv as [->|[->|[->| ->]]]; destruct (a_fmt64 d), dbg; reflexivity. }
  rewrite Hpad. cbn [bind].
  rewrite rd_skip_app_n by (rewrite blen_repeat, N2Nat.id; reflexivity). cbn [bind].
  reflexivity.
Qed.

Lemma entries_loop_unfold dbg be f s bs : valid_asz s ->
  arange_entries_loop dbg be (S f) s bs =
    if blen bs <? 2 * s then ([], SDone) else
    match read_address s be bs with
    | Ok (begin, r) =>
        match read_address s be r with
        | Ok (len, r') =>
            if (begin =? 0) && (len =? 0) then arange_entries_loop dbg be f s r'
            else if tombstone_min s <=? begin then arange_entries_loop dbg be f s r'
            else if two64 <=? begin + len then ([], SErr EAddressOverflow)
            else if 2 ^ (8 * s) - 1 <? begin + len then ([], SErr EAddressOverflow)
            else run_cons (begin, len, begin + len) (arange_entries_loop dbg be f s r')
        | r => ([], stop_of_res r)
        end
    | r => ([], stop_of_res r)
    end.
Proof.
  intros Hv. cbn [arange_entries_loop].
  assert (Hm : chk_mul 8 dbg 2 s = Ok (2 * s))
    by (apply chk_mul_ok; change (2 ^ 8) with 256; unfold valid_asz in Hv; lia).
  destruct bs as [|b0 bs0].
  - assert (E : blen [] <? 2 * s = true) by (unfold blen; cbn [length]; unfold valid_asz in Hv; lia).
    rewrite E. reflexivity.
  - rewrite Hm, (ones_sized_valid dbg s Hv), (tombstone_valid s Hv). reflexivity.
Qed.

Definition stop_of_err (e : option error) : stop := match e with None => SDone | Some e => SErr e end.

Lemma enc_tuple_length s be t : length (enc_tuple s be t) = (2 * N.to_nat s)%nat.
Proof. unfold enc_tuple. rewrite app_length, !enc_un_length. lia. Qed.

Theorem arange_entries_encoded dbg be s tail : valid_asz s -> blen tail < 2 * s ->
  forall ts fuel,
  Forall (fun t => fst t < 2 ^ (8 * s) /\ snd t < 2 ^ (8 * s)) ts ->
  (length ts < fuel)%nat ->
  arange_entries_loop dbg be fuel s (concat (map (enc_tuple s be) ts) ++ tail)
  = (fst (arange_meaning s ts), stop_of_err (snd (arange_meaning s ts))).
Proof.
  intros Hv Htail. induction ts as [|[b l] ts IH]; intros fuel F Hf.
  - destruct fuel as [|fuel]; [lia|]. rewrite entries_loop_unfold by exact Hv. cbn [map concat app].
    destruct (blen tail <? 2 * s) eqn:E; [reflexivity|lia].
  - destruct fuel as [|fuel]; [cbn in Hf; lia|]. rewrite entries_loop_unfold by exact Hv.
    inversion F as [|? ? (Hb & Hl) F']; subst. cbn [fst snd] in Hb, Hl.
    cbn [map concat]. rewrite <- app_assoc.
    assert (Hlen : blen (enc_tuple s be (b, l) ++ concat (map (enc_tuple s be) ts) ++ tail) <? 2 * s = false).
    { rewrite blen_app. unfold blen at 1. rewrite enc_tuple_length. lia. }
    rewrite Hlen. unfold enc_tuple at 1. cbn [fst snd]. rewrite <- app_assoc.
    rewrite read_address_enc by assumption. rewrite read_address_enc by assumption.
    cbn [arange_meaning]. cbn [length] in Hf.
    destruct ((b =? 0) && (l =? 0)); [apply IH; [exact F'|lia]|].
    destruct (tombstone_min s <=? b); [apply IH; [exact F'|lia]|].
    assert (Hp : 2 ^ (8 * s) <= two64).
    { change two64 with (2 ^ 64). apply N.pow_le_mono_r; [discriminate|]. unfold valid_asz in Hv. lia. }
    pose proof (pow_pos_N (8 * s)) as Hpos.
    destruct (2 ^ (8 * s) <=? b + l) eqn:Eo.
    + destruct (two64 <=? b + l); [reflexivity|].
      destruct (2 ^ (8 * s) - 1 <? b + l) eqn:E2; [reflexivity|lia].
    + destruct (two64 <=? b + l) eqn:E1; [lia|].
      destruct (2 ^ (8 * s) - 1 <? b + l) eqn:E2; [lia|].
      rewrite (IH fuel F') by lia.
      destruct (arange_meaning s ts) as [es e]. reflexivity.
Qed.

(* ------------------------------------------------------------------ pubnames / pubtypes: any bytes *)

Lemma post_read_cstr : forall bs, post (fun p => (length (snd p) < length bs)%nat) (read_cstr bs).
Proof.
  induction bs as [|b r IH]; [exact I|]. cbn [read_cstr].
  destruct (b2n b =? 0); [cbn; lia|].
  eapply post_bind; [exact IH|]. intros [s t] _ Hl. cbn in *. lia.
Qed.

Lemma post_pub_header_parse be bs :
  post (fun p => (length (fst (fst p)) + length (snd p) < length bs)%nat) (pub_header_parse be bs).
Proof.
  unfold pub_header_parse.
  eapply post_bind; [apply post_read_initial_length|]. intros [[len f64] r] _ (_ & Hl0). cbn [fst snd] in *.
  eapply post_bind; [apply post_rd_split|]. intros [rest after] _ (Hrest & Hafter & Hle). cbn [fst snd] in *.
  assert (Hsum : (length rest + length after = length r)%nat).
  { subst rest after. rewrite firstn_length, skipn_length. unfold blen in Hle. lia. }
  eapply post_bind; [apply post_read_un|]. intros [version r1] _ (_ & Hr1 & Hl1). cbn [fst snd] in *.
  destruct (negb (version =? 2)); [exact I|].
  eapply post_bind; [apply post_read_word|]. intros [uoff r2] _ (_ & Hl2). cbn [fst snd] in *.
  eapply post_bind; [apply post_read_word|]. intros [ulen r3] _ (_ & Hl3). cbn [fst snd] in *.
  cbn. subst r1. rewrite skipn_length in Hl2. lia.
Qed.

Lemma post_pub_entry_parse be h bs :
  post (fun p => match fst p with Some _ => (length (snd p) < length bs)%nat | None => True end)
       (pub_entry_parse be h bs).
Proof.
  unfold pub_entry_parse.
  eapply post_bind; [apply post_read_word|]. intros [off r] _ (_ & Hl). cbn [fst snd] in *.
  destruct (off =? 0); [exact I|].
  eapply post_bind; [apply post_read_cstr|]. intros [name r'] _ Hl2. cbn in *. lia.
Qed.

Definition pub_measure (cur : option (list byte * pub_header)) (rem : list byte) : nat :=
  (match cur with Some (i, _) => length i | None => O end + length rem)%nat.

Lemma pub_loop_total be : forall fuel cur rem,
  (pub_measure cur rem < fuel)%nat ->
  let '(es, st) := pub_loop be fuel cur rem in st <> SPanic /\ st <> SFuel.
Proof.
  induction fuel as [|fuel IH]; intros cur rem Hm; [lia|]. cbn [pub_loop].
  assert (Hnext : let '(es, st) :=
            match rem with
            | [] => ([], SDone)
            | _ :: _ =>
                match pub_header_parse be rem with
                | Ok (set, h, rest) => pub_loop be fuel (Some (set, h)) rest
                | r => ([], stop_of_res r)
                end
            end in st <> SPanic /\ st <> SFuel).
  { destruct rem as [|b0 rem0]; [split; discriminate|]. set (rem' := b0 :: rem0) in *.
    pose proof (post_pub_header_parse be rem') as P.
    destruct (pub_header_parse be rem') as [[[set h] rest]| e | |]; cbn in P; try contradiction; try (split; discriminate).
    apply IH. unfold pub_measure in *. destruct cur as [[i hh]|]; unfold rem' in *; cbn [length] in *; lia. }
  destruct cur as [[[|b inp] h]|]; try exact Hnext.
  pose proof (post_pub_entry_parse be h (b :: inp)) as P.
  destruct (pub_entry_parse be h (b :: inp)) as [[[e|] r]| err | |]; cbn in P; try contradiction;
    try exact Hnext; try (split; discriminate).
  specialize (IH (Some (r, h)) rem). destruct (pub_loop be fuel (Some (r, h)) rem) as [es st].
  unfold run_cons. cbn [snd]. apply IH. unfold pub_measure in *. cbn [length] in *. lia.
Qed.

Theorem pub_items_total be bs :
  let '(es, st) := pub_items be bs in st <> SPanic /\ st <> SFuel.
Proof. unfold pub_items. apply pub_loop_total. unfold pub_measure. lia. Qed.

(* ------------------------------------------------------------------ pubnames / pubtypes: encoded sets *)

Definition pub_next (be : bool) (f : nat) (rem : list byte) : run pub_entry :=
  match rem with
  | [] => ([], SDone)
  | _ => match pub_header_parse be rem with
         | Ok (set, h, rest) => pub_loop be f (Some (set, h)) rest
         | r => ([], stop_of_res r)
         end
  end.

Lemma pub_loop_next be f cur rem :
  pub_loop be (S f) cur rem =
    match cur with
    | Some (b :: inp, h) =>
        match pub_entry_parse be h (b :: inp) with
        | Ok (Some e, r) => run_cons e (pub_loop be f (Some (r, h)) rem)
        | Ok (None, _) => pub_next be f rem
        | r => ([], stop_of_res r)
        end
    | _ => pub_next be f rem
    end.
Proof. reflexivity. Qed.

Definition no_nul (s : list byte) : Prop := Forall (fun b => b2n b <> 0) s.

Lemma read_cstr_enc s rest : no_nul s -> read_cstr (s ++ x00 :: rest) = Ok (s, rest).
Proof.
  induction 1 as [|b s Hb Hs IH]; [reflexivity|]. cbn [app read_cstr].
  destruct (b2n b =? 0) eqn:E; [lia|]. rewrite IH. reflexivity.
Qed.

Definition pub_header_of (d : pub_desc) (body_len : N) : pub_header :=
  {| ph_fmt64 := p_fmt64 d; ph_length := body_len; ph_version := p_version d;
     ph_unit_offset := p_unit_offset d; ph_unit_length := p_unit_length d |}.
Definition pub_entry_of (d : pub_desc) (e : N * list byte) : pub_entry :=
  {| pe_die_offset := fst e; pe_name := snd e; pe_unit_offset := p_unit_offset d |}.

Definition word_bound (fmt64 : bool) : N := if fmt64 then 2 ^ 64 else 2 ^ 32.

Definition pub_desc_wf (be : bool) (d : pub_desc) : Prop :=
  p_version d = 2 /\ p_unit_offset d < word_bound (p_fmt64 d) /\ p_unit_length d < word_bound (p_fmt64 d) /\
  Forall (fun e => fst e <> 0 /\ fst e < word_bound (p_fmt64 d) /\ no_nul (snd e)) (p_entries d) /\
  (p_tail d = [] \/ exists junk, p_tail d = enc_word (p_fmt64 d) be 0 ++ junk) /\
  blen (enc_pub_body be d) < (if p_fmt64 d then 2 ^ 64 else 4294967280).

Lemma pub_header_encoded be d rest :
  pub_desc_wf be d ->
  pub_header_parse be (enc_pub_set be d ++ rest) =
    Ok (concat (map (enc_pub_entry (p_fmt64 d) be) (p_entries d)) ++ p_tail d,
        pub_header_of d (blen (enc_pub_body be d)), rest).
Proof.
  intros (Hver & Huo & Hul & _ & _ & Hlen). unfold pub_header_parse, enc_pub_set. cbv zeta.
  change (N.of_nat (length (enc_pub_body be d))) with (blen (enc_pub_body be d)).
  set (L := blen (enc_pub_body be d)) in *.
  rewrite <- app_assoc. rewrite read_initial_length_enc by exact Hlen. cbn [bind].
  rewrite rd_split_app_n by reflexivity. cbn [bind].
  unfold enc_pub_body. rewrite Hver.
  rewrite read_un_enc_small by (change (8 * N.of_nat 2) with 16; reflexivity). cbn [bind].
  change (negb (2 =? 2)) with false. cbv iota.
  rewrite read_word_enc by exact Huo. cbn [bind].
  rewrite read_word_enc by exact Hul. cbn [bind].
  unfold pub_header_of. rewrite Hver. reflexivity.
Qed.

Fixpoint run_app {A} (l : list A) (r : run A) : run A :=
  match l with [] => r | a :: l' => run_cons a (run_app l' r) end.

Lemma pub_entries_run be d (h : pub_header) tail rem f :
  ph_fmt64 h = p_fmt64 d -> ph_unit_offset h = p_unit_offset d ->
  forall es,
  Forall (fun e => fst e <> 0 /\ fst e < word_bound (p_fmt64 d) /\ no_nul (snd e)) es ->
  pub_loop be (length es + f) (Some (concat (map (enc_pub_entry (p_fmt64 d) be) es) ++ tail, h)) rem
  = run_app (map (pub_entry_of d) es) (pub_loop be f (Some (tail, h)) rem).
Proof.
  intros Hf Hu. induction es as [|[o nm] es IH]; intros F; [reflexivity|].
  inversion F as [|? ? (Ho & Hob & Hn) F']; subst. cbn [fst snd] in *.
  cbn [length Nat.add]. rewrite pub_loop_next. cbn [map concat]. rewrite <- app_assoc.
  unfold enc_pub_entry at 1. cbn [fst snd]. rewrite <- !app_assoc.
  destruct (enc_word (p_fmt64 d) be o ++ nm ++ [x00] ++ concat (map (enc_pub_entry (p_fmt64 d) be) es) ++ tail)
    as [|b0 l0] eqn:El.
  { exfalso. apply (f_equal (@length byte)) in El. rewrite app_length in El. unfold enc_word in El.
    destruct (p_fmt64 d); rewrite enc_un_length in El; cbn in El; lia. }
  rewrite <- El. clear El b0 l0.
  unfold pub_entry_parse. rewrite Hf, read_word_enc by exact Hob. cbn [bind].
  destruct (o =? 0) eqn:E0; [lia|].
  cbn [app]. rewrite read_cstr_enc by exact Hn. cbn [bind].
  rewrite (IH F'). cbn [run_app map]. unfold pub_entry_of at 2. cbn [fst snd]. rewrite Hu. reflexivity.
Qed.

(* a finished set: nothing left, or a zero offset (whatever follows it) *)
Lemma pub_tail_done be d (h : pub_header) rem f :
  ph_fmt64 h = p_fmt64 d ->
  (p_tail d = [] \/ exists junk, p_tail d = enc_word (p_fmt64 d) be 0 ++ junk) ->
  pub_loop be (S f) (Some (p_tail d, h)) rem = pub_next be f rem.
Proof.
  intros Hf [->|(junk & ->)]; [reflexivity|]. rewrite pub_loop_next.
  destruct (enc_word (p_fmt64 d) be 0 ++ junk) as [|b0 l0] eqn:El.
  { reflexivity. }
  rewrite <- El. unfold pub_entry_parse. rewrite Hf, read_word_enc by (destruct (p_fmt64 d); reflexivity).
  reflexivity.
Qed.

Fixpoint pub_cost (ds : list pub_desc) : nat :=
  match ds with [] => O | d :: r => (S (length (p_entries d)) + pub_cost r)%nat end.

Lemma enc_pub_set_nonempty be d rest : exists b l, enc_pub_set be d ++ rest = b :: l.
Proof.
  unfold enc_pub_set, enc_initial_length. cbv zeta.
  destruct (p_fmt64 d).
  - generalize (enc_un_length 4 be 4294967295). destruct (enc_un 4 be 4294967295) as [|b l]; cbn; [lia|]. eauto.
  - generalize (enc_un_length 4 be (N.of_nat (length (enc_pub_body be d)))).
    destruct (enc_un 4 be _) as [|b l]; cbn; [lia|]. eauto.
Qed.

Theorem pub_sets_encoded be : forall ds f,
  Forall (pub_desc_wf be) ds ->
  pub_next be (pub_cost ds + f) (concat (map (enc_pub_set be) ds))
  = (concat (map (fun d => map (pub_entry_of d) (p_entries d)) ds), SDone).
Proof.
  induction ds as [|d ds IH]; intros f F; [reflexivity|].
  inversion F as [|? ? Hd F']; subst. cbn [map concat pub_cost].
  unfold pub_next.
  destruct (enc_pub_set_nonempty be d (concat (map (enc_pub_set be) ds))) as (b0 & l0 & El).
  rewrite El. rewrite <- El. clear El b0 l0.
  rewrite (pub_header_encoded be d _ Hd).
  destruct Hd as (Hver & Huo & Hul & Hes & Htail & Hlen).
  replace (S (length (p_entries d)) + pub_cost ds + f)%nat
    with (length (p_entries d) + S (pub_cost ds + f))%nat by lia.
  rewrite (pub_entries_run be d (pub_header_of d (blen (enc_pub_body be d))) (p_tail d) _ _ eq_refl eq_refl _ Hes).
  rewrite (pub_tail_done be d (pub_header_of d (blen (enc_pub_body be d))) _ _ eq_refl Htail).
  rewrite (IH f F').
  generalize (map (pub_entry_of d) (p_entries d)). intros l.
  induction l as [|a l IHl]; [reflexivity|]. cbn [run_app app]. rewrite IHl. reflexivity.
Qed.

Lemma enc_pub_set_cost be d : (S (length (p_entries d)) <= length (enc_pub_set be d))%nat.
Proof.
  unfold enc_pub_set, enc_pub_body. cbv zeta. rewrite !app_length.
  assert (H : (length (p_entries d) <= length (concat (map (enc_pub_entry (p_fmt64 d) be) (p_entries d))))%nat).
  { induction (p_entries d) as [|e es IHe]; [cbn; lia|]. cbn [map concat length]. rewrite app_length.
    unfold enc_pub_entry at 1. rewrite !app_length. cbn [length]. lia. }
  pose proof (enc_un_length 2 be (p_version d)).
  lia.
Qed.

Lemma pub_cost_le be ds : (pub_cost ds <= length (concat (map (enc_pub_set be) ds)))%nat.
Proof.
  induction ds as [|d ds IH]; [cbn; lia|]. cbn [map concat pub_cost].
  rewrite app_length. pose proof (enc_pub_set_cost be d). lia.
Qed.

Theorem pub_items_encoded be ds :
  Forall (pub_desc_wf be) ds ->
  pub_items be (concat (map (enc_pub_set be) ds))
  = (concat (map (fun d => map (pub_entry_of d) (p_entries d)) ds), SDone).
Proof.
  intros F. unfold pub_items.
  set (bs := concat (map (enc_pub_set be) ds)).
  assert (Hc : (pub_cost ds <= length bs)%nat) by apply pub_cost_le.
  rewrite pub_loop_next.
  replace (S (length bs)) with (pub_cost ds + (S (length bs) - pub_cost ds))%nat by lia.
  apply pub_sets_encoded. exact F.
Qed.
