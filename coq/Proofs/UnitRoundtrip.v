(* Proofs/UnitRoundtrip.v — C11 composed with the reader models of C02/C03:
   what Model/UnitWr.v writes is read back by Model/Attr.v (attributes), Model/AbbrevRd.v (abbreviation
   tables) and Model/DieRd.v (raw entry reader) as the tree that was written. *)
From Coq Require Import List NArith ZArith Bool Lia ZifyBool ZifyN ZifyNat.
From Coq.Strings Require Import Byte.
Require Import GV.Base.Res GV.Base.Byt GV.Base.Ints GV.Spec.LebSpec GV.Model.Leb GV.Model.Prim.
Require Import GV.Spec.UnitWrSpec GV.Model.UnitWr GV.Proofs.UnitWrProofs.
Require GV.Spec.FormSpec GV.Model.Attr GV.Spec.Forest GV.Model.AbbrevRd GV.Model.DieRd.
Require GV.Proofs.AttrProofs GV.Proofs.AbbrevRdProofs GV.Proofs.DieRdProofs.
Import ListNotations.
Local Open Scope N_scope.
Local Arguments N.add : simpl never.
Local Arguments N.sub : simpl never.
Local Arguments N.mul : simpl never.
Local Arguments N.shiftl : simpl never.
Local Arguments N.shiftr : simpl never.
Local Arguments N.land : simpl never.
Local Arguments N.lor : simpl never.
Local Arguments N.pow : simpl never.
Local Arguments N.modulo : simpl never.
Local Arguments N.div : simpl never.
Local Arguments N.of_nat : simpl never.
Local Arguments N.to_nat : simpl never.

Module FS := GV.Spec.FormSpec.
Module FO := GV.Spec.Forest.
Module AT := GV.Model.Attr.
Module AR := GV.Model.AbbrevRd.
Module DR := GV.Model.DieRd.

(* ------------------------------------------------------------------ the writers emit the spec encodings *)

Lemma n2b_mod x : n2b (x mod 256) = n2b x.
Proof. unfold n2b. now rewrite N.mod_mod by discriminate. Qed.

Lemma le_bytes_le_enc n : forall v, le_bytes n v = FS.le_enc n v.
Proof. induction n as [|n IH]; intros v; cbn [le_bytes FS.le_enc]; [reflexivity|]. now rewrite n2b_mod, IH. Qed.

Lemma enc_un_enc_fixed n be v : enc_un n be v = FS.enc_fixed n be v.
Proof. unfold enc_un, be_bytes, FS.enc_fixed. now rewrite le_bytes_le_enc. Qed.

Lemma write_uleb_fuel_enc : forall f1 f2 v bs,
  write_uleb_fuel f1 v = Ok bs -> v < 2 ^ (7 * N.of_nat f2) -> (0 < f2)%nat -> bs = enc_uleb_fuel f2 v.
Proof.
  induction f1 as [|f1 IH]; intros f2 v bs H B P; cbn [write_uleb_fuel] in H; [discriminate|].
  rewrite low7_land255, shiftr7_div in H. unfold CONT in H.
  destruct f2 as [|f2]; [lia|]. cbn [enc_uleb_fuel].
  assert (Hx : v mod 128 < 128) by (apply N.mod_lt; discriminate).
  assert (Hv := N.div_mod v 128 ltac:(discriminate)).
  destruct (v / 128 =? 0) eqn:E.
  - apply N.eqb_eq in E. injection H as <-.
    replace (v <? 128) with true by (symmetry; apply N.ltb_lt; lia). f_equal. f_equal. lia.
  - apply N.eqb_neq in E. apply bind_ok_inv in H. destruct H as [r [Er H]]. injection H as <-.
    replace (v <? 128) with false by (symmetry; apply N.ltb_ge; lia).
    assert (Sw := sweep_lt 128 (fun x => b2n (n2b (N.lor x 128)) =? b2n (n2b (128 + x)))).
    specialize (Sw ltac:(vm_compute; reflexivity) _ Hx). cbv beta in Sw. apply N.eqb_eq in Sw. apply b2n_inj in Sw.
    rewrite Sw. f_equal.
    assert (Hf2 : (0 < f2)%nat).
    { destruct f2; [|lia]. exfalso. change (7 * N.of_nat 1) with 7 in B. change (2 ^ 7) with 128 in B. lia. }
    apply IH; [exact Er| |exact Hf2].
    replace (7 * N.of_nat (S f2)) with (7 + 7 * N.of_nat f2) in B by lia. rewrite N.pow_add_r in B.
    change (2 ^ 7) with 128 in B. apply N.div_lt_upper_bound; [discriminate|lia].
Qed.

Lemma write_uleb128_enc v bs : write_uleb128 v = Ok bs -> v < 2 ^ 64 -> bs = enc_uleb v.
Proof.
  intros H B. eapply write_uleb_fuel_enc; [exact H| |lia].
  eapply N.lt_le_trans; [exact B|]. apply N.pow_le_mono_r; [discriminate|]. cbn. lia.
Qed.

Lemma write_sleb_fuel_enc : forall f z bs, write_sleb_fuel f z = Ok bs -> bs = FS.enc_sleb_fuel f z.
Proof.
  induction f as [|f IH]; intros z bs H; cbn [write_sleb_fuel] in H; [discriminate|]. cbv zeta in H.
  cbn [FS.enc_sleb_fuel].
  assert (Hb : Z.to_N (z mod 256) < 256).
  { assert (H1 := Z.mod_pos_bound z 256 ltac:(lia)). lia. }
  assert (E6 : ((Z.shiftr z 6 =? 0)%Z || (Z.shiftr z 6 =? -1)%Z) = ((-64 <=? z) && (z <? 64))%Z).
  { rewrite Z.shiftr_div_pow2 by lia. change (2 ^ 6)%Z with 64%Z.
    assert (H0 := Z.div_mod z 64 ltac:(lia)). assert (H1 := Z.mod_pos_bound z 64 ltac:(lia)).
    destruct ((z / 64 =? 0)%Z || (z / 64 =? -1)%Z) eqn:A; destruct ((-64 <=? z) && (z <? 64))%Z eqn:B; try reflexivity; exfalso; lia. }
  rewrite E6 in H. destruct ((-64 <=? z) && (z <? 64))%Z.
  - injection H as <-. rewrite land127_mod, z_mod256_low. reflexivity.
  - apply bind_ok_inv in H. destruct H as [r [Er H]]. injection H as <-. rewrite shiftr7_z in Er.
    rewrite (IH _ _ Er). f_equal. unfold CONT.
    assert (Sw := sweep_lt 256 (fun y => b2n (n2b (N.lor y 128)) =? b2n (n2b (128 + y mod 128)))).
    specialize (Sw ltac:(vm_compute; reflexivity) _ Hb). cbv beta in Sw. apply N.eqb_eq in Sw. apply b2n_inj in Sw.
    rewrite Sw, z_mod256_low. reflexivity.
Qed.

Lemma write_sleb128_enc z bs : write_sleb128 z = Ok bs -> bs = FS.enc_sleb z.
Proof. apply write_sleb_fuel_enc. Qed.

Lemma write_udata_enc be v size b : write_udata be v size = Ok b -> v < 2 ^ 64 ->
  b = FS.enc_fixed (N.to_nat size) be v /\ v < 2 ^ (8 * size) /\ valid_size size = true.
Proof.
  unfold write_udata, valid_size. intros H B.
  destruct (size =? 1) eqn:E1.
  { apply N.eqb_eq in E1. subst. destruct (v <? 256) eqn:L; [|discriminate]. injection H as <-.
    apply N.ltb_lt in L. rewrite enc_un_enc_fixed. repeat split. exact L. }
  destruct (size =? 2) eqn:E2.
  { apply N.eqb_eq in E2. subst. destruct (v <? two16) eqn:L; [|discriminate]. injection H as <-.
    apply N.ltb_lt in L. rewrite enc_un_enc_fixed. repeat split. exact L. }
  destruct (size =? 4) eqn:E4.
  { apply N.eqb_eq in E4. subst. destruct (v <? two32) eqn:L; [|discriminate]. injection H as <-.
    apply N.ltb_lt in L. rewrite enc_un_enc_fixed. repeat split. exact L. }
  destruct (size =? 8) eqn:E8; [|discriminate].
  apply N.eqb_eq in E8. subst. injection H as <-. rewrite enc_un_enc_fixed. repeat split. exact B.
Qed.

(* ------------------------------------------------------------------ (b) the abbreviation table *)

Definition rspec (s : aspec) : AT.aspec := AT.mkSpec (as_name s) (as_form s) (as_ic s).
Definition rabbrev (code : N) (a : abbrev) : FO.abbrev :=
  FO.mkAbbrev code (ab_tag a) (ab_children a) (map rspec (ab_attrs a)).
(* the declarations AbbreviationTable::write emits: table order, codes from `code` upwards *)
Fixpoint rdecls (code : N) (tab : list abbrev) : list FO.abbrev :=
  match tab with [] => [] | a :: r => rabbrev code a :: rdecls (code + 1) r end.

(* field widths of the format: tags, names and forms are u16 and not 0, the implicit constant is an i64
   and only DW_FORM_implicit_const carries one (AttributeSpecification::new guarantees the latter) *)
Definition spec_wf (s : aspec) : Prop :=
  0 < as_name s < two16 /\ 0 < as_form s < two16 /\
  (- 9223372036854775808 <= as_ic s < 9223372036854775808)%Z /\ (as_form s <> 33 -> as_ic s = 0%Z).
Definition abbrev_wf (a : abbrev) : Prop := 0 < ab_tag a < two16 /\ Forall spec_wf (ab_attrs a).

Lemma rspec_ok s : spec_wf s -> FO.spec_ok (rspec s).
Proof. intros H. exact H. Qed.

Lemma rabbrev_ok code a : 0 < code < two64 -> abbrev_wf a -> FO.abbrev_ok (rabbrev code a).
Proof.
  intros Hc [Ht Hs]. unfold FO.abbrev_ok, rabbrev. cbn [FO.ab_code FO.ab_tag FO.ab_specs].
  split; [exact Hc|]. split; [exact Ht|]. apply Forall_map. eapply Forall_impl; [|exact Hs]. intros s. apply rspec_ok.
Qed.

Lemma aspec_write_enc s bs : aspec_write s = Ok bs -> spec_wf s -> bs = FO.enc_spec (rspec s).
Proof.
  unfold aspec_write, FO.enc_spec, rspec. cbn [AT.at_name AT.at_form AT.at_implicit].
  intros H [[_ Hn] [[_ Hf] _]]. unfold two16 in *.
  apply bind_ok_inv in H. destruct H as [n [En H]]. apply bind_ok_inv in H. destruct H as [f [Ef H]].
  apply bind_ok_inv in H. destruct H as [c [Ec H]]. injection H as <-.
  rewrite (write_uleb128_enc _ _ En) by lia. rewrite (write_uleb128_enc _ _ Ef) by lia.
  change DW_FORM_implicit_const with 33 in Ec.
  destruct (as_form s =? 33); [rewrite (write_sleb128_enc _ _ Ec)|injection Ec as <-]; reflexivity.
Qed.

Lemma aspecs_write_enc : forall l bs, aspecs_write l = Ok bs -> Forall spec_wf l ->
  bs = concat (map FO.enc_spec (map rspec l)).
Proof.
  induction l as [|s r IH]; intros bs H W; cbn [aspecs_write] in H.
  - now injection H as <-.
  - apply bind_ok_inv in H. destruct H as [x [Ex H]]. apply bind_ok_inv in H. destruct H as [y [Ey H]].
    injection H as <-. inversion W; subst. cbn [map concat].
    rewrite (aspec_write_enc _ _ Ex) by assumption. now rewrite (IH _ Ey) by assumption.
Qed.

Lemma abbrev_write_enc code a cb bs :
  write_uleb128 code = Ok cb -> code < two64 -> abbrev_write a = Ok bs -> abbrev_wf a ->
  cb ++ bs = FO.enc_abbrev (rabbrev code a).
Proof.
  intros Ec Hc H [[_ Ht] Hs]. unfold abbrev_write in H. unfold two16, two64 in *.
  apply bind_ok_inv in H. destruct H as [t [Et H]]. apply bind_ok_inv in H. destruct H as [s [Es H]].
  injection H as <-. unfold FO.enc_abbrev, rabbrev. cbn [FO.ab_code FO.ab_tag FO.ab_children FO.ab_specs].
  rewrite (write_uleb128_enc _ _ Ec) by lia. rewrite (write_uleb128_enc _ _ Et) by lia.
  rewrite (aspecs_write_enc _ _ Es Hs). reflexivity.
Qed.

Lemma abbrevs_write_from_enc : forall tab code bs,
  abbrevs_write_from code tab = Ok bs -> Forall abbrev_wf tab -> code + N.of_nat (length tab) <= two64 ->
  bs = FO.enc_abbrevs (rdecls code tab).
Proof.
  induction tab as [|a r IH]; intros code bs H W B; cbn [abbrevs_write_from rdecls] in *.
  - now injection H as <-.
  - apply bind_ok_inv in H. destruct H as [c [Ec H]]. apply bind_ok_inv in H. destruct H as [b [Eb H]].
    apply bind_ok_inv in H. destruct H as [rest [Er H]]. injection H as <-.
    inversion W; subst. cbn [length] in B.
    unfold FO.enc_abbrevs, FO.enc_decls. cbn [map concat].
    rewrite <- (abbrev_write_enc code a c b Ec ltac:(lia) Eb) by assumption.
    rewrite (IH _ _ Er) by (try assumption; lia). unfold FO.enc_abbrevs, FO.enc_decls.
    now rewrite <- !app_assoc.
Qed.

Lemma rdecls_nth : forall tab code i a, nth_error tab i = Some a ->
  nth_error (rdecls code tab) i = Some (rabbrev (code + N.of_nat i) a).
Proof.
  induction tab as [|x r IH]; intros code [|i] a H; cbn [nth_error rdecls] in *; try discriminate.
  - injection H as ->. f_equal. f_equal. lia.
  - rewrite (IH _ _ _ H). f_equal. f_equal. lia.
Qed.

Lemma rdecls_in : forall tab code d, In d (rdecls code tab) ->
  exists i a, nth_error tab i = Some a /\ d = rabbrev (code + N.of_nat i) a.
Proof.
  induction tab as [|x r IH]; intros code d H; cbn [rdecls] in H; [destruct H|].
  destruct H as [<-|H].
  - exists O, x. split; [reflexivity|]. f_equal. lia.
  - destruct (IH _ _ H) as [i [a [E ->]]]. exists (S i), a. split; [exact E|]. f_equal. lia.
Qed.

Lemma rdecls_codes_nodup : forall tab code, NoDup (map FO.ab_code (rdecls code tab)).
Proof.
  induction tab as [|x r IH]; intros code; cbn [rdecls map]; [constructor|].
  constructor; [|apply IH]. intros Hin. apply in_map_iff in Hin. destruct Hin as [d [Hc Hd]].
  destruct (rdecls_in _ _ _ Hd) as [i [a [_ ->]]]. cbn [rabbrev FO.ab_code] in Hc. lia.
Qed.

Lemma rdecls_ok : forall tab code, Forall abbrev_wf tab -> 0 < code -> code + N.of_nat (length tab) <= two64 ->
  Forall FO.abbrev_ok (rdecls code tab).
Proof.
  induction tab as [|x r IH]; intros code W P B; cbn [rdecls]; [constructor|].
  inversion W; subst. cbn [length] in B. constructor.
  - apply rabbrev_ok; [lia|assumption].
  - apply IH; [assumption|lia|lia].
Qed.

(* AbbrevRd.parse of the written table: a table whose `get code` is, for every code, the declaration
   AbbreviationTable::write emitted under that code (and nothing else) *)
Theorem abbrevs_read_by_reader_lemma dbg tab bytes rest :
  abbrevs_write tab = Ok bytes -> Forall abbrev_wf tab -> N.of_nat (length tab) < two64 ->
  exists t, AR.parse_abbrevs dbg (bytes ++ rest) = Ok (t, rest) /\
            (forall code a, abbrev_lookup tab code = Some a -> AR.tbl_get t code = Some (rabbrev code a)) /\
            (forall code d, AR.tbl_get t code = Some d ->
               exists a, abbrev_lookup tab code = Some a /\ d = rabbrev code a).
Proof.
  intros H W B. unfold abbrevs_write in H.
  assert (E := abbrevs_write_from_enc _ _ _ H W ltac:(lia)). subst bytes.
  unfold FO.enc_abbrevs. rewrite <- app_assoc. cbn [app].
  destruct (AbbrevRdProofs.abbrev_get_full dbg (rdecls 1 tab) (x00 :: rest) rest) as [t [P [G1 [G2 G3]]]].
  - apply rdecls_ok; [assumption|lia|lia].
  - apply rdecls_codes_nodup.
  - right. reflexivity.
  - exists t. split; [exact P|]. split.
    + intros code a L. unfold abbrev_lookup in L. destruct (code =? 0) eqn:Z; [discriminate|]. apply N.eqb_neq in Z.
      assert (Hn := rdecls_nth tab 1 _ _ L). replace (1 + N.of_nat (N.to_nat (code - 1))) with code in Hn by lia.
      apply nth_error_In in Hn. apply G2 in Hn. exact Hn.
    + intros code d Hg. destruct (G3 _ _ Hg) as [Hin Hc]. destruct (rdecls_in _ _ _ Hin) as [i [a [Ei ->]]].
      cbn [rabbrev FO.ab_code] in Hc. subst code. exists a. split; [|reflexivity].
      unfold abbrev_lookup. replace (1 + N.of_nat i =? 0) with false by (symmetry; apply N.eqb_neq; lia).
      replace (N.to_nat (1 + N.of_nat i - 1)) with i by lia. exact Ei.
Qed.

(* ------------------------------------------------------------------ (a) attribute values *)

Definition renc (cx : wcx) : FS.enc :=
  FS.mkEnc (e_ver (wc_enc cx)) (e_fmt64 (wc_enc cx)) (e_asz (wc_enc cx)) (wc_be cx).

Definition nth0 (l : list N) (i : nat) : N := match nth_error l i with Some o => o | None => 0 end.

(* the DWARF form and the data (in the vocabulary of Spec/FormSpec.v) that AttributeValue::write emits *)
Definition av_fd (cx : wcx) (f : eid -> list byte) (v : aval) : FS.form * FS.raw :=
  let e := wc_enc cx in
  let wform (f4 f8 : FS.form) := if e_fmt64 e then f8 else f4 in
  let secoff := if (e_ver e =? 2) || (e_ver e =? 3) then wform FS.F_data4 FS.F_data8 else FS.F_sec_offset in
  match v with
  | AvAddress (AConst x) => (FS.F_addr, FS.RNum x)
  | AvAddress (ASym _ _) => (FS.F_addr, FS.RNum 0)
  | AvBlock bs => (FS.F_block, FS.RBytes bs)
  | AvData1 x => (FS.F_data1, FS.RNum x) | AvData2 x => (FS.F_data2, FS.RNum x)
  | AvData4 x => (FS.F_data4, FS.RNum x) | AvData8 x => (FS.F_data8, FS.RNum x)
  | AvData16 x => (FS.F_data16, FS.RNum x)
  | AvSdata z => (FS.F_sdata, FS.RInt z)
  | AvUdata x => (FS.F_udata, FS.RNum x)
  | AvImplicitConst z => if 5 <=? e_ver e then (FS.F_implicit_const, FS.RNone) else (FS.F_sdata, FS.RInt z)
  | AvExprloc x => (if 4 <=? e_ver e then FS.F_exprloc else FS.F_block,
                    FS.RBytes (match x_out x with Ok b => b | _ => [] end))
  | AvFlag b => (FS.F_flag, FS.RNum (if b then 1 else 0))
  | AvFlagPresent => if 4 <=? e_ver e then (FS.F_flag_present, FS.RNone) else (FS.F_flag, FS.RNum 1)
  | AvUnitRef id => (wform FS.F_ref4 FS.F_ref8, FS.RNum (fixed_num (wc_be cx) (f id)))
  | AvDebugInfoRef _ => (FS.F_ref_addr, FS.RNum 0)
  | AvDebugInfoRefSup x => (wform FS.F_ref_sup4 FS.F_ref_sup8, FS.RNum x)
  | AvLineProgramRef => (secoff, FS.RNum (match wc_line cx with Some o => o | None => 0 end))
  | AvLocationListRef i => (secoff, FS.RNum (nth0 (wc_loc cx) i))
  | AvDebugMacinfoRef x | AvDebugMacroRef x => (secoff, FS.RNum x)
  | AvRangeListRef i => (secoff, FS.RNum (nth0 (wc_rng cx) i))
  | AvDebugTypesRef x => (FS.F_ref_sig8, FS.RNum x)
  | AvStringRef i => (FS.F_strp, FS.RNum (nth0 (wc_str cx) i))
  | AvDebugStrRefSup x => (FS.F_strp_sup, FS.RNum x)
  | AvLineStringRef i => (FS.F_line_strp, FS.RNum (nth0 (wc_lstr cx) i))
  | AvString bs => (FS.F_string, FS.RBytes bs)
  | AvEncoding x | AvDecimalSign x | AvEndianity x | AvAccessibility x | AvVisibility x | AvVirtuality x
  | AvLanguage x | AvAddressClass x | AvIdentifierCase x | AvCallingConvention x | AvInline x | AvOrdering x =>
      (FS.F_udata, FS.RNum x)
  | AvFileIndex None => (FS.F_udata, FS.RNum 0)
  | AvFileIndex (Some i) => (FS.F_udata, FS.RNum (if wc_lpv cx <=? 4 then i + 1 else i))
  end.

(* payload widths of the Rust types that AttributeValue::write does not check itself *)
Definition av_ranges (cx : wcx) (v : aval) : Prop :=
  match v with
  | AvAddress (AConst x) => x < 2 ^ 64
  | AvData1 x => x < 2 ^ 8 | AvData2 x => x < 2 ^ 16 | AvData4 x => x < 2 ^ 32
  | AvData8 x => x < 2 ^ 64 | AvData16 x => x < 2 ^ 128
  | AvDebugInfoRefSup x | AvDebugMacinfoRef x | AvDebugMacroRef x | AvDebugStrRefSup x | AvDebugTypesRef x => x < 2 ^ 64
  | AvLineProgramRef => match wc_line cx with Some o => o < 2 ^ 64 | None => True end
  | AvLocationListRef i => nth0 (wc_loc cx) i < 2 ^ 64
  | AvRangeListRef i => nth0 (wc_rng cx) i < 2 ^ 64
  | AvStringRef i => nth0 (wc_str cx) i < 2 ^ 64
  | AvLineStringRef i => nth0 (wc_lstr cx) i < 2 ^ 64
  | _ => True
  end.

Lemma le_enc_le_num : forall b, FS.le_enc (length b) (le_num b) = b.
Proof.
  induction b as [|x r IH]; cbn [length FS.le_enc le_num]; [reflexivity|].
  assert (Hx := b2n_lt x).
  set (X := b2n x + 256 * le_num r).
  assert (D := N.div_mod X 256 ltac:(discriminate)). assert (M := N.mod_lt X 256 ltac:(discriminate)).
  assert (E1 : X mod 256 = b2n x) by (unfold X in *; lia).
  assert (E2 : X / 256 = le_num r) by (unfold X in *; lia).
  rewrite E1, E2.
  now rewrite n2b_b2n, IH.
Qed.

Lemma enc_fixed_fixed_num be b : FS.enc_fixed (length b) be (fixed_num be b) = b.
Proof.
  unfold FS.enc_fixed, fixed_num. destruct be; [|apply le_enc_le_num].
  rewrite <- (rev_length b). rewrite le_enc_le_num. apply rev_involutive.
Qed.

Lemma le_num_lt : forall b, le_num b < 2 ^ (8 * N.of_nat (length b)).
Proof.
  induction b as [|x r IH]; cbn [length le_num]; [cbn; lia|].
  assert (Hx := b2n_lt x). replace (8 * N.of_nat (S (length r))) with (8 + 8 * N.of_nat (length r)) by lia.
  rewrite N.pow_add_r. change (2 ^ 8) with 256. lia.
Qed.

Lemma fixed_num_lt be b : fixed_num be b < 2 ^ (8 * N.of_nat (length b)).
Proof. unfold fixed_num. destruct be; [rewrite <- (rev_length b)|]; apply le_num_lt. Qed.

Lemma has_nul_forall bs : has_nul bs = false -> Forall (fun b => b <> x00) bs.
Proof.
  induction bs as [|b r IH]; intros H; [constructor|]. unfold has_nul in H. cbn [existsb] in H.
  apply orb_false_iff in H. destruct H as [H1 H2]. constructor; [|now apply IH].
  intros ->. discriminate.
Qed.

Lemma le_enc_zero : forall k, FS.le_enc k 0 = repeat x00 k.
Proof. induction k as [|k IH]; cbn [FS.le_enc repeat]; [reflexivity|]. change (0 / 256) with 0. now rewrite IH. Qed.

Lemma rev_repeat {A} (x : A) : forall k, rev (repeat x k) = repeat x k.
Proof.
  induction k as [|k IH]; [reflexivity|]. cbn [repeat rev]. rewrite IH. clear.
  induction k as [|k IH]; [reflexivity|]. cbn [repeat app]. now rewrite IH.
Qed.

Lemma zeros_enc_fixed n be : zeros n = FS.enc_fixed (N.to_nat n) be 0.
Proof. unfold zeros, FS.enc_fixed. rewrite le_enc_zero. destruct be; [now rewrite rev_repeat|reflexivity]. Qed.

Definition ic_of (o : option Z) : Z := match o with Some z => z | None => 0%Z end.

Lemma av_resolve dbg cx (f : eid -> list byte) v ops :
  av_write dbg cx v = Ok ops -> av_decodable v -> av_typed cx v -> av_ranges cx v ->
  (forall id, UnitWr.blen (f id) = wsz (wc_enc cx)) ->
  FS.form_code (fst (av_fd cx f v)) = fst (av_form (wc_enc cx) v) /\
  fst (av_fd cx f v) <> FS.F_indirect /\
  (fst (av_fd cx f v) <> FS.F_implicit_const -> snd (av_form (wc_enc cx) v) = None) /\
  FS.enc_layout (FS.form_layout (fst (av_fd cx f v)) (renc cx)) (wc_be cx) (snd (av_fd cx f v)) = Some (ops_resolved f ops) /\
  FS.raw_fits (FS.form_layout (fst (av_fd cx f v)) (renc cx)) (snd (av_fd cx f v)) /\
  (forall name, exists val, FS.form_value (renc cx) name (ic_of (snd (av_form (wc_enc cx) v))) (fst (av_fd cx f v)) (snd (av_fd cx f v)) = Some val).
Proof.
  destruct cx as [e be u uoff ents codes line lstr str rng loc lpv].
  destruct e as [ver fmt asz].
  unfold renc, av_typed, av_ranges, av_decodable, nth0. cbn [wc_enc wc_be wc_line wc_loc wc_rng wc_str wc_lstr wc_lpv e_ver e_fmt64 e_asz].
  intros H X T R Hf.
  destruct v; unfold av_write in H; cbn [wc_enc wc_be wc_line wc_loc wc_rng wc_str wc_lstr wc_lpv] in *;
    unfold av_fd, nth0; cbn [wc_enc wc_be wc_line wc_loc wc_rng wc_str wc_lstr wc_lpv e_ver e_fmt64 e_asz];
    revert H; unfold_asserts; case_ver ver; destruct fmt; asserts; intros H.
  all: try (exfalso; lia).
  all: try match goal with H : match ?a with AConst _ => _ | ASym _ _ => _ end = _ |- _ => destruct a; [|discriminate] end.
  all: try match goal with H : match ?l with Some _ => _ | None => _ end = Ok _ |- _ => destruct l; [|discriminate] end.
  all: try match goal with H : match ?r with DSym _ => _ | DEntry _ _ => _ end = _ |- _ => destruct r; [discriminate|] end.
  all: try match goal with H : (if valid_size ?s then _ else _) = _ |- _ => destruct (valid_size s) eqn:?; [|discriminate] end.
  all: binds.
  all: try match goal with H : Ok _ = Ok _ |- _ => injection H as <- end.
  all: try match goal with |- context [match ?o with Some _ => (FS.F_udata, _) | None => _ end] => destruct o end.
  all: cbn [fst snd ic_of].
  all: split; [reflexivity|].
  all: split; [discriminate|].
  all: split; [try reflexivity; intros Q; exfalso; apply Q; reflexivity|].
  all: unfold ops_resolved; cbn [flat_map op_resolved op_bytes app]; rewrite ?app_nil_r.
  all: cbn [FS.form_layout FS.version FS.fmt64 FS.address_size FS.be FS.word_bytes FS.enc_layout FS.raw_fits FS.form_value FS.enc_prefix FS.prefix_bound].
  all: (split; [|split; [|intros name; eexists; reflexivity]]).
  all: try match goal with E : idx_get ?l ?i = Ok _ |- _ =>
         unfold idx_get, unwrap in E; destruct (nth_error l i); [|discriminate]; injection E as -> end.
  all: try match goal with E : write_udata _ ?v _ = Ok ?a |- _ =>
         let B := fresh "B" in assert (B : v < 2 ^ 64) by (first [assumption | lia]);
         destruct (write_udata_enc _ _ _ _ E B) as [-> [? ?]] end.
  all: try match goal with E : write_uleb128 ?v = Ok ?a |- _ =>
         let B := fresh "B" in assert (B : v < 2 ^ 64) by (first [assumption | unfold UnitWr.blen in *; lia | idtac]) end.
  all: try reflexivity.
  all: try assumption.
  all: try (unfold two64; unfold UnitWr.blen in *; lia).
  all: try (rewrite enc_un_enc_fixed; reflexivity).
  all: try (rewrite (write_uleb128_enc _ _ ltac:(eassumption)) by assumption; reflexivity).
  all: try (rewrite (write_sleb128_enc _ _ ltac:(eassumption)); reflexivity).
  all: try (apply has_nul_forall; assumption).
  all: try (destruct b; destruct be; reflexivity).
  all: try (destruct be; reflexivity).
  all: try (destruct b; vm_compute; reflexivity).
  all: try (rewrite (zeros_enc_fixed _ be); reflexivity).
  (* expressions *)
  all: try match goal with E1 : x_out ?x = Ok ?b, E : x_size ?x = Ok ?n |- _ =>
         rewrite (X _ E1) in E; injection E as <-; rewrite E1;
         destruct T as [n0 [bs0 [T1 [T2 T3]]]]; rewrite (X _ E1) in T1; injection T1 as <-;
         first [ rewrite (write_uleb128_enc _ _ ltac:(eassumption)) by (unfold UnitWr.blen in *; lia); reflexivity
               | unfold two64, UnitWr.blen in *; lia ] end.
  (* patched unit references *)
  all: try match goal with |- Some (FS.enc_fixed (N.to_nat ?w) ?be (fixed_num ?be (?f ?id))) = Some (?f ?id) =>
         specialize (Hf id); unfold wsz in Hf; cbn [e_fmt64] in Hf;
         replace (N.to_nat w) with (length (f id)) by (unfold UnitWr.blen in Hf; lia);
         now rewrite enc_fixed_fixed_num end.
  all: try match goal with |- fixed_num ?be (?f ?id) < _ =>
         specialize (Hf id); unfold wsz in Hf; cbn [e_fmt64] in Hf;
         assert (L := fixed_num_lt be (f id)); unfold UnitWr.blen in Hf; rewrite Hf in L; exact L end.
  (* file indices *)
  all: try match goal with E : file_raw _ _ (Some ?n) = Ok ?a |- _ =>
         apply file_raw_val in E; unfold wrapN in E; rewrite N.mod_small in E by lia; subst a end.
  all: try match goal with E : file_raw _ _ None = Ok ?a |- _ => cbn in E; injection E as <- end.
  all: try (rewrite (write_uleb128_enc _ _ ltac:(eassumption)) by (destruct (lpv <=? 4); lia); reflexivity).
  all: try (unfold two64; destruct (lpv <=? 4); lia).
Qed.

(* the meaning of the value that was set: number, bytes or flag *)
Definition av_payload (cx : wcx) (f : eid -> list byte) (v : aval) : FS.payload :=
  match v with
  | AvFlag b => FS.PFlag b
  | AvFlagPresent => FS.PFlag true
  | AvImplicitConst z => FS.PInt z
  | _ => match snd (av_fd cx f v) with
         | FS.RNum n => FS.PInt (Z.of_N n) | FS.RInt z => FS.PInt z | FS.RBytes b => FS.PBytes b
         | FS.RNone => FS.PFlag true
         end
  end.

Lemma av_payload_ok cx f name v val :
  FS.form_value (renc cx) name (ic_of (snd (av_form (wc_enc cx) v))) (fst (av_fd cx f v)) (snd (av_fd cx f v)) = Some val ->
  FS.payload_of val = av_payload cx f v.
Proof.
  destruct cx as [e be u uoff ents codes line lstr str rng loc lpv]. destruct e as [ver fmt asz].
  unfold renc, av_payload. cbn [wc_enc wc_be e_ver e_fmt64 e_asz].
  destruct v; unfold av_fd, av_form, word_form; cbn [wc_enc wc_be wc_line wc_loc wc_rng wc_str wc_lstr wc_lpv e_ver e_fmt64 e_asz];
    case_ver ver; try destruct fmt; cbn [fst snd ic_of FS.form_value FS.fmt64 FS.version negb andb].
  all: try match goal with a : address |- _ => destruct a end.
  all: try match goal with |- context [match ?o with Some _ => (FS.F_udata, _) | None => _ end] => destruct o end.
  all: cbn [fst snd FS.form_value FS.fmt64 FS.version negb andb].
  all: intros H; try (injection H as <-); try reflexivity.
  all: try (destruct (FS.legacy_section_offset name ver); reflexivity).
  all: try (destruct b; reflexivity).
Qed.

(* (a) Attr.parse_attribute — the model of gimli's attribute reader — on the written (and patched) bytes of
   one attribute, under the specification the writer puts into the abbreviation (name, form chosen by `form`,
   implicit constant), returns exactly the value FormSpec assigns to the emitted form and data, consumes
   exactly those bytes, and that value means what was set *)
Theorem attr_read_by_reader_lemma dbg dbg' cx (f : eid -> list byte) name v ops rest :
  av_write dbg cx v = Ok ops -> av_decodable v -> av_typed cx v -> av_ranges cx v ->
  (forall id, UnitWr.blen (f id) = wsz (wc_enc cx)) -> AttrProofs.addr_size_ok (renc cx) ->
  exists val,
    AT.parse_attribute dbg' (renc cx) (AT.mkSpec name (fst (av_form (wc_enc cx) v)) (ic_of (snd (av_form (wc_enc cx) v))))
                       (ops_resolved f ops ++ rest) = Ok (val, rest) /\
    FS.form_value (renc cx) name (ic_of (snd (av_form (wc_enc cx) v))) (fst (av_fd cx f v)) (snd (av_fd cx f v)) = Some val /\
    FS.payload_of val = av_payload cx f v.
Proof.
  intros H X T R Hf HA.
  destruct (av_resolve dbg cx f v ops H X T R Hf) as [C1 [C2 [C3 [C4 [C5 C6]]]]].
  destruct (C6 name) as [val Hval]. exists val. split; [|split; [exact Hval|eapply av_payload_ok; exact Hval]].
  rewrite <- C1.
  assert (RT := AttrProofs.attr_roundtrip dbg' (renc cx) name (ic_of (snd (av_form (wc_enc cx) v))) O
                  (fst (av_fd cx f v)) (snd (av_fd cx f v)) (ops_resolved f ops) val rest C2 HA (fun _ => eq_refl) C5).
  replace (FS.be (renc cx)) with (wc_be cx) in RT by reflexivity.
  specialize (RT C4 Hval). cbn [FS.spec_form FS.enc_hops app] in RT. exact RT.
Qed.

(* ------------------------------------------------------------------ (c) the written tree as a Forest.tree *)

Definition t_attr (cx : wcx) (f : eid -> list byte) (p : N * aval) : FO.attr :=
  let F := fst (av_fd cx f (snd p)) in
  let d := snd (av_fd cx f (snd p)) in
  let ic := ic_of (snd (av_form (wc_enc cx) (snd p))) in
  FO.mkAttr (AT.mkSpec (fst p) (FS.form_code F) ic)
            (match FS.enc_layout (FS.form_layout F (renc cx)) (wc_be cx) d with Some b => b | None => [] end)
            (match FS.form_value (renc cx) (fst p) ic F d with Some x => x | None => FS.VFlag false end).

Definition sibw_of (cx : wcx) : FO.sibw := if e_fmt64 (wc_enc cx) then FO.W8 else FO.W4.

Definition t_items (cx : wcx) (f : eid -> list byte) (sib : bool) (attrs : list (N * aval)) : list FO.item :=
  (if sib then [FO.ISib (sibw_of cx)] else []) ++ map (fun p => FO.IAttr (t_attr cx f p)) attrs.

(* the written entry tree in the vocabulary of Spec/Forest.v *)
Fixpoint T (cx : wcx) (f : eid -> list byte) (d : die) : FO.tree :=
  match d with
  | Die _ tag sib attrs ch => FO.Node tag false (t_items cx f (sib && has_kids ch) attrs) (map (T cx f) ch)
  end.

(* what the reader side needs of the written tree: tags and attribute names are non-zero u16 (names other
   than DW_AT_sibling, which `set` refuses), values within their Rust types *)
Definition attr_rd_ok (cx : wcx) (p : N * aval) : Prop :=
  0 < fst p < two16 /\ fst p <> 1 /\ av_decodable (snd p) /\ av_typed cx (snd p) /\ av_ranges cx (snd p).

Fixpoint die_rd_ok (cx : wcx) (d : die) : Prop :=
  match d with
  | Die _ tag _ attrs ch =>
      0 < tag < two16 /\ Forall (attr_rd_ok cx) attrs /\
      (fix go (l : list die) : Prop := match l with [] => True | c :: r => die_rd_ok cx c /\ go r end) ch
  end.
Section rd_ok_list.
  Variable cx : wcx.
  Fixpoint dies_rd_ok (l : list die) : Prop :=
    match l with [] => True | c :: r => die_rd_ok cx c /\ dies_rd_ok r end.
End rd_ok_list.
Lemma die_rd_ok_unfold cx id tag sib attrs ch :
  die_rd_ok cx (Die id tag sib attrs ch) = (0 < tag < two16 /\ Forall (attr_rd_ok cx) attrs /\ dies_rd_ok cx ch).
Proof. reflexivity. Qed.

Lemma form_code_range F : 0 < FS.form_code F < two16.
Proof. destruct F; vm_compute; split; reflexivity. Qed.

(* one attribute: a DWARF attribute in the sense of Forest.attr_ok whose bytes are the written ones *)
Lemma t_attr_ok dbg cx f name v ops :
  av_write dbg cx v = Ok ops -> attr_rd_ok cx (name, v) ->
  (forall id, UnitWr.blen (f id) = wsz (wc_enc cx)) ->
  FO.attr_ok (renc cx) (t_attr cx f (name, v)) /\
  FO.a_bytes (t_attr cx f (name, v)) = ops_resolved f ops /\
  FO.a_spec (t_attr cx f (name, v)) = AT.mkSpec name (fst (av_form (wc_enc cx) v)) (ic_of (snd (av_form (wc_enc cx) v))) /\
  FO.spec_ok (FO.a_spec (t_attr cx f (name, v))).
Proof.
  intros H [Hn [Hn1 [X [Ty R]]]] Hf. cbn [fst snd] in *.
  destruct (av_resolve dbg cx f v ops H X Ty R Hf) as [C1 [C2 [C3 [C4 [C5 C6]]]]].
  destruct (C6 name) as [val Hval].
  unfold t_attr. cbn [fst snd]. rewrite C4, Hval. cbn [FO.a_bytes FO.a_spec].
  split; [|split; [reflexivity|split; [now rewrite C1|]]].
  - exists (FO.mkUAttr name (ic_of (snd (av_form (wc_enc cx) v))) O (fst (av_fd cx f v)) (snd (av_fd cx f v))).
    split.
    + unfold FO.uattr_ok. cbn [FO.u_form FO.u_hops FO.u_data FO.u_name]. repeat split; try assumption.
    + unfold FO.resolve. cbn [FO.u_form FO.u_hops FO.u_data FO.u_name FO.u_implicit].
      replace (FS.be (renc cx)) with (wc_be cx) by reflexivity. rewrite C4, Hval. reflexivity.
  - unfold FO.spec_ok. cbn [AT.at_name AT.at_form AT.at_implicit].
    split; [exact Hn|]. split; [apply form_code_range|].
    destruct (snd (av_form (wc_enc cx) v)) as [z|] eqn:Ez.
    + (* only ImplicitConst (version >= 5) carries a constant *)
      split.
      * destruct v; cbn [av_form] in Ez; repeat match type of Ez with context [if ?c then _ else _] => destruct c end;
          cbn [snd] in Ez; try discriminate. injection Ez as <-. exact Ty.
      * intros Hne. exfalso. assert (Q : fst (av_fd cx f v) <> FS.F_implicit_const).
        { intros E. apply Hne. rewrite E. reflexivity. }
        specialize (C3 Q). congruence.
    + cbn [ic_of]. split; [lia|reflexivity].
Qed.

Lemma attrs_T dbg cx f next : forall attrs aops,
  attrs_write dbg cx attrs = Ok aops -> Forall (attr_rd_ok cx) attrs ->
  (forall id, UnitWr.blen (f id) = wsz (wc_enc cx)) ->
  concat (map (FO.enc_item (wc_be cx) next) (map (fun p => FO.IAttr (t_attr cx f p)) attrs)) = ops_resolved f aops /\
  Forall (fun it => match it with FO.IAttr a => FO.attr_ok (renc cx) a | FO.ISib _ => True end)
         (map (fun p => FO.IAttr (t_attr cx f p)) attrs) /\
  Forall FO.spec_ok (map FO.item_spec (map (fun p => FO.IAttr (t_attr cx f p)) attrs)) /\
  (forall specs, attr_specs dbg (wc_enc cx) attrs = Ok specs ->
     map FO.item_spec (map (fun p => FO.IAttr (t_attr cx f p)) attrs) = map rspec specs).
Proof.
  induction attrs as [|[n v] r IH]; intros aops H W Hf; cbn [attrs_write] in H.
  - injection H as <-. cbn [map concat]. repeat split; try constructor.
    intros specs Hs. cbn [attr_specs] in Hs. now injection Hs as <-.
  - apply bind_ok_inv in H. destruct H as [o [Eo H]]. apply bind_ok_inv in H. destruct H as [ro [Ero H]].
    injection H as <-. inversion W as [|? ? W1 W2]; subst.
    destruct (t_attr_ok dbg cx f n v o Eo W1 Hf) as [A1 [A2 [A3 A4]]].
    destruct (IH _ Ero W2 Hf) as [B1 [B2 [B3 B4]]].
    cbn [map concat FO.enc_item FO.item_spec]. rewrite A2, B1, ops_resolved_app.
    split; [reflexivity|]. split; [constructor; assumption|]. split; [constructor; assumption|].
    intros specs Hs. cbn [attr_specs] in Hs.
    destruct (av_form (wc_enc cx) v) as [form ic] eqn:EF.
    apply bind_ok_inv in Hs. destruct Hs as [s [Es Hs]]. apply bind_ok_inv in Hs. destruct Hs as [rs [Ers Hs]].
    injection Hs as <-. destruct (aspec_new_ok _ _ _ _ _ Es) as [S1 [S2 S3]].
    cbn [map]. rewrite (B4 _ Ers), A3. cbn [fst snd]. f_equal.
    unfold rspec. now rewrite S1, S2, S3.
Qed.

(* the code assignment of the written unit: position of the abbreviation in the unit's table *)
Definition unrspec (s : AT.aspec) : aspec := mkAspec (AT.at_name s) (AT.at_form s) (AT.at_implicit s).
Definition codes_of_tab (tab : list abbrev) : FO.coding := fun tag hc specs =>
  match abbrev_find tab (mkAbbrev tag hc (map unrspec specs)) with
  | Some i => N.of_nat i + 1
  | None => 0
  end.

Lemma unrspec_rspec l : map unrspec (map rspec l) = l.
Proof. induction l as [|[n fm c] r IH]; cbn; [reflexivity|]. now rewrite IH. Qed.

Lemma codes_of_tab_lookup tab code ab :
  abbrev_lookup tab code = Some ab -> NoDup tab ->
  codes_of_tab tab (ab_tag ab) (ab_children ab) (map rspec (ab_attrs ab)) = code.
Proof.
  intros L ND. unfold codes_of_tab. rewrite unrspec_rspec.
  replace (mkAbbrev (ab_tag ab) (ab_children ab) (ab_attrs ab)) with ab by (destruct ab; reflexivity).
  unfold abbrev_lookup in L. destruct (code =? 0) eqn:Z; [discriminate|]. apply N.eqb_neq in Z.
  assert (Hin : In ab tab) by (eapply nth_error_In; eassumption).
  destruct (abbrev_find_in _ _ Hin) as [i F]. rewrite F. destruct (abbrev_find_some _ _ _ F) as [F1 _].
  assert (i = N.to_nat (code - 1)); [|lia].
  rewrite NoDup_nth_error in ND. apply ND; [apply nth_error_Some; congruence|congruence].
Qed.

Lemma has_children_T cx f d : FO.has_children (T cx f d) = has_kids (die_children d).
Proof. destruct d as [id tag sib attrs ch]. cbn [T FO.has_children die_children orb]. now destruct ch. Qed.

(* the abbreviation calculate_offsets registers for an entry is the abbreviation of its Forest image *)
Lemma die_abbrev_T dbg cx f id tag sib attrs ch ab aops :
  die_abbrev dbg (wc_enc cx) (Die id tag sib attrs ch) = Ok ab ->
  attrs_write dbg cx attrs = Ok aops -> Forall (attr_rd_ok cx) attrs ->
  (forall id, UnitWr.blen (f id) = wsz (wc_enc cx)) ->
  ab_tag ab = tag /\ ab_children ab = has_kids ch /\
  FO.t_specs (T cx f (Die id tag sib attrs ch)) = map rspec (ab_attrs ab).
Proof.
  intros H Ea W Hf. unfold die_abbrev in H.
  apply bind_ok_inv in H. destruct H as [sibspec [Es H]]. apply bind_ok_inv in H. destruct H as [specs [Esp H]].
  injection H as <-. cbn [ab_tag ab_children ab_attrs]. split; [reflexivity|]. split; [reflexivity|].
  destruct (attrs_T dbg cx f 0 attrs aops Ea W Hf) as [_ [_ [_ B4]]].
  unfold FO.t_specs. cbn [T FO.t_items]. unfold t_items. rewrite !map_app, (B4 _ Esp). f_equal.
  destruct (sib && has_kids ch).
  - apply bind_ok_inv in Es. destruct Es as [s [E1 Es]]. injection Es as <-.
    destruct (aspec_new_ok _ _ _ _ _ E1) as [S1 [S2 S3]]. cbn [map FO.item_spec]. unfold rspec. rewrite S1, S2, S3.
    unfold FO.sib_spec, sibw_of, word_form. destruct (e_fmt64 (wc_enc cx)); reflexivity.
  - injection Es as <-. reflexivity.
Qed.

Lemma pre_tree_unfold codes depth off t :
  FO.pre_tree codes depth off t =
  FO.root_die codes off depth t :: FO.on_list (FO.pre_tree codes (depth + 1)) (FO.tree_size codes) (FO.kids_off codes off t) (FO.t_kids t).
Proof. destruct t. reflexivity. Qed.

Lemma nodes_unfold t : FO.nodes t = t :: flat_map FO.nodes (FO.t_kids t).
Proof. destruct t. reflexivity. Qed.

Section encT.
  Variables (dbg : bool) (cx : wcx) (f : eid -> list byte) (tab : list abbrev) (tbl : AR.abbrevs).
  Hypothesis ND : NoDup tab.
  Hypothesis Htbl : forall code a, abbrev_lookup tab code = Some a -> AR.tbl_get tbl code = Some (rabbrev code a).
  Hypothesis Hf : forall id, UnitWr.blen (f id) = wsz (wc_enc cx).
  Hypothesis Hlen : N.of_nat (length tab) < two64.

  Definition node_good (t : FO.tree) : Prop :=
    FO.node_ok (codes_of_tab tab) (renc cx) t /\
    AR.tbl_get tbl (FO.t_code (codes_of_tab tab) t) = Some (FO.t_abbrev (codes_of_tab tab) t).

  Definition encT_stmt (d : die) : Prop := forall pos ops,
    write_die dbg cx d pos = Ok ops -> codes_ok dbg cx tab d -> die_rd_ok cx d ->
    wc_unit_off cx <= pos -> pos + ops_len ops < 2 ^ 64 ->
    ops_resolved f ops = FO.enc_tree (codes_of_tab tab) (wc_be cx) (pos - wc_unit_off cx) (T cx f d) /\
    ops_len ops = FO.tree_size (codes_of_tab tab) (T cx f d) /\
    Forall node_good (FO.nodes (T cx f d)) /\
    Forall (FO.node_fits (codes_of_tab tab)) (FO.placed (codes_of_tab tab) (pos - wc_unit_off cx) (T cx f d)) /\
    (forall depth, map FO.d_offset (FO.pre_tree (codes_of_tab tab) depth (pos - wc_unit_off cx) (T cx f d)) =
                   map (fun ip => snd ip - wc_unit_off cx) (ops_marks pos ops)).

  Lemma kidsT ch :
    Forall encT_stmt ch ->
    forall p cops,
      write_list dbg cx ch p = Ok cops -> codes_ok_list dbg cx tab ch -> dies_rd_ok cx ch ->
      wc_unit_off cx <= p -> p + ops_len cops < 2 ^ 64 ->
      FO.on_list (FO.enc_tree (codes_of_tab tab) (wc_be cx)) (FO.tree_size (codes_of_tab tab)) (p - wc_unit_off cx)
                 (map (T cx f) ch) = ops_resolved f cops /\
      FO.sumN (map (FO.tree_size (codes_of_tab tab)) (map (T cx f) ch)) = ops_len cops /\
      Forall node_good (flat_map FO.nodes (map (T cx f) ch)) /\
      Forall (FO.node_fits (codes_of_tab tab))
             (FO.on_list (FO.placed (codes_of_tab tab)) (FO.tree_size (codes_of_tab tab)) (p - wc_unit_off cx) (map (T cx f) ch)) /\
      (forall depth, map FO.d_offset (FO.on_list (FO.pre_tree (codes_of_tab tab) depth) (FO.tree_size (codes_of_tab tab))
                                                 (p - wc_unit_off cx) (map (T cx f) ch)) =
                     map (fun ip => snd ip - wc_unit_off cx) (ops_marks p cops)).
  Proof.
    induction 1 as [|c r Hc Hr IH]; intros p cops HW C D U B; cbn [write_list codes_ok_list dies_rd_ok map] in *.
    - injection HW as <-. repeat split; try constructor.
    - apply bind_ok_inv in HW. destruct HW as [o [Eo HW]]. apply bind_ok_inv in HW. destruct HW as [ro [Ero HW]].
      injection HW as <-. destruct C as [C1 C2]. destruct D as [D1 D2]. rewrite ops_len_app in B.
      destruct (Hc p o Eo C1 D1 U ltac:(lia)) as [A1 [A2 [A3 [A4 A5]]]].
      destruct (IH (p + ops_len o) ro Ero C2 D2 ltac:(lia) ltac:(lia)) as [B1 [B2 [B3 [B4 B5]]]].
      rewrite !DieRdProofs.on_list_cons. rewrite <- A2.
      replace (p - wc_unit_off cx + ops_len o) with (p + ops_len o - wc_unit_off cx) by lia.
      rewrite <- A1, B1, ops_resolved_app, ops_len_app. cbn [FO.sumN fold_right flat_map].
      split; [reflexivity|]. split; [fold (FO.sumN (map (FO.tree_size (codes_of_tab tab)) (map (T cx f) r))); lia|].
      split; [apply Forall_app; split; assumption|]. split; [apply Forall_app; split; assumption|].
      intros depth. rewrite DieRdProofs.on_list_cons, map_app, ops_marks_app, map_app, A5. f_equal.
      replace (p - wc_unit_off cx + FO.tree_size (codes_of_tab tab) (T cx f c)) with (p + ops_len o - wc_unit_off cx)
        by (rewrite <- A2; lia).
      apply B5.
  Qed.

  Lemma encT_all : forall d, encT_stmt d.
  Proof.
    induction d as [id tag sib attrs ch IH] using die_ind2.
    intros pos ops HW C D U B.
    rewrite codes_ok_unfold in C. destruct C as [[code [ab [C1 [C2 C3]]]] Cl].
    rewrite die_rd_ok_unfold in D. destruct D as [Dt [Da Dc]].
    rewrite write_die_unfold in HW.
    apply bind_ok_inv in HW. destruct HW as [u0 [_ HW]].
    apply bind_ok_inv in HW. destruct HW as [code' [Ec HW]].
    unfold idx_get, unwrap in Ec. rewrite C1 in Ec. injection Ec as <-.
    apply bind_ok_inv in HW. destruct HW as [cb [Ecb HW]]. cbv zeta in HW.
    apply bind_ok_inv in HW. destruct HW as [aops [Ea HW]].
    set (codes := codes_of_tab tab) in *.
    destruct (die_abbrev_T dbg cx f id tag sib attrs ch ab aops C2 Ea Da Hf) as [Q1 [Q2 Q3]].
    assert (Ttag : FO.t_tag (T cx f (Die id tag sib attrs ch)) = tag) by reflexivity.
    assert (Thc : FO.has_children (T cx f (Die id tag sib attrs ch)) = has_kids ch)
      by (apply (has_children_T cx f (Die id tag sib attrs ch))).
    assert (Titems : FO.t_items (T cx f (Die id tag sib attrs ch)) = t_items cx f (sib && has_kids ch) attrs) by reflexivity.
    assert (Tkids : FO.t_kids (T cx f (Die id tag sib attrs ch)) = map (T cx f) ch) by reflexivity.
    set (t := T cx f (Die id tag sib attrs ch)) in *.
    (* the code *)
    assert (Hc0 : 0 < code < two64).
    { assert (Z := abbrev_lookup_nonzero _ _ _ C3). unfold abbrev_lookup in C3.
      destruct (code =? 0); [discriminate|]. assert (L : (N.to_nat (code - 1) < length tab)%nat) by (apply nth_error_Some; congruence). lia. }
    assert (Hcode : FO.t_code codes t = code).
    { unfold FO.t_code. rewrite Q3, Ttag, Thc, <- Q1, <- Q2. apply codes_of_tab_lookup; assumption. }
    assert (Ecb' : cb = enc_uleb code) by (apply write_uleb128_enc; [exact Ecb|unfold two64 in Hc0; lia]).
    (* attributes *)
    assert (HA := fun next : N => attrs_T dbg cx f next attrs aops Ea Da Hf).
    assert (Laops : UnitWr.blen (ops_resolved f aops) = ops_len aops).
    { apply (ops_resolved_len f (wsz (wc_enc cx))); [exact Hf|].
      intros i w' Hi. assert (F := attrs_write_forall dbg cx _ (av_write_refw dbg cx) _ _ Ea).
      rewrite Forall_forall in F. exact (F _ Hi). }
    assert (Litems : FO.sumN (map FO.item_len (map (fun p => FO.IAttr (t_attr cx f p)) attrs)) = ops_len aops).
    { rewrite <- (DieRdProofs.nlen_concat_items (wc_be cx) 0). destruct (HA 0) as [-> _]. exact Laops. }
    (* the abbreviation as seen by the reader's table *)
    assert (Htab : AR.tbl_get tbl (FO.t_code codes t) = Some (FO.t_abbrev codes t)).
    { unfold FO.t_abbrev. rewrite Hcode, (Htbl _ _ C3). unfold rabbrev. now rewrite Q3, Ttag, Thc, Q1, Q2. }
    assert (Hspecs : Forall FO.spec_ok (FO.t_specs t)).
    { unfold FO.t_specs. rewrite Titems. unfold t_items. rewrite map_app. apply Forall_app. split.
      - destruct (sib && has_kids ch); [|constructor]. constructor; [|constructor].
        unfold sibw_of. destruct (e_fmt64 (wc_enc cx)); repeat split; (reflexivity || discriminate).
      - destruct (HA 0) as [_ [_ [A3 _]]]. exact A3. }
    assert (Hnode : node_good t).
    { split; [|exact Htab]. split.
      - unfold FO.abbrev_ok, FO.t_abbrev. cbn [FO.ab_code FO.ab_tag FO.ab_specs]. fold codes. rewrite Hcode, Ttag.
        split; [exact Hc0|]. split; [exact Dt|exact Hspecs].
      - rewrite Titems. unfold t_items. apply Forall_app. split.
        + destruct (sib && has_kids ch); repeat constructor.
        + destruct (HA 0) as [_ [A2 _]]. exact A2. }
    assert (Hfit_attrs : forall q, Forall (fun it => match it with
                    | FO.ISib w => q < 2 ^ (8 * N.of_nat (FO.sib_len w)) | FO.IAttr _ => True end)
                    (map (fun p => FO.IAttr (t_attr cx f p)) attrs)).
    { intros q. apply Forall_forall. intros it Hit. apply in_map_iff in Hit. destruct Hit as [p [<- _]]. exact I. }
    destruct ch as [|c r].
    - (* leaf *)
      injection HW as <-. rewrite !ops_len_cons in *. cbn [op_bytes] in *. rewrite blen_nil in *.
      cbn [has_kids] in *. rewrite andb_false_r in *. unfold t_items in Titems. cbn [app] in Titems.
      assert (Hsz : FO.tree_size codes t = UnitWr.blen cb + ops_len aops).
      { rewrite DieRdProofs.tree_size_unfold, Hcode, Thc, Titems, Litems, Ecb'. unfold FO.nlen, UnitWr.blen. lia. }
      split.
      { rewrite DieRdProofs.enc_tree_unfold, Hcode, Thc, Titems.
        destruct (HA (pos - wc_unit_off cx + FO.tree_size codes t)) as [-> _].
        rewrite !ops_resolved_cons. cbn [op_resolved op_bytes app]. rewrite app_nil_r, Ecb'. reflexivity. }
      split; [rewrite Hsz; lia|]. split.
      { rewrite nodes_unfold, Tkids. cbn [map flat_map]. constructor; [exact Hnode|constructor]. }
      split.
      { rewrite DieRdProofs.placed_unfold, Tkids. cbn [map FO.on_list]. constructor; [|constructor].
        unfold FO.node_fits. cbn [fst snd]. rewrite Titems. apply Hfit_attrs. }
      { intros depth. rewrite pre_tree_unfold, Tkids. cbn [map FO.on_list FO.root_die FO.d_offset].
        cbn [ops_marks op_bytes]. rewrite blen_nil, N.add_0_r. rewrite (ops_marks_plain aops) by (eapply attrs_write_plain; eassumption).
        reflexivity. }
    - (* node *)
      apply bind_ok_inv in HW. destruct HW as [cops [Ecops HW]].
      apply bind_ok_inv in HW. destruct HW as [sibb [Esibb HW]]. injection HW as <-.
      cbn [has_kids] in *. rewrite andb_true_r in *.
      set (w := wsz (wc_enc cx)) in *.
      assert (Hs : ops_len sibb = (if sib then w else 0) /\ forallb (fun o => negb (is_unit_ref o)) sibb = true).
      { destruct sib.
        - binds. injection Esibb as <-. rewrite ops_len_wb.
          match goal with E : write_udata _ _ _ = Ok _ |- _ => rewrite (write_udata_len _ _ _ _ E) end. split; reflexivity.
        - injection Esibb as <-. split; reflexivity. }
      destruct Hs as [Ls Ps].
      rewrite !ops_len_cons, !ops_len_app, ops_len_wb in *. cbn [op_bytes] in *. rewrite blen_nil, Ls in *.
      change (UnitWr.blen [x00]) with 1 in *.
      set (p0 := pos + (UnitWr.blen cb + (if sib then w else 0)) + ops_len aops) in *.
      destruct (kidsT (c :: r) IH p0 cops Ecops Cl Dc ltac:(unfold p0; lia) ltac:(unfold p0; lia)) as [K1 [K2 [K3 [K4 K5]]]].
      fold codes in K1, K2, K4, K5.
      assert (Lsibitem : FO.sumN (map FO.item_len (t_items cx f sib attrs)) = (if sib then w else 0) + ops_len aops).
      { unfold t_items. rewrite map_app, DieRdProofs.sumN_app, Litems. f_equal.
        destruct sib; [|reflexivity]. unfold sibw_of, w, wsz. destruct (e_fmt64 (wc_enc cx)); reflexivity. }
      assert (Hkids_off : FO.kids_off codes (pos - wc_unit_off cx) t = p0 - wc_unit_off cx).
      { unfold FO.kids_off. rewrite Hcode, Titems, Lsibitem, <- Ecb'. unfold FO.nlen, p0, UnitWr.blen. lia. }
      assert (Hsz : FO.tree_size codes t = UnitWr.blen cb + (if sib then w else 0) + ops_len aops + ops_len cops + 1).
      { rewrite DieRdProofs.tree_size_unfold, Hcode, Thc, Titems, Tkids, Lsibitem, K2, <- Ecb'.
        unfold FO.nlen, UnitWr.blen. lia. }
      split.
      { rewrite DieRdProofs.enc_tree_unfold, Hcode, Hkids_off, Thc, Titems, Tkids, K1.
        unfold t_items. rewrite map_app, concat_app.
        destruct (HA (pos - wc_unit_off cx + FO.tree_size codes t)) as [-> _].
        rewrite !ops_resolved_cons, !ops_resolved_app. cbn [op_resolved op_bytes app].
        rewrite (ops_resolved_noref f sibb Ps). replace (ops_resolved f [WB [x00]]) with [x00] by reflexivity.
        rewrite <- Ecb'. f_equal. rewrite <- !app_assoc. f_equal.
        destruct sib.
        - apply bind_ok_inv in Esibb. destruct Esibb as [next [En Esibb]].
          apply bind_ok_inv in Esibb. destruct Esibb as [b [Eb Esibb]]. injection Esibb as <-.
          rewrite chk_sub_ok in En by (unfold p0 in *; lia). injection En as <-.
          destruct (write_udata_enc _ _ _ _ Eb ltac:(unfold p0 in *; lia)) as [-> _].
          unfold ops_bytes. cbn [flat_map op_bytes map concat FO.enc_item app]. rewrite !app_nil_r. f_equal.
          + unfold sibw_of, w, wsz. destruct (e_fmt64 (wc_enc cx)); reflexivity.
          + fold codes. rewrite Hsz. unfold p0. lia.
        - injection Esibb as <-. reflexivity. }
      split; [rewrite Hsz; lia|].
      split.
      { rewrite nodes_unfold, Tkids. constructor; [exact Hnode|exact K3]. }
      split.
      2:{ intros depth. rewrite pre_tree_unfold, Tkids, Hkids_off. cbn [map FO.root_die FO.d_offset]. rewrite K5.
          cbn [ops_marks op_bytes]. rewrite blen_nil, N.add_0_r. cbn [map snd]. f_equal.
          rewrite !ops_marks_app.
          assert (Psib : forallb plain sibb = true).
          { destruct sib; [binds; injection Esibb as <-|injection Esibb as <-]; reflexivity. }
          rewrite (ops_marks_plain sibb) by exact Psib.
          rewrite (ops_marks_plain aops) by (eapply attrs_write_plain; eassumption).
          rewrite (ops_marks_plain [WB [x00]]) by reflexivity. cbn [app]. rewrite app_nil_r.
          f_equal. f_equal. rewrite Ls. unfold p0. lia. }
      { rewrite DieRdProofs.placed_unfold, Tkids, Hkids_off. constructor; [|exact K4].
        unfold FO.node_fits. cbn [fst snd]. rewrite Titems. unfold t_items. apply Forall_app. split.
        + destruct sib; [|constructor]. constructor; [|constructor].
          apply bind_ok_inv in Esibb. destruct Esibb as [next [En Esibb]].
          apply bind_ok_inv in Esibb. destruct Esibb as [b [Eb Esibb]].
          rewrite chk_sub_ok in En by (unfold p0 in *; lia). injection En as <-.
          destruct (write_udata_enc _ _ _ _ Eb ltac:(unfold p0 in *; lia)) as [_ [Bn _]].
          rewrite Hsz. unfold sibw_of, w, wsz in *. unfold p0 in Bn.
          destruct (e_fmt64 (wc_enc cx)); cbn [FO.sib_len];
            (eapply N.le_lt_trans; [|exact Bn]); lia.
        + apply Hfit_attrs. }
  Qed.
End encT.

(* ------------------------------------------------------------------ the abbreviation table calculate_offsets builds *)

Lemma av_form_range e v : 0 < fst (av_form e v) < two16.
Proof.
  destruct e as [ver fmt asz]. destruct v; cbn [av_form]; unfold word_form; cbn [e_ver e_fmt64];
    repeat match goal with |- context [if ?c then _ else _] => destruct c end; cbn [fst]; vm_compute; split; reflexivity.
Qed.

Lemma attr_specs_wf dbg cx : forall attrs specs,
  attr_specs dbg (wc_enc cx) attrs = Ok specs -> Forall (attr_rd_ok cx) attrs -> Forall spec_wf specs.
Proof.
  induction attrs as [|[n v] r IH]; intros specs H W; cbn [attr_specs] in H.
  - injection H as <-. constructor.
  - destruct (av_form (wc_enc cx) v) as [form ic] eqn:EF.
    apply bind_ok_inv in H. destruct H as [s [Es H]]. apply bind_ok_inv in H. destruct H as [rs [Ers H]].
    injection H as <-. inversion W as [|? ? W1 W2]; subst. constructor; [|now apply IH].
    destruct (aspec_new_ok _ _ _ _ _ Es) as [S1 [S2 S3]]. destruct W1 as [Hn [_ [_ [Ty _]]]]. cbn [fst snd] in *.
    unfold spec_wf. rewrite S1, S2, S3. split; [exact Hn|].
    assert (R := av_form_range (wc_enc cx) v). rewrite EF in R. cbn [fst] in R. split; [exact R|].
    unfold aspec_new in Es. apply bind_ok_inv in Es. destruct Es as [u0 [_ _]].
    destruct ic as [z|].
    + destruct v; cbn [av_form] in EF; repeat match type of EF with context [if ?c then _ else _] => destruct c end;
        try discriminate. injection EF as <- <-. split; [exact Ty|]. intros Q. exfalso. apply Q. reflexivity.
    + split; [lia|reflexivity].
Qed.

Lemma die_abbrev_wf dbg cx id tag sib attrs ch ab :
  die_abbrev dbg (wc_enc cx) (Die id tag sib attrs ch) = Ok ab ->
  0 < tag < two16 -> Forall (attr_rd_ok cx) attrs -> abbrev_wf ab.
Proof.
  intros H Ht W. unfold die_abbrev in H.
  apply bind_ok_inv in H. destruct H as [sibspec [Es H]]. apply bind_ok_inv in H. destruct H as [specs [Esp H]].
  injection H as <-. split; [exact Ht|]. cbn [ab_attrs]. apply Forall_app. split; [|eapply attr_specs_wf; eassumption].
  destruct (sib && has_kids ch); [|injection Es as <-; constructor].
  apply bind_ok_inv in Es. destruct Es as [s [E1 Es]]. injection Es as <-.
  destruct (aspec_new_ok _ _ _ _ _ E1) as [S1 [S2 S3]]. constructor; [|constructor].
  unfold spec_wf. rewrite S1, S2, S3. unfold word_form. destruct (e_fmt64 (wc_enc cx)); repeat split; (reflexivity || discriminate).
Qed.

Definition tab_inv (l : list abbrev) : Prop := NoDup l /\ Forall abbrev_wf l.

Lemma abbrev_add_inv tab a code tab' : abbrev_add tab a = (code, tab') -> tab_inv tab -> abbrev_wf a -> tab_inv tab'.
Proof.
  unfold abbrev_add. intros H [ND W] Wa. destruct (abbrev_find tab a) eqn:F; injection H as <- <-; [now split|].
  split; [apply NoDup_snoc; [exact ND|now apply abbrev_find_none]|].
  apply Forall_app. split; [exact W|constructor; [exact Wa|constructor]].
Qed.

Lemma calc_list_tab_inv dbg cx ch :
  Forall (fun d => forall st st', calc dbg (wc_enc cx) (wc_lpv cx) d st = Ok st' -> die_rd_ok cx d ->
                   tab_inv (cs_abbrevs st) -> tab_inv (cs_abbrevs st')) ch ->
  forall st st', calc_list dbg (wc_enc cx) (wc_lpv cx) ch st = Ok st' -> dies_rd_ok cx ch ->
                 tab_inv (cs_abbrevs st) -> tab_inv (cs_abbrevs st').
Proof.
  induction 1 as [|c r Hc Hr IH]; intros st st' H D I; cbn [calc_list dies_rd_ok] in *.
  - now injection H as <-.
  - apply bind_ok_inv in H. destruct H as [sA [EA H]]. destruct D as [D1 D2]. eapply IH; eauto.
Qed.

Lemma calc_tab_inv dbg cx : forall d st st',
  calc dbg (wc_enc cx) (wc_lpv cx) d st = Ok st' -> die_rd_ok cx d ->
  tab_inv (cs_abbrevs st) -> tab_inv (cs_abbrevs st').
Proof.
  induction d as [id tag sib attrs ch IH] using die_ind2. intros st st' H D I.
  rewrite die_rd_ok_unfold in D. destruct D as [Dt [Da Dc]].
  rewrite calc_unfold in H.
  apply bind_ok_inv in H. destruct H as [ents [_ H]].
  apply bind_ok_inv in H. destruct H as [ab [Eab H]].
  destruct (abbrev_add (cs_abbrevs st) ab) as [code tab] eqn:EA.
  apply bind_ok_inv in H. destruct H as [codes [_ H]].
  apply bind_ok_inv in H. destruct H as [sz [_ H]].
  apply bind_ok_inv in H. destruct H as [off1 [_ H]]. cbv zeta in H.
  assert (I1 : tab_inv tab).
  { eapply abbrev_add_inv; [exact EA|exact I|]. eapply die_abbrev_wf; eassumption. }
  destruct ch as [|c r].
  - now injection H as <-.
  - apply bind_ok_inv in H. destruct H as [st2 [E2 H]].
    apply bind_ok_inv in H. destruct H as [off2 [_ H]]. injection H as <-. cbn [cs_abbrevs].
    eapply (calc_list_tab_inv dbg cx (c :: r) IH); [exact E2|exact Dc|exact I1].
Qed.

(* attr_rd_ok contains what offsets_exact / roundtrip ask of expressions and strings *)
Lemma die_rd_ok_expr cx : forall d, die_rd_ok cx d -> die_expr_ok d /\ die_decodable d.
Proof.
  induction d as [id tag sib attrs ch IH] using die_ind2. intros D.
  rewrite die_rd_ok_unfold in D. destruct D as [_ [Da Dc]].
  rewrite die_expr_ok_unfold, die_decodable_unfold.
  assert (A : Forall (fun p => expr_ok (snd p)) attrs /\ Forall (fun p => av_decodable (snd p)) attrs).
  { split; eapply Forall_impl; try exact Da; intros [n v] [_ [_ [X _]]]; cbn [snd] in *; [|exact X].
    destruct v; try exact I. exact X. }
  assert (K : dies_expr_ok ch /\ dies_decodable ch).
  { clear - IH Dc. induction IH as [|c r Hc Hr IHr]; cbn [dies_expr_ok dies_decodable dies_rd_ok] in *; [tauto|].
    destruct Dc as [D1 D2]. destruct (Hc D1). destruct (IHr D2). tauto. }
  tauto.
Qed.

(* length of the unit header Unit::write emits = Forest.header_len of a compile unit header *)
Lemma header_len_cu ver fmt asz aoff : 2 <= ver <= 5 ->
  FO.header_len (FO.mkUH ver fmt asz FO.UCompile aoff) =
  (if fmt then 12 else 4) + 2 + (if fmt then 8 else 4) + (if ver =? 5 then 2 else 1).
Proof.
  intros Hv. unfold FO.header_len, FO.enc_header, FO.enc_initial_length, FO.enc_header_fields, FO.nlen.
  cbn [FO.uh_version FO.uh_fmt64 FO.uh_asize FO.uh_type FO.uh_abbrev_off FO.enc_utype].
  destruct (ver =? 5); destruct fmt; cbn [FO.word];
    repeat rewrite app_length; repeat rewrite DieRdProofs.enc_fixed_length; cbn [length]; lia.
Qed.

(* ------------------------------------------------------------------ (c) the unit read by the raw entry reader *)

Lemma ops_marks_len : forall ops p q, length (ops_marks p ops) = length (ops_marks q ops).
Proof.
  induction ops as [|o r IH]; intros p q; cbn [ops_marks]; [reflexivity|].
  destruct o; cbn [length]; try apply IH. f_equal. apply IH.
Qed.

Theorem unit_read_by_reader_lemma dbg dbg' cx root st0 st ops (f : eid -> list byte) abytes rest types ruoff aoff :
  let e := wc_enc cx in
  let h := FO.mkUH (e_ver e) (e_fmt64 e) (e_asz e) FO.UCompile aoff in
  let codes := codes_of_tab (cs_abbrevs st) in
  let body := ops_resolved f ops in
  (* the two passes of Unit::write, run on a fresh abbreviation table, and the table it hands to
     AbbreviationTable::write *)
  calc dbg e (wc_lpv cx) root st0 = Ok st -> cs_abbrevs st0 = [] ->
  wc_codes cx = cs_codes st ->
  write_die dbg cx root (cs_off st0) = Ok ops ->
  abbrevs_write (cs_abbrevs st) = Ok abytes ->
  (* the tree *)
  NoDup (die_ids root) -> die_rd_ok cx root ->
  (forall id, UnitWr.blen (f id) = wsz e) ->
  (* the header: a version the writer accepts, an address size the reader accepts, entries start right
     after it *)
  2 <= e_ver e <= 5 -> AttrProofs.addr_size_ok (renc cx) ->
  wc_unit_off cx <= cs_off st0 -> cs_off st0 - wc_unit_off cx = FO.header_len h ->
  cs_off st0 + ops_len ops < two63 ->
  exists tbl,
    AR.parse_abbrevs dbg' (abytes ++ rest) = Ok (tbl, rest) /\
    body = FO.enc_forest codes (wc_be cx) (FO.header_len h) [T cx f root] 0 /\
    DR.read_all_raw dbg' (DieRdProofs.parsed_header (wc_be cx) types ruoff h body) tbl None =
      Ok (FO.raw_seq codes (FO.header_len h) [T cx f root] 0, None) /\
    filter DieRdProofs.not_null (FO.raw_seq codes (FO.header_len h) [T cx f root] 0) =
      FO.preorder codes (FO.header_len h) 0 [T cx f root] /\
    map FO.d_offset (FO.preorder codes (FO.header_len h) 0 [T cx f root]) =
      map (fun ip => snd ip - wc_unit_off cx) (ops_marks (cs_off st0) ops) /\
    map fst (ops_marks (cs_off st0) ops) = die_ids root /\
    (forall i p, In (i, p) (ops_marks (cs_off st0) ops) -> nth_error (cs_entries st) i = Some p).
Proof.
  intros e h codes body HC H0 Hcodes HW HAb ND DR Hf Hver HA HU Hh HB.
  destruct (die_rd_ok_expr cx root DR) as [HX HD].
  assert (HB64 : cs_off st0 + ops_len ops < 2 ^ 64).
  { eapply N.lt_trans; [exact HB|]. reflexivity. }
  destruct (offsets_exact_lemma dbg cx root st0 st ops HC Hcodes HW ND HX HB64) as [O1 [O2 O3]].
  (* the table *)
  assert (TI : tab_inv (cs_abbrevs st)).
  { eapply calc_tab_inv; [exact HC|exact DR|]. rewrite H0. split; constructor. }
  destruct TI as [NDt Wt].
  assert (CK : codes_ok dbg cx (cs_abbrevs st) root).
  { eapply calc_codes_ok; [exact HC|apply tab_ext_refl| |exact ND]. intros i _. now rewrite Hcodes. }
  (* number of abbreviations <= number of bytes *)
  assert (Hlen : N.of_nat (length (cs_abbrevs st)) < two64).
  { assert (forall d s s', calc dbg e (wc_lpv cx) d s = Ok s' ->
              N.of_nat (length (cs_abbrevs s')) <= N.of_nat (length (cs_abbrevs s)) + N.of_nat (length (die_ids d))) as G.
    { induction d as [id tag sib attrs ch IH] using die_ind2. intros s s' H.
      rewrite calc_unfold in H.
      apply bind_ok_inv in H. destruct H as [ents [_ H]]. apply bind_ok_inv in H. destruct H as [ab [_ H]].
      destruct (abbrev_add (cs_abbrevs s) ab) as [code tab] eqn:EA.
      apply bind_ok_inv in H. destruct H as [cds [_ H]]. apply bind_ok_inv in H. destruct H as [sz [_ H]].
      apply bind_ok_inv in H. destruct H as [off1 [_ H]]. cbv zeta in H.
      assert (L1 : N.of_nat (length tab) <= N.of_nat (length (cs_abbrevs s)) + 1).
      { unfold abbrev_add in EA. destruct (abbrev_find (cs_abbrevs s) ab); injection EA as <- <-; [lia|rewrite app_length; cbn [length]; lia]. }
      cbn [die_ids length].
      destruct ch as [|c r]; [injection H as <-; cbn [cs_abbrevs flat_map length]; lia|].
      apply bind_ok_inv in H. destruct H as [st2 [E2 H]]. apply bind_ok_inv in H. destruct H as [off2 [_ H]].
      injection H as <-. cbn [cs_abbrevs].
      assert (GL : forall l s1 s2, Forall (fun d => forall s s', calc dbg e (wc_lpv cx) d s = Ok s' ->
                      N.of_nat (length (cs_abbrevs s')) <= N.of_nat (length (cs_abbrevs s)) + N.of_nat (length (die_ids d))) l ->
                    calc_list dbg e (wc_lpv cx) l s1 = Ok s2 ->
                    N.of_nat (length (cs_abbrevs s2)) <= N.of_nat (length (cs_abbrevs s1)) + N.of_nat (length (flat_map die_ids l))).
      { induction l as [|x l IHl]; intros s1 s2 F Hl; cbn [calc_list] in Hl; [injection Hl as <-; lia|].
        apply bind_ok_inv in Hl. destruct Hl as [sA [EA' Hl]]. inversion F; subst.
        cbn [flat_map]. rewrite app_length. specialize (IHl _ _ ltac:(assumption) Hl).
        match goal with Hx : forall s s', calc _ _ _ x s = Ok s' -> _ |- _ => specialize (Hx _ _ EA') end. lia. }
      specialize (GL _ _ _ IH E2). cbn [cs_abbrevs] in GL. lia. }
    specialize (G _ _ _ HC). rewrite H0 in G. cbn [length] in G.
    (* one mark per entry, each at a distinct position below 2^63 *)
    assert (Lm : N.of_nat (length (die_ids root)) <= ops_len ops).
    { rewrite <- O2, map_length.
      clear - HW CK Hf. (* every entry writes at least one byte before the next mark *)
      revert HW CK. generalize (cs_off st0) as pos. revert ops.
      induction root as [id tag sib attrs ch IH] using die_ind2. intros ops pos HW CK.
      destruct (write_die_first_byte dbg cx f (cs_abbrevs st) _ _ _ HW CK) as [_ [_ [_ [_ L1]]]].
      rewrite write_die_unfold in HW.
      apply bind_ok_inv in HW. destruct HW as [u0 [_ HW]]. apply bind_ok_inv in HW. destruct HW as [code [Ecode HW]].
      apply bind_ok_inv in HW. destruct HW as [cb [Ecb HW]]. cbv zeta in HW.
      apply bind_ok_inv in HW. destruct HW as [aops [Ea HW]].
      rewrite codes_ok_unfold in CK. destruct CK as [[code' [ab [C1 [_ C3]]]] Cl].
      assert (Pa := attrs_write_plain _ _ _ _ Ea).
      assert (Lcb : 1 <= UnitWr.blen cb).
      { unfold idx_get, unwrap in Ecode. rewrite C1 in Ecode. injection Ecode as <-.
        destruct (uleb_first_byte code' cb Ecb (abbrev_lookup_nonzero _ _ _ C3)) as [b [r' [-> _]]]. rewrite blen_cons. lia. }
      destruct ch as [|c r].
      - injection HW as <-. cbn [ops_marks op_bytes length]. rewrite blen_nil, N.add_0_r.
        rewrite (ops_marks_plain aops) by exact Pa. cbn [length]. rewrite !ops_len_cons. cbn [op_bytes]. lia.
      - apply bind_ok_inv in HW. destruct HW as [cops [Ec HW]]. apply bind_ok_inv in HW. destruct HW as [sibb [Es HW]].
        injection HW as <-.
        assert (Psib : forallb plain sibb = true).
        { destruct (sib && has_kids (c :: r)); [binds; injection Es as <-|injection Es as <-]; reflexivity. }
        cbn [ops_marks op_bytes length]. rewrite blen_nil, N.add_0_r. rewrite !ops_marks_app.
        rewrite (ops_marks_plain sibb) by exact Psib. rewrite (ops_marks_plain aops) by exact Pa.
        rewrite (ops_marks_plain [WB [x00]]) by reflexivity. cbn [app]. rewrite app_nil_r.
        rewrite !ops_len_cons, !ops_len_app. cbn [op_bytes].
        assert (KL : forall l p o, Forall (fun d => forall ops pos, write_die dbg cx d pos = Ok ops ->
                         codes_ok dbg cx (cs_abbrevs st) d -> N.of_nat (length (ops_marks pos ops)) <= ops_len ops) l ->
                       write_list dbg cx l p = Ok o -> codes_ok_list dbg cx (cs_abbrevs st) l ->
                       N.of_nat (length (ops_marks p o)) <= ops_len o).
        { induction l as [|x l IHl]; intros p o F Hl Cl'; cbn [write_list codes_ok_list] in *; [injection Hl as <-; cbn; rewrite ops_len_nil; lia|].
          apply bind_ok_inv in Hl. destruct Hl as [ox [Ex Hl]]. apply bind_ok_inv in Hl. destruct Hl as [ol [El Hl]].
          injection Hl as <-. inversion F; subst. destruct Cl' as [Cx Cl']. rewrite ops_marks_app, app_length, ops_len_app.
          specialize (IHl _ _ ltac:(assumption) El Cl').
          match goal with Hx : forall ops pos, write_die _ _ x pos = Ok ops -> _ |- _ => specialize (Hx _ _ Ex Cx) end. lia. }
        specialize (KL _ _ _ IH Ec Cl). cbn [length]. change (UnitWr.blen [x00]) with 1.
        rewrite (ops_marks_len cops _ (pos + (UnitWr.blen cb + (if sib && has_kids (c :: r) then wsz (wc_enc cx) else 0)) + ops_len aops)). lia. }
    unfold two63, two64 in *. lia. }
  destruct (abbrevs_read_by_reader_lemma dbg' (cs_abbrevs st) abytes rest HAb Wt Hlen) as [tbl [P1 [P2 _]]].
  exists tbl. split; [exact P1|].
  destruct (encT_all dbg cx f (cs_abbrevs st) tbl NDt P2 Hf Hlen root (cs_off st0) ops HW CK DR HU HB64)
    as [E1 [E2 [E3 [E4 E5]]]].
  fold codes in E1, E2, E4, E5. rewrite Hh in E1, E4, E5.
  assert (Hbody : body = FO.enc_forest codes (wc_be cx) (FO.header_len h) [T cx f root] 0).
  { unfold FO.enc_forest. cbn [FO.on_list repeat]. rewrite !app_nil_r. exact E1. }
  split; [exact Hbody|].
  assert (Hok : FO.forest_ok codes (renc cx) [T cx f root]).
  { unfold FO.forest_ok, FO.forest_nodes. cbn [flat_map]. rewrite app_nil_r.
    eapply Forall_impl; [|exact E3]. intros t [G _]. exact G. }
  assert (Hcov : DieRdProofs.all_covered tbl codes [T cx f root]).
  { unfold DieRdProofs.all_covered, FO.forest_nodes. cbn [flat_map]. rewrite app_nil_r.
    eapply Forall_impl; [|exact E3]. intros t [_ G]. exact G. }
  assert (Hfit : FO.sibs_fit codes (FO.header_len h) [T cx f root]).
  { unfold FO.sibs_fit. cbn [FO.on_list]. rewrite app_nil_r. exact E4. }
  split.
  { rewrite Hbody.
    apply (DieRdProofs.raw_is_preorder dbg' (wc_be cx) types ruoff h codes [T cx f root] 0 tbl); try assumption.
    - rewrite <- Hbody. unfold body.
      replace (FO.nlen (ops_resolved f ops)) with (ops_len ops).
      + unfold two63 in *. lia.
      + symmetry. apply (ops_resolved_len f (wsz e)); [exact Hf|]. eapply write_die_refw; eassumption.
    - rewrite <- Hbody. unfold body. intros Hnil.
      destruct (write_die_first_byte dbg cx f (cs_abbrevs st) root _ _ HW CK) as [b [r' [Eb _]]]. rewrite Hnil in Eb. discriminate. }
  split; [apply (DieRdProofs.raw_seq_preorder codes (renc cx)); exact Hok|].
  split.
  { unfold FO.preorder. cbn [FO.on_list]. rewrite app_nil_r. apply E5. }
  split; [exact O2|exact O3].
Qed.
