(* Proofs/UnitRoundtrip.v — C11 composed with the reader models of C02/C03:
   what Model/UnitWr.v writes is read back by Model/Attr.v (attributes), Model/AbbrevRd.v (abbreviation
   tables) and Model/DieRd.v (raw entry reader) as the tree that was written. *)
From Coq Require Import List NArith ZArith Bool Lia ZifyBool ZifyN ZifyNat.
From Coq.Strings Require Import Byte.
Require Import GV.Base.Res GV.Base.Byt GV.Base.Ints GV.Spec.LebSpec GV.Model.Leb GV.Model.Prim.
Require Import GV.Spec.UnitWrSpec GV.Model.UnitWr GV.Proofs.UnitWrProofs.
Require GV.Spec.FormSpec GV.Model.Attr GV.Spec.Forest GV.Model.AbbrevRd GV.Model.DieRd.
Require GV.Proofs.AttrProofs GV.Proofs.AbbrevRdProofs GV.Proofs.DieRdProofs.
Import ListNotations.
Local Open Scope N_scope.
Local Arguments N.add : simpl never.
Local Arguments N.sub : simpl never.
Local Arguments N.mul : simpl never.
Local Arguments N.shiftl : simpl never.
Local Arguments N.shiftr : simpl never.
Local Arguments N.land : simpl never.
Local Arguments N.lor : simpl never.
Local Arguments N.pow : simpl never.
Local Arguments N.modulo : simpl never.
Local Arguments N.div : simpl never.
Local Arguments N.of_nat : simpl never.
Local Arguments N.to_nat : simpl never.

Module FS := GV.Spec.FormSpec.
Module FO := GV.Spec.Forest.
Module AT := GV.Model.Attr.
Module AR := GV.Model.AbbrevRd.
Module DR := GV.Model.DieRd.

(* ------------------------------------------------------------------ the writers emit the spec encodings *)

Lemma n2b_mod x : n2b (x mod 256) = n2b x.
Proof. unfold n2b. now rewrite N.mod_mod by discriminate. Qed.

Lemma le_bytes_le_enc n : forall v, le_bytes n v = FS.le_enc n v.
Proof. induction n as [|n IH]; intros v; cbn [le_bytes FS.le_enc]; [reflexivity|]. now rewrite n2b_mod, IH. Qed.

Lemma enc_un_enc_fixed n be v : enc_un n be v = FS.enc_fixed n be v.
Proof. unfold enc_un, be_bytes, FS.enc_fixed. now rewrite le_bytes_le_enc. Qed.

Lemma write_uleb_fuel_enc : forall f1 f2 v bs,
  write_uleb_fuel f1 v = Ok bs -> v < 2 ^ (7 * N.of_nat f2) -> (0 < f2)%nat -> bs = enc_uleb_fuel f2 v.
Proof.
  induction f1 as [|f1 IH]; intros f2 v bs H B P; cbn [write_uleb_fuel] in H; [discriminate|].
  rewrite low7_land255, shiftr7_div in H. unfold CONT in H.
  destruct f2 as [|f2]; [lia|]. cbn [enc_uleb_fuel].
  assert (Hx : v mod 128 < 128) by (apply N.mod_lt; discriminate).
  assert (Hv := N.div_mod v 128 ltac:(discriminate)).
  destruct (v / 128 =? 0) eqn:E.
  - apply N.eqb_eq in E. injection H as <-.
    replace (v <? 128) with true by (symmetry; apply N.ltb_lt; lia). f_equal. f_equal. lia.
  - apply N.eqb_neq in E. apply bind_ok_inv in H. destruct H as [r [Er H]]. injection H as <-.
    replace (v <? 128) with false by (symmetry; apply N.ltb_ge; lia).
    assert (Sw := sweep_lt 128 (fun x => b2n (n2b (N.lor x 128)) =? b2n (n2b (128 + x)))).
    specialize (Sw ltac:(vm_compute; reflexivity) _ Hx). cbv beta in Sw. apply N.eqb_eq in Sw. apply b2n_inj in Sw.
    rewrite Sw. f_equal.
    assert (Hf2 : (0 < f2)%nat).
    { destruct f2; [|lia]. exfalso. change (7 * N.of_nat 1) with 7 in B. change (2 ^ 7) with 128 in B. lia. }
    apply IH; [exact Er| |exact Hf2].
    replace (7 * N.of_nat (S f2)) with (7 + 7 * N.of_nat f2) in B by lia. rewrite N.pow_add_r in B.
    change (2 ^ 7) with 128 in B. apply N.div_lt_upper_bound; [discriminate|lia].
Qed.

Lemma write_uleb128_enc v bs : write_uleb128 v = Ok bs -> v < 2 ^ 64 -> bs = enc_uleb v.
Proof.
  intros H B. eapply write_uleb_fuel_enc; [exact H| |lia].
  eapply N.lt_le_trans; [exact B|]. apply N.pow_le_mono_r; [discriminate|]. cbn. lia.
Qed.

Lemma write_sleb_fuel_enc : forall f z bs, write_sleb_fuel f z = Ok bs -> bs = FS.enc_sleb_fuel f z.
Proof.
  induction f as [|f IH]; intros z bs H; cbn [write_sleb_fuel] in H; [discriminate|]. cbv zeta in H.
  cbn [FS.enc_sleb_fuel].
  assert (Hb : Z.to_N (z mod 256) < 256).
  { assert (H1 := Z.mod_pos_bound z 256 ltac:(lia)). lia. }
  assert (E6 : ((Z.shiftr z 6 =? 0)%Z || (Z.shiftr z 6 =? -1)%Z) = ((-64 <=? z) && (z <? 64))%Z).
  { rewrite Z.shiftr_div_pow2 by lia. change (2 ^ 6)%Z with 64%Z.
    assert (H0 := Z.div_mod z 64 ltac:(lia)). assert (H1 := Z.mod_pos_bound z 64 ltac:(lia)).
    destruct ((z / 64 =? 0)%Z || (z / 64 =? -1)%Z) eqn:A; destruct ((-64 <=? z) && (z <? 64))%Z eqn:B; try reflexivity; exfalso; lia. }
  rewrite E6 in H. destruct ((-64 <=? z) && (z <? 64))%Z.
  - injection H as <-. rewrite land127_mod, z_mod256_low. reflexivity.
  - apply bind_ok_inv in H. destruct H as [r [Er H]]. injection H as <-. rewrite shiftr7_z in Er.
    rewrite (IH _ _ Er). f_equal. unfold CONT.
    assert (Sw := sweep_lt 256 (fun y => b2n (n2b (N.lor y 128)) =? b2n (n2b (128 + y mod 128)))).
    specialize (Sw ltac:(vm_compute; reflexivity) _ Hb). cbv beta in Sw. apply N.eqb_eq in Sw. apply b2n_inj in Sw.
    rewrite Sw, z_mod256_low. reflexivity.
Qed.

Lemma write_sleb128_enc z bs : write_sleb128 z = Ok bs -> bs = FS.enc_sleb z.
Proof. apply write_sleb_fuel_enc. Qed.

Lemma write_udata_enc be v size b : write_udata be v size = Ok b -> v < 2 ^ 64 ->
  b = FS.enc_fixed (N.to_nat size) be v /\ v < 2 ^ (8 * size) /\ valid_size size = true.
Proof.
  unfold write_udata, valid_size. intros H B.
  destruct (size =? 1) eqn:E1.
  { apply N.eqb_eq in E1. subst. destruct (v <? 256) eqn:L; [|discriminate]. injection H as <-.
    apply N.ltb_lt in L. rewrite enc_un_enc_fixed. repeat split. exact L. }
  destruct (size =? 2) eqn:E2.
  { apply N.eqb_eq in E2. subst. destruct (v <? two16) eqn:L; [|discriminate]. injection H as <-.
    apply N.ltb_lt in L. rewrite enc_un_enc_fixed. repeat split. exact L. }
  destruct (size =? 4) eqn:E4.
  { apply N.eqb_eq in E4. subst. destruct (v <? two32) eqn:L; [|discriminate]. injection H as <-.
    apply N.ltb_lt in L. rewrite enc_un_enc_fixed. repeat split. exact L. }
  destruct (size =? 8) eqn:E8; [|discriminate].
  apply N.eqb_eq in E8. subst. injection H as <-. rewrite enc_un_enc_fixed. repeat split. exact B.
Qed.

(* ------------------------------------------------------------------ (b) the abbreviation table *)

Definition rspec (s : aspec) : AT.aspec := AT.mkSpec (as_name s) (as_form s) (as_ic s).
Definition rabbrev (code : N) (a : abbrev) : FO.abbrev :=
  FO.mkAbbrev code (ab_tag a) (ab_children a) (map rspec (ab_attrs a)).
(* the declarations AbbreviationTable::write emits: table order, codes from `code` upwards *)
Fixpoint rdecls (code : N) (tab : list abbrev) : list FO.abbrev :=
  match tab with [] => [] | a :: r => rabbrev code a :: rdecls (code + 1) r end.

(* field widths of the format: tags, names and forms are u16 and not 0, the implicit constant is an i64
   and only DW_FORM_implicit_const carries one (AttributeSpecification::new guarantees the latter) *)
Definition spec_wf (s : aspec) : Prop :=
  0 < as_name s < two16 /\ 0 < as_form s < two16 /\
  (- 9223372036854775808 <= as_ic s < 9223372036854775808)%Z /\ (as_form s <> 33 -> as_ic s = 0%Z).
Definition abbrev_wf (a : abbrev) : Prop := 0 < ab_tag a < two16 /\ Forall spec_wf (ab_attrs a).

Lemma rspec_ok s : spec_wf s -> FO.spec_ok (rspec s).
Proof. intros H. exact H. Qed.

Lemma rabbrev_ok code a : 0 < code < two64 -> abbrev_wf a -> FO.abbrev_ok (rabbrev code a).
Proof.
  intros Hc [Ht Hs]. unfold FO.abbrev_ok, rabbrev. cbn [FO.ab_code FO.ab_tag FO.ab_specs].
  split; [exact Hc|]. split; [exact Ht|]. apply Forall_map. eapply Forall_impl; [|exact Hs]. intros s. apply rspec_ok.
Qed.

Lemma aspec_write_enc s bs : aspec_write s = Ok bs -> spec_wf s -> bs = FO.enc_spec (rspec s).
Proof.
  unfold aspec_write, FO.enc_spec, rspec. cbn [AT.at_name AT.at_form AT.at_implicit].
  intros H [[_ Hn] [[_ Hf] _]]. unfold two16 in *.
  apply bind_ok_inv in H. destruct H as [n [En H]]. apply bind_ok_inv in H. destruct H as [f [Ef H]].
  apply bind_ok_inv in H. destruct H as [c [Ec H]]. injection H as <-.
  rewrite (write_uleb128_enc _ _ En) by lia. rewrite (write_uleb128_enc _ _ Ef) by lia.
  change DW_FORM_implicit_const with 33 in Ec.
  destruct (as_form s =? 33); [rewrite (write_sleb128_enc _ _ Ec)|injection Ec as <-]; reflexivity.
Qed.

Lemma aspecs_write_enc : forall l bs, aspecs_write l = Ok bs -> Forall spec_wf l ->
  bs = concat (map FO.enc_spec (map rspec l)).
Proof.
  induction l as [|s r IH]; intros bs H W; cbn [aspecs_write] in H.
  - now injection H as <-.
  - apply bind_ok_inv in H. destruct H as [x [Ex H]]. apply bind_ok_inv in H. destruct H as [y [Ey H]].
    injection H as <-. inversion W; subst. cbn [map concat].
    rewrite (aspec_write_enc _ _ Ex) by assumption. now rewrite (IH _ Ey) by assumption.
Qed.

Lemma abbrev_write_enc code a cb bs :
  write_uleb128 code = Ok cb -> code < two64 -> abbrev_write a = Ok bs -> abbrev_wf a ->
  cb ++ bs = FO.enc_abbrev (rabbrev code a).
Proof.
  intros Ec Hc H [[_ Ht] Hs]. unfold abbrev_write in H. unfold two16, two64 in *.
  apply bind_ok_inv in H. destruct H as [t [Et H]]. apply bind_ok_inv in H. destruct H as [s [Es H]].
  injection H as <-. unfold FO.enc_abbrev, rabbrev. cbn [FO.ab_code FO.ab_tag FO.ab_children FO.ab_specs].
  rewrite (write_uleb128_enc _ _ Ec) by lia. rewrite (write_uleb128_enc _ _ Et) by lia.
  rewrite (aspecs_write_enc _ _ Es Hs). reflexivity.
Qed.

Lemma abbrevs_write_from_enc : forall tab code bs,
  abbrevs_write_from code tab = Ok bs -> Forall abbrev_wf tab -> code + N.of_nat (length tab) <= two64 ->
  bs = FO.enc_abbrevs (rdecls code tab).
Proof.
  induction tab as [|a r IH]; intros code bs H W B; cbn [abbrevs_write_from rdecls] in *.
  - now injection H as <-.
  - apply bind_ok_inv in H. destruct H as [c [Ec H]]. apply bind_ok_inv in H. destruct H as [b [Eb H]].
    apply bind_ok_inv in H. destruct H as [rest [Er H]]. injection H as <-.
    inversion W; subst. cbn [length] in B.
    unfold FO.enc_abbrevs, FO.enc_decls. cbn [map concat].
    rewrite <- (abbrev_write_enc code a c b Ec ltac:(lia) Eb) by assumption.
    rewrite (IH _ _ Er) by (try assumption; lia). unfold FO.enc_abbrevs, FO.enc_decls.
    now rewrite <- !app_assoc.
Qed.

Lemma rdecls_nth : forall tab code i a, nth_error tab i = Some a ->
  nth_error (rdecls code tab) i = Some (rabbrev (code + N.of_nat i) a).
Proof.
  induction tab as [|x r IH]; intros code [|i] a H; cbn [nth_error rdecls] in *; try discriminate.
  - injection H as ->. f_equal. f_equal. lia.
  - rewrite (IH _ _ _ H). f_equal. f_equal. lia.
Qed.

Lemma rdecls_in : forall tab code d, In d (rdecls code tab) ->
  exists i a, nth_error tab i = Some a /\ d = rabbrev (code + N.of_nat i) a.
Proof.
  induction tab as [|x r IH]; intros code d H; cbn [rdecls] in H; [destruct H|].
  destruct H as [<-|H].
  - exists O, x. split; [reflexivity|]. f_equal. lia.
  - destruct (IH _ _ H) as [i [a [E ->]]]. exists (S i), a. split; [exact E|]. f_equal. lia.
Qed.

Lemma rdecls_codes_nodup : forall tab code, NoDup (map FO.ab_code (rdecls code tab)).
Proof.
  induction tab as [|x r IH]; intros code; cbn [rdecls map]; [constructor|].
  constructor; [|apply IH]. intros Hin. apply in_map_iff in Hin. destruct Hin as [d [Hc Hd]].
  destruct (rdecls_in _ _ _ Hd) as [i [a [_ ->]]]. cbn [rabbrev FO.ab_code] in Hc. lia.
Qed.

Lemma rdecls_ok : forall tab code, Forall abbrev_wf tab -> 0 < code -> code + N.of_nat (length tab) <= two64 ->
  Forall FO.abbrev_ok (rdecls code tab).
Proof.
  induction tab as [|x r IH]; intros code W P B; cbn [rdecls]; [constructor|].
  inversion W; subst. cbn [length] in B. constructor.
  - apply rabbrev_ok; [lia|assumption].
  - apply IH; [assumption|lia|lia].
Qed.

(* AbbrevRd.parse of the written table: a table whose `get code` is, for every code, the declaration
   AbbreviationTable::write emitted under that code (and nothing else) *)
Theorem abbrevs_read_by_reader_lemma dbg tab bytes rest :
  abbrevs_write tab = Ok bytes -> Forall abbrev_wf tab -> N.of_nat (length tab) < two64 ->
  exists t, AR.parse_abbrevs dbg (bytes ++ rest) = Ok (t, rest) /\
            (forall code a, abbrev_lookup tab code = Some a -> AR.tbl_get t code = Some (rabbrev code a)) /\
            (forall code d, AR.tbl_get t code = Some d ->
               exists a, abbrev_lookup tab code = Some a /\ d = rabbrev code a).
Proof.
  intros H W B. unfold abbrevs_write in H.
  assert (E := abbrevs_write_from_enc _ _ _ H W ltac:(lia)). subst bytes.
  unfold FO.enc_abbrevs. rewrite <- app_assoc. cbn [app].
  destruct (AbbrevRdProofs.abbrev_get_full dbg (rdecls 1 tab) (x00 :: rest) rest) as [t [P [G1 [G2 G3]]]].
  - apply rdecls_ok; [assumption|lia|lia].
  - apply rdecls_codes_nodup.
  - right. reflexivity.
  - exists t. split; [exact P|]. split.
    + intros code a L. unfold abbrev_lookup in L. destruct (code =? 0) eqn:Z; [discriminate|]. apply N.eqb_neq in Z.
      assert (Hn := rdecls_nth tab 1 _ _ L). replace (1 + N.of_nat (N.to_nat (code - 1))) with code in Hn by lia.
      apply nth_error_In in Hn. apply G2 in Hn. exact Hn.
    + intros code d Hg. destruct (G3 _ _ Hg) as [Hin Hc]. destruct (rdecls_in _ _ _ Hin) as [i [a [Ei ->]]].
      cbn [rabbrev FO.ab_code] in Hc. subst code. exists a. split; [|reflexivity].
      unfold abbrev_lookup. replace (1 + N.of_nat i =? 0) with false by (symmetry; apply N.eqb_neq; lia).
      replace (N.to_nat (1 + N.of_nat i - 1)) with i by lia. exact Ei.
Qed.

(* ------------------------------------------------------------------ (a) attribute values *)

Definition renc (cx : wcx) : FS.enc :=
  FS.mkEnc (e_ver (wc_enc cx)) (e_fmt64 (wc_enc cx)) (e_asz (wc_enc cx)) (wc_be cx).

Definition nth0 (l : list N) (i : nat) : N := match nth_error l i with Some o => o | None => 0 end.

(* the DWARF form and the data (in the vocabulary of Spec/FormSpec.v) that AttributeValue::write emits *)
Definition av_fd (cx : wcx) (f : eid -> list byte) (v : aval) : FS.form * FS.raw :=
  let e := wc_enc cx in
  let wform (f4 f8 : FS.form) := if e_fmt64 e then f8 else f4 in
  let secoff := if (e_ver e =? 2) || (e_ver e =? 3) then wform FS.F_data4 FS.F_data8 else FS.F_sec_offset in
  match v with
  | AvAddress (AConst x) => (FS.F_addr, FS.RNum x)
  | AvAddress (ASym _ _) => (FS.F_addr, FS.RNum 0)
  | AvBlock bs => (FS.F_block, FS.RBytes bs)
  | AvData1 x => (FS.F_data1, FS.RNum x) | AvData2 x => (FS.F_data2, FS.RNum x)
  | AvData4 x => (FS.F_data4, FS.RNum x) | AvData8 x => (FS.F_data8, FS.RNum x)
  | AvData16 x => (FS.F_data16, FS.RNum x)
  | AvSdata z => (FS.F_sdata, FS.RInt z)
  | AvUdata x => (FS.F_udata, FS.RNum x)
  | AvImplicitConst z => if 5 <=? e_ver e then (FS.F_implicit_const, FS.RNone) else (FS.F_sdata, FS.RInt z)
  | AvExprloc x => (if 4 <=? e_ver e then FS.F_exprloc else FS.F_block,
                    FS.RBytes (match x_out x with Ok b => b | _ => [] end))
  | AvFlag b => (FS.F_flag, FS.RNum (if b then 1 else 0))
  | AvFlagPresent => if 4 <=? e_ver e then (FS.F_flag_present, FS.RNone) else (FS.F_flag, FS.RNum 1)
  | AvUnitRef id => (wform FS.F_ref4 FS.F_ref8, FS.RNum (fixed_num (wc_be cx) (f id)))
  | AvDebugInfoRef _ => (FS.F_ref_addr, FS.RNum 0)
  | AvDebugInfoRefSup x => (wform FS.F_ref_sup4 FS.F_ref_sup8, FS.RNum x)
  | AvLineProgramRef => (secoff, FS.RNum (match wc_line cx with Some o => o | None => 0 end))
  | AvLocationListRef i => (secoff, FS.RNum (nth0 (wc_loc cx) i))
  | AvDebugMacinfoRef x | AvDebugMacroRef x => (secoff, FS.RNum x)
  | AvRangeListRef i => (secoff, FS.RNum (nth0 (wc_rng cx) i))
  | AvDebugTypesRef x => (FS.F_ref_sig8, FS.RNum x)
  | AvStringRef i => (FS.F_strp, FS.RNum (nth0 (wc_str cx) i))
  | AvDebugStrRefSup x => (FS.F_strp_sup, FS.RNum x)
  | AvLineStringRef i => (FS.F_line_strp, FS.RNum (nth0 (wc_lstr cx) i))
  | AvString bs => (FS.F_string, FS.RBytes bs)
  | AvEncoding x | AvDecimalSign x | AvEndianity x | AvAccessibility x | AvVisibility x | AvVirtuality x
  | AvLanguage x | AvAddressClass x | AvIdentifierCase x | AvCallingConvention x | AvInline x | AvOrdering x =>
      (FS.F_udata, FS.RNum x)
  | AvFileIndex None => (FS.F_udata, FS.RNum 0)
  | AvFileIndex (Some i) => (FS.F_udata, FS.RNum (if wc_lpv cx <=? 4 then i + 1 else i))
  end.

(* payload widths of the Rust types that AttributeValue::write does not check itself *)
Definition av_ranges (cx : wcx) (v : aval) : Prop :=
  match v with
  | AvAddress (AConst x) => x < 2 ^ 64
  | AvData1 x => x < 2 ^ 8 | AvData2 x => x < 2 ^ 16 | AvData4 x => x < 2 ^ 32
  | AvData8 x => x < 2 ^ 64 | AvData16 x => x < 2 ^ 128
  | AvDebugInfoRefSup x | AvDebugMacinfoRef x | AvDebugMacroRef x | AvDebugStrRefSup x | AvDebugTypesRef x => x < 2 ^ 64
  | AvLineProgramRef => match wc_line cx with Some o => o < 2 ^ 64 | None => True end
  | AvLocationListRef i => nth0 (wc_loc cx) i < 2 ^ 64
  | AvRangeListRef i => nth0 (wc_rng cx) i < 2 ^ 64
  | AvStringRef i => nth0 (wc_str cx) i < 2 ^ 64
  | AvLineStringRef i => nth0 (wc_lstr cx) i < 2 ^ 64
  | _ => True
  end.

Lemma le_enc_le_num : forall b, FS.le_enc (length b) (le_num b) = b.
Proof.
  induction b as [|x r IH]; cbn [length FS.le_enc le_num]; [reflexivity|].
  assert (Hx := b2n_lt x).
  set (X := b2n x + 256 * le_num r).
  assert (D := N.div_mod X 256 ltac:(discriminate)). assert (M := N.mod_lt X 256 ltac:(discriminate)).
  assert (E1 : X mod 256 = b2n x) by (unfold X in *; lia).
  assert (E2 : X / 256 = le_num r) by (unfold X in *; lia).
  rewrite E1, E2.
  now rewrite n2b_b2n, IH.
Qed.

Lemma enc_fixed_fixed_num be b : FS.enc_fixed (length b) be (fixed_num be b) = b.
Proof.
  unfold FS.enc_fixed, fixed_num. destruct be; [|apply le_enc_le_num].
  rewrite <- (rev_length b). rewrite le_enc_le_num. apply rev_involutive.
Qed.

Lemma le_num_lt : forall b, le_num b < 2 ^ (8 * N.of_nat (length b)).
Proof.
  induction b as [|x r IH]; cbn [length le_num]; [cbn; lia|].
  assert (Hx := b2n_lt x). replace (8 * N.of_nat (S (length r))) with (8 + 8 * N.of_nat (length r)) by lia.
  rewrite N.pow_add_r. change (2 ^ 8) with 256. lia.
Qed.

Lemma fixed_num_lt be b : fixed_num be b < 2 ^ (8 * N.of_nat (length b)).
Proof. unfold fixed_num. destruct be; [rewrite <- (rev_length b)|]; apply le_num_lt. Qed.

Lemma has_nul_forall bs : has_nul bs = false -> Forall (fun b => b <> x00) bs.
Proof.
  induction bs as [|b r IH]; intros H; [constructor|]. unfold has_nul in H. cbn [existsb] in H.
  apply orb_false_iff in H. destruct H as [H1 H2]. constructor; [|now apply IH].
  intros ->. discriminate.
Qed.

Lemma le_enc_zero : forall k, FS.le_enc k 0 = repeat x00 k.
Proof. induction k as [|k IH]; cbn [FS.le_enc repeat]; [reflexivity|]. change (0 / 256) with 0. now rewrite IH. Qed.

Lemma rev_repeat {A} (x : A) : forall k, rev (repeat x k) = repeat x k.
Proof.
  induction k as [|k IH]; [reflexivity|]. cbn [repeat rev]. rewrite IH. clear.
  induction k as [|k IH]; [reflexivity|]. cbn [repeat app]. now rewrite IH.
Qed.

Lemma zeros_enc_fixed n be : zeros n = FS.enc_fixed (N.to_nat n) be 0.
Proof. unfold zeros, FS.enc_fixed. rewrite le_enc_zero. destruct be; [now rewrite rev_repeat|reflexivity]. Qed.

Definition ic_of (o : option Z) : Z := match o with Some z => z | None => 0%Z end.

Lemma av_resolve dbg cx (f : eid -> list byte) v ops :
  av_write dbg cx v = Ok ops -> av_decodable v -> av_typed cx v -> av_ranges cx v ->
  (forall id, UnitWr.blen (f id) = wsz (wc_enc cx)) ->
  FS.form_code (fst (av_fd cx f v)) = fst (av_form (wc_enc cx) v) /\
  fst (av_fd cx f v) <> FS.F_indirect /\
  (fst (av_fd cx f v) <> FS.F_implicit_const -> snd (av_form (wc_enc cx) v) = None) /\
  FS.enc_layout (FS.form_layout (fst (av_fd cx f v)) (renc cx)) (wc_be cx) (snd (av_fd cx f v)) = Some (ops_resolved f ops) /\
  FS.raw_fits (FS.form_layout (fst (av_fd cx f v)) (renc cx)) (snd (av_fd cx f v)) /\
  (forall name, exists val, FS.form_value (renc cx) name (ic_of (snd (av_form (wc_enc cx) v))) (fst (av_fd cx f v)) (snd (av_fd cx f v)) = Some val).
Proof.
  destruct cx as [e be u uoff ents codes line lstr str rng loc lpv].
  destruct e as [ver fmt asz].
  unfold renc, av_typed, av_ranges, av_decodable, nth0. cbn [wc_enc wc_be wc_line wc_loc wc_rng wc_str wc_lstr wc_lpv e_ver e_fmt64 e_asz].
  intros H X T R Hf.
  destruct v; unfold av_write in H; cbn [wc_enc wc_be wc_line wc_loc wc_rng wc_str wc_lstr wc_lpv] in *;
    unfold av_fd, nth0; cbn [wc_enc wc_be wc_line wc_loc wc_rng wc_str wc_lstr wc_lpv e_ver e_fmt64 e_asz];
    revert H; unfold_asserts; case_ver ver; destruct fmt; asserts; intros H.
  all: try (exfalso; lia).
  all: try match goal with H : match ?a with AConst _ => _ | ASym _ _ => _ end = _ |- _ => destruct a; [|discriminate] end.
  all: try match goal with H : match ?l with Some _ => _ | None => _ end = Ok _ |- _ => destruct l; [|discriminate] end.
  all: try match goal with H : match ?r with DSym _ => _ | DEntry _ _ => _ end = _ |- _ => destruct r; [discriminate|] end.
  all: try match goal with H : (if valid_size ?s then _ else _) = _ |- _ => destruct (valid_size s) eqn:?; [|discriminate] end.
  all: binds.
  all: try match goal with H : Ok _ = Ok _ |- _ => injection H as <- end.
  all: try match goal with |- context [match ?o with Some _ => (FS.F_udata, _) | None => _ end] => destruct o end.
  all: cbn [fst snd ic_of].
  all: split; [reflexivity|].
  all: split; [discriminate|].
  all: split; [try reflexivity; intros Q; exfalso; apply Q; reflexivity|].
  all: unfold ops_resolved; cbn [flat_map op_resolved op_bytes app]; rewrite ?app_nil_r.
  all: cbn [FS.form_layout FS.version FS.fmt64 FS.address_size FS.be FS.word_bytes FS.enc_layout FS.raw_fits FS.form_value FS.enc_prefix FS.prefix_bound].
  all: (split; [|split; [|intros name; eexists; reflexivity]]).
  all: try match goal with E : idx_get ?l ?i = Ok _ |- _ =>
         unfold idx_get, unwrap in E; destruct (nth_error l i); [|discriminate]; injection E as -> end.
  all: try match goal with E : write_udata _ ?v _ = Ok ?a |- _ =>
         let B := fresh "B" in assert (B : v < 2 ^ 64) by (first [assumption | lia]);
         destruct (write_udata_enc _ _ _ _ E B) as [-> [? ?]] end.
  all: try match goal with E : write_uleb128 ?v = Ok ?a |- _ =>
         let B := fresh "B" in assert (B : v < 2 ^ 64) by (first [assumption | unfold UnitWr.blen in *; lia | idtac]) end.
  all: try reflexivity.
  all: try assumption.
  all: try (unfold two64; unfold UnitWr.blen in *; lia).
  all: try (rewrite enc_un_enc_fixed; reflexivity).
  all: try (rewrite (write_uleb128_enc _ _ ltac:(eassumption)) by assumption; reflexivity).
  all: try (rewrite (write_sleb128_enc _ _ ltac:(eassumption)); reflexivity).
  all: try (apply has_nul_forall; assumption).
  all: try (destruct b; destruct be; reflexivity).
  all: try (destruct be; reflexivity).
  all: try (destruct b; vm_compute; reflexivity).
  all: try (rewrite (zeros_enc_fixed _ be); reflexivity).
  (* expressions *)
  all: try match goal with E1 : x_out ?x = Ok ?b, E : x_size ?x = Ok ?n |- _ =>
         rewrite (X _ E1) in E; injection E as <-; rewrite E1;
         destruct T as [n0 [bs0 [T1 [T2 T3]]]]; rewrite (X _ E1) in T1; injection T1 as <-;
         first [ rewrite (write_uleb128_enc _ _ ltac:(eassumption)) by (unfold UnitWr.blen in *; lia); reflexivity
               | unfold two64, UnitWr.blen in *; lia ] end.
  (* patched unit references *)
  all: try match goal with |- Some (FS.enc_fixed (N.to_nat ?w) ?be (fixed_num ?be (?f ?id))) = Some (?f ?id) =>
         specialize (Hf id); unfold wsz in Hf; cbn [e_fmt64] in Hf;
         replace (N.to_nat w) with (length (f id)) by (unfold UnitWr.blen in Hf; lia);
         now rewrite enc_fixed_fixed_num end.
  all: try match goal with |- fixed_num ?be (?f ?id) < _ =>
         specialize (Hf id); unfold wsz in Hf; cbn [e_fmt64] in Hf;
         assert (L := fixed_num_lt be (f id)); unfold UnitWr.blen in Hf; rewrite Hf in L; exact L end.
  (* file indices *)
  all: try match goal with E : file_raw _ _ (Some ?n) = Ok ?a |- _ =>
         apply file_raw_val in E; unfold wrapN in E; rewrite N.mod_small in E by lia; subst a end.
  all: try match goal with E : file_raw _ _ None = Ok ?a |- _ => cbn in E; injection E as <- end.
  all: try (rewrite (write_uleb128_enc _ _ ltac:(eassumption)) by (destruct (lpv <=? 4); lia); reflexivity).
  all: try (unfold two64; destruct (lpv <=? 4); lia).
Qed.

(* the meaning of the value that was set: number, bytes or flag *)
Definition av_payload (cx : wcx) (f : eid -> list byte) (v : aval) : FS.payload :=
  match v with
  | AvFlag b => FS.PFlag b
  | AvFlagPresent => FS.PFlag true
  | AvImplicitConst z => FS.PInt z
  | _ => match snd (av_fd cx f v) with
         | FS.RNum n => FS.PInt (Z.of_N n) | FS.RInt z => FS.PInt z | FS.RBytes b => FS.PBytes b
         | FS.RNone => FS.PFlag true
         end
  end.

Lemma av_payload_ok cx f name v val :
  FS.form_value (renc cx) name (ic_of (snd (av_form (wc_enc cx) v))) (fst (av_fd cx f v)) (snd (av_fd cx f v)) = Some val ->
  FS.payload_of val = av_payload cx f v.
Proof.
  destruct cx as [e be u uoff ents codes line lstr str rng loc lpv]. destruct e as [ver fmt asz].
  unfold renc, av_payload. cbn [wc_enc wc_be e_ver e_fmt64 e_asz].
  destruct v; unfold av_fd, av_form, word_form; cbn [wc_enc wc_be wc_line wc_loc wc_rng wc_str wc_lstr wc_lpv e_ver e_fmt64 e_asz];
    case_ver ver; try destruct fmt; cbn [fst snd ic_of FS.form_value FS.fmt64 FS.version negb andb].
  all: try match goal with a : address |- _ => destruct a end.
  all: try match goal with |- context [match ?o with Some _ => (FS.F_udata, _) | None => _ end] => destruct o end.
  all: cbn [fst snd FS.form_value FS.fmt64 FS.version negb andb].
  all: intros H; try (injection H as <-); try reflexivity.
  all: try (destruct (FS.legacy_section_offset name ver); reflexivity).
  all: try (destruct b; reflexivity).
Qed.

(* (a) Attr.parse_attribute — the model of gimli's attribute reader — on the written (and patched) bytes of
   one attribute, under the specification the writer puts into the abbreviation (name, form chosen by `form`,
   implicit constant), returns exactly the value FormSpec assigns to the emitted form and data, consumes
   exactly those bytes, and that value means what was set *)
Theorem attr_read_by_reader_lemma dbg dbg' cx (f : eid -> list byte) name v ops rest :
  av_write dbg cx v = Ok ops -> av_decodable v -> av_typed cx v -> av_ranges cx v ->
  (forall id, UnitWr.blen (f id) = wsz (wc_enc cx)) -> AttrProofs.addr_size_ok (renc cx) ->
  exists val,
    AT.parse_attribute dbg' (renc cx) (AT.mkSpec name (fst (av_form (wc_enc cx) v)) (ic_of (snd (av_form (wc_enc cx) v))))
                       (ops_resolved f ops ++ rest) = Ok (val, rest) /\
    FS.form_value (renc cx) name (ic_of (snd (av_form (wc_enc cx) v))) (fst (av_fd cx f v)) (snd (av_fd cx f v)) = Some val /\
    FS.payload_of val = av_payload cx f v.
Proof.
  intros H X T R Hf HA.
  destruct (av_resolve dbg cx f v ops H X T R Hf) as [C1 [C2 [C3 [C4 [C5 C6]]]]].
  destruct (C6 name) as [val Hval]. exists val. split; [|split; [exact Hval|eapply av_payload_ok; exact Hval]].
  rewrite <- C1.
  assert (RT := AttrProofs.attr_roundtrip dbg' (renc cx) name (ic_of (snd (av_form (wc_enc cx) v))) O
                  (fst (av_fd cx f v)) (snd (av_fd cx f v)) (ops_resolved f ops) val rest C2 HA (fun _ => eq_refl) C5).
  replace (FS.be (renc cx)) with (wc_be cx) in RT by reflexivity.
  specialize (RT C4 Hval). cbn [FS.spec_form FS.enc_hops app] in RT. exact RT.
Qed.
