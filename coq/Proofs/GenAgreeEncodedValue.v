(* Proofs/GenAgreeEncodedValue.v — translator tie for parse_encoded_value (src/read/cfi.rs): the format -> reader
   dispatch regenerated from the source text (coq/Gen/EncodedValue.v) against Model/CfiRd.v parse_encoded_value,
   for EVERY encoding value, byte order, build mode, parameter block and input. *)
From Coq Require Import List NArith ZArith Bool String Lia.
From Coq.Strings Require Import Byte.
Require Import GV.Base.Res GV.Base.Byt GV.Base.Ints GV.Model.Leb GV.Model.Prim GV.Proofs.GenSweep.
Require GV.Gen.EncodedValue GV.Gen.EhPe.
Require Import GV.Model.CfiRd.
Import ListNotations.
Local Open Scope string_scope.
Local Open Scope N_scope.

Fixpoint lookup_ev (n : N) (l : list (N * (string * string))) : option (string * string) :=
  match l with [] => None | (k, v) :: r => if n =? k then Some v else lookup_ev n r end.

(* the Reader method named by the table, as the primitive of Model/Leb.v / Model/Prim.v; None: not a known pairing *)
Definition reader_of (dbg be : bool) (asz : N) (call cast : string) : option (list byte -> res (N * list byte)) :=
  let signed (n : nat) := Some (fun bs => let* (z, r) := read_in n be bs in Ok (of_i64 z, r)) in
  if String.eqb call "read_address" && String.eqb cast "" then Some (read_address asz be)
  else if String.eqb call "read_uleb128" && String.eqb cast "" then Some (read_uleb128 dbg)
  else if String.eqb call "read_u16" && String.eqb cast "u64::from" then Some (read_un 2 be)
  else if String.eqb call "read_u32" && String.eqb cast "u64::from" then Some (read_un 4 be)
  else if String.eqb call "read_u64" && String.eqb cast "" then Some (read_un 8 be)
  else if String.eqb call "read_sleb128" && String.eqb cast "as u64"
       then Some (fun bs => let* (z, r) := read_sleb128 dbg bs in Ok (of_i64 z, r))
  else if String.eqb call "read_i16" && String.eqb cast "as u64" then signed 2%nat
  else if String.eqb call "read_i32" && String.eqb cast "as u64" then signed 4%nat
  else if String.eqb call "read_i64" && String.eqb cast "as u64" then signed 8%nat
  else None.

(* parse_encoded_value as the regenerated table describes it; formats without an arm: unreachable!() = Panic *)
Definition gen_parse_encoded_value (dbg be : bool) (enc : N) (pp : pparams) (r : rd) : res (N * rd) :=
  match lookup_ev (GV.Gen.EhPe.format enc) EncodedValue.encoded_value_table with
  | Some (call, cast) =>
      match reader_of dbg be (pp_asz pp) call cast with
      | Some f => lift f r
      | None => OutOfFuel      (* never equal to a model result below *)
      end
  | None => Panic
  end.

Lemma lift_signed : forall (f : list byte -> res (Z * list byte)) r,
  (let* (z, r1) := lift f r in Ok (of_i64 z, r1)) =
  lift (fun bs => let* (z, r0) := f bs in Ok (of_i64 z, r0)) r.
Proof. intros f r. unfold lift. destruct (f (win r)) as [[z rest]| | |]; reflexivity. Qed.

(* the model's dispatch is the one of the Rust source: same reader, same conversion, for every format;
   a format without an arm is unreachable!() = Panic in both *)
Lemma gen_parse_encoded_value_agree : forall dbg be enc pp r,
  parse_encoded_value dbg be enc pp r = gen_parse_encoded_value dbg be enc pp r.
Proof.
  intros dbg be enc pp r. unfold parse_encoded_value, gen_parse_encoded_value.
  change (GV.Gen.EhPe.format enc) with (pe_format enc). generalize (pe_format enc). intros f. cbv zeta.
  unfold EncodedValue.encoded_value_table. cbn [lookup_ev].
  repeat match goal with
         | |- context [N.eqb f ?k] => destruct (N.eqb f k) eqn:?;
             [first [reflexivity | rewrite lift_signed; reflexivity]|]
         end.
  reflexivity.
Qed.

(* the table has an arm for exactly the formats is_valid_encoding accepts (so unreachable!() is unreachable after
   parse_pointer_encoding), each keyed once *)
Lemma gen_encoded_value_formats :
  forallb (fun f => Bool.eqb (match lookup_ev f EncodedValue.encoded_value_table with Some _ => true | None => false end)
                             (GV.Gen.EhPe.format_known f)) (count_up 256) = true /\
  forallb (fun p => match reader_of false false 8 (fst (snd p)) (snd (snd p)) with Some _ => true | None => false end)
          EncodedValue.encoded_value_table = true.
Proof. split; vm_compute; reflexivity. Qed.
