(* Proofs/ConvertExprProofs.v — C12 ∘ C15, expressions: every arm of Expression::from yields the write
   operation whose written bytes decode (Spec/OpEncSpec.v, theorems decode_written / branches_land of C15) to the
   source operation, up to the documented normal forms; branches land on the operation their source target
   designated; a target that is not an operation start is InvalidBranchTarget. *)
From Coq Require Import List NArith ZArith Bool Lia ZifyBool ZifyN ZifyNat.
From Coq.Strings Require Import Byte.
Require Import GV.Base.Res GV.Base.Byt GV.Base.Ints GV.Model.Leb GV.Model.Prim.
Require Import GV.Spec.OpEncSpec GV.Model.OpWr GV.Model.OpDec GV.Model.ConvertExpr.
Require Import GV.Proofs.OpWrProofs GV.Proofs.OpWrDec.
Import ListNotations.
Local Open Scope N_scope.
Local Arguments N.add : simpl never.
Local Arguments N.sub : simpl never.
Local Arguments N.mul : simpl never.
Local Arguments N.div : simpl never.
Local Arguments N.pow : simpl never.

Lemma bind_inv {A B} (r : res A) (f : A -> res B) b :
  (let* x := r in f x) = Ok b -> exists a, r = Ok a /\ f a = Ok b.
Proof. apply bind_ok. Qed.

Lemma of_option_ok {A} er (o : option A) a : of_option er o = Ok a -> o = Some a.
Proof. destruct o; cbn; intros H; inversion H; reflexivity. Qed.

Ltac binds H :=
  repeat match type of H with
         | bind _ _ = Ok _ => let v := fresh "v" in let Hv := fresh "Hv" in
                              apply bind_inv in H; destruct H as [v [Hv H]]
         end.

Section Same.
  Variable e : OpDec.enc.
  Variable unit_addr : option (N -> res N).
  Variable cvt_addr : N -> option waddr.
  Variable unit_ref : N -> res N.
  Variable info_ref : N -> res dref.
  Variable nested : list byte -> res wexpr.
  (* the writer's side *)
  Variable dbg' : bool.
  Variable we : OpWr.enc.
  Variable uo : option uoffs.
  Variable refs : bool.
  Hypothesis Hasz : OpWr.e_asize we = e_asz e.

  Definition nested_written (x wb : list byte) : Prop :=
    exists inner p fx, nested x = Ok inner /\ write_expr dbg' we uo refs p inner = Ok (wb, fx).

  Notation same := (same_op unit_addr cvt_addr unit_ref info_ref (entry_offset dbg' uo) nested_written).

  Ltac simple_nf Hn := vm_compute in Hn; inversion Hn; reflexivity.

  (* every arm of the conversion: the normal form (C15) of the operation it produces is the source operation *)
  Lemma conv_op_same soffs woffs wpos o end_ wo bs d :
    conv_op e unit_addr cvt_addr unit_ref info_ref nested soffs o end_ = Ok wo ->
    normal_form dbg' we uo refs woffs wpos wo bs d ->
    same soffs woffs wpos o end_ d.
  Proof.
    intros Hc Hn.
    destruct o; cbn [conv_op] in Hc; cbn [same_op];
      try (inversion Hc; subst wo; clear Hc; cbn [normal_form] in Hn; first [exact Hn|simple_nf Hn]).
    - (* deref *)
      destruct (base_type =? 0) eqn:E0; cbn [negb] in Hc.
      + destruct (size =? e_asz e) eqn:E1; cbn [negb] in Hc; inversion Hc; subst wo; cbn [normal_form] in Hn.
        * assert (base_type = 0) by lia. assert (size = e_asz e) by lia. subst base_type size. rewrite Hasz in Hn. exact Hn.
        * assert (base_type = 0) by lia. subst base_type. exact Hn.
      + binds Hc. inversion Hc; subst wo. cbn [normal_form] in Hn. destruct Hn as [off [Ho ->]].
        exists v, off. auto.
    - (* bra *)
      binds Hc. inversion Hc; subst wo. cbn [normal_form] in Hn. destruct Hn as [tv [disp [Ht [Hd ->]]]].
      unfold branch_index in Hv. apply of_option_ok in Hv. exists v, tv, disp. auto.
    - (* skip *)
      binds Hc. inversion Hc; subst wo. cbn [normal_form] in Hn. destruct Hn as [tv [disp [Ht [Hd ->]]]].
      unfold branch_index in Hv. apply of_option_ok in Hv. exists v, tv, disp. auto.
    - (* register offset / regval_type *)
      destruct (base_type =? 0) eqn:E0; cbn [negb] in Hc.
      + inversion Hc; subst wo. cbn [normal_form] in Hn. exact Hn.
      + binds Hc. inversion Hc; subst wo. cbn [normal_form] in Hn. destruct Hn as [off [Ho ->]]. exists v, off. auto.
    - (* call *)
      destruct offset as [off|off]; binds Hc; inversion Hc; subst wo; cbn [normal_form] in Hn.
      + destruct Hn as [o2 [Ho ->]]. exists v, o2. auto.
      + destruct v as [sy|u en]; [contradiction|]. split; [exists u, en; exact Hv|exact Hn].
    - (* variable_value *)
      binds Hc; inversion Hc; subst wo; cbn [normal_form] in Hn.
      destruct v as [sy|u en]; [contradiction|]. split; [exists u, en; exact Hv|exact Hn].
    - (* piece *)
      destruct bit_offset as [bo|]; inversion Hc; subst wo; cbn [normal_form] in Hn; exact Hn.
    - (* implicit_pointer *)
      binds Hc; inversion Hc; subst wo; cbn [normal_form] in Hn.
      destruct v as [sy|u en]; [contradiction|]. split; [exists u, en; exact Hv|exact Hn].
    - (* entry_value *)
      binds Hc; inversion Hc; subst wo; cbn [normal_form] in Hn.
      destruct Hn as [lb [inner [fx [_ [-> Hw]]]]]. exists inner. split; [|reflexivity].
      exists v, (wpos + 1 + blen lb), fx. auto.
    - (* parameter_ref *)
      binds Hc; inversion Hc; subst wo; cbn [normal_form] in Hn. destruct Hn as [o2 [Ho ->]]. exists v, o2. auto.
    - (* addr *)
      binds Hc; inversion Hc; subst wo; cbn [normal_form] in Hn.
      unfold convert_address in Hv. apply of_option_ok in Hv.
      destruct v as [a|sy ad]; [|contradiction]. exists a. auto.
    - (* addrx *)
      binds Hc; inversion Hc; subst wo; cbn [normal_form] in Hn.
      apply of_option_ok in Hv. unfold convert_address in Hv1. apply of_option_ok in Hv1.
      destruct v1 as [a|sy ad]; [|contradiction]. exists v, v0, a. auto.
    - (* constx *)
      binds Hc; inversion Hc; subst wo; cbn [normal_form] in Hn.
      apply of_option_ok in Hv. exists v, v0. auto.
    - (* const_type *)
      binds Hc; inversion Hc; subst wo; cbn [normal_form] in Hn. destruct Hn as [o2 [Ho ->]]. exists v, o2. auto.
    - (* convert *)
      destruct (base_type =? 0) eqn:E0.
      + inversion Hc; subst wo. cbn [normal_form] in Hn. exact Hn.
      + binds Hc. inversion Hc; subst wo. cbn [normal_form] in Hn. destruct Hn as [off [Ho ->]]. exists v, off. auto.
    - (* reinterpret *)
      destruct (base_type =? 0) eqn:E0.
      + inversion Hc; subst wo. cbn [normal_form] in Hn. exact Hn.
      + binds Hc. inversion Hc; subst wo. cbn [normal_form] in Hn. destruct Hn as [off [Ho ->]]. exists v, off. auto.
  Qed.
End Same.

(* ------------------------------------------------------------------ branch targets *)

Lemma index_of_some x : forall l i k, index_of x l i = Some k ->
  i <= k /\ nth_error l (N.to_nat (k - i)) = Some x.
Proof.
  induction l as [|y r IH]; intros i k H; cbn [index_of] in H; [discriminate|].
  destruct (y =? x) eqn:E.
  - inversion H; subst. assert (y = x) by lia. subst. rewrite N.sub_diag. split; [lia|reflexivity].
  - apply IH in H. destruct H as [Hle Hn]. split; [lia|].
    replace (N.to_nat (k - i)) with (S (N.to_nat (k - (i + 1)))) by lia. exact Hn.
Qed.

Lemma index_of_none x : forall l i, index_of x l i = None <-> ~ In x l.
Proof.
  induction l as [|y r IH]; intros i; cbn [index_of In]; [tauto|].
  destruct (y =? x) eqn:E.
  - split; [discriminate|]. intros H. exfalso. apply H. left. lia.
  - rewrite IH. split; intros H; [intros [H1|H1]; [lia|tauto]|tauto].
Qed.

(* a branch whose target (offset after the operation + displacement, usize arithmetic) is not the start of
   an operation of the expression nor its end is rejected — never redirected *)
Lemma branch_target_exact_lemma e unit_addr cvt_addr unit_ref info_ref nested offsets end_ target :
  let tgt := wrap64 (end_ + of_i64 target) in
  (~ In tgt offsets ->
     conv_op e unit_addr cvt_addr unit_ref info_ref nested offsets (OBra target) end_ = Err CInvalidBranchTarget /\
     conv_op e unit_addr cvt_addr unit_ref info_ref nested offsets (OSkip target) end_ = Err CInvalidBranchTarget) /\
  (forall i, conv_op e unit_addr cvt_addr unit_ref info_ref nested offsets (OBra target) end_ = Ok (WoBranch i) ->
     nth_error offsets (N.to_nat i) = Some tgt) /\
  (forall i, conv_op e unit_addr cvt_addr unit_ref info_ref nested offsets (OSkip target) end_ = Ok (WoSkip i) ->
     nth_error offsets (N.to_nat i) = Some tgt).
Proof.
  cbv zeta. cbn [conv_op]. unfold branch_index. split; [|split].
  - intros H. apply index_of_none with (i := 0) in H. rewrite H. cbn. auto.
  - intros i H. destruct (index_of _ offsets 0) as [k|] eqn:E; cbn in H; inversion H; subst.
    apply index_of_some in E. rewrite N.sub_0_r in E. apply E.
  - intros i H. destruct (index_of _ offsets 0) as [k|] eqn:E; cbn in H; inversion H; subst.
    apply index_of_some in E. rewrite N.sub_0_r in E. apply E.
Qed.

(* ------------------------------------------------------------------ the whole expression *)

Lemma conv_ops_forall2 e unit_addr cvt_addr unit_ref info_ref nested offsets : forall l ex,
  conv_ops e unit_addr cvt_addr unit_ref info_ref nested offsets l = Ok ex ->
  Forall2 (fun x wo => conv_op e unit_addr cvt_addr unit_ref info_ref nested offsets (fst x) (snd x) = Ok wo) l ex.
Proof.
  induction l as [|[o end_] l IH]; intros ex H; cbn [conv_ops] in H.
  - inversion H. constructor.
  - binds H. inversion H; subst. constructor; [exact Hv|apply IH; exact Hv0].
Qed.

Lemma forall2_nth {A B} (P : A -> B -> Prop) : forall l l', Forall2 P l l' ->
  forall k a, nth_error l k = Some a -> exists b, nth_error l' k = Some b /\ P a b.
Proof.
  induction 1 as [|x y l l' Hp _ IH]; intros k a Hk; [destruct k; discriminate|].
  destruct k as [|k]; cbn [nth_error] in *; [inversion Hk; subst; eauto|apply IH; exact Hk].
Qed.

Lemma forall2_len {A B} (P : A -> B -> Prop) l l' : Forall2 P l l' -> length l = length l'.
Proof. induction 1; cbn; congruence. Qed.

(* expr_convert_sound, one level of nesting (entry_value blocks: same_op says that the block is the written
   conversion of the source block, to which the statement applies again) *)
Lemma expr_convert_sound_lemma e unit_addr cvt_addr unit_ref info_ref nested
      (l : list (operation * N)) (ex : wexpr)
      (dbg' : bool) (we : OpWr.enc) (uo : option uoffs) (refs : bool) (base : N) (wbs : list byte) (fx : list fixup) :
  conv_ops e unit_addr cvt_addr unit_ref info_ref nested (offsets_of l) l = Ok ex ->
  OpWr.e_asize we = e_asz e ->
  forallb wf_op ex = true -> wf_uoffs uo = true -> forallb decodable ex = true ->
  base + blen wbs < 2 ^ 63 ->
  write_expr dbg' we uo refs base ex = Ok (wbs, fx) ->
  exists woffs dl,
    expr_offsets dbg' we uo base ex = Ok woffs /\
    decode (dcfg_of we) wbs = Some dl /\ length dl = length l /\
    forall k o end_, nth_error l k = Some (o, end_) ->
      exists p d, nth_error woffs k = Some p /\ nth_error dl k = Some (p - base, d) /\
        same_op unit_addr cvt_addr unit_ref info_ref (entry_offset dbg' uo)
                (nested_written nested dbg' we uo refs) (offsets_of l) woffs p o end_ d.
Proof.
  intros Hc Hasz Hwf Huo Hdec Hpos Hw.
  destruct (decode_written_expr dbg' we uo refs base ex wbs fx Hwf Huo Hdec Hpos Hw) as [woffs [dl [Ho [Hd Hdd]]]].
  apply conv_ops_forall2 in Hc.
  exists woffs, dl. split; [exact Ho|]. split; [exact Hd|]. split.
  - apply decoded_len in Hdd. destruct Hdd as [L _]. rewrite L. symmetry. eapply forall2_len; eauto.
  - intros k o end_ Hk.
    destruct (forall2_nth _ _ _ Hc k _ Hk) as [wo [Hwo Hco]]. cbn [fst snd] in Hco.
    destruct (decoded_nth _ _ _ _ _ Hdd k wo Hwo) as [p [d [Hp [Hdl [b Hn]]]]].
    exists p, d. split; [exact Hp|]. split; [exact Hdl|].
    eapply conv_op_same; eauto.
Qed.
