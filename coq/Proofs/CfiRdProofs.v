(* Proofs/CfiRdProofs.v — lemmas about Model/CfiRd.v against Spec/CfiSpec.v (property C05). *)
From Coq Require Import List NArith ZArith Bool Lia ZifyBool ZifyN ZifyNat.
From Coq.Strings Require Import Byte.
Require Import GV.Base.Res GV.Base.Byt GV.Base.Ints GV.Model.Leb GV.Model.Prim GV.Spec.LebSpec.
Require Import GV.Spec.CfiSpec GV.Model.CfiRd.
Import ListNotations.
Local Open Scope N_scope.

Local Ltac Zify.zify_post_hook ::= Z.div_mod_to_equations.
Local Arguments N.add : simpl never.
Local Arguments N.sub : simpl never.
Local Arguments N.mul : simpl never.
Local Arguments N.shiftl : simpl never.
Local Arguments N.shiftr : simpl never.
Local Arguments N.land : simpl never.
Local Arguments N.lor : simpl never.
Local Arguments N.pow : simpl never.
Local Arguments N.div : simpl never.
Local Arguments N.modulo : simpl never.

(* ================================================================== 1. DW_EH_PE bytes *)

Definition all256 : list N := map N.of_nat (seq 0 256).

Lemma in_all256 e : e < 256 -> In e all256.
Proof.
  intros H. unfold all256. apply in_map_iff. exists (N.to_nat e). split.
  - apply N2Nat.id.
  - apply in_seq. lia.
Qed.

Lemma sweep256 (P : N -> bool) : forallb P all256 = true -> forall e, e < 256 -> P e = true.
Proof. intros H e He. rewrite forallb_forall in H. apply H, in_all256, He. Qed.

Lemma pe_valid_all_lem : forall e, e < 256 -> pe_is_valid e = valid_spec e.
Proof.
  intros e He.
  apply (sweep256 (fun e => Bool.eqb (pe_is_valid e) (valid_spec e))) in He.
  - now apply eqb_prop.
  - vm_compute. reflexivity.
Qed.

Lemma pe_decomp_lem : forall e, e < 256 ->
  pe_format e = fmt_of e /\ pe_application e = app_of e /\
  pe_is_indirect e = negb (ind_of e =? 0) /\ pe_is_absent e = (e =? 255) /\
  e = fmt_of e + app_of e + ind_of e.
Proof.
  intros e He.
  apply (sweep256 (fun e => (pe_format e =? fmt_of e) && (pe_application e =? app_of e)
            && Bool.eqb (pe_is_indirect e) (negb (ind_of e =? 0))
            && Bool.eqb (pe_is_absent e) (e =? 255)
            && (e =? fmt_of e + app_of e + ind_of e))) in He.
  - repeat rewrite andb_true_iff in He. destruct He as [[[[H1 H2] H3] H4] H5].
    apply N.eqb_eq in H1, H2, H5. apply eqb_prop in H3, H4. auto.
  - vm_compute. reflexivity.
Qed.

(* the parser accepts exactly the valid bytes *)
Lemma parse_pointer_encoding_spec : forall o b rest,
  parse_pointer_encoding (mkrd o (b :: rest)) =
  if valid_spec (b2n b) then Ok (b2n b, mkrd (o + 1) rest) else Err EUnknownPointerEncoding.
Proof.
  intros. unfold parse_pointer_encoding, rd_u8, lift. cbn [win off read_u8 bind].
  rewrite pe_valid_all_lem by apply b2n_lt.
  replace (o + (nlen (b :: rest) - nlen rest)) with (o + 1).
  - reflexivity.
  - unfold nlen. cbn [length]. lia.
Qed.
