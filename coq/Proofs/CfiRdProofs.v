(* Proofs/CfiRdProofs.v — C05 lemma index. The development is split by topic:
     CfiRdBase  bytes, fixed-width / ULEB / SLEB read-after-encode, reader algebra, DW_EH_PE sweeps
     CfiRdPtr   parse_encoded_value / parse_encoded_pointer = ptr_spec (all inputs; round trip)
     CfiRdBs    EhHdrTable::lookup loop invariant, bs_index
     CfiRdIter  fde_for_address = exhaustive scan
     CfiRdSafe  no panic / fuel suffices for every byte string
     CfiRdEnt   decoding of sections produced by Spec.CfiSpec.enc_section
   This file adds the concrete witnesses of the two known overflow classes and a few corollaries
   in the exact shape used by Properties/C05.v. *)
From Coq Require Import List NArith ZArith Bool Lia ZifyBool ZifyN ZifyNat.
From Coq.Strings Require Import Byte.
Require Import GV.Base.Res GV.Base.Byt GV.Base.Ints GV.Model.Leb GV.Model.Prim GV.Spec.LebSpec.
Require Import GV.Spec.CfiSpec GV.Model.CfiRd.
Require Export GV.Proofs.CfiRdBase GV.Proofs.CfiRdPtr GV.Proofs.CfiRdBs GV.Proofs.CfiRdIter
               GV.Proofs.CfiRdSafe GV.Proofs.CfiRdEnt GV.Proofs.CfiRdHdr GV.Proofs.CfiRdHist.
Import ListNotations.
Local Open Scope N_scope.

(* ------------------------------------------------------------------ clause 1 *)
Lemma pe_valid_all_lem : forall e, e < 256 -> pe_is_valid e = valid_spec e.
Proof. exact pe_valid_all_lem_base. Qed.

Lemma pe_decomp_lem : forall e, e < 256 ->
  pe_format e = fmt_of e /\ pe_application e = app_of e /\
  pe_is_indirect e = negb (ind_of e =? 0) /\ pe_is_absent e = (e =? 255) /\
  e = fmt_of e + app_of e + ind_of e.
Proof. exact pe_decomp_base. Qed.

Lemma parse_pointer_encoding_spec : forall o b rest,
  parse_pointer_encoding (mkrd o (b :: rest)) =
  if valid_spec (b2n b) then Ok (b2n b, mkrd (o + 1) rest) else Err EUnknownPointerEncoding.
Proof.
  intros. unfold parse_pointer_encoding. rewrite rd_u8_cons. cbn [bind].
  rewrite pe_valid_all_lem by apply b2n_lt. reflexivity.
Qed.

(* ------------------------------------------------------------------ formerly overflowing inputs *)
Definition no_bases : sbases := mksb None None None.

(* .eh_frame_hdr: version 1, eh_frame_ptr udata4 = 0x100, fde_count udata8 = 2^63, table udata8:
   (len / 2) * row_size does not fit u64 *)
Definition mul_witness : list byte :=
  map n2b [1; 3; 4; 4;  0; 1; 0; 0;  0; 0; 0; 0; 0; 0; 0; 128;
           0; 0; 0; 0; 0; 0; 0; 0; 0; 0; 0; 0; 0; 0; 0; 0].

Lemma lookup_mul_overflow_witness : forall dbg,
  exists h, hdr_parse dbg false no_bases 8 mul_witness = Ok h /\ hdr_table h = Some h /\
            hdr_lookup dbg no_bases h 5 = Err EUnexpectedEof.
Proof. intros [|]; eexists; (split; [vm_compute; reflexivity|]); split; vm_compute; reflexivity. Qed.

(* one row (0x10 -> address 0xff) below eh_frame_ptr = 0x100 *)
Definition s1_witness : list byte :=
  map n2b [1; 3; 3; 3;  0; 1; 0; 0;  1; 0; 0; 0;  16; 0; 0; 0;  255; 0; 0; 0].

Lemma pointer_to_offset_underflow_witness : forall dbg,
  exists h p, hdr_parse dbg false no_bases 8 s1_witness = Ok h /\
              hdr_lookup dbg no_bases h 32 = Ok p /\
              pointer_to_offset dbg h p = Err EOffsetOutOfBounds /\
              hdr_fde_for_address dbg no_bases h (mkcfg true false 8 no_bases) [] 32 = Err EOffsetOutOfBounds.
Proof.
  intros [|]; eexists; eexists; (split; [vm_compute; reflexivity|]); (split; [vm_compute; reflexivity|]);
    split; vm_compute; reflexivity.
Qed.

(* soundness of the header path for EVERY header, table and section: what it returns is the FDE
   found at the offset the chosen table row designates, and that FDE covers the address *)
Lemma hdr_fde_for_address_sound : forall dbg hb h c sec a fd,
  asz_ok (sc_asz c) ->
  hdr_fde_for_address dbg hb h c sec a = Ok fd ->
  exists p o, hdr_lookup dbg hb h a = Ok p /\ pointer_to_offset dbg h p = Ok o /\
              fde_from_offset dbg c sec o = Ok fd /\ covers fd a = true.
Proof.
  intros dbg hb h c sec a fd Hc H. unfold hdr_fde_for_address in H.
  apply bind_ok in H as (p & Hp & H). apply bind_ok in H as (o & Ho & H).
  apply bind_ok in H as (fd0 & Hfd & H). apply bind_ok in H as (b & Hb & H).
  destruct b; [|discriminate]. injection H as <-.
  exists p, o. repeat split; try assumption.
  rewrite fde_contains_covers in Hb.
  - injection Hb as ->. reflexivity.
  - unfold fde_from_offset in Hfd. apply bind_ok in Hfd as (p0 & _ & Hfd). eapply fde_parse_asz; eassumption.
Qed.

(* ------------------------------------------------------------------ instances used by the Examples of Properties/C05.v *)
(* a three-row udata4 table: locations 0x100,0x200,0x300 -> addresses 0x1010,0x1040,0x1070 *)
Definition ex_rows : list (list byte * list byte) :=
  [ (un_bytes 4 false 256, un_bytes 4 false 4112); (un_bytes 4 false 512, un_bytes 4 false 4160);
    (un_bytes 4 false 768, un_bytes 4 false 4208) ].
Definition ex_hdr : hdr := mkhdr 8 false (Direct 4096) 3 3 (mkrd 12 (flat ex_rows)).


(* .eh_frame at 0x1000: CIE "zPLR" (personality pcrel|sdata4 indirect, LSDA funcrel|udata4,
   addresses pcrel|sdata4), two FDEs, a zero terminator, then garbage that must not be reported *)
Definition ex_cfg : scfg := mkcfg true false 8 (mksb (Some 4096) (Some 8192) (Some 12288)).
Definition ex_cie : cie_rec :=
  mkcie_rec false 1 true [AP 155 (2 ^ 64 - 64); AL 67; AR 27] 8 1 (-8) 16 (map n2b [0; 0; 0]).
Definition ex_es : list entry :=
  [ ECie ex_cie;
    EFde (mkfde_rec false 0%nat 4096 32 5 [] (map n2b [0; 0]));
    EFde (mkfde_rec true 0%nat (2 ^ 64 - 256) 16 7 (map n2b [0]) []);
    EZero;
    EFde (mkfde_rec false 0%nat 1 1 1 [] []) ].


(* the two FDEs of ex_es as the reader decodes them, and a header for that section:
   eh_frame_ptr = 0x1000 (udata4), two udata4 rows sorted by initial address *)
Definition ex_sec : list byte := enc_section (sp_of ex_cfg) ex_es.
Definition ex_fds : list fde :=
  Eval vm_compute in
    match entries_all true ex_cfg ex_sec with
    | Ok (items, _) => match parsed_fdes true ex_cfg ex_sec items with Some l => l | None => [] end
    | _ => []
    end.
Definition ex_rows2 : list (list byte * list byte) :=
  [ (un_bytes 4 false 3907, un_bytes 4 false (4096 + 51)); (un_bytes 4 false 8228, un_bytes 4 false (4096 + 28)) ].
Definition ex_hdr2 : hdr := mkhdr 8 false (Direct 4096) 2 3 (mkrd 12 (flat ex_rows2)).

(* the rows of ex_hdr decoded, and the same table followed by 8 padding bytes *)
Definition ex_dec : list (pointer * pointer) :=
  [(Direct 256, Direct 4112); (Direct 512, Direct 4160); (Direct 768, Direct 4208)].
Definition ex_hdr_pad : hdr := mkhdr 8 false (Direct 4096) 3 3 (mkrd 12 (flat ex_rows ++ map n2b [9; 9; 9; 9; 9; 9; 9; 9])).
