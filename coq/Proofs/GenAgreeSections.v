(* Proofs/GenAgreeSections.v — translator tie for the section-identifier tables: SectionId::{name,dwo_name,
   xcoff_name} (src/common.rs), IndexSectionId / section_id and the DW_SECT / DW_SECT_V2 column matches of
   UnitIndex::parse (src/read/index.rs), regenerated from the source text into coq/Gen/SectionNames.v, against
   Model/IndexRd.v (isect, sect_v2, sect_v5) and Spec/LookupSpec.v (DW_SECT_V2, DW_SECT_V5). *)
From Coq Require Import List NArith Bool String Lia.
Require Import GV.Proofs.GenSweep.
Require GV.Gen.SectionNames GV.Gen.Constants GV.Spec.LookupSpec.
Require Import GV.Model.IndexRd.
Import ListNotations.
Local Open Scope string_scope.
Local Open Scope N_scope.

(* the Rust name of each constructor of the model's IndexSectionId, in declaration order *)
Definition isect_name (s : isect) : string :=
  match s with
  | SAbbrev => "DebugAbbrev" | SInfo => "DebugInfo" | SLine => "DebugLine" | SLoc => "DebugLoc"
  | SLocLists => "DebugLocLists" | SMacinfo => "DebugMacinfo" | SMacro => "DebugMacro"
  | SRngLists => "DebugRngLists" | SStrOffsets => "DebugStrOffsets" | STypes => "DebugTypes"
  end.
Definition all_isect : list isect :=
  [SAbbrev; SInfo; SLine; SLoc; SLocLists; SMacinfo; SMacro; SRngLists; SStrOffsets; STypes].
Lemma all_isect_complete : forall s, In s all_isect.
Proof. destruct s; cbn; tauto. Qed.
Lemma isect_name_inj : forall a b, isect_name a = isect_name b -> a = b.
Proof. destruct a, b; cbn; intros H; try reflexivity; discriminate. Qed.

Lemma gen_index_section_ids : SectionNames.index_section_ids = map isect_name all_isect.
Proof. reflexivity. Qed.

(* the column-kind matches of UnitIndex::parse: EVERY u32 (every N) column code, both versions *)
Fixpoint lookupN (n : N) (l : list (N * string)) : option string :=
  match l with
  | [] => None
  | (k, v) :: r => if n =? k then Some v else lookupN n r
  end.
Lemma gen_sect_v2_agree : forall n,
  option_map isect_name (sect_v2 n) = lookupN n SectionNames.sect_v2_table.
Proof.
  intros n. unfold sect_v2, SectionNames.sect_v2_table. cbn [lookupN].
  repeat match goal with
         | |- context [N.eqb n ?k] => destruct (N.eqb_spec n k) as [->|?]; [reflexivity|]
         end.
  reflexivity.
Qed.
Lemma gen_sect_v5_agree : forall n,
  option_map isect_name (sect_v5 n) = lookupN n SectionNames.sect_v5_table.
Proof.
  intros n. unfold sect_v5, SectionNames.sect_v5_table. cbn [lookupN].
  repeat match goal with
         | |- context [N.eqb n ?k] => destruct (N.eqb_spec n k) as [->|?]; [reflexivity|]
         end.
  reflexivity.
Qed.

(* the specification's DW_SECT tables (codes of isect_code) are the same tables *)
Definition code_name (c : N) : string :=
  match find (fun s => isect_code s =? c) all_isect with Some s => isect_name s | None => "" end.
Lemma gen_sect_spec_tables :
  map (fun p => (fst p, code_name (snd p))) LookupSpec.DW_SECT_V2 = SectionNames.sect_v2_table /\
  map (fun p => (fst p, code_name (snd p))) LookupSpec.DW_SECT_V5 = SectionNames.sect_v5_table.
Proof. split; reflexivity. Qed.

(* the column codes are the DW_SECT_* / DW_SECT_V2_* constants: every value of the two dw! blocks has an arm *)
Lemma gen_sect_values :
  map fst SectionNames.sect_v2_table = Constants.DwSectV2_values /\
  map fst SectionNames.sect_v5_table = Constants.DwSect_values.
Proof. split; reflexivity. Qed.

Lemma gen_section_count_max : SectionNames.SECTION_COUNT_MAX = IndexRd.SECTION_COUNT_MAX.
Proof. reflexivity. Qed.

(* IndexSectionId::section_id: an arm for every variant, each mapped to the SectionId of the same name *)
Lemma gen_section_id_identity :
  forallb (fun v => match sassoc v SectionNames.section_id_table with Some id => String.eqb id v && smem id SectionNames.section_ids | None => false end)
          SectionNames.index_section_ids = true /\
  sperm (map fst SectionNames.section_id_table) SectionNames.index_section_ids = true.
Proof. split; vm_compute; reflexivity. Qed.

(* IndexSectionId::dwo_name = self.section_id().dwo_name().unwrap() never panics *)
Definition index_dwo_name (v : string) : option string :=
  match sassoc v SectionNames.section_id_table with
  | Some id => sassoc id SectionNames.dwo_name_table
  | None => None
  end.
Lemma gen_index_dwo_name_sweep :
  forallb (fun v => match index_dwo_name v with Some _ => true | None => false end) SectionNames.index_section_ids = true.
Proof. vm_compute. reflexivity. Qed.
Lemma gen_index_dwo_name_total : forall s, index_dwo_name (isect_name s) <> None.
Proof.
  intros s. assert (I : In (isect_name s) SectionNames.index_section_ids).
  { rewrite gen_index_section_ids. apply in_map. apply all_isect_complete. }
  pose proof (forallb_In _ _ _ gen_index_dwo_name_sweep _ I) as S. cbv beta in S.
  intros E. rewrite E in S. discriminate S.
Qed.

(* SectionId::name / dwo_name / xcoff_name: every id has a name; within each table no two ids share a name;
   a .dwo name is the ELF name + ".dwo" except for the two package indexes, which keep their name *)
Definition dwo_ok (p : string * string) : bool :=
  match sassoc (fst p) SectionNames.name_table with
  | Some n => String.eqb (snd p) (n ++ ".dwo")
              || ((String.eqb (fst p) "DebugCuIndex" || String.eqb (fst p) "DebugTuIndex") && String.eqb (snd p) n)
  | None => false
  end.
Lemma gen_section_names :
  map fst SectionNames.name_table = SectionNames.section_ids /\
  snodup SectionNames.section_ids = true /\
  snodup (map snd SectionNames.name_table) = true /\
  snodup (map snd SectionNames.dwo_name_table) = true /\
  snodup (map snd SectionNames.xcoff_name_table) = true /\
  snodup (map fst SectionNames.dwo_name_table) = true /\
  snodup (map fst SectionNames.xcoff_name_table) = true /\
  forallb (fun p => smem (fst p) SectionNames.section_ids) (SectionNames.dwo_name_table ++ SectionNames.xcoff_name_table) = true /\
  forallb dwo_ok SectionNames.dwo_name_table = true.
Proof. repeat split; vm_compute; reflexivity. Qed.
