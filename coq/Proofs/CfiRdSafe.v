(* Proofs/CfiRdSafe.v — the CIE/FDE reader, the entry iterator, the header parser, the table
   iterator and the binary search never panic and never run out of their stated fuel, for EVERY
   byte string, in both build modes (C05 no_panic / termination clauses; the two known overflow
   classes of EhHdrTable are the only exceptions and are stated as such). *)
From Coq Require Import List NArith ZArith Bool Lia ZifyBool ZifyN ZifyNat.
From Coq.Strings Require Import Byte.
Require Import GV.Base.Res GV.Base.Byt GV.Base.Ints GV.Model.Leb GV.Model.Prim GV.Spec.LebSpec.
Require Import GV.Spec.CfiSpec GV.Model.CfiRd GV.Proofs.CfiRdBase GV.Proofs.CfiRdIter GV.Proofs.CfiRdBs.
Import ListNotations.
Local Open Scope N_scope.

Local Ltac Zify.zify_post_hook ::= Z.div_mod_to_equations.
Local Arguments N.add : simpl never.
Local Arguments N.sub : simpl never.
Local Arguments N.mul : simpl never.
Local Arguments N.shiftl : simpl never.
Local Arguments N.shiftr : simpl never.
Local Arguments N.land : simpl never.
Local Arguments N.lor : simpl never.
Local Arguments N.pow : simpl never.
Local Arguments N.div : simpl never.
Local Arguments N.modulo : simpl never.

Definition safe {A} (r : res A) : Prop := r <> Panic /\ r <> OutOfFuel.

Lemma safe_ok : forall A (a : A), safe (Ok a).
Proof. intros. split; discriminate. Qed.
Lemma safe_err : forall A e, safe (@Err A e).
Proof. intros. split; discriminate. Qed.
Lemma safe_bind : forall A B (r : res A) (f : A -> res B),
  safe r -> (forall a, r = Ok a -> safe (f a)) -> safe (bind r f).
Proof.
  intros A B r f [H1 H2] Hf. destruct r as [a| | |]; cbn [bind]; try congruence.
  - apply Hf. reflexivity.
  - apply safe_err.
Qed.
Lemma safe_if : forall A (b : bool) (x y : res A), safe x -> safe y -> safe (if b then x else y).
Proof. intros. destruct b; assumption. Qed.

Global Hint Resolve safe_ok safe_err : safe.

(* ------------------------------------------------------------------ LEB128 *)
Lemma shl64_safe : forall dbg x s, s < 64 -> safe (shl64 dbg x s).
Proof. intros. unfold shl64. destruct (64 <=? s) eqn:E; [lia|]. apply safe_ok. Qed.

Lemma uleb_loop_safe : forall bs dbg result shift,
  shift <= 63 -> shift mod 7 = 0 -> safe (uleb_loop dbg result shift bs).
Proof.
  induction bs as [|b r IH]; intros dbg result shift Hs H7; cbn [uleb_loop]; [apply safe_err|].
  destruct ((shift =? 63) && negb (b2n b =? 0) && negb (b2n b =? 1)) eqn:Echk; [apply safe_err|].
  apply safe_bind; [apply shl64_safe; lia|]. intros sh _.
  rewrite (proj1 (byte_cont_low7 b)).
  destruct (128 <=? b2n b) eqn:Ec; [|apply safe_ok].
  apply IH.
  - destruct (shift =? 63) eqn:E63; [|lia].
    exfalso. cbn [andb] in Echk. lia.
  - rewrite N.add_mod, H7 by lia. reflexivity.
Qed.

Lemma read_uleb128_safe : forall dbg bs, safe (read_uleb128 dbg bs).
Proof.
  intros dbg [|b r]; cbn [read_uleb128]; [apply safe_err|].
  destruct (has_cont (b2n b)); [|apply safe_ok]. apply uleb_loop_safe; [lia|reflexivity].
Qed.

Lemma sleb_loop_safe : forall bs dbg result shift,
  shift <= 63 -> shift mod 7 = 0 -> safe (sleb_loop dbg result shift bs).
Proof.
  induction bs as [|b r IH]; intros dbg result shift Hs H7; cbn [sleb_loop]; [apply safe_err|].
  destruct ((shift =? 63) && negb (b2n b =? 0) && negb (b2n b =? 127)) eqn:Echk; [apply safe_err|].
  apply safe_bind; [apply shl64_safe; lia|]. intros sh _.
  rewrite (proj1 (byte_cont_low7 b)).
  destruct (128 <=? b2n b) eqn:Ec.
  - apply IH.
    + destruct (shift =? 63) eqn:E63; [|lia]. exfalso. cbn [andb] in Echk. lia.
    + rewrite N.add_mod, H7 by lia. reflexivity.
  - destruct (shift + 7 <? 64) eqn:E64; cbn [andb]; [|apply safe_ok].
    destruct (N.land (b2n b) 64 =? 64); [|apply safe_ok].
    apply safe_bind; [apply shl64_safe; lia|]. intros; apply safe_ok.
Qed.

Lemma read_sleb128_safe : forall dbg bs, safe (read_sleb128 dbg bs).
Proof. intros. unfold read_sleb128. apply sleb_loop_safe; [lia|reflexivity]. Qed.

(* ------------------------------------------------------------------ primitive readers *)
Lemma read_un_safe : forall n be bs, safe (read_un n be bs).
Proof. intros. unfold read_un, read_bytes. destruct (take n bs) as [[h t]|]; cbn [bind]; auto with safe. Qed.
Lemma read_in_safe : forall n be bs, safe (read_in n be bs).
Proof. intros. unfold read_in. apply safe_bind; [apply read_un_safe|]. intros [v t] _. apply safe_ok. Qed.
Lemma read_u8_safe : forall bs, safe (read_u8 bs).
Proof. intros [|b r]; cbn [read_u8]; auto with safe. Qed.
Lemma read_address_safe : forall s be bs, safe (read_address s be bs).
Proof. intros. unfold read_address. repeat (apply safe_if; [apply read_un_safe|]). apply safe_err. Qed.
Lemma read_address_size_safe : forall bs, safe (read_address_size bs).
Proof.
  intros. unfold read_address_size. apply safe_bind; [apply read_u8_safe|]. intros [s r] _.
  apply safe_if; auto with safe.
Qed.
Lemma read_cstr_safe : forall bs, safe (read_cstr bs).
Proof.
  induction bs as [|b r IH]; cbn [read_cstr]; [apply safe_err|].
  apply safe_if; [apply safe_ok|]. apply safe_bind; [exact IH|]. intros [s t] _. apply safe_ok.
Qed.
Lemma read_initial_length_safe : forall be bs, safe (read_initial_length be bs).
Proof.
  intros. unfold read_initial_length. apply safe_bind; [apply read_un_safe|]. intros [v r] _.
  apply safe_if; [apply safe_ok|]. apply safe_if; [|apply safe_err].
  apply safe_bind; [apply read_un_safe|]. intros [v8 r8] _. apply safe_ok.
Qed.

Lemma lift_safe : forall A (f : list byte -> res (A * list byte)) r, safe (f (win r)) -> safe (lift f r).
Proof. intros A f r H. unfold lift. apply safe_bind; [exact H|]. intros [a rest] _. apply safe_ok. Qed.

Lemma rd_split_safe : forall n r, safe (rd_split n r).
Proof. intros. unfold rd_split. apply safe_if; auto with safe. Qed.
Lemma rd_skip_safe : forall n r, safe (rd_skip n r).
Proof. intros. unfold rd_skip. apply safe_if; auto with safe. Qed.
Lemma rd_u8_safe : forall r, safe (rd_u8 r).
Proof. intros. unfold rd_u8. apply lift_safe, read_u8_safe. Qed.

Lemma parse_pointer_encoding_safe : forall r, safe (parse_pointer_encoding r).
Proof.
  intros. unfold parse_pointer_encoding. apply safe_bind; [apply rd_u8_safe|]. intros [e r1] _.
  apply safe_if; auto with safe.
Qed.

(* ------------------------------------------------------------------ encoded values and pointers *)
Lemma wadd_sized_safe : forall dbg a len asz, asz_ok asz -> safe (wadd_sized dbg a len asz).
Proof. intros. rewrite wadd_sized_ok by assumption. apply safe_ok. Qed.

Lemma pev_safe : forall dbg be enc pp r,
  pe_format_known (pe_format enc) = true -> safe (parse_encoded_value dbg be enc pp r).
Proof.
  intros dbg be enc pp r Hk. unfold parse_encoded_value. cbv zeta.
  set (f := pe_format enc) in *. clearbody f. unfold pe_format_known in Hk.
  repeat match goal with
  | |- safe (if ?b then _ else _) => destruct b eqn:?
  end; try (apply lift_safe; first [apply read_address_safe | apply read_uleb128_safe | apply read_un_safe]).
  - apply safe_bind; [apply lift_safe, read_sleb128_safe|]. intros [z r1] _. apply safe_ok.
  - apply safe_bind; [apply lift_safe, read_in_safe|]. intros [z r1] _. apply safe_ok.
  - apply safe_bind; [apply lift_safe, read_in_safe|]. intros [z r1] _. apply safe_ok.
  - apply safe_bind; [apply lift_safe, read_in_safe|]. intros [z r1] _. apply safe_ok.
  - exfalso. lia.
Qed.

Lemma valid_not_omit_known : forall enc, pe_is_valid enc = true -> (enc =? DW_EH_PE_omit) = false ->
  pe_format_known (pe_format enc) = true /\ pe_application_known (pe_application enc) = true.
Proof.
  intros enc Hv Ho. unfold pe_is_valid, pe_is_absent in Hv. rewrite Ho in Hv.
  destruct (pe_format_known (pe_format enc)); cbn [negb] in Hv; [|discriminate].
  destruct (pe_application_known (pe_application enc)); cbn [negb] in Hv; [|discriminate]. auto.
Qed.

Lemma pep_safe : forall dbg be enc pp r, asz_ok (pp_asz pp) -> safe (parse_encoded_pointer dbg be enc pp r).
Proof.
  intros dbg be enc pp r Hasz. unfold parse_encoded_pointer.
  destruct (pe_is_valid enc) eqn:Hv; cbn [negb]; [|apply safe_err].
  destruct (enc =? DW_EH_PE_omit) eqn:Ho; [apply safe_err|].
  destruct (valid_not_omit_known enc Hv Ho) as [Hf Ha].
  apply safe_bind.
  - unfold pe_application_known in Ha. set (ap := pe_application enc) in *. clearbody ap.
    repeat match goal with
    | |- safe (if ?b then _ else _) => destruct b eqn:?
    | |- safe (match ?o with Some _ => _ | None => _ end) => destruct o
    end; auto with safe.
    + apply wadd_sized_safe. exact Hasz.
    + exfalso. lia.
  - intros base _. apply safe_bind; [apply pev_safe; exact Hf|]. intros [offset r1] _.
    apply safe_bind; [apply wadd_sized_safe; exact Hasz|]. intros; apply safe_ok.
Qed.

(* a successfully parsed pointer had a known format (so the following parse_encoded_value with
   the same encoding cannot reach unreachable!()) *)
Lemma pep_ok_known : forall dbg be enc pp r x, parse_encoded_pointer dbg be enc pp r = Ok x ->
  pe_format_known (pe_format enc) = true.
Proof.
  intros dbg be enc pp r x H. unfold parse_encoded_pointer in H.
  destruct (pe_is_valid enc) eqn:Hv; cbn [negb] in H; [|discriminate].
  destruct (enc =? DW_EH_PE_omit) eqn:Ho; [discriminate|].
  apply (valid_not_omit_known enc Hv Ho).
Qed.

Lemma ppe_ok_valid : forall r e r1, parse_pointer_encoding r = Ok (e, r1) -> pe_is_valid e = true.
Proof.
  intros r e r1 H. unfold parse_pointer_encoding in H.
  apply bind_ok in H as ([e0 r0] & _ & H). destruct (pe_is_valid e0) eqn:E; [|discriminate].
  injection H as <- <-. exact E.
Qed.

(* ------------------------------------------------------------------ CIE / FDE parsing *)
Lemma parse_prefix_safe : forall c input, safe (parse_prefix c input).
Proof.
  intros. unfold parse_prefix.
  apply safe_bind; [apply lift_safe, read_initial_length_safe|]. intros [[len fmt64] in1] _.
  apply safe_if; [apply safe_ok|].
  apply safe_bind; [apply rd_split_safe|]. intros [rest in2] _.
  apply safe_bind; [apply safe_if; apply lift_safe, read_un_safe|]. intros [id rest1] _. apply safe_ok.
Qed.

Lemma aug_loop_safe : forall s dbg c asz first a data input,
  asz_ok asz -> safe (aug_loop dbg c asz s first a data input).
Proof.
  induction s as [|ch s IH]; intros dbg c asz first a data input Hasz; cbn [aug_loop]; [apply safe_ok|].
  repeat match goal with
  | |- safe (if ?b then _ else _) => destruct b
  | |- safe (match ?o with Some _ => _ | None => _ end) => destruct o
  end; auto with safe.
  - apply safe_bind; [apply lift_safe, read_uleb128_safe|]. intros [alen in1] _.
    apply safe_bind; [apply rd_split_safe|]. intros [d in2] _. apply IH. exact Hasz.
  - apply safe_bind; [apply parse_pointer_encoding_safe|]. intros [e d1] _. apply IH. exact Hasz.
  - apply safe_bind; [apply parse_pointer_encoding_safe|]. intros [e d1] _.
    apply safe_bind; [apply pep_safe; exact Hasz|]. intros [p d2] _. apply IH. exact Hasz.
  - apply safe_bind; [apply parse_pointer_encoding_safe|]. intros [e d1] _. apply IH. exact Hasz.
Qed.

Lemma cie_from_prefix_safe : forall dbg c px, asz_ok (sc_asz c) -> safe (cie_from_prefix dbg c px).
Proof.
  intros dbg c px Hc. unfold cie_from_prefix.
  apply safe_bind; [apply rd_u8_safe|]. intros [version r1] _.
  apply safe_if; [apply safe_err|].
  apply safe_bind; [apply lift_safe, read_cstr_safe|]. intros [augstr r2] _.
  apply safe_bind.
  { apply safe_if; [|apply safe_ok].
    apply safe_bind; [apply lift_safe, read_address_size_safe|]. intros [a q1] _.
    apply safe_bind; [apply rd_u8_safe|]. intros [seg q2] _. apply safe_if; auto with safe. }
  intros [asz r3] Hasz.
  assert (Hok : asz_ok asz).
  { destruct (has_addr_seg_sizes (sc_eh c) version).
    - apply bind_ok in Hasz as ([a q1] & Ha & Hasz).
      apply bind_ok in Hasz as ([seg q2] & _ & Hasz).
      destruct (negb (seg =? 0)); [discriminate|]. injection Hasz as <- <-.
      apply lift_ok in Ha as (rest & Ha & _). eapply read_address_size_ok. exact Ha.
    - injection Hasz as <- <-. exact Hc. }
  apply safe_bind; [apply lift_safe, read_uleb128_safe|]. intros [caf r4] _.
  apply safe_bind; [apply lift_safe, read_sleb128_safe|]. intros [daf r5] _.
  apply safe_bind.
  { apply safe_if; [apply rd_u8_safe|].
    apply safe_bind; [apply lift_safe, read_uleb128_safe|]. intros [x q] _. apply safe_if; auto with safe. }
  intros [rar r6] _.
  apply safe_bind.
  { destruct augstr as [|ch s]; [apply safe_ok|].
    apply safe_bind; [apply aug_loop_safe; exact Hok|]. intros [a q] _. apply safe_ok. }
  intros [aug r7] _. apply safe_ok.
Qed.

Lemma cie_from_offset_safe : forall dbg c sec o, asz_ok (sc_asz c) -> safe (cie_from_offset dbg c sec o).
Proof.
  intros dbg c sec o Hc. unfold cie_from_offset.
  apply safe_bind; [apply rd_skip_safe|]. intros input _.
  apply safe_bind; [apply parse_prefix_safe|]. intros [opx r] _.
  destruct opx as [px|]; [|apply safe_err].
  apply safe_if; [apply safe_err|]. apply cie_from_prefix_safe. exact Hc.
Qed.

Lemma pfde_from_prefix_safe : forall c px, safe (pfde_from_prefix c px).
Proof. intros. unfold pfde_from_prefix. destruct (resolve_cie_offset _ _ _); auto with safe. Qed.

Lemma fde_addresses_safe : forall dbg c ci pp r, asz_ok (pp_asz pp) -> safe (fde_addresses dbg c ci pp r).
Proof.
  intros dbg c ci pp r Hasz. unfold fde_addresses.
  destruct (match ci_aug ci with Some a => a_fde_enc a | None => None end) as [enc|].
  - apply safe_bind; [apply pep_safe; exact Hasz|]. intros [p r1] Hp.
    apply safe_bind; [apply pev_safe; eapply pep_ok_known; exact Hp|]. intros [range r2] _. apply safe_ok.
  - apply safe_bind; [apply lift_safe, read_address_safe|]. intros [ia r1] _.
    apply safe_bind; [apply lift_safe, read_address_safe|]. intros [range r2] _. apply safe_ok.
Qed.

Lemma fde_aug_data_safe : forall dbg c a pp r, asz_ok (pp_asz pp) -> safe (fde_aug_data dbg c a pp r).
Proof.
  intros dbg c a pp r Hasz. unfold fde_aug_data.
  apply safe_bind; [apply lift_safe, read_uleb128_safe|]. intros [alen r1] _.
  apply safe_bind; [apply rd_split_safe|]. intros [d r2] _.
  destruct (a_lsda a) as [enc|]; [|apply safe_ok].
  apply safe_bind; [apply pep_safe; exact Hasz|]. intros [p q] _. apply safe_ok.
Qed.

Lemma fde_parse_safe : forall dbg c sec p, asz_ok (sc_asz c) -> safe (fde_parse dbg c sec p).
Proof.
  intros dbg c sec p Hc. unfold fde_parse.
  apply safe_bind; [apply cie_from_offset_safe; exact Hc|]. intros ci Hci.
  assert (Hok : asz_ok (ci_asz ci)) by (eapply cie_from_offset_asz; eassumption).
  apply safe_bind; [apply fde_addresses_safe; exact Hok|]. intros [[ia range] r1] _.
  apply safe_bind.
  { destruct (ci_aug ci) as [a|]; [|apply safe_ok].
    apply safe_bind; [apply fde_aug_data_safe; exact Hok|]. intros [l q] _. apply safe_ok. }
  intros [ad r2] _. apply safe_ok.
Qed.

Lemma fde_contains_safe : forall dbg f a, asz_ok (ci_asz (fd_cie f)) -> safe (fde_contains dbg f a).
Proof. intros. rewrite fde_contains_covers by assumption. apply safe_ok. Qed.

Lemma parse_cfi_entry_safe : forall dbg c input, asz_ok (sc_asz c) -> safe (parse_cfi_entry dbg c input).
Proof.
  intros dbg c input Hc. unfold parse_cfi_entry.
  apply safe_bind; [apply parse_prefix_safe|]. intros [opx in1] _.
  destruct opx as [px|]; [|apply safe_ok].
  apply safe_if.
  - apply safe_bind; [apply cie_from_prefix_safe; exact Hc|]. intros; apply safe_ok.
  - apply safe_bind; [apply pfde_from_prefix_safe|]. intros; apply safe_ok.
Qed.

(* ------------------------------------------------------------------ progress: every entry consumes input *)
Lemma lift_len : forall A (f : list byte -> res (A * list byte)) r a r',
  lift f r = Ok (a, r') -> exists rest, f (win r) = Ok (a, rest) /\ win r' = rest.
Proof. intros A f r a r' H. apply lift_ok in H as (rest & H1 & ->). eauto. Qed.

Lemma read_un_len : forall n be bs v r, read_un n be bs = Ok (v, r) -> length bs = (n + length r)%nat.
Proof.
  intros n be bs v r H. unfold read_un, read_bytes in H.
  destruct (take n bs) as [[h t]|] eqn:E; cbn [bind] in H; [|discriminate].
  injection H as _ <-. apply take_some_len in E as [-> E]. rewrite app_length. lia.
Qed.

Lemma read_initial_length_len : forall be bs x r, read_initial_length be bs = Ok (x, r) -> (length r + 4 <= length bs)%nat.
Proof.
  intros be bs x r H. unfold read_initial_length in H.
  apply bind_ok in H as ([v r0] & Hv & H). apply read_un_len in Hv.
  destruct (v <? 4294967280); [injection H as _ <-; lia|].
  destruct (v =? 4294967295); [|discriminate].
  apply bind_ok in H as ([v8 r8] & Hv8 & H). apply read_un_len in Hv8. injection H as _ <-. lia.
Qed.

Lemma rd_split_len : forall n r h t, rd_split n r = Ok (h, t) -> (length (win t) <= length (win r))%nat.
Proof.
  intros n r h t H. unfold rd_split in H. destruct (nlen (win r) <? n); [discriminate|].
  injection H as _ <-. cbn [win]. rewrite skipn_length. lia.
Qed.

Lemma parse_prefix_shorter : forall c input opx in', parse_prefix c input = Ok (opx, in') ->
  (length (win in') + 4 <= length (win input))%nat.
Proof.
  intros c input opx in' H. unfold parse_prefix in H.
  apply bind_ok in H as ([[len fmt64] in1] & Hl & H).
  apply lift_len in Hl as (rest & Hl & Hw). apply read_initial_length_len in Hl. rewrite <- Hw in Hl.
  destruct (len =? 0); [injection H as _ <-; exact Hl|].
  apply bind_ok in H as ([rest0 in2] & Hs & H). apply rd_split_len in Hs.
  apply bind_ok in H as ([id rest1] & _ & H). injection H as _ <-. lia.
Qed.

Lemma parse_cfi_entry_shorter : forall dbg c input o in', parse_cfi_entry dbg c input = Ok (o, in') ->
  (length (win in') + 4 <= length (win input))%nat.
Proof.
  intros dbg c input o in' H. unfold parse_cfi_entry in H.
  apply bind_ok in H as ([opx in1] & Hp & H). apply parse_prefix_shorter in Hp.
  destruct opx as [px|]; [|injection H as _ <-; exact Hp].
  destruct (is_cie _ _ _).
  - apply bind_ok in H as (ci & _ & H). injection H as _ <-. exact Hp.
  - apply bind_ok in H as (p & _ & H). injection H as _ <-. exact Hp.
Qed.

Lemma iter_next_S : forall f dbg c input,
  iter_next (S f) dbg c input =
  if rd_is_empty input then Ok (SNone, input)
  else match parse_cfi_entry dbg c input with
       | Ok (Some it, in1) => Ok (SSome it, in1)
       | Err e => Ok (SErr e, rd_empty input)
       | Ok (None, in1) => if sc_eh c then Ok (SNone, rd_empty in1) else iter_next f dbg c in1
       | Panic => Panic
       | OutOfFuel => OutOfFuel
       end.
Proof. reflexivity. Qed.

(* CfiEntriesIter::next terminates within the stated fuel and never panics; an item consumes input *)
Lemma iter_next_safe : forall fuel dbg c input,
  asz_ok (sc_asz c) -> (length (win input) < fuel)%nat ->
  safe (iter_next fuel dbg c input) /\
  (forall it in1, iter_next fuel dbg c input = Ok (SSome it, in1) -> (length (win in1) < length (win input))%nat).
Proof.
  induction fuel as [|f IH]; intros dbg c input Hc Hf; [lia|].
  rewrite iter_next_S.
  destruct (rd_is_empty input); [split; [apply safe_ok|discriminate]|].
  pose proof (parse_cfi_entry_safe dbg c input Hc) as [Hs1 Hs2].
  destruct (parse_cfi_entry dbg c input) as [[o in1]|e| |] eqn:E; try congruence.
  - apply parse_cfi_entry_shorter in E. destruct o as [it|].
    + split; [apply safe_ok|]. intros it' in1' H. injection H as _ <-. lia.
    + destruct (sc_eh c); [split; [apply safe_ok|discriminate]|].
      destruct (IH dbg c in1 Hc) as [H1 H2]; [lia|]. split; [exact H1|].
      intros it in2 H. specialize (H2 _ _ H). lia.
  - split; [apply safe_ok|discriminate].
Qed.

Lemma entries_loop_safe : forall fuel dbg c input,
  asz_ok (sc_asz c) -> (length (win input) < fuel)%nat -> safe (entries_loop fuel dbg c input).
Proof.
  induction fuel as [|f IH]; intros dbg c input Hc Hf; [lia|].
  rewrite entries_loop_S.
  destruct (iter_next_safe (iter_fuel input) dbg c input Hc) as [Hs Hlt]; [unfold iter_fuel; lia|].
  apply safe_bind; [exact Hs|]. intros [st in1] Hst.
  destruct st as [|it|e]; auto with safe.
  apply safe_bind; [|intros [l e] _; apply safe_ok].
  apply IH; [exact Hc|]. specialize (Hlt _ _ Hst). lia.
Qed.

Lemma entries_all_safe_lem : forall dbg c sec, asz_ok (sc_asz c) -> safe (entries_all dbg c sec).
Proof. intros. unfold entries_all. apply entries_loop_safe; [assumption|cbn [win]; lia]. Qed.

Lemma fde_for_address_loop_safe : forall fuel dbg c sec a input,
  asz_ok (sc_asz c) -> (length (win input) < fuel)%nat -> safe (fde_for_address_loop fuel dbg c sec a input).
Proof.
  induction fuel as [|f IH]; intros dbg c sec a input Hc Hf; [lia|].
  rewrite fde_for_address_loop_S.
  destruct (iter_next_safe (iter_fuel input) dbg c input Hc) as [Hs Hlt]; [unfold iter_fuel; lia|].
  apply safe_bind; [exact Hs|]. intros [st in1] Hst.
  destruct st as [|it|e]; auto with safe.
  specialize (Hlt _ _ Hst).
  destruct it as [ci|p]; [apply IH; [exact Hc|lia]|].
  apply safe_bind; [apply fde_parse_safe; exact Hc|]. intros fd Hfd.
  apply safe_bind; [apply fde_contains_safe; eapply fde_parse_asz; eassumption|]. intros b _.
  destruct b; [apply safe_ok|]. apply IH; [exact Hc|lia].
Qed.

Lemma fde_for_address_safe_lem : forall dbg c sec a, asz_ok (sc_asz c) -> safe (fde_for_address dbg c sec a).
Proof. intros. unfold fde_for_address. apply fde_for_address_loop_safe; [assumption|cbn [win]; lia]. Qed.

(* ------------------------------------------------------------------ .eh_frame_hdr *)
Lemma hdr_parse_safe_lem : forall dbg be hb asz sec, asz_ok asz -> safe (hdr_parse dbg be hb asz sec).
Proof.
  intros dbg be hb asz sec Hasz. unfold hdr_parse.
  apply safe_bind; [apply rd_u8_safe|]. intros [version r1] _.
  apply safe_if; [apply safe_err|].
  apply safe_bind; [apply parse_pointer_encoding_safe|]. intros [ptr_enc r2] _.
  apply safe_bind; [apply parse_pointer_encoding_safe|]. intros [cnt_enc r3] Hcnt.
  apply safe_bind; [apply parse_pointer_encoding_safe|]. intros [tbl_enc r4] _.
  apply safe_if; [apply safe_err|].
  apply safe_bind; [apply pep_safe; exact Hasz|]. intros [p r5] _.
  apply safe_bind; [|intros [count r6] _; apply safe_ok].
  destruct (cnt_enc =? DW_EH_PE_omit) eqn:Eo; cbn [orb]; [apply safe_ok|].
  apply safe_if; [apply safe_ok|]. apply safe_if; [apply safe_err|].
  apply pev_safe. apply ppe_ok_valid in Hcnt. apply (valid_not_omit_known _ Hcnt Eo).
Qed.

Lemma hdr_parse_asz : forall dbg be hb asz sec h, hdr_parse dbg be hb asz sec = Ok h -> h_asz h = asz.
Proof.
  intros dbg be hb asz sec h H. unfold hdr_parse in H.
  apply bind_ok in H as ([version r1] & _ & H). destruct (negb _); [discriminate|].
  apply bind_ok in H as ([ptr_enc r2] & _ & H).
  apply bind_ok in H as ([cnt_enc r3] & _ & H).
  apply bind_ok in H as ([tbl_enc r4] & _ & H).
  destruct (ptr_enc =? DW_EH_PE_omit); [discriminate|].
  apply bind_ok in H as ([p r5] & _ & H).
  apply bind_ok in H as ([count r6] & _ & H). injection H as <-. reflexivity.
Qed.

(* every successfully parsed pointer consumes at least one byte *)
Lemma pev_shorter : forall dbg be enc pp r v r1, asz_ok (pp_asz pp) ->
  parse_encoded_value dbg be enc pp r = Ok (v, r1) -> (length (win r1) < length (win r))%nat.
Proof.
  intros dbg be enc pp r v r1 Hasz H. unfold parse_encoded_value in H. cbv zeta in H.
  assert (Hun : forall n x q, (0 < n)%nat -> lift (read_un n be) r = Ok (x, q) -> (length (win q) < length (win r))%nat).
  { intros n x q Hn Hq. apply lift_len in Hq as (rest & Hq & ->). apply read_un_len in Hq. lia. }
  assert (Hin : forall n x q, (0 < n)%nat -> lift (read_in n be) r = Ok (x, q) -> (length (win q) < length (win r))%nat).
  { intros n x q Hn Hq. apply lift_len in Hq as (rest & Hq & ->). unfold read_in in Hq.
    apply bind_ok in Hq as ([u t] & Hu & Hq). injection Hq as _ <-. apply read_un_len in Hu. lia. }
  repeat match type of H with
  | (if ?b then _ else _) = _ => destruct b
  end; try discriminate.
  - rewrite read_address_ok_fun in H by exact Hasz. eapply Hun; [|exact H].
    destruct Hasz as [->|[->|[->| ->]]]; cbn; lia.
  - apply lift_len in H as (rest & H & ->). destruct (win r) as [|b t]; [discriminate|].
    cbn [read_uleb128] in H. destruct (has_cont (b2n b)).
    + assert (forall bs res sh x q, uleb_loop dbg res sh bs = Ok (x, q) -> (length q < length bs)%nat) as Hl.
      { induction bs as [|b0 t0 IH]; intros res sh x q Hq; cbn [uleb_loop] in Hq; [discriminate|].
        destruct (_ && _ && _); [discriminate|].
        apply bind_ok in Hq as (s & _ & Hq). destruct (has_cont (b2n b0)).
        - apply IH in Hq. cbn [length]. lia.
        - injection Hq as _ <-. cbn [length]. lia. }
      apply Hl in H. cbn [length]. lia.
    + injection H as _ <-. cbn [length]. lia.
  - eapply (Hun 2%nat); [lia|exact H].
  - eapply (Hun 4%nat); [lia|exact H].
  - eapply (Hun 8%nat); [lia|exact H].
  - apply bind_ok in H as ([z q] & Hz & H). injection H as _ <-.
    apply lift_len in Hz as (rest & Hz & ->). unfold read_sleb128 in Hz.
    assert (forall bs res sh x q0, sleb_loop dbg res sh bs = Ok (x, q0) -> (length q0 < length bs)%nat) as Hl.
    { induction bs as [|b0 t0 IH]; intros res sh x q0 Hq; cbn [sleb_loop] in Hq; [discriminate|].
      destruct (_ && _ && _); [discriminate|].
      apply bind_ok in Hq as (s & _ & Hq). destruct (has_cont (b2n b0)).
      - apply IH in Hq. cbn [length]. lia.
      - destruct (_ && _).
        + apply bind_ok in Hq as (o1 & _ & Hq). injection Hq as _ <-. cbn [length]. lia.
        + injection Hq as _ <-. cbn [length]. lia. }
    eapply Hl. exact Hz.
  - apply bind_ok in H as ([z q] & Hz & H). injection H as _ <-. eapply (Hin 2%nat); [lia|exact Hz].
  - apply bind_ok in H as ([z q] & Hz & H). injection H as _ <-. eapply (Hin 4%nat); [lia|exact Hz].
  - apply bind_ok in H as ([z q] & Hz & H). injection H as _ <-. eapply (Hin 8%nat); [lia|exact Hz].
Qed.

Lemma pep_shorter : forall dbg be enc pp r p r1, asz_ok (pp_asz pp) ->
  parse_encoded_pointer dbg be enc pp r = Ok (p, r1) -> (length (win r1) < length (win r))%nat.
Proof.
  intros dbg be enc pp r p r1 Hasz H. unfold parse_encoded_pointer in H.
  destruct (negb _); [discriminate|]. destruct (enc =? DW_EH_PE_omit); [discriminate|].
  apply bind_ok in H as (base & _ & H).
  apply bind_ok in H as ([offset q] & Hv & H).
  apply bind_ok in H as (a & _ & H). injection H as _ <-. eapply pev_shorter; eassumption.
Qed.

Lemma tbl_next_safe : forall dbg hb h st, asz_ok (h_asz h) -> safe (tbl_next dbg hb h st).
Proof.
  intros dbg hb h [t remain] Hasz. unfold tbl_next.
  apply safe_if; [apply safe_ok|].
  pose proof (pep_safe dbg (h_be h) (h_enc h) (hdr_pp hb h) t Hasz) as [H1 H2].
  destruct (parse_encoded_pointer dbg (h_be h) (h_enc h) (hdr_pp hb h) t) as [[from t1]|e| |]; try congruence;
    [|apply safe_ok].
  pose proof (pep_safe dbg (h_be h) (h_enc h) (hdr_pp hb h) t1 Hasz) as [H3 H4].
  destruct (parse_encoded_pointer dbg (h_be h) (h_enc h) (hdr_pp hb h) t1) as [[to t2]|e| |]; try congruence;
    apply safe_ok.
Qed.

Lemma tbl_next_shorter : forall dbg hb h t remain row t2 remain2, asz_ok (h_asz h) ->
  tbl_next dbg hb h (t, remain) = Ok (SSome row, (t2, remain2)) -> (length (win t2) < length (win t))%nat.
Proof.
  intros dbg hb h t remain row t2 remain2 Hasz H. unfold tbl_next in H.
  destruct (remain =? 0); [discriminate|].
  destruct (parse_encoded_pointer dbg (h_be h) (h_enc h) (hdr_pp hb h) t) as [[from t1]|e| |] eqn:E1; try discriminate.
  destruct (parse_encoded_pointer dbg (h_be h) (h_enc h) (hdr_pp hb h) t1) as [[to t2']|e| |] eqn:E2; try discriminate.
  injection H as _ <- _.
  apply pep_shorter in E1; [|exact Hasz]. apply pep_shorter in E2; [|exact Hasz]. lia.
Qed.

(* after a row error the iterator is exhausted *)
Lemma tbl_next_stops : forall dbg hb h st e st', tbl_next dbg hb h st = Ok (SErr e, st') ->
  tbl_next dbg hb h st' = Ok (SNone, st').
Proof.
  intros dbg hb h [t remain] e st' H. unfold tbl_next in H.
  destruct (remain =? 0); [discriminate|].
  destruct (parse_encoded_pointer dbg (h_be h) (h_enc h) (hdr_pp hb h) t) as [[from t1]|e1| |]; try discriminate.
  - destruct (parse_encoded_pointer dbg (h_be h) (h_enc h) (hdr_pp hb h) t1) as [[to t2']|e2| |]; try discriminate.
    injection H as _ <-. reflexivity.
  - injection H as _ <-. reflexivity.
Qed.

Lemma tbl_all_loop_safe : forall fuel dbg hb h t remain, asz_ok (h_asz h) ->
  (length (win t) < fuel)%nat -> safe (tbl_all_loop fuel dbg hb h (t, remain)).
Proof.
  induction fuel as [|f IH]; intros dbg hb h t remain Hasz Hf; [lia|].
  cbn [tbl_all_loop].
  apply safe_bind; [apply tbl_next_safe; exact Hasz|]. intros [s [t2 remain2]] Hs.
  destruct s as [|row|e]; auto with safe.
  apply tbl_next_shorter in Hs; [|exact Hasz].
  apply safe_bind; [apply IH; [exact Hasz|lia]|]. intros [l e] _. apply safe_ok.
Qed.

Lemma tbl_all_safe_lem : forall dbg hb h, asz_ok (h_asz h) -> safe (tbl_all dbg hb h).
Proof. intros. unfold tbl_all. apply tbl_all_loop_safe; [assumption|lia]. Qed.

(* ------------------------------------------------------------------ binary search: termination for every table *)
Lemma lookup_loop_S' : forall f dbg hb h row_size address len reader,
  lookup_loop (S f) dbg hb h row_size address len reader =
  if len <=? 1 then Ok reader else
  let* k := (if two64 <=? len / 2 * row_size then Err EUnexpectedEof else Ok (len / 2 * row_size)) in
  let* (head, tail) := rd_split k reader in
  let* (p, _) := parse_encoded_pointer dbg (h_be h) (h_enc h) (hdr_pp hb h) tail in
  let* pivot := pointer_direct p in
  if pivot =? address then Ok tail
  else if pivot <? address then lookup_loop f dbg hb h row_size address (len - len / 2) tail
  else lookup_loop f dbg hb h row_size address (len / 2) head.
Proof. reflexivity. Qed.

(* the loop halves len: it returns within log2(len)+1 steps on every table, sorted or not, and
   has no panic site left *)
Lemma lookup_loop_safe : forall k dbg hb h row a len reader,
  asz_ok (h_asz h) -> len <= 2 ^ N.of_nat k ->
  safe (lookup_loop (S k) dbg hb h row a len reader).
Proof.
  induction k as [|k IH]; intros dbg hb h row a len reader Hasz Hlen; rewrite lookup_loop_S'.
  - change (2 ^ N.of_nat 0) with 1 in Hlen. destruct (len <=? 1) eqn:E; [apply safe_ok|lia].
  - destruct (len <=? 1) eqn:E; [apply safe_ok|].
    rewrite Nat2N.inj_succ, N.pow_succ_r' in Hlen.
    apply safe_bind; [apply safe_if; auto with safe|].
    intros kk _. apply safe_bind; [apply rd_split_safe|]. intros [head tail] _.
    apply safe_bind; [apply pep_safe; exact Hasz|]. intros [p q] _.
    apply safe_bind; [destruct p; cbn [pointer_direct]; auto with safe|]. intros pivot _.
    apply safe_if; [apply safe_ok|].
    apply safe_if; apply IH; try exact Hasz; lia.
Qed.

Lemma pointer_direct_safe : forall p, safe (pointer_direct p).
Proof. intros [a|a]; cbn [pointer_direct]; auto with safe. Qed.

Lemma hdr_lookup_safe_lem : forall dbg hb h a, asz_ok (h_asz h) -> safe (hdr_lookup dbg hb h a).
Proof.
  intros dbg hb h a Hasz. unfold hdr_lookup.
  destruct (tbl_field_size (h_enc h)) as [size|] eqn:Es; [|apply safe_err].
  apply safe_bind.
  { unfold lookup_fuel. apply lookup_loop_safe; [exact Hasz|apply N.lt_le_incl, size_nat_gt]. }
  intros reader _. apply safe_bind; [apply rd_skip_safe|]. intros r1 _.
  apply safe_bind; [apply pep_safe; exact Hasz|]. intros [p q] _. apply safe_ok.
Qed.

Lemma pointer_to_offset_safe_lem : forall dbg h p, safe (pointer_to_offset dbg h p).
Proof.
  intros dbg h p. unfold pointer_to_offset.
  apply safe_bind; [apply pointer_direct_safe|]. intros a _.
  apply safe_bind; [apply pointer_direct_safe|]. intros e _. apply safe_if; auto with safe.
Qed.

Lemma pfde_from_offset_safe : forall c sec o, safe (pfde_from_offset c sec o).
Proof.
  intros. unfold pfde_from_offset.
  apply safe_bind; [apply rd_skip_safe|]. intros input _.
  apply safe_bind; [apply parse_prefix_safe|]. intros [opx r] _.
  destruct opx as [px|]; [|apply safe_err]. apply safe_if; [apply safe_err|apply pfde_from_prefix_safe].
Qed.

Lemma fde_from_offset_safe : forall dbg c sec o, asz_ok (sc_asz c) -> safe (fde_from_offset dbg c sec o).
Proof.
  intros. unfold fde_from_offset. apply safe_bind; [apply pfde_from_offset_safe|]. intros p _.
  apply fde_parse_safe. assumption.
Qed.

(* the whole header lookup path is total for every header, table, section and address *)
Lemma hdr_fde_for_address_safe_lem : forall dbg hb h c sec a,
  asz_ok (h_asz h) -> asz_ok (sc_asz c) -> safe (hdr_fde_for_address dbg hb h c sec a).
Proof.
  intros dbg hb h c sec a Hh Hc. unfold hdr_fde_for_address.
  apply safe_bind; [apply hdr_lookup_safe_lem; exact Hh|]. intros p _.
  apply safe_bind; [apply pointer_to_offset_safe_lem|]. intros o _.
  apply safe_bind; [apply fde_from_offset_safe; exact Hc|]. intros fd Hfd.
  apply safe_bind; [apply fde_contains_safe|].
  - unfold fde_from_offset in Hfd. apply bind_ok in Hfd as (p0 & _ & Hfd). eapply fde_parse_asz; eassumption.
  - intros b _. destruct b; auto with safe.
Qed.

Lemma tbl_nth_st_safe : forall dbg hb h st n, asz_ok (h_asz h) -> safe (tbl_nth_st dbg hb h st n).
Proof.
  intros dbg hb h [t remain] n Hasz. unfold tbl_nth_st.
  destruct (tbl_field_size (h_enc h)) as [size|]; [|apply safe_ok].
  apply safe_if; [apply safe_ok|].
  pose proof (rd_skip_safe (n * (size * 2)) t) as [H1 H2].
  destruct (rd_skip (n * (size * 2)) t) as [t'|e| |]; try congruence; [|apply safe_ok].
  apply tbl_next_safe. exact Hasz.
Qed.

Lemma tbl_nth_safe_lem : forall dbg hb h n, asz_ok (h_asz h) -> safe (tbl_nth dbg hb h n).
Proof.
  intros dbg hb h n Hasz. unfold tbl_nth.
  apply safe_bind; [apply tbl_nth_st_safe; exact Hasz|]. intros [s st] _. destruct s; auto with safe.
Qed.
