(* Proofs/OpWrTotal.v — C15 (6): Expression::size / Expression::write never panic on values of the Rust types,
   in either build mode, as long as branch targets exist, the unit-offset table covers the referenced entries
   and the expression is smaller than 2^63 bytes by a crude count. In particular the three debug_assert_eq!s of
   Expression::write cannot fire and no usize/i64 arithmetic overflows. *)
From Coq Require Import List NArith ZArith Bool Lia ZifyBool ZifyN ZifyNat.
From Coq.Strings Require Import Byte.
Require Import GV.Base.Res GV.Base.Byt GV.Base.Ints GV.Spec.LebSpec GV.Model.Leb GV.Model.Prim.
Require Import GV.Spec.OpEncSpec GV.Model.OpWr GV.Proofs.LebProofs GV.Proofs.OpWrProofs GV.Proofs.OpWrDec.
Import ListNotations.
Local Open Scope N_scope.
Local Arguments N.add : simpl never.
Local Arguments N.sub : simpl never.
Local Arguments N.mul : simpl never.
Local Arguments N.pow : simpl never.
Local Arguments N.modulo : simpl never.
Local Arguments N.div : simpl never.
Local Arguments N.of_nat : simpl never.
Local Arguments Z.add : simpl never.
Local Arguments Z.sub : simpl never.
Ltac Zify.zify_post_hook ::= Z.div_mod_to_equations.

(* a crude upper bound of the encoded size: 300 per operation plus its blobs plus what it nests *)
Definition weights_with (w : wop -> N) : list wop -> N :=
  fix go (l : list wop) : N := match l with [] => 0 | x :: r => w x + go r end.

Fixpoint weight (o : wop) : N :=
  match o with
  | WoRaw b => blen b
  | WoConstType _ v => 300 + blen v
  | WoImplicitValue d => 300 + blen d
  | WoEntryValue ex => 300 + weights_with weight ex
  | _ => 300
  end.
Definition weights (l : list wop) : N := weights_with weight l.

(* every branch target names an operation of its own expression, or its end *)
Fixpoint tgt_ok (n : N) (o : wop) : bool :=
  match o with
  | WoSkip t => t <=? n
  | WoBranch t => t <=? n
  | WoEntryValue ex => forallb (tgt_ok (N.of_nat (length ex))) ex
  | _ => true
  end.
Definition targets_ok (ex : list wop) : bool := forallb (tgt_ok (N.of_nat (length ex))) ex.

(* entries whose unit offset is looked up *)
Fixpoint op_entries (o : wop) : list N :=
  match o with
  | WoEntryValue ex => flat_map op_entries ex
  | _ => match uses_entry o with Some en => [en] | None => [] end
  end.

Definition lookups_ok (dbg : bool) (uo : option uoffs) (ens : list N) : Prop :=
  forall en, In en ens -> entry_offset dbg uo en <> Panic.

(* ---- component facts ---- *)
Definition np {A} (r : res A) : Prop := r <> Panic /\ r <> OutOfFuel.

Lemma np_ok {A} (a : A) : np (Ok a). Proof. split; discriminate. Qed.
Lemma np_err {A} e : np (@Err A e). Proof. split; discriminate. Qed.
Lemma np_bind {A B} (r : res A) (f : A -> res B) :
  np r -> (forall a, r = Ok a -> np (f a)) -> np (bind r f).
Proof. destruct r; cbn [bind]; intros [H1 H2] H; auto; try congruence; apply np_err. Qed.

Lemma write_sleb_fuel_ok : forall f v,
  (- 2 ^ (7 * Z.of_nat (S f) - 1) <= v < 2 ^ (7 * Z.of_nat (S f) - 1))%Z ->
  exists bs, write_sleb_fuel (S f) v = Ok bs.
Proof.
  induction f as [|f IH]; intros v Hv.
  - change (2 ^ (7 * Z.of_nat 1 - 1))%Z with 64%Z in Hv. cbn [write_sleb_fuel]. rewrite zshiftr6.
    destruct ((v / 64 =? 0)%Z || (v / 64 =? -1)%Z) eqn:E; [eexists; reflexivity|]. exfalso. lia.
  - remember (S f) as g. cbn [write_sleb_fuel]. rewrite zshiftr7, zshiftr6.
    destruct ((v / 64 =? 0)%Z || (v / 64 =? -1)%Z); [eexists; reflexivity|].
    subst g. destruct (IH (v / 128)%Z) as [r Hr].
    + replace (7 * Z.of_nat (S (S f)) - 1)%Z with (7 + (7 * Z.of_nat (S f) - 1))%Z in Hv by lia.
      rewrite Z.pow_add_r in Hv by lia. change (2 ^ 7)%Z with 128%Z in Hv.
      set (P := (2 ^ (7 * Z.of_nat (S f) - 1))%Z) in *. lia.
    + rewrite Hr. eexists; reflexivity.
Qed.

Lemma write_sleb128_ok v : in_i64 v = true -> exists bs, write_sleb128 v = Ok bs.
Proof.
  intros Hv. apply (write_sleb_fuel_ok 9). unfold in_i64 in Hv.
  change (2 ^ (7 * Z.of_nat 10 - 1))%Z with 590295810358705651712%Z. lia.
Qed.

Lemma np_uleb v : v < 2 ^ 64 -> np (write_uleb128 v).
Proof. intros H. destruct (write_uleb128_ok v H) as [bs ->]. apply np_ok. Qed.
Lemma np_sleb v : in_i64 v = true -> np (write_sleb128 v).
Proof. intros H. destruct (write_sleb128_ok v H) as [bs ->]. apply np_ok. Qed.
Lemma np_udata be v s : np (write_udata be v s).
Proof.
  unfold write_udata. repeat match goal with |- context [if ?c then _ else _] => destruct c end;
    first [apply np_ok|apply np_err].
Qed.
Lemma np_sdata be v s : np (write_sdata be v s).
Proof.
  unfold write_sdata. repeat match goal with |- context [if ?c then _ else _] => destruct c end;
    first [apply np_ok|apply np_err].
Qed.
Lemma np_address be a s : np (write_address be a s).
Proof. destruct a; cbn [write_address]; [apply np_udata|apply np_err]. Qed.
Lemma np_ref be refs r s at_ : np (write_ref be refs r s at_).
Proof.
  unfold write_ref. destruct r; [apply np_err|]. destruct refs; [|apply np_err].
  apply np_bind; [apply np_udata|intros; apply np_ok].
Qed.
Lemma np_lit dbg k v : v < 32 -> k + 32 <= 256 -> np (chk_add 8 dbg k (wrap8 v)).
Proof. intros Hv Hk. rewrite wrap8_small by lia. rewrite chk_add8_small by lia. apply np_ok. Qed.

Lemma np_entry_offset dbg uo en : entry_offset dbg uo en <> Panic -> np (entry_offset dbg uo en).
Proof.
  intros H. split; [exact H|]. rewrite entry_offset_cases. destruct uo as [u|]; [|discriminate].
  destruct (nth_N (uo_entries u) en) as [off|]; [|discriminate].
  destruct (off =? 0); [discriminate|]. unfold chk_sub.
  destruct (uo_unit u <=? off); [discriminate|]. destruct dbg; discriminate.
Qed.

Lemma base_size_total dbg uo en :
  entry_offset dbg uo en <> Panic ->
  (exists n, base_size dbg uo en = Ok n /\ n <= 10) \/ (exists er, base_size dbg uo en = Err er).
Proof.
  intros H. destruct (entry_offset dbg uo en) as [off|er| |] eqn:E.
  - left. exists (uleb128_size off). split; [apply entry_offset_base_size; exact E|apply uleb128_size_le].
  - right. exists er. apply entry_offset_base_size_err. exact E.
  - congruence.
  - exfalso. destruct (np_entry_offset dbg uo en) as [_ X]; [rewrite E; discriminate|]. apply X. exact E.
Qed.

(* ---- sizes: total and bounded by the weight ---- *)
Definition size_good (r : res N) (w : N) : Prop :=
  (exists n, r = Ok n /\ n <= w) \/ (exists er, r = Err er).

Lemma size_good_np r w : size_good r w -> np r.
Proof. intros [[n [-> _]]|[er ->]]; [apply np_ok|apply np_err]. Qed.

Lemma uadd_small dbg a b : a + b < 2 ^ 63 -> uadd dbg a b = Ok (a + b).
Proof.
  intros H. apply uadd_ok. change (2 ^ 64) with 18446744073709551616.
  change (2 ^ 63) with 9223372036854775808 in H. lia.
Qed.

Lemma wf_enc_asize e : wf_enc e = true -> e_asize e < 256.
Proof. unfold wf_enc. intros H. apply andb_true_iff in H. destruct H as [_ H]. lia. Qed.

Lemma iptr_size_le e : wf_enc e = true -> iptr_size e < 256.
Proof.
  intros H. unfold iptr_size, word_size. pose proof (wf_enc_asize e H).
  destruct (e_version e =? 2); [assumption|]. destruct (e_fmt64 e); lia.
Qed.

Ltac size_leaf :=
  repeat match goal with
  | |- context [uleb128_size ?v] =>
      let H := fresh "Hul" in pose proof (uleb128_size_le v) as H; generalize dependent (uleb128_size v); intros
  | |- context [sleb128_size ?v] =>
      let H := fresh "Hsl" in pose proof (sleb128_size_le v) as H; generalize dependent (sleb128_size v); intros
  end.

Lemma size_op_leaf_good dbg e uo o :
  (forall ex, o <> WoEntryValue ex) ->
  wf_enc e = true -> lookups_ok dbg uo (op_entries o) -> weight o < 2 ^ 63 ->
  size_good (size_op dbg e uo o) (weight o).
Proof.
  intros Hne He Hlk Hw.
  pose proof (wf_enc_asize e He) as Ha. pose proof (iptr_size_le e He) as Hi.
  assert (Hword : word_size (e_fmt64 e) <= 8) by (unfold word_size; destruct (e_fmt64 e); lia).
  change (2 ^ 63) with 9223372036854775808 in Hw.
  destruct o; try (exfalso; eapply Hne; reflexivity); cbn [size_op weight] in *.
  all: try match goal with |- context [match ?b with Some _ => _ | None => _ end] => destruct b end.
  all: repeat match goal with
       | Hk : lookups_ok ?d ?u _ |- context [base_size ?d ?u ?b] =>
           let Hb := fresh "Hb" in
           assert (Hb : entry_offset d u b <> Panic) by (apply Hk; cbn; auto);
           destruct (base_size_total d u b Hb) as [[? [-> ?]]|[? ->]]; cbn [bind]
       end.
  all: try (right; eexists; reflexivity).
  all: repeat match goal with |- context [if ?c then _ else _] => destruct c end.
  all: cbn [bind].
  all: size_leaf.
  all: repeat (rewrite uadd_small by (change (2 ^ 63) with 9223372036854775808; lia); cbn [bind]).
  all: try (left; eexists; split; [reflexivity|lia]).
Qed.

Lemma weights_cons o r : weights (o :: r) = weight o + weights r.
Proof. reflexivity. Qed.
Lemma weights_nil : weights [] = 0.
Proof. reflexivity. Qed.

Lemma sum_sizes_good dbg szf : forall ex acc,
  Forall (fun o => size_good (szf o) (weight o)) ex ->
  acc + weights ex < 2 ^ 63 ->
  (exists n, sum_sizes dbg szf acc ex = Ok n /\ n <= acc + weights ex) \/
  (exists er, sum_sizes dbg szf acc ex = Err er).
Proof.
  induction ex as [|o r IH]; intros acc HF Hb.
  - left. exists acc. rewrite sum_sizes_nil, weights_nil. split; [reflexivity|lia].
  - rewrite weights_cons in Hb. inversion HF as [|? ? Ho Hr]; subst.
    rewrite sum_sizes_cons.
    destruct Ho as [[n [-> Hn]]|[er ->]]; cbn [bind]; [|right; eexists; reflexivity].
    rewrite uadd_small by lia. cbn [bind].
    destruct (IH (acc + n) Hr) as [[m [-> Hm]]|[er ->]]; [lia| |right; eexists; reflexivity].
    left. exists m. split; [reflexivity|]. rewrite weights_cons. lia.
Qed.

Lemma lookups_ok_in dbg uo ex o : lookups_ok dbg uo (flat_map op_entries ex) -> In o ex -> lookups_ok dbg uo (op_entries o).
Proof. intros H Hin en Hen. apply H. apply in_flat_map. exists o. auto. Qed.

Lemma weights_in : forall ex o, In o ex -> weight o <= weights ex.
Proof.
  induction ex as [|x r IH]; intros o Hin; [destruct Hin|].
  destruct Hin as [->|Hin]; rewrite weights_cons; [lia|]. specialize (IH o Hin). lia.
Qed.

Lemma size_op_good dbg e uo : wf_enc e = true -> forall o,
  lookups_ok dbg uo (op_entries o) -> weight o < 2 ^ 63 -> size_good (size_op dbg e uo o) (weight o).
Proof.
  intros He. induction o as [o Hleaf|ex IH] using wop_nested_ind; intros Hlk Hw.
  - apply size_op_leaf_good; assumption.
  - cbn [weight] in Hw |- *. fold (weights ex) in Hw |- *. cbn [op_entries] in Hlk. cbn [size_op].
    destruct (sum_sizes_good dbg (size_op dbg e uo) ex 0) as [[n [Hn Hle]]|[er Her]].
    + rewrite Forall_forall in IH. apply Forall_forall. intros o Hin. apply IH; [exact Hin| |].
      * eapply lookups_ok_in; eauto.
      * pose proof (weights_in ex o Hin). lia.
    + lia.
    + rewrite Hn. cbn [bind]. pose proof (uleb128_size_le n).
      rewrite uadd_small by lia. cbn [bind]. rewrite uadd_small by lia.
      left. eexists. split; [reflexivity|lia].
    + rewrite Her. right. eexists. reflexivity.
Qed.

Lemma size_expr_good dbg e uo ex :
  wf_enc e = true -> lookups_ok dbg uo (flat_map op_entries ex) -> weights ex < 2 ^ 63 ->
  (exists n, size_expr dbg e uo ex = Ok n /\ n <= weights ex) \/ (exists er, size_expr dbg e uo ex = Err er).
Proof.
  intros He Hlk Hw. unfold size_expr.
  destruct (sum_sizes_good dbg (size_op dbg e uo) ex 0) as [[n [Hn Hle]]|[er Her]].
  - apply Forall_forall. intros o Hin. apply size_op_good; [exact He|eapply lookups_ok_in; eauto|].
    pose proof (weights_in ex o Hin). lia.
  - lia.
  - left. exists n. split; [exact Hn|lia].
  - right. exists er. exact Her.
Qed.

(* ---- writing ---- *)
Lemma nth_N_some {A} : forall (l : list A) n, n < N.of_nat (length l) -> exists x, nth_N l n = Some x.
Proof.
  induction l as [|x r IH]; intros n Hn; cbn [length] in Hn; [lia|]. cbn [nth_N].
  destruct (n =? 0) eqn:E; [eexists; reflexivity|]. apply IH. lia.
Qed.

Lemma np_branch dbg be offsets t after :
  after + 2 < 2 ^ 63 -> Forall (fun x => x < 2 ^ 63) offsets -> t < N.of_nat (length offsets) ->
  np (branch_operand dbg be offsets t after).
Proof.
  intros Ha Ho Ht. rewrite branch_operand_spec;
    [|exact Ha|intros tv Htv; apply nth_N_In in Htv; rewrite Forall_forall in Ho; apply Ho; exact Htv].
  destruct (nth_N_some offsets t Ht) as [tv ->]. cbv zeta.
  destruct (in_signed 16 (Z.of_N tv - (Z.of_N after + 2))); [apply np_ok|apply np_err].
Qed.

Lemma is_u64_lit n : is_u64 n = true -> n < 18446744073709551616.
Proof. unfold is_u64, two64. intros H. apply N.ltb_lt. exact H. Qed.
Lemma np_uleb' v : v < 18446744073709551616 -> np (write_uleb128 v).
Proof. intros H. apply np_uleb. exact H. Qed.

Ltac np_step :=
  match goal with
  | |- np (Ok _) => apply np_ok
  | |- np (Err _) => apply np_err
  | |- np (write_udata _ _ _) => apply np_udata
  | |- np (write_sdata _ _ _) => apply np_sdata
  | |- np (write_address _ _ _) => apply np_address
  | |- np (write_ref _ _ _ _ _) => apply np_ref
  | |- np (write_sleb128 _) => apply np_sleb; assumption
  | |- np (chk_add 8 _ _ (wrap8 _)) => apply np_lit; lia
  | |- np (bind _ _) => apply np_bind; [|intros ? ?]
  end.

Ltac np_more :=
  match goal with
  | |- np (let '(_, _) := ?a in _) => destruct a
  | |- np (match ?b with Some _ => _ | None => _ end) => destruct b
  | Hk : lookups_ok _ _ _ |- np (entry_offset _ _ _) => apply np_entry_offset; apply Hk; cbn; auto
  | Hu : wf_uoffs _ = true, Hx : entry_offset _ _ _ = Ok ?a |- np (write_uleb128 ?a) =>
      apply np_uleb; eapply entry_offset_lt; [exact Hu|exact Hx]
  | Hi : (?i <? two32) = true |- np (write_uleb128 ?i) =>
      apply np_uleb'; apply N.ltb_lt in Hi; eapply N.lt_trans; [exact Hi|reflexivity]
  | |- np (write_uleb128 _) => apply np_uleb'; lia
  | |- np (branch_operand _ _ _ _ _) =>
      apply np_branch; [change (2 ^ 63) with 9223372036854775808; lia|assumption|lia]
  end.

Lemma np_Raw dbg e uo refs offsets pos (bytecode : list byte) :
  wf_enc e = true -> wf_uoffs uo = true -> wf_op (WoRaw bytecode) = true ->
  tgt_ok (N.of_nat (length offsets) - 1) (WoRaw bytecode) = true -> (1 <= length offsets)%nat ->
  lookups_ok dbg uo (op_entries (WoRaw bytecode)) ->
  pos + weight (WoRaw bytecode) < 2 ^ 63 -> Forall (fun x => x < 2 ^ 63) offsets ->
  np (write_op dbg e uo refs offsets pos (WoRaw bytecode)).
Proof.
  intros He Huo Hwf Htg Hlen Hlk Hw Hoffs.
  change (2 ^ 63) with 9223372036854775808 in Hw.
  cbn [write_op wf_op tgt_ok weight op_entries uses_entry] in *; unfold only.
  repeat match goal with H : _ && _ = true |- _ => apply andb_true_iff in H; destruct H end.
  repeat match goal with H : is_u64 _ = true |- _ => apply is_u64_lit in H end.
  repeat match goal with |- context [if ?c then _ else _] => destruct c eqn:? end.
  all: repeat (first [np_step | np_more]).
Qed.

Lemma np_Simple dbg e uo refs offsets pos (opc : N) :
  wf_enc e = true -> wf_uoffs uo = true -> wf_op (WoSimple opc) = true ->
  tgt_ok (N.of_nat (length offsets) - 1) (WoSimple opc) = true -> (1 <= length offsets)%nat ->
  lookups_ok dbg uo (op_entries (WoSimple opc)) ->
  pos + weight (WoSimple opc) < 2 ^ 63 -> Forall (fun x => x < 2 ^ 63) offsets ->
  np (write_op dbg e uo refs offsets pos (WoSimple opc)).
Proof.
  intros He Huo Hwf Htg Hlen Hlk Hw Hoffs.
  change (2 ^ 63) with 9223372036854775808 in Hw.
  cbn [write_op wf_op tgt_ok weight op_entries uses_entry] in *; unfold only.
  repeat match goal with H : _ && _ = true |- _ => apply andb_true_iff in H; destruct H end.
  repeat match goal with H : is_u64 _ = true |- _ => apply is_u64_lit in H end.
  repeat match goal with |- context [if ?c then _ else _] => destruct c eqn:? end.
  all: repeat (first [np_step | np_more]).
Qed.

Lemma np_Address dbg e uo refs offsets pos (a : waddr) :
  wf_enc e = true -> wf_uoffs uo = true -> wf_op (WoAddress a) = true ->
  tgt_ok (N.of_nat (length offsets) - 1) (WoAddress a) = true -> (1 <= length offsets)%nat ->
  lookups_ok dbg uo (op_entries (WoAddress a)) ->
  pos + weight (WoAddress a) < 2 ^ 63 -> Forall (fun x => x < 2 ^ 63) offsets ->
  np (write_op dbg e uo refs offsets pos (WoAddress a)).
Proof.
  intros He Huo Hwf Htg Hlen Hlk Hw Hoffs.
  change (2 ^ 63) with 9223372036854775808 in Hw.
  cbn [write_op wf_op tgt_ok weight op_entries uses_entry] in *; unfold only.
  repeat match goal with H : _ && _ = true |- _ => apply andb_true_iff in H; destruct H end.
  repeat match goal with H : is_u64 _ = true |- _ => apply is_u64_lit in H end.
  repeat match goal with |- context [if ?c then _ else _] => destruct c eqn:? end.
  all: repeat (first [np_step | np_more]).
Qed.

Lemma np_UConst dbg e uo refs offsets pos (v : N) :
  wf_enc e = true -> wf_uoffs uo = true -> wf_op (WoUConst v) = true ->
  tgt_ok (N.of_nat (length offsets) - 1) (WoUConst v) = true -> (1 <= length offsets)%nat ->
  lookups_ok dbg uo (op_entries (WoUConst v)) ->
  pos + weight (WoUConst v) < 2 ^ 63 -> Forall (fun x => x < 2 ^ 63) offsets ->
  np (write_op dbg e uo refs offsets pos (WoUConst v)).
Proof.
  intros He Huo Hwf Htg Hlen Hlk Hw Hoffs.
  change (2 ^ 63) with 9223372036854775808 in Hw.
  cbn [write_op wf_op tgt_ok weight op_entries uses_entry] in *; unfold only.
  repeat match goal with H : _ && _ = true |- _ => apply andb_true_iff in H; destruct H end.
  repeat match goal with H : is_u64 _ = true |- _ => apply is_u64_lit in H end.
  repeat match goal with |- context [if ?c then _ else _] => destruct c eqn:? end.
  all: repeat (first [np_step | np_more]).
Qed.

Lemma np_SConst dbg e uo refs offsets pos (v : Z) :
  wf_enc e = true -> wf_uoffs uo = true -> wf_op (WoSConst v) = true ->
  tgt_ok (N.of_nat (length offsets) - 1) (WoSConst v) = true -> (1 <= length offsets)%nat ->
  lookups_ok dbg uo (op_entries (WoSConst v)) ->
  pos + weight (WoSConst v) < 2 ^ 63 -> Forall (fun x => x < 2 ^ 63) offsets ->
  np (write_op dbg e uo refs offsets pos (WoSConst v)).
Proof.
  intros He Huo Hwf Htg Hlen Hlk Hw Hoffs.
  change (2 ^ 63) with 9223372036854775808 in Hw.
  cbn [write_op wf_op tgt_ok weight op_entries uses_entry] in *; unfold only.
  repeat match goal with H : _ && _ = true |- _ => apply andb_true_iff in H; destruct H end.
  repeat match goal with H : is_u64 _ = true |- _ => apply is_u64_lit in H end.
  repeat match goal with |- context [if ?c then _ else _] => destruct c eqn:? end.
  all: repeat (first [np_step | np_more]).
Qed.

Lemma np_ConstType dbg e uo refs offsets pos (base : N) (value : list byte) :
  wf_enc e = true -> wf_uoffs uo = true -> wf_op (WoConstType base value) = true ->
  tgt_ok (N.of_nat (length offsets) - 1) (WoConstType base value) = true -> (1 <= length offsets)%nat ->
  lookups_ok dbg uo (op_entries (WoConstType base value)) ->
  pos + weight (WoConstType base value) < 2 ^ 63 -> Forall (fun x => x < 2 ^ 63) offsets ->
  np (write_op dbg e uo refs offsets pos (WoConstType base value)).
Proof.
  intros He Huo Hwf Htg Hlen Hlk Hw Hoffs.
  change (2 ^ 63) with 9223372036854775808 in Hw.
  cbn [write_op wf_op tgt_ok weight op_entries uses_entry] in *; unfold only.
  repeat match goal with H : _ && _ = true |- _ => apply andb_true_iff in H; destruct H end.
  repeat match goal with H : is_u64 _ = true |- _ => apply is_u64_lit in H end.
  repeat match goal with |- context [if ?c then _ else _] => destruct c eqn:? end.
  all: repeat (first [np_step | np_more]).
Qed.

Lemma np_FrameOffset dbg e uo refs offsets pos (off : Z) :
  wf_enc e = true -> wf_uoffs uo = true -> wf_op (WoFrameOffset off) = true ->
  tgt_ok (N.of_nat (length offsets) - 1) (WoFrameOffset off) = true -> (1 <= length offsets)%nat ->
  lookups_ok dbg uo (op_entries (WoFrameOffset off)) ->
  pos + weight (WoFrameOffset off) < 2 ^ 63 -> Forall (fun x => x < 2 ^ 63) offsets ->
  np (write_op dbg e uo refs offsets pos (WoFrameOffset off)).
Proof.
  intros He Huo Hwf Htg Hlen Hlk Hw Hoffs.
  change (2 ^ 63) with 9223372036854775808 in Hw.
  cbn [write_op wf_op tgt_ok weight op_entries uses_entry] in *; unfold only.
  repeat match goal with H : _ && _ = true |- _ => apply andb_true_iff in H; destruct H end.
  repeat match goal with H : is_u64 _ = true |- _ => apply is_u64_lit in H end.
  repeat match goal with |- context [if ?c then _ else _] => destruct c eqn:? end.
  all: repeat (first [np_step | np_more]).
Qed.

Lemma np_RegOffset dbg e uo refs offsets pos (reg : N) (off : Z) :
  wf_enc e = true -> wf_uoffs uo = true -> wf_op (WoRegOffset reg off) = true ->
  tgt_ok (N.of_nat (length offsets) - 1) (WoRegOffset reg off) = true -> (1 <= length offsets)%nat ->
  lookups_ok dbg uo (op_entries (WoRegOffset reg off)) ->
  pos + weight (WoRegOffset reg off) < 2 ^ 63 -> Forall (fun x => x < 2 ^ 63) offsets ->
  np (write_op dbg e uo refs offsets pos (WoRegOffset reg off)).
Proof.
  intros He Huo Hwf Htg Hlen Hlk Hw Hoffs.
  change (2 ^ 63) with 9223372036854775808 in Hw.
  cbn [write_op wf_op tgt_ok weight op_entries uses_entry] in *; unfold only.
  repeat match goal with H : _ && _ = true |- _ => apply andb_true_iff in H; destruct H end.
  repeat match goal with H : is_u64 _ = true |- _ => apply is_u64_lit in H end.
  repeat match goal with |- context [if ?c then _ else _] => destruct c eqn:? end.
  all: repeat (first [np_step | np_more]).
Qed.

Lemma np_RegType dbg e uo refs offsets pos (reg base : N) :
  wf_enc e = true -> wf_uoffs uo = true -> wf_op (WoRegType reg base) = true ->
  tgt_ok (N.of_nat (length offsets) - 1) (WoRegType reg base) = true -> (1 <= length offsets)%nat ->
  lookups_ok dbg uo (op_entries (WoRegType reg base)) ->
  pos + weight (WoRegType reg base) < 2 ^ 63 -> Forall (fun x => x < 2 ^ 63) offsets ->
  np (write_op dbg e uo refs offsets pos (WoRegType reg base)).
Proof.
  intros He Huo Hwf Htg Hlen Hlk Hw Hoffs.
  change (2 ^ 63) with 9223372036854775808 in Hw.
  cbn [write_op wf_op tgt_ok weight op_entries uses_entry] in *; unfold only.
  repeat match goal with H : _ && _ = true |- _ => apply andb_true_iff in H; destruct H end.
  repeat match goal with H : is_u64 _ = true |- _ => apply is_u64_lit in H end.
  repeat match goal with |- context [if ?c then _ else _] => destruct c eqn:? end.
  all: repeat (first [np_step | np_more]).
Qed.

Lemma np_Pick dbg e uo refs offsets pos (index : N) :
  wf_enc e = true -> wf_uoffs uo = true -> wf_op (WoPick index) = true ->
  tgt_ok (N.of_nat (length offsets) - 1) (WoPick index) = true -> (1 <= length offsets)%nat ->
  lookups_ok dbg uo (op_entries (WoPick index)) ->
  pos + weight (WoPick index) < 2 ^ 63 -> Forall (fun x => x < 2 ^ 63) offsets ->
  np (write_op dbg e uo refs offsets pos (WoPick index)).
Proof.
  intros He Huo Hwf Htg Hlen Hlk Hw Hoffs.
  change (2 ^ 63) with 9223372036854775808 in Hw.
  cbn [write_op wf_op tgt_ok weight op_entries uses_entry] in *; unfold only.
  repeat match goal with H : _ && _ = true |- _ => apply andb_true_iff in H; destruct H end.
  repeat match goal with H : is_u64 _ = true |- _ => apply is_u64_lit in H end.
  repeat match goal with |- context [if ?c then _ else _] => destruct c eqn:? end.
  all: repeat (first [np_step | np_more]).
Qed.

Lemma np_Deref dbg e uo refs offsets pos (space : bool) :
  wf_enc e = true -> wf_uoffs uo = true -> wf_op (WoDeref space) = true ->
  tgt_ok (N.of_nat (length offsets) - 1) (WoDeref space) = true -> (1 <= length offsets)%nat ->
  lookups_ok dbg uo (op_entries (WoDeref space)) ->
  pos + weight (WoDeref space) < 2 ^ 63 -> Forall (fun x => x < 2 ^ 63) offsets ->
  np (write_op dbg e uo refs offsets pos (WoDeref space)).
Proof.
  intros He Huo Hwf Htg Hlen Hlk Hw Hoffs.
  change (2 ^ 63) with 9223372036854775808 in Hw.
  cbn [write_op wf_op tgt_ok weight op_entries uses_entry] in *; unfold only.
  repeat match goal with H : _ && _ = true |- _ => apply andb_true_iff in H; destruct H end.
  repeat match goal with H : is_u64 _ = true |- _ => apply is_u64_lit in H end.
  repeat match goal with |- context [if ?c then _ else _] => destruct c eqn:? end.
  all: repeat (first [np_step | np_more]).
Qed.

Lemma np_DerefSize dbg e uo refs offsets pos (space : bool) (size : N) :
  wf_enc e = true -> wf_uoffs uo = true -> wf_op (WoDerefSize space size) = true ->
  tgt_ok (N.of_nat (length offsets) - 1) (WoDerefSize space size) = true -> (1 <= length offsets)%nat ->
  lookups_ok dbg uo (op_entries (WoDerefSize space size)) ->
  pos + weight (WoDerefSize space size) < 2 ^ 63 -> Forall (fun x => x < 2 ^ 63) offsets ->
  np (write_op dbg e uo refs offsets pos (WoDerefSize space size)).
Proof.
  intros He Huo Hwf Htg Hlen Hlk Hw Hoffs.
  change (2 ^ 63) with 9223372036854775808 in Hw.
  cbn [write_op wf_op tgt_ok weight op_entries uses_entry] in *; unfold only.
  repeat match goal with H : _ && _ = true |- _ => apply andb_true_iff in H; destruct H end.
  repeat match goal with H : is_u64 _ = true |- _ => apply is_u64_lit in H end.
  repeat match goal with |- context [if ?c then _ else _] => destruct c eqn:? end.
  all: repeat (first [np_step | np_more]).
Qed.

Lemma np_DerefType dbg e uo refs offsets pos (space : bool) (size base : N) :
  wf_enc e = true -> wf_uoffs uo = true -> wf_op (WoDerefType space size base) = true ->
  tgt_ok (N.of_nat (length offsets) - 1) (WoDerefType space size base) = true -> (1 <= length offsets)%nat ->
  lookups_ok dbg uo (op_entries (WoDerefType space size base)) ->
  pos + weight (WoDerefType space size base) < 2 ^ 63 -> Forall (fun x => x < 2 ^ 63) offsets ->
  np (write_op dbg e uo refs offsets pos (WoDerefType space size base)).
Proof.
  intros He Huo Hwf Htg Hlen Hlk Hw Hoffs.
  change (2 ^ 63) with 9223372036854775808 in Hw.
  cbn [write_op wf_op tgt_ok weight op_entries uses_entry] in *; unfold only.
  repeat match goal with H : _ && _ = true |- _ => apply andb_true_iff in H; destruct H end.
  repeat match goal with H : is_u64 _ = true |- _ => apply is_u64_lit in H end.
  repeat match goal with |- context [if ?c then _ else _] => destruct c eqn:? end.
  all: repeat (first [np_step | np_more]).
Qed.

Lemma np_PlusConst dbg e uo refs offsets pos (v : N) :
  wf_enc e = true -> wf_uoffs uo = true -> wf_op (WoPlusConst v) = true ->
  tgt_ok (N.of_nat (length offsets) - 1) (WoPlusConst v) = true -> (1 <= length offsets)%nat ->
  lookups_ok dbg uo (op_entries (WoPlusConst v)) ->
  pos + weight (WoPlusConst v) < 2 ^ 63 -> Forall (fun x => x < 2 ^ 63) offsets ->
  np (write_op dbg e uo refs offsets pos (WoPlusConst v)).
Proof.
  intros He Huo Hwf Htg Hlen Hlk Hw Hoffs.
  change (2 ^ 63) with 9223372036854775808 in Hw.
  cbn [write_op wf_op tgt_ok weight op_entries uses_entry] in *; unfold only.
  repeat match goal with H : _ && _ = true |- _ => apply andb_true_iff in H; destruct H end.
  repeat match goal with H : is_u64 _ = true |- _ => apply is_u64_lit in H end.
  repeat match goal with |- context [if ?c then _ else _] => destruct c eqn:? end.
  all: repeat (first [np_step | np_more]).
Qed.

Lemma np_Skip dbg e uo refs offsets pos (target : N) :
  wf_enc e = true -> wf_uoffs uo = true -> wf_op (WoSkip target) = true ->
  tgt_ok (N.of_nat (length offsets) - 1) (WoSkip target) = true -> (1 <= length offsets)%nat ->
  lookups_ok dbg uo (op_entries (WoSkip target)) ->
  pos + weight (WoSkip target) < 2 ^ 63 -> Forall (fun x => x < 2 ^ 63) offsets ->
  np (write_op dbg e uo refs offsets pos (WoSkip target)).
Proof.
  intros He Huo Hwf Htg Hlen Hlk Hw Hoffs.
  change (2 ^ 63) with 9223372036854775808 in Hw.
  cbn [write_op wf_op tgt_ok weight op_entries uses_entry] in *; unfold only.
  repeat match goal with H : _ && _ = true |- _ => apply andb_true_iff in H; destruct H end.
  repeat match goal with H : is_u64 _ = true |- _ => apply is_u64_lit in H end.
  repeat match goal with |- context [if ?c then _ else _] => destruct c eqn:? end.
  all: repeat (first [np_step | np_more]).
Qed.

Lemma np_Branch dbg e uo refs offsets pos (target : N) :
  wf_enc e = true -> wf_uoffs uo = true -> wf_op (WoBranch target) = true ->
  tgt_ok (N.of_nat (length offsets) - 1) (WoBranch target) = true -> (1 <= length offsets)%nat ->
  lookups_ok dbg uo (op_entries (WoBranch target)) ->
  pos + weight (WoBranch target) < 2 ^ 63 -> Forall (fun x => x < 2 ^ 63) offsets ->
  np (write_op dbg e uo refs offsets pos (WoBranch target)).
Proof.
  intros He Huo Hwf Htg Hlen Hlk Hw Hoffs.
  change (2 ^ 63) with 9223372036854775808 in Hw.
  cbn [write_op wf_op tgt_ok weight op_entries uses_entry] in *; unfold only.
  repeat match goal with H : _ && _ = true |- _ => apply andb_true_iff in H; destruct H end.
  repeat match goal with H : is_u64 _ = true |- _ => apply is_u64_lit in H end.
  repeat match goal with |- context [if ?c then _ else _] => destruct c eqn:? end.
  all: repeat (first [np_step | np_more]).
Qed.

Lemma np_Call dbg e uo refs offsets pos (entry : N) :
  wf_enc e = true -> wf_uoffs uo = true -> wf_op (WoCall entry) = true ->
  tgt_ok (N.of_nat (length offsets) - 1) (WoCall entry) = true -> (1 <= length offsets)%nat ->
  lookups_ok dbg uo (op_entries (WoCall entry)) ->
  pos + weight (WoCall entry) < 2 ^ 63 -> Forall (fun x => x < 2 ^ 63) offsets ->
  np (write_op dbg e uo refs offsets pos (WoCall entry)).
Proof.
  intros He Huo Hwf Htg Hlen Hlk Hw Hoffs.
  change (2 ^ 63) with 9223372036854775808 in Hw.
  cbn [write_op wf_op tgt_ok weight op_entries uses_entry] in *; unfold only.
  repeat match goal with H : _ && _ = true |- _ => apply andb_true_iff in H; destruct H end.
  repeat match goal with H : is_u64 _ = true |- _ => apply is_u64_lit in H end.
  repeat match goal with |- context [if ?c then _ else _] => destruct c eqn:? end.
  all: repeat (first [np_step | np_more]).
Qed.

Lemma np_CallRef dbg e uo refs offsets pos (r : dref) :
  wf_enc e = true -> wf_uoffs uo = true -> wf_op (WoCallRef r) = true ->
  tgt_ok (N.of_nat (length offsets) - 1) (WoCallRef r) = true -> (1 <= length offsets)%nat ->
  lookups_ok dbg uo (op_entries (WoCallRef r)) ->
  pos + weight (WoCallRef r) < 2 ^ 63 -> Forall (fun x => x < 2 ^ 63) offsets ->
  np (write_op dbg e uo refs offsets pos (WoCallRef r)).
Proof.
  intros He Huo Hwf Htg Hlen Hlk Hw Hoffs.
  change (2 ^ 63) with 9223372036854775808 in Hw.
  cbn [write_op wf_op tgt_ok weight op_entries uses_entry] in *; unfold only.
  repeat match goal with H : _ && _ = true |- _ => apply andb_true_iff in H; destruct H end.
  repeat match goal with H : is_u64 _ = true |- _ => apply is_u64_lit in H end.
  repeat match goal with |- context [if ?c then _ else _] => destruct c eqn:? end.
  all: repeat (first [np_step | np_more]).
Qed.

Lemma np_VarValue dbg e uo refs offsets pos (r : dref) :
  wf_enc e = true -> wf_uoffs uo = true -> wf_op (WoVarValue r) = true ->
  tgt_ok (N.of_nat (length offsets) - 1) (WoVarValue r) = true -> (1 <= length offsets)%nat ->
  lookups_ok dbg uo (op_entries (WoVarValue r)) ->
  pos + weight (WoVarValue r) < 2 ^ 63 -> Forall (fun x => x < 2 ^ 63) offsets ->
  np (write_op dbg e uo refs offsets pos (WoVarValue r)).
Proof.
  intros He Huo Hwf Htg Hlen Hlk Hw Hoffs.
  change (2 ^ 63) with 9223372036854775808 in Hw.
  cbn [write_op wf_op tgt_ok weight op_entries uses_entry] in *; unfold only.
  repeat match goal with H : _ && _ = true |- _ => apply andb_true_iff in H; destruct H end.
  repeat match goal with H : is_u64 _ = true |- _ => apply is_u64_lit in H end.
  repeat match goal with |- context [if ?c then _ else _] => destruct c eqn:? end.
  all: repeat (first [np_step | np_more]).
Qed.

Lemma np_Convert dbg e uo refs offsets pos (base : option N) :
  wf_enc e = true -> wf_uoffs uo = true -> wf_op (WoConvert base) = true ->
  tgt_ok (N.of_nat (length offsets) - 1) (WoConvert base) = true -> (1 <= length offsets)%nat ->
  lookups_ok dbg uo (op_entries (WoConvert base)) ->
  pos + weight (WoConvert base) < 2 ^ 63 -> Forall (fun x => x < 2 ^ 63) offsets ->
  np (write_op dbg e uo refs offsets pos (WoConvert base)).
Proof.
  intros He Huo Hwf Htg Hlen Hlk Hw Hoffs.
  change (2 ^ 63) with 9223372036854775808 in Hw.
  cbn [write_op wf_op tgt_ok weight op_entries uses_entry] in *; unfold only.
  repeat match goal with H : _ && _ = true |- _ => apply andb_true_iff in H; destruct H end.
  repeat match goal with H : is_u64 _ = true |- _ => apply is_u64_lit in H end.
  repeat match goal with |- context [if ?c then _ else _] => destruct c eqn:? end.
  all: repeat (first [np_step | np_more]).
Qed.

Lemma np_Reinterpret dbg e uo refs offsets pos (base : option N) :
  wf_enc e = true -> wf_uoffs uo = true -> wf_op (WoReinterpret base) = true ->
  tgt_ok (N.of_nat (length offsets) - 1) (WoReinterpret base) = true -> (1 <= length offsets)%nat ->
  lookups_ok dbg uo (op_entries (WoReinterpret base)) ->
  pos + weight (WoReinterpret base) < 2 ^ 63 -> Forall (fun x => x < 2 ^ 63) offsets ->
  np (write_op dbg e uo refs offsets pos (WoReinterpret base)).
Proof.
  intros He Huo Hwf Htg Hlen Hlk Hw Hoffs.
  change (2 ^ 63) with 9223372036854775808 in Hw.
  cbn [write_op wf_op tgt_ok weight op_entries uses_entry] in *; unfold only.
  repeat match goal with H : _ && _ = true |- _ => apply andb_true_iff in H; destruct H end.
  repeat match goal with H : is_u64 _ = true |- _ => apply is_u64_lit in H end.
  repeat match goal with |- context [if ?c then _ else _] => destruct c eqn:? end.
  all: repeat (first [np_step | np_more]).
Qed.

Lemma np_Register dbg e uo refs offsets pos (reg : N) :
  wf_enc e = true -> wf_uoffs uo = true -> wf_op (WoRegister reg) = true ->
  tgt_ok (N.of_nat (length offsets) - 1) (WoRegister reg) = true -> (1 <= length offsets)%nat ->
  lookups_ok dbg uo (op_entries (WoRegister reg)) ->
  pos + weight (WoRegister reg) < 2 ^ 63 -> Forall (fun x => x < 2 ^ 63) offsets ->
  np (write_op dbg e uo refs offsets pos (WoRegister reg)).
Proof.
  intros He Huo Hwf Htg Hlen Hlk Hw Hoffs.
  change (2 ^ 63) with 9223372036854775808 in Hw.
  cbn [write_op wf_op tgt_ok weight op_entries uses_entry] in *; unfold only.
  repeat match goal with H : _ && _ = true |- _ => apply andb_true_iff in H; destruct H end.
  repeat match goal with H : is_u64 _ = true |- _ => apply is_u64_lit in H end.
  repeat match goal with |- context [if ?c then _ else _] => destruct c eqn:? end.
  all: repeat (first [np_step | np_more]).
Qed.

Lemma np_ImplicitValue dbg e uo refs offsets pos (data : list byte) :
  wf_enc e = true -> wf_uoffs uo = true -> wf_op (WoImplicitValue data) = true ->
  tgt_ok (N.of_nat (length offsets) - 1) (WoImplicitValue data) = true -> (1 <= length offsets)%nat ->
  lookups_ok dbg uo (op_entries (WoImplicitValue data)) ->
  pos + weight (WoImplicitValue data) < 2 ^ 63 -> Forall (fun x => x < 2 ^ 63) offsets ->
  np (write_op dbg e uo refs offsets pos (WoImplicitValue data)).
Proof.
  intros He Huo Hwf Htg Hlen Hlk Hw Hoffs.
  change (2 ^ 63) with 9223372036854775808 in Hw.
  cbn [write_op wf_op tgt_ok weight op_entries uses_entry] in *; unfold only.
  repeat match goal with H : _ && _ = true |- _ => apply andb_true_iff in H; destruct H end.
  repeat match goal with H : is_u64 _ = true |- _ => apply is_u64_lit in H end.
  repeat match goal with |- context [if ?c then _ else _] => destruct c eqn:? end.
  all: repeat (first [np_step | np_more]).
Qed.

Lemma np_ImplicitPointer dbg e uo refs offsets pos (r : dref) (byte_off : Z) :
  wf_enc e = true -> wf_uoffs uo = true -> wf_op (WoImplicitPointer r byte_off) = true ->
  tgt_ok (N.of_nat (length offsets) - 1) (WoImplicitPointer r byte_off) = true -> (1 <= length offsets)%nat ->
  lookups_ok dbg uo (op_entries (WoImplicitPointer r byte_off)) ->
  pos + weight (WoImplicitPointer r byte_off) < 2 ^ 63 -> Forall (fun x => x < 2 ^ 63) offsets ->
  np (write_op dbg e uo refs offsets pos (WoImplicitPointer r byte_off)).
Proof.
  intros He Huo Hwf Htg Hlen Hlk Hw Hoffs.
  change (2 ^ 63) with 9223372036854775808 in Hw.
  cbn [write_op wf_op tgt_ok weight op_entries uses_entry] in *; unfold only.
  repeat match goal with H : _ && _ = true |- _ => apply andb_true_iff in H; destruct H end.
  repeat match goal with H : is_u64 _ = true |- _ => apply is_u64_lit in H end.
  repeat match goal with |- context [if ?c then _ else _] => destruct c eqn:? end.
  all: repeat (first [np_step | np_more]).
Qed.

Lemma np_Piece dbg e uo refs offsets pos (size_in_bytes : N) :
  wf_enc e = true -> wf_uoffs uo = true -> wf_op (WoPiece size_in_bytes) = true ->
  tgt_ok (N.of_nat (length offsets) - 1) (WoPiece size_in_bytes) = true -> (1 <= length offsets)%nat ->
  lookups_ok dbg uo (op_entries (WoPiece size_in_bytes)) ->
  pos + weight (WoPiece size_in_bytes) < 2 ^ 63 -> Forall (fun x => x < 2 ^ 63) offsets ->
  np (write_op dbg e uo refs offsets pos (WoPiece size_in_bytes)).
Proof.
  intros He Huo Hwf Htg Hlen Hlk Hw Hoffs.
  change (2 ^ 63) with 9223372036854775808 in Hw.
  cbn [write_op wf_op tgt_ok weight op_entries uses_entry] in *; unfold only.
  repeat match goal with H : _ && _ = true |- _ => apply andb_true_iff in H; destruct H end.
  repeat match goal with H : is_u64 _ = true |- _ => apply is_u64_lit in H end.
  repeat match goal with |- context [if ?c then _ else _] => destruct c eqn:? end.
  all: repeat (first [np_step | np_more]).
Qed.

Lemma np_BitPiece dbg e uo refs offsets pos (size_in_bits bit_off : N) :
  wf_enc e = true -> wf_uoffs uo = true -> wf_op (WoBitPiece size_in_bits bit_off) = true ->
  tgt_ok (N.of_nat (length offsets) - 1) (WoBitPiece size_in_bits bit_off) = true -> (1 <= length offsets)%nat ->
  lookups_ok dbg uo (op_entries (WoBitPiece size_in_bits bit_off)) ->
  pos + weight (WoBitPiece size_in_bits bit_off) < 2 ^ 63 -> Forall (fun x => x < 2 ^ 63) offsets ->
  np (write_op dbg e uo refs offsets pos (WoBitPiece size_in_bits bit_off)).
Proof.
  intros He Huo Hwf Htg Hlen Hlk Hw Hoffs.
  change (2 ^ 63) with 9223372036854775808 in Hw.
  cbn [write_op wf_op tgt_ok weight op_entries uses_entry] in *; unfold only.
  repeat match goal with H : _ && _ = true |- _ => apply andb_true_iff in H; destruct H end.
  repeat match goal with H : is_u64 _ = true |- _ => apply is_u64_lit in H end.
  repeat match goal with |- context [if ?c then _ else _] => destruct c eqn:? end.
  all: repeat (first [np_step | np_more]).
Qed.

Lemma np_ParameterRef dbg e uo refs offsets pos (entry : N) :
  wf_enc e = true -> wf_uoffs uo = true -> wf_op (WoParameterRef entry) = true ->
  tgt_ok (N.of_nat (length offsets) - 1) (WoParameterRef entry) = true -> (1 <= length offsets)%nat ->
  lookups_ok dbg uo (op_entries (WoParameterRef entry)) ->
  pos + weight (WoParameterRef entry) < 2 ^ 63 -> Forall (fun x => x < 2 ^ 63) offsets ->
  np (write_op dbg e uo refs offsets pos (WoParameterRef entry)).
Proof.
  intros He Huo Hwf Htg Hlen Hlk Hw Hoffs.
  change (2 ^ 63) with 9223372036854775808 in Hw.
  cbn [write_op wf_op tgt_ok weight op_entries uses_entry] in *; unfold only.
  repeat match goal with H : _ && _ = true |- _ => apply andb_true_iff in H; destruct H end.
  repeat match goal with H : is_u64 _ = true |- _ => apply is_u64_lit in H end.
  repeat match goal with |- context [if ?c then _ else _] => destruct c eqn:? end.
  all: repeat (first [np_step | np_more]).
Qed.

Lemma np_WasmLocal dbg e uo refs offsets pos (i : N) :
  wf_enc e = true -> wf_uoffs uo = true -> wf_op (WoWasmLocal i) = true ->
  tgt_ok (N.of_nat (length offsets) - 1) (WoWasmLocal i) = true -> (1 <= length offsets)%nat ->
  lookups_ok dbg uo (op_entries (WoWasmLocal i)) ->
  pos + weight (WoWasmLocal i) < 2 ^ 63 -> Forall (fun x => x < 2 ^ 63) offsets ->
  np (write_op dbg e uo refs offsets pos (WoWasmLocal i)).
Proof.
  intros He Huo Hwf Htg Hlen Hlk Hw Hoffs.
  change (2 ^ 63) with 9223372036854775808 in Hw.
  cbn [write_op wf_op tgt_ok weight op_entries uses_entry] in *; unfold only.
  repeat match goal with H : _ && _ = true |- _ => apply andb_true_iff in H; destruct H end.
  repeat match goal with H : is_u64 _ = true |- _ => apply is_u64_lit in H end.
  repeat match goal with |- context [if ?c then _ else _] => destruct c eqn:? end.
  all: repeat (first [np_step | np_more]).
Qed.

Lemma np_WasmGlobal dbg e uo refs offsets pos (i : N) :
  wf_enc e = true -> wf_uoffs uo = true -> wf_op (WoWasmGlobal i) = true ->
  tgt_ok (N.of_nat (length offsets) - 1) (WoWasmGlobal i) = true -> (1 <= length offsets)%nat ->
  lookups_ok dbg uo (op_entries (WoWasmGlobal i)) ->
  pos + weight (WoWasmGlobal i) < 2 ^ 63 -> Forall (fun x => x < 2 ^ 63) offsets ->
  np (write_op dbg e uo refs offsets pos (WoWasmGlobal i)).
Proof.
  intros He Huo Hwf Htg Hlen Hlk Hw Hoffs.
  change (2 ^ 63) with 9223372036854775808 in Hw.
  cbn [write_op wf_op tgt_ok weight op_entries uses_entry] in *; unfold only.
  repeat match goal with H : _ && _ = true |- _ => apply andb_true_iff in H; destruct H end.
  repeat match goal with H : is_u64 _ = true |- _ => apply is_u64_lit in H end.
  repeat match goal with |- context [if ?c then _ else _] => destruct c eqn:? end.
  all: repeat (first [np_step | np_more]).
Qed.

Lemma np_WasmStack dbg e uo refs offsets pos (i : N) :
  wf_enc e = true -> wf_uoffs uo = true -> wf_op (WoWasmStack i) = true ->
  tgt_ok (N.of_nat (length offsets) - 1) (WoWasmStack i) = true -> (1 <= length offsets)%nat ->
  lookups_ok dbg uo (op_entries (WoWasmStack i)) ->
  pos + weight (WoWasmStack i) < 2 ^ 63 -> Forall (fun x => x < 2 ^ 63) offsets ->
  np (write_op dbg e uo refs offsets pos (WoWasmStack i)).
Proof.
  intros He Huo Hwf Htg Hlen Hlk Hw Hoffs.
  change (2 ^ 63) with 9223372036854775808 in Hw.
  cbn [write_op wf_op tgt_ok weight op_entries uses_entry] in *; unfold only.
  repeat match goal with H : _ && _ = true |- _ => apply andb_true_iff in H; destruct H end.
  repeat match goal with H : is_u64 _ = true |- _ => apply is_u64_lit in H end.
  repeat match goal with |- context [if ?c then _ else _] => destruct c eqn:? end.
  all: repeat (first [np_step | np_more]).
Qed.

Lemma write_op_leaf_np dbg e uo refs offsets pos o :
  (forall ex, o <> WoEntryValue ex) ->
  wf_enc e = true -> wf_uoffs uo = true -> wf_op o = true ->
  tgt_ok (N.of_nat (length offsets) - 1) o = true -> (1 <= length offsets)%nat ->
  lookups_ok dbg uo (op_entries o) ->
  pos + weight o < 2 ^ 63 -> Forall (fun x => x < 2 ^ 63) offsets ->
  np (write_op dbg e uo refs offsets pos o).
Proof.
  intros Hne He Huo Hwf Htg Hlen Hlk Hw Hoffs.
  destruct o; try (exfalso; eapply Hne; reflexivity).
  - apply np_Raw; assumption.
  - apply np_Simple; assumption.
  - apply np_Address; assumption.
  - apply np_UConst; assumption.
  - apply np_SConst; assumption.
  - apply np_ConstType; assumption.
  - apply np_FrameOffset; assumption.
  - apply np_RegOffset; assumption.
  - apply np_RegType; assumption.
  - apply np_Pick; assumption.
  - apply np_Deref; assumption.
  - apply np_DerefSize; assumption.
  - apply np_DerefType; assumption.
  - apply np_PlusConst; assumption.
  - apply np_Skip; assumption.
  - apply np_Branch; assumption.
  - apply np_Call; assumption.
  - apply np_CallRef; assumption.
  - apply np_VarValue; assumption.
  - apply np_Convert; assumption.
  - apply np_Reinterpret; assumption.
  - apply np_Register; assumption.
  - apply np_ImplicitValue; assumption.
  - apply np_ImplicitPointer; assumption.
  - apply np_Piece; assumption.
  - apply np_BitPiece; assumption.
  - apply np_ParameterRef; assumption.
  - apply np_WasmLocal; assumption.
  - apply np_WasmGlobal; assumption.
  - apply np_WasmStack; assumption.
Qed.

(* ---- emitted length is bounded by the weight ---- *)
Lemma write_loop_len_le dbg (wr : N -> wop -> wres) : forall ex pos offs bs fx,
  Forall (fun o => forall pos b f, wr pos o = Ok (b, f) -> blen b <= weight o) ex ->
  write_loop dbg wr pos ex offs = Ok (bs, fx) -> blen bs <= weights ex.
Proof.
  induction ex as [|o r IH]; intros pos offs bs fx HF H.
  - rewrite write_loop_nil in H. inversion H; subst. rewrite blen_nil. lia.
  - rewrite write_loop_cons in H. destruct offs as [|off offs']; [discriminate|].
    destruct (dbg && negb (pos =? off)); [discriminate|].
    apply bind_ok_inv in H. destruct H as [[b1 f1] [H1 H]].
    apply bind_ok_inv in H. destruct H as [[b2 f2] [H2 H]]. inversion H; subst. clear H.
    inversion HF as [|? ? Ho Hr]; subst.
    rewrite blen_app, weights_cons. specialize (Ho _ _ _ H1). specialize (IH _ _ _ _ Hr H2). lia.
Qed.

Lemma write_op_leaf_len_le dbg e uo refs offsets pos o b f :
  (forall ex, o <> WoEntryValue ex) -> wf_enc e = true ->
  write_op dbg e uo refs offsets pos o = Ok (b, f) -> blen b <= weight o.
Proof.
  intros Hne He H.
  pose proof (wf_enc_asize e He) as Ha. pose proof (iptr_size_le e He) as Hi.
  assert (Hword : word_size (e_fmt64 e) <= 8) by (unfold word_size; destruct (e_fmt64 e); lia).
  destruct o; try (exfalso; eapply Hne; reflexivity); cbn [write_op weight] in *.
  all: inv_all.
  all: len_facts.
  all: rewrite ?blen_cons, ?blen_app, ?blen_cons, ?blen_app, ?blen_cons, ?blen_nil in *.
  all: repeat match goal with
       | Hx : _ = uleb128_size ?v |- _ => pose proof (uleb128_size_le v); rewrite <- Hx in *; clear Hx
       | Hx : _ = sleb128_size ?v |- _ => pose proof (sleb128_size_le v); rewrite <- Hx in *; clear Hx
       end.
  all: try lia.
Qed.

Lemma write_op_len_le dbg e uo refs : wf_enc e = true -> forall o offsets pos b f,
  write_op dbg e uo refs offsets pos o = Ok (b, f) -> blen b <= weight o.
Proof.
  intros He. induction o as [o Hleaf|ex IH] using wop_nested_ind; intros offsets pos b f H.
  - eapply write_op_leaf_len_le; eauto.
  - cbn [write_op] in H.
    apply bind_ok_inv in H. destruct H as [len [Hlen H]].
    apply bind_ok_inv in H. destruct H as [lb [Hlb H]].
    apply bind_ok_inv in H. destruct H as [[inner fi] [Hw H]]. inversion H; subst. clear H.
    unfold write_expr_with in Hw.
    apply bind_ok_inv in Hw. destruct Hw as [[offs fin] [_ Hw]].
    apply bind_ok_inv in Hw. destruct Hw as [[b2 f2] [Hl Hw]].
    destruct (dbg && negb (pos + 1 + blen lb + blen b2 =? fin)); [discriminate|]. inversion Hw; subst. clear Hw.
    assert (Hin : blen inner <= weights ex).
    { eapply write_loop_len_le; [|exact Hl]. eapply Forall_impl; [|exact IH].
      intros o Ho p b1 f1 H1. eapply Ho; eauto. }
    apply write_uleb128_len in Hlb. pose proof (uleb128_size_le len).
    cbn [weight]. fold (weights ex). rewrite blen_cons, blen_app. lia.
Qed.

(* ---- Expression::write: offsets fit, the debug assertions hold, nothing panics ---- *)
Lemma calc_offsets_good dbg szf : forall ex pos,
  Forall (fun o => size_good (szf o) (weight o)) ex ->
  pos + weights ex < 2 ^ 63 ->
  match calc_offsets dbg szf pos ex with
  | Ok (offs, fin) =>
      length offs = length ex /\ Forall (fun x => x < 2 ^ 63) offs /\ fin <= pos + weights ex
  | Err _ => True
  | _ => False
  end.
Proof.
  induction ex as [|o r IH]; intros pos HF Hb.
  - rewrite calc_offsets_nil, weights_nil. repeat split; [constructor|lia].
  - rewrite weights_cons in Hb. inversion HF as [|? ? Ho Hr]; subst.
    rewrite calc_offsets_cons.
    destruct Ho as [[n [-> Hn]]|[er ->]]; cbn [bind]; [|exact I].
    rewrite uadd_small by lia. cbn [bind].
    specialize (IH (pos + n) Hr). destruct (calc_offsets dbg szf (pos + n) r) as [[t fin]|er| |]; cbn [bind].
    + destruct IH as [L [F E]]; [lia|]. cbn [length]. rewrite weights_cons.
      repeat split; [lia|constructor; [lia|exact F]|lia].
    + exact I.
    + apply IH. lia.
    + apply IH. lia.
Qed.

Lemma write_loop_np dbg (wr : N -> wop -> wres) (szf : wop -> res N) : forall ex pos offs fin rest,
  calc_offsets dbg szf pos ex = Ok (offs, fin) ->
  Forall (fun o => forall p, p + weight o < 2 ^ 63 -> np (wr p o)) ex ->
  Forall (fun o => forall p b f, wr p o = Ok (b, f) ->
                   blen b <= weight o /\ (blen b < 2 ^ 64 -> szf o = Ok (blen b))) ex ->
  pos + weights ex < 2 ^ 63 ->
  np (write_loop dbg wr pos ex (offs ++ rest)) /\
  (forall bs fx, write_loop dbg wr pos ex (offs ++ rest) = Ok (bs, fx) -> pos + blen bs = fin).
Proof.
  induction ex as [|o r IH]; intros pos offs fin rest Hc Hnp Hsz Hb.
  - rewrite calc_offsets_nil in Hc. inversion Hc; subst. rewrite write_loop_nil.
    split; [apply np_ok|]. intros bs fx H. inversion H; subst. rewrite blen_nil. lia.
  - rewrite weights_cons in Hb.
    inversion Hnp as [|? ? Hno Hnr]; subst. inversion Hsz as [|? ? Hso Hsr]; subst.
    rewrite calc_offsets_cons in Hc.
    apply bind_ok_inv in Hc. destruct Hc as [s [Hs Hc]].
    apply bind_ok_inv in Hc. destruct Hc as [off' [Hoff Hc]].
    apply bind_ok_inv in Hc. destruct Hc as [[t fin'] [Ht Hc]]. inversion Hc; subst. clear Hc.
    cbn [app]. rewrite write_loop_cons. rewrite N.eqb_refl. cbn [negb]. rewrite andb_false_r.
    assert (Hstep : forall b f, wr pos o = Ok (b, f) -> off' = pos + blen b /\ blen b <= weight o).
    { intros b f Hw. destruct (Hso _ _ _ Hw) as [Hle Heq].
      rewrite Heq in Hs by (change (2 ^ 64) with 18446744073709551616; change (2 ^ 63) with 9223372036854775808 in Hb; lia).
      inversion Hs; subst s. rewrite uadd_small in Hoff by lia. inversion Hoff. split; [reflexivity|exact Hle]. }
    split.
    + apply np_bind; [apply Hno; lia|]. intros [b f] Hw. destruct (Hstep _ _ Hw) as [-> Hle].
      destruct (IH (pos + blen b) t fin rest Ht Hnr Hsr) as [Hn _]; [lia|].
      apply np_bind; [exact Hn|]. intros [b2 f2] _. apply np_ok.
    + intros bs fx H.
      apply bind_ok_inv in H. destruct H as [[b f] [Hw H]]. destruct (Hstep _ _ Hw) as [-> Hle].
      apply bind_ok_inv in H. destruct H as [[b2 f2] [H2 H]]. inversion H; subst. clear H.
      destruct (IH (pos + blen b) t fin rest Ht Hnr Hsr) as [_ He]; [lia|].
      rewrite blen_app. rewrite <- (He _ _ H2). lia.
Qed.

Lemma targets_len_eq (offs : list N) (fin : N) (ex : list wop) :
  length offs = length ex -> N.of_nat (length (offs ++ [fin])) - 1 = N.of_nat (length ex).
Proof. intros H. rewrite app_length. cbn [length]. lia. Qed.

Definition op_np_stmt dbg e uo refs (o : wop) : Prop :=
  forall offsets pos,
  wf_op o = true -> tgt_ok (N.of_nat (length offsets) - 1) o = true -> (1 <= length offsets)%nat ->
  lookups_ok dbg uo (op_entries o) -> pos + weight o < 2 ^ 63 -> Forall (fun x => x < 2 ^ 63) offsets ->
  np (write_op dbg e uo refs offsets pos o).

Lemma write_expr_with_np dbg e uo refs ex base :
  wf_enc e = true ->
  Forall (op_np_stmt dbg e uo refs) ex ->
  forallb wf_op ex = true -> targets_ok ex = true -> lookups_ok dbg uo (flat_map op_entries ex) ->
  base + weights ex < 2 ^ 63 ->
  np (write_expr_with (write_op dbg e uo refs) (size_op dbg e uo) dbg base ex).
Proof.
  intros He HF Hwf Htg Hlk Hb. unfold write_expr_with.
  assert (Hsg : Forall (fun o => size_good (size_op dbg e uo o) (weight o)) ex).
  { apply Forall_forall. intros o Hin. apply size_op_good; [exact He|eapply lookups_ok_in; eauto|].
    pose proof (weights_in ex o Hin). lia. }
  pose proof (calc_offsets_good dbg (size_op dbg e uo) ex base Hsg Hb) as Hc.
  destruct (calc_offsets dbg (size_op dbg e uo) base ex) as [[offs fin]|er| |] eqn:Ec; cbn [bind];
    [|apply np_err|destruct Hc|destruct Hc].
  destruct Hc as [Hlen [Hoffs Hfin]].
  assert (Hall : Forall (fun x => x < 2 ^ 63) (offs ++ [fin])).
  { apply Forall_app. split; [exact Hoffs|]. constructor; [lia|constructor]. }
  destruct (write_loop_np dbg (write_op dbg e uo refs (offs ++ [fin])) (size_op dbg e uo) ex base offs fin [fin] Ec)
    as [Hn Hend].
  - rewrite Forall_forall in HF. apply Forall_forall. intros o Hin p Hp.
    rewrite forallb_forall in Hwf. unfold targets_ok in Htg. rewrite forallb_forall in Htg.
    apply (HF o Hin).
    + apply Hwf; exact Hin.
    + rewrite (targets_len_eq _ _ _ Hlen). apply Htg; exact Hin.
    + rewrite app_length. cbn [length]. lia.
    + eapply lookups_ok_in; eauto.
    + exact Hp.
    + exact Hall.
  - apply Forall_forall. intros o Hin p b f Hw. split.
    + eapply write_op_len_le; eauto.
    + intros Hlt. eapply op_size_write_all; eauto.
  - exact Hb.
  - apply np_bind; [exact Hn|]. intros [bs fx] Hw. rewrite (Hend _ _ Hw). rewrite N.eqb_refl.
    cbn [negb]. rewrite andb_false_r. apply np_ok.
Qed.

Theorem write_op_np dbg e uo refs :
  wf_enc e = true -> wf_uoffs uo = true -> forall o, op_np_stmt dbg e uo refs o.
Proof.
  intros He Huo. induction o as [o Hleaf|ex IH] using wop_nested_ind; unfold op_np_stmt;
    intros offsets pos Hwf Htg Hlen Hlk Hw Hoffs.
  - apply write_op_leaf_np; assumption.
  - cbn [write_op wf_op tgt_ok op_entries weight] in *. fold (weights ex) in Hw.
    assert (Hsg : Forall (fun o => size_good (size_op dbg e uo o) (weight o)) ex).
    { apply Forall_forall. intros o Hin. apply size_op_good; [exact He|eapply lookups_ok_in; eauto|].
      pose proof (weights_in ex o Hin). lia. }
    destruct (sum_sizes_good dbg (size_op dbg e uo) ex 0 Hsg) as [[n [Hn Hle]]|[er Her]]; [lia| |].
    + rewrite Hn. cbn [bind].
      apply np_bind; [apply np_uleb; change (2 ^ 64) with 18446744073709551616; change (2 ^ 63) with 9223372036854775808 in Hw; lia|].
      intros lb Hlb. apply write_uleb128_len in Hlb. pose proof (uleb128_size_le n).
      apply np_bind; [|intros [bs fx] _; apply np_ok].
      apply write_expr_with_np; try assumption. lia.
    + rewrite Her. cbn [bind]. apply np_err.
Qed.

(* (6) the two entry points, both build modes *)
Theorem write_expr_no_panic dbg e uo refs base ex :
  wf_enc e = true -> wf_uoffs uo = true ->
  forallb wf_op ex = true -> targets_ok ex = true -> lookups_ok dbg uo (flat_map op_entries ex) ->
  base + weights ex < 2 ^ 63 ->
  np (size_expr dbg e uo ex) /\ np (write_expr dbg e uo refs base ex).
Proof.
  intros He Huo Hwf Htg Hlk Hb. split.
  - destruct (size_expr_good dbg e uo ex He Hlk) as [[n [-> _]]|[er ->]]; [lia|apply np_ok|apply np_err].
  - unfold write_expr. apply write_expr_with_np; try assumption.
    apply Forall_forall. intros o _. apply write_op_np; assumption.
Qed.

(* the other direction: a branch whose target index is past the end of the expression panics *)
Theorem bad_target_panics dbg e uo refs offsets pos t :
  N.of_nat (length offsets) <= t ->
  write_op dbg e uo refs offsets pos (WoSkip t) = Panic /\ write_op dbg e uo refs offsets pos (WoBranch t) = Panic.
Proof.
  intros Ht. cbn [write_op]. unfold only, branch_operand.
  assert (Hn : nth_N offsets t = None).
  { rewrite nth_N_nth_error. apply nth_error_None. lia. }
  rewrite Hn. split; reflexivity.
Qed.

(* a sufficient, checkable condition for lookups_ok *)
Lemma lookups_ok_table dbg uo ens :
  match uo with
  | None => True
  | Some u => forall en, In en ens -> exists off, nth_N (uo_entries u) en = Some off /\ (off = 0 \/ uo_unit u <= off)
  end -> lookups_ok dbg uo ens.
Proof.
  intros H en Hin. rewrite entry_offset_cases. destruct uo as [u|]; [|discriminate].
  destruct (H en Hin) as [off [-> Hoff]]. destruct (off =? 0) eqn:E; [discriminate|].
  unfold chk_sub. destruct (uo_unit u <=? off) eqn:E2; [discriminate|]. lia.
Qed.

(* ---- sizes do not change when more entries of the unit get their offsets (calculate_offsets sees a prefix of
        the table Operation::write sees) ---- *)
Definition extends (u1 u2 : uoffs) : Prop :=
  uo_unit u1 = uo_unit u2 /\
  forall en off, nth_N (uo_entries u1) en = Some off -> off <> 0 -> nth_N (uo_entries u2) en = Some off.

Lemma base_size_mono dbg u1 u2 en n :
  extends u1 u2 -> base_size dbg (Some u1) en = Ok n -> base_size dbg (Some u2) en = Ok n.
Proof.
  intros [Hu He] H. unfold base_size, unit_offset, debug_info_offset in *.
  destruct (nth_N (uo_entries u1) en) as [off|] eqn:E1; [|discriminate].
  destruct (off =? 0) eqn:E0; [discriminate|].
  rewrite (He en off E1) by lia. rewrite E0. rewrite <- Hu. exact H.
Qed.

Lemma sum_sizes_mono dbg (f g : wop -> res N) : forall ex acc n,
  Forall (fun o => forall m, f o = Ok m -> g o = Ok m) ex ->
  sum_sizes dbg f acc ex = Ok n -> sum_sizes dbg g acc ex = Ok n.
Proof.
  induction ex as [|o r IH]; intros acc n HF H; [exact H|].
  rewrite sum_sizes_cons in *. inversion HF as [|? ? Ho Hr]; subst.
  apply bind_ok_inv in H. destruct H as [s [Hs H]]. rewrite (Ho _ Hs). cbn [bind].
  apply bind_ok_inv in H. destruct H as [a [Ha H]]. rewrite Ha. cbn [bind]. eapply IH; eauto.
Qed.

Theorem size_op_mono dbg e u1 u2 : extends u1 u2 -> forall o n,
  size_op dbg e (Some u1) o = Ok n -> size_op dbg e (Some u2) o = Ok n.
Proof.
  intros Hx. induction o as [o Hleaf|ex IH] using wop_nested_ind; intros n H.
  - destruct o; try (exfalso; eapply Hleaf; reflexivity); cbn [size_op] in *; try exact H.
    all: try match type of H with context [match ?b with Some _ => _ | None => _ end] => destruct b; [|exact H] end.
    all: apply bind_ok_inv in H; destruct H as [m [Hm H]].
    all: repeat match type of Hm with
         | bind (base_size _ _ _) _ = Ok _ =>
             let b := fresh "b" in let Hb := fresh "Hb" in
             apply bind_ok_inv in Hm; destruct Hm as [b [Hb Hm]];
             rewrite (base_size_mono _ _ _ _ _ Hx Hb); cbn [bind]
         | base_size _ _ _ = Ok _ => rewrite (base_size_mono _ _ _ _ _ Hx Hm); cbn [bind]
         end.
    all: try (rewrite Hm; cbn [bind]); exact H.
  - cbn [size_op] in *. apply bind_ok_inv in H. destruct H as [m [Hm H]].
    apply bind_ok_inv in Hm. destruct Hm as [len [Hlen Hm]].
    rewrite (sum_sizes_mono dbg (size_op dbg e (Some u1)) (size_op dbg e (Some u2)) ex 0 len IH Hlen).
    cbn [bind]. rewrite Hm. cbn [bind]. exact H.
Qed.

Theorem size_expr_mono dbg e u1 u2 ex n :
  extends u1 u2 -> size_expr dbg e (Some u1) ex = Ok n -> size_expr dbg e (Some u2) ex = Ok n.
Proof.
  intros Hx H. unfold size_expr in *. eapply sum_sizes_mono; [|exact H].
  apply Forall_forall. intros o _ m. apply size_op_mono. exact Hx.
Qed.

(* ================= the three embeddings: the length prefix is the emitted length ================= *)

Theorem exprloc_prefix_exact dbg e uo base ex bs fx rest :
  write_exprloc dbg e uo base ex = Ok (bs, fx) -> blen bs < 2 ^ 64 ->
  exists p body,
    bs = p ++ body /\
    write_expr dbg e uo true (base + blen p) ex = Ok (body, fx) /\
    rd_uleb (p ++ rest) = Some (blen body, rest) /\
    exprloc_size dbg e uo ex = Ok (blen bs).
Proof.
  intros H Hlt. unfold write_exprloc in H.
  apply bind_ok_inv in H. destruct H as [size [Hs H]].
  apply bind_ok_inv in H. destruct H as [p [Hp H]].
  apply bind_ok_inv in H. destruct H as [[body f] [Hw H]]. inversion H; subst. clear H.
  rewrite blen_app in Hlt.
  rewrite (expr_size_write _ _ _ _ _ _ _ _ Hw) in Hs by lia. inversion Hs; subst size. clear Hs.
  exists p, body. split; [reflexivity|]. split; [exact Hw|]. split.
  - eapply rd_uleb_written; [exact Hp|lia].
  - unfold exprloc_size. rewrite (expr_size_write _ _ _ _ _ _ _ _ Hw) by lia. cbn [bind].
    apply write_uleb128_len in Hp. rewrite uadd_ok by (rewrite <- Hp; lia). rewrite blen_app, Hp. reflexivity.
Qed.

Theorem loc_prefix_exact dbg e uo base ex bs fx rest :
  write_loc_expression dbg e uo base ex = Ok (bs, fx) -> blen bs < 2 ^ 64 ->
  exists p body,
    bs = p ++ body /\
    write_expr dbg e uo true (base + blen p) ex = Ok (body, fx) /\
    (if e_version e <=? 4 then rd_fixed (e_be e) 2 (p ++ rest) = Some (blen body, rest) /\ blen body < 65536
     else rd_uleb (p ++ rest) = Some (blen body, rest)).
Proof.
  intros H Hlt. unfold write_loc_expression in H.
  apply bind_ok_inv in H. destruct H as [size [Hs H]].
  apply bind_ok_inv in H. destruct H as [p [Hp H]].
  apply bind_ok_inv in H. destruct H as [[body f] [Hw H]]. inversion H; subst. clear H.
  rewrite blen_app in Hlt.
  rewrite (expr_size_write _ _ _ _ _ _ _ _ Hw) in Hs by lia. inversion Hs; subst size. clear Hs.
  exists p, body. split; [reflexivity|]. split; [exact Hw|].
  destruct (e_version e <=? 4).
  - split; [apply (rd_fixed_written (e_be e) (blen body) 2 p rest); [lia|lia|exact Hp]|].
    unfold write_udata in Hp. change (2 =? 1) with false in Hp. change (2 =? 2) with true in Hp. cbv iota in Hp.
    destruct (blen body <? two16) eqn:E; [unfold two16 in E; lia|discriminate].
  - eapply rd_uleb_written; [exact Hp|lia].
Qed.

Theorem cfi_prefix_exact dbg e base ex bs fx rest :
  write_cfi_expression dbg e base ex = Ok (bs, fx) -> blen bs < 2 ^ 64 ->
  exists p body,
    bs = p ++ body /\
    write_expr dbg e None false (base + blen p) ex = Ok (body, fx) /\
    rd_uleb (p ++ rest) = Some (blen body, rest).
Proof.
  intros H Hlt. unfold write_cfi_expression in H.
  apply bind_ok_inv in H. destruct H as [size [Hs H]].
  apply bind_ok_inv in H. destruct H as [p [Hp H]].
  apply bind_ok_inv in H. destruct H as [[body f] [Hw H]]. inversion H; subst. clear H.
  rewrite blen_app in Hlt.
  rewrite (expr_size_write _ _ _ _ _ _ _ _ Hw) in Hs by lia. inversion Hs; subst size. clear Hs.
  exists p, body. split; [reflexivity|]. split; [exact Hw|eapply rd_uleb_written; [exact Hp|lia]].
Qed.
