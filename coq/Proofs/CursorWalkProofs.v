(* Proofs/CursorWalkProofs.v — PARTIAL traversals with cloned cursors: next_entry to the first child,
   next_sibling along the list (Model/TreeWalk.v cwalk_list / walk_cursor), for every selection
   strategy. Each next_sibling starts on an entry whose subtree may hold any mixture of entries with
   and without DW_AT_sibling (NavProofs.skip_tree: fast and slow path reach the same state) and lands
   on the root entry of the following sibling, or reports None at the terminator / end of input. *)
From Coq Require Import List NArith ZArith Bool Lia ZifyBool ZifyN ZifyNat.
From Coq.Strings Require Import Byte.
Require Import GV.Base.Res GV.Base.Byt GV.Base.Ints GV.Model.Leb GV.Model.Prim
               GV.Spec.LebSpec GV.Spec.FormSpec GV.Model.Attr GV.Spec.Forest GV.Spec.ForestSel GV.Model.AbbrevRd
               GV.Model.DieRd GV.Model.TreeWalk GV.Proofs.AttrProofs GV.Proofs.AbbrevRdProofs GV.Proofs.DieRdProofs
               GV.Proofs.NavProofs GV.Proofs.TreeWalkProofs.
Import ListNotations.
Local Open Scope N_scope.
Local Arguments N.add : simpl never.
Local Arguments N.sub : simpl never.
Local Arguments N.mul : simpl never.
Local Arguments N.pow : simpl never.
Local Arguments N.of_nat : simpl never.
Local Arguments Z.add : simpl never.
Local Arguments Z.sub : simpl never.

Lemma sel_tree_leaf codes sel D off t : has_children t = false ->
  sel_tree codes sel D off t = [root_die codes off D t].
Proof.
  intros Hc. apply no_children_no_kids in Hc. rewrite sel_tree_unfold, Hc.
  destruct (sel (root_die codes off D t)); reflexivity.
Qed.

Lemma forest_nodes_le_size codes : forall l, N.of_nat (length (forest_nodes l)) <= forest_size codes l.
Proof.
  induction l as [|k l IHl]; [cbn; lia|].
  cbn [forest_nodes flat_map]. rewrite app_length. unfold forest_size in *. cbn [map sumN fold_right].
  fold (sumN (map (tree_size codes) l)). pose proof (nodes_le_size codes k).
  change (flat_map nodes l) with (forest_nodes l). lia.
Qed.

Section CWalk.
  Variables (dbg : bool) (e : enc) (tbl : abbrevs) (codes : coding) (E : N) (rest : list byte)
            (sel : die -> option nat).

  (* what ends a sibling list: the end of the input, or a null entry (and whatever follows it) *)
  Definition list_end2 (d : Z) (m : list xev) : Prop :=
    (m = [] /\ rest = []) \/ (exists o l2, m = null_ev o d :: l2).

  (* a cursor standing on the root entry of [t], its subtree and [after] still ahead *)
  Definition on_head (c : cursor) (D : Z) (off : N) (t : tree) (after : list xev) : Prop :=
    c_cur c = root_die codes off D t /\
    at_chain dbg e tbl E rest (c_raw c) (tail_evs codes (be e) D off t ++ after) /\
    r_depth (c_raw c) = post_depth D t /\
    E = kids_off codes off t + nlen (xbytes (tail_evs codes (be e) D off t ++ after) ++ rest).

  Lemma on_head_intro r D off t after :
    at_chain dbg e tbl E rest r (head_ev codes (be e) D off t :: tail_evs codes (be e) D off t ++ after) ->
    on_head (mkCur (mkRaw (xbytes (tail_evs codes (be e) D off t ++ after) ++ rest) E (post_depth D t))
                   (root_die codes off D t)) D off t after.
  Proof.
    intros Hat. destruct (at_chain_step _ _ _ _ _ _ _ _ Hat) as (_ & Hat1 & Ho & _ & _).
    cbn [head_ev x_post x_die] in Hat1, Ho.
    split; [reflexivity|]. split; [exact Hat1|]. split; [reflexivity|].
    destruct Hat as [_ _ _ _ Hle _ _].
    rewrite xbytes_cons in Ho, Hle. cbn [head_ev x_bytes] in Ho, Hle. rewrite <- app_assoc, nlen_app, head_bytes_len in Ho, Hle.
    change (d_offset (root_die codes off D t)) with off in Ho.
    pose proof (kids_off_ge codes off t). lia.
  Qed.

  (* next_sibling from the root entry of [t]: the event after its subtree decides *)
  Lemma next_sibling_end c D off t m :
    on_head c D off t m -> list_end2 D m -> Forall (placed_ok e tbl codes) (placed codes off t) ->
    ans (next_sibling (cursor_fuel c) dbg e tbl c) = ANone.
  Proof.
    intros (Hcur & Hat & Hdep & HE) Hend Hpt.
    assert (Hn : node_ok codes e t).
    { rewrite placed_unfold in Hpt. inversion Hpt as [|? ? (_ & Hn & _) _]. exact Hn. }
    unfold next_sibling, current. rewrite Hcur, (root_die_not_null codes e off D t Hn).
    change (d_depth (root_die codes off D t)) with D.
    pose proof (at_chain_drop _ _ _ _ _ _ _ _ Hat) as Hat2. rewrite Hdep, tail_end_depth in Hat2.
    assert (Hans : ans (sib_half 0 dbg e tbl D (mkCur (mkRaw (xbytes m ++ rest) E D) null_die)) = ANone).
    { unfold sib_half. destruct Hend as [[-> ->]|(o & l2 & ->)].
      - rewrite next_entry_end by reflexivity. reflexivity.
      - rewrite (next_entry_chain dbg e tbl E rest (mkCur _ null_die) _ _ Hat2).
        cbn [bind c_cur null_ev x_die null_at d_depth]. rewrite Z.eqb_refl. reflexivity. }
    destruct (skip_tree dbg e tbl codes E rest D t D off m c ltac:(lia) Hcur Hat Hdep HE Hpt 0%nat _ null_die eq_refl)
      as (f' & Hf'); [rewrite Hans; discriminate|].
    rewrite Hans in Hf'. apply sibling_loop_ans in Hf'; [|discriminate]. exact Hf'.
  Qed.

  Lemma next_sibling_next c D off t t' after :
    on_head c D off t (head_ev codes (be e) D (off + tree_size codes t) t' ::
                       tail_evs codes (be e) D (off + tree_size codes t) t' ++ after) ->
    Forall (placed_ok e tbl codes) (placed codes off t) -> node_ok codes e t' ->
    exists c2, ans (next_sibling (cursor_fuel c) dbg e tbl c) =
                 ASome (root_die codes (off + tree_size codes t) D t') c2 /\
               on_head c2 D (off + tree_size codes t) t' after.
  Proof.
    intros (Hcur & Hat & Hdep & HE) Hpt Hn'.
    assert (Hn : node_ok codes e t).
    { rewrite placed_unfold in Hpt. inversion Hpt as [|? ? (_ & Hn & _) _]. exact Hn. }
    set (o' := off + tree_size codes t) in *.
    set (l3 := tail_evs codes (be e) D o' t' ++ after) in *.
    pose proof (at_chain_drop _ _ _ _ _ _ _ _ Hat) as Hat2. rewrite Hdep, tail_end_depth in Hat2.
    pose proof (on_head_intro _ D o' t' after Hat2) as Hon. fold l3 in Hon.
    set (c2 := mkCur (mkRaw (xbytes l3 ++ rest) E (post_depth D t')) (root_die codes o' D t')) in *.
    exists c2. split; [|exact Hon].
    unfold next_sibling, current. rewrite Hcur, (root_die_not_null codes e off D t Hn).
    change (d_depth (root_die codes off D t)) with D.
    assert (Hans : ans (sib_half 0 dbg e tbl D (mkCur (mkRaw (xbytes (head_ev codes (be e) D o' t' :: l3) ++ rest) E D) null_die))
                   = ASome (root_die codes o' D t') c2).
    { unfold sib_half. rewrite (next_entry_chain dbg e tbl E rest (mkCur _ null_die) _ _ Hat2).
      cbn [bind c_cur head_ev x_die x_post]. change (d_depth (root_die codes o' D t')) with D. rewrite Z.eqb_refl.
      fold c2. unfold current. cbn [c_cur c2].
      rewrite (root_die_not_null codes e o' D t' Hn'). reflexivity. }
    destruct (skip_tree dbg e tbl codes E rest D t D off _ c ltac:(lia) Hcur Hat Hdep HE Hpt 0%nat _ null_die eq_refl)
      as (f' & Hf'); [rewrite Hans; discriminate|].
    rewrite Hans in Hf'. apply sibling_loop_ans in Hf'; [|discriminate]. exact Hf'.
  Qed.

  (* the clone taken on the root entry of k moves to k's first child (or the terminator) and walks *)
  Definition sub_walk (fuel : nat) (n : nat) (c : cursor) : res (list die * option error) :=
    let* s := next_entry dbg e tbl c in
    match s with
    | SErr x _ => Ok ([], Some x)
    | SOk false _ => Ok ([], None)
    | SOk true c1 => cwalk_list fuel dbg e tbl sel n c1
    end.

  Definition cw_claim (k : tree) : Prop :=
    forall D off after c fuel n,
      on_head c D off k after -> has_children k = true ->
      Forall (placed_ok e tbl codes) (placed codes off k) ->
      (length (forest_nodes (t_kids k)) < fuel)%nat ->
      sub_walk fuel n c =
      Ok (on_first (sel_tree codes sel (D + 1)) (tree_size codes) n (kids_off codes off k) (t_kids k), None).

  Lemma cwalk_iter D m : list_end2 D m -> forall ts t off c fuel n,
    Forall cw_claim (t :: ts) ->
    on_head c D off t (evs_list codes (be e) D (off + tree_size codes t) ts ++ m) ->
    Forall (placed_ok e tbl codes) (on_list (placed codes) (tree_size codes) off (t :: ts)) ->
    (length (forest_nodes (t :: ts)) < fuel)%nat ->
    cwalk_list fuel dbg e tbl sel n c = Ok (on_first (sel_tree codes sel D) (tree_size codes) n off (t :: ts), None).
  Proof.
    intros Hend. induction ts as [|t' ts IH]; intros t off c fuel n Hcl Hon Hp Hf;
      (destruct fuel as [|fuel]; [lia|]); cbn [cwalk_list];
      rewrite on_list_cons in Hp; apply Forall_app in Hp; destruct Hp as [Hpt Hpts];
      apply Forall_cons_iff in Hcl; destruct Hcl as [Hk Hks];
      assert (Hn : node_ok codes e t)
        by (rewrite placed_unfold in Hpt; inversion Hpt as [|? ? (_ & Hn0 & _) _]; exact Hn0);
      pose proof Hon as (Hcur & _);
      unfold current; rewrite Hcur, (root_die_not_null codes e off D t Hn);
      (destruct n as [|b]; [rewrite on_first_0; reflexivity|]);
      change (d_children (root_die codes off D t)) with (has_children t);
      cbn [forest_nodes flat_map] in Hf; rewrite app_length in Hf;
      assert (Hnodes : nodes t = t :: forest_nodes (t_kids t)) by (destruct t; reflexivity);
      rewrite Hnodes in Hf; cbn [length] in Hf;
      (assert (Hsub : (match (if has_children t then sel (root_die codes off D t) else None) with
                       | None => Ok ([], None)
                       | Some n0 => sub_walk fuel n0 c
                       end) = Ok (tl (sel_tree codes sel D off t), None));
       [destruct (has_children t) eqn:Hc;
        [rewrite sel_tree_unfold; destruct (sel (root_die codes off D t)) as [n0|]; [|reflexivity];
         cbn [tl]; apply (Hk D off _ c fuel n0 Hon Hc Hpt); lia
        |rewrite (sel_tree_leaf codes sel D off t Hc); reflexivity]|]);
      unfold sub_walk in Hsub; rewrite Hsub; cbn [bind];
      assert (Hst : sel_tree codes sel D off t = root_die codes off D t :: tl (sel_tree codes sel D off t))
        by (rewrite sel_tree_unfold; reflexivity).
    - (* last sibling *)
      cbn [evs_list on_list app] in Hon.
      pose proof (next_sibling_end c D off t m Hon Hend Hpt) as Ha.
      destruct (next_sibling (cursor_fuel c) dbg e tbl c) as [[[dd|] cc|x cc]| | |]; cbn [ans] in Ha; try discriminate.
      cbn [bind]. rewrite on_first_S, on_first_nil, app_nil_r, Hst. reflexivity.
    - (* a following sibling t' *)
      assert (Hn' : node_ok codes e t').
      { rewrite on_list_cons in Hpts. apply Forall_app in Hpts. destruct Hpts as [Hpt' _].
        rewrite placed_unfold in Hpt'. inversion Hpt' as [|? ? (_ & Hn0 & _) _]. exact Hn0. }
      unfold evs_list in Hon. rewrite on_list_cons, evs_tail in Hon.
      fold (evs_list codes (be e) D (off + tree_size codes t + tree_size codes t') ts) in Hon.
      rewrite <- !app_assoc in Hon. cbn [app] in Hon.
      destruct (next_sibling_next c D off t t' _ Hon Hpt Hn') as (c2 & Ha & Hon2).
      destruct (next_sibling (cursor_fuel c) dbg e tbl c) as [[[dd|] cc|x cc]| | |]; cbn [ans] in Ha; try discriminate.
      inversion Ha; subst dd cc. cbn [bind].
      assert (Hf2 : (length (forest_nodes (t' :: ts)) < fuel)%nat) by (cbn [forest_nodes flat_map]; lia).
      rewrite (IH t' (off + tree_size codes t) c2 fuel b Hks Hon2 Hpts Hf2). cbn [bind].
      rewrite (on_first_S (sel_tree codes sel D)), Hst. reflexivity.
  Qed.

  (* a cursor in front of a sibling list: next_entry, then the loop *)
  Lemma cwalk_top D off f0 m c fuel n :
    list_end2 D m ->
    Forall cw_claim f0 ->
    at_chain dbg e tbl E rest (c_raw c) (evs_list codes (be e) D off f0 ++ m) ->
    Forall (placed_ok e tbl codes) (on_list (placed codes) (tree_size codes) off f0) ->
    (length (forest_nodes f0) < fuel)%nat ->
    sub_walk fuel n c = Ok (on_first (sel_tree codes sel D) (tree_size codes) n off f0, None).
  Proof.
    intros Hend Hcl Hat Hp Hf. unfold sub_walk. destruct f0 as [|t ts].
    - cbn [evs_list on_list app] in Hat. rewrite on_first_nil.
      destruct Hend as [[-> ->]|(o & l2 & ->)].
      + rewrite next_entry_end; [reflexivity|]. destruct Hat as [_ Hin _ _ _ _ _]. exact Hin.
      + rewrite (next_entry_chain _ _ _ _ _ _ _ _ Hat). cbn [bind].
        destruct fuel as [|fuel]; [lia|]. cbn [cwalk_list]. unfold current.
        cbn [c_cur null_ev x_die null_at is_null d_tag N.eqb]. reflexivity.
    - unfold evs_list in Hat. rewrite on_list_cons, evs_tail in Hat.
      fold (evs_list codes (be e) D (off + tree_size codes t) ts) in Hat.
      rewrite <- !app_assoc in Hat. cbn [app] in Hat.
      rewrite (next_entry_chain _ _ _ _ _ _ _ _ Hat). cbn [bind head_ev x_die x_post].
      pose proof (on_head_intro _ D off t _ Hat) as Hon.
      exact (cwalk_iter D m Hend ts t off _ fuel n Hcl Hon Hp Hf).
  Qed.

  Lemma cw_tree_claim : forall k, cw_claim k.
  Proof.
    induction k as [tag flag items kids IH] using tree_ind'.
    set (k := Node tag flag items kids) in *.
    intros D off after c fuel n (Hcur & Hat & Hdep & HE) Hc Hp Hf.
    rewrite placed_unfold in Hp. apply Forall_cons_iff in Hp. destruct Hp as [_ Hpk].
    change (t_kids k) with kids in *.
    rewrite tail_evs_eq in Hat. rewrite Hc in Hat. change (t_kids k) with kids in Hat.
    rewrite <- app_assoc in Hat. cbn [app] in Hat.
    apply (cwalk_top (D + 1)%Z (kids_off codes off k) kids (null_ev (off + tree_size codes k - 1) (D + 1) :: after) c fuel n); try assumption.
    right. eexists. eexists. reflexivity.
  Qed.
End CWalk.

(* ------------------------------------------------------------------ *)
(** * Theorem: the cloned-cursor walk of a unit reports the selected sub-forest *)

Section UnitCWalk.
  Variables (dbg bigend types : bool) (uoff : N) (h : uheader) (codes : coding) (f : list tree) (pad : nat)
            (tbl : abbrevs).
  Let e := unit_enc bigend h.
  Let hl := header_len h.
  Let body := enc_forest codes bigend hl f pad.
  Let hdr := parsed_header bigend types uoff h body.
  Hypothesis He : addr_size_ok e.
  Hypothesis Hlen : hl + nlen body < two63.
  Hypothesis Hcov : all_covered tbl codes f.
  Hypothesis Hok : forest_ok codes e f.
  Hypothesis Hfit : sibs_fit codes hl f.

  Lemma cursor_walk sel n :
    exists c, entries dbg hdr = Ok c /\
              walk_cursor dbg e tbl sel n c = Ok (sel_list codes sel 0 hl n f, None).
  Proof.
    pose proof (unit_at_chain dbg bigend h codes f pad tbl He Hlen Hcov Hok Hfit) as Hat.
    pose proof (entries_parsed dbg bigend types uoff h body Hlen) as Hent.
    fold e hl body hdr in Hat, Hent.
    set (c0 := mkCur (mkRaw body (hl + nlen body) 0) null_die) in *.
    exists c0. split; [exact Hent|].
    change (mkRaw body (hl + nlen body) 0) with (c_raw c0) in Hat.
    unfold body_evs in Hat. change bigend with (be e) in Hat.
    assert (Hpall : Forall (placed_ok e tbl codes) (on_list (placed codes) (tree_size codes) hl f))
      by (apply placed_ok_all; assumption).
    unfold walk_cursor, sel_list.
    apply (cwalk_top dbg e tbl codes (hl + nlen body) [] sel 0%Z hl f
                     (pad_evs (hl + forest_size codes f) 0 pad) c0); try assumption.
    - destruct pad as [|p]; [left; split; reflexivity|right; cbn [pad_evs]; eexists; eexists; reflexivity].
    - apply Forall_forall. intros k _. apply cw_tree_claim.
    - pose proof (forest_nodes_le_size codes f) as L.
      pose proof (enc_forest_list_len codes bigend hl f) as Hb.
      cbn [c0 c_raw r_in]. unfold body, enc_forest. rewrite app_length. unfold nlen in *. lia.
  Qed.

  (* the tree iterator of the whole unit, entries_tree(None): the first top-level entry *)
  Lemma tree_any_walk_root sel t ts0 : f = t :: ts0 ->
    exists ts, entries_tree dbg hdr None = Ok ts /\
               walk_tree_plan dbg e tbl sel ts = Ok (sel_tree codes sel 0 hl t, None).
  Proof.
    intros Ef.
    assert (Hhs : header_size dbg hdr = Ok hl).
    { pose proof Hlen as Hl. unfold hl in Hl |- *. apply header_size_parsed. rewrite header_len_split in Hl.
      unfold unit_length_of, two63 in *. unfold two64.
      assert (initial_length_size (uh_fmt64 h) >= 4) by (destruct (uh_fmt64 h); cbn; lia). lia. }
    destruct (tree_any_walk dbg bigend types uoff h codes f pad tbl He Hlen Hcov Hok Hfit sel hl t) as (ts & E1 & E2).
    - rewrite Ef, on_list_cons. apply in_or_app. left. rewrite placed_unfold. left. reflexivity.
    - exists ts. split; [|exact E2]. rewrite <- E1. unfold entries_tree. fold hdr. rewrite Hhs. reflexivity.
  Qed.
End UnitCWalk.
