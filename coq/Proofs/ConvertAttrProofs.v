(* Proofs/ConvertAttrProofs.v — C12 ∘ C11, simple attribute values: what convert_attribute_value returns is
   written (Model/UnitWr.v av_write) as bytes that the form decoder of C11 (Spec/UnitWrSpec.v form_decode,
   theorem form_size_write_decodes) reads back as the data of the source value; file indices are renumbered
   through the converted file table (never copied), also when they come from Attr.DW_FORM_implicit_const. *)
From Coq Require Import List NArith ZArith Bool Lia ZifyBool ZifyN ZifyNat.
From Coq.Strings Require Import Byte.
Require Import GV.Base.Res GV.Base.Byt GV.Base.Ints GV.Spec.FormSpec GV.Model.Attr GV.Spec.UnitWrSpec GV.Model.UnitWr.
Require Import GV.Model.ConvertAttr GV.Proofs.UnitWrProofs.
Import ListNotations.
Local Open Scope N_scope.
Local Arguments N.add : simpl never.
Local Arguments N.sub : simpl never.
Local Arguments N.mul : simpl never.
Local Arguments N.pow : simpl never.
Local Arguments N.modulo : simpl never.

Lemma abind {A B} (r : res A) (f : A -> res B) b :
  (let* x := r in f x) = Ok b -> exists a, r = Ok a /\ f a = Ok b.
Proof. apply bind_ok. Qed.

Section Sound.
  Variable ver : N.
  Variable files : list N.
  Variable cvt : N -> option address.
  Variable uaddr : N -> res N.
  (* non-relocatable addresses *)
  Hypothesis Hcvt : forall a w, cvt a = Some w -> w = AConst a.

  Definition is_file_index (v : attr_value) : bool := match v with VFileIndex _ => true | _ => false end.

  (* the data of the converted value, as it is read back from the written attribute, is the data of the
     source value (every modelled kind except file indices and flag_present) *)
  Lemma conv_attr_payload cx form name raw av :
    form <> Attr.DW_FORM_implicit_const -> form <> Attr.DW_FORM_flag_present ->
    is_file_index (attr_normalise name raw) = false ->
    rd_value_typed (attr_normalise name raw) ->
    (forall i a, uaddr i = Ok a -> a < 2 ^ 64) ->
    conv_attr ver files cvt uaddr form name raw = Ok (Some av) ->
    rd_payload uaddr (attr_normalise name raw) = Some (av_raw cx av).
  Proof.
    intros Hf1 Hf2 Hfile Ht Hua H. unfold conv_attr in H.
    replace (form =? Attr.DW_FORM_implicit_const) with false in H by (symmetry; apply N.eqb_neq; exact Hf1).
    destruct (attr_normalise name raw) eqn:Ev; cbn [rd_payload rd_value_typed is_file_index] in *;
      try discriminate; try (inversion H; subst av; cbn [av_raw]; rewrite ?N.mod_small by assumption; reflexivity).
    - (* addr *)
      apply abind in H. destruct H as [v [Hv H]]. inversion H; subst av.
      unfold conv_address in Hv. destruct (cvt a) eqn:Ec; [|discriminate]. inversion Hv; subst v.
      apply Hcvt in Ec. subst. cbn [av_raw]. rewrite N.mod_small by assumption. reflexivity.
    - (* flag *)
      replace (form =? Attr.DW_FORM_flag_present) with false in H by (symmetry; apply N.eqb_neq; exact Hf2).
      inversion H; subst av. reflexivity.
    - (* addrx *)
      apply abind in H. destruct H as [a [Ha H]]. apply abind in H. destruct H as [v [Hv H]]. inversion H; subst av.
      unfold conv_address in Hv. destruct (cvt a) eqn:Ec; [|discriminate]. inversion Hv; subst v.
      apply Hcvt in Ec. subst. rewrite Ha. cbn [av_raw]. rewrite N.mod_small by (eapply Hua; eauto). reflexivity.
  Qed.

End Sound.

Section Rules.
  Variable ver : N.
  Variable files : list N.
  Variable cvt : N -> option address.
  Variable uaddr : N -> res N.

  (* DW_FORM_flag_present stays flag_present (a flag of value 1 before DWARF 4) *)
  Lemma conv_attr_flag_present name raw f :
    attr_normalise name raw = VFlag f ->
    conv_attr ver files cvt uaddr Attr.DW_FORM_flag_present name raw = Ok (Some AvFlagPresent).
  Proof. intros Hv. unfold conv_attr. rewrite Hv. reflexivity. Qed.

  (* file indices: index 0 of a DWARF <= 4 unit is "no file"; every other index is replaced by the id the
     converted line program gave that file; an index outside the table is InvalidFileIndex — whether the
     index is stored in the DIE or in the abbreviation (Attr.DW_FORM_implicit_const) *)
  Lemma conv_attr_file_index form name raw i :
    attr_normalise name raw = VFileIndex i ->
    (form = Attr.DW_FORM_implicit_const -> exists z, raw = VSdata z) ->
    conv_attr ver files cvt uaddr form name raw =
      if (i =? 0) && (ver <=? 4) then Ok (Some (AvFileIndex None))
      else match nth_N files i with
           | Some id => Ok (Some (AvFileIndex (Some id)))
           | None => Err CInvalidFileIndex
           end.
  Proof.
    intros Hv Hic. unfold conv_attr. rewrite Hv.
    destruct (form =? Attr.DW_FORM_implicit_const) eqn:Ef.
    - destruct (Hic ltac:(lia)) as [z ->]. unfold conv_file_index.
      destruct ((i =? 0) && (ver <=? 4)); [reflexivity|]. destruct (nth_N files i); reflexivity.
    - unfold conv_file_index.
      destruct ((i =? 0) && (ver <=? 4)); [reflexivity|]. destruct (nth_N files i); reflexivity.
  Qed.

  (* any other implicit constant is kept as the constant of the abbreviation *)
  Lemma conv_attr_implicit_const name z :
    is_file_index (attr_normalise name (VSdata z)) = false ->
    conv_attr ver files cvt uaddr Attr.DW_FORM_implicit_const name (VSdata z) = Ok (Some (AvImplicitConst z)).
  Proof.
    intros Hf. unfold conv_attr. cbn [N.eqb]. change (Attr.DW_FORM_implicit_const =? Attr.DW_FORM_implicit_const) with true. cbv iota.
    destruct (attr_normalise name (VSdata z)); try reflexivity. discriminate.
  Qed.

  (* an implicit constant whose raw value is not the abbreviation's constant cannot be converted *)
  Lemma conv_attr_implicit_const_other name raw :
    (forall z, raw <> VSdata z) ->
    conv_attr ver files cvt uaddr Attr.DW_FORM_implicit_const name raw = Err CInvalidAttributeValue.
  Proof.
    intros Hn. unfold conv_attr. change (Attr.DW_FORM_implicit_const =? Attr.DW_FORM_implicit_const) with true. cbv iota.
    destruct raw; try reflexivity. exfalso. eapply Hn; reflexivity.
  Qed.
End Rules.


(* DwoId is written as Udata, which the reader turns back into DwoId under DW_AT_GNU_dwo_id *)
Lemma dwo_id_normal_form v : attr_normalise 8497 (VUdata v) = VDwoId v.
Proof. reflexivity. Qed.

(* composition with C11: the written file index reads back (1-based up to DWARF 4 line programs) as the id
   chosen by the conversion *)
Lemma file_index_written dbg lpv id r :
  id + 1 < 2 ^ 64 -> file_raw dbg lpv (Some id) = Ok r -> file_of_raw lpv r = Some id.
Proof. apply file_index_roundtrip_lemma. Qed.

(* composition with C11 form_size_write_decodes: convert, write, decode = the source data *)
Lemma attr_convert_write_read_lemma ver files cvt uaddr (dbg : bool) (cx : wcx) form name raw av ops rest :
  (forall a w, cvt a = Some w -> w = AConst a) ->
  form <> Attr.DW_FORM_implicit_const -> form <> Attr.DW_FORM_flag_present ->
  is_file_index (attr_normalise name raw) = false ->
  rd_value_typed (attr_normalise name raw) ->
  (forall i a, uaddr i = Ok a -> a < 2 ^ 64) ->
  conv_attr ver files cvt uaddr form name raw = Ok (Some av) ->
  av_write dbg cx av = Ok ops -> av_decodable av ->
  exists payload,
    rd_payload uaddr (attr_normalise name raw) = Some payload /\
    form_decode (wc_enc cx) (wc_be cx) (fst (av_form (wc_enc cx) av))
                (match snd (av_form (wc_enc cx) av) with Some z => z | None => 0%Z end)
                (ops_bytes ops ++ rest) = Some (payload, rest).
Proof.
  intros Hcvt Hf1 Hf2 Hfile Ht Hua Hc Hw Hd.
  exists (av_raw cx av). split.
  - eapply conv_attr_payload; eauto.
  - apply (av_write_decodes dbg); assumption.
Qed.
