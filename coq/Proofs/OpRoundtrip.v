(* Proofs/OpRoundtrip.v — C15 composed with the expression READER / evaluator models of C07
   (Model/OpDec.v, Model/OpEval.v, Spec/StackSpec.v):
     * the independent opcode table of Spec/OpEncSpec.v and the reader model OpDec.parse_op agree: whatever the
       table decodes, parse_op decodes to the corresponding operation and leaves the same rest (every opcode);
     * hence iterating parse_op over the bytes write::Expression emits yields the built operations in normal form;
     * every written skip/bra, fed to OpEval.compute_pc, lands on the first byte of the intended operation. *)
From Coq Require Import List NArith ZArith Bool Lia ZifyBool ZifyN ZifyNat.
From Coq.Strings Require Import Byte.
Require Import GV.Base.Res GV.Base.Byt GV.Base.Ints GV.Spec.LebSpec GV.Model.Leb GV.Model.Prim.
Require Import GV.Spec.OpEncSpec GV.Model.OpWr GV.Proofs.LebProofs GV.Proofs.OpWrProofs GV.Proofs.OpWrDec.
Require Import GV.Model.OpDec GV.Model.OpVal GV.Model.OpEval GV.Spec.StackSpec GV.Proofs.OpDecProofs GV.Proofs.OpEvalProofs.
Import ListNotations.
Local Open Scope N_scope.
Local Arguments N.mul : simpl never.
Local Arguments N.pow : simpl never.

(* the reader's view of a decoding configuration *)
Definition renc (c : dcfg) : OpDec.enc := mkEnc (d_asize c) (d_fmt64 c) (d_version c) (d_be c).

(* ---- translation: decoded form of Spec/OpEncSpec.v -> read::Operation of Model/OpDec.v ---- *)
Definition tr_simple (opc : N) : option operation :=
  if opc =? 19 then Some ODrop else if opc =? 22 then Some OSwap else if opc =? 23 then Some ORot
  else if opc =? 25 then Some OAbs else if opc =? 26 then Some OAnd else if opc =? 27 then Some ODiv
  else if opc =? 28 then Some OMinus else if opc =? 29 then Some OMod else if opc =? 30 then Some OMul
  else if opc =? 31 then Some ONeg else if opc =? 32 then Some ONot else if opc =? 33 then Some OOr
  else if opc =? 34 then Some OPlus else if opc =? 36 then Some OShl else if opc =? 37 then Some OShr
  else if opc =? 38 then Some OShra else if opc =? 39 then Some OXor else if opc =? 41 then Some OEq
  else if opc =? 42 then Some OGe else if opc =? 43 then Some OGt else if opc =? 44 then Some OLe
  else if opc =? 45 then Some OLt else if opc =? 46 then Some ONe else if opc =? 150 then Some ONop
  else if opc =? 151 then Some OPushObjectAddress else if opc =? 155 then Some OTLS
  else if opc =? 156 then Some OCallFrameCFA else if opc =? 159 then Some OStackValue
  else if opc =? 240 then Some OUninitialized else None.

Definition tr (d : dop) : option operation :=
  match d with
  | DoSimple opc => tr_simple opc
  | DoAddress a => Some (OAddress a)
  | DoUConst v => Some (OUnsignedConstant v)
  | DoSConst v => Some (OSignedConstant v)
  | DoPick i => Some (OPick i)
  | DoDeref b s sp => Some (ODeref b s sp)
  | DoPlusConst v => Some (OPlusConstant v)
  | DoBra t => Some (OBra t)
  | DoSkip t => Some (OSkip t)
  | DoRegister r => Some (ORegister r)
  | DoRegOffset r off b => Some (ORegisterOffset r off b)
  | DoFrameOffset off => Some (OFrameOffset off)
  | DoPiece bits off => Some (OPiece bits off)
  | DoCallUnit o => Some (OCall (UnitRef o))
  | DoCallRef o => Some (OCall (DebugInfoRef o))
  | DoVarValue o => Some (OVariableValue o)
  | DoImplicitValue d => Some (OImplicitValue d)
  | DoImplicitPointer o b => Some (OImplicitPointer o b)
  | DoAddrIndex i => Some (OAddressIndex i)
  | DoConstIndex i => Some (OConstantIndex i)
  | DoEntryValue e => Some (OEntryValue e)
  | DoParameterRef o => Some (OParameterRef o)
  | DoTypedLiteral b v => Some (OTypedLiteral b v)
  | DoConvert b => Some (OConvert b)
  | DoReinterpret b => Some (OReinterpret b)
  | DoWasmLocal i => Some (OWasmLocal i)
  | DoWasmGlobal i => Some (OWasmGlobal i)
  | DoWasmStack i => Some (OWasmStack i)
  end.

(* ================= the operand readers of the two developments agree ================= *)

Lemma takeb_take : forall n bs, takeb n bs = take n bs.
Proof. induction n as [|n IH]; intros bs; [reflexivity|]. destruct bs as [|b r]; [reflexivity|]. cbn [takeb take]. rewrite IH. reflexivity. Qed.
Lemma val_le_le_val : forall bs, val_le bs = le_val bs.
Proof. induction bs as [|b r IH]; [reflexivity|]. change (b2n b + 256 * val_le r = b2n b + 256 * le_val r). rewrite IH. reflexivity. Qed.

Lemma rd_fixed_read_un be n t v r : rd_fixed be n t = Some (v, r) -> read_un n be t = Ok (v, r).
Proof.
  unfold rd_fixed, read_un, read_bytes. rewrite takeb_take. destruct (take n t) as [[h tl]|]; [|discriminate].
  intros H; inversion H; subst. cbn [bind]. unfold val_of, be_val. destruct be; reflexivity.
Qed.

Lemma take_length : forall n bs h t, take n bs = Some (h, t) -> length h = n.
Proof.
  induction n as [|n IH]; intros bs h t H; cbn [take] in H.
  - inversion H; reflexivity.
  - destruct bs as [|b r]; [discriminate|]. destruct (take n r) as [[h' t']|] eqn:E; [|discriminate].
    inversion H; subst. cbn [length]. f_equal. eapply IH; eauto.
Qed.

Lemma le_val_bound : forall bs, le_val bs < 256 ^ N.of_nat (length bs).
Proof.
  induction bs as [|b r IH]; cbn [le_val length].
  - change (256 ^ N.of_nat 0) with 1. lia.
  - replace (N.of_nat (S (length r))) with (1 + N.of_nat (length r)) by lia. rewrite N.pow_add_r.
    change (256 ^ 1) with 256. pose proof (b2n_lt b). lia.
Qed.

Lemma rd_signed_read_in be n t z r :
  (n = 1 \/ n = 2 \/ n = 4 \/ n = 8)%nat -> rd_signed be n t = Some (z, r) -> read_in n be t = Ok (z, r).
Proof.
  intros Hn. unfold rd_signed, read_in. destruct (rd_fixed be n t) as [[v tl]|] eqn:E; [|discriminate].
  intros H; inversion H; subst. rewrite (rd_fixed_read_un _ _ _ _ _ E). cbn [bind]. f_equal. f_equal.
  assert (Hv : v < 256 ^ N.of_nat n).
  { unfold rd_fixed in E. rewrite takeb_take in E. destruct (take n t) as [[h tl']|] eqn:Et; [|discriminate].
    inversion E; subst. rewrite <- (take_length _ _ _ _ Et). unfold val_of.
    destruct be; [rewrite <- rev_length|]; apply (le_val_bound _). }
  unfold sext, to_signed, wrapN.
  destruct Hn as [->|[->|[->| ->]]]; cbn [N.of_nat] in *.
  all: match goal with |- context [8 * ?k] => let v := eval vm_compute in (8 * k) in change (8 * k) with v end.
  all: match goal with |- context [?a - 1] => let v := eval vm_compute in (a - 1) in change (a - 1) with v end.
  all: repeat match goal with |- context [2 ^ ?k] => let v := eval vm_compute in (2 ^ k) in change (2 ^ k) with v end.
  all: match type of Hv with _ < ?p => let v := eval vm_compute in p in change p with v in Hv end.
  all: rewrite N.mod_small by lia; reflexivity.
Qed.

Lemma rd_sized_read_address be s t v r : rd_sized be s t = Some (v, r) -> read_address s be t = Ok (v, r).
Proof.
  unfold rd_sized, size_nat, read_address.
  destruct (s =? 1); [apply rd_fixed_read_un|]. destruct (s =? 2); [apply rd_fixed_read_un|].
  destruct (s =? 4); [apply rd_fixed_read_un|]. destruct (s =? 8); [apply rd_fixed_read_un|discriminate].
Qed.

Lemma rd_uleb_read bs dbg v r : rd_uleb bs = Some (v, r) -> read_uleb128 dbg bs = Ok (v, r).
Proof.
  intros H. rewrite read_uleb128_exact. unfold uleb_spec, rd_uleb in *.
  destruct (split_leb bs) as [[e rest]|]; [|discriminate].
  destruct ((length e <=? 10)%nat && (uval e <? 2 ^ 64)); [|discriminate]. inversion H; subst. reflexivity.
Qed.

Lemma rd_sleb_read bs dbg z r : rd_sleb bs = Some (z, r) -> read_sleb128 dbg bs = Ok (z, r).
Proof.
  intros H. rewrite read_sleb128_exact. unfold sleb_spec, rd_sleb, in_i64 in *.
  destruct (split_leb bs) as [[e rest]|]; [|discriminate].
  change (- 2 ^ 63)%Z with (-9223372036854775808)%Z in H. change (2 ^ 63)%Z with 9223372036854775808%Z in H.
  rewrite <- andb_assoc in H.
  destruct ((length e <=? 10)%nat && ((-9223372036854775808 <=? sval e)%Z && (sval e <? 9223372036854775808)%Z));
    [|discriminate]. inversion H; subst. reflexivity.
Qed.

Lemma takeb_firstn : forall n bs h t, takeb n bs = Some (h, t) -> h = firstn n bs /\ t = skipn n bs.
Proof.
  induction n as [|n IH]; intros bs h t H; cbn [takeb] in H.
  - inversion H; subst. split; reflexivity.
  - destruct bs as [|b r]; [discriminate|]. destruct (takeb n r) as [[h' t']|] eqn:E; [|discriminate].
    inversion H; subst. destruct (IH _ _ _ E) as [-> ->]. split; reflexivity.
Qed.

Lemma rd_block_split len bs b r : rd_block len bs = Some (b, r) -> split_n len bs = Ok (b, r).
Proof.
  unfold rd_block, split_n. destruct (N.of_nat (length bs) <? len); [discriminate|].
  intros H. destruct (takeb_firstn _ _ _ _ H) as [-> ->]. reflexivity.
Qed.

(* what one operand of the table means for the reader's primitives *)
Definition rfacts (dbg : bool) (c : dcfg) (k : OpEncSpec.okind) (a : oarg) (t t' : list byte) : Prop :=
  let e := renc c in
  match k with
  | K_u8 => exists v, a = AU v /\ read_u8 t = Ok (v, t') /\ read_u 1 e t = Ok (v, t')
  | K_u16 => exists v, a = AU v /\ read_u 2 e t = Ok (v, t')
  | K_u32 => exists v, a = AU v /\ read_u 4 e t = Ok (v, t')
  | K_u64 => exists v, a = AU v /\ read_u 8 e t = Ok (v, t')
  | K_i8 => exists z, a = AS z /\ read_i 1 e t = Ok (z, t')
  | K_i16 => exists z, a = AS z /\ read_i 2 e t = Ok (z, t')
  | K_i32 => exists z, a = AS z /\ read_i 4 e t = Ok (z, t')
  | K_i64 => exists z, a = AS z /\ read_i 8 e t = Ok (z, t')
  | K_uleb => exists v, a = AU v /\ read_uleb128 dbg t = Ok (v, t')
  | K_sleb => exists z, a = AS z /\ read_sleb128 dbg t = Ok (z, t')
  | K_addr => exists v, a = AU v /\ read_address (e_asz e) (OpDec.e_be e) t = Ok (v, t')
  | K_off => exists v, a = AU v /\ read_offset e t = Ok (v, t')
  | K_ref => exists v, a = AU v /\
               (if e_ver e =? 2 then read_address (e_asz e) (OpDec.e_be e) t else read_offset e t) = Ok (v, t')
  | K_blk_uleb => exists (len : N) (t1 b : list byte), a = OpEncSpec.AB b /\ read_uleb128 dbg t = Ok (len, t1) /\ split_n len t1 = Ok (b, t')
  | K_blk_u8 => exists (len : N) (t1 b : list byte), a = OpEncSpec.AB b /\ read_u8 t = Ok (len, t1) /\ split_n len t1 = Ok (b, t')
  end.

Lemma rd_off_read c t v r :
  rd_fixed (d_be c) (if d_fmt64 c then 8 else 4) t = Some (v, r) -> read_offset (renc c) t = Ok (v, r).
Proof.
  unfold read_offset, read_word, renc. cbn [OpDec.e_fmt64 OpDec.e_be]. destruct (d_fmt64 c); apply rd_fixed_read_un.
Qed.

Lemma rd_kind_reader dbg c k t a t' : rd_kind c k t = Some (a, t') -> rfacts dbg c k a t t'.
Proof.
  unfold rfacts, read_u, read_i, renc. cbn [OpDec.e_be e_asz e_ver OpDec.e_fmt64].
  destruct k; cbn [rd_kind]; intros H.
  - destruct (rd_fixed (d_be c) 1 t) as [[v r]|] eqn:E; inversion H; subst. exists v.
    pose proof (rd_fixed_read_un _ _ _ _ _ E) as R. split; [reflexivity|]. split; [rewrite (read_u8_un (d_be c)); exact R|exact R].
  - destruct (rd_fixed (d_be c) 2 t) as [[v r]|] eqn:E; inversion H; subst. exists v. split; [reflexivity|apply rd_fixed_read_un; exact E].
  - destruct (rd_fixed (d_be c) 4 t) as [[v r]|] eqn:E; inversion H; subst. exists v. split; [reflexivity|apply rd_fixed_read_un; exact E].
  - destruct (rd_fixed (d_be c) 8 t) as [[v r]|] eqn:E; inversion H; subst. exists v. split; [reflexivity|apply rd_fixed_read_un; exact E].
  - destruct (rd_signed (d_be c) 1 t) as [[v r]|] eqn:E; inversion H; subst. exists v. split; [reflexivity|apply rd_signed_read_in; [lia|exact E]].
  - destruct (rd_signed (d_be c) 2 t) as [[v r]|] eqn:E; inversion H; subst. exists v. split; [reflexivity|apply rd_signed_read_in; [lia|exact E]].
  - destruct (rd_signed (d_be c) 4 t) as [[v r]|] eqn:E; inversion H; subst. exists v. split; [reflexivity|apply rd_signed_read_in; [lia|exact E]].
  - destruct (rd_signed (d_be c) 8 t) as [[v r]|] eqn:E; inversion H; subst. exists v. split; [reflexivity|apply rd_signed_read_in; [lia|exact E]].
  - destruct (rd_uleb t) as [[v r]|] eqn:E; inversion H; subst. exists v. split; [reflexivity|apply rd_uleb_read; exact E].
  - destruct (rd_sleb t) as [[v r]|] eqn:E; inversion H; subst. exists v. split; [reflexivity|apply rd_sleb_read; exact E].
  - destruct (rd_sized (d_be c) (d_asize c) t) as [[v r]|] eqn:E; inversion H; subst. exists v.
    split; [reflexivity|apply rd_sized_read_address; exact E].
  - destruct (rd_fixed (d_be c) (if d_fmt64 c then 8 else 4) t) as [[v r]|] eqn:E; inversion H; subst. exists v.
    split; [reflexivity|apply (rd_off_read c); exact E].
  - destruct (d_version c =? 2).
    + destruct (rd_sized (d_be c) (d_asize c) t) as [[v r]|] eqn:E; inversion H; subst. exists v.
      split; [reflexivity|apply rd_sized_read_address; exact E].
    + destruct (rd_fixed (d_be c) (if d_fmt64 c then 8 else 4) t) as [[v r]|] eqn:E; inversion H; subst. exists v.
      split; [reflexivity|apply (rd_off_read c); exact E].
  - destruct (rd_uleb t) as [[len t1]|] eqn:E; [|discriminate].
    destruct (rd_block len t1) as [[b r]|] eqn:E2; inversion H; subst. exists len, t1, b.
    split; [reflexivity|]. split; [apply rd_uleb_read; exact E|apply rd_block_split; exact E2].
  - destruct (rd_fixed (d_be c) 1 t) as [[len t1]|] eqn:E; [|discriminate].
    destruct (rd_block len t1) as [[b r]|] eqn:E2; inversion H; subst. exists len, t1, b.
    split; [reflexivity|]. split; [rewrite (read_u8_un (d_be c)); apply rd_fixed_read_un; exact E|apply rd_block_split; exact E2].
Qed.

(* ---- inversion of the table decoder ---- *)
Lemma decode_one_inv c o t d rest :
  decode_one c (o :: t) = Some (d, rest) ->
  (b2n o = 237 /\ decode_wasm c t = Some (d, rest)) \/
  (exists ks args, layout (b2n o) = Some ks /\ rd_kinds c ks t = Some (args, rest) /\ meaning c (b2n o) args = Some d).
Proof.
  unfold decode_one. destruct (b2n o =? 237) eqn:E.
  - intros H. left. split; [lia|exact H].
  - destruct (layout (b2n o)) as [ks|]; [|discriminate].
    destruct (rd_kinds c ks t) as [[args t']|] eqn:ER; [|discriminate].
    destruct (meaning c (b2n o) args) as [d'|] eqn:EM; [|discriminate].
    intros H; inversion H; subst. right. exists ks, args. auto.
Qed.

Lemma rd_kinds_inv0 c t args r : rd_kinds c [] t = Some (args, r) -> args = [] /\ r = t.
Proof. cbn [rd_kinds]. intros H; inversion H; auto. Qed.
Lemma rd_kinds_inv1 c k t args r :
  rd_kinds c [k] t = Some (args, r) -> exists a, rd_kind c k t = Some (a, r) /\ args = [a].
Proof.
  cbn [rd_kinds]. destruct (rd_kind c k t) as [[a t1]|]; [|discriminate]. intros H; inversion H; subst. eauto.
Qed.
Lemma rd_kinds_inv2 c k1 k2 t args r :
  rd_kinds c [k1; k2] t = Some (args, r) ->
  exists a1 t1 a2, rd_kind c k1 t = Some (a1, t1) /\ rd_kind c k2 t1 = Some (a2, r) /\ args = [a1; a2].
Proof.
  cbn [rd_kinds]. destruct (rd_kind c k1 t) as [[a1 t1]|] eqn:E1; [|discriminate].
  destruct (rd_kind c k2 t1) as [[a2 t2]|] eqn:E2; [|discriminate]. intros H; inversion H; subst. exists a1, t1, a2. auto.
Qed.

(* ================= the table and the reader agree, opcode by opcode ================= *)

Lemma wasm_agree dbg c t d rest :
  decode_wasm c t = Some (d, rest) -> exists o, tr d = Some o /\ parse_wasm dbg (renc c) t = Ok (o, rest).
Proof.
  unfold decode_wasm, parse_wasm. destruct t as [|k t0]; [discriminate|]. cbn [read_u8 bind].
  destruct (b2n k <? 3) eqn:E3.
  - destruct (rd_uleb t0) as [[i t']|] eqn:Eu; [|discriminate].
    destruct (i <? 2 ^ 32) eqn:Ei; [|discriminate]. intros H; inversion H; subst. clear H.
    unfold read_uleb128_u32. rewrite (rd_uleb_read _ dbg _ _ Eu). cbn [bind].
    change (2 ^ 32) with two32 in Ei. rewrite Ei.
    destruct (b2n k =? 0) eqn:E0; [eexists; split; reflexivity|].
    destruct (b2n k =? 1) eqn:E1; [eexists; split; reflexivity|].
    destruct (b2n k =? 2) eqn:E2; [eexists; split; reflexivity|lia].
  - destruct (b2n k =? 3) eqn:E; [|discriminate].
    destruct (rd_fixed (d_be c) 4 t0) as [[i t']|] eqn:Ef; [|discriminate]. intros H; inversion H; subst. clear H.
    destruct (b2n k =? 0) eqn:E0; [lia|]. destruct (b2n k =? 1) eqn:E1; [lia|]. destruct (b2n k =? 2) eqn:E2; [lia|].
    unfold read_u, renc. cbn [OpDec.e_be]. rewrite (rd_fixed_read_un _ _ _ _ _ Ef). eexists; split; reflexivity.
Qed.

Ltac facts dbg HR :=
  first
  [ apply rd_kinds_inv0 in HR; destruct HR as [? ?]; subst
  | apply rd_kinds_inv1 in HR;
    let a := fresh "a" in let Ha := fresh "Ha" in
    destruct HR as [a [Ha ?]]; subst; apply (rd_kind_reader dbg) in Ha; cbn [rfacts] in Ha
  | apply rd_kinds_inv2 in HR;
    let a1 := fresh "a" in let a2 := fresh "a" in let t1 := fresh "t" in
    let H1 := fresh "Ha" in let H2 := fresh "Ha" in
    destruct HR as [a1 [t1 [a2 [H1 [H2 ?]]]]]; subst;
    apply (rd_kind_reader dbg) in H1; apply (rd_kind_reader dbg) in H2; cbn [rfacts] in H1, H2 ];
  repeat match goal with
         | H : exists _, _ |- _ => destruct H
         | H : _ /\ _ |- _ => destruct H
         end; subst.

Ltac one_opcode dbg HR HM :=
  facts dbg HR;
  match type of HM with meaning _ ?n _ = _ => let v := eval vm_compute in n in change n with v in HM end;
  cbn in HM;
  repeat match type of HM with context [if ?c then _ else _] => destruct c eqn:? end;
  try discriminate HM;
  inversion HM; subst; clear HM;
  eexists; split; [reflexivity|];
  cbn [parse_op parse_opcode]; unfold read_register, register_from_u64, two16, two64;
  change (2 ^ 64) with 18446744073709551616 in *;
  repeat (match goal with
          | Hf : ?lhs = Ok _ |- context [?lhs] => rewrite Hf
          | E : ?c = true |- context [if ?c then _ else _] => rewrite E
          end; cbn [bind]);
  reflexivity.

(* Whatever the independent table decodes, the reader model decodes to the corresponding operation, consuming the
   same bytes: every opcode, every encoding, both build modes, every operand byte string. *)
Theorem table_agrees_with_reader dbg c bs d rest :
  decode_one c bs = Some (d, rest) ->
  exists o, tr d = Some o /\ parse_op dbg (renc c) bs = Ok (o, rest).
Proof.
  destruct bs as [|o t]; [discriminate|]. intros H.
  apply decode_one_inv in H. destruct H as [[E W]|[ks [args [HL [HR HM]]]]].
  - assert (o = xed) by (apply b2n_inj; exact E). subst o. cbn [parse_op parse_opcode]. apply wasm_agree. exact W.
  - destruct o; vm_compute in HL; try discriminate HL; inversion HL; subst ks; clear HL.
    all: one_opcode dbg HR HM.
Qed.

(* ================= (a) the reader over the written bytes ================= *)

Lemma decode_from_operations rdbg c : forall fuel off bs dl,
  decode_from fuel c off bs = Some dl ->
  forall fuel2, (length bs < fuel2)%nat ->
  exists ros, operations_fuel fuel2 rdbg (renc c) bs = (ros, None) /\ map (fun x => tr (snd x)) dl = map Some ros.
Proof.
  induction fuel as [|fuel IH]; intros off bs dl H fuel2 Hf.
  - destruct bs as [|b r]; [|discriminate]. inversion H; subst.
    destruct fuel2 as [|f2]; [cbn in Hf; lia|]. exists []. split; reflexivity.
  - destruct bs as [|b r].
    + inversion H; subst. destruct fuel2 as [|f2]; [cbn in Hf; lia|]. exists []. split; reflexivity.
    + cbn [decode_from] in H.
      destruct (decode_one c (b :: r)) as [[d t]|] eqn:Ed; [|discriminate].
      destruct (decode_from fuel c (off + (N.of_nat (length (b :: r)) - N.of_nat (length t))) t) as [l|] eqn:El; [|discriminate].
      inversion H; subst. clear H.
      destruct (table_agrees_with_reader rdbg c _ _ _ Ed) as [o [Ho Hp]].
      pose proof (parse_op_shorter _ _ _ _ _ Hp) as Hs.
      destruct fuel2 as [|f2]; [lia|].
      destruct (IH _ _ _ El f2) as [ros [Hr Hm]]; [lia|].
      exists (o :: ros). split.
      * cbn [operations_fuel]. rewrite Hp, Hr. reflexivity.
      * cbn [map snd]. rewrite Ho, Hm. reflexivity.
Qed.

(* (a) For every expression decode_written covers: OperationIter over the written bytes (the reader model, in
   either build mode) ends normally and yields, operation by operation, the reader's form (tr) of the built
   operations' normal forms. *)
Theorem decode_written_by_reader_lemma dbg rdbg e uo refs base ex bs fx :
  forallb OpWr.wf_op ex = true -> wf_uoffs uo = true -> forallb decodable ex = true ->
  base + blen bs < 2 ^ 63 ->
  write_expr dbg e uo refs base ex = Ok (bs, fx) ->
  exists offsets dl ros,
    expr_offsets dbg e uo base ex = Ok offsets /\
    decoded (fun p o d => exists b, normal_form dbg e uo refs offsets p o b d) base ex offsets dl /\
    operations rdbg (renc (dcfg_of e)) bs = (ros, None) /\
    map (fun x => tr (snd x)) dl = map Some ros.
Proof.
  intros Hwf Huo Hdec Hpos H.
  destruct (decode_written_expr _ _ _ _ _ _ _ _ Hwf Huo Hdec Hpos H) as [offsets [dl [Ho [Hd Hdd]]]].
  unfold decode in Hd.
  destruct (decode_from_operations rdbg _ _ _ _ _ Hd (S (length bs))) as [ros [Hr Hm]]; [lia|].
  exists offsets, dl, ros. auto.
Qed.

(* ================= (b) branches, through the evaluator's compute_pc ================= *)

Lemma nth_error_skipn {A} : forall (l : list A) k x, nth_error l k = Some x -> skipn k l = x :: skipn (S k) l.
Proof.
  induction l as [|y r IH]; intros k x H; destruct k; try discriminate.
  - inversion H; reflexivity.
  - cbn [nth_error] in H. cbn [skipn]. apply IH. exact H.
Qed.

Lemma skipn_app_exact {A} (a b : list A) : skipn (length a) (a ++ b) = b.
Proof. induction a; cbn; auto. Qed.

Lemma branch_lands (is_skip : bool) dbg rdbg e uo refs base ex bs fx :
  base + blen bs < 2 ^ 63 ->
  write_expr dbg e uo refs base ex = Ok (bs, fx) ->
  forall k t, nth_error ex k = Some (if is_skip then WoSkip t else WoBranch t) ->
  exists pre_k b post_k disp pre_t post_t offsets offs' fx',
    bs = pre_k ++ b ++ post_k /\ length b = 3%nat /\
    parse_op rdbg (renc (dcfg_of e)) (b ++ post_k) = Ok ((if is_skip then OSkip disp else OBra disp), post_k) /\
    bs = pre_t ++ post_t /\
    expr_offsets dbg e uo base ex = Ok offsets /\
    laid (write_op dbg e uo refs offsets) base (firstn (N.to_nat t) ex) offs' pre_t fx' /\
    forall s, s_bytecode s = bs -> s_pc s = post_k -> compute_pc s disp = Ok post_t.
Proof.
  intros Hpos H k t Hk.
  destruct (write_expr_laid _ _ _ _ _ _ _ _ H) as [offsets [Ho Hl]].
  { change (2 ^ 64) with 18446744073709551616; change (2 ^ 63) with 9223372036854775808 in Hpos; lia. }
  pose proof (laid_offsets_bound _ _ _ _ _ _ Hl _ Hpos) as Hob.
  pose proof (laid_length _ _ _ _ _ _ Hl) as Hlen.
  assert (Hkl : (k <= length ex)%nat) by (apply Nat.lt_le_incl; apply nth_error_Some; congruence).
  destruct (laid_split _ _ _ _ _ _ Hl k Hkl) as [pre_k [post [fpre [fpost [E1 [E2 [E3 [E4 E5]]]]]]]].
  rewrite (nth_error_skipn _ _ _ Hk) in E5.
  inversion E5 as [|p0 o0 r0 offs0 b f bs'' fx'' Hw Hl'' Ea Eb Ec Ed Ee]; subst. clear E5.
  rewrite !blen_app in Hpos.
  assert (Hb3 : blen b = 3).
  { destruct is_skip; cbn [write_op] in Hw; unfold only in Hw;
      apply bind_ok_inv in Hw; destruct Hw as [x [Hx Hw]];
      apply bind_ok_inv in Hx; destruct Hx as [bo [Hbo Hx]]; inversion Hx; subst; inversion Hw; subst;
      apply branch_operand_len in Hbo; rewrite blen_cons, Hbo; reflexivity. }
  set (p := base + blen pre_k) in *.
  destruct (branch_write_spec dbg e uo refs offsets p t) as [Sk Br]; [lia|exact Hob|]. cbv zeta in Sk, Br.
  assert (Hw' : write_op dbg e uo refs offsets p (if is_skip then WoSkip t else WoBranch t) =
                match nth_N offsets t with
                | Some tv => if in_signed 16 (Z.of_N tv - (Z.of_N p + 3))
                             then Ok (n2b (if is_skip then 47 else 40) :: enc_un 2 (OpWr.e_be e) (of_signed 16 (Z.of_N tv - (Z.of_N p + 3))), [])
                             else Err WValueTooLarge
                | None => Panic
                end) by (destruct is_skip; assumption).
  rewrite Hw' in Hw. clear Hw' Sk Br.
  destruct (nth_N offsets t) as [tv|] eqn:Et; [|discriminate].
  destruct (in_signed 16 (Z.of_N tv - (Z.of_N p + 3))) eqn:Ei; [|discriminate].
  inversion Hw; subst b f. clear Hw.
  set (d := (Z.of_N tv - (Z.of_N p + 3))%Z) in *.
  rewrite nth_N_nth_error in Et.
  assert (Htl : (N.to_nat t <= length ex)%nat).
  { assert (N.to_nat t < length offsets)%nat by (apply nth_error_Some; congruence). lia. }
  destruct (laid_split _ _ _ _ _ _ Hl (N.to_nat t) Htl) as [pre_t [post_t [fpt [fpo [T1 [T2 [T3 [T4 T5]]]]]]]].
  rewrite Et in T3. inversion T3; subst tv. clear T3.
  exists pre_k, (n2b (if is_skip then 47 else 40) :: enc_un 2 (OpWr.e_be e) (of_signed 16 d)), bs'', d, pre_t, post_t,
         offsets, (firstn (N.to_nat t) offsets ++ [base + blen pre_t]), fpt.
  split; [reflexivity|]. split; [cbn [length]; rewrite enc_un_len; reflexivity|].
  split.
  { assert (Hr : read_i 2 (renc (dcfg_of e)) (enc_un 2 (OpWr.e_be e) (of_signed 16 d) ++ bs'') = Ok (d, bs'')).
    { unfold read_i. apply (read_in_enc 2 (OpWr.e_be e) d bs''); [lia|exact Ei]. }
    destruct is_skip.
    - change (n2b 47) with x2f. cbn [app parse_op parse_opcode]. rewrite Hr. reflexivity.
    - change (n2b 40) with x28. cbn [app parse_op parse_opcode]. rewrite Hr. reflexivity. }
  split; [exact T1|]. split; [exact Ho|]. split; [exact T4|].
  intros s Hbc Hpc.
  assert (Hd : (- 32768 <= d < 32768)%Z).
  { unfold in_signed in Ei. change (Z.of_N (2 ^ (16 - 1))) with 32768%Z in Ei. lia. }
  rewrite compute_pc_exact.
  - cbv zeta. rewrite Hbc, Hpc.
    assert (Hlens : length (pre_k ++ (n2b (if is_skip then 47 else 40) :: enc_un 2 (OpWr.e_be e) (of_signed 16 d)) ++ bs'')
                    = (length pre_k + 3 + length bs'')%nat).
    { rewrite !app_length. cbn [length]. rewrite enc_un_len. lia. }
    assert (Hlt : length (pre_k ++ (n2b (if is_skip then 47 else 40) :: enc_un 2 (OpWr.e_be e) (of_signed 16 d)) ++ bs'')
                  = (length pre_t + length post_t)%nat) by (rewrite T1 at 1; apply app_length).
    rewrite Hlens in *.
    assert (Hz : (Z.of_nat (length pre_k + 3 + length bs'') - Z.of_nat (length bs'') + d = Z.of_nat (length pre_t))%Z).
    { unfold d, p, blen. lia. }
    rewrite Hz.
    destruct ((0 <=? Z.of_nat (length pre_t))%Z && (Z.of_nat (length pre_t) <=? Z.of_nat (length pre_k + 3 + length bs''))%Z) eqn:C; [|lia].
    rewrite Nat2Z.id. rewrite T1. rewrite skipn_app_exact. reflexivity.
  - rewrite Hbc, Hpc. exists (pre_k ++ n2b (if is_skip then 47 else 40) :: enc_un 2 (OpWr.e_be e) (of_signed 16 d)).
    rewrite <- app_assoc. reflexivity.
  - exact Hd.
  - rewrite Hbc. unfold blen in Hpos. cbn [length] in Hpos. rewrite enc_un_len in Hpos.
    rewrite !app_length. cbn [length]. rewrite enc_un_len.
    change (2 ^ 63) with 9223372036854775808 in *. lia.
Qed.
