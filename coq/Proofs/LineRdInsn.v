(* Proofs/LineRdInsn.v — LineInstruction::parse inverts the reference encoder on every well-formed
   instruction, for every header (incl. opcode_base <> 13 and unknown standard/extended opcodes). *)
From Coq Require Import List NArith ZArith Bool Lia ZifyBool ZifyN ZifyNat.
From Coq.Strings Require Import Byte.
Require Import GV.Base.Res GV.Base.Byt GV.Base.Ints GV.Model.Leb GV.Model.Prim GV.Spec.LebSpec GV.Spec.LineSpec
               GV.Model.LineRd GV.Proofs.LineRdBase GV.Proofs.LineRdMono GV.Proofs.LineRdCodec GV.Proofs.LineRdRefine.
Import ListNotations.
Local Open Scope N_scope.
Local Arguments N.add : simpl never.
Local Arguments N.sub : simpl never.
Local Arguments N.mul : simpl never.
Local Arguments N.pow : simpl never.
Local Arguments N.modulo : simpl never.
Local Arguments N.div : simpl never.
Local Arguments N.ltb : simpl never.
Local Arguments N.leb : simpl never.
Local Arguments N.eqb : simpl never.

Lemma u64b_lt n : u64b n = true -> n < two64.
Proof. unfold u64b, two64. lia. Qed.

Lemma bytes_eqb_eq a b : bytes_eqb a b = true -> a = b.
Proof. unfold bytes_eqb. destruct (list_eq_dec Byte.byte_eq_dec a b); [auto|discriminate]. Qed.

Lemma split_n_app a tail : N.of_nat (length a) < two64 ->
  split_n (N.of_nat (length a)) (a ++ tail) = Ok (a, tail).
Proof.
  intros _. unfold split_n. rewrite app_length.
  destruct (N.of_nat (length a + length tail) <? N.of_nat (length a)) eqn:E; [lia|].
  rewrite Nat2N.id. rewrite firstn_app, Nat.sub_diag, firstn_all. cbn [firstn]. rewrite app_nil_r.
  rewrite skipn_app, Nat.sub_diag, skipn_all. reflexivity.
Qed.

Lemma read_cstr_app : forall p rest, no_nul p = true -> read_cstr (p ++ x00 :: rest) = Ok (p, rest).
Proof.
  induction p as [|b p IH]; intros rest H; cbn [app read_cstr].
  - reflexivity.
  - cbn [no_nul] in H. apply andb_true_iff in H as [H1 H2].
    apply negb_true_iff in H1. rewrite H1. rewrite IH by exact H2. reflexivity.
Qed.

Lemma split_leb_app : forall args e rest, split_leb args = Some (e, rest) -> args = e ++ rest.
Proof.
  induction args as [|b r IH]; intros e rest H; cbn [split_leb] in H; [discriminate|].
  destruct (cont_bit b).
  - destruct (split_leb r) as [[e' rest']|] eqn:E; [|discriminate]. inversion H; subst.
    cbn [app]. f_equal. now apply IH.
  - inversion H; subst. reflexivity.
Qed.

Lemma skip_ulebs_lebs dbg : forall fuel k args tail,
  lebs_ok fuel (N.of_nat k) args = true -> skip_ulebs dbg k (args ++ tail) = Ok tail.
Proof.
  induction fuel as [|f IH]; intros k args tail H; cbn [lebs_ok] in H; [discriminate|].
  destruct k as [|k].
  - cbn in H. destruct args; [reflexivity|discriminate].
  - destruct (N.of_nat (S k) =? 0) eqn:E; [lia|].
    destruct (split_leb args) as [[e rest]|] eqn:S; [|discriminate].
    apply andb_true_iff in H as [H H3]. apply andb_true_iff in H as [H1 H2].
    apply bytes_eqb_eq in H1. apply split_leb_app in S. subst args.
    cbn [skip_ulebs]. rewrite <- app_assoc, <- H1.
    rewrite read_uleb128_enc by (unfold two64; lia). cbn [bind].
    apply IH. replace (N.of_nat (S k) - 1) with (N.of_nat k) in H3 by lia. exact H3.
Qed.

Lemma nth_error_skipn {A} : forall n (l : list A) x, nth_error l n = Some x ->
  exists tl, skipn n l = x :: tl /\ (n < length l)%nat.
Proof.
  induction n as [|n IH]; intros l x H; destruct l as [|a l]; cbn in H; try discriminate.
  - inversion H; subst. exists l. split; [reflexivity|simpl; lia].
  - destruct (IH _ _ H) as [tl [E L]]. exists tl. split; [exact E|simpl; lia].
Qed.

Lemma enc_ext_parse dbg payload tail : N.of_nat (length payload) < two64 ->
  read_uleb128 dbg (enc_uleb (len_n payload) ++ payload ++ tail) = Ok (len_n payload, payload ++ tail) /\
  split_n (len_n payload) (payload ++ tail) = Ok (payload, tail).
Proof.
  intros H. unfold len_n. split; [apply read_uleb128_enc; exact H|apply split_n_app; exact H].
Qed.

Ltac neq_tests op :=
  repeat match goal with
  | |- context[op =? ?c] => rewrite (proj2 (N.eqb_neq op c)) by lia
  end.

Lemma insn_roundtrip_lemma dbg be h i tail :
  pwf h -> insn_wf h i = true -> parse_insn dbg be h (enc_insn be h i ++ tail) = Ok (i, tail).
Proof.
  intros P W. pose proof P as [Pm Po Pl Pb Ps Plb Pstd].
  destruct i; cbn [insn_wf] in W; unfold std_known in W.
  - (* ISpecial *)
    cbn [enc_insn app parse_insn]. rewrite b2n_n2b_small by lia.
    destruct (op =? 0) eqn:E0; [lia|]. destruct (h_opcode_base h <=? op) eqn:E1; [reflexivity|lia].
  - cbn [enc_insn app parse_insn]. change (b2n x01) with 1.
    change (1 =? 0) with false. cbv iota. destruct (h_opcode_base h <=? 1) eqn:E; [lia|]. reflexivity.
  - apply andb_true_iff in W as [W1 W2]. apply u64b_lt in W2.
    cbn [enc_insn app parse_insn]. change (b2n x02) with 2. change (2 =? 0) with false. cbv iota.
    destruct (h_opcode_base h <=? 2) eqn:E; [lia|]. change (2 =? 1) with false. change (2 =? 2) with true. cbv iota.
    rewrite read_uleb128_enc by exact W2. reflexivity.
  - apply andb_true_iff in W as [W W3]. apply andb_true_iff in W as [W1 W2].
    cbn [enc_insn app parse_insn]. change (b2n x03) with 3. change (3 =? 0) with false. cbv iota.
    destruct (h_opcode_base h <=? 3) eqn:E; [lia|].
    change (3 =? 1) with false. change (3 =? 2) with false. change (3 =? 3) with true. cbv iota.
    rewrite read_sleb128_enc by lia. reflexivity.
  - apply andb_true_iff in W as [W1 W2]. apply u64b_lt in W2.
    cbn [enc_insn app parse_insn]. change (b2n x04) with 4. change (4 =? 0) with false. cbv iota.
    destruct (h_opcode_base h <=? 4) eqn:E; [lia|].
    change (4 =? 1) with false. change (4 =? 2) with false. change (4 =? 3) with false. change (4 =? 4) with true.
    cbv iota. rewrite read_uleb128_enc by exact W2. reflexivity.
  - apply andb_true_iff in W as [W1 W2]. apply u64b_lt in W2.
    cbn [enc_insn app parse_insn]. change (b2n x05) with 5. change (5 =? 0) with false. cbv iota.
    destruct (h_opcode_base h <=? 5) eqn:E; [lia|].
    change (5 =? 1) with false. change (5 =? 2) with false. change (5 =? 3) with false. change (5 =? 4) with false.
    change (5 =? 5) with true. cbv iota. rewrite read_uleb128_enc by exact W2. reflexivity.
  - cbn [enc_insn app parse_insn]. change (b2n x06) with 6. change (6 =? 0) with false. cbv iota.
    destruct (h_opcode_base h <=? 6) eqn:E; [lia|]. reflexivity.
  - cbn [enc_insn app parse_insn]. change (b2n x07) with 7. change (7 =? 0) with false. cbv iota.
    destruct (h_opcode_base h <=? 7) eqn:E; [lia|]. reflexivity.
  - cbn [enc_insn app parse_insn]. change (b2n x08) with 8. change (8 =? 0) with false. cbv iota.
    destruct (h_opcode_base h <=? 8) eqn:E; [lia|]. reflexivity.
  - apply andb_true_iff in W as [W1 W2].
    cbn [enc_insn app parse_insn]. change (b2n x09) with 9. change (9 =? 0) with false. cbv iota.
    destruct (h_opcode_base h <=? 9) eqn:E; [lia|].
    change (9 =? 1) with false. change (9 =? 2) with false. change (9 =? 3) with false. change (9 =? 4) with false.
    change (9 =? 5) with false. change (9 =? 6) with false. change (9 =? 7) with false. change (9 =? 8) with false.
    change (9 =? 9) with true. cbv iota.
    unfold read_u16. rewrite read_un_enc by (change (256 ^ N.of_nat 2) with 65536; lia). reflexivity.
  - cbn [enc_insn app parse_insn]. change (b2n x0a) with 10. change (10 =? 0) with false. cbv iota.
    destruct (h_opcode_base h <=? 10) eqn:E; [lia|]. reflexivity.
  - cbn [enc_insn app parse_insn]. change (b2n x0b) with 11. change (11 =? 0) with false. cbv iota.
    destruct (h_opcode_base h <=? 11) eqn:E; [lia|]. reflexivity.
  - apply andb_true_iff in W as [W1 W2]. apply u64b_lt in W2.
    cbn [enc_insn app parse_insn]. change (b2n x0c) with 12. change (12 =? 0) with false. cbv iota.
    destruct (h_opcode_base h <=? 12) eqn:E; [lia|].
    change (12 =? 1) with false. change (12 =? 2) with false. change (12 =? 3) with false. change (12 =? 4) with false.
    change (12 =? 5) with false. change (12 =? 6) with false. change (12 =? 7) with false. change (12 =? 8) with false.
    change (12 =? 9) with false. change (12 =? 10) with false. change (12 =? 11) with false. change (12 =? 12) with true.
    cbv iota. rewrite read_uleb128_enc by exact W2. reflexivity.
  - (* IUnkStd0 *)
    apply andb_true_iff in W as [W W3]. apply andb_true_iff in W as [W1 W2].
    cbn [enc_insn app parse_insn]. rewrite b2n_n2b_small by lia.
    neq_tests op. destruct (h_opcode_base h <=? op) eqn:E; [lia|].
    unfold nth_len in W3. destruct (nth_error (h_std_lengths h) (N.to_nat (op - 1))) as [b|] eqn:Nt; [|discriminate].
    destruct (nth_error_skipn _ _ _ Nt) as [tl [Sk Ln]].
    unfold skip_n. destruct (N.of_nat (length (h_std_lengths h)) <? op - 1) eqn:E2; [lia|]. cbn [bind].
    rewrite Sk. cbn [read_u8 bind]. destruct (b2n b) eqn:Eb; [|discriminate]. reflexivity.
  - (* IUnkStd1 *)
    apply andb_true_iff in W as [W W4]. apply andb_true_iff in W as [W W3]. apply andb_true_iff in W as [W1 W2].
    apply u64b_lt in W3.
    cbn [enc_insn app parse_insn]. rewrite b2n_n2b_small by lia.
    neq_tests op. destruct (h_opcode_base h <=? op) eqn:E; [lia|].
    unfold nth_len in W4. destruct (nth_error (h_std_lengths h) (N.to_nat (op - 1))) as [b|] eqn:Nt; [|discriminate].
    destruct (nth_error_skipn _ _ _ Nt) as [tl [Sk Ln]].
    unfold skip_n. destruct (N.of_nat (length (h_std_lengths h)) <? op - 1) eqn:E2; [lia|]. cbn [bind].
    rewrite Sk. cbn [read_u8 bind].
    destruct (b2n b) as [|[| |]] eqn:Eb; try discriminate.
    change (1 =? 0) with false. change (1 =? 1) with true. cbv iota.
    rewrite read_uleb128_enc by exact W3. reflexivity.
  - (* IUnkStdN *)
    apply andb_true_iff in W as [W W3]. apply andb_true_iff in W as [W1 W2].
    cbn [enc_insn app parse_insn]. rewrite b2n_n2b_small by lia.
    neq_tests op. destruct (h_opcode_base h <=? op) eqn:E; [lia|].
    unfold nth_len in W3. destruct (nth_error (h_std_lengths h) (N.to_nat (op - 1))) as [b|] eqn:Nt; [|discriminate].
    destruct (nth_error_skipn _ _ _ Nt) as [tl [Sk Ln]].
    apply andb_true_iff in W3 as [W3 W4].
    unfold skip_n. destruct (N.of_nat (length (h_std_lengths h)) <? op - 1) eqn:E2; [lia|]. cbn [bind].
    rewrite Sk. cbn [read_u8 bind].
    destruct (b2n b =? 0) eqn:B0; [lia|]. destruct (b2n b =? 1) eqn:B1; [lia|].
    rewrite (skip_ulebs_lebs dbg (S (length args)) (N.to_nat (b2n b)) args tail) by (rewrite N2Nat.id; exact W4).
    cbn [bind]. rewrite app_length, Nat.add_sub, firstn_app, Nat.sub_diag, firstn_all. cbn [firstn].
    rewrite app_nil_r. reflexivity.
  - (* IEndSequence *)
    cbn [enc_insn]. set (payload := [x01]). unfold enc_ext. cbn [app parse_insn].
    change (b2n x00 =? 0) with true. cbv iota.
    destruct (enc_ext_parse dbg payload tail ltac:(cbn; unfold two64; lia)) as [E1 E2].
    rewrite <- app_assoc. rewrite E1. cbn [bind]. rewrite E2. cbn [bind]. subst payload. cbn [read_u8 bind].
    change (b2n x01 =? 1) with true. reflexivity.
  - (* ISetAddress *)
    apply andb_true_iff in W as [W1 W2].
    cbn [enc_insn]. unfold enc_ext. cbn [app parse_insn]. change (b2n x00 =? 0) with true. cbv iota.
    set (payload := x02 :: enc_fixed (N.to_nat (h_addr_size h)) be a).
    assert (LP : N.of_nat (length payload) < two64).
    { subst payload. cbn [length]. unfold enc_fixed.
      destruct be; [rewrite rev_length|]; rewrite le_enc_length; unfold two64; lia. }
    destruct (enc_ext_parse dbg payload tail LP) as [E1 E2].
    rewrite <- app_assoc. rewrite E1. cbn [bind]. rewrite E2. cbn [bind]. subst payload. cbn [read_u8 bind].
    change (b2n x02 =? 1) with false. change (b2n x02 =? 2) with true. cbv iota.
    rewrite <- (app_nil_r (enc_fixed _ _ _)).
    unfold addr_mask in W2.
    assert (C : h_addr_size h = 1 \/ h_addr_size h = 2 \/ h_addr_size h = 4 \/ h_addr_size h = 8) by lia.
    destruct C as [C|[C|[C|C]]]; rewrite C in *; unfold read_address; cbn [N.eqb Pos.eqb];
      change (2 ^ (8 * Z.of_N 1) - 1)%Z with 255%Z in *; change (2 ^ (8 * Z.of_N 2) - 1)%Z with 65535%Z in *;
      change (2 ^ (8 * Z.of_N 4) - 1)%Z with 4294967295%Z in *;
      change (2 ^ (8 * Z.of_N 8) - 1)%Z with 18446744073709551615%Z in *.
    + change (1 =? 1) with true. cbv iota. change (N.to_nat 1) with 1%nat.
      rewrite read_un_enc by (change (256 ^ N.of_nat 1) with 256; lia). reflexivity.
    + change (2 =? 1) with false. change (2 =? 2) with true. cbv iota. change (N.to_nat 2) with 2%nat.
      rewrite read_un_enc by (change (256 ^ N.of_nat 2) with 65536; lia). reflexivity.
    + change (4 =? 1) with false. change (4 =? 2) with false. change (4 =? 4) with true. cbv iota.
      change (N.to_nat 4) with 4%nat.
      rewrite read_un_enc by (change (256 ^ N.of_nat 4) with 4294967296; lia). reflexivity.
    + change (8 =? 1) with false. change (8 =? 2) with false. change (8 =? 4) with false. change (8 =? 8) with true.
      cbv iota. change (N.to_nat 8) with 8%nat.
      rewrite read_un_enc by (change (256 ^ N.of_nat 8) with 18446744073709551616; lia). reflexivity.
  - (* IDefineFile *)
    apply andb_true_iff in W as [W1 W2].
    destruct f as [path d t s md5 src]. cbn [fe_path fe_source fe_dir fe_time fe_size fe_md5] in *.
    destruct path as [| | | | | | | | |p| | | |]; try discriminate. destruct src; [discriminate|].
    apply andb_true_iff in W2 as [W2 W8]. apply andb_true_iff in W2 as [W2 W7].
    apply andb_true_iff in W2 as [W2 W6]. apply andb_true_iff in W2 as [W2 W5]. apply andb_true_iff in W2 as [W3 W4].
    apply u64b_lt in W4, W5, W6, W8. apply bytes_eqb_eq in W7. subst md5.
    cbn [enc_insn fe_path fe_dir fe_time fe_size]. unfold enc_ext. cbn [app parse_insn].
    change (b2n x00 =? 0) with true. cbv iota.
    set (payload := x03 :: p ++ x00 :: enc_uleb d ++ enc_uleb t ++ enc_uleb s).
    assert (LP : N.of_nat (length payload) < two64).
    { subst payload. cbn [length]. rewrite !app_length. cbn [length]. rewrite !app_length.
      assert (forall v, (length (enc_uleb v) <= 19)%nat).
      { intros v. unfold enc_uleb. generalize 19%nat. intros n. revert v.
        induction n as [|n IHn]; intros v; cbn [enc_uleb_fuel]; [simpl; lia|].
        destruct (v <? 128); cbn [length]; [lia|]. specialize (IHn (v / 128)). lia. }
      pose proof (H d). pose proof (H t). pose proof (H s). unfold two64 in *. lia. }
    destruct (enc_ext_parse dbg payload tail LP) as [E1 E2].
    rewrite <- app_assoc. rewrite E1. cbn [bind]. rewrite E2. cbn [bind]. subst payload. cbn [read_u8 bind].
    change (b2n x03 =? 1) with false. change (b2n x03 =? 2) with false. change (b2n x03 =? 3) with true. cbv iota.
    rewrite W1. rewrite read_cstr_app by exact W3. cbn [bind]. unfold file_entry_parse.
    rewrite read_uleb128_enc by exact W4. cbn [bind].
    rewrite read_uleb128_enc by exact W5. cbn [bind].
    rewrite <- (app_nil_r (enc_uleb s)). rewrite read_uleb128_enc by exact W6. cbn [bind]. reflexivity.
  - (* ISetDiscriminator *)
    apply u64b_lt in W.
    cbn [enc_insn]. unfold enc_ext. cbn [app parse_insn]. change (b2n x00 =? 0) with true. cbv iota.
    set (payload := x04 :: enc_uleb n).
    assert (LP : N.of_nat (length payload) < two64).
    { subst payload. cbn [length].
      assert (forall v, (length (enc_uleb v) <= 19)%nat).
      { intros v. unfold enc_uleb. generalize 19%nat. intros k. revert v.
        induction k as [|k IHk]; intros v; cbn [enc_uleb_fuel]; [simpl; lia|].
        destruct (v <? 128); cbn [length]; [lia|]. specialize (IHk (v / 128)). lia. }
      pose proof (H n). unfold two64. lia. }
    destruct (enc_ext_parse dbg payload tail LP) as [E1 E2].
    rewrite <- app_assoc. rewrite E1. cbn [bind]. rewrite E2. cbn [bind]. subst payload. cbn [read_u8 bind].
    change (b2n x04 =? 1) with false. change (b2n x04 =? 2) with false. change (b2n x04 =? 3) with false.
    change (b2n x04 =? 4) with true. cbv iota.
    rewrite <- (app_nil_r (enc_uleb n)). rewrite read_uleb128_enc by exact W. reflexivity.
  - (* IUnkExt *)
    apply andb_true_iff in W as [W W6]. apply andb_true_iff in W as [W W5]. apply andb_true_iff in W as [W W4].
    apply andb_true_iff in W as [W W3]. apply andb_true_iff in W as [W1 W2]. apply u64b_lt in W6.
    cbn [enc_insn]. unfold enc_ext. cbn [app parse_insn]. change (b2n x00 =? 0) with true. cbv iota.
    set (payload := n2b op :: bs).
    assert (LP : N.of_nat (length payload) < two64) by (subst payload; cbn [length]; lia).
    destruct (enc_ext_parse dbg payload tail LP) as [E1 E2].
    rewrite <- app_assoc. rewrite E1. cbn [bind]. rewrite E2. cbn [bind]. subst payload. cbn [read_u8 bind].
    rewrite b2n_n2b_small by lia.
    destruct (op =? 1) eqn:O1; [discriminate|]. destruct (op =? 2) eqn:O2; [discriminate|].
    destruct (op =? 4) eqn:O4; [discriminate|].
    destruct (op =? 3) eqn:O3.
    + apply N.eqb_eq in O3. subst op. cbn [negb orb] in W5. rewrite orb_false_r in W5.
      destruct (h_version h <=? 4) eqn:V; [lia|]. reflexivity.
    + reflexivity.
Qed.

(* ---------------------------------------------------------------- whole programs: rows = rows_spec *)
Lemma enc_prog_cons be h i is : enc_prog be h (i :: is) = enc_insn be h i ++ enc_prog be h is.
Proof. reflexivity. Qed.

Lemma step_wf_insn_wf h s i : step_wf h s i = true -> insn_wf h i = true.
Proof. intros H. now apply step_wf_parts in H as [H _]. Qed.

Lemma next_row_loop_refine dbg be resumed h : pwf h ->
  forall is fuel r added inseq,
  inv h r -> r_end r = false -> prog_wf_from h (rep r) is = true ->
  (length (enc_prog be h is) < fuel)%nat ->
  match rows_from h (rep r) is with
  | [] => exists st', next_row_loop fuel dbg be resumed h r (enc_prog be h is) added inseq = (NNone, st')
  | srow :: rest =>
      exists st' is',
        next_row_loop fuel dbg be resumed h r (enc_prog be h is) added inseq = (NRow, st') /\
        rep (st_row st') = srow /\ r_tomb (st_row st') = false /\
        st_inp st' = enc_prog be h is' /\
        (length (st_inp st') < length (enc_prog be h is))%nat /\
        inv h (row_reset h (st_row st')) /\ r_end (row_reset h (st_row st')) = false /\
        prog_wf_from h (rep (row_reset h (st_row st'))) is' = true /\
        rows_from h (rep (row_reset h (st_row st'))) is' = rest
  end.
Proof.
  intros P. induction is as [|i is IH]; intros fuel r added inseq I En W Hf.
  - cbn [rows_from]. destruct fuel; [simpl in Hf; lia|]. cbn. eexists. reflexivity.
  - cbn [prog_wf_from] in W. apply andb_true_iff in W as [W1 W2].
    rewrite enc_prog_cons in *.
    pose proof (insn_roundtrip_lemma dbg be h i (enc_prog be h is) P (step_wf_insn_wf _ _ _ W1)) as RT.
    destruct fuel as [|f]; [lia|]. cbn [next_row_loop].
    destruct (enc_insn be h i ++ enc_prog be h is) as [|b0 inp0] eqn:Einp.
    { cbn in RT. discriminate. }
    rewrite RT.
    pose proof (exec_sim dbg h r i P I En W1) as X. unfold exec_sim_stmt in X.
    cbn [rows_from].
    assert (Len : (length (enc_prog be h is) < length (b0 :: inp0))%nat).
    { rewrite <- Einp, app_length.
      destruct (enc_insn be h i) eqn:E0; [|simpl; lia].
      exfalso. cbn [app] in Einp. rewrite Einp in RT.
      pose proof (parse_insn_good dbg be h (b0 :: inp0)) as G. rewrite RT in G. cbn in G.
      destruct G as (_ & G & _). cbn [snd] in G. rewrite <- Einp in G. lia. }
    destruct (exec_spec h (rep r) i) as [s' [srow|]].
    + destruct X as (r1 & X1 & X2 & X3 & X4 & X5). rewrite X1, X3. cbn [andb].
      exists (mk_st r1 (enc_prog be h is) added (negb (r_end r1))), is. cbn [st_row st_inp].
      split; [reflexivity|]. split; [exact X2|]. split; [exact X3|]. split; [reflexivity|].
      split; [exact Len|]. split; [exact X5|]. split.
      * destruct (r_end r1) eqn:Ee.
        -- unfold row_reset. rewrite Ee. reflexivity.
        -- rewrite (row_reset_noend h r1 Ee). reflexivity.
      * rewrite X4. split; [exact W2|reflexivity].
    + destruct X as (r1 & X1 & X2 & X3 & X4). rewrite X1.
      subst s'. cbn [fst] in W2.
      specialize (IH f r1 (add_file resumed i added) inseq X3 X4 W2 ltac:(cbn [length] in *; lia)).
      destruct (rows_from h (rep r1) is) as [|srow rest].
      * exact IH.
      * destruct IH as (st' & is' & J1 & J2 & J3 & J4 & J5 & J6 & J7 & J8 & J9).
        exists st', is'. split; [exact J1|]. split; [exact J2|]. split; [exact J3|]. split; [exact J4|].
        split; [lia|]. split; [exact J6|]. split; [exact J7|]. split; [exact J8|exact J9].
Qed.

Lemma rows_loop_refine dbg be resumed h : pwf h ->
  forall fuel is st,
  inv h (row_reset h (st_row st)) -> r_end (row_reset h (st_row st)) = false ->
  prog_wf_from h (rep (row_reset h (st_row st))) is = true ->
  st_inp st = enc_prog be h is -> (length (st_inp st) < fuel)%nat ->
  exists l stf,
    rows_loop fuel dbg be resumed h st = (l, SEnd, stf) /\
    map rep l = rows_from h (rep (row_reset h (st_row st))) is /\
    Forall (fun r => r_tomb r = false) l.
Proof.
  intros P. induction fuel as [|f IH]; intros is st I En W Hi Hf; [lia|].
  cbn [rows_loop]. unfold next_row. rewrite Hi.
  pose proof (next_row_loop_refine dbg be resumed h P is (S (length (enc_prog be h is)))
                (row_reset h (st_row st)) (st_added st) (st_inseq st) I En W ltac:(lia)) as R.
  destruct (rows_from h (rep (row_reset h (st_row st))) is) as [|srow rest].
  - destruct R as [st' ->]. exists [], st'. repeat split. constructor.
  - destruct R as (st' & is' & -> & R2 & R3 & R4 & R5 & R6 & R7 & R8 & R9).
    destruct (IH is' st' R6 R7 R8 R4 ltac:(rewrite Hi in Hf; lia)) as (l & stf & L1 & L2 & L3).
    rewrite L1. exists (st_row st' :: l), stf. split; [reflexivity|]. split.
    + cbn [map]. rewrite R2, L2, R9. reflexivity.
    + constructor; [exact R3|exact L3].
Qed.

Lemma row_reset_new h : row_reset h (row_new h) = row_new h.
Proof. reflexivity. Qed.

Lemma rows_refine_spec_lemma dbg be h is :
  prog_wf h is = true -> h_program h = enc_prog be h is ->
  exists rs, rows_model dbg be h = (rs, SEnd) /\ map rep rs = rows_spec h is /\
             Forall (fun r => r_tomb r = false) rs.
Proof.
  intros W Hp. unfold prog_wf in W. apply andb_true_iff in W as [W1 W2].
  pose proof (params_wf_pwf h W1) as P.
  assert (I0 : inv h (row_new h)).
  { split; [reflexivity|]. cbn. destruct P. lia. }
  destruct (rows_loop_refine dbg be false h P (S (length (h_program h))) is
              (st_init h (h_program h))) as (l & stf & L1 & L2 & L3).
  - exact I0.
  - reflexivity.
  - exact W2.
  - exact Hp.
  - cbn. lia.
  - unfold rows_model, rows_full. rewrite L1. exists l. split; [reflexivity|]. split; [exact L2|exact L3].
Qed.

(* ---------------------------------------------------------------- non-trivial instances of the hypotheses *)
(* VLIW header: min_inst_len 4, max_ops 3, line_base -3, line_range 12, opcode_base 10 (so opcodes
   10..255 are special and DW_LNS_set_prologue_end.. do not exist), one unknown-free std table *)
Definition vliw_program : list insn :=
  [ISetAddress 4096; ISpecial 200; IAdvancePc 7; IConstAddPc; IFixedAddPc 3; IAdvanceLine (-2)%Z; ICopy;
   IUnkExt 128 [x01; x02]; ISetDiscriminator 5; ISpecial 10; IEndSequence;
   ISetAddress 8192; ICopy; IEndSequence].
Definition vliw_header (be : bool) : header :=
  let h0 := mk_header false 4 4 0 0 4 3 true (-3) 12 10 [x00; x01; x01; x01; x01; x00; x00; x00; x01] [] [] [] [] [] in
  mk_header false 4 4 0 0 4 3 true (-3) 12 10 [x00; x01; x01; x01; x01; x00; x00; x00; x01] [] [] [] []
            (enc_prog be h0 vliw_program).

Lemma vliw_wf be : prog_wf (vliw_header be) vliw_program = true /\
                   h_program (vliw_header be) = enc_prog be (vliw_header be) vliw_program.
Proof. destruct be; split; vm_compute; reflexivity. Qed.

Lemma vliw_rows be :
  map (fun s => (s_address s, s_op_index s, s_line s, s_end_sequence s)) (rows_spec (vliw_header be) vliw_program) =
  [(4116, 0, 8, false); (4155, 0, 6, false); (4155, 0, 3, false); (4155, 0, 3, true);
   (8192, 0, 1, false); (8192, 0, 1, true)]%Z.
Proof. destruct be; vm_compute; reflexivity. Qed.

Lemma insn_wf_examples :
  let h := mk_header false 5 8 0 0 1 1 true (-5) 14 17
             [x00; x01; x01; x01; x01; x00; x00; x00; x01; x00; x00; x01; x00; x01; x03; x02] [] [] [] [] [] in
  pwf h /\
  forallb (insn_wf h)
    [ISpecial 17; ISpecial 255; IUnkStd0 13; IUnkStd1 14 18446744073709551615;
     IUnkStdN 15 [x81; x01; x00; xff; x7f]; IUnkExt 3 [x61; x00]; IUnkExt 255 [];
     IAdvanceLine (-9223372036854775808)%Z; ISetAddress 18446744073709551615; IFixedAddPc 65535] = true.
Proof. cbn zeta. split; [constructor; cbn; lia|vm_compute; reflexivity]. Qed.
