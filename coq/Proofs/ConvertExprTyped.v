(* Proofs/ConvertExprTyped.v — C12, expressions: the operations Operation::parse returns are values of the Rust
   field types, hence what Expression::from builds from them is a well-typed, decodable write::Expression
   (the hypotheses `wf_op` / `decodable` of the C15 theorems); the stated fuels suffice. *)
From Coq Require Import List NArith ZArith Bool Lia ZifyBool ZifyN ZifyNat Sorted.
From Coq.Strings Require Import Byte.
Require Import GV.Base.Res GV.Base.Byt GV.Base.Ints GV.Spec.LebSpec GV.Model.Leb GV.Model.Prim.
Require Import GV.Spec.OpEncSpec GV.Model.OpWr GV.Model.OpDec GV.Model.ConvertExpr.
Require Import GV.Proofs.LebProofs GV.Proofs.PrimProofs GV.Proofs.OpDecProofs GV.Proofs.OpWrProofs GV.Proofs.OpWrDec
               GV.Proofs.ConvertExprProofs.
Import ListNotations.
Local Open Scope N_scope.
Local Arguments N.add : simpl never.
Local Arguments N.sub : simpl never.
Local Arguments N.mul : simpl never.
Local Arguments N.div : simpl never.
Local Arguments N.pow : simpl never.

Ltac pbinds H :=
  repeat match type of H with
         | bind _ _ = Ok _ => let v := fresh "v" in let Hv := fresh "Hv" in
                              apply bind_ok in H; destruct H as [v [Hv H]]; try (destruct v as [? ?])
         end.

(* ------------------------------------------------------------------ ranges of the primitive readers *)

Lemma read_uleb128_lt dbg bs v r : read_uleb128 dbg bs = Ok (v, r) -> v < 2 ^ 64.
Proof.
  rewrite read_uleb128_exact. unfold uleb_spec. destruct (split_leb bs) as [[en rest]|].
  - destruct ((length en <=? 10)%nat && (uval en <? 2 ^ 64)) eqn:E; [|discriminate]. intros H; inversion H; subst. lia.
  - destruct (10 <=? length bs)%nat; discriminate.
Qed.

Lemma read_sleb128_i64 dbg bs v r : read_sleb128 dbg bs = Ok (v, r) -> in_i64 v = true.
Proof.
  rewrite read_sleb128_exact. unfold sleb_spec. destruct (split_leb bs) as [[en rest]|].
  - destruct ((length en <=? 10)%nat && in_i64 (sval en)) eqn:E; [|discriminate]. intros H; inversion H; subst.
    apply andb_true_iff in E. apply E.
  - destruct (10 <=? length bs)%nat; discriminate.
Qed.

Lemma read_uleb128_u32_lt dbg bs v r : read_uleb128_u32 dbg bs = Ok (v, r) -> v < 2 ^ 32.
Proof.
  rewrite read_uleb128_u32_exact. unfold uleb32_spec. destruct (split_leb bs) as [[en rest]|].
  - destruct ((length en <=? 10)%nat && (uval en <? 2 ^ 32)) eqn:E; [|discriminate]. intros H; inversion H; subst. lia.
  - destruct (10 <=? length bs)%nat; discriminate.
Qed.

Lemma read_un_lt n be bs v r : read_un n be bs = Ok (v, r) -> v < 256 ^ N.of_nat n.
Proof. intros H. apply read_un_value_lt in H. apply H. Qed.

Lemma read_u8_lt bs v r : read_u8 bs = Ok (v, r) -> v < 256.
Proof. rewrite (read_u8_un false). intros H. apply read_un_lt in H. exact H. Qed.

Lemma to_signed_i64 bits x : bits = 8 \/ bits = 16 \/ bits = 32 \/ bits = 64 -> in_i64 (to_signed bits x) = true.
Proof.
  intros [-> | [-> | [-> | ->]]]; unfold to_signed, wrapN, in_i64.
  - change (2 ^ (8 - 1)) with 128. change (2 ^ 8) with 256. assert (x mod 256 < 256) by (apply N.mod_lt; discriminate).
    destruct (x mod 256 <? 128); lia.
  - change (2 ^ (16 - 1)) with 32768. change (2 ^ 16) with 65536. assert (x mod 65536 < 65536) by (apply N.mod_lt; discriminate).
    destruct (x mod 65536 <? 32768); lia.
  - change (2 ^ (32 - 1)) with 2147483648. change (2 ^ 32) with 4294967296. assert (x mod 4294967296 < 4294967296) by (apply N.mod_lt; discriminate).
    destruct (x mod 4294967296 <? 2147483648); lia.
  - change (2 ^ (64 - 1)) with 9223372036854775808. change (2 ^ 64) with 18446744073709551616.
    assert (x mod 18446744073709551616 < 18446744073709551616) by (apply N.mod_lt; discriminate). destruct (x mod 18446744073709551616 <? 9223372036854775808) eqn:E; lia.
Qed.

Lemma read_in_i64 n be bs v r : (n = 1 \/ n = 2 \/ n = 4 \/ n = 8)%nat -> read_in n be bs = Ok (v, r) -> in_i64 v = true.
Proof.
  intros Hn H. unfold read_in in H. pbinds H. inversion H; subst. apply to_signed_i64.
  destruct Hn as [-> | [-> | [-> | ->]]]; cbn; auto.
Qed.

Lemma read_register_lt dbg bs v r : read_register dbg bs = Ok (v, r) -> v < 65536.
Proof.
  unfold read_register, register_from_u64. intros H. pbinds H.
  match type of Hv0 with context [?x <? two16] => destruct (x <? two16) eqn:E; [|discriminate] end.
  inversion Hv0; inversion H; subst. unfold two16 in E. lia.
Qed.

(* ------------------------------------------------------------------ the fields of a parsed operation *)

Definition rd_typed (e : OpDec.enc) (o : operation) : Prop :=
  match o with
  | ODeref bt size _ => size < 256 \/ (bt = 0 /\ size = e_asz e)
  | OPick i => i < 256
  | OPlusConstant v | OUnsignedConstant v => v < 2 ^ 64
  | OSignedConstant v | OFrameOffset v => in_i64 v = true
  | ORegister r => r < 65536
  | ORegisterOffset r off _ => r < 65536 /\ in_i64 off = true
  | OPiece s None => s < 2 ^ 64
  | OPiece s (Some off) => s < 2 ^ 64 /\ off < 2 ^ 64
  | OImplicitPointer _ off => in_i64 off = true
  | OWasmLocal i | OWasmGlobal i | OWasmStack i => i < 2 ^ 32
  | _ => True
  end.

Ltac ranges :=
  repeat match goal with
         | H : read_uleb128 _ _ = Ok _ |- _ => apply read_uleb128_lt in H
         | H : read_sleb128 _ _ = Ok _ |- _ => apply read_sleb128_i64 in H
         | H : read_uleb128_u32 _ _ = Ok _ |- _ => apply read_uleb128_u32_lt in H
         | H : read_u8 _ = Ok _ |- _ => apply read_u8_lt in H
         | H : read_register _ _ = Ok _ |- _ => apply read_register_lt in H
         | H : read_u _ _ _ = Ok _ |- _ => unfold read_u in H; apply read_un_lt in H
         | H : read_i _ _ _ = Ok _ |- _ => unfold read_i in H; apply read_in_i64 in H; [|lia]
         end.

Lemma parse_typed dbg e bs o r : parse_op dbg e bs = Ok (o, r) -> rd_typed e o.
Proof.
  destruct bs as [|opc t]; [discriminate|]. cbn [parse_op]. intros H.
  destruct opc; cbn [parse_opcode] in H; try discriminate; pbinds H;
    try (inversion H; subst; cbn [rd_typed]; ranges;
         first [exact I|assumption|timeout 5 tauto|timeout 5 lia|(split; [vm_compute; reflexivity|assumption])
               |(match goal with |- b2n _ - _ < _ => vm_compute; reflexivity end)|(change (256 ^ N.of_nat 1) with 256 in *; lia)
               |(change (256 ^ N.of_nat 2) with 65536 in *; change (2 ^ 64) with 18446744073709551616; lia)
               |(change (256 ^ N.of_nat 4) with 4294967296 in *; change (2 ^ 64) with 18446744073709551616; lia)
               |(change (256 ^ N.of_nat 8) with 18446744073709551616 in *; change (2 ^ 64) with 18446744073709551616; lia)]).
  - (* piece *)
    match type of H with context [?x * 8 <? two64] => destruct (x * 8 <? two64) eqn:E end;
      inversion H; subst. cbn [rd_typed]. unfold two64 in E. change (2 ^ 64) with 18446744073709551616. lia.
  - (* wasm *) unfold parse_wasm in H. pbinds H.
    repeat match type of H with (if ?c then _ else _) = _ => destruct c end; pbinds H; inversion H; subst; cbn [rd_typed];
      ranges; assumption.
Qed.

(* ------------------------------------------------------------------ the operation stream *)

Lemma split_n_app_eq len bs h t : split_n len bs = Ok (h, t) -> bs = h ++ t.
Proof.
  unfold split_n. destruct (N.of_nat (length bs) <? len); [discriminate|]. intros H; inversion H.
  symmetry. apply firstn_skipn.
Qed.

(* the block of a parsed DW_OP_entry_value is a proper part of the input *)
Lemma parse_entry_value_shorter dbg e bs x r :
  parse_op dbg e bs = Ok (OEntryValue x, r) -> (length x < length bs)%nat.
Proof.
  destruct bs as [|opc t]; [discriminate|]. cbn [parse_op]. intros H.
  destruct opc; cbn [parse_opcode] in H; try discriminate; pbinds H;
    try (inversion H; fail);
    try (unfold parse_wasm in H; pbinds H;
         repeat match type of H with (if ?c then _ else _) = _ => destruct c end; pbinds H; inversion H; fail).
  all: try (destruct (_ <? _); inversion H; fail).
  all: inversion H; subst.
  all: match goal with Hs : split_n _ _ = Ok _ |- _ => apply split_n_app_eq in Hs; subst end.
  all: match goal with Hu : read_uleb128 _ _ = Ok _ |- _ =>
         pose proof (read_uleb128_good dbg t) as G; destruct G as (_ & _ & G); destruct (G _ _ Hu) as [u ->] end.
  all: cbn [length]; rewrite !app_length; lia.
Qed.

Definition block_shorter (n : nat) (o : operation) : Prop :=
  match o with OEntryValue x => (length x < n)%nat | _ => True end.

Lemma op_ends_facts dbg e : forall fuel bs pos l,
  op_ends dbg e fuel bs pos = Ok l ->
  Forall (fun x => rd_typed e (fst x) /\ block_shorter (length bs) (fst x)) l /\ (length l <= length bs)%nat.
Proof.
  induction fuel as [|f IH]; intros bs pos l H.
  - destruct bs; cbn [op_ends] in H; [inversion H; split; [constructor|cbn; lia]|discriminate].
  - destruct bs as [|b t]; cbn [op_ends] in H; [inversion H; split; [constructor|cbn; lia]|].
    pbinds H. inversion H; subst; clear H.
    match goal with Hp : parse_op _ _ _ = Ok (?o, ?r), Hl : op_ends _ _ _ _ _ = Ok ?l1 |- _ =>
      pose proof (parse_typed _ _ _ _ _ Hp) as Ht; pose proof (parse_op_shorter _ _ _ _ _ Hp) as Hs;
      destruct (IH _ _ _ Hl) as [Hf Hlen];
      assert (Hb : block_shorter (length (b :: t)) o)
        by (destruct o; cbn [block_shorter]; auto; eapply parse_entry_value_shorter; exact Hp)
    end.
    split; [|cbn [length] in *; lia].
    constructor; [cbn [fst]; split; assumption|].
    eapply Forall_impl; [|exact Hf]. intros [o' p'] [H1 H2]. cbn [fst] in *. split; [exact H1|].
    destruct o'; cbn [block_shorter] in *; auto. lia.
Qed.

Lemma op_ends_fuel dbg e : forall fuel bs pos, (length bs < fuel)%nat -> op_ends dbg e fuel bs pos <> OutOfFuel.
Proof.
  induction fuel as [|f IH]; intros bs pos Hf; [lia|].
  destruct bs as [|b t]; cbn [op_ends]; [discriminate|].
  destruct (parse_op dbg e (b :: t)) as [[o r]|er| |] eqn:E; cbn [bind]; try discriminate.
  - pose proof (parse_op_shorter _ _ _ _ _ E) as Hs.
    specialize (IH r (pos + (blen (b :: t) - blen r)) ltac:(lia)).
    destruct (op_ends dbg e f r (pos + (blen (b :: t) - blen r))); cbn [bind]; congruence.
  - exfalso. exact (proj2 (parse_op_no_panic_lemma dbg e (b :: t)) E).
Qed.

(* ------------------------------------------------------------------ the converted expression is well-typed *)

Lemma index_of_lt x l k : index_of x l 0 = Some k -> k < N.of_nat (length l).
Proof.
  intros H. apply index_of_some in H. destruct H as [_ H]. rewrite N.sub_0_r in H.
  assert (N.to_nat k < length l)%nat by (apply nth_error_Some; congruence). lia.
Qed.

Section Wf.
  Variable e : OpDec.enc.
  Variable unit_addr : option (N -> res N).
  Variable cvt_addr : N -> option waddr.
  Variable unit_ref : N -> res N.
  Variable info_ref : N -> res dref.
  (* the conversion callbacks return values of their Rust types *)
  Hypothesis Hur : forall x en, unit_ref x = Ok en -> en < 2 ^ 64.
  Hypothesis Hir : forall x r, info_ref x = Ok r -> wf_ref r = true.
  Hypothesis Hca : forall a w, cvt_addr a = Some w -> wf_op (WoAddress w) = true.
  Hypothesis Hua : forall ua i v, unit_addr = Some ua -> ua i = Ok v -> v < 2 ^ 64.

  Lemma is_u64_intro n : n < 2 ^ 64 -> is_u64 n = true.
  Proof. unfold is_u64, two64. change (2 ^ 64) with 18446744073709551616. lia. Qed.

  Lemma conv_op_wf nested offsets o end_ wo :
    rd_typed e o -> N.of_nat (length offsets) < 2 ^ 64 ->
    (forall x inner, o = OEntryValue x -> nested x = Ok inner ->
       forallb wf_op inner = true /\ forallb decodable inner = true) ->
    conv_op e unit_addr cvt_addr unit_ref info_ref nested offsets o end_ = Ok wo ->
    wf_op wo = true /\ decodable wo = true.
  Proof.
    intros Ht Hlen Hnest Hc.
    destruct o; cbn [conv_op rd_typed] in *;
      try (inversion Hc; subst wo; cbn [wf_op decodable]; split; [|reflexivity];
           first [reflexivity|apply is_u64_intro; assumption|assumption|lia]).
    - (* deref *)
      destruct (base_type =? 0) eqn:E0; cbn [negb] in Hc.
      + destruct (size =? e_asz e) eqn:E1; cbn [negb] in Hc; inversion Hc; subst wo; cbn [wf_op decodable]; split; auto.
        destruct Ht as [Ht|[_ Ht]]; lia.
      + binds Hc. inversion Hc; subst wo. cbn [wf_op decodable]. split; [|reflexivity].
        apply Hur in Hv. rewrite (is_u64_intro _ Hv). destruct Ht as [Ht|[Ht _]]; lia.
    - binds Hc. inversion Hc; subst wo. cbn [wf_op decodable]. split; [|reflexivity].
      unfold branch_index in Hv. apply of_option_ok in Hv. apply index_of_lt in Hv. apply is_u64_intro. lia.
    - binds Hc. inversion Hc; subst wo. cbn [wf_op decodable]. split; [|reflexivity].
      unfold branch_index in Hv. apply of_option_ok in Hv. apply index_of_lt in Hv. apply is_u64_intro. lia.
    - (* register offset *)
      destruct Ht as [Hr Ho]. destruct (base_type =? 0) eqn:E0; cbn [negb] in Hc.
      + inversion Hc; subst wo. cbn [wf_op decodable]. split; [|reflexivity]. rewrite Ho. lia.
      + binds Hc. inversion Hc; subst wo. cbn [wf_op decodable]. split; [|reflexivity].
        apply Hur in Hv. rewrite (is_u64_intro _ Hv). lia.
    - (* call *)
      destruct offset as [off|off]; binds Hc; inversion Hc; subst wo; cbn [wf_op decodable]; split; try reflexivity.
      + apply is_u64_intro. eapply Hur; eauto.
      + eapply Hir; eauto.
    - binds Hc; inversion Hc; subst wo; cbn [wf_op decodable]; split; try reflexivity. eapply Hir; eauto.
    - (* piece *)
      destruct bit_offset as [bo|]; inversion Hc; subst wo; cbn [wf_op decodable].
      + destruct Ht as [H1 H2]. rewrite !is_u64_intro by assumption. auto.
      + assert (size_in_bits / 8 * 8 <= size_in_bits) by (pose proof (N.div_mod size_in_bits 8); lia).
        split; [apply is_u64_intro; lia|lia].
    - binds Hc; inversion Hc; subst wo; cbn [wf_op decodable]; split; try reflexivity.
      rewrite (Hir _ _ Hv), Ht. reflexivity.
    - (* entry_value *)
      binds Hc; inversion Hc; subst wo; cbn [wf_op decodable]. eapply Hnest; eauto.
    - binds Hc; inversion Hc; subst wo; cbn [wf_op decodable]; split; try reflexivity. apply is_u64_intro. eapply Hur; eauto.
    - binds Hc; inversion Hc; subst wo. split; [|reflexivity].
      unfold convert_address in Hv. apply of_option_ok in Hv. eapply Hca; eauto.
    - binds Hc; inversion Hc; subst wo. split; [|reflexivity].
      unfold convert_address in Hv1. apply of_option_ok in Hv1. eapply Hca; eauto.
    - binds Hc; inversion Hc; subst wo; cbn [wf_op decodable]; split; try reflexivity.
      apply of_option_ok in Hv. apply is_u64_intro. eapply Hua; eauto.
    - binds Hc; inversion Hc; subst wo; cbn [wf_op decodable]; split; try reflexivity. apply is_u64_intro. eapply Hur; eauto.
    - destruct (base_type =? 0); [inversion Hc; subst wo; split; reflexivity|].
      binds Hc; inversion Hc; subst wo; cbn [wf_op decodable]; split; try reflexivity. apply is_u64_intro. eapply Hur; eauto.
    - destruct (base_type =? 0); [inversion Hc; subst wo; split; reflexivity|].
      binds Hc; inversion Hc; subst wo; cbn [wf_op decodable]; split; try reflexivity. apply is_u64_intro. eapply Hur; eauto.
    - inversion Hc; subst wo; cbn [wf_op decodable]; split; [|reflexivity];
      unfold two32; change (2 ^ 32) with 4294967296 in Ht; lia.
    - inversion Hc; subst wo; cbn [wf_op decodable]; split; [|reflexivity];
      unfold two32; change (2 ^ 32) with 4294967296 in Ht; lia.
    - inversion Hc; subst wo; cbn [wf_op decodable]; split; [|reflexivity];
      unfold two32; change (2 ^ 32) with 4294967296 in Ht; lia.
  Qed.
End Wf.

Section WfExpr.
  Variable dbg : bool.
  Variable e : OpDec.enc.
  Variable unit_addr : option (N -> res N).
  Variable cvt_addr : N -> option waddr.
  Variable unit_ref : N -> res N.
  Variable info_ref : N -> res dref.
  Hypothesis Hur : forall x en, unit_ref x = Ok en -> en < 2 ^ 64.
  Hypothesis Hir : forall x r, info_ref x = Ok r -> wf_ref r = true.
  Hypothesis Hca : forall a w, cvt_addr a = Some w -> wf_op (WoAddress w) = true.
  Hypothesis Hua : forall ua i v, unit_addr = Some ua -> ua i = Ok v -> v < 2 ^ 64.

  Lemma conv_ops_wf nested offsets n : N.of_nat (length offsets) < 2 ^ 64 ->
    forall l ex,
    Forall (fun x => rd_typed e (fst x) /\ block_shorter n (fst x)) l ->
    (forall x inner, (length x < n)%nat -> nested x = Ok inner ->
       forallb wf_op inner = true /\ forallb decodable inner = true) ->
    conv_ops e unit_addr cvt_addr unit_ref info_ref nested offsets l = Ok ex ->
    forallb wf_op ex = true /\ forallb decodable ex = true.
  Proof.
    intros Hlen. induction l as [|[o end_] l IH]; intros ex Hf Hn H; cbn [conv_ops] in H.
    - inversion H. split; reflexivity.
    - binds H. inversion H; subst ex. inversion Hf as [|? ? [Ht Hb] Hf']; subst. cbn [fst] in *.
      destruct (IH _ Hf' Hn Hv0) as [I1 I2].
      destruct (conv_op_wf e unit_addr cvt_addr unit_ref info_ref Hur Hir Hca Hua nested offsets o end_ v Ht Hlen) as [W1 W2];
        [|exact Hv|].
      + intros x inner -> Hx. apply (Hn x inner); [exact Hb|exact Hx].
      + cbn [forallb]. rewrite W1, W2, I1, I2. split; reflexivity.
  Qed.

  (* Expression::from returns a well-typed, decodable expression (the hypotheses of the C15 theorems) *)
  Lemma conv_expr_fuel_wf : forall fuel bs ex,
    blen bs < 2 ^ 64 - 1 ->
    conv_expr_fuel dbg e unit_addr cvt_addr unit_ref info_ref fuel bs = Ok ex ->
    forallb wf_op ex = true /\ forallb decodable ex = true.
  Proof.
    induction fuel as [|f IH]; intros bs ex Hb H; [discriminate|]. cbn [conv_expr_fuel] in H. binds H.
    destruct (op_ends_facts dbg e _ _ _ _ Hv) as [Hf Hlen].
    apply (conv_ops_wf (conv_expr_fuel dbg e unit_addr cvt_addr unit_ref info_ref f) (offsets_of v) (length bs))
      with (l := v); [| exact Hf | | exact H].
    - unfold offsets_of. cbn [length]. rewrite map_length. unfold blen in Hb. lia.
    - intros x inner Hx Hi. eapply IH; [|exact Hi]. unfold blen in *. lia.
  Qed.

End WfExpr.

Section FuelExpr.
  Variable dbg : bool.
  Variable e : OpDec.enc.
  Variable unit_addr : option (N -> res N).
  Variable cvt_addr : N -> option waddr.
  Variable unit_ref : N -> res N.
  Variable info_ref : N -> res dref.
  (* fuel: the callbacks terminate, the nesting depth is below the length *)
  Hypothesis Fur : forall x, unit_ref x <> OutOfFuel.
  Hypothesis Fir : forall x, info_ref x <> OutOfFuel.
  Hypothesis Fua : forall ua i, unit_addr = Some ua -> ua i <> OutOfFuel.

  Lemma bind_fuel {A B} (r : res A) (f : A -> res B) :
    r <> OutOfFuel -> (forall a, r = Ok a -> f a <> OutOfFuel) -> bind r f <> OutOfFuel.
  Proof. destruct r; cbn [bind]; intros H1 H2; auto; discriminate. Qed.

  Lemma of_option_fuel {A} er (o : option A) : of_option er o <> OutOfFuel.
  Proof. destruct o; discriminate. Qed.

  Lemma conv_op_fuel nested offsets o end_ :
    (forall x, o = OEntryValue x -> nested x <> OutOfFuel) ->
    conv_op e unit_addr cvt_addr unit_ref info_ref nested offsets o end_ <> OutOfFuel.
  Proof.
    intros Hn. destruct o; cbn [conv_op]; try discriminate;
      repeat first [ discriminate
                   | match goal with |- (if ?c then _ else _) <> _ => destruct c end
                   | match goal with |- (match ?x with UnitRef _ => _ | DebugInfoRef _ => _ end) <> _ => destruct x end
                   | match goal with |- (match ?x with Some _ => _ | None => _ end) <> _ => destruct x end
                   | apply bind_fuel; [|intros ? ?]
                   | apply Fur | apply Fir | apply of_option_fuel | (unfold branch_index, convert_address; apply of_option_fuel)
                   | (apply Hn; reflexivity)
                   | (match goal with H : of_option _ unit_addr = Ok _ |- _ => apply of_option_ok in H; eapply Fua; exact H end) ].
  Qed.

  Lemma conv_ops_fuel nested offsets n : forall l,
    Forall (fun x => block_shorter n (fst x)) l ->
    (forall x, (length x < n)%nat -> nested x <> OutOfFuel) ->
    conv_ops e unit_addr cvt_addr unit_ref info_ref nested offsets l <> OutOfFuel.
  Proof.
    induction l as [|[o end_] l IH]; intros Hf Hn; cbn [conv_ops]; [discriminate|].
    inversion Hf as [|? ? Hb Hf']; subst. cbn [fst] in Hb.
    apply bind_fuel.
    - apply conv_op_fuel. intros x ->. apply Hn. exact Hb.
    - intros w _. apply bind_fuel; [apply IH; assumption|]. intros; discriminate.
  Qed.

  Lemma conv_expr_fuel_enough : forall fuel bs, (length bs < fuel)%nat ->
    conv_expr_fuel dbg e unit_addr cvt_addr unit_ref info_ref fuel bs <> OutOfFuel.
  Proof.
    induction fuel as [|f IH]; intros bs Hf; [lia|]. cbn [conv_expr_fuel].
    apply bind_fuel; [apply op_ends_fuel; lia|]. intros l Hl.
    destruct (op_ends_facts dbg e _ _ _ _ Hl) as [Hfa _].
    apply (conv_ops_fuel _ _ (length bs)).
    - eapply Forall_impl; [|exact Hfa]. intros a [_ H]. exact H.
    - intros x Hx. apply IH. lia.
  Qed.
End FuelExpr.

(* ------------------------------------------------------------------ expr_convert_sound on bytes *)

Lemma expr_convert_sound_bytes_lemma (dbg : bool) (e : OpDec.enc) unit_addr cvt_addr unit_ref info_ref
      (bs : list byte) (ex : wexpr)
      (dbg' : bool) (we : OpWr.enc) (uo : option uoffs) (refs : bool) (base : N) (wbs : list byte) (fx : list fixup) :
  (forall x en, unit_ref x = Ok en -> en < 2 ^ 64) ->
  (forall x r, info_ref x = Ok r -> wf_ref r = true) ->
  (forall a w, cvt_addr a = Some w -> wf_op (WoAddress w) = true) ->
  (forall ua i v, unit_addr = Some ua -> ua i = Ok v -> v < 2 ^ 64) ->
  blen bs < 2 ^ 64 - 1 ->
  conv_expr dbg e unit_addr cvt_addr unit_ref info_ref bs = Ok ex ->
  OpWr.e_asize we = e_asz e -> wf_uoffs uo = true -> base + blen wbs < 2 ^ 63 ->
  write_expr dbg' we uo refs base ex = Ok (wbs, fx) ->
  exists l woffs dl,
    op_ends dbg e (S (length bs)) bs 0 = Ok l /\
    expr_offsets dbg' we uo base ex = Ok woffs /\
    decode (dcfg_of we) wbs = Some dl /\ length dl = length l /\
    forall k o end_, nth_error l k = Some (o, end_) ->
      exists p d, nth_error woffs k = Some p /\ nth_error dl k = Some (p - base, d) /\
        same_op unit_addr cvt_addr unit_ref info_ref (entry_offset dbg' uo)
                (nested_written (conv_expr_fuel dbg e unit_addr cvt_addr unit_ref info_ref (length bs)) dbg' we uo refs)
                (offsets_of l) woffs p o end_ d.
Proof.
  intros Hur Hir Hca Hua Hb Hc Hasz Huo Hpos Hw.
  destruct (conv_expr_fuel_wf dbg e unit_addr cvt_addr unit_ref info_ref Hur Hir Hca Hua _ _ _ Hb Hc) as [Hwf Hdec].
  unfold conv_expr in Hc. cbn [conv_expr_fuel] in Hc. binds Hc.
  destruct (expr_convert_sound_lemma e unit_addr cvt_addr unit_ref info_ref _ v ex dbg' we uo refs base wbs fx
              Hc Hasz Hwf Huo Hdec Hpos Hw) as [woffs [dl [H1 [H2 [H3 H4]]]]].
  exists v, woffs, dl. auto.
Qed.

(* the offsets vector is strictly increasing and ends with the length: binary_search finds the unique index *)
Lemma op_ends_sorted dbg e : forall fuel bs pos l,
  op_ends dbg e fuel bs pos = Ok l ->
  StronglySorted N.lt (pos :: map snd l) /\ last (pos :: map snd l) 0 = pos + blen bs.
Proof.
  induction fuel as [|f IH]; intros bs pos l H.
  - destruct bs; cbn [op_ends] in H; [|discriminate]. inversion H; subst. cbn. split; [repeat constructor|unfold blen; cbn; lia].
  - destruct bs as [|b t]; cbn [op_ends] in H.
    + inversion H; subst. cbn. split; [repeat constructor|unfold blen; cbn; lia].
    + apply bind_ok in H. destruct H as [[o r] [Hp H]].
      apply bind_ok in H. destruct H as [l1 [Hl H]]. inversion H; subst; clear H.
      pose proof (parse_op_consumes _ _ _ _ _ Hp) as [b0 [u Hu]]. destruct (IH _ _ _ Hl) as [Hs Hlast].
      assert (Hlt : pos < pos + (blen (b :: t) - blen r)).
      { rewrite Hu. unfold blen. cbn [length]. rewrite app_length. lia. }
      cbn [map snd]. split.
      * constructor; [exact Hs|].
        apply StronglySorted_inv in Hs. destruct Hs as [_ Hall].
        constructor; [exact Hlt|]. eapply Forall_impl; [|exact Hall]. cbv beta. intros a Ha. lia.
      * change (last (pos :: (pos + (blen (b :: t) - blen r)) :: map snd l1) 0)
          with (last ((pos + (blen (b :: t) - blen r)) :: map snd l1) 0).
        rewrite Hlast. rewrite Hu. unfold blen. cbn [length]. rewrite app_length. lia.
Qed.
