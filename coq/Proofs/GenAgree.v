(* Proofs/GenAgree.v — translator tie (DESIGN §1.2 item 2): the tables regenerated from the Rust
   source by translate/tables.py (coq/Gen/*.v) are equal to the hand-written model/spec tables.
   If a table in /repo changes, one of these lemmas stops checking. *)
From Coq Require Import List NArith ZArith Bool Lia.
Require Import GV.Base.Res GV.Base.Ints GV.Model.Prim GV.Spec.FormSpec GV.Model.Attr GV.Proofs.AttrProofs.
Require GV.Gen.FormCodes GV.Gen.FormSize GV.Gen.AllowSecOffset GV.Gen.AttrValueTable.
Import ListNotations.
Local Open Scope N_scope.

(* DW_FORM_* of constants.rs = the codes of the specification's form table *)
Lemma gen_form_codes_agree : forall f, FormCodes.rust_form_code f = form_code f.
Proof. destruct f; reflexivity. Qed.

(* get_attribute_size: every form code (not only u16), every encoding *)
Lemma gen_get_attribute_size_agree : forall c e,
  FormSize.get_attribute_size c e = Attr.get_attribute_size c e.
Proof.
  intros c e. unfold FormSize.get_attribute_size, Attr.get_attribute_size. unfold_forms.
  repeat match goal with
         | |- context [N.eqb c ?k] => destruct (N.eqb_spec c k) as [->|?]; [reflexivity|]
         end.
  reflexivity.
Qed.

(* allow_section_offset: every attribute name, every version *)
Lemma gen_allow_section_offset_agree : forall name ver,
  AllowSecOffset.allow_section_offset name ver = Attr.allow_section_offset name ver.
Proof.
  intros name ver. unfold AllowSecOffset.allow_section_offset, Attr.allow_section_offset.
  unfold DW_AT_location, DW_AT_stmt_list, DW_AT_string_length, DW_AT_return_addr, DW_AT_start_scope,
    DW_AT_frame_base, DW_AT_macro_info, DW_AT_macros, DW_AT_segment, DW_AT_static_link, DW_AT_use_location,
    DW_AT_vtable_elem_location, DW_AT_ranges, DW_AT_data_member_location.
  repeat match goal with
         | |- context [N.eqb name ?k] => destruct (N.eqb_spec name k) as [->|?]; [reflexivity|]
         end.
  reflexivity.
Qed.

(* the name -> conversion table of Attribute::value: all 65 536 attribute names, by a sweep *)
Definition u8_variant_eq_dec : forall a b : u8_variant, {a = b} + {a <> b}.
Proof. decide equality. Defined.
Definition udata_variant_eq_dec : forall a b : udata_variant, {a = b} + {a <> b}.
Proof. decide equality. Defined.
Definition offset_variant_eq_dec : forall a b : offset_variant, {a = b} + {a <> b}.
Proof. decide equality. Defined.
Definition conv_eq_dec : forall a b : conv, {a = b} + {a <> b}.
Proof.
  decide equality; [apply u8_variant_eq_dec|apply udata_variant_eq_dec|apply offset_variant_eq_dec].
Defined.

(* [n-1; ...; 0] without going through nat *)
Definition count_up (n : N) : list N := N.peano_rec (fun _ => list N) [] (fun k l => k :: l) n.
Lemma count_up_in : forall n x, x < n -> In x (count_up n).
Proof.
  intros n. induction n as [|n IH] using N.peano_ind; intros x H; [lia|].
  unfold count_up. rewrite N.peano_rec_succ. fold (count_up n).
  destruct (N.eq_dec x n) as [->|]; [left; reflexivity|right; apply IH; lia].
Qed.

Definition convs_agree (name : N) : bool :=
  if list_eq_dec conv_eq_dec (AttrValueTable.name_convs name) (Attr.name_convs name) then true else false.

Lemma gen_name_convs_sweep : forallb convs_agree (count_up 65536) = true.
Proof. vm_compute. reflexivity. Qed.

Lemma gen_name_convs_agree : forall name, name < 65536 ->
  AttrValueTable.name_convs name = Attr.name_convs name.
Proof.
  intros name H. pose proof gen_name_convs_sweep as S. rewrite forallb_forall in S.
  specialize (S name (count_up_in _ _ H)). unfold convs_agree in S.
  destruct (list_eq_dec conv_eq_dec (AttrValueTable.name_convs name) (Attr.name_convs name)); [assumption|discriminate].
Qed.

(* packaged for Properties/C03.v *)
Lemma translator_tie :
  (forall f, FormCodes.rust_form_code f = form_code f) /\
  (forall c e, FormSize.get_attribute_size c e = Attr.get_attribute_size c e) /\
  (forall name ver, AllowSecOffset.allow_section_offset name ver = Attr.allow_section_offset name ver) /\
  (forall name, name < 65536 -> AttrValueTable.name_convs name = Attr.name_convs name).
Proof.
  split; [exact gen_form_codes_agree|]. split; [exact gen_get_attribute_size_agree|].
  split; [exact gen_allow_section_offset_agree|exact gen_name_convs_agree].
Qed.
