(* Proofs/ConvertLineSim.v — property C12, ConvertLineProgram, part E: the script-level soundness theorem.
   A lock-step simulation between C04's reader (LineRows::next_row over the real row) and the converter
   (read_row over its private row): for every program outside the F10 class whose DW_LNE_set_address operands are
   below the tombstone values, if the reader's rows() and the converter's event iteration both run to the end,
   the events denote exactly the reader's rows: address = (last SetAddress event of the sequence) + address_offset,
   every other register verbatim, the file register mapped through the FileId table, one EndSequence per sequence. *)
From Coq Require Import List NArith ZArith Bool Lia ZifyBool ZifyN ZifyNat.
From Coq.Strings Require Import Byte.
Require Import GV.Base.Res GV.Base.Byt GV.Base.Ints GV.Model.Leb GV.Model.Prim GV.Spec.LineSpec GV.Model.LineRd
               GV.Proofs.LineRdBase GV.Proofs.LineRdMono GV.Model.LineWr GV.Model.ConvertLine
               GV.Proofs.ConvertLineProofs GV.Proofs.ConvertLineSafe.
Import ListNotations.
Local Open Scope N_scope.
Local Arguments N.add : simpl never.
Local Arguments N.sub : simpl never.
Local Arguments N.mul : simpl never.
Local Arguments N.land : simpl never.
Local Arguments N.modulo : simpl never.
Local Arguments N.div : simpl never.
Local Arguments N.ltb : simpl never.
Local Arguments N.leb : simpl never.
Local Arguments N.eqb : simpl never.
Local Arguments N.of_nat : simpl never.

(* ------------------------------------------------------------------ the class of programs *)

(* min_tombstone for a validated address size *)
Definition mtomb (h : header) : N := N.land (two64 - 2) (mask_of (h_addr_size h)).

(* outside the F10 class (midseq_scan) AND no DW_LNE_set_address operand equal to `mt` (the -2 tombstone, which the
   reader drops but the converter keeps); the DWARF tombstone -1 (all ones) is inside the class *)
Fixpoint plain_scan (strict : bool) (mt : N) (is : list insn) (moved : bool) : bool :=
  match is with
  | [] => true
  | LineSpec.ISetAddress a :: r => negb moved && (negb strict || negb (a =? mt)) && plain_scan strict mt r true
  | LineSpec.IEndSequence :: r => plain_scan strict mt r false
  | LineSpec.ICopy :: r | LineSpec.ISpecial _ :: r | LineSpec.IAdvancePc _ :: r | LineSpec.IConstAddPc :: r
  | LineSpec.IFixedAddPc _ :: r => plain_scan strict mt r true
  | _ :: r => plain_scan strict mt r moved
  end.

Definition addrs_below (mt : N) (is : list insn) : bool :=
  forallb (fun i => match i with LineSpec.ISetAddress a => negb (a =? mt) | _ => true end) is.

Lemma plain_scan_iff strict mt : forall is moved,
  plain_scan strict mt is moved = negb (midseq_scan is moved) && (negb strict || addrs_below mt is).
Proof.
  induction is as [|i is IH]; intros moved; [destruct strict; reflexivity|].
  destruct i; cbn [plain_scan midseq_scan addrs_below forallb]; fold (addrs_below mt is);
    rewrite ?IH; try reflexivity.
  destruct moved; cbn [negb andb]; [reflexivity|].
  destruct strict; destruct (a =? mt); destruct (midseq_scan is true); destruct (addrs_below mt is); reflexivity.
Qed.

(* ------------------------------------------------------------------ small facts *)

Lemma mtomb_le_mask h : asz_ok h -> mtomb h < mask_of (h_addr_size h) /\ 0 < mtomb h.
Proof.
  unfold asz_ok, mtomb. intros Hs.
  assert (C : h_addr_size h = 1 \/ h_addr_size h = 2 \/ h_addr_size h = 3 \/ h_addr_size h = 4 \/
              h_addr_size h = 5 \/ h_addr_size h = 6 \/ h_addr_size h = 7 \/ h_addr_size h = 8) by lia.
  repeat (destruct C as [C|C]; [rewrite C; vm_compute; split; reflexivity|]). rewrite C. vm_compute. split; reflexivity.
Qed.

Lemma mtomb_succ h : asz_ok h -> mtomb h + 1 = mask_of (h_addr_size h).
Proof.
  unfold asz_ok, mtomb. intros Hs.
  assert (C : h_addr_size h = 1 \/ h_addr_size h = 2 \/ h_addr_size h = 3 \/ h_addr_size h = 4 \/
              h_addr_size h = 5 \/ h_addr_size h = 6 \/ h_addr_size h = 7 \/ h_addr_size h = 8) by lia.
  repeat (destruct C as [C|C]; [rewrite C; vm_compute; reflexivity|]). rewrite C. vm_compute. reflexivity.
Qed.

Lemma min_tombstone_mtomb dbg h : asz_ok h -> min_tombstone_g dbg (h_addr_size h) = Ok (mtomb h).
Proof. intros Hs. unfold min_tombstone_g. rewrite ones_sized_ok by exact Hs. reflexivity. Qed.

Lemma rebase_reset h b r : r_end r = false -> row_reset h (rebase b r) = rebase b (row_reset h r).
Proof. intros E. unfold row_reset, rebase. cbn [r_end set_addr]. rewrite E. reflexivity. Qed.

Lemma rebase_0_new h : rebase 0 (row_new h) = row_new h.
Proof. reflexivity. Qed.

Lemma insns_step dbg be h f inp i rest :
  inp <> [] -> parse_insn dbg be h inp = Ok (i, rest) ->
  fst (insns_loop (S f) dbg be h inp) = i :: fst (insns_loop f dbg be h rest).
Proof.
  intros Hne EP. cbn [insns_loop]. destruct inp as [|b input]; [contradiction|]. rewrite EP.
  destruct (insns_loop f dbg be h rest). reflexivity.
Qed.

(* the real row and the private row *)
Definition LIVE (h : header) (r q : row) (base : N) : Prop :=
  r_tomb r = false /\ q = rebase base r /\ base <= r_addr r /\ r_addr r <= amask h.

Section Sim.
Variables (dbg be : bool) (sx : secs) (h : header).
Hypothesis Hh : hdr_ok h.
Variable strict : bool.     (* true: the -2 operand is excluded from the class; false: only F10 is *)

Definition PS (f : nat) (inp : list byte) (moved : bool) : Prop :=
  plain_scan strict (mtomb h) (fst (insns_loop f dbg be h inp)) moved = true.

(* the converter returned an event of a GHOST sequence (DW_LNE_set_address -2: dropped by the reader, kept by the
   converter) while the reader is still skipping: its pending loop continues from (r'', the converter's input) *)
Definition GH (pend : bool) (c0 : cl) (ro : nr_out * lr_state) (ev : clrow) (c' : cl) : Prop :=
  strict = false /\
  exists f1' r'' added'',
    ro = next_row_loop f1' dbg be false h r'' (cl_inp c') added'' false /\
    (exists extra, cl_files c' = cl_files c0 ++ extra) /\
    (exists f3' moved', (length (cl_inp c') < f3')%nat /\ PS f3' (cl_inp c') moved' /\
        ((r_end (cl_row c') = false /\ moved' = true /\ r_tomb r'' = true /\ r_end r'' = false /\
          (ev = CRSetAddress (mtomb h) /\ cl_st c' = CSConvertRow \/
           (exists w, ev = CRRow w) /\ cl_st c' = CSReadRow /\ cl_addr c' = None /\ pend = false)) \/
         (r_end (cl_row c') = true /\ r'' = row_new h /\ cl_st c' = CSReadRow /\ exists off, ev = CREndSequence off))).

(* what one reader call and one converter call, started in related states, return *)
Definition sim_post (pend : bool) (base_in : N) (moved_in : bool) (c0 : cl) (ro : nr_out * lr_state) (co : rr_out) : Prop :=
  match ro, co with
  | (NRow, st'), (Ok (Some ev), c') =>
      (moved_in = false /\ GH pend c0 ro ev c') \/
      let r' := st_row st' in
      pend = true /\ exists base',
        cl_inp c' = st_inp st' /\ st_inseq st' = negb (r_end r') /\ LIVE h r' (cl_row c') base' /\
        (exists extra, cl_files c' = cl_files c0 ++ extra) /\
        (exists f3' moved', (length (st_inp st') < f3')%nat /\ PS f3' (st_inp st') moved' /\
                            (moved' = false -> r_end r' = true)) /\
        (if r_end r'
         then ev = CREndSequence (r_addr r' - base') /\ cl_st c' = CSReadRow /\ (base' = base_in \/ moved_in = false)
         else (ev = CRSetAddress base' /\ cl_st c' = CSConvertRow /\ moved_in = false) \/
              (base' = base_in /\ cl_st c' = CSReadRow /\ exists w, ev = CRRow w /\ convert_row h c' = Ok w))
  | (NRow, _), (Ok None, _) => False
  | (NNone, _), (Ok (Some ev), c') => moved_in = false /\ GH pend c0 ro ev c'
  | (NNone, _), (Ok None, c') => exists extra, cl_files c' = cl_files c0 ++ extra
  | _, _ => True
  end.

Lemma live_new0 : LIVE h (row_new h) (row_new h) 0.
Proof. unfold LIVE. repeat split; try reflexivity; cbn; try lia; apply N.le_0_l. Qed.

Lemma sim_post_err pd b m c0 ro e c' : sim_post pd b m c0 ro (Err e, c').
Proof. destruct ro as [[| | | |] st]; exact I. Qed.
Lemma sim_post_panic pd b m c0 ro c' : sim_post pd b m c0 ro (Panic, c').
Proof. destruct ro as [[| | | |] st]; exact I. Qed.
Lemma sim_post_fuel pd b m c0 ro c' : sim_post pd b m c0 ro (OutOfFuel, c').
Proof. destruct ro as [[| | | |] st]; exact I. Qed.
Lemma gh_intro pd b m c0 ro ev c' : m = false -> GH pd c0 ro ev c' -> sim_post pd b m c0 ro (Ok (Some ev), c').
Proof. destruct ro as [[| | | |] st]; intros M G; cbn; auto; exact I. Qed.

(* execute on a tombstoned reader row keeps it tombstoned *)
Lemma execute_tomb r i r' x :
  r_tomb r = true -> (forall a, i <> LineSpec.ISetAddress a) ->
  execute dbg h r i = Ok (r', x) -> r_tomb r' = true.
Proof.
  intros Ht Hi.
  assert (A : forall adv k, adv_result (apply_operation_advance dbg h r adv) k = Ok (r', x) -> r_tomb r' = true).
  { intros adv k. unfold apply_operation_advance. rewrite Ht. cbn. intros E; inversion E; subst; exact Ht. }
  destruct i; cbn [execute]; try (intros E; inversion E; subst; cbn; exact Ht).
  - destruct (adjust_opcode dbg h op); cbn [bind]; try discriminate.
    destruct (h_line_range h =? 0); [discriminate|].
    unfold apply_operation_advance. rewrite tomb_line_advance, Ht. cbn. intros E; inversion E; subst.
    rewrite tomb_line_advance. exact Ht.
  - apply A.
  - intros E; inversion E; subst. rewrite tomb_line_advance. exact Ht.
  - destruct (adjust_opcode dbg h 255); cbn [bind]; try discriminate.
    destruct (h_line_range h =? 0); [discriminate|]. apply A.
  - rewrite Ht. intros E; inversion E; subst; exact Ht.
  - exfalso. eapply Hi. reflexivity.
Qed.

(* the outcome kind and the end_sequence flag depend on the instruction only *)
Lemma aoa_end r adv r' e : apply_operation_advance dbg h r adv = Ok (r', e) -> r_end r' = r_end r.
Proof.
  unfold apply_operation_advance. destruct (r_tomb r); [intros E; inversion E; reflexivity|].
  destruct (h_max_ops h =? 1); [|destruct (h_max_ops h =? 0); [discriminate|]]; cbn [bind];
    match goal with |- context [add_sized_g ?d ?a ?b ?c] => destruct (add_sized_g d a b c) end;
    intros E; inversion E; reflexivity.
Qed.

Lemma adv_result_shape r adv k r' x :
  adv_result (apply_operation_advance dbg h r adv) k = Ok (r', x) -> (forall e, x <> XErr e) ->
  x = k /\ r_end r' = r_end r.
Proof.
  unfold adv_result. destruct (apply_operation_advance dbg h r adv) as [[r0 [e|]]|e| |] eqn:EA; cbn;
    intros E Hx; inversion E; subst; [exfalso; eapply Hx; reflexivity|].
  split; [reflexivity|eapply aoa_end; exact EA].
Qed.

Lemma execute_shape r q i r' x q' y :
  (forall a, i <> LineSpec.ISetAddress a) ->
  execute dbg h r i = Ok (r', x) -> execute dbg h q i = Ok (q', y) ->
  (forall e, x <> XErr e) -> (forall e, y <> XErr e) -> r_end r = r_end q ->
  x = y /\ r_end r' = r_end q'.
Proof.
  intros Hi. destruct i; cbn [execute];
    try solve [intros E1 E2 _ _ He; inversion E1; inversion E2; subst; cbn; auto].
  - destruct (adjust_opcode dbg h op); cbn [bind]; try discriminate.
    destruct (h_line_range h =? 0); [discriminate|].
    intros E1 E2 H1 H2 He. destruct (adv_result_shape _ _ _ _ _ E1 H1) as [-> A1].
    destruct (adv_result_shape _ _ _ _ _ E2 H2) as [-> A2]. rewrite A1, A2, !end_line_advance. auto.
  - intros E1 E2 H1 H2 He. destruct (adv_result_shape _ _ _ _ _ E1 H1) as [-> A1].
    destruct (adv_result_shape _ _ _ _ _ E2 H2) as [-> A2]. rewrite A1, A2. auto.
  - intros E1 E2 _ _ He; inversion E1; inversion E2; subst. rewrite !end_line_advance. auto.
  - destruct (adjust_opcode dbg h 255); cbn [bind]; try discriminate.
    destruct (h_line_range h =? 0); [discriminate|].
    intros E1 E2 H1 H2 He. destruct (adv_result_shape _ _ _ _ _ E1 H1) as [-> A1].
    destruct (adv_result_shape _ _ _ _ _ E2 H2) as [-> A2]. rewrite A1, A2. auto.
  - intros E1 E2 H1 H2 He.
    destruct (r_tomb r); [inversion E1; subst|
      destruct (add_sized_g dbg (r_addr r) n (h_addr_size h)); inversion E1; subst; [|exfalso; eapply H1; reflexivity]];
    (destruct (r_tomb q); [inversion E2; subst|
      destruct (add_sized_g dbg (r_addr q) n (h_addr_size h)); inversion E2; subst; [|exfalso; eapply H2; reflexivity]]);
    cbn; auto.
  - exfalso. eapply Hi. reflexivity.
Qed.

Definition live_stmt (f1 : nat) : Prop :=
  forall f2 f3 r inp added inseq c moved base base_in moved_in c0,
  cl_inp c = inp -> cl_st c = CSReadRow ->
  (length inp < f2)%nat -> (length inp < f3)%nat ->
  PS f3 inp moved ->
  LIVE h r (cl_row c) base ->
  (cl_addr c = Some base /\ moved_in = false \/ cl_addr c = None /\ base = base_in) ->
  (moved = false -> r_addr r = 0 /\ base = 0 /\ cl_addr c = None) ->
  (moved_in = true -> moved = true) ->
  (exists extra, cl_files c = cl_files c0 ++ extra) ->
  (inseq = true -> moved = true) ->
  sim_post true base_in moved_in c0 (next_row_loop f1 dbg be false h r inp added inseq)
           (read_loop f2 dbg be sx h c false).

(* inside a sequence whose DW_LNE_set_address operand is the tombstone -1: reader row tombstoned, converter's
   local `tombstone` set; both skip every row up to and including the end_sequence, then both restart *)
Definition tomb_stmt (f1 : nat) : Prop :=
  forall f2 f3 r inp added c c0,
  cl_inp c = inp -> cl_st c = CSReadRow ->
  (length inp < f2)%nat -> (length inp < f3)%nat ->
  PS f3 inp true ->
  r_tomb r = true -> r_end r = r_end (cl_row c) ->
  (exists extra, cl_files c = cl_files c0 ++ extra) ->
  sim_post true 0 false c0 (next_row_loop f1 dbg be false h r inp added false)
           (read_loop f2 dbg be sx h c true).

(* inside a sequence whose DW_LNE_set_address operand is -2: reader row tombstoned, converter live on its own *)
Definition ghost_stmt (f1 : nat) : Prop :=
  forall f2 f3 r inp added c c0 pd b m,
  strict = false -> m = false -> (pd = true -> cl_addr c = Some (mtomb h)) ->
  cl_inp c = inp -> cl_st c = CSReadRow ->
  (length inp < f2)%nat -> (length inp < f3)%nat ->
  PS f3 inp true ->
  r_tomb r = true -> r_end r = r_end (cl_row c) ->
  (cl_addr c = Some (mtomb h) \/ cl_addr c = None) ->
  (exists extra, cl_files c = cl_files c0 ++ extra) ->
  sim_post pd b m c0 (next_row_loop f1 dbg be false h r inp added false)
           (read_loop f2 dbg be sx h c false).

Lemma sim_both : forall f1, live_stmt f1 /\ tomb_stmt f1 /\ ghost_stmt f1.
Proof.
  pose proof Hh as (Hlr & Hmo & Hob & Hsz).
  induction f1 as [|f1 IHb]; [split; [unfold live_stmt|split; [unfold tomb_stmt|unfold ghost_stmt]]; intros; exact I|].
  destruct IHb as (IH & IHT & IHG). split; [|split].
  { unfold live_stmt in *.
  intros f2 f3 r inp added inseq c moved base base_in moved_in c0
    Einp Hst Hf2 Hf3 HPS HL Hpend Hmoved Hmi Hfiles Hinseq.
  destruct f2 as [|f2]; [lia|]. destruct f3 as [|f3]; [lia|].
  cbn [next_row_loop read_loop]. rewrite Einp.
  destruct inp as [|b input]; [exact Hfiles|].
  destruct (parse_insn dbg be h (b :: input)) as [[i rest]|e| |] eqn:EP; try exact I.
  pose proof (parse_insn_good dbg be h (b :: input)) as G. rewrite EP in G. cbn [good] in G.
  destruct G as (Gs & Gl & Gi); cbn [fst snd] in Gs, Gl, Gi.
  assert (Hscan : plain_scan strict (mtomb h) (i :: fst (insns_loop f3 dbg be h rest)) moved = true).
  { unfold PS in HPS. rewrite (insns_step dbg be h f3 (b :: input) i rest) in HPS; [exact HPS|discriminate|exact EP]. }
  set (c1 := with_inp rest c).
  destruct HL as (Ht & Eq & Hb & Hm).
  assert (Lr2 : (length rest < f2)%nat) by (cbn [length] in Gl, Hf2; lia).
  assert (Lr3 : (length rest < f3)%nat) by (cbn [length] in Gl, Hf3; lia).
  (* every instruction except set_address / define_file *)
  assert (D : forall i0 moved1, insn_ok h i0 ->
    plain_scan strict (mtomb h) (fst (insns_loop f3 dbg be h rest)) moved1 = true ->
    (forall r', execute dbg h r i0 = Ok (r', XNoRow) ->
        (moved_in = true -> moved1 = true) /\ (moved1 = false -> r_addr r' = 0 /\ moved = false)) ->
    (forall r', execute dbg h r i0 = Ok (r', XRow) -> moved1 = false -> r_end r' = true) ->
    (forall a, i0 <> LineSpec.ISetAddress a) ->
    sim_post true base_in moved_in c0
      (match execute dbg h r i0 with
       | Ok (r', XRow) =>
           if r_tomb r' && negb (r_end r' && inseq)
           then next_row_loop f1 dbg be false h (row_reset h r') rest added inseq
           else (NRow, mk_st r' rest added (negb (r_end r')))
       | Ok (r', XNoRow) => next_row_loop f1 dbg be false h r' rest (LineRd.add_file false i0 added) inseq
       | Ok (r', XErr e) => (NErr e, mk_st r' rest (LineRd.add_file false i0 added) inseq)
       | Err e => (NErr e, mk_st r rest added inseq)
       | Panic => (NPanic, mk_st r rest added inseq)
       | OutOfFuel => (NFuel, mk_st r rest added inseq)
       end)
      (match execute dbg h (cl_row c1) i0 with
       | Err e => (Err e, c1) | Panic => (Panic, c1) | OutOfFuel => (OutOfFuel, c1)
       | Ok (r', XErr e) => (Err e, with_row r' c1)
       | Ok (r', XNoRow) => read_loop f2 dbg be sx h (with_row r' c1) false
       | Ok (r', XRow) =>
           let c := with_row r' c1 in
           if false then
             let c1 := if r_end r' then with_addr None c else c in
             read_loop f2 dbg be sx h (with_row (row_reset h r') c1) (if r_end r' then false else false)
           else if r_end r' then
             match convert_address_offset c with
             | Ok ao => (Ok (Some (CREndSequence ao)), c) | Err e => (Err e, c)
             | Panic => (Panic, c) | OutOfFuel => (OutOfFuel, c)
             end
           else
             match cl_addr c with
             | Some a => (Ok (Some (CRSetAddress a)), with_st CSConvertRow (with_addr None c))
             | None => ret_row h (with_st CSReadRow c)
             end
       end)).
  { intros i0 moved1 Gi0 HS1 HX HR Hns.
    pose proof (execute_good dbg h r i0 Hh Gi0 Hm) as X.
    destruct (execute dbg h r i0) as [[r' x]|e| |] eqn:EX; cbn [good] in X; try contradiction; try exact I.
    cbn [fst] in X. destruct X as [X1 X2].
    destruct x as [| |e]; [| |exact I].
    - (* XRow *)
      destruct (execute_rebase dbg h r i0 base r' XRow Hh Ht Hb Hns EX ltac:(discriminate)) as (ER & Tr & Br).
      change (cl_row c1) with (cl_row c). rewrite Eq, ER, Tr. cbn [andb]. cbv zeta.
      change (r_end (rebase base r')) with (r_end r').
      destruct (r_end r') eqn:Ee.
      + pose proof (address_offset_exact (with_row (rebase base r') c1)) as AO.
        destruct (convert_address_offset (with_row (rebase base r') c1)) as [ao|e| |]; try contradiction; try exact I.
        destruct AO as [-> _]. cbn [sim_post st_row st_inp]. right. split; [reflexivity|]. exists base.
        split; [reflexivity|]. split; [cbn [st_inseq st_row]; rewrite ?Ee; reflexivity|]. split; [repeat split; assumption|]. split; [exact Hfiles|].
        split; [exists f3, moved1; split; [exact Lr3|split; [exact HS1|intros M; exact (HR r' eq_refl M)]]|].
        rewrite Ee. split; [reflexivity|]. split; [exact Hst|].
        destruct Hpend as [[_ ?]|[_ ?]]; auto.
      + change (cl_addr (with_row (rebase base r') c1)) with (cl_addr c).
        destruct Hpend as [[Ea Emi]|[Ea Eb]]; rewrite Ea.
        * cbn [sim_post st_row st_inp]. right. split; [reflexivity|]. exists base.
          split; [reflexivity|]. split; [cbn [st_inseq st_row]; rewrite ?Ee; reflexivity|]. split; [repeat split; assumption|]. split; [exact Hfiles|].
          split; [exists f3, moved1; split; [exact Lr3|split; [exact HS1|intros M; exact (HR r' eq_refl M)]]|].
          rewrite Ee. left. repeat split; assumption.
        * unfold ret_row.
          destruct (convert_row h (with_st CSReadRow (with_row (rebase base r') c1))) as [w|e| |] eqn:EC; try exact I.
          cbn [sim_post st_row st_inp]. right. split; [reflexivity|]. exists base.
          split; [reflexivity|]. split; [cbn [st_inseq st_row]; rewrite ?Ee; reflexivity|]. split; [repeat split; assumption|]. split; [exact Hfiles|].
          split; [exists f3, moved1; split; [exact Lr3|split; [exact HS1|intros M; exact (HR r' eq_refl M)]]|].
          rewrite Ee. right. split; [exact Eb|]. split; [reflexivity|]. exists w. split; [reflexivity|exact EC].
    - (* XNoRow *)
      destruct (execute_rebase dbg h r i0 base r' XNoRow Hh Ht Hb Hns EX ltac:(discriminate)) as (ER & Tr & Br).
      change (cl_row c1) with (cl_row c). rewrite Eq, ER.
      destruct (HX r' eq_refl) as [HX1 HX2].
      apply (IH f2 f3 r' rest _ inseq (with_row (rebase base r') c1) moved1 base base_in moved_in c0);
        try reflexivity; try assumption.
      + repeat split; assumption.
      + intros M. destruct (HX2 M) as [Z0 M0]. destruct (Hmoved M0) as (_ & B0 & A0). auto.
      + intros M. destruct moved1; [reflexivity|]. destruct (HX2 eq_refl) as [_ M0].
        rewrite (Hinseq M) in M0. discriminate M0. }
  destruct i; try (apply (D _ moved Gi Hscan); [intros r' E; inversion E; subst; split; [exact Hmi|intros M; split; [apply Hmoved in M; cbn; tauto|exact M]]|intros r' E; discriminate E|intros a0; discriminate]).
  - (* ISpecial *) apply (D _ true Gi Hscan); [intros r' E; split; [reflexivity|discriminate]|intros r' E M; discriminate M|intros a0; discriminate].
  - (* ICopy *) apply (D _ true Gi Hscan); [intros r' E; split; [reflexivity|discriminate]|intros r' E M; discriminate M|intros a0; discriminate].
  - (* IAdvancePc *) apply (D _ true Gi Hscan); [intros r' E; split; [reflexivity|discriminate]|intros r' E M; discriminate M|intros a0; discriminate].
  - (* IAdvanceLine *)
    apply (D _ moved Gi Hscan); [|intros r' E; discriminate E|intros a0; discriminate].
    intros r' E. cbn [execute] in E. inversion E; subst. split; [exact Hmi|]. intros M. split; [|exact M].
    rewrite addr_line_advance. apply Hmoved in M. tauto.
  - (* IConstAddPc *) apply (D _ true Gi Hscan); [intros r' E; split; [reflexivity|discriminate]|intros r' E M; discriminate M|intros a0; discriminate].
  - (* IFixedAddPc *) apply (D _ true Gi Hscan); [intros r' E; split; [reflexivity|discriminate]|intros r' E M; discriminate M|intros a0; discriminate].
  - (* IEndSequence *)
    apply (D _ false Gi Hscan); [intros r' E; discriminate E|intros r' E _; inversion E; reflexivity|intros a0; discriminate].
  - (* ISetAddress: the first address of its sequence; not the -2 value *)
    cbn [plain_scan] in Hscan.
    destruct moved; [discriminate Hscan|]. cbn [negb andb] in Hscan.
    destruct (Hmoved eq_refl) as (R0 & B0 & A0). subst base.
    destruct (mtomb_le_mask h Hsz) as [Mm M0]. pose proof (mtomb_succ h Hsz) as Msucc.
    destruct Gi as [Ga _]. unfold amask in Ga.
    assert (Q0 : r_addr (cl_row c1) = 0) by (change (cl_row c1) with (cl_row c); rewrite Eq; cbn; lia).
    assert (Bin : base_in = 0 /\ moved_in = false).
    { split; [destruct Hpend as [[Hp _]|[_ Hp]]; [rewrite A0 in Hp; discriminate Hp|symmetry; exact Hp]|].
      destruct moved_in; [specialize (Hmi eq_refl); discriminate Hmi|reflexivity]. }
    assert (Ei : inseq = false) by (destruct inseq; [specialize (Hinseq eq_refl); discriminate Hinseq|reflexivity]).
    destruct (a =? mtomb h) eqn:Ea.
    { (* the value -2: the reader drops the sequence, the converter keeps it (ghost) *)
      apply N.eqb_eq in Ea.
      assert (Es : strict = false) by (generalize Hscan; case strict; cbn [negb orb andb]; [discriminate|reflexivity]).
      assert (Hscan' : plain_scan strict (mtomb h) (fst (insns_loop f3 dbg be h rest)) true = true).
      { generalize Hscan. case strict; cbn [negb orb andb]; [discriminate|intros H0; exact H0]. }
      clear Hscan. rename Hscan' into Hscan.
      rewrite (set_address_zero dbg h (cl_row c1) Hh Q0).
      rewrite (ones_sized_ok dbg (h_addr_size h) Hsz). cbv zeta.
      replace (a =? mask_of (h_addr_size h)) with false by (symmetry; apply N.eqb_neq; lia).
      cbn [execute]. rewrite R0.
      replace (a <? 0) with false by (symmetry; apply N.ltb_ge; lia).
      rewrite (min_tombstone_mtomb dbg h Hsz). cbn [bind].
      replace (mtomb h <=? a) with true by (symmetry; apply N.leb_le; lia).
      subst inseq.
      apply (IHG f2 f3 _ rest _ _ c0 true base_in moved_in Es (proj2 Bin)); try reflexivity; try assumption.
      - intros _. cbn. rewrite Ea. reflexivity.
      - change (cl_row c1) with (cl_row c). rewrite Eq. reflexivity.
      - left. cbn. rewrite Ea. reflexivity. }
    assert (Hscan' : plain_scan strict (mtomb h) (fst (insns_loop f3 dbg be h rest)) true = true).
    { generalize Hscan. case strict; cbn [negb orb andb]; intros H0; exact H0. }
    clear Hscan. rename Hscan' into Hscan. apply N.eqb_neq in Ea.
    destruct (a <? mtomb h) eqn:Elt.
    + (* a live address *)
      rewrite (set_address_zero dbg h (cl_row c1) Hh Q0).
      rewrite (ones_sized_ok dbg (h_addr_size h) Hsz). cbv zeta.
      replace (a =? mask_of (h_addr_size h)) with false by (symmetry; apply N.eqb_neq; lia).
      cbn [execute]. rewrite R0.
      replace (a <? 0) with false by (symmetry; apply N.ltb_ge; lia).
      rewrite (min_tombstone_mtomb dbg h Hsz). cbn [bind].
      replace (mtomb h <=? a) with false by (symmetry; apply N.leb_gt; lia).
      apply (IH f2 f3 _ rest _ inseq _ true a base_in moved_in c0); try reflexivity; try assumption.
      * repeat split; cbn; try (unfold amask; lia).
        rewrite Eq. unfold rebase, set_opi, set_addr, set_tomb. cbn.
        f_equal. lia.
      * left. split; [reflexivity|exact (proj2 Bin)].
      * intros M; discriminate M.
    + (* the DWARF tombstone -1: a = 2^(8*size) - 1 *)
      assert (Ea1 : a = mask_of (h_addr_size h)) by lia.
      rewrite (set_address_zero dbg h (cl_row c1) Hh Q0).
      rewrite (ones_sized_ok dbg (h_addr_size h) Hsz). cbv zeta.
      replace (a =? mask_of (h_addr_size h)) with true by (symmetry; apply N.eqb_eq; exact Ea1).
      cbn [execute]. rewrite R0.
      replace (a <? 0) with false by (symmetry; apply N.ltb_ge; lia).
      rewrite (min_tombstone_mtomb dbg h Hsz). cbn [bind].
      replace (mtomb h <=? a) with true by (symmetry; apply N.leb_le; lia).
      destruct Bin as [-> ->].
      subst inseq.
      apply (IHT f2 f3 _ rest _ _ c0); try reflexivity; try assumption.
      change (cl_row c1) with (cl_row c). rewrite Eq. reflexivity.
  - (* IDefineFile *)
    cbn [plain_scan] in Hscan. cbn [execute].
    destruct (convert_file sx (p_enc (cl_prog c1)) (cl_dirs c1) (cl_ls c1) f) as [[[[name d] info] ls']|e| |];
      try (match goal with
           | |- sim_post _ _ _ _ ?ro (Err ?e, ?c') => exact (sim_post_err true base_in moved_in c0 ro e c')
           | |- sim_post _ _ _ _ ?ro (Panic, ?c') => exact (sim_post_panic true base_in moved_in c0 ro c')
           | |- sim_post _ _ _ _ ?ro (OutOfFuel, ?c') => exact (sim_post_fuel true base_in moved_in c0 ro c')
           end).
    destruct (LineWr.add_file (cl_prog c1) name d info) as [[p' id]|e| |];
      try (match goal with
           | |- sim_post _ _ _ _ ?ro (Err ?e, ?c') => exact (sim_post_err true base_in moved_in c0 ro e c')
           | |- sim_post _ _ _ _ ?ro (Panic, ?c') => exact (sim_post_panic true base_in moved_in c0 ro c')
           | |- sim_post _ _ _ _ ?ro (OutOfFuel, ?c') => exact (sim_post_fuel true base_in moved_in c0 ro c')
           end).
    apply (IH f2 f3 r rest _ inseq (with_file p' ls' id c1) moved base base_in moved_in c0);
      try reflexivity; try assumption.
    + repeat split; assumption.
    + destruct Hfiles as [extra Hx]. exists (extra ++ [id]). cbn. rewrite Hx, app_assoc. reflexivity. }
  (* ---------------- the tombstoned stretch *)
  { unfold tomb_stmt. intros f2 f3 r inp added c c0 Einp Hst Hf2 Hf3 HPS Ht Hee Hfiles.
  destruct f2 as [|f2]; [lia|]. destruct f3 as [|f3]; [lia|].
  cbn [next_row_loop read_loop]. rewrite Einp.
  destruct inp as [|b input]; [exact Hfiles|].
  destruct (parse_insn dbg be h (b :: input)) as [[i rest]|e| |] eqn:EP; try exact I.
  pose proof (parse_insn_good dbg be h (b :: input)) as G. rewrite EP in G. cbn [good] in G.
  destruct G as (Gs & Gl & Gi); cbn [fst snd] in Gs, Gl, Gi.
  assert (Hscan : plain_scan strict (mtomb h) (i :: fst (insns_loop f3 dbg be h rest)) true = true).
  { unfold PS in HPS. rewrite (insns_step dbg be h f3 (b :: input) i rest) in HPS; [exact HPS|discriminate|exact EP]. }
  set (c1 := with_inp rest c).
  assert (Lr2 : (length rest < f2)%nat) by (cbn [length] in Gl, Hf2; lia).
  assert (Lr3 : (length rest < f3)%nat) by (cbn [length] in Gl, Hf3; lia).
  assert (DT : forall i0 moved1,
    plain_scan strict (mtomb h) (fst (insns_loop f3 dbg be h rest)) moved1 = true ->
    (moved1 = false -> i0 = LineSpec.IEndSequence) ->
    (forall a, i0 <> LineSpec.ISetAddress a) ->
    sim_post true 0 false c0
      (match execute dbg h r i0 with
       | Ok (r', XRow) =>
           if r_tomb r' && negb (r_end r' && false)
           then next_row_loop f1 dbg be false h (row_reset h r') rest added false
           else (NRow, mk_st r' rest added (negb (r_end r')))
       | Ok (r', XNoRow) => next_row_loop f1 dbg be false h r' rest (LineRd.add_file false i0 added) false
       | Ok (r', XErr e) => (NErr e, mk_st r' rest (LineRd.add_file false i0 added) false)
       | Err e => (NErr e, mk_st r rest added false)
       | Panic => (NPanic, mk_st r rest added false)
       | OutOfFuel => (NFuel, mk_st r rest added false)
       end)
      (match execute dbg h (cl_row c1) i0 with
       | Err e => (Err e, c1) | Panic => (Panic, c1) | OutOfFuel => (OutOfFuel, c1)
       | Ok (r', XErr e) => (Err e, with_row r' c1)
       | Ok (r', XNoRow) => read_loop f2 dbg be sx h (with_row r' c1) true
       | Ok (r', XRow) =>
           let c := with_row r' c1 in
           if true then
             let c1 := if r_end r' then with_addr None c else c in
             read_loop f2 dbg be sx h (with_row (row_reset h r') c1) (if r_end r' then false else true)
           else if r_end r' then
             match convert_address_offset c with
             | Ok ao => (Ok (Some (CREndSequence ao)), c) | Err e => (Err e, c)
             | Panic => (Panic, c) | OutOfFuel => (OutOfFuel, c)
             end
           else
             match cl_addr c with
             | Some a => (Ok (Some (CRSetAddress a)), with_st CSConvertRow (with_addr None c))
             | None => ret_row h (with_st CSReadRow c)
             end
       end)).
  { intros i0 moved1 HS1 HM1 Hns.
    destruct (execute dbg h r i0) as [[r' x]|e| |] eqn:EX; try exact I.
    destruct x as [| |e]; [| |exact I].
    - (* reader: a row of the tombstoned sequence is skipped *)
      pose proof (execute_tomb r i0 r' XRow Ht Hns EX) as Tr. rewrite Tr. rewrite andb_false_r. cbn [negb andb].
      destruct (execute dbg h (cl_row c1) i0) as [[q' y]|e| |] eqn:EY;
        try (match goal with
             | |- sim_post _ _ _ _ ?ro (Err ?e, ?c') => exact (sim_post_err true 0 false c0 ro e c')
             | |- sim_post _ _ _ _ ?ro (Panic, ?c') => exact (sim_post_panic true 0 false c0 ro c')
             | |- sim_post _ _ _ _ ?ro (OutOfFuel, ?c') => exact (sim_post_fuel true 0 false c0 ro c')
             end).
      destruct y as [| |e];
        try (match goal with
             | |- sim_post _ _ _ _ ?ro (Err ?e, ?c') => exact (sim_post_err true 0 false c0 ro e c')
             end).
      + destruct (execute_shape r (cl_row c1) i0 r' XRow q' XRow Hns EX EY ltac:(discriminate) ltac:(discriminate) Hee)
          as [_ Eend].
        cbv zeta. cbn match.
        destruct (r_end q') eqn:Eq'.
        * (* end of the tombstoned sequence: both restart from the initial registers *)
          assert (Er' : row_reset h r' = row_new h) by (unfold row_reset; rewrite Eend; reflexivity).
          assert (Eq2 : row_reset h q' = row_new h) by (unfold row_reset; rewrite Eq'; reflexivity).
          rewrite Er', Eq2.
          apply (IH f2 f3 (row_new h) rest added false _ moved1 0 0 false c0); try reflexivity; try assumption.
          -- exact live_new0.
          -- right. split; reflexivity.
          -- intros _. repeat split; reflexivity.
          -- intros M; discriminate M.
          -- intros M; discriminate M.
        * apply (IHT f2 f3 (row_reset h r') rest added _ c0); try reflexivity; try assumption.
          -- destruct moved1; [exact HS1|]. specialize (HM1 eq_refl). subst i0.
             cbn [execute] in EY. inversion EY; subst. discriminate Eq'.
          -- unfold row_reset. rewrite Eend. exact Tr.
          -- unfold row_reset. cbn [cl_row with_row]. rewrite Eend, Eq'. reflexivity.
      + exfalso.
        destruct (execute_shape r (cl_row c1) i0 r' XRow q' XNoRow Hns EX EY ltac:(discriminate) ltac:(discriminate) Hee)
          as [Ek _]. discriminate Ek.
    - (* reader: no row *)
      pose proof (execute_tomb r i0 r' XNoRow Ht Hns EX) as Tr.
      destruct (execute dbg h (cl_row c1) i0) as [[q' y]|e| |] eqn:EY;
        try (match goal with
             | |- sim_post _ _ _ _ ?ro (Err ?e, ?c') => exact (sim_post_err true 0 false c0 ro e c')
             | |- sim_post _ _ _ _ ?ro (Panic, ?c') => exact (sim_post_panic true 0 false c0 ro c')
             | |- sim_post _ _ _ _ ?ro (OutOfFuel, ?c') => exact (sim_post_fuel true 0 false c0 ro c')
             end).
      destruct y as [| |e];
        try (match goal with
             | |- sim_post _ _ _ _ ?ro (Err ?e, ?c') => exact (sim_post_err true 0 false c0 ro e c')
             end).
      + exfalso.
        destruct (execute_shape r (cl_row c1) i0 r' XNoRow q' XRow Hns EX EY ltac:(discriminate) ltac:(discriminate) Hee)
          as [Ek _]. discriminate Ek.
      + destruct (execute_shape r (cl_row c1) i0 r' XNoRow q' XNoRow Hns EX EY ltac:(discriminate) ltac:(discriminate) Hee)
          as [_ Eend].
        apply (IHT f2 f3 r' rest _ _ c0); try reflexivity; try assumption.
        destruct moved1; [exact HS1|]. specialize (HM1 eq_refl). subst i0. cbn [execute] in EX. discriminate EX. }
  destruct i; try (apply (DT _ true Hscan); [discriminate|intros a0; discriminate]).
  - (* IEndSequence *) apply (DT _ false Hscan); [reflexivity|intros a0; discriminate].
  - (* ISetAddress: excluded (a second set_address of the sequence) *) discriminate Hscan.
  - (* IDefineFile *)
    cbn [plain_scan] in Hscan. cbn [execute].
    destruct (convert_file sx (p_enc (cl_prog c1)) (cl_dirs c1) (cl_ls c1) f) as [[[[name d] info] ls']|e| |];
      try (match goal with
           | |- sim_post _ _ _ _ ?ro (Err ?e, ?c') => exact (sim_post_err true 0 false c0 ro e c')
           | |- sim_post _ _ _ _ ?ro (Panic, ?c') => exact (sim_post_panic true 0 false c0 ro c')
           | |- sim_post _ _ _ _ ?ro (OutOfFuel, ?c') => exact (sim_post_fuel true 0 false c0 ro c')
           end).
    destruct (LineWr.add_file (cl_prog c1) name d info) as [[p' id]|e| |];
      try (match goal with
           | |- sim_post _ _ _ _ ?ro (Err ?e, ?c') => exact (sim_post_err true 0 false c0 ro e c')
           | |- sim_post _ _ _ _ ?ro (Panic, ?c') => exact (sim_post_panic true 0 false c0 ro c')
           | |- sim_post _ _ _ _ ?ro (OutOfFuel, ?c') => exact (sim_post_fuel true 0 false c0 ro c')
           end).
    apply (IHT f2 f3 r rest _ (with_file p' ls' id c1) c0); try reflexivity; try assumption.
    destruct Hfiles as [extra Hx]. exists (extra ++ [id]). cbn. rewrite Hx, app_assoc. reflexivity. }
  (* ---------------- the ghost stretch (-2): the reader skips, the converter returns events *)
  unfold ghost_stmt. intros f2 f3 r inp added c c0 pd b0 m0 Es Hm0 Hpd Einp Hst Hf2 Hf3 HPS Ht Hee Haddr Hfiles.
  destruct f2 as [|f2]; [lia|]. destruct f3 as [|f3]; [lia|].
  cbn [next_row_loop read_loop]. rewrite Einp.
  destruct inp as [|b input]; [exact Hfiles|].
  destruct (parse_insn dbg be h (b :: input)) as [[i rest]|e| |] eqn:EP; try exact I.
  pose proof (parse_insn_good dbg be h (b :: input)) as G. rewrite EP in G. cbn [good] in G.
  destruct G as (Gs & Gl & Gi); cbn [fst snd] in Gs, Gl, Gi.
  assert (Hscan : plain_scan strict (mtomb h) (i :: fst (insns_loop f3 dbg be h rest)) true = true).
  { unfold PS in HPS. rewrite (insns_step dbg be h f3 (b :: input) i rest) in HPS; [exact HPS|discriminate|exact EP]. }
  set (c1 := with_inp rest c).
  assert (Lr2 : (length rest < f2)%nat) by (cbn [length] in Gl, Hf2; lia).
  assert (Lr3 : (length rest < f3)%nat) by (cbn [length] in Gl, Hf3; lia).
  assert (DG : forall i0 moved1,
    plain_scan strict (mtomb h) (fst (insns_loop f3 dbg be h rest)) moved1 = true ->
    (moved1 = false -> i0 = LineSpec.IEndSequence) ->
    (forall a, i0 <> LineSpec.ISetAddress a) ->
    sim_post pd b0 m0 c0
      (match execute dbg h r i0 with
       | Ok (r', XRow) =>
           if r_tomb r' && negb (r_end r' && false)
           then next_row_loop f1 dbg be false h (row_reset h r') rest added false
           else (NRow, mk_st r' rest added (negb (r_end r')))
       | Ok (r', XNoRow) => next_row_loop f1 dbg be false h r' rest (LineRd.add_file false i0 added) false
       | Ok (r', XErr e) => (NErr e, mk_st r' rest (LineRd.add_file false i0 added) false)
       | Err e => (NErr e, mk_st r rest added false)
       | Panic => (NPanic, mk_st r rest added false)
       | OutOfFuel => (NFuel, mk_st r rest added false)
       end)
      (match execute dbg h (cl_row c1) i0 with
       | Err e => (Err e, c1) | Panic => (Panic, c1) | OutOfFuel => (OutOfFuel, c1)
       | Ok (r', XErr e) => (Err e, with_row r' c1)
       | Ok (r', XNoRow) => read_loop f2 dbg be sx h (with_row r' c1) false
       | Ok (r', XRow) =>
           let c := with_row r' c1 in
           if false then
             let c1 := if r_end r' then with_addr None c else c in
             read_loop f2 dbg be sx h (with_row (row_reset h r') c1) (if r_end r' then false else false)
           else if r_end r' then
             match convert_address_offset c with
             | Ok ao => (Ok (Some (CREndSequence ao)), c) | Err e => (Err e, c)
             | Panic => (Panic, c) | OutOfFuel => (OutOfFuel, c)
             end
           else
             match cl_addr c with
             | Some a => (Ok (Some (CRSetAddress a)), with_st CSConvertRow (with_addr None c))
             | None => ret_row h (with_st CSReadRow c)
             end
       end)).
  { intros i0 moved1 HS1 HM1 Hns.
    destruct (execute dbg h r i0) as [[r' x]|e| |] eqn:EX; try exact I.
    destruct x as [| |e]; [| |exact I].
    - pose proof (execute_tomb r i0 r' XRow Ht Hns EX) as Tr. rewrite Tr. rewrite andb_false_r. cbn [negb andb].
      destruct (execute dbg h (cl_row c1) i0) as [[q' y]|e| |] eqn:EY;
        try (match goal with
             | |- sim_post _ _ _ _ ?ro (Err ?e, ?c') => exact (sim_post_err pd b0 m0 c0 ro e c')
             | |- sim_post _ _ _ _ ?ro (Panic, ?c') => exact (sim_post_panic pd b0 m0 c0 ro c')
             | |- sim_post _ _ _ _ ?ro (OutOfFuel, ?c') => exact (sim_post_fuel pd b0 m0 c0 ro c')
             end).
      destruct y as [| |e];
        try (match goal with
             | |- sim_post _ _ _ _ ?ro (Err ?e, ?c') => exact (sim_post_err pd b0 m0 c0 ro e c')
             end).
      + destruct (execute_shape r (cl_row c1) i0 r' XRow q' XRow Hns EX EY ltac:(discriminate) ltac:(discriminate) Hee)
          as [_ Eend].
        cbv zeta. cbn match.
        destruct (r_end q') eqn:Eq'.
        * (* the ghost sequence ends *)
          assert (Er' : row_reset h r' = row_new h) by (unfold row_reset; rewrite Eend; reflexivity).
          pose proof (address_offset_exact (with_row q' c1)) as AO.
          destruct (convert_address_offset (with_row q' c1)) as [ao|e| |]; try contradiction;
            try (match goal with
                 | |- sim_post _ _ _ _ ?ro (Err ?e, ?c') => exact (sim_post_err pd b0 m0 c0 ro e c')
                 end).
          apply (gh_intro _ _ _ _ _ _ _ Hm0). split; [exact Es|]. exists f1, (row_reset h r'), added.
          split; [reflexivity|]. split; [exact Hfiles|].
          exists f3, moved1. split; [exact Lr3|]. split; [exact HS1|].
          right. split; [exact Eq'|]. split; [exact Er'|]. split; [exact Hst|]. exists ao. reflexivity.
        * assert (Em1 : moved1 = true).
          { destruct moved1; [reflexivity|]. specialize (HM1 eq_refl). subst i0.
            cbn [execute] in EY. inversion EY; subst. discriminate Eq'. }
          assert (Trr : r_tomb (row_reset h r') = true /\ r_end (row_reset h r') = false).
          { unfold row_reset. rewrite Eend. cbn. split; [exact Tr|reflexivity]. }
          change (cl_addr (with_row q' c1)) with (cl_addr c).
          destruct Haddr as [Ha|Ha]; rewrite Ha.
          -- apply (gh_intro _ _ _ _ _ _ _ Hm0). split; [exact Es|]. exists f1, (row_reset h r'), added.
             split; [reflexivity|]. split; [exact Hfiles|].
             exists f3, moved1. split; [exact Lr3|]. split; [exact HS1|].
             left. split; [exact Eq'|]. split; [exact Em1|]. split; [exact (proj1 Trr)|]. split; [exact (proj2 Trr)|].
             left. split; reflexivity.
          -- unfold ret_row.
             destruct (convert_row h (with_st CSReadRow (with_row q' c1))) as [w|e| |] eqn:EC;
               try (match goal with
                    | |- sim_post _ _ _ _ ?ro (Err ?e, ?c') => exact (sim_post_err pd b0 m0 c0 ro e c')
                    | |- sim_post _ _ _ _ ?ro (Panic, ?c') => exact (sim_post_panic pd b0 m0 c0 ro c')
                    | |- sim_post _ _ _ _ ?ro (OutOfFuel, ?c') => exact (sim_post_fuel pd b0 m0 c0 ro c')
                    end).
             apply (gh_intro _ _ _ _ _ _ _ Hm0). split; [exact Es|]. exists f1, (row_reset h r'), added.
             split; [reflexivity|]. split; [exact Hfiles|].
             exists f3, moved1. split; [exact Lr3|]. split; [exact HS1|].
             left. split; [exact Eq'|]. split; [exact Em1|]. split; [exact (proj1 Trr)|]. split; [exact (proj2 Trr)|].
             right. split; [exists w; reflexivity|]. split; [reflexivity|]. split; [exact Ha|].
             destruct pd; [rewrite (Hpd eq_refl) in Ha; discriminate Ha|reflexivity].
      + exfalso.
        destruct (execute_shape r (cl_row c1) i0 r' XRow q' XNoRow Hns EX EY ltac:(discriminate) ltac:(discriminate) Hee)
          as [Ek _]. discriminate Ek.
    - pose proof (execute_tomb r i0 r' XNoRow Ht Hns EX) as Tr.
      destruct (execute dbg h (cl_row c1) i0) as [[q' y]|e| |] eqn:EY;
        try (match goal with
             | |- sim_post _ _ _ _ ?ro (Err ?e, ?c') => exact (sim_post_err pd b0 m0 c0 ro e c')
             | |- sim_post _ _ _ _ ?ro (Panic, ?c') => exact (sim_post_panic pd b0 m0 c0 ro c')
             | |- sim_post _ _ _ _ ?ro (OutOfFuel, ?c') => exact (sim_post_fuel pd b0 m0 c0 ro c')
             end).
      destruct y as [| |e];
        try (match goal with
             | |- sim_post _ _ _ _ ?ro (Err ?e, ?c') => exact (sim_post_err pd b0 m0 c0 ro e c')
             end).
      + exfalso.
        destruct (execute_shape r (cl_row c1) i0 r' XNoRow q' XRow Hns EX EY ltac:(discriminate) ltac:(discriminate) Hee)
          as [Ek _]. discriminate Ek.
      + destruct (execute_shape r (cl_row c1) i0 r' XNoRow q' XNoRow Hns EX EY ltac:(discriminate) ltac:(discriminate) Hee)
          as [_ Eend].
        apply (IHG f2 f3 r' rest _ _ c0 pd b0 m0 Es Hm0); try reflexivity; try assumption.
        destruct moved1; [exact HS1|]. specialize (HM1 eq_refl). subst i0. cbn [execute] in EX. discriminate EX. }
  destruct i; try (apply (DG _ true Hscan); [discriminate|intros a0; discriminate]).
  - (* IEndSequence *) apply (DG _ false Hscan); [reflexivity|intros a0; discriminate].
  - (* ISetAddress: a second set_address of the sequence is F10 *) discriminate Hscan.
  - (* IDefineFile *)
    cbn [plain_scan] in Hscan. cbn [execute].
    destruct (convert_file sx (p_enc (cl_prog c1)) (cl_dirs c1) (cl_ls c1) f) as [[[[name d] info] ls']|e| |];
      try (match goal with
           | |- sim_post _ _ _ _ ?ro (Err ?e, ?c') => exact (sim_post_err pd b0 m0 c0 ro e c')
           | |- sim_post _ _ _ _ ?ro (Panic, ?c') => exact (sim_post_panic pd b0 m0 c0 ro c')
           | |- sim_post _ _ _ _ ?ro (OutOfFuel, ?c') => exact (sim_post_fuel pd b0 m0 c0 ro c')
           end).
    destruct (LineWr.add_file (cl_prog c1) name d info) as [[p' id]|e| |];
      try (match goal with
           | |- sim_post _ _ _ _ ?ro (Err ?e, ?c') => exact (sim_post_err pd b0 m0 c0 ro e c')
           | |- sim_post _ _ _ _ ?ro (Panic, ?c') => exact (sim_post_panic pd b0 m0 c0 ro c')
           | |- sim_post _ _ _ _ ?ro (OutOfFuel, ?c') => exact (sim_post_fuel pd b0 m0 c0 ro c')
           end).
    apply (IHG f2 f3 r rest _ (with_file p' ls' id c1) c0 pd b0 m0 Es Hm0); try reflexivity; try assumption.
    destruct Hfiles as [extra Hx]. exists (extra ++ [id]). cbn. rewrite Hx, app_assoc. reflexivity.
Qed.

Lemma sim_loop : forall f1, live_stmt f1.
Proof. intros f1. exact (proj1 (sim_both f1)). Qed.

(* ------------------------------------------------------------------ what the events denote *)

(* a reader row against a converted row: address = base + offset, file through the FileId table, rest verbatim *)
Definition row_match (files : list N) (base : N) (r : row) (w : wrow) : Prop :=
  r_addr r = base + w_address_offset w /\ r_opi r = w_op_index w /\
  nth_error files (N.to_nat (r_file r)) = Some (w_file w) /\
  r_line r = w_line w /\ r_col r = w_column w /\ r_disc r = w_discriminator w /\
  r_stmt r = w_is_statement w /\ r_bb r = w_basic_block w /\ r_pe r = w_prologue_end w /\
  r_eb r = w_epilogue_begin w /\ r_isa r = w_isa w.

(* the event list against the reader's rows; `base` = the last SetAddress event of the sequence (0 if none),
   `hasrow` = a row of the current sequence has been seen (an empty sequence keeps only its end_sequence) *)
Fixpoint ev_match (files : list N) (base : N) (hasrow : bool) (evs : list clrow) (rs : list row) : Prop :=
  match evs with
  | [] => rs = []
  | CRSetAddress a :: evs' => ev_match files a hasrow evs' rs
  | CRRow w :: evs' =>
      match rs with
      | r :: rs' => r_end r = false /\ row_match files base r w /\ ev_match files base true evs' rs'
      | [] => False
      end
  | CREndSequence off :: evs' =>
      match rs with
      | r :: rs' => r_end r = true /\ (hasrow = true -> r_addr r = base + off) /\ ev_match files 0 false evs' rs'
      | [] => False
      end
  end.

Lemma row_match_app files extra base r w : row_match files base r w -> row_match (files ++ extra) base r w.
Proof.
  unfold row_match. intros (A & B & C & D). repeat split; try tauto.
  rewrite nth_error_app1; [exact C|]. apply nth_error_Some. rewrite C. discriminate.
Qed.

Lemma ev_match_app files extra : forall evs base hasrow rs,
  ev_match files base hasrow evs rs -> ev_match (files ++ extra) base hasrow evs rs.
Proof.
  induction evs as [|ev evs IH]; intros base hasrow rs H; [exact H|].
  destruct ev as [a|w|off]; cbn [ev_match] in *.
  - apply IH. exact H.
  - destruct rs as [|r rs]; [exact H|]. destruct H as (A & B & C).
    split; [exact A|]. split; [apply row_match_app; exact B|apply IH; exact C].
  - destruct rs as [|r rs]; [exact H|]. destruct H as (A & B & C).
    split; [exact A|]. split; [exact B|apply IH; exact C].
Qed.

Lemma convert_row_match c r base w :
  LIVE h r (cl_row c) base -> convert_row h c = Ok w -> row_match (cl_files c) base r w.
Proof.
  intros (Ht & Eq & Hb & Hm) EC. pose proof (convert_row_exact h c) as X. rewrite EC in X.
  destruct X as ((A & B & C & D & E & F & G & H1 & I1 & J) & Fi & _ & _).
  rewrite Eq in *. unfold row_match. cbn in *. repeat split; try congruence. lia.
Qed.

Lemma live_reset r q base : LIVE h r q base -> r_end r = false -> LIVE h (row_reset h r) (row_reset h q) base.
Proof.
  intros (Ht & Eq & Hb & Hm) Ee. subst q. rewrite (rebase_reset h base r Ee).
  unfold LIVE, row_reset. rewrite Ee. cbn. repeat split; assumption.
Qed.

Lemma live_new : LIVE h (row_new h) (row_new h) 0.
Proof. unfold LIVE. repeat split; try reflexivity; cbn; try lia; apply N.le_0_l. Qed.

(* the states between two calls *)
Definition INV (st : lr_state) (c : cl) (base : N) (hasrow moved : bool) (f3 : nat) : Prop :=
  cl_inp c = st_inp st /\ cl_st c = CSReadRow /\
  LIVE h (row_reset h (st_row st)) (row_reset h (cl_row c)) base /\
  (length (st_inp st) < f3)%nat /\ PS f3 (st_inp st) moved /\
  (moved = false -> r_addr (row_reset h (st_row st)) = 0 /\ base = 0) /\
  (hasrow = true -> moved = true) /\ (st_inseq st = true -> moved = true).

Lemma convert_row_st s c : convert_row h (with_st s c) = convert_row h c.
Proof. reflexivity. Qed.

Lemma events_loop_S f c :
  events_loop (S f) dbg be sx h c =
  match read_row dbg be sx h c with
  | (Ok None, c') => ([], SEnd, c')
  | (Ok (Some ev), c') => let '(evs, s, cf) := events_loop f dbg be sx h c' in (ev :: evs, s, cf)
  | (Err e, c') => ([], SErr e, c')
  | (Panic, c') => ([], SPanic, c')
  | (OutOfFuel, c') => ([], SFuel, c')
  end.
Proof. reflexivity. Qed.

Lemma sim_rows : strict = true -> forall f1 st c base hasrow moved f3 f2 rs stf evs cf,
  INV st c base hasrow moved f3 ->
  rows_loop f1 dbg be false h st = (rs, SEnd, stf) ->
  events_loop f2 dbg be sx h c = (evs, SEnd, cf) ->
  (2 * f1 <= f2)%nat ->
  ev_match (cl_files cf) base hasrow evs rs /\ exists extra, cl_files cf = cl_files c ++ extra.
Proof.
  intros Hstrict.
  induction f1 as [|f1 IH]; intros st c base hasrow moved f3 f2 rs stf evs cf
    (I1 & I2 & I3 & I4 & I5 & I6 & I7 & I8) Hr He Hf; [discriminate Hr|].
  destruct f2 as [|[|f2]]; try lia.
  cbn [rows_loop] in Hr. unfold next_row in Hr.
  rewrite events_loop_S in He. unfold read_row in He. rewrite I2 in He.
  set (c0 := with_row (row_reset h (cl_row c)) (with_addr None c)) in *.
  pose proof (sim_loop (S (length (st_inp st))) (S (length (cl_inp c0))) f3 (row_reset h (st_row st)) (st_inp st)
                (st_added st) (st_inseq st) c0 moved base base moved c0) as P.
  assert (E0 : cl_inp c0 = st_inp st) by exact I1.
  specialize (P E0 I2 ltac:(rewrite E0; lia) I4 I5 I3 (or_intror (conj eq_refl eq_refl))).
  specialize (P ltac:(intros M; destruct (I6 M); repeat split; auto) ltac:(auto)
                ltac:(exists []; rewrite app_nil_r; reflexivity) I8).
  destruct (next_row_loop (S (length (st_inp st))) dbg be false h (row_reset h (st_row st)) (st_inp st)
              (st_added st) (st_inseq st)) as [ro st'].
  destruct (read_loop (S (length (cl_inp c0))) dbg be sx h c0 false) as [co c'].
  destruct ro; try discriminate Hr.
  - (* NRow *)
    destruct (rows_loop f1 dbg be false h st') as [[rs0 s0] stf0] eqn:ER. inversion Hr; subst rs s0 stf0. clear Hr.
    destruct co as [[ev|]|e| |]; try discriminate He; [|contradiction].
    destruct P as [(_ & Gs & _)|P]; [congruence|].
    destruct P as (_ & base' & P1 & P1i & P2 & (ex1 & P3) & (f3' & moved' & P4 & P5 & P6) & P7).
    destruct (r_end (st_row st')) eqn:Ee.
    + (* end of sequence *)
      destruct P7 as (-> & Pst & Pb).
      destruct (events_loop (S f2) dbg be sx h c') as [[evs0 s1] cf0] eqn:EE. injection He as <- -> ->.
      destruct P2 as (Tt & Eq & Hb & Hm).
      assert (Eq' : r_end (cl_row c') = true) by (rewrite Eq; exact Ee).
      destruct (IH st' c' 0 false moved' f3' (S f2) rs0 stf evs0 cf) as [M1 (ex2 & M2)]; try assumption; try lia.
      { unfold INV. split; [exact P1|]. split; [exact Pst|].
        split; [unfold row_reset; rewrite Ee, Eq'; exact live_new|].
        split; [exact P4|]. split; [exact P5|].
        split; [intros _; unfold row_reset; rewrite Ee; split; reflexivity|].
        split; [intros M; discriminate M|rewrite P1i; intros M; discriminate M]. }
      split.
      * cbn [ev_match]. split; [exact Ee|]. split; [|exact M1].
        intros Hh1. specialize (I7 Hh1). destruct Pb as [->|Pb]; [lia|congruence].
      * exists (ex1 ++ ex2). rewrite M2, P3, app_assoc. reflexivity.
    + destruct P7 as [(-> & Pst & Pm)|(-> & Pst & w & -> & EC)].
      * (* the pending address first, then the row *)
        rewrite events_loop_S in He. unfold read_row in He. rewrite Pst in He. unfold ret_row in He.
        rewrite convert_row_st in He.
        destruct (convert_row h c') as [w|e| |] eqn:EC; cbv beta iota zeta in He; try discriminate He.
        destruct (events_loop f2 dbg be sx h (with_st CSReadRow c')) as [[evs0 s1] cf0] eqn:EE.
        injection He as <- -> ->.
        destruct (IH st' (with_st CSReadRow c') base' true moved' f3' f2 rs0 stf evs0 cf) as [M1 (ex2 & M2)];
          try assumption; try lia.
        { unfold INV. split; [exact P1|]. split; [reflexivity|].
          split; [apply live_reset; assumption|]. split; [exact P4|]. split; [exact P5|].
          split; [intros M; discriminate (P6 M)|].
          split; intros _; (destruct moved'; [reflexivity|discriminate (P6 eq_refl)]). }
        split.
        -- cbn [ev_match]. split; [exact Ee|]. split; [|exact M1].
           cbn [cl_files with_st] in M2. rewrite M2. apply row_match_app. apply convert_row_match; assumption.
        -- exists (ex1 ++ ex2). cbn [cl_files with_st] in M2. rewrite M2, P3, app_assoc. reflexivity.
      * (* a row at the current base *)
        destruct (events_loop (S f2) dbg be sx h c') as [[evs0 s1] cf0] eqn:EE. injection He as <- -> ->.
        destruct (IH st' c' base true moved' f3' (S f2) rs0 stf evs0 cf) as [M1 (ex2 & M2)]; try assumption; try lia.
        { unfold INV. split; [exact P1|]. split; [exact Pst|].
          split; [apply live_reset; assumption|]. split; [exact P4|]. split; [exact P5|].
          split; [intros M; discriminate (P6 M)|].
          split; intros _; (destruct moved'; [reflexivity|discriminate (P6 eq_refl)]). }
        split.
        -- cbn [ev_match]. split; [exact Ee|]. split; [|exact M1].
           rewrite M2. apply row_match_app. apply convert_row_match; assumption.
        -- exists (ex1 ++ ex2). rewrite M2, P3, app_assoc. reflexivity.
  - (* NNone *)
    inversion Hr; subst. destruct co as [[ev|]|e| |]; try discriminate He; [destruct P as (_ & Gs & _); congruence|].
    inversion He; subst. split; [reflexivity|]. exact P.
Qed.

(* ------------------------------------------------------------------ all programs outside F10: ghost sequences *)

(* ev_match extended by ghost sequences: a sequence headed by the event SetAddress(mt) (mt = the -2 value) and,
   for an empty one, a lone EndSequence, correspond to NO reader row *)
Fixpoint ev_match2 (files : list N) (mt base : N) (hasrow ghost : bool) (evs : list clrow) (rs : list row) : Prop :=
  match evs with
  | [] => rs = []
  | CRSetAddress a :: evs' =>
      ev_match2 files mt a hasrow false evs' rs \/ (a = mt /\ ev_match2 files mt a hasrow true evs' rs)
  | CRRow w :: evs' =>
      if ghost then ev_match2 files mt base hasrow true evs' rs
      else match rs with
           | r :: rs' => r_end r = false /\ row_match files base r w /\ ev_match2 files mt base true false evs' rs'
           | [] => False
           end
  | CREndSequence off :: evs' =>
      if ghost then ev_match2 files mt 0 false false evs' rs
      else (match rs with
            | r :: rs' => r_end r = true /\ (hasrow = true -> r_addr r = base + off) /\
                          ev_match2 files mt 0 false false evs' rs'
            | [] => False
            end) \/ (hasrow = false /\ ev_match2 files mt 0 false false evs' rs)
  end.

Lemma ev_match2_app files extra mt : forall evs base hasrow ghost rs,
  ev_match2 files mt base hasrow ghost evs rs -> ev_match2 (files ++ extra) mt base hasrow ghost evs rs.
Proof.
  induction evs as [|ev evs IH]; intros base hasrow ghost rs H; [exact H|].
  destruct ev as [a|w|off]; cbn [ev_match2] in *.
  - destruct H as [B|[A B]]; [left; apply IH; exact B|right; split; [exact A|apply IH; exact B]].
  - destruct ghost; [apply IH; exact H|].
    destruct rs as [|r rs]; [exact H|]. destruct H as (A & B & C).
    split; [exact A|]. split; [apply row_match_app; exact B|apply IH; exact C].
  - destruct ghost; [apply IH; exact H|].
    destruct H as [H|[A B]]; [left|right; split; [exact A|apply IH; exact B]].
    destruct rs as [|r rs]; [exact H|]. destruct H as (A & B & C).
    split; [exact A|]. split; [exact B|apply IH; exact C].
Qed.

Definition rows_after (fr : nat) (ro : nr_out * lr_state) : list row * status * lr_state :=
  match ro with
  | (NRow, st') => let '(rs, s, stf) := rows_loop fr dbg be false h st' in (st_row st' :: rs, s, stf)
  | (NNone, st') => ([], SEnd, st')
  | (NErr e, st') => ([], SErr e, st')
  | (NPanic, st') => ([], SPanic, st')
  | (NFuel, st') => ([], SFuel, st')
  end.
Lemma rows_loop_S fr st : rows_loop (S fr) dbg be false h st = rows_after fr (next_row dbg be false h st).
Proof. cbn [rows_loop]. destruct (next_row dbg be false h st) as [[| | | |] st']; reflexivity. Qed.

(* reader in the middle of a next_row loop at (r, inp); converter between two read_row calls *)
Definition SYNCK (r : row) (inp : list byte) (inseq : bool) (c : cl) (base : N) (hasrow moved : bool) (f3 : nat) : Prop :=
  cl_inp c = inp /\ cl_st c = CSReadRow /\ LIVE h r (row_reset h (cl_row c)) base /\
  (length inp < f3)%nat /\ PS f3 inp moved /\ (moved = false -> r_addr r = 0 /\ base = 0) /\
  (hasrow = true -> moved = true) /\ (inseq = true -> moved = true).
Definition GHOSTK (r : row) (inp : list byte) (inseq : bool) (c : cl) (f3 : nat) : Prop :=
  strict = false /\ cl_inp c = inp /\ inseq = false /\ r_tomb r = true /\ r_end r = false /\
  r_end (cl_row c) = false /\ (length inp < f3)%nat /\ PS f3 inp true /\
  (cl_st c = CSConvertRow \/ cl_st c = CSReadRow).

Lemma sim_rows2 : forall n f2, (f2 <= n)%nat ->
  forall f1 r inp added inseq fr c rs stf evs cf base hasrow ghost f3,
  (ghost = false /\ exists moved, SYNCK r inp inseq c base hasrow moved f3) \/
  (ghost = true /\ GHOSTK r inp inseq c f3) ->
  rows_after fr (next_row_loop f1 dbg be false h r inp added inseq) = (rs, SEnd, stf) ->
  events_loop f2 dbg be sx h c = (evs, SEnd, cf) ->
  ev_match2 (cl_files cf) (mtomb h) base hasrow ghost evs rs /\ exists extra, cl_files cf = cl_files c ++ extra.
Proof.
  induction n as [|n IHn]; intros f2 Hle f1 r inp added inseq fr c rs stf evs cf base hasrow ghost f3 Hcfg Hr He;
    (destruct f2 as [|f2]; [discriminate He|]); [lia|].
  assert (Hle2 : (f2 <= n)%nat) by lia.
  rewrite events_loop_S in He.
  destruct Hcfg as [(-> & moved & I1 & I2 & I3 & I4 & I5 & I6 & I7 & I8)|(-> & Es & G1 & G2 & G3 & G4 & G5 & G6 & G7 & G8)].
  - (* ---- reader and converter in step *)
    unfold read_row in He. rewrite I2 in He.
    set (c0 := with_row (row_reset h (cl_row c)) (with_addr None c)) in *.
    pose proof (sim_loop f1 (S (length (cl_inp c0))) f3 r inp added inseq c0 moved base base moved c0) as P.
    assert (E0 : cl_inp c0 = inp) by exact I1.
    specialize (P E0 I2 ltac:(rewrite E0; lia) I4 I5 I3 (or_intror (conj eq_refl eq_refl))).
    specialize (P ltac:(intros M; destruct (I6 M); repeat split; auto) ltac:(auto)
                  ltac:(exists []; rewrite app_nil_r; reflexivity) I8).
    destruct (next_row_loop f1 dbg be false h r inp added inseq) as [ro st'] eqn:ERO.
    destruct (read_loop (S (length (cl_inp c0))) dbg be sx h c0 false) as [co c'].
    destruct co as [[ev|]|e| |]; try discriminate He.
    + (* an event *)
      destruct (events_loop f2 dbg be sx h c') as [[evs0 s1] cf0] eqn:EE.
      assert (GHcase : moved = false /\ GH true c0 (ro, st') ev c' ->
                (ev :: evs0, s1, cf0) = (evs, SEnd, cf) ->
                ev_match2 (cl_files cf) (mtomb h) base hasrow false evs rs /\
                exists extra, cl_files cf = cl_files c ++ extra).
      { intros (Em & Es0 & f1' & r'' & added'' & Ero & (ex1 & Fx) & f3' & moved' & L3 & PS3 & Hk) He2.
        injection He2 as <- -> ->. rewrite Ero in Hr.
        assert (Hh0 : hasrow = false) by (destruct hasrow; [specialize (I7 eq_refl); congruence|reflexivity]).
        destruct Hk as [(Eq' & -> & Tr & Er & [(-> & Est)|((w & ->) & _ & _ & Hp)])|(Eq' & -> & Est & off & ->)];
          [|discriminate Hp|].
        - (* SetAddress(-2): a ghost sequence begins *)
          destruct (IHn f2 Hle2 f1' r'' (cl_inp c') added'' false fr c' rs stf evs0 cf (mtomb h) hasrow true f3')
            as [M1 (ex2 & M2)]; [right; split; [reflexivity|]; unfold GHOSTK; repeat split; auto|exact Hr|exact EE|].
          split; [cbn [ev_match2]; right; split; [reflexivity|exact M1]|].
          exists (ex1 ++ ex2). rewrite M2, Fx, app_assoc. reflexivity.
        - (* an empty ghost sequence: its pending address is swallowed *)
          destruct (IHn f2 Hle2 f1' (row_new h) (cl_inp c') added'' false fr c' rs stf evs0 cf 0 false false f3')
            as [M1 (ex2 & M2)]; [|exact Hr|exact EE|].
          { left. split; [reflexivity|]. exists moved'. unfold SYNCK.
            split; [reflexivity|]. split; [exact Est|].
            split; [unfold row_reset; rewrite Eq'; exact live_new0|].
            split; [exact L3|]. split; [exact PS3|].
            split; [intros _; split; reflexivity|]. split; intros M; discriminate M. }
          split; [cbn [ev_match2]; right; split; [exact Hh0|exact M1]|].
          exists (ex1 ++ ex2). rewrite M2, Fx, app_assoc. reflexivity. }
      destruct ro as [| |e| |]; try discriminate Hr; [|exact (GHcase P He)].
      destruct P as [G|P]; [exact (GHcase G He)|]. clear GHcase.
      injection He as <- -> ->.
      cbn [rows_after] in Hr.
      destruct fr as [|fr]; [discriminate Hr|]. rewrite rows_loop_S in Hr. unfold next_row in Hr.
      destruct (rows_after fr (next_row_loop (S (length (st_inp st'))) dbg be false h (row_reset h (st_row st'))
                  (st_inp st') (st_added st') (st_inseq st'))) as [[rs0 s0] stf0] eqn:ER.
      injection Hr as <- -> ->.
      destruct P as (_ & base' & P1 & P1i & P2 & (ex1 & P3) & (f3' & moved' & P4 & P5 & P6) & P7).
      destruct (r_end (st_row st')) eqn:Ee.
      * (* end of sequence *)
        destruct P7 as (-> & Pst & Pb).
        destruct P2 as (Tt & Eq & Hb & Hm).
        assert (Eq' : r_end (cl_row c') = true) by (rewrite Eq; exact Ee).
        destruct (IHn f2 Hle2 (S (length (st_inp st'))) (row_reset h (st_row st')) (st_inp st') (st_added st')
                    (st_inseq st') fr c' rs0 stf evs0 cf 0 false false f3') as [M1 (ex2 & M2)];
          [|exact ER|exact EE|].
        { left. split; [reflexivity|]. exists moved'. unfold SYNCK. split; [exact P1|]. split; [exact Pst|].
          split; [unfold row_reset; rewrite Ee, Eq'; exact live_new0|].
          split; [exact P4|]. split; [exact P5|].
          split; [intros _; unfold row_reset; rewrite Ee; split; reflexivity|].
          split; [intros M; discriminate M|rewrite P1i; intros M; discriminate M]. }
        split.
        -- cbn [ev_match2]. left. split; [exact Ee|]. split; [|exact M1].
           intros Hh1. specialize (I7 Hh1). destruct Pb as [->|Pb]; [lia|congruence].
        -- exists (ex1 ++ ex2). rewrite M2, P3, app_assoc. reflexivity.
      * destruct P7 as [(-> & Pst & Pm)|(-> & Pst & w & -> & EC)].
        -- (* the pending address first, then the row *)
           destruct f2 as [|f2']; [discriminate EE|].
           rewrite events_loop_S in EE. unfold read_row in EE. rewrite Pst in EE. unfold ret_row in EE.
           rewrite convert_row_st in EE.
           destruct (convert_row h c') as [w|e| |] eqn:EC; cbv beta iota zeta in EE; try discriminate EE.
           destruct (events_loop f2' dbg be sx h (with_st CSReadRow c')) as [[evs1 s2] cf1] eqn:EE1.
           injection EE as <- -> ->.
           destruct (IHn f2' ltac:(lia) (S (length (st_inp st'))) (row_reset h (st_row st')) (st_inp st') (st_added st')
                       (st_inseq st') fr (with_st CSReadRow c') rs0 stf evs1 cf base' true false f3')
             as [M1 (ex2 & M2)]; [|exact ER|exact EE1|].
           { left. split; [reflexivity|]. exists moved'. unfold SYNCK. split; [exact P1|]. split; [reflexivity|].
             split; [apply live_reset; assumption|]. split; [exact P4|]. split; [exact P5|].
             split; [intros M; discriminate (P6 M)|].
             split; intros _; (destruct moved'; [reflexivity|discriminate (P6 eq_refl)]). }
           split.
           ++ cbn [ev_match2]. left. split; [exact Ee|]. split; [|exact M1].
              cbn [cl_files with_st] in M2. rewrite M2. apply row_match_app. apply convert_row_match; assumption.
           ++ exists (ex1 ++ ex2). cbn [cl_files with_st] in M2. rewrite M2, P3, app_assoc. reflexivity.
        -- (* a row at the current base *)
           destruct (IHn f2 Hle2 (S (length (st_inp st'))) (row_reset h (st_row st')) (st_inp st') (st_added st')
                       (st_inseq st') fr c' rs0 stf evs0 cf base true false f3') as [M1 (ex2 & M2)];
             [|exact ER|exact EE|].
           { left. split; [reflexivity|]. exists moved'. unfold SYNCK. split; [exact P1|]. split; [exact Pst|].
             split; [apply live_reset; assumption|]. split; [exact P4|]. split; [exact P5|].
             split; [intros M; discriminate (P6 M)|].
             split; intros _; (destruct moved'; [reflexivity|discriminate (P6 eq_refl)]). }
           split.
           ++ cbn [ev_match2]. split; [exact Ee|]. split; [|exact M1].
              rewrite M2. apply row_match_app. apply convert_row_match; assumption.
           ++ exists (ex1 ++ ex2). rewrite M2, P3, app_assoc. reflexivity.
    + (* the converter is at the end of its input *)
      injection He as <- <-.
      destruct ro as [| |e| |]; try discriminate Hr; [contradiction|].
      cbn [rows_after] in Hr. injection Hr as <- _. split; [reflexivity|exact P].
  - (* ---- inside a ghost sequence *)
    unfold read_row in He.
    destruct G8 as [Gst|Gst]; rewrite Gst in He.
    + (* the row after SetAddress(-2) *)
      unfold ret_row in He. rewrite convert_row_st in He.
      destruct (convert_row h c) as [w|e| |]; cbv beta iota zeta in He; try discriminate He.
      destruct (events_loop f2 dbg be sx h (with_st CSReadRow c)) as [[evs0 s1] cf0] eqn:EE.
      injection He as <- -> ->.
      destruct (IHn f2 Hle2 f1 r inp added inseq fr (with_st CSReadRow c) rs stf evs0 cf base hasrow true f3)
        as [M1 (ex2 & M2)]; [|exact Hr|exact EE|].
      { right. split; [reflexivity|]. unfold GHOSTK. repeat split; auto. }
      split; [cbn [ev_match2]; exact M1|]. exists ex2. exact M2.
    + set (c0 := with_row (row_reset h (cl_row c)) (with_addr None c)) in *.
      subst inseq.
      pose proof (proj2 (proj2 (sim_both f1)) (S (length (cl_inp c0))) f3 r inp added c0 c0 false 0 false Es eq_refl) as P.
      assert (E0 : cl_inp c0 = inp) by exact G1.
      specialize (P ltac:(intros M; discriminate M) E0 Gst ltac:(rewrite E0; lia) G6 G7 G3).
      specialize (P ltac:(cbn; unfold row_reset; rewrite G5; cbn; exact G4) (or_intror eq_refl)
                    ltac:(exists []; rewrite app_nil_r; reflexivity)).
      destruct (next_row_loop f1 dbg be false h r inp added false) as [ro st'] eqn:ERO.
      destruct (read_loop (S (length (cl_inp c0))) dbg be sx h c0 false) as [co c'].
      destruct co as [[ev|]|e| |]; try discriminate He.
      * destruct (events_loop f2 dbg be sx h c') as [[evs0 s1] cf0] eqn:EE. injection He as <- -> ->.
        assert (G : GH false c0 (ro, st') ev c').
        { destruct ro as [| |e| |]; try discriminate Hr; [destruct P as [[_ G]|P]; [exact G|]|exact (proj2 P)].
          destruct P as (Pp & _). discriminate Pp. }
        destruct G as (_ & f1' & r'' & added'' & Ero & (ex1 & Fx) & f3' & moved' & L3 & PS3 & Hk).
        rewrite Ero in Hr.
        destruct Hk as [(Eq' & -> & Tr & Er & [(-> & Est)|((w & ->) & Est & _ & _)])|(Eq' & -> & Est & off & ->)].
        -- (* cannot happen after a reset (address None), but harmless: a ghost SetAddress *)
           destruct (IHn f2 Hle2 f1' r'' (cl_inp c') added'' false fr c' rs stf evs0 cf (mtomb h) hasrow true f3')
             as [M1 (ex2 & M2)]; [right; split; [reflexivity|]; unfold GHOSTK; repeat split; auto|exact Hr|exact EE|].
           split; [cbn [ev_match2]; right; split; [reflexivity|exact M1]|].
           exists (ex1 ++ ex2). rewrite M2, Fx, app_assoc. reflexivity.
        -- (* a ghost row *)
           destruct (IHn f2 Hle2 f1' r'' (cl_inp c') added'' false fr c' rs stf evs0 cf base hasrow true f3')
             as [M1 (ex2 & M2)]; [right; split; [reflexivity|]; unfold GHOSTK; repeat split; auto|exact Hr|exact EE|].
           split; [cbn [ev_match2]; exact M1|].
           exists (ex1 ++ ex2). rewrite M2, Fx, app_assoc. reflexivity.
        -- (* the ghost sequence ends *)
           destruct (IHn f2 Hle2 f1' (row_new h) (cl_inp c') added'' false fr c' rs stf evs0 cf 0 false false f3')
             as [M1 (ex2 & M2)]; [|exact Hr|exact EE|].
           { left. split; [reflexivity|]. exists moved'. unfold SYNCK.
             split; [reflexivity|]. split; [exact Est|].
             split; [unfold row_reset; rewrite Eq'; exact live_new0|].
             split; [exact L3|]. split; [exact PS3|].
             split; [intros _; split; reflexivity|]. split; intros M; discriminate M. }
           split; [cbn [ev_match2]; exact M1|].
           exists (ex1 ++ ex2). rewrite M2, Fx, app_assoc. reflexivity.
      * injection He as <- <-.
        destruct ro as [| |e| |]; try discriminate Hr; [contradiction|].
        cbn [rows_after] in Hr. injection Hr as <- _. split; [reflexivity|exact P].
Qed.

End Sim.

(* ------------------------------------------------------------------ the whole program *)

Lemma cl_new_shape dbg sx s ls c : cl_new dbg sx s ls = Ok c ->
  cl_inp c = h_program (sh_h s) /\ cl_row c = row_new (sh_h s) /\ cl_st c = CSReadRow.
Proof.
  unfold cl_new. intros H.
  repeat match type of H with
  | bind ?x _ = Ok _ =>
      let v := fresh "v" in let E := fresh "E" in
      destruct x as [v|?| |] eqn:E; cbn [bind] in H; try discriminate H;
      repeat match goal with v : (_ * _)%type |- _ => destruct v end
  | (if ?c then _ else _) = Ok _ => let E := fresh "E" in destruct c eqn:E; try discriminate H
  end.
  inversion H; subst. cbn. repeat split.
Qed.

(* line_convert_sound at the script level: for every header LineProgramHeader::parse can produce and every program
   (any bytes) outside the F10 class whose set_address operands are below the tombstone values: if the reader's
   rows() and the converter's read_row iteration both run to the end, the events denote exactly the reader's rows. *)
Lemma convert_events_sound dbg be sx s ls c0 rs evs cf :
  hdr_ok (sh_h s) ->
  known_midseq dbg be (sh_h s) = false ->
  addrs_below (mtomb (sh_h s)) (fst (insns_model dbg be (sh_h s))) = true ->
  cl_new dbg sx s ls = Ok c0 ->
  rows_model dbg be (sh_h s) = (rs, SEnd) ->
  events dbg be sx (sh_h s) c0 = (evs, SEnd, cf) ->
  ev_match (cl_files cf) 0 false evs rs.
Proof.
  intros Hh Hk Ha Hn Hr He. set (h := sh_h s) in *.
  destruct (cl_new_shape dbg sx s ls c0 Hn) as (Ei & Er & Est). fold h in Ei, Er.
  unfold rows_model, rows_full in Hr.
  destruct (rows_loop (S (length (h_program h))) dbg be false h (st_init h (h_program h))) as [[rs1 s1] stf] eqn:ER.
  inversion Hr; subst rs1 s1. unfold events in He.
  refine (proj1 (sim_rows dbg be sx h Hh true eq_refl (S (length (h_program h))) (st_init h (h_program h)) c0 0 false false
                   (S (length (h_program h))) (seq_fuel c0) rs stf evs cf _ ER He _)).
  - unfold INV. cbn [st_init st_inp st_row]. rewrite Er.
    split; [exact Ei|]. split; [exact Est|].
    split; [exact (live_new h)|]. split; [lia|].
    split.
    + unfold PS. rewrite plain_scan_iff. unfold known_midseq, insns_model in Hk, Ha. rewrite Hk, Ha. reflexivity.
    + split; [intros _; split; reflexivity|split; intros M; discriminate M].
  - unfold seq_fuel. rewrite Ei. lia.
Qed.


(* line_convert_sound at the script level for EVERY program outside the F10 class (no condition on the operands):
   the events are the reader's rows plus ghost sequences (ev_match2) *)
Lemma convert_events_sound_all dbg be sx s ls c0 rs evs cf :
  hdr_ok (sh_h s) ->
  known_midseq dbg be (sh_h s) = false ->
  cl_new dbg sx s ls = Ok c0 ->
  rows_model dbg be (sh_h s) = (rs, SEnd) ->
  events dbg be sx (sh_h s) c0 = (evs, SEnd, cf) ->
  ev_match2 (cl_files cf) (mtomb (sh_h s)) 0 false false evs rs.
Proof.
  intros Hh Hk Hn Hr He. set (h := sh_h s) in *.
  destruct (cl_new_shape dbg sx s ls c0 Hn) as (Ei & Er & Est). fold h in Ei, Er.
  unfold rows_model, rows_full in Hr.
  destruct (rows_loop (S (length (h_program h))) dbg be false h (st_init h (h_program h))) as [[rs1 s1] stf] eqn:ER.
  inversion Hr; subst rs1 s1. unfold events in He.
  rewrite rows_loop_S in ER. unfold next_row in ER. cbn [st_init st_row st_inp st_added st_inseq] in ER.
  refine (proj1 (sim_rows2 dbg be sx h Hh false (seq_fuel c0) (seq_fuel c0) (le_n _) _ _ _ _ _ _ c0 rs stf evs cf
                   0 false false (S (length (h_program h))) _ ER He)).
  left. split; [reflexivity|]. exists false. unfold SYNCK. rewrite Er.
  split; [exact Ei|]. split; [exact Est|]. split; [exact (live_new h)|]. split; [lia|].
  split.
  - unfold PS. rewrite plain_scan_iff. unfold known_midseq, insns_model in Hk. rewrite Hk. reflexivity.
  - split; [intros _; split; reflexivity|split; intros M; discriminate M].
Qed.

(* a non-trivial instance of the hypotheses: two sequences (the second without any set_address), special opcodes,
   advance_pc, fixed_advance_pc, a file change, big-endian 4-byte addresses *)
Definition wit_plain : header :=
  mk_header false 3 4 0 0 1 1 true (-5)%Z 14 13 wit_std13 [] [VString [x64]] [] [wit_f1; wit_f2]
    [x00;x05;x02;x00;x00;x30;x00; x21; x02;x05; x04;x02; x01; x09;x00;x10; x5b; x00;x01;x01;
     x14; x02;x03; x00;x01;x01].

Definition plain_summary (dbg : bool) : option (status * list N * status * list (N * N)) :=
  match cl_new dbg wit_sx (mk_src wit_plain None None) [] with
  | Ok c0 =>
      Some (snd (rows_model dbg true wit_plain), map r_addr (fst (rows_model dbg true wit_plain)),
            snd (fst (events dbg true wit_sx wit_plain c0)),
            map (fun e => match e with
                          | CRSetAddress a => (0, a) | CRRow w => (1, w_address_offset w) | CREndSequence n => (2, n)
                          end) (fst (fst (events dbg true wit_sx wit_plain c0))))
  | _ => None
  end.

(* reader: rows at 0x3001, 0x3006, 0x301b, end at 0x301b; second sequence (no set_address): row at 0, end at 3.
   converter: SetAddress 0x3000, rows at offsets 1, 6, 27, EndSequence 27; row at 0, EndSequence 3. *)
Lemma plain_witness : forall dbg,
  hdr_ok wit_plain /\
  known_midseq dbg true wit_plain = false /\
  addrs_below (mtomb wit_plain) (fst (insns_model dbg true wit_plain)) = true /\
  plain_summary dbg =
    Some (SEnd, [12289; 12294; 12315; 12315; 0; 3], SEnd,
          [(0, 12288); (1, 1); (1, 6); (1, 27); (2, 27); (1, 0); (2, 3)]).
Proof.
  intros dbg. split; [unfold hdr_ok, asz_ok; cbn; lia|].
  destruct dbg; vm_compute; repeat split; reflexivity.
Qed.

(* ------------------------------------------------------------------ tombstone operands, as witnesses *)
Definition tomb_prog (b0 : byte) : list byte :=
  [x00;x05;x02;xff;xff;xff;b0; x21; x02;x05; x00;x01;x01;          (* set_address -1 / -2; special; advance_pc 5; end *)
   x00;x05;x02;x00;x00;x30;x00; x01; x02;x03; x00;x01;x01].        (* set_address 0x3000; copy; advance_pc 3; end *)
Definition wit_tomb (b0 : byte) : header :=
  mk_header false 3 4 0 0 1 1 true (-5)%Z 14 13 wit_std13 [] [VString [x64]] [] [wit_f1; wit_f2] (tomb_prog b0).
Definition wit_tomb_empty : header :=
  mk_header false 3 4 0 0 1 1 true (-5)%Z 14 13 wit_std13 [] [VString [x64]] [] [wit_f1; wit_f2]
    [x00;x05;x02;xff;xff;xff;xfe; x02;x04; x00;x01;x01].
Definition tomb_summary (dbg : bool) (h : header) : option (status * list N * status * list (N * N)) :=
  match cl_new dbg wit_sx (mk_src h None None) [] with
  | Ok c0 =>
      Some (snd (rows_model dbg true h), map r_addr (fst (rows_model dbg true h)),
            snd (fst (events dbg true wit_sx h c0)),
            map (fun e => match e with
                          | CRSetAddress a => (0, a) | CRRow w => (1, w_address_offset w) | CREndSequence n => (2, n)
                          end) (fst (fst (events dbg true wit_sx h c0))))
  | _ => None
  end.

(* -1 (inside the theorem's class): dropped by the reader AND by the converter.
   -2 (outside): dropped by the reader, KEPT by the converter as a sequence headed by SetAddress(-2) — which the
   reader drops again when the converted program is read back; if that sequence has no row the pending address is
   swallowed and a lone EndSequence(offset) is left. *)
Lemma tombstone_witnesses : forall dbg,
  addrs_below (mtomb (wit_tomb xff)) (fst (insns_model dbg true (wit_tomb xff))) = true /\
  known_midseq dbg true (wit_tomb xff) = false /\
  tomb_summary dbg (wit_tomb xff) =
    Some (SEnd, [12288; 12291], SEnd, [(0, 12288); (1, 0); (2, 3)]) /\
  addrs_below (mtomb (wit_tomb xfe)) (fst (insns_model dbg true (wit_tomb xfe))) = false /\
  tomb_summary dbg (wit_tomb xfe) =
    Some (SEnd, [12288; 12291], SEnd,
          [(0, 4294967294); (1, 1); (2, 6); (0, 12288); (1, 0); (2, 3)]) /\
  tomb_summary dbg wit_tomb_empty = Some (SEnd, [], SEnd, [(2, 4)]).
Proof. intros []; vm_compute; repeat split; reflexivity. Qed.
