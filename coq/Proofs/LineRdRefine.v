(* Proofs/LineRdRefine.v — on well-formed programs the model (hence, through the correspondence,
   gimli) computes exactly the DWARF state machine of Spec/LineSpec.v:
   special-opcode arithmetic, VLIW operation advance, one-instruction simulation. *)
From Coq Require Import List NArith ZArith Bool Lia ZifyBool ZifyN ZifyNat.
From Coq.Strings Require Import Byte.
Require Import GV.Base.Res GV.Base.Byt GV.Base.Ints GV.Model.Leb GV.Model.Prim GV.Spec.LebSpec GV.Spec.LineSpec
               GV.Model.LineRd GV.Proofs.LineRdBase GV.Proofs.LineRdMono.
Import ListNotations.
Local Open Scope N_scope.
Local Arguments N.add : simpl never.
Local Arguments N.sub : simpl never.
Local Arguments N.mul : simpl never.
Local Arguments N.pow : simpl never.
Local Arguments N.modulo : simpl never.
Local Arguments N.div : simpl never.
Local Arguments N.ltb : simpl never.
Local Arguments N.leb : simpl never.
Local Arguments N.eqb : simpl never.
Local Arguments Z.add : simpl never.
Local Arguments Z.sub : simpl never.
Local Arguments Z.mul : simpl never.
Local Arguments Z.pow : simpl never.
Local Arguments Z.modulo : simpl never.
Local Arguments Z.div : simpl never.
Local Arguments Z.ltb : simpl never.
Local Arguments Z.leb : simpl never.
Local Arguments Z.of_N : simpl never.

(* the spec registers a (non-tombstone) model row stands for *)
Definition rep (r : row) : sregs :=
  mk_sregs (Z.of_N (r_addr r)) (Z.of_N (r_opi r)) (Z.of_N (r_file r)) (Z.of_N (r_line r)) (Z.of_N (r_col r))
           (r_stmt r) (r_bb r) (r_end r) (r_pe r) (r_eb r) (Z.of_N (r_isa r)) (Z.of_N (r_disc r)).

Lemma rep_inj r1 r2 : r_tomb r1 = r_tomb r2 -> rep r1 = rep r2 -> r1 = r2.
Proof.
  destruct r1, r2; unfold rep; cbn. intros -> H. inversion H.
  repeat match goal with E : Z.of_N _ = Z.of_N _ |- _ => apply N2Z.inj in E end. subst. reflexivity.
Qed.

(* ---------------------------------------------------------------- header parameters *)
Record pwf (h : header) : Prop := mk_pwf {
  pw_mil : 1 <= h_min_inst_len h < 256; pw_mops : 1 <= h_max_ops h < 256;
  pw_lr : 1 <= h_line_range h < 256; pw_ob : 1 <= h_opcode_base h < 256;
  pw_asz : 1 <= h_addr_size h <= 8;
  pw_lb : (-128 <= h_line_base h < 128)%Z;
  pw_std : N.of_nat (length (h_std_lengths h)) = h_opcode_base h - 1 }.

Lemma params_wf_pwf h : params_wf h = true -> pwf h.
Proof. unfold params_wf. intros H. constructor; lia. Qed.

Lemma pwf_hdr_ok h : pwf h -> hdr_ok h.
Proof. intros [? ? ? ? ? ? ?]. unfold hdr_ok, asz_ok. lia. Qed.

Lemma addr_mask_amask h : pwf h -> addr_mask h = Z.of_N (amask h).
Proof.
  intros [_ _ _ _ Hs _ _]. unfold addr_mask, amask, mask_of.
  assert (C : h_addr_size h = 1 \/ h_addr_size h = 2 \/ h_addr_size h = 3 \/ h_addr_size h = 4 \/
              h_addr_size h = 5 \/ h_addr_size h = 6 \/ h_addr_size h = 7 \/ h_addr_size h = 8) by lia.
  repeat (destruct C as [C|C]; [rewrite C; reflexivity|]). rewrite C; reflexivity.
Qed.

Lemma amask_lt h : pwf h -> amask h < two64.
Proof.
  intros [_ _ _ _ Hs _ _]. unfold amask, mask_of.
  assert (C : h_addr_size h = 1 \/ h_addr_size h = 2 \/ h_addr_size h = 3 \/ h_addr_size h = 4 \/
              h_addr_size h = 5 \/ h_addr_size h = 6 \/ h_addr_size h = 7 \/ h_addr_size h = 8) by lia.
  repeat (destruct C as [C|C]; [rewrite C; reflexivity|]). rewrite C; reflexivity.
Qed.

(* ---------------------------------------------------------------- clause: special-opcode arithmetic *)
(* the model's u8 computations `adjusted % line_range`, `adjusted / line_range` are the spec's
   line increment and operation advance, for every header and every special opcode *)
Lemma special_arith h op :
  1 <= h_line_range h -> h_opcode_base h <= op ->
  let adj := op - h_opcode_base h in
  (h_line_base h + Z.of_N (adj mod h_line_range h))%Z = sp_line_inc h (Z.of_N op) /\
  Z.of_N (adj / h_line_range h) = sp_op_adv h (Z.of_N op).
Proof.
  intros Hlr Hop adj. unfold sp_line_inc, sp_op_adv, adjusted. subst adj.
  rewrite N2Z.inj_mod, N2Z.inj_div, N2Z.inj_sub by exact Hop. split; reflexivity.
Qed.

(* ---------------------------------------------------------------- invariant of well-formed runs *)
Definition inv (h : header) (r : row) : Prop := r_tomb r = false /\ r_opi r < h_max_ops h.

(* apply_operation_advance = §6.2.5.1 (incl. the VLIW formulas) when nothing wraps *)
Lemma aoa_sim dbg h r adv :
  pwf h -> inv h r ->
  (Z.of_N (r_opi r) + Z.of_N adv < two64z)%Z ->
  (s_address (s_advance h (Z.of_N adv) (rep r)) <= addr_mask h)%Z ->
  exists r', apply_operation_advance dbg h r adv = Ok (r', None) /\
             rep r' = s_advance h (Z.of_N adv) (rep r) /\ inv h r' /\ r_end r' = r_end r.
Proof.
  intros P [It Io] Hw Ha. pose proof P as [Pm Po Pl Pb Ps Plb _].
  rewrite (addr_mask_amask h P) in Ha. pose proof (amask_lt h P) as ML.
  unfold apply_operation_advance. rewrite It.
  unfold s_advance, rep in Ha |- *; cbn [s_address s_op_index s_file s_line s_column s_is_stmt s_basic_block
    s_end_sequence s_prologue_end s_epilogue_begin s_isa s_discriminator] in Ha |- *.
  unfold two64z in Hw.
  destruct (h_max_ops h =? 1) eqn:E1.
  - apply N.eqb_eq in E1. rewrite E1 in *. assert (r_opi r = 0) as O by lia. rewrite O in *.
    cbn [bind]. change (Z.of_N 1) with 1%Z in *. rewrite Z.div_1_r in Ha. rewrite Z.div_1_r, Z.mod_1_r.
    change (Z.of_N 0) with 0%Z in *. rewrite Z.add_0_l in *.
    assert (W : wrap64 (h_min_inst_len h * adv) = h_min_inst_len h * adv).
    { apply wrap64_small. unfold two64 in *. lia. }
    rewrite W. unfold add_sized_g. rewrite ones_sized_ok by exact Ps. cbn [bind r_addr set_opi].
    fold (amask h).
    destruct (two64 <=? r_addr r + h_min_inst_len h * adv) eqn:C1; [unfold two64 in *; lia|].
    destruct (amask h <? r_addr r + h_min_inst_len h * adv) eqn:C2; [lia|].
    eexists. split; [reflexivity|]. split; [|split; [split; cbn; [exact It|lia]|reflexivity]].
    cbn. f_equal; lia.
  - destruct (h_max_ops h =? 0) eqn:E0; [lia|]. cbn [bind].
    assert (W : wrap64 (r_opi r + adv) = r_opi r + adv).
    { apply wrap64_small. unfold two64. lia. }
    rewrite W.
    set (t := r_opi r + adv) in *.
    assert (Tz : (Z.of_N (r_opi r) + Z.of_N adv)%Z = Z.of_N t) by (subst t; lia).
    rewrite Tz in *. rewrite <- N2Z.inj_div, <- N2Z.inj_mod in *.
    set (q := t / h_max_ops h) in *. set (m := t mod h_max_ops h) in *.
    assert (Mb : m < h_max_ops h) by (subst m; apply N.mod_lt; lia).
    assert (W2 : wrap64 (h_min_inst_len h * q) = h_min_inst_len h * q).
    { apply wrap64_small. unfold two64 in *. lia. }
    rewrite W2. unfold add_sized_g. rewrite ones_sized_ok by exact Ps. cbn [bind r_addr set_opi].
    fold (amask h).
    destruct (two64 <=? r_addr r + h_min_inst_len h * q) eqn:C1; [unfold two64 in *; lia|].
    destruct (amask h <? r_addr r + h_min_inst_len h * q) eqn:C2; [lia|].
    eexists. split; [reflexivity|]. split; [|split; [split; cbn; [exact It|exact Mb]|reflexivity]].
    cbn. f_equal; lia.
Qed.

Lemma ala_sim r inc :
  (0 <= Z.of_N (r_line r) + inc < two64z)%Z ->
  rep (apply_line_advance r inc) = s_add_line inc (rep r) /\
  r_tomb (apply_line_advance r inc) = r_tomb r /\ r_opi (apply_line_advance r inc) = r_opi r /\
  r_end (apply_line_advance r inc) = r_end r.
Proof.
  intros H. unfold two64z in H. unfold apply_line_advance.
  destruct (inc <? 0)%Z eqn:E.
  - assert (D : Z.of_N (Z.abs_N inc) = (- inc)%Z) by (rewrite N2Z.inj_abs_N; lia).
    destruct (Z.abs_N inc <=? r_line r) eqn:E2; [|lia].
    repeat split. unfold rep, s_add_line; cbn. f_equal. lia.
  - assert (W : wrap64 (r_line r + Z.to_N inc) = r_line r + Z.to_N inc).
    { apply wrap64_small. unfold two64. lia. }
    rewrite W. repeat split. unfold rep, s_add_line; cbn. f_equal. lia.
Qed.

(* ---------------------------------------------------------------- one instruction *)
Definition exec_sim_stmt (dbg : bool) (h : header) (r : row) (i : insn) : Prop :=
  match exec_spec h (rep r) i with
  | (s', Some srow) =>
      exists r1, execute dbg h r i = Ok (r1, XRow) /\ rep r1 = srow /\ r_tomb r1 = false /\
                 rep (row_reset h r1) = s' /\ inv h (row_reset h r1)
  | (s', None) =>
      exists r1, execute dbg h r i = Ok (r1, XNoRow) /\ rep r1 = s' /\ inv h r1 /\ r_end r1 = false
  end.

Lemma step_wf_parts h s i :
  step_wf h s i = true ->
  insn_wf h i = true /\
  (0 <= s_address (fst (exec_spec h s i)) <= addr_mask h)%Z /\
  (0 <= s_line (fst (exec_spec h s i)) < two64z)%Z /\
  match i with
  | IAdvancePc n => (s_op_index s + Z.of_N n < two64z)%Z
  | ISetAddress a => (s_address s <= Z.of_N a)%Z /\ (Z.of_N a < addr_mask h - 1)%Z
  | ISpecial op => (0 <= s_line s + sp_line_inc h (Z.of_N op))%Z
  | _ => True
  end.
Proof.
  unfold step_wf. destruct (exec_spec h s i) as [s' o] eqn:E. cbn [fst].
  intros H.
  apply andb_true_iff in H as [H Hm]. apply andb_true_iff in H as [H H4]. apply andb_true_iff in H as [H H3].
  apply andb_true_iff in H as [H H2]. apply andb_true_iff in H as [H H1].
  split; [exact H|]. split; [lia|]. split; [lia|].
  destruct i; try exact I; lia.
Qed.

Lemma min_tombstone_val dbg h : pwf h -> min_tombstone_g dbg (h_addr_size h) = Ok (amask h - 1).
Proof.
  intros [_ _ _ _ Hs _ _]. unfold min_tombstone_g, amask. rewrite ones_sized_ok by exact Hs. cbn [bind].
  assert (C : h_addr_size h = 1 \/ h_addr_size h = 2 \/ h_addr_size h = 3 \/ h_addr_size h = 4 \/
              h_addr_size h = 5 \/ h_addr_size h = 6 \/ h_addr_size h = 7 \/ h_addr_size h = 8) by lia.
  repeat (destruct C as [C|C]; [rewrite C; reflexivity|]). rewrite C; reflexivity.
Qed.

Lemma row_reset_noend h r : r_end r = false ->
  row_reset h r = mk_row (r_tomb r) (r_addr r) (r_opi r) (r_file r) (r_line r) (r_col r) (r_stmt r)
                         false false false false (r_isa r) 0.
Proof. intros E. unfold row_reset. rewrite E. reflexivity. Qed.

Lemma exec_sim dbg h r i :
  pwf h -> inv h r -> r_end r = false -> step_wf h (rep r) i = true -> exec_sim_stmt dbg h r i.
Proof.
  intros P I En W. pose proof I as [It Io]. pose proof P as [Pm Po Pl Pb Ps Plb _].
  apply step_wf_parts in W as (Wi & Wa & Wl & Wx).
  unfold exec_sim_stmt.
  destruct i; cbn [exec_spec execute] in *;
    try (eexists; split; [reflexivity|]; split; [reflexivity|]; split; [exact I|exact En]).
  - (* ISpecial *)
    cbn [insn_wf] in Wi. apply andb_true_iff in Wi as [Wi1 Wi2].
    unfold adjust_opcode, chk_sub. destruct (h_opcode_base h <=? op) eqn:E; [|lia]. cbn [bind].
    destruct (h_line_range h =? 0) eqn:E0; [lia|].
    destruct (special_arith h op ltac:(lia) ltac:(lia)) as [A1 A2]. cbn zeta in A1, A2.
    rewrite A1.
    destruct (ala_sim r (sp_line_inc h (Z.of_N op))) as (L1 & L2 & L3 & L4).
    { unfold rep in Wx; cbn in Wx. cbn [fst] in Wl.
      unfold s_after_row, s_advance, s_add_line, rep in Wl; cbn in Wl. lia. }
    set (r1 := apply_line_advance r (sp_line_inc h (Z.of_N op))) in *.
    destruct (aoa_sim dbg h r1 ((op - h_opcode_base h) / h_line_range h) P) as (r2 & X1 & X2 & X3 & X4).
    { split; [rewrite L2; exact It|rewrite L3; exact Io]. }
    { rewrite L3. unfold two64z.
      assert ((op - h_opcode_base h) / h_line_range h <= 255) by (apply N.div_le_upper_bound; lia). lia. }
    { rewrite A2, L1. cbn [fst] in Wa. unfold s_after_row in Wa; cbn [s_address] in Wa. exact (proj2 Wa). }
    rewrite X1. cbn [adv_result bind].
    eexists. split; [reflexivity|]. rewrite A2 in X2. rewrite L1 in X2.
    split; [exact X2|]. split; [apply X3|].
    assert (E2 : r_end r2 = false) by (rewrite X4, L4; exact En).
    rewrite (row_reset_noend h r2 E2). split.
    + rewrite <- X2. unfold s_after_row, rep; cbn. rewrite E2. reflexivity.
    + destruct X3 as [T O]. split; cbn; assumption.
  - (* ICopy *)
    eexists. split; [reflexivity|]. split; [reflexivity|]. split; [exact It|].
    rewrite (row_reset_noend h r En). split.
    + unfold s_after_row, rep; cbn. rewrite En. reflexivity.
    + split; cbn; assumption.
  - (* IAdvancePc *)
    destruct (aoa_sim dbg h r n P I) as (r2 & X1 & X2 & X3 & X4).
    { unfold rep in Wx; cbn in Wx. exact Wx. }
    { cbn [fst] in Wa. lia. }
    rewrite X1. cbn [adv_result bind]. eexists. split; [reflexivity|]. split; [exact X2|]. split; [exact X3|congruence].
  - (* IAdvanceLine *)
    destruct (ala_sim r z) as (L1 & L2 & L3 & L4).
    { cbn [fst] in Wl. unfold s_add_line, rep in Wl; cbn in Wl. lia. }
    eexists. split; [reflexivity|]. split; [exact L1|]. split; [split; congruence|congruence].
  - (* IConstAddPc *)
    unfold adjust_opcode, chk_sub. destruct (h_opcode_base h <=? 255) eqn:E; [|lia]. cbn [bind].
    destruct (h_line_range h =? 0) eqn:E0; [lia|].
    destruct (special_arith h 255 ltac:(lia) ltac:(lia)) as [_ A2]. cbn zeta in A2.
    change (Z.of_N 255) with 255%Z in A2.
    destruct (aoa_sim dbg h r ((255 - h_opcode_base h) / h_line_range h) P I) as (r2 & X1 & X2 & X3 & X4).
    { unfold two64z.
      assert ((255 - h_opcode_base h) / h_line_range h <= 255) by (apply N.div_le_upper_bound; lia). lia. }
    { rewrite A2. cbn [fst] in Wa. lia. }
    rewrite X1. cbn [adv_result bind]. eexists. split; [reflexivity|]. rewrite A2 in X2.
    split; [exact X2|]. split; [exact X3|congruence].
  - (* IFixedAddPc *)
    rewrite It. cbn [fst] in Wa. unfold rep in Wa; cbn in Wa.
    rewrite (addr_mask_amask h P) in Wa. pose proof (amask_lt h P) as ML.
    unfold add_sized_g. rewrite ones_sized_ok by exact Ps. cbn [bind]. fold (amask h).
    destruct (two64 <=? r_addr r + n) eqn:C1; [unfold two64 in *; lia|].
    destruct (amask h <? r_addr r + n) eqn:C2; [lia|].
    eexists. split; [reflexivity|]. split; [|split; [split; cbn; [exact It|lia]|exact En]].
    unfold rep; cbn. f_equal; lia.
  - (* IEndSequence *)
    eexists. split; [reflexivity|]. split; [reflexivity|]. split; [exact It|].
    unfold row_reset; cbn. split; [reflexivity|]. split; cbn; [reflexivity|lia].
  - (* ISetAddress *)
    destruct Wx as [Wx1 Wx2]. unfold rep in Wx1; cbn in Wx1.
    rewrite (addr_mask_amask h P) in Wx2.
    destruct (a <? r_addr r) eqn:C1; [lia|]. cbn [bind].
    rewrite (min_tombstone_val dbg h P). cbn [bind].
    destruct (amask h - 1 <=? a) eqn:C2; [lia|].
    eexists. split; [reflexivity|]. split; [|split; [split; cbn; [reflexivity|lia]|exact En]].
    unfold rep; cbn. reflexivity.
Qed.
