(* Proofs/CfiRdIter.v — UnwindSection::fde_for_address is the exhaustive scan over entries()
   (C05 clause: linear lookup), for every byte string. *)
From Coq Require Import List NArith ZArith Bool Lia ZifyBool ZifyN ZifyNat.
From Coq.Strings Require Import Byte.
Require Import GV.Base.Res GV.Base.Byt GV.Base.Ints GV.Model.Leb GV.Model.Prim GV.Spec.LebSpec.
Require Import GV.Spec.CfiSpec GV.Model.CfiRd GV.Proofs.CfiRdBase.
Import ListNotations.
Local Open Scope N_scope.

Local Arguments N.add : simpl never.
Local Arguments N.sub : simpl never.
Local Arguments N.mul : simpl never.
Local Arguments N.pow : simpl never.
Local Arguments N.div : simpl never.
Local Arguments N.modulo : simpl never.

(* the exhaustive scan: walk the entries in section order, parse every FDE, stop at the first one
   that contains the address; an entry that fails to parse ends the scan with its error *)
Fixpoint scan_items (dbg : bool) (c : scfg) (sec : list byte) (a : N) (items : list item) (e : option error)
  : res fde :=
  match items with
  | [] => match e with Some e => Err e | None => Err ENoUnwindInfoForAddress end
  | ICie _ :: r => scan_items dbg c sec a r e
  | IFde p :: r =>
      let* fd := fde_parse dbg c sec p in
      let* b := fde_contains dbg fd a in
      if b then Ok fd else scan_items dbg c sec a r e
  end.

Lemma entries_loop_S : forall f dbg c input,
  entries_loop (S f) dbg c input =
  let* (st, in1) := iter_next (iter_fuel input) dbg c input in
  match st with
  | SNone => Ok ([], None)
  | SErr e => Ok ([], Some e)
  | SSome it => let* (l, e) := entries_loop f dbg c in1 in Ok (it :: l, e)
  end.
Proof. reflexivity. Qed.

Lemma fde_for_address_loop_S : forall f dbg c sec address input,
  fde_for_address_loop (S f) dbg c sec address input =
  let* (st, in1) := iter_next (iter_fuel input) dbg c input in
  match st with
  | SNone => Err ENoUnwindInfoForAddress
  | SErr e => Err e
  | SSome (ICie _) => fde_for_address_loop f dbg c sec address in1
  | SSome (IFde p) =>
      let* fd := fde_parse dbg c sec p in
      let* b := fde_contains dbg fd address in
      if b then Ok fd else fde_for_address_loop f dbg c sec address in1
  end.
Proof. reflexivity. Qed.

Lemma fde_for_address_loop_scan : forall fuel dbg c sec a input items e,
  entries_loop fuel dbg c input = Ok (items, e) ->
  fde_for_address_loop fuel dbg c sec a input = scan_items dbg c sec a items e.
Proof.
  induction fuel as [|f IH]; intros dbg c sec a input items e H; [discriminate|].
  rewrite entries_loop_S in H. rewrite fde_for_address_loop_S.
  destruct (iter_next (iter_fuel input) dbg c input) as [[st in1]| | |]; cbn [bind] in *; try discriminate.
  destruct st as [|it|e1].
  - injection H as <- <-. reflexivity.
  - destruct (entries_loop f dbg c in1) as [[l e2]| | |] eqn:E; cbn [bind] in H; try discriminate.
    injection H as <- <-. cbn [scan_items].
    destruct it as [ci|p].
    + apply IH. exact E.
    + destruct (fde_parse dbg c sec p) as [fd| | |]; cbn [bind]; try reflexivity.
      destruct (fde_contains dbg fd a) as [b| | |]; cbn [bind]; try reflexivity.
      destruct b; [reflexivity|]. apply IH. exact E.
  - injection H as <- <-. reflexivity.
Qed.

(* linear lookup = exhaustive scan, for every section (well-formed or not) whose traversal returns *)
Lemma fde_for_address_scan : forall dbg c sec a items e,
  entries_all dbg c sec = Ok (items, e) ->
  fde_for_address dbg c sec a = scan_items dbg c sec a items e.
Proof. intros. unfold fde_for_address. apply fde_for_address_loop_scan. exact H. Qed.

(* ------------------------------------------------------------------ "first FDE containing a" *)
(* the address range an FDE covers, with the end address wrapped at the CIE's address size *)
Definition covers (f : fde) (a : N) : bool :=
  (fd_init f <=? a) && (a <? (fd_init f + fd_range f) mod 2 ^ (8 * ci_asz (fd_cie f))).

(* all FDE items of a traversal, fully parsed; None if one of them does not parse *)
Fixpoint parsed_fdes (dbg : bool) (c : scfg) (sec : list byte) (items : list item) : option (list fde) :=
  match items with
  | [] => Some []
  | ICie _ :: r => parsed_fdes dbg c sec r
  | IFde p :: r =>
      match fde_parse dbg c sec p, parsed_fdes dbg c sec r with
      | Ok fd, Some l => Some (fd :: l)
      | _, _ => None
      end
  end.

Lemma fde_contains_covers : forall dbg f a, asz_ok (ci_asz (fd_cie f)) -> fde_contains dbg f a = Ok (covers f a).
Proof.
  intros dbg f a H. unfold fde_contains, covers, fde_end. rewrite wadd_sized_ok by exact H.
  destruct (fd_init f <=? a); reflexivity.
Qed.

Lemma scan_items_find : forall dbg c sec a items fds,
  parsed_fdes dbg c sec items = Some fds ->
  Forall (fun f => asz_ok (ci_asz (fd_cie f))) fds ->
  scan_items dbg c sec a items None =
  match find (fun f => covers f a) fds with Some f => Ok f | None => Err ENoUnwindInfoForAddress end.
Proof.
  induction items as [|it r IH]; intros fds Hp Hall.
  - injection Hp as <-. reflexivity.
  - destruct it as [ci|p]; cbn [scan_items parsed_fdes] in *.
    + apply IH; assumption.
    + destruct (fde_parse dbg c sec p) as [fd| | |]; try discriminate.
      destruct (parsed_fdes dbg c sec r) as [l|]; [|discriminate].
      injection Hp as <-. inversion Hall as [|x l' Hx Hl]; subst. cbn [bind find].
      rewrite fde_contains_covers by exact Hx. cbn [bind].
      destruct (covers fd a); [reflexivity|]. apply IH; [reflexivity|exact Hl].
Qed.

(* ------------------------------------------------------------------ address sizes of parsed CIEs *)
Lemma lift_ok : forall A (f : list byte -> res (A * list byte)) r a r',
  lift f r = Ok (a, r') -> exists rest, f (win r) = Ok (a, rest) /\ r' = mkrd (off r + (nlen (win r) - nlen rest)) rest.
Proof.
  intros A f r a r' H. unfold lift in H. destruct (f (win r)) as [[a0 rest]| | |]; cbn [bind] in H; try discriminate.
  injection H as <- <-. eauto.
Qed.

Lemma read_address_size_ok : forall bs s r, read_address_size bs = Ok (s, r) -> asz_ok s.
Proof.
  intros bs s r H. unfold read_address_size in H.
  destruct (read_u8 bs) as [[s0 r0]| | |]; cbn [bind] in H; try discriminate.
  destruct ((s0 =? 1) || (s0 =? 2) || (s0 =? 4) || (s0 =? 8)) eqn:E; [|discriminate].
  injection H as <- <-. unfold asz_ok. lia.
Qed.

Lemma cie_from_prefix_asz : forall dbg c px ci,
  cie_from_prefix dbg c px = Ok ci -> asz_ok (sc_asz c) -> asz_ok (ci_asz ci).
Proof.
  intros dbg c px ci H Hc. unfold cie_from_prefix in H.
  apply bind_ok in H as ([version r1] & _ & H).
  destruct (negb _); [discriminate|].
  apply bind_ok in H as ([augstr r2] & _ & H).
  apply bind_ok in H as ([asz r3] & Hasz & H).
  apply bind_ok in H as ([caf r4] & _ & H).
  apply bind_ok in H as ([daf r5] & _ & H).
  apply bind_ok in H as ([rar r6] & _ & H).
  apply bind_ok in H as ([aug r7] & _ & H).
  injection H as <-. cbn [ci_asz].
  destruct (has_addr_seg_sizes (sc_eh c) version).
  - apply bind_ok in Hasz as ([a q1] & Ha & Hasz).
    apply bind_ok in Hasz as ([seg q2] & _ & Hasz).
    destruct (negb (seg =? 0)); [discriminate|]. injection Hasz as <- <-.
    apply lift_ok in Ha as (rest & Ha & _). eapply read_address_size_ok. exact Ha.
  - injection Hasz as <- <-. exact Hc.
Qed.

Lemma cie_from_offset_asz : forall dbg c sec o ci,
  cie_from_offset dbg c sec o = Ok ci -> asz_ok (sc_asz c) -> asz_ok (ci_asz ci).
Proof.
  intros dbg c sec o ci H Hc. unfold cie_from_offset in H.
  apply bind_ok in H as (input & _ & H).
  apply bind_ok in H as ([opx r] & _ & H).
  destruct opx as [px|]; [|discriminate].
  destruct (negb _); [discriminate|]. eapply cie_from_prefix_asz; eassumption.
Qed.

Lemma fde_parse_asz : forall dbg c sec p fd,
  fde_parse dbg c sec p = Ok fd -> asz_ok (sc_asz c) -> asz_ok (ci_asz (fd_cie fd)).
Proof.
  intros dbg c sec p fd H Hc. unfold fde_parse in H.
  apply bind_ok in H as (ci & Hci & H).
  apply bind_ok in H as ([[ia range] r1] & _ & H).
  apply bind_ok in H as ([ad r2] & _ & H).
  injection H as <-. cbn [fd_cie]. eapply cie_from_offset_asz; eassumption.
Qed.

Lemma parsed_fdes_asz : forall dbg c sec items fds,
  parsed_fdes dbg c sec items = Some fds -> asz_ok (sc_asz c) ->
  Forall (fun f => asz_ok (ci_asz (fd_cie f))) fds.
Proof.
  induction items as [|it r IH]; intros fds H Hc.
  - injection H as <-. constructor.
  - destruct it as [ci|p]; cbn [parsed_fdes] in H.
    + apply IH; assumption.
    + destruct (fde_parse dbg c sec p) as [fd| | |] eqn:E; try discriminate.
      destruct (parsed_fdes dbg c sec r) as [l|]; [|discriminate].
      injection H as <-. constructor; [eapply fde_parse_asz; eassumption|apply IH; auto].
Qed.

(* C05 linear lookup: for a section whose traversal completes and all of whose FDEs parse,
   fde_for_address returns the first FDE in section order that covers the address, and
   NoUnwindInfoForAddress exactly when none does *)
Lemma linear_lookup_lem : forall dbg c sec a items fds,
  asz_ok (sc_asz c) ->
  entries_all dbg c sec = Ok (items, None) ->
  parsed_fdes dbg c sec items = Some fds ->
  fde_for_address dbg c sec a =
  match find (fun f => covers f a) fds with Some f => Ok f | None => Err ENoUnwindInfoForAddress end.
Proof.
  intros dbg c sec a items fds Hc He Hp.
  rewrite (fde_for_address_scan _ _ _ _ _ _ He).
  apply scan_items_find; [exact Hp|]. eapply parsed_fdes_asz; eassumption.
Qed.
