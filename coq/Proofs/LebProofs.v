(* Proofs/LebProofs.v — exactness of the LEB128 readers and writers (C09). *)
From Coq Require Import List NArith ZArith Bool Lia ZifyBool ZifyN ZifyNat.
From Coq.Strings Require Import Byte.
Require Import GV.Base.Res GV.Base.Byt GV.Base.Ints GV.Spec.LebSpec GV.Model.Leb.
Import ListNotations.
Local Open Scope N_scope.
Local Arguments N.add : simpl never.
Local Arguments N.sub : simpl never.
Local Arguments N.mul : simpl never.
Local Arguments N.shiftl : simpl never.
Local Arguments N.shiftr : simpl never.
Local Arguments N.land : simpl never.
Local Arguments N.lor : simpl never.
Local Arguments N.pow : simpl never.
Local Arguments N.modulo : simpl never.
Local Arguments N.div : simpl never.

(* ---- facts about one byte, by a sweep over the 256 constructors ---- *)

Lemma byte_split (b : byte) :
  b2n b = low7 (b2n b) + (if has_cont (b2n b) then 128 else 0).
Proof. destruct b; vm_compute; reflexivity. Qed.

Lemma low7_lt (b : byte) : low7 (b2n b) < 128.
Proof. destruct b; vm_compute; reflexivity. Qed.

Lemma cont_bit_has_cont (b : byte) : cont_bit b = has_cont (b2n b).
Proof. reflexivity. Qed.

Lemma land127_low7 (b : byte) : N.land (b2n b) 127 = low7 (b2n b).
Proof. reflexivity. Qed.

(* ---- disjoint lor is + ---- *)

Lemma lor_shiftl_add (a x s : N) : a < 2 ^ s -> N.lor a (N.shiftl x s) = a + N.shiftl x s.
Proof.
  intros Ha.
  assert (Hl : N.land a (N.shiftl x s) = 0).
  { apply N.bits_inj_0. intros i. rewrite N.land_spec.
    destruct (N.lt_ge_cases i s) as [Hi|Hi].
    - rewrite (N.shiftl_spec_low x s i Hi). apply andb_false_r.
    - assert (Hb : N.testbit a i = false).
      { destruct (N.eq_dec a 0) as [->|Hz]; [apply N.bits_0|].
        apply N.bits_above_log2. apply N.log2_lt_pow2; [lia|].
        apply N.lt_le_trans with (2 ^ s); [exact Ha|]. apply N.pow_le_mono_r; lia. }
      rewrite Hb. reflexivity. }
  rewrite <- N.lxor_lor by exact Hl. symmetry. apply N.add_nocarry_lxor. exact Hl.
Qed.

Lemma pow7 (k : N) : 2 ^ (7 * (k + 1)) = 2 ^ (7 * k) * 128.
Proof. replace (7 * (k + 1)) with (7 * k + 7) by lia. rewrite N.pow_add_r. reflexivity. Qed.

Lemma pow_pos (s : N) : 0 < 2 ^ s.
Proof. apply N.neq_0_lt_0. apply N.pow_nonzero. discriminate. Qed.

Lemma pow_le_56 (k : N) : k <= 8 -> 2 ^ (7 * k) <= 2 ^ 56.
Proof. intros. apply N.pow_le_mono_r; lia. Qed.

(* shl64 in the range the LEB loops use *)
Lemma shl64_small dbg (l k : N) :
  l < 128 -> k <= 8 -> shl64 dbg l (7 * k) = Ok (l * 2 ^ (7 * k)).
Proof.
  intros Hl Hk. unfold shl64.
  destruct (64 <=? 7 * k) eqn:E; [lia|].
  rewrite N.shiftl_mul_pow2. rewrite wrap64_small; [reflexivity|].
  pose proof (pow_le_56 k Hk) as HP. pose proof (pow_pos (7 * k)).
  change two64 with (2 ^ 64). change (2 ^ 64) with (256 * 2 ^ 56).
  change (2 ^ 56) with 72057594037927936 in *. nia.
Qed.

Lemma shl64_63 dbg (l : N) : l <= 1 -> shl64 dbg l 63 = Ok (l * 2 ^ 63).
Proof.
  intros Hl. unfold shl64. change (64 <=? 63) with false. cbv iota.
  rewrite N.shiftl_mul_pow2. rewrite wrap64_small; [reflexivity|].
  change two64 with (2 * 2 ^ 63). pose proof (pow_pos 63). nia.
Qed.

Lemma ok_pair_eq {A B} (x y : A) (r : B) : x = y -> @Ok (A * B) (x, r) = Ok (y, r).
Proof. intros ->; reflexivity. Qed.

Lemma split_leb_nonempty bs e rest : split_leb bs = Some (e, rest) -> (1 <= length e)%nat.
Proof.
  destruct bs as [|b r]; cbn [split_leb]; [discriminate|].
  destruct (cont_bit b).
  - destruct (split_leb r) as [[e' rest']|]; [|discriminate].
    intros H; inversion H; subst. cbn [length]. lia.
  - intros H; inversion H; subst. cbn [length]. lia.
Qed.

Lemma split_leb_app bs e rest : split_leb bs = Some (e, rest) -> bs = e ++ rest.
Proof.
  revert e rest. induction bs as [|b r IH]; intros e rest; cbn [split_leb]; [discriminate|].
  destruct (cont_bit b).
  - destruct (split_leb r) as [[e' rest']|]; [|discriminate].
    intros H; inversion H; subst. cbn [app]. f_equal. apply IH. reflexivity.
  - intros H; inversion H; subst. reflexivity.
Qed.

(* ---- the unsigned loop ---- *)

Definition uleb_post (result P : N) (k : N) (bs : list byte) : res (N * list byte) :=
  match split_leb bs with
  | None => if 10 - k <=? N.of_nat (length bs) then Err EBadUnsignedLeb128 else Err EUnexpectedEof
  | Some (enc, rest) =>
      if (k + N.of_nat (length enc) <=? 10) && (result + P * uval enc <? two64)
      then Ok (result + P * uval enc, rest) else Err EBadUnsignedLeb128
  end.

Lemma uleb_loop_exact dbg : forall bs k result,
  1 <= k <= 9 -> result < 2 ^ (7 * k) ->
  uleb_loop dbg result (7 * k) bs = uleb_post result (2 ^ (7 * k)) k bs.
Proof.
  induction bs as [|b r IH]; intros k result Hk Hres.
  - unfold uleb_post. cbn [uleb_loop split_leb length].
    destruct (10 - k <=? N.of_nat 0) eqn:E; [lia|reflexivity].
  - cbn [uleb_loop]. unfold uleb_post. cbn [split_leb length].
    rewrite cont_bit_has_cont.
    pose proof (byte_split b) as Hsplit. pose proof (low7_lt b) as Hlow.
    pose proof (pow_pos (7 * k)) as HP.
    destruct (N.eq_dec k 9) as [->|Hk9].
    + (* shift = 63 *)
      change (7 * 9) with 63 in *. change (63 =? 63) with true. cbn [andb].
      destruct (b2n b =? 0) eqn:E0; cbn [negb andb].
      * (* byte = 0 *)
        assert (Hb : b2n b = 0) by lia.
        assert (Hc : has_cont (b2n b) = false) by (rewrite Hb; reflexivity).
        assert (Hl : low7 (b2n b) = 0) by (rewrite Hb; reflexivity).
        rewrite Hc, Hl. rewrite (shl64_63 dbg 0) by lia. cbn [bind].
        cbn [uval length]. rewrite land127_low7, Hl.
        replace (N.lor result (0 * 2 ^ 63)) with result by (rewrite N.mul_0_l, N.lor_0_r; reflexivity).
        change two64 with (2 * 2 ^ 63) . 
        destruct ((9 + N.of_nat 1 <=? 10) && (result + 2 ^ 63 * (0 + 128 * 0) <? 2 * 2 ^ 63)) eqn:E; [|lia].
        apply ok_pair_eq; lia.
      * destruct (b2n b =? 1) eqn:E1; cbn [negb].
        -- assert (Hb : b2n b = 1) by lia.
           assert (Hc : has_cont (b2n b) = false) by (rewrite Hb; reflexivity).
           assert (Hl : low7 (b2n b) = 1) by (rewrite Hb; reflexivity).
           rewrite Hc, Hl. rewrite (shl64_63 dbg 1) by lia. cbn [bind].
           cbn [uval length]. rewrite land127_low7, Hl.
           rewrite N.mul_1_l. rewrite <- (N.mul_1_l (2 ^ 63)) at 1.
           rewrite <- N.shiftl_mul_pow2, lor_shiftl_add by exact Hres.
           rewrite N.shiftl_mul_pow2. change two64 with (2 * 2 ^ 63).
           destruct ((9 + N.of_nat 1 <=? 10) && (result + 2 ^ 63 * (1 + 128 * 0) <? 2 * 2 ^ 63)) eqn:E; [|lia].
           apply ok_pair_eq; lia.
        -- (* rejected *)
           destruct (has_cont (b2n b)) eqn:Hc.
           ++ destruct (split_leb r) as [[e rest]|] eqn:Hs.
              ** destruct ((9 + N.of_nat (length (b :: e)) <=? 10) && _) eqn:E; [|reflexivity].
                 pose proof (split_leb_nonempty _ _ _ Hs). cbn [length] in E. lia.
              ** destruct (10 - 9 <=? N.of_nat (S (length r))) eqn:E; [reflexivity|lia].
           ++ cbn [uval length]. rewrite land127_low7. change two64 with (2 * 2 ^ 63).
              destruct ((9 + N.of_nat 1 <=? 10) && (result + 2 ^ 63 * (low7 (b2n b) + 128 * 0) <? 2 * 2 ^ 63)) eqn:E;
                [|reflexivity].
              assert (2 <= low7 (b2n b)) by lia. nia.
    + (* shift <= 56 *)
      assert (Hk8 : k <= 8) by lia.
      assert (Hne : (7 * k =? 63) = false) by lia. rewrite Hne. cbn [andb].
      rewrite (shl64_small dbg _ k Hlow Hk8). cbn [bind].
      rewrite <- N.shiftl_mul_pow2, lor_shiftl_add by exact Hres. rewrite N.shiftl_mul_pow2.
      pose proof (pow_le_56 k Hk8) as HP56. change (2 ^ 56) with 72057594037927936 in HP56.
      set (P := 2 ^ (7 * k)) in *.
      set (l := low7 (b2n b)) in *.
      assert (Hres' : result + l * P < 2 ^ (7 * (k + 1))) by (rewrite pow7; fold P; nia).
      destruct (has_cont (b2n b)) eqn:Hc.
      * replace (7 * k + 7) with (7 * (k + 1)) by lia.
        rewrite IH by (try exact Hres'; lia). unfold uleb_post.
        destruct (split_leb r) as [[e rest]|].
        -- cbn [uval length]. rewrite land127_low7. fold l. rewrite pow7. fold P.
           replace (result + l * P + P * 128 * uval e) with (result + P * (l + 128 * uval e)) by lia.
           replace (k + 1 + N.of_nat (length e)) with (k + N.of_nat (S (length e))) by lia.
           reflexivity.
        -- replace (10 - (k + 1) <=? N.of_nat (length r)) with (10 - k <=? N.of_nat (S (length r))); [reflexivity|].
           lia.
      * cbn [uval length]. rewrite land127_low7. fold l.
        destruct ((k + N.of_nat 1 <=? 10) && (result + P * (l + 128 * 0) <? two64)) eqn:E.
        -- apply ok_pair_eq; lia.
        -- exfalso. unfold two64 in E. nia.
Qed.

Definition uleb_spec (bs : list byte) : res (N * list byte) :=
  match split_leb bs with
  | None => if (10 <=? length bs)%nat then Err EBadUnsignedLeb128 else Err EUnexpectedEof
  | Some (enc, rest) =>
      if (length enc <=? 10)%nat && (uval enc <? 2 ^ 64) then Ok (uval enc, rest)
      else Err EBadUnsignedLeb128
  end.

Theorem read_uleb128_exact dbg bs : read_uleb128 dbg bs = uleb_spec bs.
Proof.
  destruct bs as [|b r]; [reflexivity|].
  unfold read_uleb128, uleb_spec. cbn [split_leb]. rewrite cont_bit_has_cont.
  pose proof (byte_split b) as Hsplit. pose proof (low7_lt b) as Hlow.
  destruct (has_cont (b2n b)) eqn:Hc.
  - change 7 with (7 * 1). rewrite uleb_loop_exact by (change (2 ^ (7 * 1)) with 128; lia).
    unfold uleb_post. change (2 ^ (7 * 1)) with 128.
    destruct (split_leb r) as [[e rest]|].
    + cbn [uval length]. rewrite land127_low7. change two64 with (2 ^ 64).
      replace ((S (length e) <=? 10)%nat) with (1 + N.of_nat (length e) <=? 10) by lia.
      reflexivity.
    + cbn [length]. replace ((10 <=? S (length r))%nat) with (10 - 1 <=? N.of_nat (length r)) by lia.
      reflexivity.
  - cbn [uval length]. rewrite land127_low7.
    assert (Hlt : (low7 (b2n b) + 128 * 0 <? 2 ^ 64) = true).
    { change (2 ^ 64) with 18446744073709551616. lia. }
    rewrite Hlt. cbn [Nat.leb andb]. apply ok_pair_eq; lia.
Qed.

(* ================= signed ================= *)

Definition sval_at (bits u : N) : Z :=
  if u <? 2 ^ (bits - 1) then Z.of_N u else (Z.of_N u - Z.of_N (2 ^ bits))%Z.

Lemma sval_sval_at enc : sval enc = sval_at (7 * N.of_nat (length enc)) (uval enc).
Proof. reflexivity. Qed.

Lemma sign_bit_low7 (b : byte) : (N.land (b2n b) 64 =? 64) = (64 <=? low7 (b2n b)).
Proof. destruct b; vm_compute; reflexivity. Qed.

Lemma k_cases (k : N) : k <= 9 ->
  k = 0 \/ k = 1 \/ k = 2 \/ k = 3 \/ k = 4 \/ k = 5 \/ k = 6 \/ k = 7 \/ k = 8 \/ k = 9.
Proof. lia. Qed.

Ltac each_k k H :=
  destruct (k_cases k H) as [->|[->|[->|[->|[->|[->|[->|[->|[->| ->]]]]]]]]].

Lemma shl64_ones dbg (k : N) : 1 <= k <= 9 ->
  shl64 dbg (two64 - 1) (7 * k) = Ok (two64 - 2 ^ (7 * k)).
Proof.
  intros [H1 H9]. each_k k H9; try lia; vm_compute; reflexivity.
Qed.

Lemma ones_as_shift (k : N) : 1 <= k <= 9 ->
  two64 - 2 ^ (7 * k) = N.shiftl (2 ^ (64 - 7 * k) - 1) (7 * k).
Proof.
  intros [H1 H9]. each_k k H9; try lia; vm_compute; reflexivity.
Qed.

Lemma pow_half7 (k : N) : 2 ^ (7 * (k + 1) - 1) = 64 * 2 ^ (7 * k).
Proof.
  replace (7 * (k + 1) - 1) with (7 * k + 6) by lia. rewrite N.pow_add_r.
  change (2 ^ 6) with 64. lia.
Qed.

Lemma pow_le_63 (k : N) : k <= 9 -> 2 ^ (7 * k) <= 2 ^ 63.
Proof. intros. apply N.pow_le_mono_r; lia. Qed.

Definition sleb_post (result P : N) (k : N) (bs : list byte) : res (Z * list byte) :=
  match split_leb bs with
  | None => if 10 - k <=? N.of_nat (length bs) then Err EBadSignedLeb128 else Err EUnexpectedEof
  | Some (enc, rest) =>
      let u := result + P * uval enc in
      let n := k + N.of_nat (length enc) in
      if (n <=? 10) && in_i64 (sval_at (7 * n) u)
      then Ok (sval_at (7 * n) u, rest) else Err EBadSignedLeb128
  end.

Lemma to_i64_small (x : N) : x < 2 ^ 63 -> to_i64 x = Z.of_N x.
Proof.
  intros H. unfold to_i64, to_signed, wrapN. change (64 - 1) with 63.
  change (2 ^ 63) with 9223372036854775808 in *. change (2 ^ 64) with 18446744073709551616.
  rewrite N.mod_small by lia.
  destruct (x <? 9223372036854775808) eqn:E; [reflexivity|lia].
Qed.

Lemma to_i64_big (x : N) : 2 ^ 63 <= x < 2 ^ 64 -> to_i64 x = (Z.of_N x - 18446744073709551616)%Z.
Proof.
  intros H. unfold to_i64, to_signed, wrapN. change (64 - 1) with 63.
  change (2 ^ 63) with 9223372036854775808 in *. change (2 ^ 64) with 18446744073709551616 in *.
  rewrite N.mod_small by lia.
  destruct (x <? 9223372036854775808) eqn:E; [lia|reflexivity].
Qed.

Lemma sleb_loop_exact dbg : forall bs k result,
  k <= 9 -> result < 2 ^ (7 * k) ->
  sleb_loop dbg result (7 * k) bs = sleb_post result (2 ^ (7 * k)) k bs.
Proof.
  induction bs as [|b r IH]; intros k result Hk Hres.
  - unfold sleb_post. cbn [sleb_loop split_leb length].
    destruct (10 - k <=? N.of_nat 0) eqn:E; [lia|reflexivity].
  - cbn [sleb_loop]. unfold sleb_post. cbn [split_leb length].
    rewrite cont_bit_has_cont.
    pose proof (byte_split b) as Hsplit. pose proof (low7_lt b) as Hlow.
    pose proof (pow_pos (7 * k)) as HP.
    destruct (N.eq_dec k 9) as [->|Hk9].
    + change (7 * 9) with 63 in *. change (63 =? 63) with true. cbn [andb].
      change (2 ^ 63) with 9223372036854775808 in *.
      destruct (b2n b =? 0) eqn:E0; cbn [negb andb].
      * assert (Hb : b2n b = 0) by lia.
        assert (Hc : has_cont (b2n b) = false) by (rewrite Hb; reflexivity).
        assert (Hl : low7 (b2n b) = 0) by (rewrite Hb; reflexivity).
        rewrite Hc, Hl. rewrite (shl64_63 dbg 0) by lia. cbn [bind].
        rewrite N.mul_0_l, N.lor_0_r.
        change (63 + 7 <? 64) with false. cbn [andb].
        cbn [uval length]. rewrite land127_low7, Hl.
        rewrite to_i64_small by (change (2 ^ 63) with 9223372036854775808; lia).
        change (7 * (9 + N.of_nat 1)) with 70.
        unfold sval_at. change (2 ^ (70 - 1)) with 590295810358705651712.
        replace (result + 9223372036854775808 * (0 + 128 * 0)) with result by lia.
        destruct (result <? 590295810358705651712) eqn:E; [|lia].
        unfold in_i64.
        destruct ((9 + N.of_nat 1 <=? 10) &&
                  ((-9223372036854775808 <=? Z.of_N result)%Z && (Z.of_N result <? 9223372036854775808)%Z)) eqn:E2;
          [reflexivity|lia].
      * destruct (b2n b =? 127) eqn:E1; cbn [negb].
        -- assert (Hb : b2n b = 127) by lia.
           assert (Hc : has_cont (b2n b) = false) by (rewrite Hb; reflexivity).
           assert (Hl : low7 (b2n b) = 127) by (rewrite Hb; reflexivity).
           rewrite Hc, Hl.
           assert (Hsh : shl64 dbg 127 63 = Ok (N.shiftl 1 63)) by (destruct dbg; reflexivity).
           rewrite Hsh. cbn [bind].
           rewrite lor_shiftl_add by (change (2 ^ 63) with 9223372036854775808; exact Hres).
           change (N.shiftl 1 63) with 9223372036854775808.
           change (63 + 7 <? 64) with false. cbn [andb].
           cbn [uval length]. rewrite land127_low7, Hl.
           rewrite to_i64_big
             by (change (2 ^ 63) with 9223372036854775808; change (2 ^ 64) with 18446744073709551616; lia).
           change (7 * (9 + N.of_nat 1)) with 70.
           unfold sval_at. change (2 ^ (70 - 1)) with 590295810358705651712.
           change (2 ^ 70) with 1180591620717411303424.
           destruct (result + 9223372036854775808 * (127 + 128 * 0) <? 590295810358705651712) eqn:E; [lia|].
           unfold in_i64.
           match goal with |- _ = (if ?c then _ else _) => destruct c eqn:E2 end.
           ++ apply ok_pair_eq. lia.
           ++ exfalso. lia.
        -- destruct (has_cont (b2n b)) eqn:Hc.
           ++ destruct (split_leb r) as [[e rest]|] eqn:Hs.
              ** pose proof (split_leb_nonempty _ _ _ Hs). cbn [length].
                 match goal with |- _ = (if ?c then _ else _) => destruct c eqn:E end; [lia|reflexivity].
              ** destruct (10 - 9 <=? N.of_nat (S (length r))) eqn:E; [reflexivity|lia].
           ++ cbn [uval length]. rewrite land127_low7.
              change (7 * (9 + N.of_nat 1)) with 70.
              unfold sval_at. change (2 ^ (70 - 1)) with 590295810358705651712.
              change (2 ^ 70) with 1180591620717411303424. unfold in_i64.
              set (l := low7 (b2n b)) in *.
              assert (Hl : 1 <= l <= 126) by lia.
              destruct (result + 9223372036854775808 * (l + 128 * 0) <? 590295810358705651712) eqn:E.
              ** match goal with |- _ = (if ?c then _ else _) => destruct c eqn:E2 end; [lia|reflexivity].
              ** match goal with |- _ = (if ?c then _ else _) => destruct c eqn:E2 end; [lia|reflexivity].
    + assert (Hk8 : k <= 8) by lia.
      assert (Hne : (7 * k =? 63) = false) by lia. rewrite Hne. cbn [andb].
      rewrite (shl64_small dbg _ k Hlow Hk8). cbn [bind].
      rewrite <- N.shiftl_mul_pow2, lor_shiftl_add by exact Hres. rewrite N.shiftl_mul_pow2.
      pose proof (pow_le_56 k Hk8) as HP56. change (2 ^ 56) with 72057594037927936 in HP56.
      replace (7 * k + 7) with (7 * (k + 1)) by lia.
      pose proof (pow7 k) as HQ. pose proof (pow_half7 k) as HH.
      set (P := 2 ^ (7 * k)) in *.
      set (l := low7 (b2n b)) in *.
      assert (Hres' : result + l * P < 2 ^ (7 * (k + 1))) by (rewrite HQ; nia).
      destruct (has_cont (b2n b)) eqn:Hc.
      * rewrite IH by (try exact Hres'; lia). unfold sleb_post.
        destruct (split_leb r) as [[e rest]|].
        -- cbn [uval length]. rewrite land127_low7. fold l. rewrite HQ.
           replace (result + l * P + P * 128 * uval e) with (result + P * (l + 128 * uval e)) by lia.
           replace (k + 1 + N.of_nat (length e)) with (k + N.of_nat (S (length e))) by lia.
           reflexivity.
        -- replace (10 - (k + 1) <=? N.of_nat (length r)) with (10 - k <=? N.of_nat (S (length r))); [reflexivity|].
           lia.
      * cbn [uval length]. rewrite land127_low7. fold l.
        replace (k + N.of_nat 1) with (k + 1) by lia.
        replace (result + P * (l + 128 * 0)) with (result + l * P) by lia.
        assert (Hlt : (7 * (k + 1) <? 64) = true) by lia. rewrite Hlt. cbn [andb].
        rewrite sign_bit_low7. fold l.
        unfold sval_at. rewrite HH, HQ.
        assert (HX : l * P <= 127 * P) by nia.
        destruct (64 <=? l) eqn:Esign.
        -- assert (HX2 : 64 * P <= l * P) by nia.
           rewrite (shl64_ones dbg (k + 1)) by lia. cbn [bind].
           rewrite (ones_as_shift (k + 1)) by lia.
           rewrite lor_shiftl_add by exact Hres'.
           rewrite <- (ones_as_shift (k + 1)) by lia. rewrite HQ.
           set (X := l * P) in *.
           rewrite to_i64_big
             by (change (2 ^ 63) with 9223372036854775808; change (2 ^ 64) with 18446744073709551616;
                 unfold two64; lia).
           destruct (result + X <? 64 * P) eqn:E; [lia|].
           unfold in_i64, two64.
           match goal with |- _ = (if ?c then _ else _) => destruct c eqn:E2 end.
           ++ apply ok_pair_eq. lia.
           ++ exfalso. lia.
        -- set (X := l * P) in *. assert (HX3 : X <= 63 * P) by (unfold X; nia).
           rewrite to_i64_small by (change (2 ^ 63) with 9223372036854775808; lia).
           destruct (result + X <? 64 * P) eqn:E; [|lia].
           unfold in_i64.
           match goal with |- _ = (if ?c then _ else _) => destruct c eqn:E2 end.
           ++ reflexivity.
           ++ exfalso. lia.
Qed.

Definition sleb_spec (bs : list byte) : res (Z * list byte) :=
  match split_leb bs with
  | None => if (10 <=? length bs)%nat then Err EBadSignedLeb128 else Err EUnexpectedEof
  | Some (enc, rest) =>
      if (length enc <=? 10)%nat && in_i64 (sval enc) then Ok (sval enc, rest)
      else Err EBadSignedLeb128
  end.

Theorem read_sleb128_exact dbg bs : read_sleb128 dbg bs = sleb_spec bs.
Proof.
  unfold read_sleb128, sleb_spec. change 0 with (7 * 0) at 2.
  rewrite sleb_loop_exact by (change (2 ^ (7 * 0)) with 1; lia).
  unfold sleb_post. change (2 ^ (7 * 0)) with 1.
  destruct (split_leb bs) as [[e rest]|].
  - rewrite sval_sval_at.
    replace (0 + 1 * uval e) with (uval e) by lia.
    replace (0 + N.of_nat (length e)) with (N.of_nat (length e)) by lia.
    replace ((length e <=? 10)%nat) with (N.of_nat (length e) <=? 10) by lia.
    reflexivity.
  - replace ((10 <=? length bs)%nat) with (10 - 0 <=? N.of_nat (length bs)) by lia.
    reflexivity.
Qed.
