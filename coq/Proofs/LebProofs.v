(* Proofs/LebProofs.v — exactness of the LEB128 readers and writers (C09). *)
From Coq Require Import List NArith ZArith Bool Lia ZifyBool ZifyN ZifyNat.
From Coq.Strings Require Import Byte.
Require Import GV.Base.Res GV.Base.Byt GV.Base.Ints GV.Spec.LebSpec GV.Model.Leb.
Import ListNotations.
Local Open Scope N_scope.
Local Arguments N.add : simpl never.
Local Arguments N.sub : simpl never.
Local Arguments N.mul : simpl never.
Local Arguments N.shiftl : simpl never.
Local Arguments N.shiftr : simpl never.
Local Arguments N.land : simpl never.
Local Arguments N.lor : simpl never.
Local Arguments N.pow : simpl never.
Local Arguments N.modulo : simpl never.
Local Arguments N.div : simpl never.

(* ---- facts about one byte, by a sweep over the 256 constructors ---- *)

Lemma byte_split (b : byte) :
  b2n b = low7 (b2n b) + (if has_cont (b2n b) then 128 else 0).
Proof. destruct b; vm_compute; reflexivity. Qed.

Lemma low7_lt (b : byte) : low7 (b2n b) < 128.
Proof. destruct b; vm_compute; reflexivity. Qed.

Lemma cont_bit_has_cont (b : byte) : cont_bit b = has_cont (b2n b).
Proof. reflexivity. Qed.

Lemma land127_low7 (b : byte) : N.land (b2n b) 127 = low7 (b2n b).
Proof. reflexivity. Qed.

(* ---- disjoint lor is + ---- *)

Lemma lor_shiftl_add (a x s : N) : a < 2 ^ s -> N.lor a (N.shiftl x s) = a + N.shiftl x s.
Proof.
  intros Ha.
  assert (Hl : N.land a (N.shiftl x s) = 0).
  { apply N.bits_inj_0. intros i. rewrite N.land_spec.
    destruct (N.lt_ge_cases i s) as [Hi|Hi].
    - rewrite (N.shiftl_spec_low x s i Hi). apply andb_false_r.
    - assert (Hb : N.testbit a i = false).
      { destruct (N.eq_dec a 0) as [->|Hz]; [apply N.bits_0|].
        apply N.bits_above_log2. apply N.log2_lt_pow2; [lia|].
        apply N.lt_le_trans with (2 ^ s); [exact Ha|]. apply N.pow_le_mono_r; lia. }
      rewrite Hb. reflexivity. }
  rewrite <- N.lxor_lor by exact Hl. symmetry. apply N.add_nocarry_lxor. exact Hl.
Qed.

Lemma pow7 (k : N) : 2 ^ (7 * (k + 1)) = 2 ^ (7 * k) * 128.
Proof. replace (7 * (k + 1)) with (7 * k + 7) by lia. rewrite N.pow_add_r. reflexivity. Qed.

Lemma pow_pos (s : N) : 0 < 2 ^ s.
Proof. apply N.neq_0_lt_0. apply N.pow_nonzero. discriminate. Qed.

Lemma pow_le_56 (k : N) : k <= 8 -> 2 ^ (7 * k) <= 2 ^ 56.
Proof. intros. apply N.pow_le_mono_r; lia. Qed.

(* shl64 in the range the LEB loops use *)
Lemma shl64_small dbg (l k : N) :
  l < 128 -> k <= 8 -> shl64 dbg l (7 * k) = Ok (l * 2 ^ (7 * k)).
Proof.
  intros Hl Hk. unfold shl64.
  destruct (64 <=? 7 * k) eqn:E; [lia|].
  rewrite N.shiftl_mul_pow2. rewrite wrap64_small; [reflexivity|].
  pose proof (pow_le_56 k Hk) as HP. pose proof (pow_pos (7 * k)).
  change two64 with (2 ^ 64). change (2 ^ 64) with (256 * 2 ^ 56).
  change (2 ^ 56) with 72057594037927936 in *. nia.
Qed.

Lemma shl64_63 dbg (l : N) : l <= 1 -> shl64 dbg l 63 = Ok (l * 2 ^ 63).
Proof.
  intros Hl. unfold shl64. change (64 <=? 63) with false. cbv iota.
  rewrite N.shiftl_mul_pow2. rewrite wrap64_small; [reflexivity|].
  change two64 with (2 * 2 ^ 63). pose proof (pow_pos 63). nia.
Qed.

Lemma ok_pair_eq {A B} (x y : A) (r : B) : x = y -> @Ok (A * B) (x, r) = Ok (y, r).
Proof. intros ->; reflexivity. Qed.

Lemma split_leb_nonempty bs e rest : split_leb bs = Some (e, rest) -> (1 <= length e)%nat.
Proof.
  destruct bs as [|b r]; cbn [split_leb]; [discriminate|].
  destruct (cont_bit b).
  - destruct (split_leb r) as [[e' rest']|]; [|discriminate].
    intros H; inversion H; subst. cbn [length]. lia.
  - intros H; inversion H; subst. cbn [length]. lia.
Qed.

Lemma split_leb_app bs e rest : split_leb bs = Some (e, rest) -> bs = e ++ rest.
Proof.
  revert e rest. induction bs as [|b r IH]; intros e rest; cbn [split_leb]; [discriminate|].
  destruct (cont_bit b).
  - destruct (split_leb r) as [[e' rest']|]; [|discriminate].
    intros H; inversion H; subst. cbn [app]. f_equal. apply IH. reflexivity.
  - intros H; inversion H; subst. reflexivity.
Qed.

(* ---- the unsigned loop ---- *)

Definition uleb_post (result P : N) (k : N) (bs : list byte) : res (N * list byte) :=
  match split_leb bs with
  | None => if 10 - k <=? N.of_nat (length bs) then Err EBadUnsignedLeb128 else Err EUnexpectedEof
  | Some (enc, rest) =>
      if (k + N.of_nat (length enc) <=? 10) && (result + P * uval enc <? two64)
      then Ok (result + P * uval enc, rest) else Err EBadUnsignedLeb128
  end.

Lemma uleb_loop_exact dbg : forall bs k result,
  1 <= k <= 9 -> result < 2 ^ (7 * k) ->
  uleb_loop dbg result (7 * k) bs = uleb_post result (2 ^ (7 * k)) k bs.
Proof.
  induction bs as [|b r IH]; intros k result Hk Hres.
  - unfold uleb_post. cbn [uleb_loop split_leb length].
    destruct (10 - k <=? N.of_nat 0) eqn:E; [lia|reflexivity].
  - cbn [uleb_loop]. unfold uleb_post. cbn [split_leb length].
    rewrite cont_bit_has_cont.
    pose proof (byte_split b) as Hsplit. pose proof (low7_lt b) as Hlow.
    pose proof (pow_pos (7 * k)) as HP.
    destruct (N.eq_dec k 9) as [->|Hk9].
    + (* shift = 63 *)
      change (7 * 9) with 63 in *. change (63 =? 63) with true. cbn [andb].
      destruct (b2n b =? 0) eqn:E0; cbn [negb andb].
      * (* byte = 0 *)
        assert (Hb : b2n b = 0) by lia.
        assert (Hc : has_cont (b2n b) = false) by (rewrite Hb; reflexivity).
        assert (Hl : low7 (b2n b) = 0) by (rewrite Hb; reflexivity).
        rewrite Hc, Hl. rewrite (shl64_63 dbg 0) by lia. cbn [bind].
        cbn [uval length]. rewrite land127_low7, Hl.
        replace (N.lor result (0 * 2 ^ 63)) with result by (rewrite N.mul_0_l, N.lor_0_r; reflexivity).
        change two64 with (2 * 2 ^ 63) . 
        destruct ((9 + N.of_nat 1 <=? 10) && (result + 2 ^ 63 * (0 + 128 * 0) <? 2 * 2 ^ 63)) eqn:E; [|lia].
        apply ok_pair_eq; lia.
      * destruct (b2n b =? 1) eqn:E1; cbn [negb].
        -- assert (Hb : b2n b = 1) by lia.
           assert (Hc : has_cont (b2n b) = false) by (rewrite Hb; reflexivity).
           assert (Hl : low7 (b2n b) = 1) by (rewrite Hb; reflexivity).
           rewrite Hc, Hl. rewrite (shl64_63 dbg 1) by lia. cbn [bind].
           cbn [uval length]. rewrite land127_low7, Hl.
           rewrite N.mul_1_l. rewrite <- (N.mul_1_l (2 ^ 63)) at 1.
           rewrite <- N.shiftl_mul_pow2, lor_shiftl_add by exact Hres.
           rewrite N.shiftl_mul_pow2. change two64 with (2 * 2 ^ 63).
           destruct ((9 + N.of_nat 1 <=? 10) && (result + 2 ^ 63 * (1 + 128 * 0) <? 2 * 2 ^ 63)) eqn:E; [|lia].
           apply ok_pair_eq; lia.
        -- (* rejected *)
           destruct (has_cont (b2n b)) eqn:Hc.
           ++ destruct (split_leb r) as [[e rest]|] eqn:Hs.
              ** destruct ((9 + N.of_nat (length (b :: e)) <=? 10) && _) eqn:E; [|reflexivity].
                 pose proof (split_leb_nonempty _ _ _ Hs). cbn [length] in E. lia.
              ** destruct (10 - 9 <=? N.of_nat (S (length r))) eqn:E; [reflexivity|lia].
           ++ cbn [uval length]. rewrite land127_low7. change two64 with (2 * 2 ^ 63).
              destruct ((9 + N.of_nat 1 <=? 10) && (result + 2 ^ 63 * (low7 (b2n b) + 128 * 0) <? 2 * 2 ^ 63)) eqn:E;
                [|reflexivity].
              assert (2 <= low7 (b2n b)) by lia. nia.
    + (* shift <= 56 *)
      assert (Hk8 : k <= 8) by lia.
      assert (Hne : (7 * k =? 63) = false) by lia. rewrite Hne. cbn [andb].
      rewrite (shl64_small dbg _ k Hlow Hk8). cbn [bind].
      rewrite <- N.shiftl_mul_pow2, lor_shiftl_add by exact Hres. rewrite N.shiftl_mul_pow2.
      pose proof (pow_le_56 k Hk8) as HP56. change (2 ^ 56) with 72057594037927936 in HP56.
      set (P := 2 ^ (7 * k)) in *.
      set (l := low7 (b2n b)) in *.
      assert (Hres' : result + l * P < 2 ^ (7 * (k + 1))) by (rewrite pow7; fold P; nia).
      destruct (has_cont (b2n b)) eqn:Hc.
      * replace (7 * k + 7) with (7 * (k + 1)) by lia.
        rewrite IH by (try exact Hres'; lia). unfold uleb_post.
        destruct (split_leb r) as [[e rest]|].
        -- cbn [uval length]. rewrite land127_low7. fold l. rewrite pow7. fold P.
           replace (result + l * P + P * 128 * uval e) with (result + P * (l + 128 * uval e)) by lia.
           replace (k + 1 + N.of_nat (length e)) with (k + N.of_nat (S (length e))) by lia.
           reflexivity.
        -- replace (10 - (k + 1) <=? N.of_nat (length r)) with (10 - k <=? N.of_nat (S (length r))); [reflexivity|].
           lia.
      * cbn [uval length]. rewrite land127_low7. fold l.
        destruct ((k + N.of_nat 1 <=? 10) && (result + P * (l + 128 * 0) <? two64)) eqn:E.
        -- apply ok_pair_eq; lia.
        -- exfalso. unfold two64 in E. nia.
Qed.

Definition uleb_spec (bs : list byte) : res (N * list byte) :=
  match split_leb bs with
  | None => if (10 <=? length bs)%nat then Err EBadUnsignedLeb128 else Err EUnexpectedEof
  | Some (enc, rest) =>
      if (length enc <=? 10)%nat && (uval enc <? 2 ^ 64) then Ok (uval enc, rest)
      else Err EBadUnsignedLeb128
  end.

Theorem read_uleb128_exact dbg bs : read_uleb128 dbg bs = uleb_spec bs.
Proof.
  destruct bs as [|b r]; [reflexivity|].
  unfold read_uleb128, uleb_spec. cbn [split_leb]. rewrite cont_bit_has_cont.
  pose proof (byte_split b) as Hsplit. pose proof (low7_lt b) as Hlow.
  destruct (has_cont (b2n b)) eqn:Hc.
  - change 7 with (7 * 1). rewrite uleb_loop_exact by (change (2 ^ (7 * 1)) with 128; lia).
    unfold uleb_post. change (2 ^ (7 * 1)) with 128.
    destruct (split_leb r) as [[e rest]|].
    + cbn [uval length]. rewrite land127_low7. change two64 with (2 ^ 64).
      replace ((S (length e) <=? 10)%nat) with (1 + N.of_nat (length e) <=? 10) by lia.
      reflexivity.
    + cbn [length]. replace ((10 <=? S (length r))%nat) with (10 - 1 <=? N.of_nat (length r)) by lia.
      reflexivity.
  - cbn [uval length]. rewrite land127_low7.
    assert (Hlt : (low7 (b2n b) + 128 * 0 <? 2 ^ 64) = true).
    { change (2 ^ 64) with 18446744073709551616. lia. }
    rewrite Hlt. cbn [Nat.leb andb]. apply ok_pair_eq; lia.
Qed.

(* ================= signed ================= *)

Definition sval_at (bits u : N) : Z :=
  if u <? 2 ^ (bits - 1) then Z.of_N u else (Z.of_N u - Z.of_N (2 ^ bits))%Z.

Lemma sval_sval_at enc : sval enc = sval_at (7 * N.of_nat (length enc)) (uval enc).
Proof. reflexivity. Qed.

Lemma sign_bit_low7 (b : byte) : (N.land (b2n b) 64 =? 64) = (64 <=? low7 (b2n b)).
Proof. destruct b; vm_compute; reflexivity. Qed.

Lemma k_cases (k : N) : k <= 9 ->
  k = 0 \/ k = 1 \/ k = 2 \/ k = 3 \/ k = 4 \/ k = 5 \/ k = 6 \/ k = 7 \/ k = 8 \/ k = 9.
Proof. lia. Qed.

Ltac each_k k H :=
  destruct (k_cases k H) as [->|[->|[->|[->|[->|[->|[->|[->|[->| ->]]]]]]]]].

Lemma shl64_ones dbg (k : N) : 1 <= k <= 9 ->
  shl64 dbg (two64 - 1) (7 * k) = Ok (two64 - 2 ^ (7 * k)).
Proof.
  intros [H1 H9]. each_k k H9; try lia; vm_compute; reflexivity.
Qed.

Lemma ones_as_shift (k : N) : 1 <= k <= 9 ->
  two64 - 2 ^ (7 * k) = N.shiftl (2 ^ (64 - 7 * k) - 1) (7 * k).
Proof.
  intros [H1 H9]. each_k k H9; try lia; vm_compute; reflexivity.
Qed.

Lemma pow_half7 (k : N) : 2 ^ (7 * (k + 1) - 1) = 64 * 2 ^ (7 * k).
Proof.
  replace (7 * (k + 1) - 1) with (7 * k + 6) by lia. rewrite N.pow_add_r.
  change (2 ^ 6) with 64. lia.
Qed.

Lemma pow_le_63 (k : N) : k <= 9 -> 2 ^ (7 * k) <= 2 ^ 63.
Proof. intros. apply N.pow_le_mono_r; lia. Qed.

Definition sleb_post (result P : N) (k : N) (bs : list byte) : res (Z * list byte) :=
  match split_leb bs with
  | None => if 10 - k <=? N.of_nat (length bs) then Err EBadSignedLeb128 else Err EUnexpectedEof
  | Some (enc, rest) =>
      let u := result + P * uval enc in
      let n := k + N.of_nat (length enc) in
      if (n <=? 10) && in_i64 (sval_at (7 * n) u)
      then Ok (sval_at (7 * n) u, rest) else Err EBadSignedLeb128
  end.

Lemma to_i64_small (x : N) : x < 2 ^ 63 -> to_i64 x = Z.of_N x.
Proof.
  intros H. unfold to_i64, to_signed, wrapN. change (64 - 1) with 63.
  change (2 ^ 63) with 9223372036854775808 in *. change (2 ^ 64) with 18446744073709551616.
  rewrite N.mod_small by lia.
  destruct (x <? 9223372036854775808) eqn:E; [reflexivity|lia].
Qed.

Lemma to_i64_big (x : N) : 2 ^ 63 <= x < 2 ^ 64 -> to_i64 x = (Z.of_N x - 18446744073709551616)%Z.
Proof.
  intros H. unfold to_i64, to_signed, wrapN. change (64 - 1) with 63.
  change (2 ^ 63) with 9223372036854775808 in *. change (2 ^ 64) with 18446744073709551616 in *.
  rewrite N.mod_small by lia.
  destruct (x <? 9223372036854775808) eqn:E; [lia|reflexivity].
Qed.

Lemma sleb_loop_exact dbg : forall bs k result,
  k <= 9 -> result < 2 ^ (7 * k) ->
  sleb_loop dbg result (7 * k) bs = sleb_post result (2 ^ (7 * k)) k bs.
Proof.
  induction bs as [|b r IH]; intros k result Hk Hres.
  - unfold sleb_post. cbn [sleb_loop split_leb length].
    destruct (10 - k <=? N.of_nat 0) eqn:E; [lia|reflexivity].
  - cbn [sleb_loop]. unfold sleb_post. cbn [split_leb length].
    rewrite cont_bit_has_cont.
    pose proof (byte_split b) as Hsplit. pose proof (low7_lt b) as Hlow.
    pose proof (pow_pos (7 * k)) as HP.
    destruct (N.eq_dec k 9) as [->|Hk9].
    + change (7 * 9) with 63 in *. change (63 =? 63) with true. cbn [andb].
      change (2 ^ 63) with 9223372036854775808 in *.
      destruct (b2n b =? 0) eqn:E0; cbn [negb andb].
      * assert (Hb : b2n b = 0) by lia.
        assert (Hc : has_cont (b2n b) = false) by (rewrite Hb; reflexivity).
        assert (Hl : low7 (b2n b) = 0) by (rewrite Hb; reflexivity).
        rewrite Hc, Hl. rewrite (shl64_63 dbg 0) by lia. cbn [bind].
        rewrite N.mul_0_l, N.lor_0_r.
        change (63 + 7 <? 64) with false. cbn [andb].
        cbn [uval length]. rewrite land127_low7, Hl.
        rewrite to_i64_small by (change (2 ^ 63) with 9223372036854775808; lia).
        change (7 * (9 + N.of_nat 1)) with 70.
        unfold sval_at. change (2 ^ (70 - 1)) with 590295810358705651712.
        replace (result + 9223372036854775808 * (0 + 128 * 0)) with result by lia.
        destruct (result <? 590295810358705651712) eqn:E; [|lia].
        unfold in_i64.
        destruct ((9 + N.of_nat 1 <=? 10) &&
                  ((-9223372036854775808 <=? Z.of_N result)%Z && (Z.of_N result <? 9223372036854775808)%Z)) eqn:E2;
          [reflexivity|lia].
      * destruct (b2n b =? 127) eqn:E1; cbn [negb].
        -- assert (Hb : b2n b = 127) by lia.
           assert (Hc : has_cont (b2n b) = false) by (rewrite Hb; reflexivity).
           assert (Hl : low7 (b2n b) = 127) by (rewrite Hb; reflexivity).
           rewrite Hc, Hl.
           assert (Hsh : shl64 dbg 127 63 = Ok (N.shiftl 1 63)) by (destruct dbg; reflexivity).
           rewrite Hsh. cbn [bind].
           rewrite lor_shiftl_add by (change (2 ^ 63) with 9223372036854775808; exact Hres).
           change (N.shiftl 1 63) with 9223372036854775808.
           change (63 + 7 <? 64) with false. cbn [andb].
           cbn [uval length]. rewrite land127_low7, Hl.
           rewrite to_i64_big
             by (change (2 ^ 63) with 9223372036854775808; change (2 ^ 64) with 18446744073709551616; lia).
           change (7 * (9 + N.of_nat 1)) with 70.
           unfold sval_at. change (2 ^ (70 - 1)) with 590295810358705651712.
           change (2 ^ 70) with 1180591620717411303424.
           destruct (result + 9223372036854775808 * (127 + 128 * 0) <? 590295810358705651712) eqn:E; [lia|].
           unfold in_i64.
           match goal with |- _ = (if ?c then _ else _) => destruct c eqn:E2 end.
           ++ apply ok_pair_eq. lia.
           ++ exfalso. lia.
        -- destruct (has_cont (b2n b)) eqn:Hc.
           ++ destruct (split_leb r) as [[e rest]|] eqn:Hs.
              ** pose proof (split_leb_nonempty _ _ _ Hs). cbn [length].
                 match goal with |- _ = (if ?c then _ else _) => destruct c eqn:E end; [lia|reflexivity].
              ** destruct (10 - 9 <=? N.of_nat (S (length r))) eqn:E; [reflexivity|lia].
           ++ cbn [uval length]. rewrite land127_low7.
              change (7 * (9 + N.of_nat 1)) with 70.
              unfold sval_at. change (2 ^ (70 - 1)) with 590295810358705651712.
              change (2 ^ 70) with 1180591620717411303424. unfold in_i64.
              set (l := low7 (b2n b)) in *.
              assert (Hl : 1 <= l <= 126) by lia.
              destruct (result + 9223372036854775808 * (l + 128 * 0) <? 590295810358705651712) eqn:E.
              ** match goal with |- _ = (if ?c then _ else _) => destruct c eqn:E2 end; [lia|reflexivity].
              ** match goal with |- _ = (if ?c then _ else _) => destruct c eqn:E2 end; [lia|reflexivity].
    + assert (Hk8 : k <= 8) by lia.
      assert (Hne : (7 * k =? 63) = false) by lia. rewrite Hne. cbn [andb].
      rewrite (shl64_small dbg _ k Hlow Hk8). cbn [bind].
      rewrite <- N.shiftl_mul_pow2, lor_shiftl_add by exact Hres. rewrite N.shiftl_mul_pow2.
      pose proof (pow_le_56 k Hk8) as HP56. change (2 ^ 56) with 72057594037927936 in HP56.
      replace (7 * k + 7) with (7 * (k + 1)) by lia.
      pose proof (pow7 k) as HQ. pose proof (pow_half7 k) as HH.
      set (P := 2 ^ (7 * k)) in *.
      set (l := low7 (b2n b)) in *.
      assert (Hres' : result + l * P < 2 ^ (7 * (k + 1))) by (rewrite HQ; nia).
      destruct (has_cont (b2n b)) eqn:Hc.
      * rewrite IH by (try exact Hres'; lia). unfold sleb_post.
        destruct (split_leb r) as [[e rest]|].
        -- cbn [uval length]. rewrite land127_low7. fold l. rewrite HQ.
           replace (result + l * P + P * 128 * uval e) with (result + P * (l + 128 * uval e)) by lia.
           replace (k + 1 + N.of_nat (length e)) with (k + N.of_nat (S (length e))) by lia.
           reflexivity.
        -- replace (10 - (k + 1) <=? N.of_nat (length r)) with (10 - k <=? N.of_nat (S (length r))); [reflexivity|].
           lia.
      * cbn [uval length]. rewrite land127_low7. fold l.
        replace (k + N.of_nat 1) with (k + 1) by lia.
        replace (result + P * (l + 128 * 0)) with (result + l * P) by lia.
        assert (Hlt : (7 * (k + 1) <? 64) = true) by lia. rewrite Hlt. cbn [andb].
        rewrite sign_bit_low7. fold l.
        unfold sval_at. rewrite HH, HQ.
        assert (HX : l * P <= 127 * P) by nia.
        destruct (64 <=? l) eqn:Esign.
        -- assert (HX2 : 64 * P <= l * P) by nia.
           rewrite (shl64_ones dbg (k + 1)) by lia. cbn [bind].
           rewrite (ones_as_shift (k + 1)) by lia.
           rewrite lor_shiftl_add by exact Hres'.
           rewrite <- (ones_as_shift (k + 1)) by lia. rewrite HQ.
           set (X := l * P) in *.
           rewrite to_i64_big
             by (change (2 ^ 63) with 9223372036854775808; change (2 ^ 64) with 18446744073709551616;
                 unfold two64; lia).
           destruct (result + X <? 64 * P) eqn:E; [lia|].
           unfold in_i64, two64.
           match goal with |- _ = (if ?c then _ else _) => destruct c eqn:E2 end.
           ++ apply ok_pair_eq. lia.
           ++ exfalso. lia.
        -- set (X := l * P) in *. assert (HX3 : X <= 63 * P) by (unfold X; nia).
           rewrite to_i64_small by (change (2 ^ 63) with 9223372036854775808; lia).
           destruct (result + X <? 64 * P) eqn:E; [|lia].
           unfold in_i64.
           match goal with |- _ = (if ?c then _ else _) => destruct c eqn:E2 end.
           ++ reflexivity.
           ++ exfalso. lia.
Qed.

Definition sleb_spec (bs : list byte) : res (Z * list byte) :=
  match split_leb bs with
  | None => if (10 <=? length bs)%nat then Err EBadSignedLeb128 else Err EUnexpectedEof
  | Some (enc, rest) =>
      if (length enc <=? 10)%nat && in_i64 (sval enc) then Ok (sval enc, rest)
      else Err EBadSignedLeb128
  end.

Theorem read_sleb128_exact dbg bs : read_sleb128 dbg bs = sleb_spec bs.
Proof.
  unfold read_sleb128, sleb_spec. change 0 with (7 * 0) at 2.
  rewrite sleb_loop_exact by (change (2 ^ (7 * 0)) with 1; lia).
  unfold sleb_post. change (2 ^ (7 * 0)) with 1.
  destruct (split_leb bs) as [[e rest]|].
  - rewrite sval_sval_at.
    replace (0 + 1 * uval e) with (uval e) by lia.
    replace (0 + N.of_nat (length e)) with (N.of_nat (length e)) by lia.
    replace ((length e <=? 10)%nat) with (N.of_nat (length e) <=? 10) by lia.
    reflexivity.
  - replace ((10 <=? length bs)%nat) with (10 - 0 <=? N.of_nat (length bs)) by lia.
    reflexivity.
Qed.

(* ---- corollaries used by C01: the readers never panic (the `64 <=? shift` branch of shl64 is dead) ---- *)
Lemma read_uleb128_total dbg bs : read_uleb128 dbg bs <> Panic /\ read_uleb128 dbg bs <> OutOfFuel.
Proof.
  rewrite read_uleb128_exact. unfold uleb_spec.
  destruct (split_leb bs) as [[e r]|].
  - destruct ((length e <=? 10)%nat && (uval e <? 2 ^ 64)); split; discriminate.
  - destruct (10 <=? length bs)%nat; split; discriminate.
Qed.

Lemma read_sleb128_total dbg bs : read_sleb128 dbg bs <> Panic /\ read_sleb128 dbg bs <> OutOfFuel.
Proof.
  rewrite read_sleb128_exact. unfold sleb_spec.
  destruct (split_leb bs) as [[e r]|].
  - destruct ((length e <=? 10)%nat && in_i64 (sval e)); split; discriminate.
  - destruct (10 <=? length bs)%nat; split; discriminate.
Qed.

(* ================= the 16-bit reader ================= *)

Definition uleb16_spec (bs : list byte) : res (N * list byte) :=
  match split_leb bs with
  | None => if (3 <=? length bs)%nat then Err EBadUnsignedLeb128 else Err EUnexpectedEof
  | Some (enc, rest) =>
      if (length enc <=? 3)%nat && (uval enc <? 2 ^ 16) then Ok (uval enc, rest)
      else Err EBadUnsignedLeb128
  end.

Lemma wrap16_shl7 (l : N) : l < 128 -> wrap16 (N.shiftl l 7) = l * 128.
Proof.
  intros H. unfold wrap16, two16. rewrite N.shiftl_mul_pow2. change (2 ^ 7) with 128.
  apply N.mod_small. lia.
Qed.

Lemma wrap16_shl14 (l : N) : l <= 3 -> wrap16 (N.shiftl l 14) = l * 16384.
Proof.
  intros H. unfold wrap16, two16. rewrite N.shiftl_mul_pow2. change (2 ^ 14) with 16384.
  apply N.mod_small. lia.
Qed.

Theorem read_uleb128_u16_exact bs : read_uleb128_u16 bs = uleb16_spec bs.
Proof.
  unfold read_uleb128_u16, uleb16_spec.
  destruct bs as [|b0 r0]; [reflexivity|].
  cbn [read_u8 bind split_leb]. rewrite cont_bit_has_cont.
  pose proof (byte_split b0) as Hs0. pose proof (low7_lt b0) as Hl0.
  destruct (has_cont (b2n b0)) eqn:Hc0; cbn [negb].
  2:{ cbn [uval length]. rewrite land127_low7. change (2 ^ 16) with 65536.
      destruct ((1 <=? 3)%nat && (low7 (b2n b0) + 128 * 0 <? 65536)) eqn:E; [|lia].
      apply ok_pair_eq. lia. }
  destruct r0 as [|b1 r1]; [reflexivity|].
  cbn [read_u8 bind split_leb]. rewrite cont_bit_has_cont.
  pose proof (byte_split b1) as Hs1. pose proof (low7_lt b1) as Hl1.
  rewrite (wrap16_shl7 _ Hl1).
  replace (low7 (b2n b1) * 128) with (N.shiftl (low7 (b2n b1)) 7)
    by (rewrite N.shiftl_mul_pow2; reflexivity).
  rewrite lor_shiftl_add by (change (2 ^ 7) with 128; exact Hl0).
  rewrite N.shiftl_mul_pow2. change (2 ^ 7) with 128.
  destruct (has_cont (b2n b1)) eqn:Hc1; cbn [negb].
  2:{ cbn [uval length]. rewrite !land127_low7. change (2 ^ 16) with 65536.
      match goal with |- _ = (if ?c then _ else _) => destruct c eqn:E end; [|lia].
      apply ok_pair_eq. lia. }
  destruct r1 as [|b2 r2]; [reflexivity|].
  cbn [read_u8 bind split_leb]. rewrite cont_bit_has_cont.
  pose proof (byte_split b2) as Hs2. pose proof (low7_lt b2) as Hl2.
  destruct (has_cont (b2n b2)) eqn:Hc2.
  - (* third byte has the continuation bit: > 3 *)
    destruct (3 <? b2n b2) eqn:E3; [|lia].
    destruct (split_leb r2) as [[e rest]|] eqn:Hsp.
    + pose proof (split_leb_nonempty _ _ _ Hsp). cbn [length].
      match goal with |- _ = (if ?c then _ else _) => destruct c eqn:E end; [lia|reflexivity].
    + cbn [length]. destruct (3 <=? S (S (S (length r2))))%nat eqn:E; [reflexivity|lia].
  - cbn [uval length]. rewrite !land127_low7. change (2 ^ 16) with 65536.
    destruct (3 <? b2n b2) eqn:E3.
    + match goal with |- _ = (if ?c then _ else _) => destruct c eqn:E end; [lia|reflexivity].
    + rewrite wrap16_shl14 by lia. unfold two16.
      match goal with |- (if ?c then _ else _) = _ => destruct c eqn:E end; [|lia].
      match goal with |- _ = (if ?c then _ else _) => destruct c eqn:E' end; [|lia].
      apply ok_pair_eq. lia.
Qed.

Lemma read_uleb128_u16_no_panic bs : read_uleb128_u16 bs <> Panic /\ read_uleb128_u16 bs <> OutOfFuel.
Proof.
  rewrite read_uleb128_u16_exact. unfold uleb16_spec.
  destruct (split_leb bs) as [[e rest]|].
  - destruct ((length e <=? 3)%nat && (uval e <? 2 ^ 16)); split; discriminate.
  - destruct (3 <=? length bs)%nat; split; discriminate.
Qed.

(* ================= u32 narrowing ================= *)

Definition uleb32_spec (bs : list byte) : res (N * list byte) :=
  match split_leb bs with
  | None => if (10 <=? length bs)%nat then Err EBadUnsignedLeb128 else Err EUnexpectedEof
  | Some (enc, rest) =>
      if (length enc <=? 10)%nat && (uval enc <? 2 ^ 32) then Ok (uval enc, rest)
      else Err EBadUnsignedLeb128
  end.

Theorem read_uleb128_u32_exact dbg bs : read_uleb128_u32 dbg bs = uleb32_spec bs.
Proof.
  unfold read_uleb128_u32, uleb32_spec. rewrite read_uleb128_exact. unfold uleb_spec.
  destruct (split_leb bs) as [[e rest]|].
  - change (2 ^ 64) with 18446744073709551616. change (2 ^ 32) with 4294967296. unfold two32.
    destruct ((length e <=? 10)%nat && (uval e <? 18446744073709551616)) eqn:E1; cbn [bind].
    + destruct (uval e <? 4294967296) eqn:E2.
      * destruct ((length e <=? 10)%nat && true) eqn:E3; [reflexivity|lia].
      * destruct ((length e <=? 10)%nat && false) eqn:E3; [lia|reflexivity].
    + destruct ((length e <=? 10)%nat && (uval e <? 4294967296)) eqn:E3; [lia|reflexivity].
  - destruct (10 <=? length bs)%nat; reflexivity.
Qed.

(* narrowing view: relative to the 64-bit reader *)
Lemma read_uleb128_u32_narrow dbg bs :
  read_uleb128_u32 dbg bs =
  match read_uleb128 dbg bs with
  | Ok (v, rest) => if v <? 2 ^ 32 then Ok (v, rest) else Err EBadUnsignedLeb128
  | Err e => Err e
  | Panic => Panic
  | OutOfFuel => OutOfFuel
  end.
Proof.
  unfold read_uleb128_u32. destruct (read_uleb128 dbg bs) as [[v r]| | |]; reflexivity.
Qed.

(* ================= skip ================= *)

Theorem skip_leb_exact bs :
  skip_leb bs = match split_leb bs with
                | Some (_, rest) => Ok (tt, rest)
                | None => Err EUnexpectedEof
                end.
Proof.
  induction bs as [|b r IH]; [reflexivity|].
  cbn [skip_leb split_leb]. rewrite cont_bit_has_cont.
  destruct (has_cont (b2n b)); [|reflexivity].
  rewrite IH. destruct (split_leb r) as [[e rest]|]; reflexivity.
Qed.

(* ================= writers ================= *)

Fixpoint p128 (n : nat) : N := match n with O => 1 | S k => 128 * p128 k end.

Lemma p128_pos n : 0 < p128 n.
Proof. induction n; cbn [p128]; lia. Qed.

Lemma p128_pow n : 2 ^ (7 * N.of_nat n) = p128 n.
Proof.
  induction n as [|n IH]; [reflexivity|].
  replace (7 * N.of_nat (S n)) with (7 + 7 * N.of_nat n) by lia.
  rewrite N.pow_add_r, IH. reflexivity.
Qed.

Lemma p128_half n : 2 ^ (7 * N.of_nat (S n) - 1) = 64 * p128 n.
Proof.
  replace (7 * N.of_nat (S n) - 1) with (6 + 7 * N.of_nat n) by lia.
  rewrite N.pow_add_r, p128_pow. reflexivity.
Qed.

Lemma small_byte (x : N) : x < 128 ->
  b2n (n2b x) = x /\ has_cont x = false /\ low7 x = x.
Proof.
  intros H. assert (Hb : b2n (n2b x) = x) by (apply b2n_n2b_small; lia).
  pose proof (byte_split (n2b x)) as Hs. pose proof (low7_lt (n2b x)) as Hl.
  rewrite Hb in Hs, Hl. destruct (has_cont x); [lia|]. repeat split; lia.
Qed.

Lemma cont_byte (x : N) : x < 128 ->
  N.lor x CONT = x + 128 /\ b2n (n2b (x + 128)) = x + 128 /\
  has_cont (x + 128) = true /\ low7 (x + 128) = x.
Proof.
  intros H. unfold CONT.
  assert (Hlor : N.lor x 128 = x + 128).
  { change 128 with (N.shiftl 1 7). apply lor_shiftl_add. change (2 ^ 7) with 128. exact H. }
  assert (Hb : b2n (n2b (x + 128)) = x + 128) by (apply b2n_n2b_small; lia).
  pose proof (byte_split (n2b (x + 128))) as Hs. pose proof (low7_lt (n2b (x + 128))) as Hl.
  rewrite Hb in Hs, Hl. destruct (has_cont (x + 128)); [|lia]. repeat split; lia.
Qed.

Lemma low7_land255 (v : N) : low7 (N.land v 255) = v mod 128.
Proof.
  unfold low7. change 255 with (N.ones 8). change 127 with (N.ones 7).
  rewrite !N.land_ones. change (2 ^ 8) with 256. change (2 ^ 7) with 128.
  pose proof (N.mod_lt v 256). pose proof (N.mod_lt v 128). pose proof (N.mod_lt (v mod 256) 128).
  pose proof (N.div_mod v 256). pose proof (N.div_mod v 128). pose proof (N.div_mod (v mod 256) 128).
  lia.
Qed.

Lemma shiftr7 (v : N) : N.shiftr v 7 = v / 128.
Proof. rewrite N.shiftr_div_pow2. reflexivity. Qed.

Lemma write_uleb_fuel_S f v :
  write_uleb_fuel (S f) v =
  if v / 128 =? 0 then Ok [n2b (v mod 128)]
  else let* rest := write_uleb_fuel f (v / 128) in Ok (n2b (N.lor (v mod 128) CONT) :: rest).
Proof. cbn [write_uleb_fuel]. rewrite low7_land255, shiftr7. reflexivity. Qed.

Lemma uleb_size_fuel_S f v :
  uleb_size_fuel (S f) v = if v / 128 =? 0 then 1 else 1 + uleb_size_fuel f (v / 128).
Proof. cbn [uleb_size_fuel]. rewrite shiftr7. reflexivity. Qed.

(* what the unsigned writer produces, for any fuel that covers the value *)
Lemma write_uleb_fuel_ok : forall f v, v < 128 * p128 f ->
  exists enc, write_uleb_fuel (S f) v = Ok enc /\
    uval enc = v /\ N.of_nat (length enc) = uleb_size_fuel (S f) v /\
    (1 <= length enc <= S f)%nat /\
    forall r, split_leb (enc ++ r) = Some (enc, r).
Proof.
  induction f as [|f IH]; intros v Hv.
  - cbn [p128] in Hv. rewrite write_uleb_fuel_S, uleb_size_fuel_S.
    assert (Hq : v / 128 = 0) by (apply N.div_small; lia).
    assert (Hm : v mod 128 = v) by (apply N.mod_small; lia).
    rewrite Hq, Hm. cbn [N.eqb].
    destruct (small_byte v) as (Hb & Hc & Hl); [lia|].
    exists [n2b v]. split; [reflexivity|]. cbn [uval length app split_leb].
    rewrite cont_bit_has_cont, land127_low7, Hb, Hc, Hl.
    repeat split; lia.
  - cbn [p128] in Hv. rewrite write_uleb_fuel_S, (uleb_size_fuel_S (S f)).
    pose proof (N.div_mod v 128) as Hdm. pose proof (N.mod_lt v 128) as Hml.
    set (q := v / 128) in *. set (m := v mod 128) in *.
    destruct (q =? 0) eqn:Eq.
    + assert (Hm : m = v) by lia. rewrite Hm.
      destruct (small_byte v) as (Hb & Hc & Hl); [lia|].
      exists [n2b v]. split; [reflexivity|]. cbn [uval length app split_leb].
      rewrite cont_bit_has_cont, land127_low7, Hb, Hc, Hl.
      repeat split; lia.
    + destruct (IH q) as (enc & Hw & Hu & Hlen & Hrange & Hsplit).
      { pose proof (p128_pos f). cbn [p128] in *. lia. }
      rewrite Hw. cbn [bind].
      destruct (cont_byte m) as (Hlor & Hb & Hc & Hl); [lia|].
      rewrite Hlor.
      exists (n2b (m + 128) :: enc). split; [reflexivity|].
      cbn [uval length app split_leb].
      rewrite cont_bit_has_cont, land127_low7, Hb, Hc, Hl, Hu.
      split; [lia|]. split.
      { lia. }
      split; [lia|].
      intros r. rewrite Hsplit. reflexivity.
Qed.

Lemma uleb128_size_range v : v < two64 -> 1 <= uleb128_size v <= 10.
Proof.
  intros Hv. destruct (write_uleb_fuel_ok 9 v) as (enc & _ & _ & Hlen & Hr & _).
  { unfold two64 in Hv. change (128 * p128 9) with 1180591620717411303424. lia. }
  unfold uleb128_size. lia.
Qed.

Theorem write_uleb128_read v : v < two64 ->
  exists enc, write_uleb128 v = Ok enc /\
    uval enc = v /\
    N.of_nat (length enc) = uleb128_size v /\ (1 <= length enc <= 10)%nat /\
    forall r, split_leb (enc ++ r) = Some (enc, r) /\
              forall dbg, read_uleb128 dbg (enc ++ r) = Ok (v, r).
Proof.
  intros Hv. destruct (write_uleb_fuel_ok 9 v) as (enc & Hw & Hu & Hlen & Hr & Hsplit).
  { unfold two64 in Hv. change (128 * p128 9) with 1180591620717411303424. lia. }
  exists enc. split; [exact Hw|]. split; [exact Hu|]. split; [exact Hlen|]. split; [exact Hr|].
  intros r. split; [apply Hsplit|]. intros dbg.
  rewrite read_uleb128_exact. unfold uleb_spec. rewrite Hsplit, Hu.
  change (2 ^ 64) with two64.
  destruct ((length enc <=? 10)%nat && (v <? two64)) eqn:E; [reflexivity|lia].
Qed.

(* ---- signed writer ---- *)

Lemma lor128_byte (b : byte) : N.lor (b2n b) CONT = low7 (b2n b) + 128.
Proof. destruct b; vm_compute; reflexivity. Qed.

Lemma land127_mod (x : N) : N.land x 127 = x mod 128.
Proof. change 127 with (N.ones 7). rewrite N.land_ones. reflexivity. Qed.

Section WithDivMod.
Local Ltac Zify.zify_post_hook ::= Z.div_mod_to_equations.

Lemma sleb_done_iff (v : Z) :
  ((Z.shiftr v 6 =? 0) || (Z.shiftr v 6 =? -1))%Z = ((-64 <=? v) && (v <? 64))%Z.
Proof. rewrite Z.shiftr_div_pow2 by lia. change (2 ^ 6)%Z with 64%Z. lia. Qed.

Lemma sleb_next (v : Z) : Z.shiftr (Z.shiftr v 6) 1 = (v / 128)%Z.
Proof.
  rewrite !Z.shiftr_div_pow2 by lia. change (2 ^ 6)%Z with 64%Z. change (2 ^ 1)%Z with 2%Z. lia.
Qed.

Lemma sleb_low (v : Z) : N.land (Z.to_N (v mod 256)) 127 = Z.to_N (v mod 128).
Proof. rewrite land127_mod. lia. Qed.

Lemma sleb_high (v : Z) : N.lor (Z.to_N (v mod 256)) CONT = Z.to_N (v mod 128) + 128.
Proof.
  assert (Hb : b2n (n2b (Z.to_N (v mod 256))) = Z.to_N (v mod 256)) by (apply b2n_n2b_small; lia).
  rewrite <- Hb, lor128_byte, Hb. unfold low7. rewrite land127_mod. lia.
Qed.
End WithDivMod.

Lemma write_sleb_fuel_S f v :
  write_sleb_fuel (S f) v =
  if ((-64 <=? v) && (v <? 64))%Z then Ok [n2b (Z.to_N (v mod 128))]
  else let* rest := write_sleb_fuel f (v / 128) in Ok (n2b (Z.to_N (v mod 128) + 128) :: rest).
Proof. cbn [write_sleb_fuel]. rewrite sleb_done_iff, sleb_next, sleb_low, sleb_high. reflexivity. Qed.

Lemma sleb_size_fuel_S f v :
  sleb_size_fuel (S f) v =
  if ((-64 <=? v) && (v <? 64))%Z then 1 else 1 + sleb_size_fuel f (v / 128).
Proof. cbn [sleb_size_fuel]. rewrite sleb_done_iff, sleb_next. reflexivity. Qed.

Lemma write_sleb_fuel_ok : forall f v,
  (- 64 * Z.of_N (p128 f) <= v < 64 * Z.of_N (p128 f))%Z ->
  exists enc n, write_sleb_fuel (S f) v = Ok enc /\
    length enc = S n /\ (n <= f)%nat /\
    N.of_nat (length enc) = sleb_size_fuel (S f) v /\
    Z.of_N (uval enc) = (v mod (128 * Z.of_N (p128 n)))%Z /\
    (- 64 * Z.of_N (p128 n) <= v < 64 * Z.of_N (p128 n))%Z /\
    forall r, split_leb (enc ++ r) = Some (enc, r).
Proof.
  induction f as [|f IH]; intros v Hv; rewrite write_sleb_fuel_S, sleb_size_fuel_S.
  - cbn [p128] in Hv.
    destruct ((-64 <=? v) && (v <? 64))%Z eqn:E; [|lia].
    pose proof (Z.mod_pos_bound v 128 ltac:(lia)) as Hm.
    destruct (small_byte (Z.to_N (v mod 128))) as (Hb & Hc & Hl); [lia|].
    exists [n2b (Z.to_N (v mod 128))], O. split; [reflexivity|].
    cbn [uval length app split_leb p128].
    rewrite cont_bit_has_cont, land127_low7, Hb, Hc, Hl.
    repeat split; try lia.
  - destruct ((-64 <=? v) && (v <? 64))%Z eqn:E.
    + pose proof (Z.mod_pos_bound v 128 ltac:(lia)) as Hm.
      destruct (small_byte (Z.to_N (v mod 128))) as (Hb & Hc & Hl); [lia|].
      exists [n2b (Z.to_N (v mod 128))], O. split; [reflexivity|].
      cbn [uval length app split_leb p128].
      rewrite cont_bit_has_cont, land127_low7, Hb, Hc, Hl.
      repeat split; try lia.
    + pose proof (Z.mod_pos_bound v 128 ltac:(lia)) as Hm.
      pose proof (Z.div_mod v 128 ltac:(lia)) as Hdm.
      set (q := (v / 128)%Z) in *. set (m := (v mod 128)%Z) in *.
      pose proof (p128_pos f) as Hpf.
      destruct (IH q) as (enc & n & Hw & Hlen & Hn & Hsz & Hu & Hrange & Hsplit).
      { cbn [p128] in Hv. lia. }
      rewrite Hw. cbn [bind].
      destruct (cont_byte (Z.to_N m)) as (_ & Hb & Hc & Hl); [lia|].
      exists (n2b (Z.to_N m + 128) :: enc), (S n). split; [reflexivity|].
      cbn [uval length app split_leb].
      rewrite cont_bit_has_cont, land127_low7, Hb, Hc, Hl.
      pose proof (p128_pos n) as Hpn.
      split; [lia|]. split; [lia|]. split; [lia|]. split.
      { cbn [p128].
        replace (128 * Z.of_N (128 * p128 n))%Z with (128 * (128 * Z.of_N (p128 n)))%Z by lia.
        rewrite Z.rem_mul_r by lia. fold q m. lia. }
      split.
      { cbn [p128]. lia. }
      intros r. rewrite Hsplit. reflexivity.
Qed.

Lemma sval_of_parts enc n v :
  length enc = S n ->
  Z.of_N (uval enc) = (v mod (128 * Z.of_N (p128 n)))%Z ->
  (- 64 * Z.of_N (p128 n) <= v < 64 * Z.of_N (p128 n))%Z ->
  sval enc = v.
Proof.
  intros Hlen Hu Hr. unfold sval. rewrite Hlen, p128_half, p128_pow. cbn [p128].
  pose proof (p128_pos n) as Hp.
  set (M := (128 * Z.of_N (p128 n))%Z) in *.
  destruct (Z.neg_nonneg_cases v) as [Hneg|Hpos].
  - assert (Hm : (v mod M = v + M)%Z).
    { rewrite <- (Z.mod_add v 1 M) by lia. rewrite Z.mod_small by lia. lia. }
    destruct (uval enc <? 64 * p128 n) eqn:E; lia.
  - assert (Hm : (v mod M = v)%Z) by (apply Z.mod_small; lia).
    destruct (uval enc <? 64 * p128 n) eqn:E; lia.
Qed.

Theorem write_sleb128_read v : in_i64 v = true ->
  exists enc, write_sleb128 v = Ok enc /\
    sval enc = v /\
    N.of_nat (length enc) = sleb128_size v /\ (1 <= length enc <= 10)%nat /\
    forall r, split_leb (enc ++ r) = Some (enc, r) /\
              forall dbg, read_sleb128 dbg (enc ++ r) = Ok (v, r).
Proof.
  intros Hv. unfold in_i64 in Hv.
  destruct (write_sleb_fuel_ok 9 v) as (enc & n & Hw & Hlen & Hn & Hsz & Hu & Hrange & Hsplit).
  { change (p128 9) with 9223372036854775808. lia. }
  pose proof (sval_of_parts enc n v Hlen Hu Hrange) as Hs.
  exists enc. split; [exact Hw|]. split; [exact Hs|]. split; [exact Hsz|]. split; [lia|].
  intros r. split; [apply Hsplit|]. intros dbg.
  rewrite read_sleb128_exact. unfold sleb_spec. rewrite Hsplit, Hs.
  unfold in_i64.
  match goal with |- (if ?c then _ else _) = _ => destruct c eqn:E end; [reflexivity|lia].
Qed.

Lemma sleb128_size_range v : in_i64 v = true -> 1 <= sleb128_size v <= 10.
Proof.
  intros Hv. destruct (write_sleb128_read v Hv) as (enc & _ & _ & Hsz & Hr & _). lia.
Qed.
