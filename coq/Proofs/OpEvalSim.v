(* Proofs/OpEvalSim.v — the evaluator model of C07 (Model/OpEval.v) does not see the LAYOUT of a program:
   two bytecodes that decode, boundary by boundary, to the same operations — branch displacements re-targeted
   to the corresponding boundaries — produce the same conversation (same requests, same final result and
   counters) for every configuration, answer list, fuel and build mode.  Used by OpRoundtrip for eval_same. *)
From Coq Require Import List NArith ZArith Bool Lia ZifyBool ZifyN ZifyNat.
From Coq.Strings Require Import Byte.
Require Import GV.Base.Res GV.Base.Byt GV.Base.Ints GV.Model.Leb GV.Model.Prim.
Require Import GV.Model.OpDec GV.Model.OpVal GV.Model.OpEval GV.Spec.StackSpec GV.Proofs.OpDecProofs GV.Proofs.OpEvalProofs.
Import ListNotations.
Local Open Scope N_scope.

Lemma parse_any dbg e bs : parse_op dbg e bs = parse_op true e bs.
Proof. destruct dbg; [reflexivity|symmetry; apply parse_op_dbg]. Qed.

Lemma compute_pc_ext s1 s2 d :
  s_bytecode s1 = s_bytecode s2 -> s_pc s1 = s_pc s2 -> compute_pc s1 d = compute_pc s2 d.
Proof. intros H1 H2. unfold compute_pc. rewrite H1, H2. reflexivity. Qed.

Section Sim.
Variable F : fops.
Variable e : enc.
Variables P1 P2 : list byte.
(* corresponding operation boundaries (offsets into P1, P2) *)
Variable pts : list (nat * nat).

Definition i16 (d : Z) : Prop := (- 32768 <= d < 32768)%Z.

(* how the operations at corresponding boundaries must relate; (a', b') = the boundaries after them *)
Definition orel (a' b' : nat) (o1 o2 : operation) : Prop :=
  match o1, o2 with
  | OSkip d1, OSkip d2 | OBra d1, OBra d2 =>
      i16 d1 /\ i16 d2 /\
      exists aj bj, In (aj, bj) pts /\ (Z.of_nat a' + d1 = Z.of_nat aj)%Z /\ (Z.of_nat b' + d2 = Z.of_nat bj)%Z
  | OSkip _, _ | OBra _, _ | _, OSkip _ | _, OBra _ => False
  | _, _ => o1 = o2
  end.

Definition layout_ok : Prop :=
  In (0%nat, 0%nat) pts /\
  N.of_nat (length P1) < 2 ^ 63 /\ N.of_nat (length P2) < 2 ^ 63 /\
  forall a b, In (a, b) pts ->
    (a <= length P1)%nat /\ (b <= length P2)%nat /\ (a = length P1 <-> b = length P2) /\
    ((a < length P1)%nat ->
     exists o1 o2 a' b', In (a', b') pts /\
       parse_op true e (skipn a P1) = Ok (o1, skipn a' P1) /\
       parse_op true e (skipn b P2) = Ok (o2, skipn b' P2) /\
       orel a' b' o1 o2).

Hypothesis LO : layout_ok.

(* frames (pc, bytecode): identical, or the two programs at corresponding boundaries *)
Definition FR (f1 f2 : list byte * list byte) : Prop :=
  f1 = f2 \/
  (snd f1 = P1 /\ snd f2 = P2 /\ exists a b, In (a, b) pts /\ fst f1 = skipn a P1 /\ fst f2 = skipn b P2).

Definition SR (s1 s2 : st) : Prop :=
  s_stack s1 = s_stack s2 /\ s_result s1 = s_result s2 /\ s_iter s1 = s_iter s2 /\ s_vres s1 = s_vres s2 /\
  s_nops s1 = s_nops s2 /\ s_nparse s1 = s_nparse s2 /\
  FR (s_pc s1, s_bytecode s1) (s_pc s2, s_bytecode s2) /\ Forall2 FR (s_estack s1) (s_estack s2).

Definition RR {X} (r1 r2 : res (X * st)) : Prop :=
  match r1, r2 with
  | Ok (x1, s1), Ok (x2, s2) => x1 = x2 /\ SR s1 s2
  | Err e1, Err e2 => e1 = e2
  | Panic, Panic => True
  | OutOfFuel, OutOfFuel => True
  | _, _ => False
  end.
Definition RS (r1 r2 : res st) : Prop :=
  match r1, r2 with
  | Ok s1, Ok s2 => SR s1 s2
  | Err e1, Err e2 => e1 = e2
  | Panic, Panic => True
  | OutOfFuel, OutOfFuel => True
  | _, _ => False
  end.

Lemma skipn_nil_iff {A} (l : list A) n : (n <= length l)%nat -> (skipn n l = [] <-> n = length l).
Proof.
  intros H. split.
  - intros E. pose proof (skipn_length n l) as L. rewrite E in L. cbn in L. lia.
  - intros ->. apply skipn_all.
Qed.

(* branch landing on frames *)
Definition landing (bc1 pc1 bc2 pc2 : list byte) (d1 d2 : Z) : Prop :=
  forall s1 s2, s_bytecode s1 = bc1 -> s_pc s1 = pc1 -> s_bytecode s2 = bc2 -> s_pc s2 = pc2 ->
    match compute_pc s1 d1, compute_pc s2 d2 with
    | Ok q1, Ok q2 => FR (q1, bc1) (q2, bc2)
    | Err e1, Err e2 => e1 = e2
    | Panic, Panic => True
    | OutOfFuel, OutOfFuel => True
    | _, _ => False
    end.

Definition orelF (bc1 pc1 bc2 pc2 : list byte) (o1 o2 : operation) : Prop :=
  match o1, o2 with
  | OSkip d1, OSkip d2 | OBra d1, OBra d2 => landing bc1 pc1 bc2 pc2 d1 d2
  | OSkip _, _ | OBra _, _ | _, OSkip _ | _, OBra _ => False
  | _, _ => o1 = o2
  end.

Lemma landing_same bc pc d : landing bc pc bc pc d d.
Proof.
  intros s1 s2 H1 H2 H3 H4. rewrite (compute_pc_ext s1 s2 d) by congruence.
  destruct (compute_pc s2 d); auto. left. reflexivity.
Qed.

Lemma landing_pts a' b' d1 d2 aj bj :
  In (a', b') pts -> In (aj, bj) pts -> i16 d1 -> i16 d2 ->
  (Z.of_nat a' + d1 = Z.of_nat aj)%Z -> (Z.of_nat b' + d2 = Z.of_nat bj)%Z ->
  landing P1 (skipn a' P1) P2 (skipn b' P2) d1 d2.
Proof.
  intros Hin Hj Hd1 Hd2 E1 E2 s1 s2 B1 C1 B2 C2.
  destruct LO as [_ [L1 [L2 Hp]]].
  destruct (Hp _ _ Hin) as [Ha [Hb _]]. destruct (Hp _ _ Hj) as [Haj [Hbj _]].
  rewrite (compute_pc_exact s1 d1); [|rewrite B1, C1; apply sfx_skipn|exact Hd1|rewrite B1; exact L1].
  rewrite (compute_pc_exact s2 d2); [|rewrite B2, C2; apply sfx_skipn|exact Hd2|rewrite B2; exact L2].
  cbv zeta. rewrite B1, C1, B2, C2, !skipn_length.
  replace (Z.of_nat (length P1) - Z.of_nat (length P1 - a') + d1)%Z with (Z.of_nat aj) by lia.
  replace (Z.of_nat (length P2) - Z.of_nat (length P2 - b') + d2)%Z with (Z.of_nat bj) by lia.
  destruct ((0 <=? Z.of_nat aj)%Z && (Z.of_nat aj <=? Z.of_nat (length P1))%Z) eqn:C; [|lia].
  destruct ((0 <=? Z.of_nat bj)%Z && (Z.of_nat bj <=? Z.of_nat (length P2))%Z) eqn:C'; [|lia].
  rewrite !Nat2Z.id. right. split; [reflexivity|]. split; [reflexivity|]. exists aj, bj. auto.
Qed.

(* the computation guarding the InvalidExpressionTerminator error of evaluate_internal *)
Definition term {X} (dbg : bool) (bc q : list byte) : res (X * st) :=
  let* d := chk_sub 64 dbg (N.of_nat (length bc)) (N.of_nat (length q)) in
  let* _ := chk_sub 64 dbg d 1 in Err EInvalidExpressionTerminator.

(* decoding at related frames *)
Lemma parse_sim dbg pc1 bc1 pc2 bc2 :
  FR (pc1, bc1) (pc2, bc2) ->
  (exists o1 o2 q1 q2,
     parse_op dbg e pc1 = Ok (o1, q1) /\ parse_op dbg e pc2 = Ok (o2, q2) /\
     FR (q1, bc1) (q2, bc2) /\ orelF bc1 q1 bc2 q2 o1 o2 /\
     (forall X dbg', @RR X (term dbg' bc1 q1) (term dbg' bc2 q2))) \/
  (exists er, parse_op dbg e pc1 = Err er /\ parse_op dbg e pc2 = Err er).
Proof.
  intros [E|[B1 [B2 [a [b [Hin [E1 E2]]]]]]].
  - inversion E; subst. pose proof (parse_op_no_panic_lemma dbg e pc2) as [NP NF].
    destruct (parse_op dbg e pc2) as [[o q]|er| |] eqn:Ep; try congruence.
    + left. exists o, o, q, q. split; [reflexivity|]. split; [reflexivity|]. split; [left; reflexivity|]. split.
      * destruct o; cbn; try reflexivity; apply landing_same.
      * intros X dbg'. unfold term.
        destruct (chk_sub 64 dbg' (N.of_nat (length bc2)) (N.of_nat (length q))); cbn [bind]; try reflexivity; try exact I.
        destruct (chk_sub 64 dbg' a 1); cbn [bind]; try reflexivity; exact I.
    + right. exists er. auto.
  - cbn [fst snd] in *. subst. rewrite !(parse_any dbg).
    destruct LO as [_ [L1 [L2 Hp]]]. destruct (Hp _ _ Hin) as [Ha [Hb [Hab Hop]]].
    destruct (Nat.eq_dec a (length P1)) as [Ea|Na].
    + right. assert (b = length P2) by (apply Hab; exact Ea). subst a b. rewrite !skipn_all. exists EUnexpectedEof. auto.
    + destruct Hop as [o1 [o2 [a' [b' [Hin' [Q1 [Q2 Ho]]]]]]]; [lia|].
      left. exists o1, o2, (skipn a' P1), (skipn b' P2). rewrite Q1, Q2.
      destruct (Hp _ _ Hin') as [Ha' [Hb' _]].
      pose proof (parse_op_shorter _ _ _ _ _ Q1) as S1. pose proof (parse_op_shorter _ _ _ _ _ Q2) as S2.
      rewrite !skipn_length in S1, S2.
      split; [reflexivity|]. split; [reflexivity|]. split.
      { right. cbn [fst snd]. split; [reflexivity|]. split; [reflexivity|]. exists a', b'. auto. }
      split.
      { unfold orel in Ho. destruct o1, o2; cbn; try exact Ho; try (exfalso; exact Ho);
          destruct Ho as [I1 [I2 [aj [bj [Hj [Z1 Z2]]]]]]; eapply landing_pts; eauto. }
      intros X dbg'. unfold term. rewrite !skipn_length.
      rewrite !chk_sub_ok by lia. cbn [bind]. rewrite !chk_sub_ok by lia. reflexivity.
Qed.

(* ---- the step functions preserve the relation ---- *)
Ltac srsplit := unfold SR; cbn [s_bytecode s_pc s_stack s_estack s_result s_iter s_vres s_nops s_nparse];
  repeat split; try reflexivity; try assumption.

Lemma push_sim c s1 s2 v : SR s1 s2 -> RS (push c s1 v) (push c s2 v).
Proof.
  intros (H1 & H2 & H3 & H4 & H5 & H6 & H7 & H8). unfold push. rewrite H1.
  destruct (full (c_cap_stack c) (s_stack s2)); cbn; [reflexivity|].
  destruct s1, s2; cbn in *; subst. srsplit.
Qed.
Lemma pop_sim s1 s2 : SR s1 s2 -> RR (pop s1) (pop s2).
Proof.
  intros (H1 & H2 & H3 & H4 & H5 & H6 & H7 & H8). unfold pop. rewrite H1.
  destruct (s_stack s2) as [|v r]; cbn; [reflexivity|]. split; [reflexivity|].
  destruct s1, s2; cbn in *; subst. srsplit.
Qed.
Lemma push_piece_sim c s1 s2 p : SR s1 s2 -> RS (push_piece c s1 p) (push_piece c s2 p).
Proof.
  intros (H1 & H2 & H3 & H4 & H5 & H6 & H7 & H8). unfold push_piece. rewrite H2.
  destruct (full (c_cap_res c) (s_result s2)); cbn; [reflexivity|].
  destruct s1, s2; cbn in *; subst. srsplit.
Qed.

(* monadic glue *)
Lemma RR_bind {X Y} (m1 m2 : res (X * st)) (f1 f2 : X * st -> res (Y * st)) :
  RR m1 m2 -> (forall x s1 s2, SR s1 s2 -> RR (f1 (x, s1)) (f2 (x, s2))) -> RR (bind m1 f1) (bind m2 f2).
Proof.
  destruct m1 as [[x1 s1]|e1| |], m2 as [[x2 s2]|e2| |]; cbn; intros H K; try contradiction; auto.
  destruct H as [-> H]. apply K. exact H.
Qed.
Lemma RS_bind {Y} (m1 m2 : res st) (f1 f2 : st -> res (Y * st)) :
  RS m1 m2 -> (forall s1 s2, SR s1 s2 -> RR (f1 s1) (f2 s2)) -> RR (bind m1 f1) (bind m2 f2).
Proof.
  destruct m1 as [s1|e1| |], m2 as [s2|e2| |]; cbn; intros H K; try contradiction; auto.
Qed.
Lemma RS_bind_S (m1 m2 : res st) (f1 f2 : st -> res st) :
  RS m1 m2 -> (forall s1 s2, SR s1 s2 -> RS (f1 s1) (f2 s2)) -> RS (bind m1 f1) (bind m2 f2).
Proof.
  destruct m1 as [s1|e1| |], m2 as [s2|e2| |]; cbn; intros H K; try contradiction; auto.
Qed.
Lemma RR_bind_S {X} (m1 m2 : res (X * st)) (f1 f2 : X * st -> res st) :
  RR m1 m2 -> (forall x s1 s2, SR s1 s2 -> RS (f1 (x, s1)) (f2 (x, s2))) -> RS (bind m1 f1) (bind m2 f2).
Proof.
  destruct m1 as [[x1 s1]|e1| |], m2 as [[x2 s2]|e2| |]; cbn; intros H K; try contradiction; auto.
  destruct H as [-> H]. apply K. exact H.
Qed.
Lemma pure_bind {A Y} (m : res A) (f1 f2 : A -> res (Y * st)) :
  (forall a, RR (f1 a) (f2 a)) -> RR (bind m f1) (bind m f2).
Proof. destruct m; cbn; auto. Qed.
Lemma pure_bind_S {A} (m : res A) (f1 f2 : A -> res st) :
  (forall a, RS (f1 a) (f2 a)) -> RS (bind m f1) (bind m f2).
Proof. destruct m; cbn; auto. Qed.
Lemma RR_ok {X} (x : X) s1 s2 : SR s1 s2 -> RR (Ok (x, s1)) (Ok (x, s2)).
Proof. cbn. auto. Qed.
Lemma RR_err {X} er : @RR X (Err er) (Err er).
Proof. reflexivity. Qed.

Lemma binop_sim c mask s1 s2 f : SR s1 s2 -> RR (binop c mask s1 f) (binop c mask s2 f).
Proof.
  intros H. unfold binop.
  apply RR_bind; [apply pop_sim; exact H|]. intros rhs a1 a2 Ha.
  apply RR_bind; [apply pop_sim; exact Ha|]. intros lhs b1 b2 Hb.
  apply pure_bind. intros r. apply RS_bind; [apply push_sim; exact Hb|]. intros; apply RR_ok; assumption.
Qed.
Lemma unop_sim c mask s1 s2 f : SR s1 s2 -> RR (unop c mask s1 f) (unop c mask s2 f).
Proof.
  intros H. unfold unop.
  apply RR_bind; [apply pop_sim; exact H|]. intros v a1 a2 Ha.
  apply pure_bind. intros r. apply RS_bind; [apply push_sim; exact Ha|]. intros; apply RR_ok; assumption.
Qed.

Lemma SR_set_pc s1 s2 q1 q2 :
  SR s1 s2 -> FR (q1, s_bytecode s1) (q2, s_bytecode s2) -> SR (set_pc s1 q1) (set_pc s2 q2).
Proof. intros (H1 & H2 & H3 & H4 & H5 & H6 & H7 & H8) Hq. destruct s1, s2; cbn in *; subst. srsplit. Qed.
Lemma SR_count s1 s2 : SR s1 s2 -> SR (count_op (count_parse s1)) (count_op (count_parse s2)).
Proof. intros (H1 & H2 & H3 & H4 & H5 & H6 & H7 & H8). destruct s1, s2; cbn in *; subst. srsplit. Qed.
Lemma SR_count_parse s1 s2 : SR s1 s2 -> SR (count_parse s1) (count_parse s2).
Proof. intros (H1 & H2 & H3 & H4 & H5 & H6 & H7 & H8). destruct s1, s2; cbn in *; subst. srsplit. Qed.
Lemma SR_set_vres s1 s2 v : SR s1 s2 -> SR (set_vres s1 v) (set_vres s2 v).
Proof. intros (H1 & H2 & H3 & H4 & H5 & H6 & H7 & H8). destruct s1, s2; cbn in *; subst. srsplit. Qed.
Lemma SR_set_iter s1 s2 v : SR s1 s2 -> SR (set_iter s1 v) (set_iter s2 v).
Proof. intros (H1 & H2 & H3 & H4 & H5 & H6 & H7 & H8). destruct s1, s2; cbn in *; subst. srsplit. Qed.

Lemma branch_sim s1 s2 d1 d2 :
  SR s1 s2 -> landing (s_bytecode s1) (s_pc s1) (s_bytecode s2) (s_pc s2) d1 d2 ->
  RR (let* pc2 := compute_pc s1 d1 in Ok (RIncomplete, set_pc s1 pc2))
     (let* pc2 := compute_pc s2 d2 in Ok (RIncomplete, set_pc s2 pc2)).
Proof.
  intros H L. specialize (L s1 s2 eq_refl eq_refl eq_refl eq_refl).
  destruct (compute_pc s1 d1) as [q1|e1| |], (compute_pc s2 d2) as [q2|e2| |]; cbn; try contradiction; auto.
  split; [reflexivity|]. apply SR_set_pc; assumption.
Qed.

Lemma landing_after_pop s1 s2 s1' s2' d1 d2 :
  s_bytecode s1' = s_bytecode s1 -> s_pc s1' = s_pc s1 -> s_bytecode s2' = s_bytecode s2 -> s_pc s2' = s_pc s2 ->
  landing (s_bytecode s1) (s_pc s1) (s_bytecode s2) (s_pc s2) d1 d2 ->
  landing (s_bytecode s1') (s_pc s1') (s_bytecode s2') (s_pc s2') d1 d2.
Proof. intros -> -> -> ->. auto. Qed.

Lemma pop_code s v s' : pop s = Ok (v, s') -> s_bytecode s' = s_bytecode s /\ s_pc s' = s_pc s.
Proof. intros H. apply pop_inv in H. destruct H as [r [_ ->]]. destruct s; split; reflexivity. Qed.

(* Evaluation::evaluate_one_operation *)
Lemma eoo_sim dbg c mask s1 s2 :
  c_enc c = e -> SR s1 s2 ->
  RR (evaluate_one_operation F dbg c mask s1) (evaluate_one_operation F dbg c mask s2).
Proof.
  intros Hc H. unfold evaluate_one_operation. rewrite Hc.
  pose proof (SR_count _ _ H) as H0.
  set (t1 := count_op (count_parse s1)) in *. set (t2 := count_op (count_parse s2)) in *.
  destruct H0 as (K1 & K2 & K3 & K4 & K5 & K6 & K7 & K8).
  destruct (parse_sim dbg _ _ _ _ K7) as [[o1 [o2 [q1 [q2 [Q1 [Q2 [HF [HO _]]]]]]]]|[er [Q1 Q2]]];
    rewrite Q1, Q2; cbn [bind]; [|reflexivity].
  assert (HS : SR (set_pc t1 q1) (set_pc t2 q2)) by (apply SR_set_pc; [repeat split; assumption|exact HF]).
  assert (HL : forall d1 d2, landing (s_bytecode t1) q1 (s_bytecode t2) q2 d1 d2 ->
               landing (s_bytecode (set_pc t1 q1)) (s_pc (set_pc t1 q1)) (s_bytecode (set_pc t2 q2)) (s_pc (set_pc t2 q2)) d1 d2).
  { intros d1 d2 L. destruct t1, t2; exact L. }
  set (u1 := set_pc t1 q1) in *. set (u2 := set_pc t2 q2) in *.
  destruct o1; destruct o2; cbn in HO; try contradiction; try discriminate HO;
    try (inversion HO; subst; clear HO).
  all: try (apply binop_sim; exact HS).
  all: try (apply unop_sim; exact HS).
  all: try (apply RR_ok; exact HS).
  all: try match goal with |- RR (Err _) (Err _) => reflexivity end.
  - (* Deref *)
    destruct (e_asz e <? size0); [reflexivity|].
    apply RR_bind; [apply pop_sim; exact HS|]. intros en a1 a2 Ha. apply pure_bind. intros addr.
    destruct space0.
    + apply RR_bind; [apply pop_sim; exact Ha|]. intros en2 b1 b2 Hb. apply pure_bind. intros sp. apply RR_ok; exact Hb.
    + apply RR_ok; exact Ha.
  - (* Drop *) apply RR_bind; [apply pop_sim; exact HS|]. intros x a1 a2 Ha. apply RR_ok; exact Ha.
  - (* Pick *)
    destruct HS as (S1 & S') . rewrite S1.
    destruct (N.of_nat (length (s_stack u2)) <=? index0); [reflexivity|].
    destruct (nth_error (s_stack u2) (N.to_nat index0)); [|exact I].
    apply RS_bind; [apply push_sim; split; assumption|]. intros; apply RR_ok; assumption.
  - (* Swap *)
    apply RR_bind; [apply pop_sim; exact HS|]. intros top a1 a2 Ha.
    apply RR_bind; [apply pop_sim; exact Ha|]. intros nx b1 b2 Hb.
    apply RS_bind; [apply push_sim; exact Hb|]. intros c1 c2 Hcc.
    apply RS_bind; [apply push_sim; exact Hcc|]. intros; apply RR_ok; assumption.
  - (* Rot *)
    apply RR_bind; [apply pop_sim; exact HS|]. intros one a1 a2 Ha.
    apply RR_bind; [apply pop_sim; exact Ha|]. intros two b1 b2 Hb.
    apply RR_bind; [apply pop_sim; exact Hb|]. intros three c1 c2 Hcc.
    apply RS_bind; [apply push_sim; exact Hcc|]. intros d1 d2 Hd.
    apply RS_bind; [apply push_sim; exact Hd|]. intros e1 e2 He.
    apply RS_bind; [apply push_sim; exact He|]. intros; apply RR_ok; assumption.
  - (* PlusConstant *)
    apply RR_bind; [apply pop_sim; exact HS|]. intros lhs a1 a2 Ha.
    apply pure_bind. intros rhs. apply pure_bind. intros r.
    apply RS_bind; [apply push_sim; exact Ha|]. intros; apply RR_ok; assumption.
  - (* Bra *)
    pose proof (pop_sim _ _ HS) as HP.
    destruct (pop u1) as [[en a1]|x1| |] eqn:P1', (pop u2) as [[en2 a2]|x2| |] eqn:P2'; cbn in HP; try contradiction;
      cbn [bind]; auto.
    destruct HP as [<- Ha]. apply pure_bind. intros v.
    destruct (negb (v =? 0)); [|apply RR_ok; exact Ha].
    apply branch_sim; [exact Ha|].
    destruct (pop_code _ _ _ P1') as [B1 C1]. destruct (pop_code _ _ _ P2') as [B2 C2].
    rewrite B1, C1, B2, C2. apply HL. exact HO.
  - (* Skip *) apply branch_sim; [exact HS|]. apply HL. exact HO.
  - (* UnsignedConstant *) apply RS_bind; [apply push_sim; exact HS|]. intros; apply RR_ok; assumption.
  - (* SignedConstant *) apply RS_bind; [apply push_sim; exact HS|]. intros; apply RR_ok; assumption.
  - (* PushObjectAddress *)
    destruct (c_obj c); [|reflexivity]. apply RS_bind; [apply push_sim; exact HS|]. intros; apply RR_ok; assumption.
  - (* TLS *)
    apply RR_bind; [apply pop_sim; exact HS|]. intros en a1 a2 Ha. apply pure_bind. intros ix. apply RR_ok; exact Ha.
  - (* Piece *)
    apply RR_bind.
    + destruct HS as (S1 & S'). rewrite S1. destruct (s_stack u2) eqn:Est.
      * apply RR_ok. split; [rewrite Est; exact S1|exact S'].
      * apply RR_bind; [apply pop_sim; split; [rewrite Est; exact S1|exact S']|]. intros en a1 a2 Ha.
        apply pure_bind. intros ad. apply RR_ok; exact Ha.
    + intros loc a1 a2 Ha. apply RS_bind; [apply push_piece_sim; exact Ha|]. intros; apply RR_ok; assumption.
  - (* StackValue *)
    apply RR_bind; [apply pop_sim; exact HS|]. intros v a1 a2 Ha. apply RR_ok; exact Ha.
Qed.

(* Evaluation::end_of_expression *)
Lemma FR_nil_iff pc1 bc1 pc2 bc2 : FR (pc1, bc1) (pc2, bc2) -> (pc1 = [] <-> pc2 = []).
Proof.
  intros [E|[B1 [B2 [a [b [Hin [E1 E2]]]]]]].
  - inversion E; subst. tauto.
  - cbn [fst snd] in *. subst. destruct LO as [_ [_ [_ Hp]]]. destruct (Hp _ _ Hin) as [Ha [Hb [Hab _]]].
    rewrite (skipn_nil_iff P1 a Ha), (skipn_nil_iff P2 b Hb). exact Hab.
Qed.

Lemma eoe_loop_sim : forall es1 es2 pc1 bc1 pc2 bc2,
  FR (pc1, bc1) (pc2, bc2) -> Forall2 FR es1 es2 ->
  let '(b1, (p1, c1, r1)) := eoe_loop pc1 bc1 es1 in
  let '(b2, (p2, c2, r2)) := eoe_loop pc2 bc2 es2 in
  b1 = b2 /\ FR (p1, c1) (p2, c2) /\ Forall2 FR r1 r2.
Proof.
  induction es1 as [|[np1 nb1] es1 IH]; intros es2 pc1 bc1 pc2 bc2 HF HE; inversion HE; subst.
  - pose proof (FR_nil_iff _ _ _ _ HF) as Hn. destruct pc1, pc2; cbn [eoe_loop]; auto.
    + exfalso. assert (@nil byte = []) by reflexivity. apply Hn in H. discriminate.
    + exfalso. assert (@nil byte = []) by reflexivity. apply Hn in H. discriminate.
  - pose proof (FR_nil_iff _ _ _ _ HF) as Hn. destruct y as [np2 nb2].
    destruct pc1, pc2; cbn [eoe_loop].
    + apply IH; assumption.
    + exfalso. assert (@nil byte = []) by reflexivity. apply Hn in H. discriminate.
    + exfalso. assert (@nil byte = []) by reflexivity. apply Hn in H. discriminate.
    + auto.
Qed.

Lemma eoe_sim s1 s2 : SR s1 s2 ->
  fst (end_of_expression s1) = fst (end_of_expression s2) /\ SR (snd (end_of_expression s1)) (snd (end_of_expression s2)).
Proof.
  intros (H1 & H2 & H3 & H4 & H5 & H6 & H7 & H8). unfold end_of_expression.
  pose proof (eoe_loop_sim _ _ _ _ _ _ H7 H8) as L.
  destruct (eoe_loop (s_pc s1) (s_bytecode s1) (s_estack s1)) as [b1 [[p1 c1] r1]].
  destruct (eoe_loop (s_pc s2) (s_bytecode s2) (s_estack s2)) as [b2 [[p2 c2] r2]].
  destruct L as [-> [L1 L2]]. cbn [fst snd]. split; [reflexivity|].
  destruct s1, s2; cbn in *; subst. srsplit.
Qed.

Lemma finish_sim c mask s1 s2 : SR s1 s2 -> RR (finish c mask s1) (finish c mask s2).
Proof.
  intros H. unfold finish. destruct H as (H1 & H2 & H'). rewrite H2.
  destruct (s_result s2) eqn:Er.
  - apply RR_bind; [apply pop_sim; split; [exact H1|split; [rewrite Er; exact H2|exact H']]|].
    intros en a1 a2 Ha. apply pure_bind. intros ad.
    apply RS_bind; [apply push_piece_sim; apply SR_set_vres; exact Ha|]. intros; apply RR_ok; assumption.
  - apply RR_ok. split; [exact H1|split; [rewrite Er; exact H2|exact H']].
Qed.

Lemma count_iteration_sim dbg c s1 s2 : SR s1 s2 -> RS (count_iteration dbg c s1) (count_iteration dbg c s2).
Proof.
  intros H. unfold count_iteration. destruct (c_max c); [|exact H].
  destruct H as (H1 & H2 & H3 & H'). rewrite H3. destruct (n <=? s_iter s2); [reflexivity|].
  apply pure_bind_S. intros it. cbn. apply SR_set_iter. repeat split; tauto.
Qed.

(* Evaluation::evaluate_internal *)
Lemma ei_sim dbg c mask : c_enc c = e -> forall fuel s1 s2, SR s1 s2 ->
  RR (evaluate_internal F fuel dbg c mask s1) (evaluate_internal F fuel dbg c mask s2).
Proof.
  intros Hc. induction fuel as [|fuel IH]; intros s1 s2 H; [exact I|].
  cbn [evaluate_internal].
  destruct (eoe_sim _ _ H) as [Eb Es].
  destruct (end_of_expression s1) as [b1 t1], (end_of_expression s2) as [b2 t2]. cbn [fst snd] in Eb, Es. subst b2.
  destruct b1; [apply finish_sim; exact Es|].
  apply RS_bind; [apply count_iteration_sim; exact Es|]. intros u1 u2 Hu.
  apply RR_bind; [apply eoo_sim; assumption|]. intros r v1 v2 Hv.
  destruct r.
  - apply IH; exact Hv.
  - destruct (eoe_sim _ _ Hv) as [Eb' Es'].
    destruct (end_of_expression v1) as [b1 w1], (end_of_expression v2) as [b2 w2]. cbn [fst snd] in Eb', Es'. subst b2.
    assert (Hr : s_result w1 = s_result w2) by (destruct Es' as (_ & X & _); exact X). rewrite Hr.
    destruct (b1 && negb match s_result w2 with [] => true | _ :: _ => false end); [reflexivity|].
    apply IH; exact Es'.
  - destruct (eoe_sim _ _ Hv) as [Eb' Es'].
    destruct (end_of_expression v1) as [b1 w1], (end_of_expression v2) as [b2 w2]. cbn [fst snd] in Eb', Es'. subst b2.
    destruct b1.
    + assert (Hr : s_result w1 = s_result w2) by (destruct Es' as (_ & X & _); exact X). rewrite Hr.
      destruct (s_result w2); [|reflexivity].
      apply RS_bind; [apply push_piece_sim; exact Es'|]. intros; apply IH; assumption.
    + pose proof (SR_count_parse _ _ Es') as Hcp.
      set (x1 := count_parse w1) in *. set (x2 := count_parse w2) in *.
      destruct Hcp as (K1 & K2 & K3 & K4 & K5 & K6 & K7 & K8). rewrite Hc.
      destruct (parse_sim dbg _ _ _ _ K7) as [[o1 [o2 [q1 [q2 [Q1 [Q2 [HF [HO HT]]]]]]]]|[er [Q1 Q2]]];
        rewrite Q1, Q2; cbn [bind]; [|reflexivity].
      assert (HS : SR (set_pc x1 q1) (set_pc x2 q2)) by (apply SR_set_pc; [repeat split; assumption|exact HF]).
      assert (Herr : @RR outcome (term dbg (s_bytecode (set_pc x1 q1)) (s_pc (set_pc x1 q1)))
                                 (term dbg (s_bytecode (set_pc x2 q2)) (s_pc (set_pc x2 q2)))).
      { destruct x1, x2. apply HT. }
      destruct o1; destruct o2; cbn in HO; try contradiction; try discriminate HO;
        try (inversion HO; subst; clear HO).
      all: try exact Herr.
      apply RS_bind; [apply push_piece_sim; exact HS|]. intros; apply IH; assumption.
  - apply RR_ok; exact Hv.
Qed.

(* resume_with_* *)
Lemma Forall2_len {A B} (R : A -> B -> Prop) l1 l2 : Forall2 R l1 l2 -> length l1 = length l2.
Proof. induction 1; cbn; auto. Qed.

Lemma SR_at_location s1 s2 bytes :
  SR s1 s2 ->
  SR (set_code s1 bytes bytes ((s_pc s1, s_bytecode s1) :: s_estack s1))
     (set_code s2 bytes bytes ((s_pc s2, s_bytecode s2) :: s_estack s2)).
Proof.
  intros (H1 & H2 & H3 & H4 & H5 & H6 & H7 & H8). destruct s1, s2; cbn in *; subst. srsplit.
  - left; reflexivity.
  - constructor; assumption.
Qed.

Lemma resume_apply_sim c mask w a s1 s2 :
  SR s1 s2 -> RS (resume_apply F c mask w a s1) (resume_apply F c mask w a s2).
Proof.
  intros H. destruct w; cbn [resume_apply].
  all: try (apply push_sim; exact H).
  - apply pure_bind_S. intros off. apply pure_bind_S. intros v. apply push_sim; exact H.
  - destruct (a_bytes a) eqn:Eb; [exact H|].
    assert (He : s_estack s1 = s_estack s1) by reflexivity.
    destruct H as (H1 & H2 & H3 & H4 & H5 & H6 & H7 & H8).
    assert (Hl : length (s_estack s1) = length (s_estack s2)) by (eapply Forall2_len; eauto).
    unfold full. rewrite Hl. destruct (c_cap_expr c); [destruct (Nat.leb n (length (s_estack s2))); [reflexivity|]|];
      apply SR_at_location; repeat split; assumption.
  - apply pure_bind_S. intros x. apply push_sim; exact H.
  - apply RR_bind_S; [apply pop_sim; exact H|]. intros en a1 a2 Ha. apply pure_bind_S. intros x. apply push_sim; exact Ha.
  - apply RR_bind_S; [apply pop_sim; exact H|]. intros en a1 a2 Ha. apply pure_bind_S. intros x. apply push_sim; exact Ha.
Qed.

Lemma resume_sim fuel dbg c mask w a s1 s2 : c_enc c = e -> SR s1 s2 ->
  RR (resume F fuel dbg c mask w a s1) (resume F fuel dbg c mask w a s2).
Proof.
  intros Hc H. unfold resume. apply RS_bind; [apply resume_apply_sim; exact H|]. intros; apply ei_sim; assumption.
Qed.

Lemma drive_sim fuel dbg c mask : c_enc c = e -> forall answers r1 r2, RR r1 r2 ->
  drive F fuel dbg c mask r1 answers = drive F fuel dbg c mask r2 answers.
Proof.
  intros Hc. induction answers as [|a rest IH]; intros r1 r2 H.
  - destruct r1 as [[o1 s1]|e1| |], r2 as [[o2 s2]|e2| |]; cbn in H; try contradiction; cbn [drive]; try reflexivity.
    + destruct H as [<- (H1 & H2 & H3 & H4 & H5 & H6 & _)]. destruct o1; [|reflexivity].
      rewrite H2, H4, H5, H6. reflexivity.
    + subst. reflexivity.
  - destruct r1 as [[o1 s1]|e1| |], r2 as [[o2 s2]|e2| |]; cbn in H; try contradiction; cbn [drive]; try reflexivity.
    + destruct H as [<- HS]. destruct o1.
      * destruct HS as (H1 & H2 & H3 & H4 & H5 & H6 & _). rewrite H2, H4, H5, H6. reflexivity.
      * rewrite (IH _ _ (resume_sim fuel dbg c mask w a s1 s2 Hc HS)). reflexivity.
    + subst. reflexivity.
Qed.

Lemma initial_SR : SR (initial_state P1) (initial_state P2).
Proof.
  unfold initial_state. srsplit.
  - right. cbn [fst snd]. split; [reflexivity|]. split; [reflexivity|]. exists 0%nat, 0%nat.
    destruct LO as [H0 _]. auto.
  - constructor.
Qed.

(* the evaluator does not see the layout *)
Theorem run_layout_independent fuel dbg c answers :
  c_enc c = e -> run F fuel dbg c P1 answers = run F fuel dbg c P2 answers.
Proof.
  intros Hc. unfold run. destruct (new_mask dbg (e_asz (c_enc c))) as [mask|er| |]; try reflexivity.
  apply drive_sim; [exact Hc|]. unfold evaluate.
  apply RS_bind.
  - destruct (c_init c); [apply push_sim; exact initial_SR|exact initial_SR].
  - intros; apply ei_sim; assumption.
Qed.

End Sim.
