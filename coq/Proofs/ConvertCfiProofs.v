(* Proofs/ConvertCfiProofs.v — C12, call frame instructions: the converted program means what the source
   program means (CfaSpec), instruction by instruction and as whole unwind tables. *)
From Coq Require Import List NArith ZArith Bool Lia ZifyBool ZifyN ZifyNat.
From Coq.Strings Require Import Byte.
Require Import GV.Base.Res GV.Base.Byt GV.Base.Ints GV.Spec.CfaEncSpec GV.Spec.CfaSpec.
Require Import GV.Model.ConvertArith GV.Model.ConvertCfi GV.Proofs.ConvertProofs.
Import ListNotations.
Local Open Scope N_scope.
Local Arguments N.add : simpl never.
Local Arguments N.sub : simpl never.
Local Arguments N.mul : simpl never.
Local Arguments N.pow : simpl never.
Local Arguments Z.mul : simpl never.
Local Arguments Z.add : simpl never.
Local Arguments N.ltb : simpl never.
Local Arguments N.leb : simpl never.
Local Arguments N.eqb : simpl never.

(* ------------------------------------------------------------------ small arithmetic *)

Lemma wrap_i64_id z : in_signed 64 z = true -> wrap_i64 z = z.
Proof.
  unfold in_signed, wrap_i64, wrap_signed, to_signed, of_signed, wrapN.
  change (2 ^ (64 - 1)) with 9223372036854775808. change (2 ^ 64) with 18446744073709551616.
  change (Z.of_N 18446744073709551616) with 18446744073709551616%Z.
  change (Z.of_N 9223372036854775808) with 9223372036854775808%Z.
  intros H.
  assert (Hm : (0 <= z mod 18446744073709551616 < 18446744073709551616)%Z) by (apply Z.mod_pos_bound; lia).
  rewrite N.mod_small by lia.
  assert (Hd : z = (18446744073709551616 * (z / 18446744073709551616) + z mod 18446744073709551616)%Z)
    by (apply Z.div_mod; lia).
  destruct (Z.to_N (z mod 18446744073709551616) <? 9223372036854775808) eqn:E; rewrite Z2N.id by lia; lia.
Qed.

Lemma bind_ok_inv {A B} (r : res A) (f : A -> res B) b :
  (let* x := r in f x) = Ok b -> exists a, r = Ok a /\ f a = Ok b.
Proof. apply bind_ok. Qed.

(* what the checked conversions return when they succeed *)
Lemma convert_offset_ok o v : convert_offset o = Ok v -> v = Z.of_N o /\ in_signed 32 v = true.
Proof. intros H. pose proof (convert_offset_exact o) as E. rewrite H in E. exact E. Qed.

Lemma convert_factored_offset_ok f daf v :
  convert_factored_offset f daf = Ok v -> v = (f * daf)%Z /\ in_signed 64 v = true /\ in_signed 32 v = true.
Proof.
  unfold convert_factored_offset. destruct (in_signed 64 (f * daf)) eqn:E64; [|discriminate].
  destruct (in_signed 32 (f * daf)) eqn:E32; [|discriminate]. intros H; inversion H; subst. auto.
Qed.

Lemma convert_unsigned_factored_offset_ok f daf v :
  convert_unsigned_factored_offset f daf = Ok v ->
  v = (Z.of_N f * daf)%Z /\ in_signed 64 v = true /\ in_signed 32 v = true.
Proof.
  unfold convert_unsigned_factored_offset. destruct (in_signed 64 (Z.of_N f)); [|discriminate].
  apply convert_factored_offset_ok.
Qed.

Lemma convert_advance_ok offset d caf v :
  convert_advance offset d caf = Ok v -> v = offset + d * caf /\ v < 2 ^ 32.
Proof.
  unfold convert_advance. destruct (caf <? 2 ^ 32); [|discriminate].
  destruct (d * caf <? 2 ^ 32); [|discriminate].
  destruct (offset + d * caf <? 2 ^ 32) eqn:E; [|discriminate].
  intros H; inversion H; subst. split; [reflexivity|lia].
Qed.

Lemma convert_args_size_ok n m : convert_args_size n = Ok m -> m = n /\ n < 2 ^ 32.
Proof. unfold convert_args_size. destruct (n <? 2 ^ 32) eqn:E; [|discriminate]. intros H; inversion H. lia. Qed.

(* ------------------------------------------------------------------ tables up to a relation on expressions *)

Section Rel.
  Variable R : uexpr -> uexpr -> Prop.

  Definition rule_rel (x y : rule) : Prop :=
    match x with
    | RExpression e => exists e', y = RExpression e' /\ R e e'
    | RValExpression e => exists e', y = RValExpression e' /\ R e e'
    | _ => y = x
    end.
  Definition cfa_rel (c c' : cfa_rule) : Prop :=
    match c with
    | CfaExpr e => exists e', c' = CfaExpr e' /\ R e e'
    | _ => c' = c
    end.
  Definition rmap_rel (m m' : rmap) : Prop :=
    Forall2 (fun p q => fst q = fst p /\ rule_rel (snd p) (snd q)) m m'.
  Definition saved_rel (x y : cfa_rule * rmap * N) : Prop :=
    cfa_rel (fst (fst x)) (fst (fst y)) /\ rmap_rel (snd (fst x)) (snd (fst y)) /\ snd y = snd x.
  (* everything but the location *)
  Definition st_rel (s s' : sstate) : Prop :=
    cfa_rel (s_cfa s) (s_cfa s') /\ rmap_rel (s_rules s) (s_rules s') /\ s_args s' = s_args s /\
    Forall2 saved_rel (s_stack s) (s_stack s').
  Definition ini_rel (i i' : option rmap) : Prop :=
    match i with
    | Some m => exists m', i' = Some m' /\ rmap_rel m m'
    | None => i' = None
    end.
  Definition content_rel (x y : cfa_rule * N * rmap) : Prop :=
    cfa_rel (fst (fst x)) (fst (fst y)) /\ snd (fst y) = snd (fst x) /\ rmap_rel (snd x) (snd y).
  Definition unw_rel (o o' : option (cfa_rule * N * rmap)) : Prop :=
    match o, o' with
    | Some x, Some y => content_rel x y
    | None, None => True
    | _, _ => False
    end.

  Lemma lookup_rel r m m' : rmap_rel m m' ->
    match lookup r m with
    | Some x => exists x', lookup r m' = Some x' /\ rule_rel x x'
    | None => lookup r m' = None
    end.
  Proof.
    induction 1 as [|[r1 x1] [r2 x2] m m' [Hf Hr] _ IH]; cbn [lookup]; [reflexivity|].
    cbn [fst snd] in Hf, Hr. subst r2. destruct (r1 =? r); [|exact IH]. eexists; split; [reflexivity|exact Hr].
  Qed.

  Lemma remove_rel r m m' : rmap_rel m m' -> rmap_rel (remove r m) (remove r m').
  Proof.
    induction 1 as [|[r1 x1] [r2 x2] m m' [Hf Hr] _ IH]; cbn [remove filter]; [constructor|].
    cbn [fst snd] in Hf, Hr |- *. subst r2. destruct (negb (r1 =? r)); [|exact IH].
    constructor; [split; [reflexivity|exact Hr]|exact IH].
  Qed.

  Definition orule_rel (o o' : option rule) : Prop :=
    match o with Some x => exists x', o' = Some x' /\ rule_rel x x' | None => o' = None end.

  Lemma update_rel r o o' m m' : orule_rel o o' -> rmap_rel m m' -> rmap_rel (update r o m) (update r o' m').
  Proof.
    intros Ho Hm. destruct o as [x|]; cbn [orule_rel] in Ho.
    - destruct Ho as [x' [-> Hx]]. cbn [update]. constructor; [split; [reflexivity|exact Hx]|].
      apply remove_rel; exact Hm.
    - subst o'. cbn [update]. apply remove_rel; exact Hm.
  Qed.

  Lemma set_rule_rel r x x' s s' : rule_rel x x' -> st_rel s s' -> st_rel (set_rule r x s) (set_rule r x' s').
  Proof.
    intros Hx [Hc [Hm [Ha Hk]]]. unfold st_rel, set_rule, with_rules. cbn [s_cfa s_rules s_args s_stack].
    repeat split; auto. apply update_rel; [eexists; split; [reflexivity|exact Hx]|exact Hm].
  Qed.

  Lemma with_cfa_rel c c' s s' : cfa_rel c c' -> st_rel s s' -> st_rel (with_cfa c s) (with_cfa c' s').
  Proof. intros Hx [Hc [Hm [Ha Hk]]]. unfold st_rel, with_cfa. cbn [s_cfa s_rules s_args s_stack]. auto. Qed.

  Lemma with_rules_rel m m' s s' : rmap_rel m m' -> st_rel s s' -> st_rel (with_rules m s) (with_rules m' s').
  Proof. intros Hx [Hc [Hm [Ha Hk]]]. unfold st_rel, with_rules. cbn [s_cfa s_rules s_args s_stack]. auto. Qed.

  Lemma with_args_rel n s s' : st_rel s s' -> st_rel (with_args n s) (with_args n s').
  Proof. intros [Hc [Hm [Ha Hk]]]. unfold st_rel, with_args. cbn [s_cfa s_rules s_args s_stack]. auto. Qed.

  Lemma with_loc_rel a b s s' : st_rel s s' -> st_rel (with_loc a s) (with_loc b s').
  Proof. intros [Hc [Hm [Ha Hk]]]. unfold st_rel, with_loc. cbn [s_cfa s_rules s_args s_stack]. auto. Qed.

  (* two instructions that do not move the location and act alike on related states *)
  Definition nostep_rel (s s' : sstate) (r r' : res (sstate * option srow)) : Prop :=
    match r with
    | Ok (s1, None) => exists s1', r' = Ok (s1', None) /\ st_rel s1 s1' /\ s_loc s1 = s_loc s /\ s_loc s1' = s_loc s'
    | Ok (_, Some _) => False
    | Err e => r' = Err e
    | Panic => r' = Panic
    | OutOfFuel => r' = OutOfFuel
    end.
  Definition insn_sem (p p' : sparams) (i i' : insn) : Prop :=
    forall ini ini' s s', st_rel s s' -> ini_rel ini ini' ->
      nostep_rel s s' (spec_step p ini s i) (spec_step p' ini' s' i').

  (* the same instruction, with related expression operands, when its action does not depend on the
     alignment factors *)
  Definition insn_same (i i' : insn) : Prop :=
    match i with
    | IDefCfaExpression e => exists e', i' = IDefCfaExpression e' /\ R e e'
    | IExpression r e => exists e', i' = IExpression r e' /\ R e e'
    | IValExpression r e => exists e', i' = IValExpression r e' /\ R e e'
    | IDefCfaRegister _ | IUndefined _ | ISameValue _ | IRegister _ _ | IRestore _
    | IRememberState | IRestoreState | IArgsSize _ | INegateRaState => i' = i
    | _ => False
    end.

  Ltac ok_none := eexists; split; [reflexivity|]; split; [|split; reflexivity].

  Lemma insn_same_sem p p' i i' : insn_same i i' -> insn_sem p p' i i'.
  Proof.
    intros Hi ini ini' s s' Hs Hini.
    destruct i; cbn [insn_same] in Hi; try contradiction;
      try (match type of Hi with ex _ => destruct Hi as [e' [-> He]] | _ = _ => subst i' end);
      cbn [spec_step nostep_rel].
    - (* def_cfa_register *)
      pose proof Hs as [Hc _]. destruct (s_cfa s) as [r0 o0|e0]; cbn [cfa_rel] in Hc.
      + rewrite Hc. cbn [nostep_rel]. ok_none. apply with_cfa_rel; [reflexivity|exact Hs].
      + destruct Hc as [e' [-> _]]. reflexivity.
    - (* def_cfa_expression *)
      ok_none. apply with_cfa_rel; [eexists; split; [reflexivity|exact He]|exact Hs].
    - ok_none. apply set_rule_rel; [reflexivity|exact Hs].
    - ok_none. apply set_rule_rel; [reflexivity|exact Hs].
    - ok_none. apply set_rule_rel; [reflexivity|exact Hs].
    - ok_none. apply set_rule_rel; [eexists; split; [reflexivity|exact He]|exact Hs].
    - ok_none. apply set_rule_rel; [eexists; split; [reflexivity|exact He]|exact Hs].
    - (* restore *)
      destruct ini as [m|]; cbn [ini_rel] in Hini.
      + destruct Hini as [m' [-> Hm]]. cbn [nostep_rel]. ok_none.
        pose proof Hs as [_ [Hr _]]. apply with_rules_rel; [|exact Hs].
        apply update_rel; [|exact Hr]. pose proof (lookup_rel r m m' Hm) as L.
        destruct (lookup r m); cbn [orule_rel]; exact L.
      + subst ini'. reflexivity.
    - (* remember_state *)
      ok_none. destruct Hs as [Hc [Hm [Ha Hk]]]. unfold st_rel. cbn [s_cfa s_rules s_args s_stack].
      repeat split; auto. constructor; [|exact Hk]. unfold saved_rel. cbn [fst snd]. auto.
    - (* restore_state *)
      pose proof Hs as [_ [_ [_ Hk]]]. inversion Hk as [|x y t t' Hxy Ht Ex Ey]; [reflexivity|].
      destruct x as [[c m] a], y as [[c' m'] a']. destruct Hxy as [Hc [Hm Ha]]. cbn [fst snd] in Hc, Hm, Ha.
      cbn [nostep_rel]. ok_none. unfold st_rel. cbn [s_cfa s_rules s_args s_stack]. auto.
    - ok_none. apply with_args_rel; exact Hs.
    - (* negate_ra_state *)
      pose proof Hs as [_ [Hr _]]. pose proof (lookup_rel RA_SIGN_STATE _ _ Hr) as L.
      destruct (lookup RA_SIGN_STATE (s_rules s)) as [x|].
      + destruct L as [x' [-> Hx]].
        destruct x; cbn [rule_rel] in Hx;
          (match type of Hx with ex _ => destruct Hx as [e' [-> _]] | _ = _ => subst x' end); try reflexivity.
        cbn [nostep_rel]. ok_none. apply set_rule_rel; [reflexivity|exact Hs].
      + rewrite L. cbn [nostep_rel]. ok_none. apply set_rule_rel; [reflexivity|exact Hs].
  Qed.

End Rel.

(* ------------------------------------------------------------------ instruction meanings *)

(* a source expression and the place its converted bytes are written to *)
Definition conv_R (xconv : uexpr -> res (list byte)) (plc : list byte -> uexpr) (e e' : uexpr) : Prop :=
  exists b, xconv e = Ok b /\ e' = plc b.

(* instruction i, run under the alignment factors of p, means m: it advances the location by that many
   bytes, does nothing, or acts on every table state as the unfactored write instruction does *)
Definition means (R : uexpr -> uexpr -> Prop) (plc : list byte -> uexpr) (p : sparams) (i : insn) (m : meaning) : Prop :=
  match m with
  | MAdvance b => exists d, i = IAdvanceLoc d /\ b = d * sp_caf p /\ b < 2 ^ 64
  | MNop => i = INop
  | MInsn c => insn_sem R p (unit_params (sp_asize p)) i (den_cfi plc c)
  end.

Section Sem.
  Variable R : uexpr -> uexpr -> Prop.

  Lemma sem_set_cfa p p' i i' r z :
    (forall ini s, spec_step p ini s i = Ok (with_cfa (CfaRegOff r z) s, None)) ->
    (forall ini s, spec_step p' ini s i' = Ok (with_cfa (CfaRegOff r z) s, None)) ->
    insn_sem R p p' i i'.
  Proof.
    intros H1 H2 ini ini' s s' Hs Hini. rewrite H1, H2. cbn [nostep_rel].
    eexists; split; [reflexivity|]; split; [|split; reflexivity].
    apply with_cfa_rel; [reflexivity|exact Hs].
  Qed.

  Lemma sem_set_cfa_offset p p' i i' z :
    (forall ini s, spec_step p ini s i =
       match s_cfa s with CfaRegOff r _ => Ok (with_cfa (CfaRegOff r z) s, None)
                        | CfaExpr _ => Err ECfiInstructionInInvalidContext end) ->
    (forall ini s, spec_step p' ini s i' =
       match s_cfa s with CfaRegOff r _ => Ok (with_cfa (CfaRegOff r z) s, None)
                        | CfaExpr _ => Err ECfiInstructionInInvalidContext end) ->
    insn_sem R p p' i i'.
  Proof.
    intros H1 H2 ini ini' s s' Hs Hini. rewrite H1, H2.
    pose proof Hs as [Hc _]. destruct (s_cfa s) as [r0 o0|e0]; cbn [cfa_rel] in Hc.
    - rewrite Hc. cbn [nostep_rel]. eexists; split; [reflexivity|]; split; [|split; reflexivity].
      apply with_cfa_rel; [reflexivity|exact Hs].
    - destruct Hc as [e' [-> _]]. reflexivity.
  Qed.

  Lemma sem_set_rule p p' i i' r x :
    rule_rel R x x ->
    (forall ini s, spec_step p ini s i = Ok (set_rule r x s, None)) ->
    (forall ini s, spec_step p' ini s i' = Ok (set_rule r x s, None)) ->
    insn_sem R p p' i i'.
  Proof.
    intros Hx H1 H2 ini ini' s s' Hs Hini. rewrite H1, H2. cbn [nostep_rel].
    eexists; split; [reflexivity|]; split; [|split; reflexivity].
    apply set_rule_rel; [exact Hx|exact Hs].
  Qed.
End Sem.

Lemma factored_unit asz z : factored (unit_params asz) z = wrap_i64 z.
Proof. unfold factored, unit_params. cbn [sp_daf]. rewrite Z.mul_1_r. reflexivity. Qed.

(* every arm of CallFrameInstruction::from *)
Lemma conv_step_means caf daf xconv plc p o i o' c :
  sp_caf p = caf -> sp_daf p = daf ->
  conv_step caf daf xconv o i = Ok (o', c) ->
  exists m, means (conv_R xconv plc) plc p i m /\
    match m with
    | MAdvance b => c = None /\ o' = o + b /\ o' < 2 ^ 32
    | MNop => c = None /\ o' = o
    | MInsn x => c = Some x /\ o' = o
    end.
Proof.
  intros Hcaf Hdaf H.
  destruct i; cbn [conv_step] in H; try discriminate;
    try (apply bind_ok_inv in H; destruct H as [v [Hv H]]);
    inversion H; subst o' c; clear H.
  - (* advance_loc *)
    apply convert_advance_ok in Hv. destruct Hv as [-> Hlt].
    exists (MAdvance (d * caf)). split; [|auto].
    cbn [means]. exists d. rewrite Hcaf. split; [reflexivity|split; [reflexivity|]].
    assert (2 ^ 32 < 2 ^ 64) by (vm_compute; reflexivity). lia.
  - (* def_cfa *)
    apply convert_offset_ok in Hv. destruct Hv as [-> H32]. apply in_signed_32_64 in H32.
    exists (MInsn (Cfa r (Z.of_N off))). split; [|auto]. cbn [means den_cfi].
    apply sem_set_cfa with (r := r) (z := Z.of_N off); intros; cbn [spec_step]; [|rewrite factored_unit];
      rewrite ?wrap_i64_id by exact H32; reflexivity.
  - (* def_cfa_sf *)
    apply convert_factored_offset_ok in Hv. destruct Hv as [-> [H64 _]].
    exists (MInsn (Cfa r (fo * daf)%Z)). split; [|auto]. cbn [means den_cfi].
    apply sem_set_cfa with (r := r) (z := (fo * daf)%Z); intros; cbn [spec_step];
      [unfold factored; rewrite Hdaf|rewrite factored_unit]; rewrite wrap_i64_id by exact H64; reflexivity.
  - (* def_cfa_register *)
    exists (MInsn (CfaRegister r)). split; [|auto]. apply insn_same_sem. reflexivity.
  - (* def_cfa_offset *)
    apply convert_offset_ok in Hv. destruct Hv as [-> H32]. apply in_signed_32_64 in H32.
    exists (MInsn (CfaOffset (Z.of_N off))). split; [|auto]. cbn [means den_cfi].
    apply sem_set_cfa_offset with (z := Z.of_N off); intros; cbn [spec_step]; [|rewrite factored_unit];
      rewrite ?wrap_i64_id by exact H32; reflexivity.
  - (* def_cfa_offset_sf *)
    apply convert_factored_offset_ok in Hv. destruct Hv as [-> [H64 _]].
    exists (MInsn (CfaOffset (fo * daf)%Z)). split; [|auto]. cbn [means den_cfi].
    apply sem_set_cfa_offset with (z := (fo * daf)%Z); intros; cbn [spec_step];
      [unfold factored; rewrite Hdaf|rewrite factored_unit]; rewrite wrap_i64_id by exact H64; reflexivity.
  - (* def_cfa_expression *)
    exists (MInsn (CfaExpression v)). split; [|auto]. apply insn_same_sem. cbn [insn_same den_cfi].
    eexists; split; [reflexivity|]. exists v; auto.
  - exists (MInsn (Undefined r)). split; [|auto]. apply insn_same_sem. reflexivity.
  - exists (MInsn (SameValue r)). split; [|auto]. apply insn_same_sem. reflexivity.
  - (* offset *)
    apply convert_unsigned_factored_offset_ok in Hv. destruct Hv as [-> [H64 _]].
    exists (MInsn (Offset r (Z.of_N fo * daf)%Z)). split; [|auto]. cbn [means den_cfi].
    apply sem_set_rule with (r := r) (x := ROffset (Z.of_N fo * daf)%Z); [reflexivity| |]; intros; cbn [spec_step];
      [unfold factored; rewrite Hdaf|rewrite factored_unit]; rewrite wrap_i64_id by exact H64; reflexivity.
  - (* offset_extended_sf *)
    apply convert_factored_offset_ok in Hv. destruct Hv as [-> [H64 _]].
    exists (MInsn (Offset r (fo * daf)%Z)). split; [|auto]. cbn [means den_cfi].
    apply sem_set_rule with (r := r) (x := ROffset (fo * daf)%Z); [reflexivity| |]; intros; cbn [spec_step];
      [unfold factored; rewrite Hdaf|rewrite factored_unit]; rewrite wrap_i64_id by exact H64; reflexivity.
  - (* val_offset *)
    apply convert_unsigned_factored_offset_ok in Hv. destruct Hv as [-> [H64 _]].
    exists (MInsn (ValOffset r (Z.of_N fo * daf)%Z)). split; [|auto]. cbn [means den_cfi].
    apply sem_set_rule with (r := r) (x := RValOffset (Z.of_N fo * daf)%Z); [reflexivity| |]; intros; cbn [spec_step];
      [unfold factored; rewrite Hdaf|rewrite factored_unit]; rewrite wrap_i64_id by exact H64; reflexivity.
  - (* val_offset_sf *)
    apply convert_factored_offset_ok in Hv. destruct Hv as [-> [H64 _]].
    exists (MInsn (ValOffset r (fo * daf)%Z)). split; [|auto]. cbn [means den_cfi].
    apply sem_set_rule with (r := r) (x := RValOffset (fo * daf)%Z); [reflexivity| |]; intros; cbn [spec_step];
      [unfold factored; rewrite Hdaf|rewrite factored_unit]; rewrite wrap_i64_id by exact H64; reflexivity.
  - exists (MInsn (Register d s)). split; [|auto]. apply insn_same_sem. reflexivity.
  - exists (MInsn (Expression r v)). split; [|auto]. apply insn_same_sem. cbn [insn_same den_cfi].
    eexists; split; [reflexivity|]. exists v; auto.
  - exists (MInsn (ValExpression r v)). split; [|auto]. apply insn_same_sem. cbn [insn_same den_cfi].
    eexists; split; [reflexivity|]. exists v; auto.
  - exists (MInsn (Restore r)). split; [|auto]. apply insn_same_sem. reflexivity.
  - exists (MInsn RememberState). split; [|auto]. apply insn_same_sem. reflexivity.
  - exists (MInsn RestoreState). split; [|auto]. apply insn_same_sem. reflexivity.
  - apply convert_args_size_ok in Hv. destruct Hv as [-> _].
    exists (MInsn (ArgsSize n)). split; [|auto]. apply insn_same_sem. reflexivity.
  - exists (MInsn NegateRaState). split; [|auto]. apply insn_same_sem. reflexivity.
  - exists MNop. split; [reflexivity|auto].
Qed.

(* ------------------------------------------------------------------ whole programs *)

Lemma step_lim_nocaps p ini s i : step_lim no_caps p ini s i = spec_step p ini s i.
Proof. unfold step_lim. destruct (spec_step p ini s i) as [[s1 row]| | |]; reflexivity. Qed.

Lemma content_at_cons r rows a :
  content_at (r :: rows) a = if covers a r then Some (sr_cfa r, sr_args r, sr_rules r) else content_at rows a.
Proof. unfold content_at. cbn [find]. destruct (covers a r); reflexivity. Qed.

(* the part of the table between the location of the converted run and that of the source run *)
Definition gap (s' s : sstate) : srow :=
  {| sr_start := s_loc s'; sr_end := s_loc s; sr_cfa := s_cfa s; sr_args := s_args s; sr_rules := s_rules s |}.

Ltac ifs := repeat match goal with |- context [if ?b then _ else _] => let E := fresh "E" in destruct b eqn:E end.

Lemma pow_asize asz : asz <= 8 -> 2 ^ (8 * asz) <= 2 ^ 64.
Proof. intros H. apply N.pow_le_mono_r; lia. Qed.

Lemma st_rel_content R s s' : st_rel R s s' ->
  content_rel R (s_cfa s, s_args s, s_rules s) (s_cfa s', s_args s', s_rules s').
Proof. intros [Hc [Hm [Ha _]]]. unfold content_rel. cbn [fst snd]. auto. Qed.

Section Run.
  Variable R : uexpr -> uexpr -> Prop.
  Variable plc : list byte -> uexpr.
  Variable p : sparams.
  Hypothesis Hasz : sp_asize p <= 8.

  Lemma located_run : forall is ms, Forall2 (means R plc p) is ms ->
    forall ini ini' end_ s s' rows sf,
      st_rel R s s' -> ini_rel R ini ini' ->
      s_loc s' <= s_loc s -> (s_loc s' = s_loc s \/ s_loc s < 2 ^ (8 * sp_asize p)) ->
      spec_run no_caps p ini end_ s (map It is) = (rows, (Done, sf)) ->
      exists rows' sf',
        spec_run no_caps (unit_params (sp_asize p)) ini' end_ s'
                 (map It (den_fde plc (s_loc s') (locate (s_loc s) ms))) = (rows', (Done, sf')) /\
        st_rel R sf sf' /\
        forall a, s_loc s' <= a -> a < end_ ->
          unw_rel R (content_at (gap s' s :: rows) a) (content_at rows' a).
  Proof.
    induction 1 as [|i m is ms Hm _ IH]; intros ini ini' end_ s s' rows sf Hs Hini Hle Hinv Hrun.
    - cbn [map spec_run] in Hrun. inversion Hrun; subst rows sf. clear Hrun.
      cbn [locate den_fde map spec_run]. eexists; eexists; split; [reflexivity|]. split; [exact Hs|].
      intros a Ha He. rewrite !content_at_cons. unfold content_at. cbn [find].
      unfold covers, gap, row_of. cbn [sr_start sr_end sr_cfa sr_args sr_rules].
      pose proof (st_rel_content R s s' Hs) as Hc.
      destruct ((s_loc s' <=? a) && (a <? s_loc s)) eqn:E1;
        destruct ((s_loc s <=? a) && (a <? end_)) eqn:E2;
        destruct ((s_loc s' <=? a) && (a <? end_)) eqn:E3; cbn [unw_rel]; try exact Hc; lia.
    - cbn [map spec_run] in Hrun. rewrite step_lim_nocaps in Hrun.
      destruct m as [c|b|]; cbn [means] in Hm.
      + (* an instruction *)
        assert (Hpre : exists s2 pre,
          (forall rest, spec_run no_caps (unit_params (sp_asize p)) ini' end_ s'
                    (map It ((if s_loc s =? s_loc s' then [] else [IAdvanceLoc (s_loc s - s_loc s')]) ++ rest)) =
                  let '(rows1, fin) := spec_run no_caps (unit_params (sp_asize p)) ini' end_ s2 (map It rest) in
                  (pre ++ rows1, fin)) /\
          st_rel R s s2 /\ s_loc s2 = s_loc s /\
          (forall X a, s_loc s' <= a ->
             content_at (pre ++ X) a =
             if a <? s_loc s then Some (s_cfa s', s_args s', s_rules s') else content_at X a)).
        { destruct (s_loc s =? s_loc s') eqn:E.
          - exists s', []. split; [|split; [exact Hs|split; [lia|]]].
            + intros rest. cbn [app]. destruct (spec_run _ _ _ _ _ _) as [rows1 fin]. reflexivity.
            + intros X a Ha. cbn [app]. destruct (a <? s_loc s) eqn:E2; [lia|reflexivity].
          - exists (with_loc (s_loc s) s'), [row_of s' (s_loc s)].
            assert (Hlt : s_loc s < 2 ^ (8 * sp_asize p)) by (destruct Hinv; [lia|assumption]).
            pose proof (pow_asize _ Hasz) as Hp.
            split; [|split; [apply with_loc_rel with (a := s_loc s) (b := s_loc s) in Hs;
                             destruct s; exact Hs|split; [reflexivity|]]].
            + intros rest. cbn [app map spec_run]. rewrite step_lim_nocaps. cbn [spec_step unit_params sp_caf sp_asize].
              rewrite N.mul_1_r. rewrite wrap64_small by (unfold two64; change (2 ^ 64) with 18446744073709551616 in Hp; lia).
              replace (s_loc s' + (s_loc s - s_loc s')) with (s_loc s) by lia.
              destruct (2 ^ (8 * sp_asize p) <=? s_loc s) eqn:E2; [lia|].
              destruct (spec_run _ _ _ _ _ _) as [rows1 fin]. reflexivity.
            + intros X a Ha. cbn [app]. rewrite content_at_cons. unfold covers, row_of.
              cbn [sr_start sr_end sr_cfa sr_args sr_rules].
              ifs; try reflexivity; lia. }
        destruct Hpre as [s2 [pre [Hpre [Hs2 [Hl2 Hcont]]]]].
        specialize (Hm ini ini' s s2 Hs2 Hini).
        destruct (spec_step p ini s i) as [[s1 [row|]]|e| |]; cbn [nostep_rel] in Hm; try contradiction;
          try (inversion Hrun; fail).
        destruct Hm as [s1' [Hstep [Hs1 [Hl1 Hl1']]]].
        specialize (IH ini ini' end_ s1 s1').
        destruct (spec_run no_caps p ini end_ s1 (map It is)) as [rows1 fin1] eqn:E1.
        inversion Hrun; subst rows1 fin1. clear Hrun.
        destruct (IH rows sf Hs1 Hini ltac:(lia) ltac:(left; lia) eq_refl) as [rows' [sf' [Hr' [Hsf Hcov]]]].
        cbn [locate den_fde]. rewrite Hpre. cbn [map spec_run]. rewrite step_lim_nocaps, Hstep.
        rewrite Hl1', Hl2, Hl1 in Hr'. rewrite Hr'.
        eexists; eexists; split; [reflexivity|]. split; [exact Hsf|].
        intros a Ha He. rewrite Hcont by exact Ha. rewrite content_at_cons.
        specialize (Hcov a). rewrite content_at_cons in Hcov.
        unfold covers, gap in *. cbn [sr_start sr_end sr_cfa sr_args sr_rules] in *.
        destruct (a <? s_loc s) eqn:E2.
        * replace ((s_loc s' <=? a) && true) with true by lia. cbn [unw_rel]. apply st_rel_content. exact Hs.
        * replace ((s_loc s' <=? a) && false) with false by lia.
          replace ((s_loc s1' <=? a) && (a <? s_loc s1)) with false in Hcov by lia.
          apply Hcov; lia.
      + (* an advance *)
        destruct Hm as [d [-> [Hb Hb64]]]. cbn [spec_step] in Hrun. rewrite <- Hb in Hrun.
        rewrite wrap64_small in Hrun by (unfold two64; lia).
        destruct (2 ^ (8 * sp_asize p) <=? s_loc s + b) eqn:E; [inversion Hrun|].
        specialize (IH ini ini' end_ (with_loc (s_loc s + b) s) s').
        destruct (spec_run no_caps p ini end_ (with_loc (s_loc s + b) s) (map It is)) as [rows1 fin1] eqn:E1.
        inversion Hrun; subst rows fin1. clear Hrun.
        assert (Hs1 : st_rel R (with_loc (s_loc s + b) s) s').
        { apply with_loc_rel with (a := s_loc s + b) (b := s_loc s') in Hs. destruct s'; exact Hs. }
        destruct (IH rows1 sf Hs1 Hini ltac:(cbn [with_loc s_loc]; lia) ltac:(right; cbn [with_loc s_loc]; lia) eq_refl)
          as [rows' [sf' [Hr' [Hsf Hcov]]]].
        cbn [locate]. cbn [with_loc s_loc] in Hr'. rewrite Hr'.
        eexists; eexists; split; [reflexivity|]. split; [exact Hsf|].
        intros a Ha He. specialize (Hcov a Ha He). rewrite content_at_cons in Hcov.
        rewrite !content_at_cons.
        unfold covers, gap, row_of, with_loc in *. cbn [sr_start sr_end sr_cfa sr_args sr_rules s_loc s_cfa s_args s_rules] in *.
        destruct ((s_loc s' <=? a) && (a <? s_loc s)) eqn:E2;
          destruct ((s_loc s <=? a) && (a <? s_loc s + b)) eqn:E3;
          destruct ((s_loc s' <=? a) && (a <? s_loc s + b)) eqn:E4; try exact Hcov; lia.
      + (* a nop *)
        subst i. cbn [spec_step] in Hrun. cbn [locate]. eapply IH; eauto.
  Qed.
End Run.

(* the instructions of a list of meanings (advances and nops dropped) *)
Definition insns_of (ms : list meaning) : list cfi :=
  flat_map (fun m => match m with MInsn c => [c] | _ => [] end) ms.

Section RunCie.
  Variable R : uexpr -> uexpr -> Prop.
  Variable plc : list byte -> uexpr.
  Variable p : sparams.

  (* initial instructions: only the state they leave matters; location advances are absorbed *)
  Lemma cie_run : forall is ms, Forall2 (means R plc p) is ms ->
    forall ini ini' e e' s s' rows sf,
      st_rel R s s' -> ini_rel R ini ini' ->
      spec_run no_caps p ini e s (map It is) = (rows, (Done, sf)) ->
      exists rows' sf',
        spec_run no_caps (unit_params (sp_asize p)) ini' e' s' (map It (map (den_cfi plc) (insns_of ms))) = (rows', (Done, sf')) /\
        st_rel R sf sf'.
  Proof.
    induction 1 as [|i m is ms Hm _ IH]; intros ini ini' e e' s s' rows sf Hs Hini Hrun.
    - cbn [map spec_run] in Hrun. inversion Hrun; subst. cbn. eexists; eexists; split; [reflexivity|exact Hs].
    - cbn [map spec_run] in Hrun. rewrite step_lim_nocaps in Hrun.
      destruct m as [c|b|]; cbn [means] in Hm.
      + specialize (Hm ini ini' s s' Hs Hini).
        destruct (spec_step p ini s i) as [[s1 [row|]]|er| |]; cbn [nostep_rel] in Hm; try contradiction;
          try (inversion Hrun; fail).
        destruct Hm as [s1' [Hstep [Hs1 _]]].
        destruct (IH ini ini' e e' s1 s1' rows sf Hs1 Hini Hrun) as [rows' [sf' [Hr' Hsf]]].
        unfold insns_of. cbn [flat_map app map spec_run]. rewrite step_lim_nocaps, Hstep.
        eexists; eexists; split; [exact Hr'|exact Hsf].
      + destruct Hm as [d [-> [Hb Hb64]]]. cbn [spec_step] in Hrun.
        destruct (2 ^ (8 * sp_asize p) <=? s_loc s + wrap64 (d * sp_caf p)); [inversion Hrun|].
        destruct (spec_run no_caps p ini e (with_loc (s_loc s + wrap64 (d * sp_caf p)) s) (map It is)) as [rows1 fin1] eqn:E1.
        inversion Hrun; subst rows fin1.
        assert (Hs1 : st_rel R (with_loc (s_loc s + wrap64 (d * sp_caf p)) s) s').
        { apply with_loc_rel with (a := s_loc s + wrap64 (d * sp_caf p)) (b := s_loc s') in Hs. destruct s'; exact Hs. }
        destruct (IH ini ini' e e' _ s' rows1 sf Hs1 Hini E1) as [rows' [sf' [Hr' Hsf]]].
        unfold insns_of. cbn [flat_map app]. eexists; eexists; split; [exact Hr'|exact Hsf].
      + subst i. cbn [spec_step] in Hrun. unfold insns_of. cbn [flat_map app]. eapply IH; eauto.
  Qed.
End RunCie.

(* the two conversion loops compute the located normal form of the meanings of the source instructions *)
Lemma conv_fde_from_means caf daf xconv plc p : sp_caf p = caf -> sp_daf p = daf ->
  forall items o l, conv_fde_from caf daf xconv o items = Ok l ->
  exists is ms, items = map It is /\ Forall2 (means (conv_R xconv plc) plc p) is ms /\ locate o ms = l /\
                Forall (fun x => o <= fst x < 2 ^ 32 \/ fst x = o) l.
Proof.
  intros Hc Hd. induction items as [|it items IH]; intros o l H.
  - cbn in H. inversion H; subst. exists [], []. repeat split; constructor.
  - destruct it as [i|e| |]; cbn [conv_fde_from] in H; try discriminate.
    apply bind_ok_inv in H. destruct H as [[o1 c] [Hstep H]].
    apply bind_ok_inv in H. destruct H as [l1 [Hl1 H]]. inversion H; subst l; clear H.
    destruct (IH o1 l1 Hl1) as [is [ms [-> [Hms [Hloc Hb]]]]].
    destruct (conv_step_means caf daf xconv plc p o i o1 c Hc Hd Hstep) as [m [Hm Hcase]].
    exists (i :: is), (m :: ms). split; [reflexivity|]. split; [constructor; assumption|].
    destruct m as [x|b|]; cbn [locate].
    + destruct Hcase as [-> ->]. split; [rewrite Hloc; reflexivity|].
      constructor; [right; reflexivity|exact Hb].
    + destruct Hcase as [-> [-> Hlt]]. split; [exact Hloc|].
      eapply Forall_impl; [|exact Hb]. intros [a x]; cbn [fst]. lia.
    + destruct Hcase as [-> ->]. split; [exact Hloc|exact Hb].
Qed.

Lemma conv_cie_from_means caf daf xconv plc p : sp_caf p = caf -> sp_daf p = daf ->
  forall items o l, conv_cie_from caf daf xconv o items = Ok l ->
  exists is ms, items = map It is /\ Forall2 (means (conv_R xconv plc) plc p) is ms /\ insns_of ms = l.
Proof.
  intros Hc Hd. induction items as [|it items IH]; intros o l H.
  - cbn in H. inversion H; subst. exists [], []. repeat split; constructor.
  - destruct it as [i|e| |]; cbn [conv_cie_from] in H; try discriminate.
    apply bind_ok_inv in H. destruct H as [[o1 c] [Hstep H]].
    apply bind_ok_inv in H. destruct H as [l1 [Hl1 H]]. inversion H; subst l; clear H.
    destruct (IH o1 l1 Hl1) as [is [ms [-> [Hms Hloc]]]].
    destruct (conv_step_means caf daf xconv plc p o i o1 c Hc Hd Hstep) as [m [Hm Hcase]].
    exists (i :: is), (m :: ms). split; [reflexivity|]. split; [constructor; assumption|].
    unfold insns_of in *. cbn [flat_map].
    destruct m as [x|b|]; cbn [app].
    + destruct Hcase as [-> ->]. rewrite Hloc; reflexivity.
    + destruct Hcase as [-> _]. exact Hloc.
    + destruct Hcase as [-> _]. exact Hloc.
Qed.

(* code offsets are relative: a located program means the same from any starting address *)
Lemma den_fde_shift plc b : forall ms o cur,
  den_fde plc (b + cur) (locate (b + o) ms) = den_fde plc cur (locate o ms).
Proof.
  induction ms as [|m ms IH]; intros o cur; [reflexivity|].
  destruct m as [c|d|]; cbn [locate].
  - cbn [den_fde]. rewrite (IH o o).
    replace (b + o =? b + cur) with (o =? cur) by lia. replace (b + o - (b + cur)) with (o - cur) by lia. reflexivity.
  - rewrite <- N.add_assoc. apply IH.
  - apply IH.
Qed.

(* ------------------------------------------------------------------ the table of a CIE + FDE pair *)

Lemma guard_nocaps ini s : guard no_caps ini s = Ok tt.
Proof. reflexivity. Qed.

Lemma gap_empty s s' rows a : s_loc s' = s_loc s -> content_at (gap s' s :: rows) a = content_at rows a.
Proof.
  intros H. rewrite content_at_cons. unfold covers, gap. cbn [sr_start sr_end]. rewrite H.
  destruct ((s_loc s <=? a) && (a <? s_loc s)) eqn:E; [lia|reflexivity].
Qed.

(* both programs given by their meanings *)
Lemma table_of_means R plc p (cis fis : list insn) (cms fms : list meaning) init end_ rows :
  sp_asize p <= 8 ->
  Forall2 (means R plc p) cis cms -> Forall2 (means R plc p) fis fms ->
  run_spec p init end_ (map It cis) (map It fis) = (rows, Done) ->
  exists rows',
    run_spec (unit_params (sp_asize p)) init end_
             (map It (map (den_cfi plc) (insns_of cms))) (map It (den_fde plc 0 (locate 0 fms))) = (rows', Done) /\
    forall a, init <= a -> a < end_ -> unw_rel R (content_at rows a) (content_at rows' a).
Proof.
  intros Hasz Hc Hf Hrun. unfold run_spec, run_spec_lim in *.
  destruct (spec_run no_caps p None 0 init_state (map It cis)) as [crows [co sc]] eqn:Ec.
  destruct co; try (inversion Hrun; fail).
  assert (H0 : st_rel R init_state init_state).
  { unfold st_rel, init_state. cbn. repeat split; constructor. }
  destruct (cie_run R plc p cis cms Hc None None 0 0 init_state init_state crows sc H0 eq_refl Ec)
    as [crows' [sc' [Ec' Hsc]]].
  rewrite Ec'. rewrite guard_nocaps in *.
  destruct (spec_run no_caps p (Some (s_rules sc)) end_ (with_loc init sc) (map It fis)) as [frows [fo fs]] eqn:Ef.
  inversion Hrun; subst frows fo. clear Hrun.
  assert (Hini : ini_rel R (Some (s_rules sc)) (Some (s_rules sc'))).
  { cbn [ini_rel]. eexists; split; [reflexivity|]. destruct Hsc as [_ [Hm _]]. exact Hm. }
  assert (Hs0 : st_rel R (with_loc init sc) (with_loc init sc')) by (apply with_loc_rel; exact Hsc).
  destruct (located_run R plc p Hasz fis fms Hf _ _ end_ _ _ rows fs Hs0 Hini
              ltac:(cbn [with_loc s_loc]; lia) ltac:(left; reflexivity) Ef) as [rows' [fs' [Hr' [_ Hcov]]]].
  cbn [with_loc s_loc] in Hr'.
  replace init with (init + 0) in Hr' at 2 3 by lia. rewrite den_fde_shift in Hr'.
  rewrite Hr'. eexists; split; [reflexivity|].
  intros a Ha He. specialize (Hcov a). cbn [with_loc s_loc] in Hcov.
  rewrite gap_empty in Hcov by reflexivity. apply Hcov; assumption.
Qed.

(* cfi_insn_convert_sound *)
Lemma cfi_insn_convert_sound_lemma (p : sparams) (xconv : uexpr -> res (list byte)) (plc : list byte -> uexpr)
      (cie fde : list item) (cl : list cfi) (fl : list (N * cfi)) (init end_ : N) (rows : list srow) :
  sp_asize p <= 8 ->
  conv_cie (sp_caf p) (sp_daf p) xconv cie = Ok cl ->
  conv_fde (sp_caf p) (sp_daf p) xconv fde = Ok fl ->
  run_spec p init end_ cie fde = (rows, Done) ->
  exists rows',
    converted_rows plc (sp_asize p) init end_ cl fl = (rows', Done) /\
    forall a, init <= a -> a < end_ ->
      unw_rel (conv_R xconv plc) (content_at rows a) (content_at rows' a).
Proof.
  intros Hasz Hc Hf Hrun.
  destruct (conv_cie_from_means _ _ xconv plc p eq_refl eq_refl cie 0 cl Hc) as [cis [cms [-> [Hcm <-]]]].
  destruct (conv_fde_from_means _ _ xconv plc p eq_refl eq_refl fde 0 fl Hf) as [fis [fms [-> [Hfm [<- _]]]]].
  unfold converted_rows. eapply table_of_means; eauto.
Qed.
