(* Proofs/FilterAttrsStruct.v — the attribute-level conversion (FilterAttrs.convert_units_attrs) and the
   conversion of Model/Filter.v are ONE model: they emit the same DIEs attached to the same parents (C19). *)
From Coq Require Import List NArith ZArith Bool Lia.
Require Import GV.Base.Res GV.Base.Ints GV.Spec.Graph GV.Model.Filter GV.Spec.FilterSpec GV.Model.FilterAttrs.
Require Import GV.Proofs.FilterProofs GV.Proofs.FilterEdges GV.Proofs.FilterConv GV.Proofs.FilterTol.
Require Import GV.Proofs.FilterAttrsProofs.
Import ListNotations.
Local Open Scope N_scope.
Local Arguments N.add : simpl never.

Definition raw_of (r : arawent) : rawent :=
  {| r_ent := entry_of (ar_ent r); r_depth := ar_depth r; r_kids := ar_kids r |}.
Definition cd_pair (c : cdie) : N * N := (cd_off c, cd_parent c).

Lemma is_nil_map : forall (A B : Type) (f : A -> B) l, is_nil (map f l) = is_nil l.
Proof. intros A B f [|x l]; reflexivity. Qed.

Lemma aflatten_tree_eq : forall d e ks,
  aflatten_tree d (ANode e ks) =
  {| ar_ent := e; ar_depth := d; ar_kids := negb (is_nil ks) |} :: aflatten_list (d + 1) ks.
Proof.
  intros d e ks. cbn [aflatten_tree]. f_equal.
  induction ks as [|k ks IH]; cbn [aflatten_list]; auto. now rewrite IH.
Qed.

Lemma aflatten_raw : forall l d, map raw_of (aflatten_list d l) = flatten_list d (map tree_of l).
Proof.
  apply (aforest_ind2
           (fun t => forall d, map raw_of (aflatten_tree d t) = flatten_tree d (tree_of t))
           (fun l => forall d, map raw_of (aflatten_list d l) = flatten_list d (map tree_of l))).
  - intros e ks IH d. rewrite aflatten_tree_eq. cbn [tree_of]. rewrite flatten_tree_eq. cbn [map].
    rewrite IH. unfold raw_of at 1. cbn [ar_ent ar_depth ar_kids]. now rewrite is_nil_map.
  - reflexivity.
  - intros t l Ht Hl d. cbn [aflatten_list map flatten_list]. now rewrite map_app, Ht, Hl.
Qed.

Lemma mem_n_keys : forall x (m : idmap), mem_n x (map fst m) = match im_get x m with Some _ => true | None => false end.
Proof.
  intros x m. destruct (im_get x m) as [id|] eqn:E.
  - apply mem_n_iff. apply im_get_in in E. apply in_map_iff. exists (x, id). auto.
  - apply im_get_none in E. destruct (mem_n x (map fst m)) eqn:Em; auto. apply mem_n_iff in Em. contradiction.
Qed.

(* one DIE: whenever the attribute-level step succeeds, the step of Model/Filter.v on the same DIE without its
   sites makes the same decision and attaches the DIE to the same parent *)
Lemma cua_entry_sim : forall tol u m ps out r ps' out',
  cua_entry tol u m (ps, out) r = Ok (ps', out') ->
  cu_entry u (map fst m) (ps, map cd_pair out) (strip_raw (raw_of r)) = Ok (ps', map cd_pair out').
Proof.
  intros tol u m ps out r ps' out' H. unfold cua_entry in H. unfold cu_entry.
  cbn [strip_raw raw_of r_ent r_depth r_kids e_off e_sites entry_of].
  rewrite mem_n_keys.
  destruct (im_get (sec u (ae_off (ar_ent r))) m) as [id|].
  - unfold cu_filter_attributes in H.
    destruct (if tol then Ok (cv_attributes_tol u m (filter attr_kept (ae_attrs (ar_ent r))))
              else cv_attributes u m (filter attr_kept (ae_attrs (ar_ent r)))) as [ca| | |]; cbn [bind] in H; try discriminate.
    inversion H; subst. cbn [conv_sites bind]. rewrite map_app. reflexivity.
  - inversion H; subst. reflexivity.
Qed.

Lemma cua_entries_sim : forall tol u m rs ps out ps' out',
  cua_entries tol u m (ps, out) rs = Ok (ps', out') ->
  cu_entries u (map fst m) (ps, map cd_pair out) (map strip_raw (map raw_of rs)) = Ok (ps', map cd_pair out').
Proof.
  intros tol u m rs. induction rs as [|r rs IH]; intros ps out ps' out' H; cbn [cua_entries] in H.
  - inversion H; subst. reflexivity.
  - destruct (cua_entry tol u m (ps, out) r) as [[ps1 out1]| | |] eqn:E; cbn [bind] in H; try discriminate.
    cbn [map cu_entries]. rewrite (cua_entry_sim _ _ _ _ _ _ _ _ E). cbn [bind]. now apply IH.
Qed.

Lemma convert_units_attrs_sim : forall tol m aunits out out',
  convert_units_attrs tol m aunits out = Ok out' ->
  convert_units_tol (map fst m) (map unit_of aunits) (map cd_pair out) = Ok (map cd_pair out').
Proof.
  intros tol m aunits. induction aunits as [|au us IH]; intros out out' H; cbn [convert_units_attrs] in H.
  - inversion H; subst. reflexivity.
  - destruct (cua_entries tol (unit_of au) m
                (if is_nil (au_kids au) then [] else [(0%Z, root_off (unit_of au))], out)
                (aflatten_list 1 (au_kids au))) as [[ps1 out1]| | |] eqn:E; cbn [bind] in H; try discriminate.
    cbn [map convert_units_tol].
    replace (u_kids (unit_of au)) with (map tree_of (au_kids au)) by reflexivity.
    rewrite is_nil_map, <- aflatten_raw.
    rewrite (cua_entries_sim _ _ _ _ _ _ _ _ E). cbn [bind snd]. now apply IH.
Qed.

(* the tolerant attribute-level conversion never fails *)
Lemma cua_entries_tol_total : forall u m rs st, exists st', cua_entries true u m st rs = Ok st'.
Proof.
  intros u m rs. induction rs as [|r rs IH]; intros [ps out]; cbn [cua_entries]; [eauto|].
  unfold cua_entry. destruct (im_get (sec u (ae_off (ar_ent r))) m) as [id|].
  - destruct (cu_filter_attributes (ae_attrs (ar_ent r))) as [sib l]. cbn [bind]. apply IH.
  - cbn [bind]. apply IH.
Qed.

Lemma convert_units_attrs_tol_total : forall m aunits out, exists out', convert_units_attrs true m aunits out = Ok out'.
Proof.
  intros m aunits. induction aunits as [|au us IH]; intros out; cbn [convert_units_attrs]; [eauto|].
  match goal with |- context [cua_entries true ?u m ?st ?rs] => destruct (cua_entries_tol_total u m rs st) as [st' ->] end.
  cbn [bind]. apply IH.
Qed.

(* ========================================================================================== *)
(* the filtered conversions                                                                    *)

Lemma attrs_structure_full : forall (tol dbg : bool) (req : N -> bool) (aunits : list aunit) m out,
  convert_filtered_attrs tol dbg req aunits = Ok (m, out) ->
  ids_filtered dbg req (map unit_of aunits) = Ok m /\
  convert_filtered_tol filter_refs dbg req (map unit_of aunits) = Ok (map cd_pair out).
Proof.
  intros tol dbg req aunits m out H. unfold convert_filtered_attrs in H.
  destruct (ids_filtered dbg req (map unit_of aunits)) as [m0| | |] eqn:Em; cbn [bind] in H; try discriminate.
  destruct (convert_units_attrs tol m0 aunits []) as [out0| | |] eqn:Eo; cbn [bind] in H; try discriminate.
  inversion H; subst. split; [reflexivity|].
  unfold ids_filtered in Em. unfold convert_filtered_tol.
  destruct (reserved filter_refs dbg req (map unit_of aunits)) as [offs| | |]; cbn [bind] in Em |- *; try discriminate.
  destruct (slices dbg (map unit_of aunits) offs) as [sl| | |]; cbn [bind] in Em |- *; try discriminate.
  inversion Em; subst. rewrite <- section_ids_keys with (j := 0).
  apply (convert_units_attrs_sim _ _ _ _ _ Eo).
Qed.

(* the tolerant loop: never fails on a well-formed forest, emits exactly the reserved set *)
Lemma attrs_tolerant_full : forall (dbg : bool) (req : N -> bool) (aunits : list aunit),
  wf_offsets (map unit_of aunits) -> wf_layout (map unit_of aunits) ->
  exists S m out,
    reserved filter_refs dbg req (map unit_of aunits) = Ok S /\
    convert_filtered_attrs true dbg req aunits = Ok (m, out) /\
    convert_filtered_tol filter_refs dbg req (map unit_of aunits) = Ok (map cd_pair out) /\
    (forall x, In x (map cd_off out) <-> In x S).
Proof.
  intros dbg req aunits Hwf Hlay.
  destruct (same_attributes_full dbg req aunits Hwf Hlay) as [S [m [HS [Hm _]]]].
  destruct (convert_units_attrs_tol_total m aunits []) as [out Hout].
  assert (H : convert_filtered_attrs true dbg req aunits = Ok (m, out)).
  { unfold convert_filtered_attrs. rewrite Hm. cbn [bind]. rewrite Hout. reflexivity. }
  destruct (attrs_structure_full _ _ _ _ _ _ H) as [_ Hs].
  destruct (tolerant_emits_reserved_full filter_refs dbg req _ Hwf Hlay) as [S' [out' [HS' [Ht [Hin _]]]]].
  rewrite HS in HS'. inversion HS'; subst S'. rewrite Hs in Ht. inversion Ht; subst out'.
  exists S, m, out. repeat split; auto.
  - intros Hx. apply Hin. rewrite map_map. unfold cd_pair. cbn [fst]. exact Hx.
  - intros Hx. apply Hin in Hx. rewrite map_map in Hx. exact Hx.
Qed.

(* ========================================================================================== *)
(* strict conversion: whenever the conversion of Model/Filter.v succeeds, the attribute-level conversion
   succeeds and emits the same DIEs under the same parents                                      *)

Lemma conv_unit_ref_cv : forall u m v, convert_unit_ref u (map fst m) v = Ok tt -> exists id, cv_unit_ref u m v = Ok id.
Proof.
  intros u m v H. unfold convert_unit_ref in H. unfold cv_unit_ref.
  destruct (negb (in_bounds u v)); [discriminate|]. rewrite mem_n_keys in H.
  destruct (im_get (sec u v) m) as [id|]; [eauto|discriminate].
Qed.
Lemma conv_info_ref_cv : forall m v, convert_debug_info_ref (map fst m) v = Ok tt -> exists id, cv_info_ref m v = Ok id.
Proof.
  intros m v H. unfold convert_debug_info_ref in H. unfold cv_info_ref. rewrite mem_n_keys in H.
  destruct (im_get v m) as [id|]; [eauto|discriminate].
Qed.

Lemma conv_op_cv : forall u m op v, conv_op u (map fst m) op v = Ok tt -> exists l, cv_op u m op v = Ok l.
Proof.
  intros u m op v H. destruct op; cbn [conv_op cv_op] in *;
    try (destruct (v =? 0); [eauto|]);
    try (destruct (conv_unit_ref_cv _ _ _ H) as [id ->]; cbn; eauto);
    destruct (conv_info_ref_cv _ _ H) as [id ->]; cbn; eauto.
Qed.

Lemma conv_site_cv : forall u m s, conv_site u (map fst m) s = Ok tt -> exists l, cv_site u m s = Ok l.
Proof.
  intros u m [car v] H. unfold conv_site in H. unfold cv_site. cbn [s_car s_val] in *.
  destruct car as [| |nest op|k nest op].
  - destruct (conv_unit_ref_cv _ _ _ H) as [id ->]. cbn. eauto.
  - destruct (conv_info_ref_cv _ _ H) as [id ->]. cbn. eauto.
  - now apply conv_op_cv.
  - destruct (conv_op_cv _ _ _ _ H) as [l ->]. cbn. eauto.
Qed.

Lemma conv_sites_app : forall u ids a b, conv_sites u ids (a ++ b) = Ok tt ->
  conv_sites u ids a = Ok tt /\ conv_sites u ids b = Ok tt.
Proof.
  intros u ids a. induction a as [|s a IH]; intros b H; cbn [app conv_sites] in *; [auto|].
  destruct (conv_site u ids s) as [[]| | |]; cbn [bind] in *; try discriminate. now apply IH.
Qed.

Lemma conv_sites_cv : forall u m ss, conv_sites u (map fst m) ss = Ok tt -> exists l, cv_sites u m ss = Ok l.
Proof.
  intros u m ss. induction ss as [|s ss IH]; intros H; cbn [conv_sites cv_sites] in *; [eauto|].
  destruct (conv_site u (map fst m) s) as [[]| | |] eqn:E; cbn [bind] in H; try discriminate.
  destruct (conv_site_cv _ _ _ E) as [a ->]. destruct (IH H) as [b ->]. cbn. eauto.
Qed.

Lemma conv_sites_cv_attributes : forall u m l,
  conv_sites u (map fst m) (flat_map at_sites l) = Ok tt -> exists ca, cv_attributes u m l = Ok ca.
Proof.
  intros u m l. induction l as [|a l IH]; intros H; cbn [flat_map cv_attributes] in *; [eauto|].
  apply conv_sites_app in H. destruct H as [Ha Hl]. destruct (IH Hl) as [ca Hca].
  destruct (at_name a =? DW_AT_GNU_locviews); [eauto|].
  destruct (conv_sites_cv _ _ _ Ha) as [ids ->]. rewrite Hca. cbn. eauto.
Qed.

Lemma cu_entry_cua : forall u m ps out r ps' o',
  cu_entry u (map fst m) (ps, map cd_pair out) (raw_of r) = Ok (ps', o') ->
  exists out', cua_entry false u m (ps, out) r = Ok (ps', out') /\ map cd_pair out' = o'.
Proof.
  intros u m ps out r ps' o' H. unfold cu_entry in H. unfold cua_entry.
  cbn [raw_of r_ent r_depth r_kids e_off e_sites entry_of] in H. rewrite mem_n_keys in H.
  destruct (im_get (sec u (ae_off (ar_ent r))) m) as [id|].
  - unfold cu_filter_attributes, fu_filter_attributes in *.
    destruct (conv_sites u (map fst m) (flat_map at_sites (filter attr_kept (ae_attrs (ar_ent r))))) as [[]| | |] eqn:E;
      cbn [bind] in H; try discriminate.
    destruct (conv_sites_cv_attributes _ _ _ E) as [ca ->]. cbn [bind]. inversion H; subst.
    eexists. split; [reflexivity|]. rewrite map_app. reflexivity.
  - inversion H; subst. eauto.
Qed.

Lemma cu_entries_cua : forall u m rs ps out ps' o',
  cu_entries u (map fst m) (ps, map cd_pair out) (map raw_of rs) = Ok (ps', o') ->
  exists out', cua_entries false u m (ps, out) rs = Ok (ps', out') /\ map cd_pair out' = o'.
Proof.
  intros u m rs. induction rs as [|r rs IH]; intros ps out ps' o' H; cbn [map cu_entries cua_entries] in *.
  - inversion H; subst. eauto.
  - destruct (cu_entry u (map fst m) (ps, map cd_pair out) (raw_of r)) as [[ps1 o1]| | |] eqn:E; cbn [bind] in H; try discriminate.
    destruct (cu_entry_cua _ _ _ _ _ _ _ E) as [out1 [-> Ho1]]. cbn [bind]. subst o1. now apply IH.
Qed.

Lemma convert_units_cua : forall m aunits out o',
  convert_units (map fst m) (map unit_of aunits) (map cd_pair out) = Ok o' ->
  exists out', convert_units_attrs false m aunits out = Ok out' /\ map cd_pair out' = o'.
Proof.
  intros m aunits. induction aunits as [|au us IH]; intros out o' H; cbn [map convert_units convert_units_attrs] in *.
  - inversion H; subst. eauto.
  - replace (u_kids (unit_of au)) with (map tree_of (au_kids au)) in H by reflexivity.
    rewrite is_nil_map, <- aflatten_raw in H.
    destruct (cu_entries (unit_of au) (map fst m)
                (if is_nil (au_kids au) then [] else [(0%Z, root_off (unit_of au))], map cd_pair out)
                (map raw_of (aflatten_list 1 (au_kids au)))) as [[ps1 o1]| | |] eqn:E; cbn [bind snd] in H; try discriminate.
    destruct (cu_entries_cua _ _ _ _ _ _ _ E) as [out1 [-> Ho1]]. cbn [bind snd]. subst o1. now apply IH.
Qed.

Lemma attrs_strict_full : forall (dbg : bool) (req : N -> bool) (aunits : list aunit) out0,
  convert_filtered filter_refs dbg req (map unit_of aunits) = Ok out0 ->
  exists m out, convert_filtered_attrs false dbg req aunits = Ok (m, out) /\ map cd_pair out = out0.
Proof.
  intros dbg req aunits out0 H. unfold convert_filtered in H. unfold convert_filtered_attrs, ids_filtered.
  destruct (reserved filter_refs dbg req (map unit_of aunits)) as [offs| | |]; cbn [bind] in H |- *; try discriminate.
  destruct (slices dbg (map unit_of aunits) offs) as [sl| | |]; cbn [bind] in H |- *; try discriminate.
  rewrite <- section_ids_keys with (j := 0) in H.
  destruct (convert_units_cua _ _ [] _ H) as [out [-> Ho]]. cbn [bind]. eauto.
Qed.

(* ========================================================================================== *)
(* same attributes for the tolerant loop                                                       *)

(* on the reference sites of a reserved DIE the filter's entry_ids and those of the unfiltered conversion agree *)
Lemma reserved_agree_full : forall (dbg : bool) (req : N -> bool) (aunits : list aunit),
  wf_offsets (map unit_of aunits) -> wf_layout (map unit_of aunits) ->
  exists S mF,
    reserved filter_refs dbg req (map unit_of aunits) = Ok S /\
    ids_filtered dbg req (map unit_of aunits) = Ok mF /\
    forall au e, In au aunits -> In e (aunit_entries au) -> In (sec (unit_of au) (ae_off e)) S ->
    forall a s y, In a (filter attr_kept (ae_attrs e)) -> In s (at_sites a) -> In y (conv_refs (unit_of au) s) ->
      agree mF (ids_all (map unit_of aunits)) y.
Proof.
  intros dbg req aunits Hwf Hlay. set (units := map unit_of aunits) in *.
  destruct (filtered_ids filter_refs dbg req units Hwf Hlay) as [S [ids [HS [Hsort [Hin [Hsl [_ _]]]]]]].
  destruct (reserved_closure filter_refs dbg req units Hwf) as [S' [HS' [_ [Hclosed [Hvalid _]]]]].
  rewrite HS in HS'. inversion HS'; subst S'. clear HS'.
  set (sl := map (fun u => filter (in_unit u) S) units) in *.
  set (mF := section_ids 0 units sl).
  set (mA := ids_all units).
  assert (HmF : ids_filtered dbg req units = Ok mF).
  { unfold ids_filtered. rewrite HS. cbn [bind]. rewrite Hsl. reflexivity. }
  assert (HkF : forall x, In x (map fst mF) <-> is_root units x \/ In x S).
  { intros x. unfold mF. rewrite section_ids_keys. unfold sl. rewrite reserve_all_in. unfold is_root. split.
    - intros [u [Hu [->|Hx]]]; [left; eauto|]. right. apply filter_In in Hx. tauto.
    - intros [[u [Hu ->]]|Hx]; [exists u; auto|].
      destruct (valid_covered _ _ Hlay (Hvalid _ Hx)) as [u [Hu Hx']].
      exists u. split; auto. right. apply filter_In. auto. }
  assert (HkA : forall x, In x (map fst mA) <-> is_root units x \/ f_valid units x).
  { intros x. unfold mA, ids_all. rewrite section_ids_keys.
    rewrite <- ids_all_in. clear. induction units as [|u us IH]; cbn [reserve_all map flat_map]; [tauto|].
    cbn [In]. rewrite !in_app_iff, IH. cbn [In]. tauto. }
  assert (HndF : NoDup (map snd mF)) by apply section_ids_nodup.
  assert (HndA : NoDup (map snd mA)) by apply section_ids_nodup.
  assert (Hknown : forall m y, NoDup (map snd m) -> In y (map fst m) ->
                               exists id, im_get y m = Some id /\ im_src id m = Some y).
  { intros m y Hnd Hy. destruct (im_get y m) as [id|] eqn:E.
    - exists id. split; auto. apply im_src_in; auto. now apply im_get_in.
    - apply im_get_none in E. contradiction. }
  exists S, mF. split; [exact HS|]. split; [exact HmF|].
  intros au e Hau He HeS a s y Ha Hs Hy.
  destruct (aentry_occurs aunits au e Hau He) as [par Hocc]. fold units in Hocc.
  assert (Hsite : In s (e_sites (entry_of e))).
  { unfold entry_of, fu_filter_attributes. cbn [e_sites]. apply in_flat_map. exists a. auto. }
  assert (Hyf : In y (filter_refs (unit_of au) s)) by (apply (filter_refs_complete (unit_of au) s); exact Hy).
  fold mA. destruct (im_get y mA) as [idA|] eqn:EA.
  - assert (HyA : In y (map fst mA)).
    { apply im_get_in in EA. apply in_map_iff. exists (y, idA). auto. }
    assert (HyF : In y (map fst mF)).
    { apply HkF. apply HkA in HyA. destruct HyA as [Hr|Hv]; [now left|right].
      destruct Hclosed as [_ [_ [Hrefs _]]].
      apply (Hrefs (unit_of au) (entry_of e) par s y Hocc Hsite Hyf Hv). exact HeS. }
    destruct (Hknown mF y HndF HyF) as [idF [H1 H2]].
    destruct (Hknown mA y HndA HyA) as [idA' [H3 H4]].
    right. exists idF, idA'. auto.
  - left. split; [|exact EA]. apply im_get_none. apply im_get_none in EA.
    intros HyF. apply EA. apply HkA. apply HkF in HyF. destruct HyF as [Hr|Hs']; [now left|right; auto].
Qed.

Lemma aflatten_entries : forall l d, map ar_ent (aflatten_list d l) = aforest_entries l.
Proof.
  apply (aforest_ind2
           (fun t => forall d, map ar_ent (aflatten_tree d t) = atree_entries t)
           (fun l => forall d, map ar_ent (aflatten_list d l) = aforest_entries l)).
  - intros e ks IH d. rewrite aflatten_tree_eq. cbn [map ar_ent]. rewrite IH.
    replace (atree_entries (ANode e ks)) with (e :: aforest_entries ks) by reflexivity. reflexivity.
  - reflexivity.
  - intros t l Ht Hl d. cbn [aflatten_list aforest_entries]. now rewrite map_app, Ht, Hl.
Qed.

(* what a DIE emitted by the tolerant conversion carries *)
Definition tol_die (u : unitd) (m : idmap) (e : aentry) (c : cdie) : Prop :=
  cd_off c = sec u (ae_off e) /\
  cd_attrs c = cv_attributes_tol u m (snd (cu_filter_attributes (ae_attrs e))).

Lemma cua_entries_tol_dies : forall u m rs st st', cua_entries true u m st rs = Ok st' ->
  forall c, In c (snd st') -> In c (snd st) \/ exists r, In r rs /\ tol_die u m (ar_ent r) c.
Proof.
  intros u m rs. induction rs as [|r rs IH]; intros [ps out] st' H c Hc; cbn [cua_entries] in H.
  - inversion H; subst. now left.
  - destruct (cua_entry true u m (ps, out) r) as [[ps1 out1]| | |] eqn:E; cbn [bind] in H; try discriminate.
    destruct (IH _ _ H c Hc) as [Hin|[r' [Hr' Hd]]].
    + cbn [snd] in Hin. unfold cua_entry in E.
      destruct (im_get (sec u (ae_off (ar_ent r))) m) as [id|].
      * unfold cu_filter_attributes in E. cbn [bind] in E. inversion E; subst.
        apply in_app_iff in Hin. destruct Hin as [Hin|[<-|[]]]; [now left|].
        right. exists r. split; [now left|]. split; reflexivity.
      * inversion E; subst. now left.
    + right. exists r'. split; [now right|exact Hd].
Qed.

Lemma convert_units_attrs_tol_dies : forall m aunits out out', convert_units_attrs true m aunits out = Ok out' ->
  forall c, In c out' -> In c out \/ exists au e, In au aunits /\ In e (aunit_entries au) /\ tol_die (unit_of au) m e c.
Proof.
  intros m aunits. induction aunits as [|au us IH]; intros out out' H c Hc; cbn [convert_units_attrs] in H.
  - inversion H; subst. now left.
  - match type of H with context [cua_entries true ?u m ?st ?rs] =>
      destruct (cua_entries true u m st rs) as [st1| | |] eqn:E end; cbn [bind] in H; try discriminate.
    destruct (IH _ _ H c Hc) as [Hin|[au' [e [Hau' [He Hd]]]]].
    + destruct (cua_entries_tol_dies _ _ _ _ _ E c Hin) as [Hin'|[r [Hr Hd]]]; [now left|].
      right. exists au, (ar_ent r). split; [now left|]. split; [|exact Hd].
      unfold aunit_entries. rewrite <- (aflatten_entries (au_kids au) 1). now apply in_map.
    + right. exists au', e. split; [now right|auto].
Qed.

Lemma same_attributes_tolerant_full : forall (dbg : bool) (req : N -> bool) (aunits : list aunit),
  wf_offsets (map unit_of aunits) -> wf_layout (map unit_of aunits) ->
  exists S mF out,
    reserved filter_refs dbg req (map unit_of aunits) = Ok S /\
    convert_filtered_attrs true dbg req aunits = Ok (mF, out) /\
    convert_filtered_tol filter_refs dbg req (map unit_of aunits) = Ok (map cd_pair out) /\
    (forall x, In x (map cd_off out) <-> In x S) /\
    forall c, In c out -> exists au e,
      In au aunits /\ In e (aunit_entries au) /\ cd_off c = sec (unit_of au) (ae_off e) /\
      map (decode_attr mF) (cd_attrs c) =
      map (decode_attr (ids_all (map unit_of aunits)))
          (cv_attributes_tol (unit_of au) (ids_all (map unit_of aunits)) (snd (cu_filter_attributes (ae_attrs e)))).
Proof.
  intros dbg req aunits Hwf Hlay.
  destruct (attrs_tolerant_full dbg req aunits Hwf Hlay) as [S [m [out [HS [Hc [Ht Hin]]]]]].
  destruct (reserved_agree_full dbg req aunits Hwf Hlay) as [S' [m' [HS' [Hm' Hagree]]]].
  rewrite HS in HS'. inversion HS'; subst S'.
  destruct (attrs_structure_full _ _ _ _ _ _ Hc) as [Hm _]. rewrite Hm in Hm'. inversion Hm'; subst m'.
  exists S, m, out. repeat split; auto; try (apply Hin).
  intros c Hcin. unfold convert_filtered_attrs in Hc. rewrite Hm in Hc. cbn [bind] in Hc.
  destruct (convert_units_attrs true m aunits []) as [out0| | |] eqn:Eo; cbn [bind] in Hc; try discriminate.
  inversion Hc; subst out0.
  destruct (convert_units_attrs_tol_dies _ _ _ _ Eo c Hcin) as [[]|[au [e [Hau [He [Hoff Hattrs]]]]]].
  exists au, e. split; [exact Hau|]. split; [exact He|]. split; [exact Hoff|].
  rewrite Hattrs. unfold cu_filter_attributes. cbn [snd]. apply decode_attributes_tol_eq.
  intros a s y Ha _ Hs Hy. apply (Hagree au e Hau He) with (a := a) (s := s); auto.
  rewrite <- Hoff. apply Hin. now apply in_map.
Qed.
