(* Proofs/OpValProofs.v — lemmas about Model/OpVal.v (value.rs arithmetic) against Spec/StackSpec.v. *)
From Coq Require Import List NArith ZArith Bool Lia ZifyBool ZifyN ZifyNat.
From Coq.Strings Require Import Byte.
Require Import GV.Base.Res GV.Base.Byt GV.Base.Ints GV.Model.Leb GV.Model.Prim
  GV.Model.OpDec GV.Model.OpVal GV.Spec.StackSpec.
Import ListNotations.
Local Open Scope N_scope.

(* ---------------------------------------------------------------- the mask-based helpers are the Base ones *)
Lemma w64_eq x : w64 x = wrap64 x.
Proof. unfold w64, wrap64. change 18446744073709551615 with (N.ones 64). now rewrite N.land_ones. Qed.
Lemma wN_eq bits x : wN bits x = wrapN bits x.
Proof. unfold wN, wrapN. now rewrite N.land_ones. Qed.

Lemma testbit_top (k m : N) : m < 2 ^ (k + 1) -> N.testbit m k = (2 ^ k <=? m).
Proof.
  intros H. assert (P : 0 < 2 ^ k) by (apply N.neq_0_lt_0, N.pow_nonzero; lia).
  rewrite N.pow_add_r in H. change (2 ^ 1) with 2 in H.
  destruct (N.testbit m k) eqn:T.
  - symmetry. apply N.leb_le. destruct (N.lt_ge_cases m (2 ^ k)) as [L|L]; [|exact L].
    rewrite (N.testbit_eqb m k), (N.div_small m (2 ^ k) L) in T. discriminate.
  - symmetry. apply N.leb_gt. destruct (N.lt_ge_cases m (2 ^ k)) as [L|L]; [exact L|].
    rewrite N.testbit_eqb in T.
    assert (Q : m / 2 ^ k = 1).
    { apply N.le_antisymm.
      - apply N.lt_succ_r. apply N.div_lt_upper_bound; lia.
      - apply N.div_le_lower_bound; lia. }
    rewrite Q in T. discriminate.
Qed.

Lemma sgn_eq bits x : 1 <= bits -> sgn bits x = to_signed bits x.
Proof.
  intros B. unfold sgn, to_signed. rewrite wN_eq. set (m := wrapN bits x).
  assert (M : m < 2 ^ bits) by (apply N.mod_lt, N.pow_nonzero; lia).
  replace bits with (bits - 1 + 1) in M at 1 by lia.
  rewrite (testbit_top (bits - 1) m M), N.shiftl_1_l.
  destruct (2 ^ (bits - 1) <=? m) eqn:E1; destruct (m <? 2 ^ (bits - 1)) eqn:E2; try reflexivity; lia.
Qed.

Lemma usg_eq bits z : usg bits z = of_signed bits z.
Proof.
  unfold usg, of_signed. rewrite Z.land_ones by lia. now rewrite N2Z.inj_pow.
Qed.

(* ---------------------------------------------------------------- sign_extend is two's complement *)
Lemma pow2_pos k : 0 < 2 ^ k.
Proof. apply N.neq_0_lt_0, N.pow_nonzero; lia. Qed.
Lemma pow2_double k : 2 ^ (k + 1) = 2 * 2 ^ k.
Proof. rewrite N.pow_add_r. change (2 ^ 1) with 2. lia. Qed.

Lemma land_below_pow2 x k : x < 2 ^ k -> N.land x (2 ^ k) = 0.
Proof.
  intros H. apply N.bits_inj. intros i. rewrite N.land_spec, N.pow2_bits_eqb, N.bits_0.
  destruct (k =? i) eqn:E; [|apply andb_false_r].
  apply N.eqb_eq in E; subst i. rewrite andb_true_r.
  rewrite testbit_top by (rewrite pow2_double; lia). apply N.leb_gt. exact H.
Qed.

Lemma lxor_pow2 x k : x < 2 ^ (k + 1) ->
  N.lxor x (2 ^ k) = if x <? 2 ^ k then x + 2 ^ k else x - 2 ^ k.
Proof.
  intros H. rewrite pow2_double in H. destruct (x <? 2 ^ k) eqn:E.
  - apply N.ltb_lt in E. symmetry. apply N.add_nocarry_lxor. now apply land_below_pow2.
  - apply N.ltb_ge in E. set (y := x - 2 ^ k). assert (Y : y < 2 ^ k) by (unfold y; lia).
    replace x with (y + 2 ^ k) at 1 by (unfold y; lia).
    rewrite (N.add_nocarry_lxor y (2 ^ k)) by now apply land_below_pow2.
    now rewrite N.lxor_assoc, N.lxor_nilpotent, N.lxor_0_r.
Qed.

Lemma ones_pred k : N.ones k = 2 ^ k - 1.
Proof. rewrite N.ones_equiv. lia. Qed.

Lemma sign_extend_eq (k v : N) : 1 <= k <= 64 -> sign_extend v (2 ^ k - 1) = to_signed k v.
Proof.
  intros K. unfold sign_extend. rewrite <- ones_pred, N.land_ones.
  assert (S1 : N.shiftr (N.ones k) 1 + 1 = 2 ^ (k - 1)).
  { rewrite N.shiftr_div_pow2, ones_pred. change (2 ^ 1) with 2.
    replace k with (k - 1 + 1) at 1 by lia. rewrite pow2_double.
    pose proof (pow2_pos (k - 1)).
    replace (2 * 2 ^ (k - 1) - 1) with (1 + (2 ^ (k - 1) - 1) * 2) by lia.
    rewrite N.div_add by lia. change (1 / 2) with 0. lia. }
  rewrite S1.
  assert (P63 : 2 ^ (k - 1) <= 2 ^ 63) by (apply N.pow_le_mono_r; lia).
  assert (P64 : 2 ^ k <= 2 ^ 64) by (apply N.pow_le_mono_r; lia).
  assert (Pk : 2 ^ k = 2 * 2 ^ (k - 1)) by (replace k with (k - 1 + 1) at 1 by lia; apply pow2_double).
  change (2 ^ 63) with 9223372036854775808 in P63. change (2 ^ 64) with 18446744073709551616 in P64.
  rewrite !w64_eq. rewrite (wrap64_small (2 ^ (k - 1))) by (unfold two64; lia).
  set (x := v mod 2 ^ k). assert (X : x < 2 ^ k) by (apply N.mod_lt, N.pow_nonzero; lia).
  rewrite lxor_pow2 by (replace (k - 1 + 1) with k by lia; exact X).
  rewrite sgn_eq by lia. unfold to_signed, wrapN, wrap64, two64. fold x.
  change (2 ^ (64 - 1)) with 9223372036854775808. change (2 ^ 64) with 18446744073709551616.
  destruct (x <? 2 ^ (k - 1)) eqn:E.
  - replace (x + 2 ^ (k - 1) + 18446744073709551616 - 2 ^ (k - 1)) with (x + 1 * 18446744073709551616) by lia.
    rewrite N.mod_add by lia. rewrite (N.mod_small x) by lia. rewrite (N.mod_small x) by lia.
    destruct (x <? 9223372036854775808) eqn:E2; [reflexivity|lia].
  - rewrite (N.mod_small (x - 2 ^ (k - 1) + 18446744073709551616 - 2 ^ (k - 1))) by lia.
    rewrite (N.mod_small (x - 2 ^ (k - 1) + 18446744073709551616 - 2 ^ (k - 1))) by lia.
    destruct (_ <? 9223372036854775808) eqn:E2; lia.
Qed.

Lemma mask_bit_size_eq k : mask_bit_size (2 ^ k - 1) = k.
Proof.
  unfold mask_bit_size. destruct (N.eq_dec k 0) as [->|NZ]; [reflexivity|].
  assert (T : 2 <= 2 ^ k).
  { replace k with (k - 1 + 1) by lia. rewrite pow2_double. pose proof (pow2_pos (k - 1)). lia. }
  rewrite N.size_log2 by lia.
  rewrite N.sub_1_r, N.log2_pred_pow2 by lia. lia.
Qed.

(* ---------------------------------------------------------------- value_ops: model = spec on canonical values *)
Ltac Zify.zify_post_hook ::= Z.to_euclidean_division_equations.

Definition cres sz (r : res value) : res value := match r with Ok v => Ok (canon sz v) | x => x end.
Definition amask (sz : N) : N := 2 ^ (8 * sz) - 1.
Definition addr_size (sz : N) : Prop := sz = 1 \/ sz = 2 \/ sz = 4 \/ sz = 8.

Ltac norm8 := change (8 * 1) with 8 in *; change (8 * 2) with 16 in *; change (8 * 4) with 32 in *; change (8 * 8) with 64 in *.
Ltac sizes SZ :=
  match goal with
  | |- context [8 * _] =>
      destruct SZ as [-> | [-> | [-> | ->]]];
      change (8 * 1) with 8 in *; change (8 * 2) with 16 in *; change (8 * 4) with 32 in *; change (8 * 8) with 64 in *
  | _ => idtac
  end.
Ltac zero_checks := repeat match goal with
  | |- context [(?z =? 0)%Z] => destruct (z =? 0)%Z eqn:?
  | |- context [(?z =? 0)] => destruct (z =? 0) eqn:?
  end.
Ltac split_ifs := repeat match goal with |- context [if ?c then _ else _] => destruct c eqn:? end.
Ltac contra := exfalso; unfold modulus, to_signed, wrapN in *; cbn [tbits width] in *;
  repeat match goal with H : context [if ?c then _ else _] |- _ => destruct c eqn:? end; lia.
Ltac unf := unfold canon, modulus, to_signed, of_signed, wrapN, wrap64, two64; cbn [vty vbits tbits width].
Ltac fin := unf; norm8; split_ifs; try reflexivity; try (f_equal; f_equal; lia); try (exfalso; lia).
Ltac vnorm := rewrite ?w64_eq, ?wN_eq, ?usg_eq, ?sgn_eq by lia; rewrite <- ?ones_pred, ?N.land_ones.
Ltac vprep2 SZ a b :=
  destruct a as [ta va], b as [tb vb]; unfold wf_value in *; cbn [vty vbits] in *;
  unfold cres, of_int, as_int, is_float, same_type, amask; cbn [vty vbits canon];
  destruct ta, tb; unfold modulus in *; cbn [vtype_eqb negb andb tclass_of width tbits is64 vty vbits canon bind] in *; try reflexivity;
  vnorm; sizes SZ.
Ltac vprep1 SZ a :=
  destruct a as [ta va]; unfold wf_value in *; cbn [vty vbits] in *;
  unfold cres, of_int, as_int, is_float, same_type, amask; cbn [vty vbits canon];
  destruct ta; unfold modulus in *; cbn [vtype_eqb negb andb tclass_of width tbits is64 vty vbits canon bind] in *; try reflexivity;
  vnorm; sizes SZ.

Section Ops.
Variable F : fops.
Lemma vadd_spec sz a b : addr_size sz -> wf_value a = true -> wf_value b = true ->
  cres sz (vadd F a b (amask sz)) = sp_add sz F (canon sz a) (canon sz b).
Proof. intros SZ WA WB. unfold vadd, sp_add, arith, sp_arith. vprep2 SZ a b. all: fin. Qed.

Lemma vsub_spec sz a b : addr_size sz -> wf_value a = true -> wf_value b = true ->
  cres sz (vsub F a b (amask sz)) = sp_sub sz F (canon sz a) (canon sz b).
Proof. intros SZ WA WB. unfold vsub, sp_sub, arith, sp_arith. vprep2 SZ a b. all: fin. Qed.

Lemma vmul_spec sz a b : addr_size sz -> wf_value a = true -> wf_value b = true ->
  cres sz (vmul F a b (amask sz)) = sp_mul sz F (canon sz a) (canon sz b).
Proof. intros SZ WA WB. unfold vmul, sp_mul, arith, sp_arith. vprep2 SZ a b. all: fin. Qed.
Lemma to_signed_mod k v : to_signed k (v mod 2 ^ k) = to_signed k v.
Proof. unfold to_signed, wrapN. now rewrite N.mod_mod by (apply N.pow_nonzero; lia). Qed.

Lemma amask_se sz v : addr_size sz -> sign_extend v (amask sz) = to_signed (8 * sz) v.
Proof. intros SZ. apply sign_extend_eq. destruct SZ as [-> | [-> | [-> | ->]]]; lia. Qed.

Lemma vdiv_spec sz a b : addr_size sz -> wf_value a = true -> wf_value b = true ->
  cres sz (vdiv F a b (amask sz)) = sp_div sz F (canon sz a) (canon sz b).
Proof.
  intros SZ WA WB. unfold vdiv, sp_div, div_zero_check. rewrite !(amask_se sz _ SZ).
  destruct a as [ta va], b as [tb vb]; unfold wf_value in *; cbn [vty vbits] in *;
  unfold cres, of_int, as_int, is_float, same_type; cbn [vty vbits canon].
  destruct tb; unfold modulus in *; cbn [vtype_eqb negb andb tclass_of width tbits is64 vty vbits canon bind] in *;
    rewrite ?to_signed_mod, ?sgn_eq by lia.
  all: zero_checks; cbn [negb andb]; try reflexivity.
  all: try contra.
  all: destruct ta; cbn [vtype_eqb negb andb tclass_of width tbits is64 vty vbits canon bind] in *; try reflexivity.
  all: vnorm; rewrite ?to_signed_mod, <- ?N2Z.inj_quot.
  all: try match goal with |- context [Z.quot ?x ?y] => generalize (Z.quot x y); intros q end.
  all: try match goal with |- context [?x / ?y] =>
         assert (x / y <= x) by (apply N.div_le_upper_bound; [lia|nia]); generalize dependent (x / y); intros d ? end.
  all: sizes SZ.
  all: fin.
Qed.
Lemma vrem_spec sz a b : addr_size sz -> wf_value a = true -> wf_value b = true ->
  cres sz (vrem a b (amask sz)) = sp_rem sz (canon sz a) (canon sz b).
Proof.
  intros SZ WA WB. unfold vrem, sp_rem, rem_zero_check.
  destruct a as [ta va], b as [tb vb]; unfold wf_value in *; cbn [vty vbits] in *;
  unfold cres, of_int, as_int, is_float, same_type, amask; cbn [vty vbits canon].
  destruct tb; unfold modulus in *; cbn [vtype_eqb negb andb tclass_of width tbits is64 vty vbits canon bind] in *;
    rewrite ?sgn_eq by lia; rewrite <- ?ones_pred, ?N.land_ones.
  all: unfold modulus in *; cbn [tbits width] in *; sizes SZ.
  all: zero_checks; cbn [negb andb]; try reflexivity.
  all: try contra.
  all: destruct ta; cbn [vtype_eqb negb andb tclass_of width tbits is64 vty vbits canon bind] in *; try reflexivity.
  all: vnorm; rewrite <- ?N2Z.inj_rem; unfold canon, modulus; cbn [vty vbits tbits width]; norm8.
  all: try match goal with |- context [Z.rem ?x ?y] => generalize (Z.rem x y); intros q end.
  all: try match goal with |- context [?x mod ?y] =>
         lazymatch y with 2 ^ _ => fail | _ =>
         assert (x mod y < y) by (apply N.mod_lt; lia); generalize dependent (x mod y); intros d ? end end.
  all: sizes SZ.
  all: fin.
Qed.

Lemma vneg_spec sz a : addr_size sz -> wf_value a = true ->
  cres sz (vneg a (amask sz)) = sp_neg sz (canon sz a).
Proof.
  intros SZ WA. unfold vneg, sp_neg. rewrite !(amask_se sz _ SZ). vprep1 SZ a; rewrite ?to_signed_mod. all: fin.
Qed.

Lemma vabs_spec sz a : addr_size sz -> wf_value a = true ->
  cres sz (vabs a (amask sz)) = sp_abs sz (canon sz a).
Proof.
  intros SZ WA. unfold vabs, sp_abs. rewrite !(amask_se sz _ SZ). vprep1 SZ a; rewrite ?to_signed_mod. all: fin.
Qed.
Lemma mod_bitwise (op : N -> N -> N) (f : bool -> bool -> bool) (w A B : N) :
  (forall a b i, N.testbit (op a b) i = f (N.testbit a i) (N.testbit b i)) -> f false false = false ->
  op A B mod 2 ^ w = op (A mod 2 ^ w) (B mod 2 ^ w).
Proof.
  intros Hop Hf. apply N.bits_inj. intros i. rewrite Hop.
  destruct (N.lt_ge_cases i w) as [L|L].
  - now rewrite !N.mod_pow2_bits_low, Hop by exact L.
  - now rewrite !N.mod_pow2_bits_high by exact L.
Qed.
Lemma mod_land w A B : N.land A B mod 2 ^ w = N.land (A mod 2 ^ w) (B mod 2 ^ w).
Proof. apply (mod_bitwise N.land andb); [apply N.land_spec|reflexivity]. Qed.
Lemma mod_lor w A B : N.lor A B mod 2 ^ w = N.lor (A mod 2 ^ w) (B mod 2 ^ w).
Proof. apply (mod_bitwise N.lor orb); [apply N.lor_spec|reflexivity]. Qed.
Lemma mod_lxor w A B : N.lxor A B mod 2 ^ w = N.lxor (A mod 2 ^ w) (B mod 2 ^ w).
Proof. apply (mod_bitwise N.lxor xorb); [apply N.lxor_spec|reflexivity]. Qed.

(* `x as u64` of a signed w-bit pattern, reduced to w bits again, is the pattern *)
Lemma sext_mod w v : (w = 8 \/ w = 16 \/ w = 32 \/ w = 64) -> v < 2 ^ w ->
  of_signed 64 (to_signed w v) mod 2 ^ w = v.
Proof.
  intros [-> | [-> | [-> | ->]]] V; unfold of_signed, to_signed, wrapN; split_ifs; lia.
Qed.

Lemma bitop_spec (op : N -> N -> N) sz a b : addr_size sz -> wf_value a = true -> wf_value b = true ->
  (forall w A B, op A B mod 2 ^ w = op (A mod 2 ^ w) (B mod 2 ^ w)) ->
  cres sz (bitop F op a b (amask sz)) = sp_bitop op (canon sz a) (canon sz b).
Proof.
  intros SZ WA WB Hop. unfold bitop, sp_bitop, to_u64, from_u64, widen.
  destruct a as [ta va], b as [tb vb]; unfold wf_value in *; cbn [vty vbits] in *;
  unfold cres, is_float, same_type, amask; cbn [vty vbits canon].
  destruct ta, tb; unfold modulus in *; cbn [vtype_eqb negb andb tclass_of width tbits is64 vty vbits canon bind] in *; try reflexivity.
  all: vnorm; unfold wrapN, wrap64, two64, modulus; cbn [tbits width]; change 18446744073709551616 with (2 ^ 64); rewrite ?Hop, ?N.mod_mod by (apply N.pow_nonzero; lia).
  all: rewrite ?sext_mod by (try lia; apply N.ltb_lt; assumption).
  all: rewrite ?N.mod_small by (apply N.ltb_lt; assumption).
  all: reflexivity.
Qed.

Lemma vand_spec sz a b : addr_size sz -> wf_value a = true -> wf_value b = true ->
  cres sz (vand F a b (amask sz)) = sp_and (canon sz a) (canon sz b).
Proof. intros. apply bitop_spec; auto. intros; apply mod_land. Qed.
Lemma vor_spec sz a b : addr_size sz -> wf_value a = true -> wf_value b = true ->
  cres sz (vor F a b (amask sz)) = sp_or (canon sz a) (canon sz b).
Proof. intros. apply bitop_spec; auto. intros; apply mod_lor. Qed.
Lemma vxor_spec sz a b : addr_size sz -> wf_value a = true -> wf_value b = true ->
  cres sz (vxor F a b (amask sz)) = sp_xor (canon sz a) (canon sz b).
Proof. intros. apply bitop_spec; auto. intros; apply mod_lxor. Qed.

Lemma vnot_spec sz a : addr_size sz -> wf_value a = true ->
  cres sz (vnot F a (amask sz)) = sp_not sz (canon sz a).
Proof.
  intros SZ WA. unfold vnot, sp_not, to_u64, from_u64, widen. vprep1 SZ a. all: rewrite ?ones_pred; fin.
Qed.
Lemma compare_spec zc fc sz a b : addr_size sz -> wf_value a = true -> wf_value b = true ->
  cres sz (compare_op zc fc a b (amask sz)) = sp_compare sz zc fc (canon sz a) (canon sz b).
Proof.
  intros SZ WA WB. unfold compare_op, sp_compare, bool_value. rewrite !(amask_se sz _ SZ).
  vprep2 SZ a b; rewrite ?to_signed_mod.
  all: unfold canon, modulus; cbn [vty vbits tbits width]; norm8; sizes SZ.
  all: match goal with |- context [if ?c then 1 else 0] => destruct c end; reflexivity.
Qed.
Lemma veq_spec sz a b : addr_size sz -> wf_value a = true -> wf_value b = true ->
  cres sz (veq a b (amask sz)) = sp_eq sz (canon sz a) (canon sz b).
Proof. apply compare_spec. Qed.
Lemma vge_spec sz a b : addr_size sz -> wf_value a = true -> wf_value b = true ->
  cres sz (vge a b (amask sz)) = sp_ge sz (canon sz a) (canon sz b).
Proof. apply compare_spec. Qed.
Lemma vgt_spec sz a b : addr_size sz -> wf_value a = true -> wf_value b = true ->
  cres sz (vgt a b (amask sz)) = sp_gt sz (canon sz a) (canon sz b).
Proof. apply compare_spec. Qed.
Lemma vle_spec sz a b : addr_size sz -> wf_value a = true -> wf_value b = true ->
  cres sz (vle a b (amask sz)) = sp_le sz (canon sz a) (canon sz b).
Proof. apply compare_spec. Qed.
Lemma vlt_spec sz a b : addr_size sz -> wf_value a = true -> wf_value b = true ->
  cres sz (vlt a b (amask sz)) = sp_lt sz (canon sz a) (canon sz b).
Proof. apply compare_spec. Qed.
Lemma vne_spec sz a b : addr_size sz -> wf_value a = true -> wf_value b = true ->
  cres sz (vne a b (amask sz)) = sp_ne sz (canon sz a) (canon sz b).
Proof. apply compare_spec. Qed.

Lemma reinterpret_spec sz a t : addr_size sz -> wf_value a = true ->
  cres sz (reinterpret a t (amask sz)) = sp_reinterpret sz (canon sz a) t.
Proof.
  intros SZ WA. unfold reinterpret, sp_reinterpret, bit_size, widen, amask. rewrite mask_bit_size_eq.
  destruct a as [ta va]; unfold wf_value in *; cbn [vty vbits] in *. unfold cres.
  destruct ta, t; cbn [vty vbits canon tclass_of width tbits] in *; sizes SZ; cbn [N.eqb Pos.eqb negb]; try reflexivity.
  all: vnorm; fin.
Qed.
Lemma convert_spec sz a t : addr_size sz -> wf_value a = true ->
  cres sz (convert F a t (amask sz)) = sp_convert sz F (canon sz a) t.
Proof.
  intros SZ WA. unfold convert, sp_convert, from_float, to_u64, from_u64, widen.
  destruct a as [ta va]; unfold wf_value in *; cbn [vty vbits] in *.
  unfold cres, of_int, as_int, amask.
  destruct ta, t; unfold modulus in *;
    cbn [vtype_eqb negb andb tclass_of width tbits is64 vty vbits canon bind Bool.eqb] in *; try reflexivity.
  all: vnorm; sizes SZ.
  all: unf; norm8; split_ifs; try reflexivity; try (f_equal; f_equal; lia); try (f_equal; f_equal; f_equal; lia).
Qed.
Lemma shift_length_spec sz b : addr_size sz -> wf_value b = true ->
  match shift_length b (amask sz) with
  | Ok v2 => sp_count sz (canon sz b) = Ok (Z.of_N v2)
  | Err e => sp_count sz (canon sz b) = Err e
  | _ => False
  end.
Proof.
  intros SZ WB. unfold shift_length, sp_count, amask in *.
  destruct b as [tb vb]; unfold wf_value, is_float, as_int in *; cbn [vty vbits] in *.
  destruct tb; unfold modulus in *; cbn [tclass_of width tbits vty vbits canon] in *; vnorm; try reflexivity.
  1: { unfold modulus; cbn [tbits]. sizes SZ; unf; norm8; split_ifs; try reflexivity; lia. }
  all: unfold to_signed, wrapN; split_ifs; try reflexivity; try (f_equal; lia); try lia.
Qed.

Lemma Zshl_N x c m : m <> 0 -> Z.to_N ((Z.of_N x * 2 ^ Z.of_N c) mod Z.of_N m) = (x * 2 ^ c) mod m.
Proof.
  intros M. change 2%Z with (Z.of_N 2). rewrite <- N2Z.inj_pow, <- N2Z.inj_mul, <- N2Z.inj_mod by exact M.
  apply N2Z.id.
Qed.
Lemma Zshr_N x c m : m <> 0 -> Z.to_N ((Z.of_N x / 2 ^ Z.of_N c) mod Z.of_N m) = (x / 2 ^ c) mod m.
Proof.
  intros M. change 2%Z with (Z.of_N 2). rewrite <- N2Z.inj_pow, <- N2Z.inj_div, <- N2Z.inj_mod by exact M.
  apply N2Z.id.
Qed.

Lemma vshl_spec sz a b : addr_size sz -> wf_value a = true -> wf_value b = true ->
  cres sz (vshl a b (amask sz)) = sp_shl sz (canon sz a) (canon sz b).
Proof.
  intros SZ WA WB. unfold vshl, sp_shl. pose proof (shift_length_spec sz b SZ WB) as HS.
  destruct (shift_length b (amask sz)) as [v2|e| |]; try contradiction; rewrite HS; cbn [bind]; [|reflexivity].
  unfold amask. rewrite mask_bit_size_eq.
  destruct a as [ta va]; unfold wf_value in *; cbn [vty vbits] in *.
  unfold cres, of_int, is_float.
  destruct ta; unfold modulus; cbn [tclass_of width tbits vty vbits canon] in *; try reflexivity; vnorm.
  all: rewrite N.shiftl_mul_pow2.
  all: match goal with |- context [(Z.of_N ?w <=? Z.of_N ?c)%Z] =>
         replace (Z.of_N w <=? Z.of_N c)%Z with (w <=? c) by lia; destruct (w <=? c) eqn:EW end.
  all: rewrite ?Zshl_N by (apply N.pow_nonzero; lia).
  all: unfold canon, modulus; cbn [vty vbits tbits width]; sizes SZ; norm8.
  all: try match goal with |- context [?x * 2 ^ ?c] => generalize (x * 2 ^ c); intros y end.
  all: fin.
Qed.
Lemma vshr_spec sz a b : addr_size sz -> wf_value a = true -> wf_value b = true ->
  cres sz (vshr a b (amask sz)) = sp_shr sz (canon sz a) (canon sz b).
Proof.
  intros SZ WA WB. unfold vshr, sp_shr. pose proof (shift_length_spec sz b SZ WB) as HS.
  destruct (shift_length b (amask sz)) as [v2|e| |]; try contradiction; rewrite HS; cbn [bind]; [|reflexivity].
  unfold amask. rewrite mask_bit_size_eq.
  destruct a as [ta va]; unfold wf_value in *; cbn [vty vbits] in *.
  unfold cres, of_int, as_int.
  destruct ta; unfold modulus; cbn [tclass_of width tbits vty vbits canon] in *; try reflexivity; vnorm.
  all: rewrite N.shiftr_div_pow2.
  all: match goal with |- context [(Z.of_N ?w <=? Z.of_N ?c)%Z] =>
         replace (Z.of_N w <=? Z.of_N c)%Z with (w <=? c) by lia; destruct (w <=? c) eqn:EW end.
  all: rewrite ?Zshr_N by (apply N.pow_nonzero; lia).
  all: unfold canon, modulus; cbn [vty vbits tbits width]; sizes SZ; norm8.
  all: try match goal with |- context [?x / 2 ^ ?c] =>
         assert (x / 2 ^ c <= x) by (apply N.div_le_upper_bound; [apply N.pow_nonzero; lia|
            pose proof (pow2_pos c); nia]); generalize dependent (x / 2 ^ c); intros y ? end.
  all: fin.
Qed.

Lemma vshra_spec sz a b : addr_size sz -> wf_value a = true -> wf_value b = true ->
  cres sz (vshra a b (amask sz)) = sp_shra sz (canon sz a) (canon sz b).
Proof.
  intros SZ WA WB. unfold vshra, sp_shra. pose proof (shift_length_spec sz b SZ WB) as HS.
  destruct (shift_length b (amask sz)) as [v2|e| |]; try contradiction; rewrite HS; cbn [bind]; [|reflexivity].
  rewrite !(amask_se sz _ SZ). unfold amask. rewrite mask_bit_size_eq.
  destruct a as [ta va]; unfold wf_value in *; cbn [vty vbits] in *.
  unfold cres, of_int, as_int.
  destruct ta; unfold modulus; cbn [tclass_of width tbits vty vbits canon] in *; try reflexivity; vnorm; rewrite ?to_signed_mod.
  all: rewrite Z.shiftr_div_pow2 by lia.
  all: match goal with |- context [(Z.of_N ?w <=? Z.of_N ?c)%Z] =>
         replace (Z.of_N w <=? Z.of_N c)%Z with (w <=? c) by lia; destruct (w <=? c) eqn:EW end.
  all: unfold canon, modulus; cbn [vty vbits tbits width]; sizes SZ; norm8.
  all: try match goal with |- context [(?x / 2 ^ ?c)%Z] => generalize (x / 2 ^ c)%Z; intros q end.
  all: fin.
Qed.
End Ops.

(* ---------------------------------------------------------------- a fops instance for closed examples *)
Definition no_fops : fops := mkFops (fun _ a _ => a) (fun _ a _ => a) (fun _ a _ => a) (fun _ a _ => a)
  (fun _ x => x) (fun _ _ _ x => x) (fun _ x => x).

(* address size 4: the generic count 2^32+1 denotes 1 (before repair 0858756 Value::shl treated it as >= 32) *)
Lemma shift_count_repaired :
  cres 4 (vshl (mkV TGeneric 1) (mkV TGeneric 4294967297) (amask 4)) = Ok (mkV TGeneric 2) /\
  sp_shl 4 (canon 4 (mkV TGeneric 1)) (canon 4 (mkV TGeneric 4294967297)) = Ok (mkV TGeneric 2).
Proof. split; vm_compute; reflexivity. Qed.

(* ---------------------------------------------------------------- packaging for Properties/C07.v *)
Definition agrees1 (sz : N) (m : value -> N -> res value) (s : value -> res value) : Prop :=
  forall a, addr_size sz -> wf_value a = true -> cres sz (m a (amask sz)) = s (canon sz a).
Definition agrees2 (sz : N) (m : value -> value -> N -> res value) (s : value -> value -> res value) : Prop :=
  forall a b, addr_size sz -> wf_value a = true -> wf_value b = true ->
    cres sz (m a b (amask sz)) = s (canon sz a) (canon sz b).

Lemma value_ops_lemma (F : fops) (sz : N) :
  agrees2 sz (vadd F) (sp_add sz F) /\ agrees2 sz (vsub F) (sp_sub sz F) /\ agrees2 sz (vmul F) (sp_mul sz F) /\
  agrees2 sz (vdiv F) (sp_div sz F) /\ agrees2 sz vrem (sp_rem sz) /\
  agrees2 sz (vand F) sp_and /\ agrees2 sz (vor F) sp_or /\ agrees2 sz (vxor F) sp_xor /\
  agrees1 sz (vnot F) (sp_not sz) /\ agrees1 sz vneg (sp_neg sz) /\ agrees1 sz vabs (sp_abs sz) /\
  agrees2 sz veq (sp_eq sz) /\ agrees2 sz vge (sp_ge sz) /\ agrees2 sz vgt (sp_gt sz) /\
  agrees2 sz vle (sp_le sz) /\ agrees2 sz vlt (sp_lt sz) /\ agrees2 sz vne (sp_ne sz) /\
  agrees2 sz vshl (sp_shl sz) /\ agrees2 sz vshr (sp_shr sz) /\ agrees2 sz vshra (sp_shra sz) /\
  (forall a t, addr_size sz -> wf_value a = true -> cres sz (convert F a t (amask sz)) = sp_convert sz F (canon sz a) t) /\
  (forall a t, addr_size sz -> wf_value a = true -> cres sz (reinterpret a t (amask sz)) = sp_reinterpret sz (canon sz a) t).
Proof.
  unfold agrees1, agrees2.
  repeat split; intros.
  - now apply vadd_spec. - now apply vsub_spec. - now apply vmul_spec. - now apply vdiv_spec.
  - now apply vrem_spec. - now apply vand_spec. - now apply vor_spec. - now apply vxor_spec.
  - now apply vnot_spec. - now apply vneg_spec. - now apply vabs_spec.
  - now apply veq_spec. - now apply vge_spec. - now apply vgt_spec. - now apply vle_spec.
  - now apply vlt_spec. - now apply vne_spec.
  - now apply vshl_spec. - now apply vshr_spec. - now apply vshra_spec.
  - now apply convert_spec. - now apply reinterpret_spec.
Qed.

(* "generic values compared modulo the address size" at the level of single operations: operands
   that denote the same canonical values give results that denote the same canonical value *)
Lemma mask_invariance_ops (F : fops) (sz : N) (a a' b b' : value) :
  addr_size sz -> wf_value a = true -> wf_value a' = true -> wf_value b = true -> wf_value b' = true ->
  canon sz a = canon sz a' -> canon sz b = canon sz b' ->
  (forall op, In op [vadd F; vsub F; vmul F; vdiv F; vrem; vand F; vor F; vxor F; veq; vge; vgt; vle; vlt; vne;
                     vshl; vshr; vshra] ->
     cres sz (op a b (amask sz)) = cres sz (op a' b' (amask sz))) /\
  (forall op, In op [vnot F; vneg; vabs] -> cres sz (op a (amask sz)) = cres sz (op a' (amask sz))) /\
  (forall t, cres sz (convert F a t (amask sz)) = cres sz (convert F a' t (amask sz))) /\
  (forall t, cres sz (reinterpret a t (amask sz)) = cres sz (reinterpret a' t (amask sz))).
Proof.
  intros SZ WA WA' WB WB' CA CB.
  destruct (value_ops_lemma F sz) as (H1 & H2 & H3 & H4 & H5 & H6 & H7 & H8 & H9 & H10 & H11 & H12 & H13 & H14 &
    H15 & H16 & H17 & H18 & H19 & H20 & H21 & H22).
  unfold agrees1, agrees2 in *.
  repeat split.
  - intros op [<-|[<-|[<-|[<-|[<-|[<-|[<-|[<-|[<-|[<-|[<-|[<-|[<-|[<-|[<-|[<-|[<-|[]]]]]]]]]]]]]]]]]];
      match goal with H : forall a b, _ -> _ -> _ -> cres sz (?f a b _) = _ |- cres sz (?f _ _ _) = _ =>
        rewrite !H by assumption; now rewrite CA, CB end.
  - intros op [<-|[<-|[<-|[]]]];
      match goal with H : forall a, _ -> _ -> cres sz (?f a _) = _ |- cres sz (?f _ _) = _ =>
        rewrite !H by assumption; now rewrite CA end.
  - intros t. rewrite !H21 by assumption. now rewrite CA.
  - intros t. rewrite !H22 by assumption. now rewrite CA.
Qed.
