(* Proofs/PrimProofs.v — exactness of the fixed-width, sized, initial-length codecs (C09). *)
From Coq Require Import List NArith ZArith Bool Lia ZifyBool ZifyN ZifyNat.
From Coq.Strings Require Import Byte.
Require Import GV.Base.Res GV.Base.Byt GV.Base.Ints GV.Spec.LebSpec GV.Spec.PrimSpec.
Require Import GV.Model.Leb GV.Model.Prim.
Import ListNotations.
Local Open Scope N_scope.
Local Arguments N.add : simpl never.
Local Arguments N.sub : simpl never.
Local Arguments N.mul : simpl never.
Local Arguments N.shiftl : simpl never.
Local Arguments N.shiftr : simpl never.
Local Arguments N.land : simpl never.
Local Arguments N.lor : simpl never.
Local Arguments N.pow : simpl never.
Local Arguments N.modulo : simpl never.
Local Arguments N.div : simpl never.

(* ---- powers of 256 indexed by a length ---- *)

Definition p256 (n : nat) : N := 256 ^ N.of_nat n.

Lemma p256_0 : p256 0 = 1.
Proof. reflexivity. Qed.

Lemma p256_S n : p256 (S n) = 256 * p256 n.
Proof. unfold p256. rewrite Nat2N.inj_succ, N.pow_succ_r'. reflexivity. Qed.

Lemma p256_pos n : 0 < p256 n.
Proof. induction n as [|n IH]; [rewrite p256_0|rewrite p256_S]; lia. Qed.

Lemma p256_pow2 n : p256 n = 2 ^ (8 * N.of_nat n).
Proof. unfold p256. rewrite N.pow_mul_r. reflexivity. Qed.

(* ---- le_val / be_val: bounds and append ---- *)

Lemma le_val_lt bs : le_val bs < p256 (length bs).
Proof.
  induction bs as [|b r IH]; cbn [le_val length]; [rewrite p256_0; lia|].
  rewrite p256_S. pose proof (b2n_lt b). lia.
Qed.

Lemma le_val_app a b : le_val (a ++ b) = le_val a + p256 (length a) * le_val b.
Proof.
  induction a as [|x a IH]; cbn [le_val length app]; [rewrite p256_0; lia|].
  rewrite IH, p256_S. lia.
Qed.

Lemma be_val_cons b r : be_val (b :: r) = b2n b * p256 (length r) + be_val r.
Proof.
  unfold be_val. cbn [rev]. rewrite le_val_app, rev_length. cbn [le_val]. lia.
Qed.

Lemma be_val_lt bs : be_val bs < p256 (length bs).
Proof. unfold be_val. rewrite <- rev_length. apply le_val_lt. Qed.

(* ---- the model's recursive values are the positional sums ---- *)

Lemma nsum_cons x l : nsum (x :: l) = x + nsum l.
Proof. reflexivity. Qed.

Lemma nsum_scale (c : N) (g : nat -> N) l :
  nsum (map (fun i => c * g i) l) = c * nsum (map g l).
Proof.
  induction l as [|x l IH]; cbn [map]; [unfold nsum; cbn [fold_right]; lia|].
  rewrite !nsum_cons, IH. lia.
Qed.

Lemma nsum_ext (f g : nat -> N) l : (forall i, In i l -> f i = g i) -> nsum (map f l) = nsum (map g l).
Proof.
  induction l as [|x l IH]; intros H; cbn [map]; [reflexivity|].
  rewrite !nsum_cons.
  rewrite IH by (intros; apply H; right; assumption). rewrite (H x) by (left; reflexivity). reflexivity.
Qed.

Theorem le_val_is_sum bs : le_val bs = le_sum bs.
Proof.
  induction bs as [|b r IH]; [reflexivity|].
  unfold le_sum. cbn [le_val length seq map]. rewrite nsum_cons.
  rewrite <- seq_shift, map_map.
  rewrite (nsum_ext _ (fun i => 256 * (byte_at r i * 256 ^ N.of_nat i))).
  - rewrite nsum_scale. fold (le_sum r). rewrite <- IH.
    unfold byte_at. cbn [nth]. change (256 ^ N.of_nat 0) with 1. lia.
  - intros i _. unfold byte_at. cbn [nth]. rewrite Nat2N.inj_succ, N.pow_succ_r'. lia.
Qed.

Theorem be_val_is_sum bs : be_val bs = be_sum bs.
Proof.
  induction bs as [|b r IH]; [reflexivity|].
  rewrite be_val_cons. unfold be_sum. cbn [length seq map]. rewrite nsum_cons.
  rewrite <- seq_shift, map_map.
  rewrite (nsum_ext _ (fun i => byte_at r i * 256 ^ N.of_nat (length r - 1 - i))).
  - fold (be_sum r). rewrite <- IH. unfold byte_at, p256. cbn [nth].
    replace (S (length r) - 1 - 0)%nat with (length r) by lia. reflexivity.
  - intros i _. unfold byte_at. cbn [nth].
    replace (S (length r) - 1 - S i)%nat with (length r - 1 - i)%nat by lia. reflexivity.
Qed.

Lemma val_is_sum (be : bool) bs : (if be then be_val bs else le_val bs) = val_sum be bs.
Proof. destruct be; [apply be_val_is_sum|apply le_val_is_sum]. Qed.

Lemma val_sum_lt be bs : val_sum be bs < p256 (length bs).
Proof. rewrite <- val_is_sum. destruct be; [apply be_val_lt|apply le_val_lt]. Qed.

(* ---- take ---- *)

Lemma take_exact : forall n bs,
  take n bs = if (length bs <? n)%nat then None else Some (firstn n bs, skipn n bs).
Proof.
  induction n as [|n IH]; intros bs; [reflexivity|].
  destruct bs as [|b r]; [reflexivity|].
  cbn [take length firstn skipn]. rewrite IH.
  change (S (length r) <? S n)%nat with (length r <? n)%nat.
  destruct (length r <? n)%nat; reflexivity.
Qed.

Lemma take_app n h t : length h = n -> take n (h ++ t) = Some (h, t).
Proof.
  intros <-. rewrite take_exact, app_length.
  destruct (length h + length t <? length h)%nat eqn:E; [lia|].
  rewrite firstn_app, skipn_app, Nat.sub_diag, firstn_all, skipn_all. cbn [firstn skipn].
  rewrite app_nil_r. reflexivity.
Qed.

(* ---- read_un: every width, both byte orders, every input ---- *)

Theorem read_un_exact n be bs :
  read_un n be bs =
  if (length bs <? n)%nat then Err EUnexpectedEof
  else Ok (val_sum be (firstn n bs), skipn n bs).
Proof.
  unfold read_un, read_bytes. rewrite take_exact.
  destruct (length bs <? n)%nat; [reflexivity|]. cbn [bind]. rewrite val_is_sum. reflexivity.
Qed.

Lemma read_un_app n be h t : length h = n -> read_un n be (h ++ t) = Ok (val_sum be h, t).
Proof.
  intros H. unfold read_un, read_bytes. rewrite (take_app n h t H). cbn [bind].
  rewrite val_is_sum. reflexivity.
Qed.

Lemma read_un_eof_iff n be bs : read_un n be bs = Err EUnexpectedEof <-> (length bs < n)%nat.
Proof.
  rewrite read_un_exact. destruct (length bs <? n)%nat eqn:E; split; intros H; try reflexivity; try lia.
  discriminate H.
Qed.

Lemma read_un_value_lt n be bs v rest : read_un n be bs = Ok (v, rest) -> v < p256 n /\ length bs = (n + length rest)%nat.
Proof.
  rewrite read_un_exact. destruct (length bs <? n)%nat eqn:E; [discriminate|].
  intros H; inversion H; subst. split.
  - pose proof (val_sum_lt be (firstn n bs)) as Hl. rewrite firstn_length_le in Hl by lia. exact Hl.
  - rewrite skipn_length. lia.
Qed.

(* ---- le_bytes / be_bytes ---- *)

Lemma le_bytes_length n v : length (le_bytes n v) = n.
Proof. revert v. induction n as [|n IH]; intros v; cbn [le_bytes length]; [reflexivity|]. rewrite IH. reflexivity. Qed.

Lemma enc_un_length n be v : length (enc_un n be v) = n.
Proof. unfold enc_un, be_bytes. destruct be; [rewrite rev_length|]; apply le_bytes_length. Qed.

Section WithDivMod.
Local Ltac Zify.zify_post_hook ::= Z.div_mod_to_equations.

Lemma le_val_le_bytes : forall n v, le_val (le_bytes n v) = v mod p256 n.
Proof.
  induction n as [|n IH]; intros v; cbn [le_bytes le_val].
  - rewrite p256_0. lia.
  - rewrite IH, b2n_n2b, p256_S. pose proof (p256_pos n) as Hp.
    rewrite N.mod_mul_r by lia. lia.
Qed.

Lemma le_bytes_le_val : forall bs, le_bytes (length bs) (le_val bs) = bs.
Proof.
  induction bs as [|b r IH]; [reflexivity|]. cbn [length le_bytes le_val].
  pose proof (b2n_lt b) as Hb.
  assert (Hq : (b2n b + 256 * le_val r) / 256 = le_val r) by lia.
  assert (Hm : n2b (b2n b + 256 * le_val r) = b).
  { apply b2n_inj. rewrite b2n_n2b. lia. }
  rewrite Hq, Hm, IH. reflexivity.
Qed.
End WithDivMod.

Lemma val_sum_enc_un n be v : val_sum be (enc_un n be v) = v mod p256 n.
Proof.
  rewrite <- val_is_sum. unfold enc_un, be_bytes, be_val. destruct be.
  - rewrite rev_involutive. apply le_val_le_bytes.
  - apply le_val_le_bytes.
Qed.

(* the n-byte strings are in bijection with [0, 256^n): encoding the value of a string gives it back *)
Lemma enc_un_val_sum be bs : enc_un (length bs) be (val_sum be bs) = bs.
Proof.
  rewrite <- val_is_sum. unfold enc_un, be_bytes, be_val. destruct be.
  - rewrite <- (rev_length bs) at 1. rewrite le_bytes_le_val. apply rev_involutive.
  - apply le_bytes_le_val.
Qed.

Theorem read_un_enc_un n be v r : read_un n be (enc_un n be v ++ r) = Ok (v mod p256 n, r).
Proof. rewrite read_un_app by apply enc_un_length. rewrite val_sum_enc_un. reflexivity. Qed.

Theorem read_un_enc_un_small n be v r : v < p256 n -> read_un n be (enc_un n be v ++ r) = Ok (v, r).
Proof. intros H. rewrite read_un_enc_un, N.mod_small by exact H. reflexivity. Qed.

(* ---- signed reads ---- *)

Lemma to_signed_small bits u : u < 2 ^ bits -> to_signed bits u = signed_at bits u.
Proof. intros H. unfold to_signed, signed_at, wrapN. rewrite N.mod_small by exact H. reflexivity. Qed.

Theorem read_in_exact n be bs :
  read_in n be bs =
  if (length bs <? n)%nat then Err EUnexpectedEof
  else Ok (signed_at (8 * N.of_nat n) (val_sum be (firstn n bs)), skipn n bs).
Proof.
  unfold read_in. rewrite read_un_exact.
  destruct (length bs <? n)%nat eqn:E; [reflexivity|]. cbn [bind].
  rewrite to_signed_small; [reflexivity|].
  rewrite <- p256_pow2. pose proof (val_sum_lt be (firstn n bs)) as Hl.
  rewrite firstn_length_le in Hl by lia. exact Hl.
Qed.

Lemma read_in_app n be h t : length h = n ->
  read_in n be (h ++ t) = Ok (signed_at (8 * N.of_nat n) (val_sum be h), t).
Proof.
  intros H. unfold read_in. rewrite (read_un_app n be h t H). cbn [bind].
  rewrite to_signed_small; [reflexivity|].
  rewrite <- p256_pow2, <- H. apply val_sum_lt.
Qed.

(* ---- read_uint ---- *)

Theorem read_uint_exact n be bs :
  read_uint n be bs = if (8 <? n)%nat then Panic else read_un n be bs.
Proof. reflexivity. Qed.

(* ================= sized reads ================= *)

Lemma size_ok_cases size : size_ok size = true <-> size = 1 \/ size = 2 \/ size = 4 \/ size = 8.
Proof. unfold size_ok. lia. Qed.

Ltac each_size H :=
  apply size_ok_cases in H; destruct H as [->|[->|[->| ->]]].

Theorem read_address_exact size be bs :
  read_address size be bs =
  if size_ok size then read_un (N.to_nat size) be bs else Err EUnsupportedAddressSize.
Proof.
  destruct (size_ok size) eqn:E.
  - each_size E; reflexivity.
  - unfold read_address. unfold size_ok in E.
    destruct (size =? 1) eqn:E1; [lia|]. destruct (size =? 2) eqn:E2; [lia|].
    destruct (size =? 4) eqn:E4; [lia|]. destruct (size =? 8) eqn:E8; [lia|]. reflexivity.
Qed.

Theorem read_sized_offset_exact size be bs :
  read_sized_offset size be bs =
  if size_ok size then read_un (N.to_nat size) be bs else Err EUnsupportedOffsetSize.
Proof.
  destruct (size_ok size) eqn:E.
  - each_size E; reflexivity.
  - unfold read_sized_offset. unfold size_ok in E.
    destruct (size =? 1) eqn:E1; [lia|]. destruct (size =? 2) eqn:E2; [lia|].
    destruct (size =? 4) eqn:E4; [lia|]. destruct (size =? 8) eqn:E8; [lia|]. reflexivity.
Qed.

Lemma read_un_ok_inv n be bs v rest : read_un n be bs = Ok (v, rest) ->
  exists h, bs = h ++ rest /\ length h = n /\ v = val_sum be h /\ v < 2 ^ (8 * N.of_nat n).
Proof.
  rewrite read_un_exact. destruct (length bs <? n)%nat eqn:E; [discriminate|].
  intros H; inversion H; subst. exists (firstn n bs).
  split; [symmetry; apply firstn_skipn|].
  assert (Hl : length (firstn n bs) = n) by (apply firstn_length_le; lia).
  split; [exact Hl|]. split; [reflexivity|].
  pose proof (val_sum_lt be (firstn n bs)) as Hlt. rewrite Hl, p256_pow2 in Hlt. exact Hlt.
Qed.

Theorem read_address_ok size be bs v rest : read_address size be bs = Ok (v, rest) ->
  size_ok size = true /\
  exists h, bs = h ++ rest /\ N.of_nat (length h) = size /\ v = val_sum be h /\ v < 2 ^ (8 * size).
Proof.
  rewrite read_address_exact. destruct (size_ok size) eqn:E; [|discriminate].
  intros H. split; [reflexivity|].
  destruct (read_un_ok_inv _ _ _ _ _ H) as (h & Hb & Hl & Hv & Hlt).
  exists h. rewrite N2Nat.id in Hlt. repeat split; try assumption. lia.
Qed.

Theorem read_sized_offset_ok size be bs v rest : read_sized_offset size be bs = Ok (v, rest) ->
  size_ok size = true /\
  exists h, bs = h ++ rest /\ N.of_nat (length h) = size /\ v = val_sum be h /\ v < 2 ^ (8 * size).
Proof.
  rewrite read_sized_offset_exact. destruct (size_ok size) eqn:E; [|discriminate].
  intros H. split; [reflexivity|].
  destruct (read_un_ok_inv _ _ _ _ _ H) as (h & Hb & Hl & Hv & Hlt).
  exists h. rewrite N2Nat.id in Hlt. repeat split; try assumption. lia.
Qed.

Theorem read_address_size_exact bs :
  read_address_size bs =
  match bs with
  | [] => Err EUnexpectedEof
  | b :: r => if size_ok (b2n b) then Ok (b2n b, r) else Err EUnsupportedAddressSize
  end.
Proof. destruct bs; reflexivity. Qed.

(* ================= initial length ================= *)

Definition ilen_spec (be : bool) (bs : list byte) : res ((N * bool) * list byte) :=
  if (length bs <? 4)%nat then Err EUnexpectedEof else
  let v := val_sum be (firstn 4 bs) in
  let r := skipn 4 bs in
  if v <? 4294967280 then Ok ((v, false), r)
  else if v =? 4294967295 then
    (if (length r <? 8)%nat then Err EUnexpectedEof
     else Ok ((val_sum be (firstn 8 r), true), skipn 8 r))
  else Err EUnknownReservedLength.

Theorem read_initial_length_exact be bs : read_initial_length be bs = ilen_spec be bs.
Proof.
  unfold read_initial_length, ilen_spec. rewrite read_un_exact.
  destruct (length bs <? 4)%nat; [reflexivity|]. cbn [bind].
  destruct (val_sum be (firstn 4 bs) <? 4294967280); [reflexivity|].
  destruct (val_sum be (firstn 4 bs) =? 4294967295); [|reflexivity].
  rewrite read_un_exact. destruct (length (skipn 4 bs) <? 8)%nat; reflexivity.
Qed.

(* ================= write_udata / write_sdata ================= *)

Theorem write_udata_exact be v size : v < two64 ->
  write_udata be v size =
  if size_ok size then
    (if v <? 2 ^ (8 * size) then Ok (enc_un (N.to_nat size) be v) else Err WValueTooLarge)
  else Err WUnsupportedWordSize.
Proof.
  intros Hv. destruct (size_ok size) eqn:E.
  - each_size E; unfold write_udata; cbn [N.eqb Pos.eqb]; try reflexivity.
    change (2 ^ (8 * 8)) with two64. destruct (v <? two64) eqn:E; [reflexivity|lia].
  - unfold write_udata. unfold size_ok in E.
    destruct (size =? 1) eqn:E1; [lia|]. destruct (size =? 2) eqn:E2; [lia|].
    destruct (size =? 4) eqn:E4; [lia|]. destruct (size =? 8) eqn:E8; [lia|]. reflexivity.
Qed.

Theorem write_udata_ok be v size bs : v < two64 -> write_udata be v size = Ok bs ->
  size_ok size = true /\ v < 2 ^ (8 * size) /\
  N.of_nat (length bs) = size /\ val_sum be bs = v /\
  forall r, read_un (N.to_nat size) be (bs ++ r) = Ok (v, r) /\
            read_address size be (bs ++ r) = Ok (v, r) /\
            read_sized_offset size be (bs ++ r) = Ok (v, r).
Proof.
  intros Hv. rewrite write_udata_exact by exact Hv.
  destruct (size_ok size) eqn:E; [|discriminate].
  destruct (v <? 2 ^ (8 * size)) eqn:Elt; [|discriminate].
  intros H; inversion H; subst bs. clear H.
  assert (Hp : v < p256 (N.to_nat size)) by (rewrite p256_pow2, N2Nat.id; lia).
  split; [reflexivity|]. split; [lia|]. split; [rewrite enc_un_length; lia|].
  split; [rewrite val_sum_enc_un; apply N.mod_small; exact Hp|].
  intros r. rewrite read_address_exact, read_sized_offset_exact, E.
  rewrite read_un_enc_un_small by exact Hp. repeat split; reflexivity.
Qed.

Lemma signed_roundtrip bits v : 1 <= bits -> in_signed bits v = true ->
  of_signed bits v < 2 ^ bits /\ signed_at bits (of_signed bits v) = v.
Proof.
  intros Hb Hin. unfold in_signed in Hin. unfold of_signed, signed_at.
  assert (HM : 2 ^ bits = 2 * 2 ^ (bits - 1)).
  { replace bits with (N.succ (bits - 1)) at 1 by lia. apply N.pow_succ_r'. }
  rewrite HM.
  assert (HH : 0 < 2 ^ (bits - 1)) by (apply N.neq_0_lt_0, N.pow_nonzero; discriminate).
  set (H := 2 ^ (bits - 1)) in *.
  destruct (Z.neg_nonneg_cases v) as [Hneg|Hpos].
  - assert (Hm : (v mod Z.of_N (2 * H) = v + Z.of_N (2 * H))%Z).
    { rewrite <- (Z.mod_add v 1 (Z.of_N (2 * H))) by lia. rewrite Z.mod_small by lia. lia. }
    rewrite Hm. split; [lia|].
    destruct (Z.to_N (v + Z.of_N (2 * H)) <? H) eqn:E; lia.
  - assert (Hm : (v mod Z.of_N (2 * H) = v)%Z) by (apply Z.mod_small; lia).
    rewrite Hm. split; [lia|].
    destruct (Z.to_N v <? H) eqn:E; lia.
Qed.

Theorem write_sdata_exact be v size : in_i64 v = true ->
  write_sdata be v size =
  if size_ok size then
    (if in_signed (8 * size) v then Ok (enc_un (N.to_nat size) be (of_signed (8 * size) v))
     else Err WValueTooLarge)
  else Err WUnsupportedWordSize.
Proof.
  intros Hv. destruct (size_ok size) eqn:E.
  - each_size E; unfold write_sdata; cbn [N.eqb Pos.eqb]; try reflexivity.
    change (in_signed (8 * 8) v) with (in_i64 v). rewrite Hv. reflexivity.
  - unfold write_sdata. unfold size_ok in E.
    destruct (size =? 1) eqn:E1; [lia|]. destruct (size =? 2) eqn:E2; [lia|].
    destruct (size =? 4) eqn:E4; [lia|]. destruct (size =? 8) eqn:E8; [lia|]. reflexivity.
Qed.

Theorem write_sdata_ok be v size bs : in_i64 v = true -> write_sdata be v size = Ok bs ->
  size_ok size = true /\ in_signed (8 * size) v = true /\
  N.of_nat (length bs) = size /\
  forall r, read_in (N.to_nat size) be (bs ++ r) = Ok (v, r).
Proof.
  intros Hv. rewrite write_sdata_exact by exact Hv.
  destruct (size_ok size) eqn:E; [|discriminate].
  destruct (in_signed (8 * size) v) eqn:Ein; [|discriminate].
  intros H; inversion H; subst bs. clear H.
  assert (Hs : 1 <= 8 * size) by (apply size_ok_cases in E; lia).
  destruct (signed_roundtrip (8 * size) v Hs Ein) as (Hlt & Hrt).
  split; [reflexivity|]. split; [reflexivity|]. split; [rewrite enc_un_length; lia|].
  intros r. rewrite read_in_app by apply enc_un_length.
  rewrite val_sum_enc_un, N.mod_small by (rewrite p256_pow2, N2Nat.id; exact Hlt).
  rewrite N2Nat.id, Hrt. reflexivity.
Qed.

(* ================= write_initial_length ================= *)

Theorem write_initial_length_exact fmt64 be len : len < two64 ->
  write_initial_length fmt64 be len =
  if fmt64 then Ok (enc_un 4 be 4294967295 ++ enc_un 8 be len)
  else if len <? 4294967280 then Ok (enc_un 4 be len)
  else if len <=? 4294967295 then Err WInitialLengthOverflow
  else Err WValueTooLarge.
Proof.
  intros Hv. unfold write_initial_length. destruct fmt64; cbn [negb andb word_size].
  - reflexivity.
  - unfold write_udata. cbn [N.eqb Pos.eqb]. unfold two32.
    destruct (len <? 4294967280) eqn:E1.
    + destruct (4294967280 <=? len) eqn:E2; [lia|]. cbn [andb].
      destruct (len <? 4294967296) eqn:E3; [reflexivity|lia].
    + destruct (4294967280 <=? len) eqn:E2; [|lia]. cbn [andb].
      destruct (len <=? 4294967295) eqn:E3; [reflexivity|].
      destruct (len <? 4294967296) eqn:E4; [lia|reflexivity].
Qed.

Theorem write_initial_length_read fmt64 be len bs : len < two64 ->
  write_initial_length fmt64 be len = Ok bs ->
  length bs = (if fmt64 then 12%nat else 4%nat) /\
  forall r, read_initial_length be (bs ++ r) = Ok ((len, fmt64), r).
Proof.
  intros Hv. rewrite write_initial_length_exact by exact Hv.
  destruct fmt64.
  - intros H; inversion H; subst bs; clear H. split.
    { rewrite app_length, !enc_un_length. reflexivity. }
    intros r. unfold read_initial_length. rewrite <- app_assoc.
    rewrite read_un_enc_un. cbn [bind].
    change (4294967295 mod p256 4) with 4294967295.
    change (4294967295 <? 4294967280) with false. change (4294967295 =? 4294967295) with true.
    cbv iota. rewrite read_un_enc_un_small by (change (p256 8) with two64; exact Hv).
    reflexivity.
  - destruct (len <? 4294967280) eqn:E1.
    + intros H; inversion H; subst bs; clear H. split; [apply enc_un_length|].
      intros r. unfold read_initial_length.
      rewrite read_un_enc_un_small by (change (p256 4) with 4294967296; lia).
      cbn [bind]. rewrite E1. reflexivity.
    + destruct (len <=? 4294967295); discriminate.
Qed.

(* ================= sized address arithmetic ================= *)

Theorem add_sized_ok a len size s : add_sized a len size = Ok s ->
  s = a + len /\ s <= mask_of size /\ s < two64.
Proof.
  unfold add_sized. destruct (two64 <=? a + len) eqn:E1; [discriminate|].
  destruct (mask_of size <? a + len) eqn:E2; [discriminate|].
  intros H; inversion H; subst. lia.
Qed.

Theorem add_sized_exact a len size : size_ok size = true ->
  add_sized a len size = if a + len <=? 2 ^ (8 * size) - 1 then Ok (a + len) else Err EAddressOverflow.
Proof.
  intros E. unfold add_sized. fold (mask_of size).
  assert (Hm : mask_of size < two64) by (each_size E; vm_compute; reflexivity).
  destruct (two64 <=? a + len) eqn:E1.
  - destruct (a + len <=? mask_of size) eqn:E2; [lia|reflexivity].
  - destruct (mask_of size <? a + len) eqn:E2.
    + destruct (a + len <=? mask_of size) eqn:E3; [lia|reflexivity].
    + destruct (a + len <=? mask_of size) eqn:E3; [reflexivity|lia].
Qed.

Lemma mask_of_ones size : mask_of size = N.ones (8 * size).
Proof. unfold mask_of. rewrite N.ones_equiv, N.sub_1_r. reflexivity. Qed.

Section WithDivMod2.
Local Ltac Zify.zify_post_hook ::= Z.div_mod_to_equations.
Theorem wrapping_add_sized_exact a len size : size_ok size = true ->
  wrapping_add_sized a len size = (a + len) mod 2 ^ (8 * size).
Proof.
  intros E. unfold wrapping_add_sized. rewrite mask_of_ones, N.land_ones. unfold wrap64, two64.
  each_size E.
  - change (2 ^ (8 * 1)) with 256. lia.
  - change (2 ^ (8 * 2)) with 65536. lia.
  - change (2 ^ (8 * 4)) with 4294967296. lia.
  - change (2 ^ (8 * 8)) with 18446744073709551616. lia.
Qed.
End WithDivMod2.

Theorem min_tombstone_exact size : size_ok size = true -> min_tombstone size = 2 ^ (8 * size) - 2.
Proof. intros E. each_size E; vm_compute; reflexivity. Qed.

Theorem ones_sized_ok dbg size : size_ok size = true -> ones_sized dbg size = Ok (mask_of size).
Proof. intros E. each_size E; destruct dbg; vm_compute; reflexivity. Qed.

(* ================= packaged statements used by Properties/C09.v ================= *)

Lemma le_be_positional_l : forall bs : list byte, le_val bs = le_sum bs /\ be_val bs = be_sum bs.
Proof. intros bs. split; [apply le_val_is_sum|apply be_val_is_sum]. Qed.

Lemma read_un_app_lt : forall (n : nat) (be : bool) (h t : list byte), length h = n ->
  read_un n be (h ++ t) = Ok (val_sum be h, t) /\ val_sum be h < 256 ^ N.of_nat n.
Proof.
  intros n be h t H. split; [apply read_un_app; exact H|].
  rewrite <- H. apply (val_sum_lt be h).
Qed.

Lemma fixed_write_read_l : forall (n : nat) (be : bool) (v : N) (r : list byte),
  length (enc_un n be v) = n /\
  read_un n be (enc_un n be v ++ r) = Ok (v mod 256 ^ N.of_nat n, r) /\
  (v < 256 ^ N.of_nat n -> read_un n be (enc_un n be v ++ r) = Ok (v, r)).
Proof.
  intros n be v r. split; [apply enc_un_length|]. split.
  - apply read_un_enc_un.
  - apply read_un_enc_un_small.
Qed.

Lemma read_uint_full : forall (n : nat) (be : bool) (bs : list byte),
  read_uint n be bs =
  if (8 <? n)%nat then Panic
  else if (length bs <? n)%nat then Err EUnexpectedEof
  else Ok (val_sum be (firstn n bs), skipn n bs).
Proof. intros n be bs. rewrite read_uint_exact, read_un_exact. reflexivity. Qed.

Lemma sized_reads_l : forall (size : N) (be : bool) (bs : list byte),
  read_address size be bs =
    (if size_ok size then read_un (N.to_nat size) be bs else Err EUnsupportedAddressSize) /\
  read_sized_offset size be bs =
    (if size_ok size then read_un (N.to_nat size) be bs else Err EUnsupportedOffsetSize).
Proof. intros. split; [apply read_address_exact|apply read_sized_offset_exact]. Qed.

Lemma sized_reads_ok_l : forall (size : N) (be : bool) (bs : list byte) (v : N) (rest : list byte),
  read_address size be bs = Ok (v, rest) \/ read_sized_offset size be bs = Ok (v, rest) ->
  (size = 1 \/ size = 2 \/ size = 4 \/ size = 8) /\
  exists h, bs = h ++ rest /\ N.of_nat (length h) = size /\ v = val_sum be h /\ v < 2 ^ (8 * size).
Proof.
  intros size be bs v rest [H|H].
  - destruct (read_address_ok _ _ _ _ _ H) as (E & Hx). split; [apply size_ok_cases; exact E|exact Hx].
  - destruct (read_sized_offset_ok _ _ _ _ _ H) as (E & Hx). split; [apply size_ok_cases; exact E|exact Hx].
Qed.

Lemma in_signed_iff_l : forall (bits : N) (v : Z),
  in_signed bits v = true <-> (- Z.of_N (2 ^ (bits - 1)) <= v < Z.of_N (2 ^ (bits - 1)))%Z.
Proof. intros bits v. unfold in_signed. rewrite andb_true_iff, Z.leb_le, Z.ltb_lt. reflexivity. Qed.
