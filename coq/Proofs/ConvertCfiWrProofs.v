(* Proofs/ConvertCfiWrProofs.v — C12 ∘ C14 ∘ C06: the converted CFI programs, written by the frame-table
   writer (Model/CfiWr.v) and decoded again (Spec/CfaEncSpec.v, theorems fde_program_read /
   cie_program_read of C14), run on the table machine of the reader (Spec/CfaSpec.v) under the ORIGINAL
   alignment factors, give the unwind information of the source programs. *)
From Coq Require Import List NArith ZArith Bool Lia ZifyBool ZifyN ZifyNat.
From Coq.Strings Require Import Byte.
Require Import GV.Base.Res GV.Base.Byt GV.Base.Ints GV.Spec.CfaEncSpec GV.Spec.CfaSpec.
Require Import GV.Model.ConvertArith GV.Model.ConvertCfi GV.Model.CfiWr.
Require Import GV.Proofs.ConvertProofs GV.Proofs.ConvertCfiProofs GV.Proofs.CfiWrProofs.
Import ListNotations.
Local Open Scope N_scope.
Local Arguments N.add : simpl never.
Local Arguments N.sub : simpl never.
Local Arguments N.mul : simpl never.
Local Arguments N.pow : simpl never.
Local Arguments Z.mul : simpl never.

(* ------------------------------------------------------------------ equality as the expression relation *)

Lemma rule_rel_eq x y : rule_rel eq x y <-> y = x.
Proof.
  destruct x; cbn [rule_rel]; split; intros H; try exact H;
    match type of H with
    | ex _ => destruct H as [e' [-> <-]]; reflexivity
    | _ = _ => subst y; eexists; split; reflexivity
    end.
Qed.
Lemma cfa_rel_eq x y : cfa_rel eq x y <-> y = x.
Proof.
  destruct x; cbn [cfa_rel]; split; intros H; try exact H;
    match type of H with
    | ex _ => destruct H as [e' [-> <-]]; reflexivity
    | _ = _ => subst y; eexists; split; reflexivity
    end.
Qed.
Lemma rmap_rel_eq m m' : rmap_rel eq m m' -> m' = m.
Proof.
  induction 1 as [|[r x] [r' x'] m m' [Hf Hr] _ IH]; [reflexivity|].
  cbn [fst snd] in Hf, Hr. apply rule_rel_eq in Hr. subst. reflexivity.
Qed.
Lemma content_rel_eq x y : content_rel eq x y -> y = x.
Proof.
  destruct x as [[c n] m], y as [[c' n'] m']. unfold content_rel. cbn [fst snd]. intros [Hc [Hn Hm]].
  apply cfa_rel_eq in Hc. apply rmap_rel_eq in Hm. subst. reflexivity.
Qed.

Lemma unw_rel_trans_eq R x y z : unw_rel R x y -> unw_rel eq z y -> unw_rel R x z.
Proof.
  destruct x as [x|], y as [y|], z as [z|]; cbn [unw_rel]; try tauto.
  intros H1 H2. apply content_rel_eq in H2. subst y. exact H1.
Qed.

(* ------------------------------------------------------------------ a decoded instruction means its [sem] *)

Definition adv_fits (caf : N) (d : dinsn) : Prop :=
  match d with DAdvance x => x * caf < 2 ^ 64 | _ => True end.

Lemma rule_rel_eq_refl x : rule_rel eq x x.
Proof. apply rule_rel_eq. reflexivity. Qed.

Lemma sem_means plc p d : adv_fits (sp_caf p) d ->
  means eq plc p (rd_of_dinsn plc d) (sem (sp_caf p) (sp_daf p) d).
Proof.
  intros Hadv. destruct d; cbn [sem rd_of_dinsn means den_cfi adv_fits] in *;
    try (apply insn_same_sem; cbn [insn_same]; try reflexivity; eexists; split; reflexivity).
  - exists delta. auto.
  - apply sem_set_rule with (r := r) (x := ROffset (wrap_i64 (Z.of_N fo * sp_daf p))); [apply rule_rel_eq_refl| |];
      intros; cbn [spec_step]; [|rewrite factored_unit]; reflexivity.
  - reflexivity.
  - apply sem_set_cfa with (r := r) (z := wrap_i64 (Z.of_N o)); intros; cbn [spec_step]; [|rewrite factored_unit]; reflexivity.
  - apply sem_set_cfa_offset with (z := wrap_i64 (Z.of_N o)); intros; cbn [spec_step]; [|rewrite factored_unit]; reflexivity.
  - apply sem_set_rule with (r := r) (x := ROffset (wrap_i64 (fo * sp_daf p))); [apply rule_rel_eq_refl| |];
      intros; cbn [spec_step]; [|rewrite factored_unit]; reflexivity.
  - apply sem_set_cfa with (r := r) (z := wrap_i64 (fo * sp_daf p)); intros; cbn [spec_step]; [|rewrite factored_unit]; reflexivity.
  - apply sem_set_cfa_offset with (z := wrap_i64 (fo * sp_daf p)); intros; cbn [spec_step]; [|rewrite factored_unit]; reflexivity.
  - apply sem_set_rule with (r := r) (x := RValOffset (wrap_i64 (Z.of_N fo * sp_daf p))); [apply rule_rel_eq_refl| |];
      intros; cbn [spec_step]; [|rewrite factored_unit]; reflexivity.
  - apply sem_set_rule with (r := r) (x := RValOffset (wrap_i64 (fo * sp_daf p))); [apply rule_rel_eq_refl| |];
      intros; cbn [spec_step]; [|rewrite factored_unit]; reflexivity.
Qed.

Lemma sem_means_all plc p ds : Forall (adv_fits (sp_caf p)) ds ->
  Forall2 (means eq plc p) (map (rd_of_dinsn plc) ds) (map (sem (sp_caf p) (sp_daf p)) ds).
Proof. induction 1; cbn [map]; constructor; [apply sem_means; assumption|assumption]. Qed.

Lemma insns_of_minsn l : insns_of (map MInsn l) = l.
Proof. induction l as [|c l IH]; [reflexivity|]. unfold insns_of in *. cbn [map flat_map app]. rewrite IH. reflexivity. Qed.

(* ------------------------------------------------------------------ source table = table read back *)

Lemma cfi_convert_readback_sound_lemma (p : sparams) (xconv : uexpr -> res (list byte)) (plc : list byte -> uexpr)
      (cie fde : list item) (cl : list cfi) (fl : list (N * cfi)) (init end_ : N) (rows rows2 : list srow)
      (dsc dsf : list dinsn) :
  sp_asize p <= 8 ->
  conv_cie (sp_caf p) (sp_daf p) xconv cie = Ok cl ->
  conv_fde (sp_caf p) (sp_daf p) xconv fde = Ok fl ->
  run_spec p init end_ cie fde = (rows, Done) ->
  (* what C14 proves about the bytes written for cl and fl *)
  map (sem (sp_caf p) (sp_daf p)) dsc = map MInsn cl ->
  locate 0 (map (sem (sp_caf p) (sp_daf p)) dsf) = fl ->
  Forall (adv_fits (sp_caf p)) dsc -> Forall (adv_fits (sp_caf p)) dsf ->
  (* reading them back under the same factors *)
  run_spec p init end_ (map It (map (rd_of_dinsn plc) dsc)) (map It (map (rd_of_dinsn plc) dsf)) = (rows2, Done) ->
  forall a, init <= a -> a < end_ ->
    unw_rel (conv_R xconv plc) (content_at rows a) (content_at rows2 a).
Proof.
  intros Hasz Hc Hf Hrun Hdc Hdf Hac Haf Hrun2 a Ha He.
  destruct (cfi_insn_convert_sound_lemma p xconv plc cie fde cl fl init end_ rows Hasz Hc Hf Hrun) as [rows' [Hr' Hcov]].
  destruct (table_of_means eq plc p _ _ _ _ init end_ rows2 Hasz (sem_means_all plc p dsc Hac) (sem_means_all plc p dsf Haf) Hrun2)
    as [rows2' [Hr2' Hcov2]].
  rewrite Hdc, insns_of_minsn, Hdf in Hr2'. unfold converted_rows in Hr'. rewrite Hr' in Hr2'.
  inversion Hr2'; subst rows2'.
  eapply unw_rel_trans_eq; [apply Hcov; assumption|apply Hcov2; assumption].
Qed.

(* ------------------------------------------------------------------ the whole chain: convert, write, decode, run *)

(* registers are u16 in the reader's instruction type *)
Definition insn_typed (i : insn) : bool :=
  match i with
  | IDefCfa r _ | IDefCfaSf r _ | IDefCfaRegister r | IUndefined r | ISameValue r
  | IOffset r _ | IOffsetExtendedSf r _ | IValOffset r _ | IValOffsetSf r _
  | IExpression r _ | IValExpression r _ | IRestore r => r <? 65536
  | IRegister d s => (d <? 65536) && (s <? 65536)
  | _ => true
  end.
Definition item_typed (x : item) : bool := match x with It i => insn_typed i | _ => true end.

Lemma in_signed_is_i32 z : in_signed 32 z = true -> is_i32 z = true.
Proof. unfold in_signed, is_i32. change (2 ^ (32 - 1)) with 2147483648. lia. Qed.

Lemma conv_step_wf caf daf xconv o i o' c :
  (forall e b, xconv e = Ok b -> is_blob b = true) ->
  insn_typed i = true ->
  conv_step caf daf xconv o i = Ok (o', Some c) -> cfi_wf c = true.
Proof.
  intros Hx Ht H.
  destruct i; cbn [conv_step] in H; try discriminate;
    try (apply bind_ok_inv in H; destruct H as [v [Hv H]]);
    inversion H; subst; clear H; cbn [cfi_wf insn_typed] in *; unfold is_u16;
    try (apply convert_offset_ok in Hv; destruct Hv as [_ Hv]; apply in_signed_is_i32 in Hv);
    try (apply convert_factored_offset_ok in Hv; destruct Hv as [_ [_ Hv]]; apply in_signed_is_i32 in Hv);
    try (apply convert_unsigned_factored_offset_ok in Hv; destruct Hv as [_ [_ Hv]]; apply in_signed_is_i32 in Hv);
    try (apply Hx in Hv);
    try (apply convert_args_size_ok in Hv; destruct Hv as [-> Hv]; unfold is_u32);
    try reflexivity; try (rewrite ?Ht, ?Hv; reflexivity); try assumption; try lia.
Qed.

Lemma conv_cie_from_wf caf daf xconv :
  (forall e b, xconv e = Ok b -> is_blob b = true) ->
  forall items o l, forallb item_typed items = true ->
  conv_cie_from caf daf xconv o items = Ok l -> forallb cfi_wf l = true.
Proof.
  intros Hx. induction items as [|it items IH]; intros o l Ht H.
  - cbn in H. inversion H. reflexivity.
  - cbn [forallb] in Ht. apply andb_true_iff in Ht. destruct Ht as [Ht1 Ht2].
    destruct it as [i|e| |]; cbn [conv_cie_from] in H; try discriminate.
    apply bind_ok_inv in H. destruct H as [[o1 c] [Hstep H]].
    apply bind_ok_inv in H. destruct H as [l1 [Hl1 H]]. inversion H; subst l; clear H.
    specialize (IH o1 l1 Ht2 Hl1). destruct c as [x|]; [|exact IH].
    cbn [forallb]. rewrite IH. rewrite (conv_step_wf _ _ _ _ _ _ _ Hx Ht1 Hstep). reflexivity.
Qed.

Lemma conv_step_offset caf daf xconv o i o' c :
  o < 2 ^ 32 -> conv_step caf daf xconv o i = Ok (o', c) -> o' < 2 ^ 32.
Proof.
  intros Ho H. destruct i; cbn [conv_step] in H; try discriminate;
    try (apply bind_ok_inv in H; destruct H as [v [Hv H]]); inversion H; subst; try exact Ho.
  apply convert_advance_ok in Hv. lia.
Qed.

Lemma conv_fde_from_wf caf daf xconv :
  (forall e b, xconv e = Ok b -> is_blob b = true) ->
  forall items o l, forallb item_typed items = true -> o < 2 ^ 32 ->
  conv_fde_from caf daf xconv o items = Ok l -> forallb fde_insn_wf l = true.
Proof.
  intros Hx. induction items as [|it items IH]; intros o l Ht Ho H.
  - cbn in H. inversion H. reflexivity.
  - cbn [forallb] in Ht. apply andb_true_iff in Ht. destruct Ht as [Ht1 Ht2].
    destruct it as [i|e| |]; cbn [conv_fde_from] in H; try discriminate.
    apply bind_ok_inv in H. destruct H as [[o1 c] [Hstep H]].
    apply bind_ok_inv in H. destruct H as [l1 [Hl1 H]]. inversion H; subst l; clear H.
    pose proof (conv_step_offset _ _ _ _ _ _ _ Ho Hstep) as Ho1.
    specialize (IH o1 l1 Ht2 Ho1 Hl1). destruct c as [x|]; [|exact IH].
    cbn [forallb]. rewrite IH. unfold fde_insn_wf. cbn [fst snd].
    rewrite (conv_step_wf _ _ _ _ _ _ _ Hx Ht1 Hstep). unfold is_u32.
    change 4294967296 with (2 ^ 32). replace (o1 <? 2 ^ 32) with true by lia. reflexivity.
Qed.

(* decoded advances are at most 32 bits wide *)
Lemma le_num_lt bs : le_num bs < 256 ^ N.of_nat (length bs).
Proof.
  induction bs as [|b bs IH]; [cbn; lia|]. cbn [le_num length]. rewrite Nat2N.inj_succ, N.pow_succ_r'.
  pose proof (b2n_lt b). lia.
Qed.

Lemma fixed_lt n be bs v r : fixed n be bs = Some (v, r) -> v < 256 ^ N.of_nat n.
Proof.
  unfold fixed. destruct (length bs <? n)%nat eqn:E; [discriminate|]. intros H; inversion H; subst.
  assert (L : length (firstn n bs) = n) by (apply firstn_length_le; apply Nat.ltb_ge in E; lia).
  unfold num. destruct be.
  - pose proof (le_num_lt (rev (firstn n bs))) as B. rewrite rev_length, L in B. exact B.
  - pose proof (le_num_lt (firstn n bs)) as B. rewrite L in B. exact B.
Qed.

Lemma decode1_adv be bs x r : decode1 be bs = Some (DAdvance x, r) -> x < 2 ^ 32.
Proof.
  unfold decode1. destruct bs as [|b t]; [discriminate|].
  assert (P32 : 2 ^ 32 = 4294967296) by reflexivity.
  repeat match goal with
         | |- context [if ?c then _ else _] => destruct c eqn:?
         end;
    unfold omap;
    repeat match goal with
           | |- context [match ?o with Some _ => _ | None => _ end] =>
               let E := fresh "E" in destruct o as [[? ?]|] eqn:E
           end; intros H; try discriminate; inversion H; subst; clear H.
  - pose proof (N.mod_lt (b2n b) 64). lia.
  - apply fixed_lt in E. change (256 ^ N.of_nat 1) with 256 in E. lia.
  - apply fixed_lt in E. change (256 ^ N.of_nat 2) with 65536 in E. lia.
  - apply fixed_lt in E. change (256 ^ N.of_nat 4) with 4294967296 in E. lia.
Qed.

Lemma decode_fuel_adv be caf : caf < 256 -> forall fuel bs ds, decode_fuel fuel be bs = Some ds -> Forall (adv_fits caf) ds.
Proof.
  intros Hc. induction fuel as [|f IH]; intros bs ds H.
  - destruct bs; [inversion H; constructor|discriminate].
  - destruct bs as [|b t]; [inversion H; constructor|]. cbn [decode_fuel] in H.
    destruct (decode1 be (b :: t)) as [[d r]|] eqn:E1; [|discriminate].
    destruct (decode_fuel f be r) as [ds1|] eqn:E2; [|discriminate]. inversion H; subst.
    constructor; [|eapply IH; eauto].
    destruct d; cbn [adv_fits]; auto. apply decode1_adv in E1.
    assert (2 ^ 32 * 256 < 2 ^ 64) by (vm_compute; reflexivity). nia.
Qed.

Lemma cfi_convert_write_read_sound_lemma (dbg be : bool) (p : sparams) (xconv : uexpr -> res (list byte))
      (plc : list byte -> uexpr) (cie fde : list item) (f : N * Z) (cl : list cfi) (fl : list (N * cfi))
      (init end_ : N) (rows : list srow) (cbs fbs : list byte) :
  sp_asize p <= 8 ->
  forallb item_typed cie = true -> forallb item_typed fde = true ->
  (forall e b, xconv e = Ok b -> is_blob b = true) ->
  conv_entry (sp_caf p) (sp_daf p) xconv cie fde = Ok (f, cl, fl) ->
  run_spec p init end_ cie fde = (rows, Done) ->
  write_insns dbg (sp_daf p) cl = Ok cbs ->
  write_fde_insns dbg be (sp_caf p) (sp_daf p) 0 fl = Ok fbs ->
  exists dsc dsf,
    decode_all be cbs = Some dsc /\ decode_all be fbs = Some dsf /\
    forall rows2,
      run_spec p init end_ (map It (map (rd_of_dinsn plc) dsc)) (map It (map (rd_of_dinsn plc) dsf)) = (rows2, Done) ->
      forall a, init <= a -> a < end_ ->
        unw_rel (conv_R xconv plc) (content_at rows a) (content_at rows2 a).
Proof.
  intros Hasz Htc Htf Hx Hconv Hrun Hwc Hwf.
  unfold conv_entry in Hconv.
  apply bind_ok_inv in Hconv. destruct Hconv as [f0 [Hfac Hconv]].
  apply bind_ok_inv in Hconv. destruct Hconv as [cl0 [Hc Hconv]].
  apply bind_ok_inv in Hconv. destruct Hconv as [fl0 [Hf Hconv]]. inversion Hconv; subst f0 cl0 fl0; clear Hconv.
  pose proof (convert_factors_exact (sp_caf p) (sp_daf p)) as Hfx. rewrite Hfac in Hfx.
  destruct f as [c8 d8]. destruct Hfx as [_ [_ [Hc8 Hd8]]].
  assert (Hu8 : is_u8 (sp_caf p) = true) by (unfold is_u8; lia).
  assert (Hi8 : is_i8 (sp_daf p) = true).
  { unfold in_signed in Hd8. change (2 ^ (8 - 1)) with 128 in Hd8. unfold is_i8. lia. }
  pose proof (conv_cie_from_wf _ _ xconv Hx cie 0 cl Htc Hc) as Hwfc.
  pose proof (conv_fde_from_wf _ _ xconv Hx fde 0 fl Htf ltac:(vm_compute; reflexivity) Hf) as Hwff.
  destruct (cie_program_read_pack dbg be (sp_caf p) (sp_daf p) cl cbs Hwfc Hi8 Hwc) as [dsc [Hdc Hsc]].
  destruct (fde_program_read_pack dbg be (sp_caf p) (sp_daf p) fl fbs Hwff Hu8 Hi8 Hwf) as [dsf [Hdf Hsf]].
  exists dsc, dsf. split; [exact Hdc|]. split; [exact Hdf|].
  intros rows2 Hrun2 a Ha He.
  eapply cfi_convert_readback_sound_lemma; eauto.
  - eapply decode_fuel_adv; [exact Hc8|exact Hdc].
  - eapply decode_fuel_adv; [exact Hc8|exact Hdf].
Qed.

(* ------------------------------------------------------------------ normal form: a second conversion *)

(* converting what is read back from a written (converted) table reproduces the write-side programs.
   xconv2 = the second expression conversion; on the place of a written expression it has to give back the
   written expression (normal form of expressions). *)

Lemma is_i32_in_signed z : is_i32 z = true -> in_signed 32 z = true.
Proof. unfold in_signed, is_i32. change (2 ^ (32 - 1)) with 2147483648. lia. Qed.

Lemma conv_step_rd caf daf xconv2 plc o d c :
  daf <> 0%Z -> (forall b, xconv2 (plc b) = Ok b) ->
  sem caf daf d = MInsn c -> cfi_wf c = true ->
  conv_step caf daf xconv2 o (rd_of_dinsn plc d) = Ok (o, Some c).
Proof.
  intros Hd Hx Hs Hw.
  destruct d; cbn [sem] in Hs; try discriminate; inversion Hs; subst c; clear Hs;
    cbn [rd_of_dinsn conv_step cfi_wf] in *; rewrite ?Hx; cbn [bind]; try reflexivity.
  - (* offset *)
    apply andb_true_iff in Hw. destruct Hw as [_ Hw]. apply is_i32_in_signed in Hw.
    unfold convert_unsigned_factored_offset, convert_factored_offset.
    assert (H64 : in_signed 64 (Z.of_N fo) = true).
    { unfold in_signed in *. change (2 ^ (32 - 1)) with 2147483648 in Hw. change (2 ^ (64 - 1)) with 9223372036854775808. nia. }
    rewrite H64. rewrite (in_signed_32_64 _ Hw), Hw. reflexivity.
  - (* def_cfa *)
    apply andb_true_iff in Hw. destruct Hw as [_ Hw]. apply is_i32_in_signed in Hw.
    unfold convert_offset. rewrite Hw. reflexivity.
  - (* def_cfa_offset *)
    apply is_i32_in_signed in Hw. unfold convert_offset. rewrite Hw. reflexivity.
  - (* offset_extended_sf *)
    apply andb_true_iff in Hw. destruct Hw as [_ Hw]. apply is_i32_in_signed in Hw.
    unfold convert_factored_offset. rewrite (in_signed_32_64 _ Hw), Hw. reflexivity.
  - apply andb_true_iff in Hw. destruct Hw as [_ Hw]. apply is_i32_in_signed in Hw.
    unfold convert_factored_offset. rewrite (in_signed_32_64 _ Hw), Hw. reflexivity.
  - apply is_i32_in_signed in Hw. unfold convert_factored_offset. rewrite (in_signed_32_64 _ Hw), Hw. reflexivity.
  - (* val_offset *)
    apply andb_true_iff in Hw. destruct Hw as [_ Hw]. apply is_i32_in_signed in Hw.
    unfold convert_unsigned_factored_offset, convert_factored_offset.
    assert (H64 : in_signed 64 (Z.of_N fo) = true).
    { unfold in_signed in *. change (2 ^ (32 - 1)) with 2147483648 in Hw. change (2 ^ (64 - 1)) with 9223372036854775808. nia. }
    rewrite H64. rewrite (in_signed_32_64 _ Hw), Hw. reflexivity.
  - apply andb_true_iff in Hw. destruct Hw as [_ Hw]. apply is_i32_in_signed in Hw.
    unfold convert_factored_offset. rewrite (in_signed_32_64 _ Hw), Hw. reflexivity.
  - (* args_size *)
    unfold convert_args_size. unfold is_u32 in Hw. change (2 ^ 32) with 4294967296. rewrite Hw. reflexivity.
Qed.

Lemma cie_normal_form_lemma caf daf xconv2 plc : daf <> 0%Z -> (forall b, xconv2 (plc b) = Ok b) ->
  forall ds cl o, map (sem caf daf) ds = map MInsn cl -> forallb cfi_wf cl = true ->
  conv_cie_from caf daf xconv2 o (map It (map (rd_of_dinsn plc) ds)) = Ok cl.
Proof.
  intros Hd Hx. induction ds as [|d ds IH]; intros cl o Hm Hw.
  - destruct cl; [reflexivity|discriminate].
  - destruct cl as [|c cl]; [discriminate|]. cbn [map] in Hm. inversion Hm as [[Hc Hrest]].
    cbn [forallb] in Hw. apply andb_true_iff in Hw. destruct Hw as [Hwc Hwl].
    cbn [map conv_cie_from]. rewrite (conv_step_rd caf daf xconv2 plc o d c Hd Hx Hc Hwc). cbn [bind].
    rewrite (IH cl o Hrest Hwl). reflexivity.
Qed.

(* total location advance of a decoded program, in bytes *)
Fixpoint adv_sum (caf : N) (ds : list dinsn) : N :=
  match ds with
  | [] => 0
  | DAdvance x :: r => x * caf + adv_sum caf r
  | _ :: r => adv_sum caf r
  end.

Definition dinsn_wf (caf : N) (daf : Z) (d : dinsn) : bool :=
  match sem caf daf d with MInsn c => cfi_wf c | _ => true end.

Lemma fde_normal_form_lemma caf daf xconv2 plc : daf <> 0%Z -> caf < 2 ^ 32 -> (forall b, xconv2 (plc b) = Ok b) ->
  forall ds o, forallb (dinsn_wf caf daf) ds = true -> o + adv_sum caf ds < 2 ^ 32 ->
  conv_fde_from caf daf xconv2 o (map It (map (rd_of_dinsn plc) ds)) = Ok (locate o (map (sem caf daf) ds)).
Proof.
  intros Hd Hc Hx. induction ds as [|d ds IH]; intros o Hw Hs; [reflexivity|].
  cbn [forallb] in Hw. apply andb_true_iff in Hw. destruct Hw as [Hwd Hwl].
  cbn [map conv_fde_from]. unfold dinsn_wf in Hwd.
  destruct (sem caf daf d) as [c|b|] eqn:Es.
  - rewrite (conv_step_rd caf daf xconv2 plc o d c Hd Hx Es Hwd). cbn [bind locate].
    assert (adv_sum caf (d :: ds) = adv_sum caf ds) by (destruct d; cbn [sem] in Es; try discriminate; reflexivity).
    rewrite IH; [reflexivity|exact Hwl|lia].
  - destruct d; cbn [sem] in Es; try discriminate. inversion Es; subst b.
    cbn [rd_of_dinsn conv_step adv_sum] in *. unfold convert_advance.
    replace (caf <? 2 ^ 32) with true by lia.
    replace (delta * caf <? 2 ^ 32) with true by lia. replace (o + delta * caf <? 2 ^ 32) with true by lia.
    cbn [bind locate]. rewrite IH; [reflexivity|exact Hwl|lia].
  - destruct d; cbn [sem] in Es; try discriminate. cbn [rd_of_dinsn conv_step bind locate adv_sum] in *.
    rewrite IH; [reflexivity|exact Hwl|exact Hs].
Qed.
