(* Proofs/TreeWalkProofs.v — PARTIAL traversals of a well-formed unit with the tree iterator
   (EntriesTree::next through EntriesTreeIter::next): whatever subtrees the caller skipped or left
   half-visited, the next call on an enclosing list finds the following sibling.

   The invariant (`Within D ts m`): the tree's current entry x is some event of the unit at depth >= D,
   the reader stands right behind x, the events `mid` that remain before the next depth-D event are all
   deeper than D and lead back to depth D, and every DW_AT_sibling among x and `mid` that the fast path
   would follow lands — inside `mid` — at an event boundary where the depth it sets is the true depth.
   `loop_skip` shows that EntriesTree::next(D) then returns the first event after `mid`, on the fast
   and on the slow path; `walk_list2` / `walk_tree_claim2` carry the invariant through the recursion of
   Model/TreeWalk.v for every selection strategy. *)
From Coq Require Import List NArith ZArith Bool Lia ZifyBool ZifyN ZifyNat.
From Coq.Strings Require Import Byte.
Require Import GV.Base.Res GV.Base.Byt GV.Base.Ints GV.Model.Leb GV.Model.Prim
               GV.Spec.LebSpec GV.Spec.FormSpec GV.Model.Attr GV.Spec.Forest GV.Spec.ForestSel GV.Model.AbbrevRd
               GV.Model.DieRd GV.Model.TreeWalk GV.Proofs.AttrProofs GV.Proofs.AbbrevRdProofs GV.Proofs.DieRdProofs
               GV.Proofs.NavProofs.
Import ListNotations.
Local Open Scope N_scope.
Local Arguments N.add : simpl never.
Local Arguments N.sub : simpl never.
Local Arguments N.mul : simpl never.
Local Arguments N.pow : simpl never.
Local Arguments N.of_nat : simpl never.
Local Arguments Z.add : simpl never.
Local Arguments Z.sub : simpl never.

(* ------------------------------------------------------------------ *)
(** * Where the DW_AT_sibling fast path lands *)

(* the event x followed by the events `post`: the fast path is not taken, or it skips a prefix of
   `post` and sets the depth that reading the prefix would have produced *)
Definition jump_at (x : xev) (post : list xev) : Prop :=
  d_children (x_die x) = false \/ die_sibling (x_die x) = None \/
  exists skipped post', post = skipped ++ post' /\
    die_sibling (x_die x) = Some (d_offset (x_die x) + nlen (x_bytes x) + nlen (xbytes skipped)) /\
    end_depth (x_post x) skipped = d_depth (x_die x).

Fixpoint jumps_ok (l : list xev) : Prop :=
  match l with [] => True | x :: post => jump_at x post /\ jumps_ok post end.

Lemma jump_at_app x post m : jump_at x post -> jump_at x (post ++ m).
Proof.
  intros [H|[H|(sk & p' & -> & H1 & H2)]]; [left; exact H|right; left; exact H|].
  right. right. exists sk, (p' ++ m). split; [rewrite <- app_assoc; reflexivity|]. split; assumption.
Qed.

Lemma jumps_ok_app : forall a b, jumps_ok a -> jumps_ok b -> jumps_ok (a ++ b).
Proof.
  induction a as [|x a IH]; intros b Ha Hb; [exact Hb|]. destruct Ha as [H1 H2]. cbn [app jumps_ok].
  split; [apply jump_at_app; exact H1|apply IH; assumption].
Qed.

Lemma jumps_ok_tail : forall a b, jumps_ok (a ++ b) -> jumps_ok b.
Proof. induction a as [|x a IH]; intros b H; [exact H|]. destruct H as [_ H]. apply IH. exact H. Qed.

(* depths inside a subtree *)
Lemma evs_list_depth_of codes bigend d : forall l off,
  Forall (fun t => forall d o, Forall (fun z => (d <= d_depth (x_die z))%Z) (evs codes bigend d o t)) l ->
  Forall (fun z => (d <= d_depth (x_die z))%Z) (evs_list codes bigend d off l).
Proof.
  unfold evs_list. induction l as [|t l IH]; intros off H; [constructor|]. inversion H; subst.
  rewrite on_list_cons. apply Forall_app. split; auto.
Qed.

Lemma evs_depth codes bigend : forall t d off,
  Forall (fun z => (d <= d_depth (x_die z))%Z) (evs codes bigend d off t).
Proof.
  induction t as [tag flag items kids IH] using tree_ind'. intros d off.
  set (t := Node tag flag items kids) in *.
  rewrite evs_unfold. change (t_kids t) with kids. constructor.
  - cbn [head_ev x_die root_die d_depth]. lia.
  - destruct (has_children t); [|constructor]. apply Forall_app. split.
    + fold (evs_list codes bigend (d + 1) (kids_off codes off t) kids).
      eapply Forall_impl; [|apply (evs_list_depth_of codes bigend (d + 1)); exact IH].
      intros z Hz. cbv beta in *. lia.
    + constructor; [|constructor]. cbn [null_ev x_die null_at d_depth]. lia.
Qed.

Lemma evs_list_depth codes bigend d l off :
  Forall (fun z => (d <= d_depth (x_die z))%Z) (evs_list codes bigend d off l).
Proof. apply evs_list_depth_of. apply Forall_forall. intros t _ d' o. apply evs_depth. Qed.

Lemma tail_depth codes bigend d off t :
  Forall (fun z => (d < d_depth (x_die z))%Z) (tail_evs codes bigend d off t).
Proof.
  rewrite tail_evs_eq. destruct (has_children t); [|constructor]. apply Forall_app. split.
  - eapply Forall_impl; [|apply evs_list_depth]. intros z Hz. cbv beta in *. lia.
  - constructor; [|constructor]. cbn [null_ev x_die null_at d_depth]. lia.
Qed.

(* every sibling pointer of a well-formed subtree lands behind the subtree of its entry *)
Lemma evs_list_jumps_of e tbl codes d : forall l off,
  Forall (fun t => forall d o, Forall (placed_ok e tbl codes) (placed codes o t) ->
                               jumps_ok (evs codes (be e) d o t)) l ->
  Forall (placed_ok e tbl codes) (on_list (placed codes) (tree_size codes) off l) ->
  jumps_ok (evs_list codes (be e) d off l).
Proof.
  unfold evs_list. induction l as [|t l IH]; intros off H Hp; [exact I|]. inversion H; subst.
  rewrite on_list_cons in *. apply Forall_app in Hp. destruct Hp as [Hp1 Hp2].
  apply jumps_ok_app; auto.
Qed.

Lemma evs_jumps e tbl codes : forall t d off,
  Forall (placed_ok e tbl codes) (placed codes off t) -> jumps_ok (evs codes (be e) d off t).
Proof.
  induction t as [tag flag items kids IH] using tree_ind'. intros d off Hp.
  set (t := Node tag flag items kids) in *.
  rewrite placed_unfold in Hp. inversion Hp as [|? ? (Hc & Hok & Hfit) Hk]; subst. cbn [snd] in *.
  change (t_kids t) with kids in Hk.
  rewrite evs_tail. cbn [jumps_ok]. split.
  - destruct (die_sibling_root codes e off d t Hok) as [Hs|Hs].
    + right. left. exact Hs.
    + right. right. exists (tail_evs codes (be e) d off t), []. split; [rewrite app_nil_r; reflexivity|].
      cbn [head_ev x_die x_bytes x_post]. split.
      * rewrite Hs. f_equal. change (d_offset (root_die codes off d t)) with off.
        pose proof (tail_bytes_len codes (be e) d off t). rewrite head_bytes_len.
        pose proof (kids_off_ge codes off t). lia.
      * change (d_depth (root_die codes off d t)) with d. apply tail_end_depth.
  - rewrite tail_evs_eq. change (t_kids t) with kids. destruct (has_children t); [|exact I].
    apply jumps_ok_app; [|cbn [jumps_ok]; split; [left; reflexivity|exact I]].
    apply (evs_list_jumps_of e tbl codes (d + 1) kids); assumption.
Qed.

Lemma evs_list_jumps e tbl codes d l off :
  Forall (placed_ok e tbl codes) (on_list (placed codes) (tree_size codes) off l) ->
  jumps_ok (evs_list codes (be e) d off l).
Proof. apply evs_list_jumps_of. apply Forall_forall. intros t _ d' o. apply evs_jumps. Qed.

(* EntriesRaw::seek_forward to an offset `nlen pre` bytes ahead *)
Lemma seek_forward_exact dbg pre post E d0 target d :
  nlen (pre ++ post) <= E -> target = E - nlen (pre ++ post) + nlen pre ->
  seek_forward dbg (mkRaw (pre ++ post) E d0) target d = Ok (true, mkRaw post E d).
Proof.
  intros Hle ->. unfold seek_forward, next_offset, chk_sub. cbn [r_end r_in].
  replace (nlen (pre ++ post) <=? E) with true by lia. cbn [bind].
  replace (E - nlen (pre ++ post) + nlen pre <? E - nlen (pre ++ post)) with false by lia.
  replace (E - nlen (pre ++ post) + nlen pre - (E - nlen (pre ++ post))) with (nlen pre) by lia.
  rewrite skip_n_app_len. reflexivity.
Qed.

Lemma on_first_nil {A} (f : N -> tree -> list A) size n off : on_first f size n off [] = [].
Proof. reflexivity. Qed.
Lemma on_first_0 {A} (f : N -> tree -> list A) size off l : on_first f size 0 off l = [].
Proof. destruct l; reflexivity. Qed.
Lemma on_first_S {A} (f : N -> tree -> list A) size n off t r :
  on_first f size (S n) off (t :: r) = f off t ++ on_first f size n (off + size t) r.
Proof. reflexivity. Qed.

Lemma sel_tree_unfold codes sel D off t :
  sel_tree codes sel D off t =
  root_die codes off D t ::
  match sel (root_die codes off D t) with
  | None => []
  | Some n => on_first (sel_tree codes sel (D + 1)) (tree_size codes) n (kids_off codes off t) (t_kids t)
  end.
Proof. destruct t. reflexivity. Qed.

(* ------------------------------------------------------------------ *)
(** * The tree iterator from any position inside a subtree *)

Section Walk.
  Variables (dbg : bool) (e : enc) (tbl : abbrevs) (codes : coding) (E : N) (rest : list byte)
            (sel : die -> option nat).

  (* the tree's entry is the event x and the reader stands right behind it, in front of l *)
  Definition pos0 (ts : tree_st) (x : xev) (l : list xev) : Prop :=
    tr_entry ts = x_die x /\ r_depth (tr_raw ts) = x_post x /\
    at_chain dbg e tbl E rest (tr_raw ts) l /\
    d_offset (x_die x) + nlen (x_bytes x) + nlen (xbytes l ++ rest) = E.

  Lemma pos0_step root r z l :
    at_chain dbg e tbl E rest r (z :: l) ->
    pos0 (mkTree root (mkRaw (xbytes l ++ rest) E (x_post z)) (x_die z)) z l.
  Proof.
    intros Hat. destruct (at_chain_step _ _ _ _ _ _ _ _ Hat) as (_ & Hat' & Ho & _ & _).
    destruct Hat as [_ _ _ _ Hle _ _].
    split; [reflexivity|]. split; [reflexivity|]. split; [exact Hat'|].
    rewrite xbytes_cons, <- app_assoc, nlen_app in Ho, Hle. lia.
  Qed.

  (* the fast path at the top of the loop of EntriesTree::next, from such a position *)
  Lemma jump_step ts x mid m : pos0 ts x (mid ++ m) -> jump_at x mid ->
    exists skipped mid', mid = skipped ++ mid' /\
      sibling_jump dbg (tr_raw ts) (tr_entry ts) =
        Ok (mkRaw (xbytes (mid' ++ m) ++ rest) E (end_depth (x_post x) skipped)) /\
      at_chain dbg e tbl E rest (mkRaw (xbytes (mid' ++ m) ++ rest) E (end_depth (x_post x) skipped)) (mid' ++ m).
  Proof.
    intros (He & Hd & Hat & Hoff) Hj.
    assert (Stay : sibling_jump dbg (tr_raw ts) (tr_entry ts) = Ok (tr_raw ts) ->
              exists skipped mid', mid = skipped ++ mid' /\
                sibling_jump dbg (tr_raw ts) (tr_entry ts) =
                  Ok (mkRaw (xbytes (mid' ++ m) ++ rest) E (end_depth (x_post x) skipped)) /\
                at_chain dbg e tbl E rest (mkRaw (xbytes (mid' ++ m) ++ rest) E (end_depth (x_post x) skipped)) (mid' ++ m)).
    { intros Hs. exists [], mid. split; [reflexivity|]. cbn [end_depth].
      pose proof (at_chain_nil _ _ _ _ _ _ _ Hat) as Er. rewrite Hd in Er. rewrite <- Er.
      split; [exact Hs|exact Hat]. }
    destruct Hj as [Hc|[Hs|(sk & mid' & -> & Hs & Hend)]].
    - apply Stay. unfold sibling_jump. rewrite He, Hc. reflexivity.
    - apply Stay. unfold sibling_jump. rewrite He, Hs. destruct (d_children (x_die x)); reflexivity.
    - destruct (d_children (x_die x)) eqn:Hc; [|apply Stay; unfold sibling_jump; rewrite He, Hc; reflexivity].
      rewrite <- app_assoc in Hat, Hoff.
      exists sk, mid'. split; [reflexivity|].
      pose proof (at_chain_drop dbg e tbl E rest sk _ _ Hat) as Hat2. rewrite Hd in Hat2.
      split; [|exact Hat2].
      assert (Hle : nlen (xbytes (sk ++ mid' ++ m) ++ rest) <= E) by (destruct Hat; assumption).
      pose proof (at_chain_nil _ _ _ _ _ _ _ Hat) as Er.
      rewrite xbytes_app, <- app_assoc in Hle, Hoff, Er.
      unfold sibling_jump. rewrite He, Hc, Hs, Er.
      rewrite (seek_forward_exact dbg (xbytes sk) (xbytes (mid' ++ m) ++ rest) E _ _ (d_depth (x_die x))).
      + cbn [bind]. rewrite Hend. reflexivity.
      + exact Hle.
      + lia.
  Qed.

  (* one iteration of the loop of EntriesTree::next *)
  Lemma loop_iter fuel D ts r1 x0 l :
    sibling_jump dbg (tr_raw ts) (tr_entry ts) = Ok r1 -> at_chain dbg e tbl E rest r1 (x0 :: l) ->
    tree_next_loop (S fuel) dbg e tbl D ts =
      if (d_depth (x_die x0) =? D)%Z
      then Ok (TOk (negb (is_null (x_die x0)))
                   (mkTree (tr_root ts) (mkRaw (xbytes l ++ rest) E (x_post x0)) (x_die x0)))
      else tree_next_loop fuel dbg e tbl D (mkTree (tr_root ts) (mkRaw (xbytes l ++ rest) E (x_post x0)) (x_die x0)).
  Proof.
    intros Hj Hat. cbn [tree_next_loop]. rewrite Hj. cbn [bind].
    destruct (at_chain_step _ _ _ _ _ _ _ _ Hat) as (Hr & _ & _ & _ & (b & r0 & Eb)).
    unfold raw_is_empty. rewrite Eb. cbn [is_nil]. rewrite Hr. reflexivity.
  Qed.

  (* the key lemma: wherever the tree was left inside a subtree — on any entry x, `mid` being what
     remains of the subtree(s) below depth D — the loop of EntriesTree::next(D) ends on the first
     event y after `mid`, whether sibling pointers are followed or the entries are scanned *)
  Lemma loop_skip D y l2 : forall fuel mid x ts,
    pos0 ts x (mid ++ y :: l2) -> jump_at x mid -> jumps_ok mid ->
    Forall (fun z => (D < d_depth (x_die z))%Z) mid -> end_depth (x_post x) mid = D ->
    (length mid < fuel)%nat ->
    tree_next_loop fuel dbg e tbl D ts =
      Ok (TOk (negb (is_null (x_die y))) (mkTree (tr_root ts) (mkRaw (xbytes l2 ++ rest) E (x_post y)) (x_die y))).
  Proof.
    induction fuel as [|fuel IH]; intros mid x ts Hpos Hj Hjs Hall Hend Hf; [lia|].
    destruct (jump_step ts x mid (y :: l2) Hpos Hj) as (sk & mid' & -> & Hjump & Hat1).
    rewrite end_depth_app in Hend.
    destruct mid' as [|z mid''].
    - cbn [app] in Hat1. rewrite (loop_iter fuel D ts _ _ _ Hjump Hat1).
      destruct (at_chain_step _ _ _ _ _ _ _ _ Hat1) as (_ & _ & _ & Hdd & _). cbn [r_depth] in Hdd.
      cbn [end_depth] in Hend. rewrite Hdd, Hend, Z.eqb_refl. reflexivity.
    - cbn [app] in Hat1. rewrite (loop_iter fuel D ts _ _ _ Hjump Hat1).
      apply jumps_ok_tail in Hjs. destruct Hjs as [Hjz Hjs].
      apply Forall_app in Hall. destruct Hall as [_ Hall]. apply Forall_cons_iff in Hall. destruct Hall as [Hz Hall'].
      destruct (at_chain_step _ _ _ _ _ _ _ _ Hat1) as (_ & _ & _ & Hdd & _). cbn [r_depth] in Hdd.
      replace (d_depth (x_die z) =? D)%Z with false by lia.
      cbn [end_depth] in Hend.
      rewrite (IH mid'' z); [reflexivity| | | | | |].
      + exact (pos0_step (tr_root ts) _ z _ Hat1).
      + exact Hjz.
      + exact Hjs.
      + exact Hall'.
      + exact Hend.
      + rewrite app_length in Hf. cbn [length] in Hf. lia.
  Qed.

  (* positions from which EntriesTree::next(D) is called by the recursion *)
  Definition Within (D : Z) (ts : tree_st) (m : list xev) : Prop :=
    exists x mid, pos0 ts x (mid ++ m) /\ Forall (fun z => (D < d_depth (x_die z))%Z) mid /\
      end_depth (x_post x) mid = D /\ (D <= d_depth (x_die x))%Z /\ jump_at x mid /\ jumps_ok mid.

  Definition AtHead (D : Z) (ts : tree_st) (m : list xev) : Prop :=
    exists x, pos0 ts x m /\ (d_depth (x_die x) + 1 = D)%Z /\ d_children (x_die x) = true /\ x_post x = D.

  Lemma next_at D ts y l2 : Within D ts (y :: l2) \/ AtHead D ts (y :: l2) ->
    tree_next (tree_fuel ts) dbg e tbl D ts =
      Ok (TOk (negb (is_null (x_die y))) (mkTree (tr_root ts) (mkRaw (xbytes l2 ++ rest) E (x_post y)) (x_die y))) /\
    pos0 (mkTree (tr_root ts) (mkRaw (xbytes l2 ++ rest) E (x_post y)) (x_die y)) y l2.
  Proof.
    intros [(x & mid & Hpos & Hall & Hend & Hge & Hj & Hjs)|(x & Hpos & Hdep & Hc & Hpost)].
    - pose proof Hpos as (He & Hd & Hat & Hoff). split.
      + unfold tree_next. rewrite He. replace (d_depth (x_die x) <? D)%Z with false by lia.
        apply (loop_skip D y l2 (tree_fuel ts) mid x ts); try assumption.
        unfold tree_fuel. destruct Hat as [Hok Hin _ _ _ _ _]. rewrite Hin.
        apply Forall_app in Hok. destruct Hok as [Hok _].
        assert (L : (length mid <= length (xbytes mid))%nat).
        { apply xbytes_length_le. eapply Forall_impl; [|exact Hok]. intros z (H & _). exact H. }
        rewrite xbytes_app, !app_length. lia.
      + pose proof (at_chain_drop dbg e tbl E rest mid _ _ Hat) as Hat2.
        exact (pos0_step (tr_root ts) _ y l2 Hat2).
    - pose proof Hpos as (He & Hd & Hat & Hoff). split.
      + apply (tree_next_read dbg e tbl E rest D ts y l2); [exact Hat|rewrite Hd; exact Hpost| |unfold tree_fuel; lia].
        left. rewrite He. repeat split; [lia|exact Hdep|exact Hc].
      + exact (pos0_step (tr_root ts) _ y l2 Hat).
  Qed.

  (* on the root entry of a subtree, nothing below it read yet *)
  Lemma within_head D off k m ts :
    pos0 ts (head_ev codes (be e) D off k) (tail_evs codes (be e) D off k ++ m) ->
    Forall (placed_ok e tbl codes) (placed codes off k) -> Within D ts m.
  Proof.
    intros Hpos Hp. pose proof (evs_jumps e tbl codes k D off Hp) as Hj. rewrite evs_tail in Hj. destruct Hj as [Hj Hjs].
    exists (head_ev codes (be e) D off k), (tail_evs codes (be e) D off k).
    split; [exact Hpos|]. split; [apply tail_depth|]. split; [apply tail_end_depth|].
    split; [cbn [head_ev x_die root_die d_depth]; lia|]. split; assumption.
  Qed.

  (* a list of children at depth D: either somewhere inside an earlier child (or on the list's
     terminator-to-be), or still on the parent's entry *)
  Definition Pre (D : Z) (ts : tree_st) (L : list xev) (oN : N) (m : list xev) : Prop :=
    Within D ts (L ++ null_ev oN D :: m) \/
    exists x, pos0 ts x (L ++ null_ev oN D :: m) /\ (d_depth (x_die x) + 1 = D)%Z /\
              d_children (x_die x) = true /\ x_post x = D /\ jump_at x (L ++ [null_ev oN D]).

  Lemma pre_next D ts L oN m : Pre D ts L oN m ->
    Within D ts (L ++ null_ev oN D :: m) \/ AtHead D ts (L ++ null_ev oN D :: m).
  Proof.
    intros [H|(x & H1 & H2 & H3 & H4 & _)]; [left; exact H|right]. exists x. split; [exact H1|]. split; [exact H2|]. split; [exact H3|exact H4].
  Qed.

  (* leaving the list: seen from the parent's level the tree is inside the parent's subtree *)
  Lemma pre_lift D ts ks off' oN m :
    Pre D ts (evs_list codes (be e) D off' ks) oN m ->
    Forall (placed_ok e tbl codes) (on_list (placed codes) (tree_size codes) off' ks) ->
    Within (D - 1) ts m.
  Proof.
    intros HP Hp. set (L := evs_list codes (be e) D off' ks) in *.
    assert (HL : Forall (fun z => (D - 1 < d_depth (x_die z))%Z) (L ++ [null_ev oN D])).
    { apply Forall_app. split.
      - eapply Forall_impl; [|apply evs_list_depth]. intros z Hz. cbv beta in *. lia.
      - constructor; [|constructor]. cbn [null_ev x_die null_at d_depth]. lia. }
    assert (HE : end_depth D (L ++ [null_ev oN D]) = (D - 1)%Z).
    { rewrite end_depth_app. destruct (evs_list_chain codes (be e) D ks off') as [_ Ee]. fold L in Ee. rewrite Ee.
      reflexivity. }
    assert (HJ : jumps_ok (L ++ [null_ev oN D])).
    { apply jumps_ok_app; [exact (evs_list_jumps e tbl codes D ks off' Hp)|]. cbn [jumps_ok]. split; [left; reflexivity|exact I]. }
    destruct HP as [(x & mid & Hpos & Hall & Hend & Hge & Hj & Hjs)|(x & Hpos & Hdep & Hc & Hpost & Hj)].
    - exists x, (mid ++ L ++ [null_ev oN D]).
      split; [replace ((mid ++ L ++ [null_ev oN D]) ++ m) with (mid ++ L ++ null_ev oN D :: m)
                by (rewrite <- !app_assoc; reflexivity); exact Hpos|].
      split; [apply Forall_app; split; [eapply Forall_impl; [|exact Hall]; intros z Hz; cbv beta in *; lia|exact HL]|].
      split; [rewrite end_depth_app, Hend; exact HE|]. split; [lia|].
      split; [apply jump_at_app; exact Hj|apply jumps_ok_app; assumption].
    - exists x, (L ++ [null_ev oN D]).
      split; [replace ((L ++ [null_ev oN D]) ++ m) with (L ++ null_ev oN D :: m)
                by (rewrite <- !app_assoc; reflexivity); exact Hpos|].
      split; [exact HL|]. split; [rewrite Hpost; exact HE|]. split; [lia|]. split; assumption.
  Qed.

  Definition walk_claim2 (k : tree) : Prop :=
    forall D off m ts n fuel,
      pos0 ts (head_ev codes (be e) D off k) (tail_evs codes (be e) D off k ++ m) ->
      Forall (placed_ok e tbl codes) (placed codes off k) ->
      (length (forest_nodes (t_kids k)) < fuel)%nat ->
      exists ts', walk_plan fuel dbg e tbl sel (D + 1) n ts =
                    Ok (on_first (sel_tree codes sel (D + 1)) (tree_size codes) n (kids_off codes off k) (t_kids k),
                        None, ts') /\
                  tr_root ts' = tr_root ts /\ Within D ts' m.

  Lemma walk_list2 : forall ks D off' oN m ts n fuel,
    Forall walk_claim2 ks ->
    Pre D ts (evs_list codes (be e) D off' ks) oN m ->
    Forall (placed_ok e tbl codes) (on_list (placed codes) (tree_size codes) off' ks) ->
    (length (forest_nodes ks) < fuel)%nat ->
    exists ts', walk_plan fuel dbg e tbl sel D n ts =
                  Ok (on_first (sel_tree codes sel D) (tree_size codes) n off' ks, None, ts') /\
                tr_root ts' = tr_root ts /\ Within (D - 1) ts' m.
  Proof.
    induction ks as [|k ks IH]; intros D off' oN m ts n fuel Hcl HP Hp Hf;
      (destruct fuel as [|fuel]; [lia|]); cbn [walk_plan];
      (destruct n as [|b];
       [exists ts; rewrite on_first_0; split; [reflexivity|]; split; [reflexivity|];
        apply (pre_lift D ts _ off' oN m HP Hp)|]).
    - (* the terminator of the list *)
      cbn [evs_list on_list app] in HP.
      destruct (next_at D ts (null_ev oN D) m (pre_next D ts [] oN m HP)) as [Hn Hpos1]. rewrite Hn.
      cbn [bind null_ev x_die null_at is_null d_tag N.eqb negb].
      eexists. split; [reflexivity|]. split; [reflexivity|].
      exists (null_ev oN D), []. split; [exact Hpos1|]. split; [constructor|].
      split; [reflexivity|]. split; [cbn [null_ev x_die null_at d_depth]; lia|].
      split; [left; reflexivity|exact I].
    - (* the next child k *)
      apply Forall_cons_iff in Hcl. destruct Hcl as [Hk Hks].
      pose proof Hp as Hp0.
      rewrite on_list_cons in Hp. apply Forall_app in Hp. destruct Hp as [Hpk Hpks].
      assert (Hnk : node_ok codes e k).
      { rewrite placed_unfold in Hpk. inversion Hpk as [|? ? (_ & Hn0 & _) _]. exact Hn0. }
      assert (EL : evs_list codes (be e) D off' (k :: ks) ++ null_ev oN D :: m =
                   head_ev codes (be e) D off' k ::
                   tail_evs codes (be e) D off' k ++
                   (evs_list codes (be e) D (off' + tree_size codes k) ks ++ null_ev oN D :: m)).
      { unfold evs_list. rewrite on_list_cons, evs_tail. rewrite <- !app_assoc. reflexivity. }
      pose proof (pre_next D ts _ oN m HP) as HN. rewrite EL in HN.
      destruct (next_at D ts _ _ HN) as [Hn Hpos1]. rewrite Hn.
      cbn [head_ev x_die x_post]. rewrite (root_die_not_null codes e off' D k Hnk). cbn [negb bind tr_entry].
      set (M := evs_list codes (be e) D (off' + tree_size codes k) ks ++ null_ev oN D :: m) in *.
      set (t1 := mkTree (tr_root ts) (mkRaw (xbytes (tail_evs codes (be e) D off' k ++ M) ++ rest) E (post_depth D k))
                        (root_die codes off' D k)) in *.
      cbn [forest_nodes flat_map] in Hf. rewrite app_length in Hf.
      assert (Hnodes : nodes k = k :: forest_nodes (t_kids k)) by (destruct k; reflexivity).
      rewrite Hnodes in Hf. cbn [length] in Hf. change (flat_map nodes ks) with (forest_nodes ks) in Hf.
      assert (Hsub : exists t2,
                (match sel (root_die codes off' D k) with
                 | Some n0 => walk_plan fuel dbg e tbl sel (D + 1) n0 t1
                 | None => Ok ([], None, t1)
                 end) =
                Ok (match sel (root_die codes off' D k) with
                    | Some n0 => on_first (sel_tree codes sel (D + 1)) (tree_size codes) n0 (kids_off codes off' k) (t_kids k)
                    | None => []
                    end, None, t2) /\ tr_root t2 = tr_root ts /\ Within D t2 M).
      { destruct (sel (root_die codes off' D k)) as [n0|].
        - destruct (Hk D off' M t1 n0 fuel Hpos1 Hpk ltac:(lia)) as (t2 & E2 & R2 & W2).
          exists t2. split; [exact E2|]. split; [exact R2|exact W2].
        - exists t1. split; [reflexivity|]. split; [reflexivity|].
          exact (within_head D off' k M t1 Hpos1 Hpk). }
      destruct Hsub as (t2 & E2 & R2 & W2). rewrite E2. cbn [bind].
      destruct (IH D (off' + tree_size codes k) oN m t2 b fuel Hks (or_introl W2) Hpks ltac:(lia)) as (t3 & E3 & R3 & W3).
      rewrite E3. cbn [bind]. exists t3. split; [|split; [rewrite R3; exact R2|exact W3]].
      rewrite on_first_S, sel_tree_unfold. reflexivity.
  Qed.

  Lemma walk_tree_claim2 : forall k, walk_claim2 k.
  Proof.
    induction k as [tag flag items kids IH] using tree_ind'.
    set (k := Node tag flag items kids) in *.
    intros D off m ts n fuel Hpos Hp Hf.
    pose proof Hp as Hp0. rewrite placed_unfold in Hp. apply Forall_cons_iff in Hp. destruct Hp as [_ Hpk].
    change (t_kids k) with kids in *.
    destruct (has_children k) eqn:Hc.
    - pose proof (evs_jumps e tbl codes k D off Hp0) as Hj. rewrite evs_tail in Hj. destruct Hj as [Hj _].
      rewrite tail_evs_eq in Hpos, Hj. rewrite Hc in Hpos, Hj. change (t_kids k) with kids in Hpos, Hj.
      rewrite <- app_assoc in Hpos. cbn [app] in Hpos.
      destruct (walk_list2 kids (D + 1)%Z (kids_off codes off k) (off + tree_size codes k - 1) m ts n fuel IH)
        as (ts' & E1 & R1 & W1); [|exact Hpk|exact Hf|].
      + right. exists (head_ev codes (be e) D off k). split; [exact Hpos|].
        cbn [head_ev x_die x_post root_die d_depth d_children]. unfold post_depth. rewrite Hc.
        split; [reflexivity|]. split; [reflexivity|]. split; [reflexivity|exact Hj].
      + exists ts'. split; [exact E1|]. split; [exact R1|]. replace (D + 1 - 1)%Z with D in W1 by lia. exact W1.
    - apply no_children_no_kids in Hc as Hk0. change (t_kids k) with kids in Hk0. subst kids.
      exists ts. split; [|split; [reflexivity|exact (within_head D off k m ts Hpos Hp0)]].
      destruct fuel as [|fuel]; [lia|]. cbn [walk_plan]. rewrite on_first_nil.
      destruct n as [|b]; [reflexivity|].
      destruct Hpos as (He & _). unfold tree_next. rewrite He. cbn [head_ev x_die root_die d_depth d_children].
      replace (D <? D + 1)%Z with true by lia. replace (D + 1 =? D + 1)%Z with true by lia.
      rewrite andb_false_r, Hc. cbn [negb bind]. reflexivity.
  Qed.
End Walk.

(* ------------------------------------------------------------------ *)
(** * Theorem: every partial traversal of a unit's tree reports the selected sub-forest *)

Section UnitWalk.
  Variables (dbg bigend types : bool) (uoff : N) (h : uheader) (codes : coding) (f : list tree) (pad : nat)
            (tbl : abbrevs).
  Let e := unit_enc bigend h.
  Let hl := header_len h.
  Let body := enc_forest codes bigend hl f pad.
  Let hdr := parsed_header bigend types uoff h body.
  Hypothesis He : addr_size_ok e.
  Hypothesis Hlen : hl + nlen body < two63.
  Hypothesis Hcov : all_covered tbl codes f.
  Hypothesis Hok : forest_ok codes e f.
  Hypothesis Hfit : sibs_fit codes hl f.

  Lemma tree_any_walk sel o t :
    In (o, t) (on_list (placed codes) (tree_size codes) hl f) ->
    exists ts, entries_tree dbg hdr (Some o) = Ok ts /\
               walk_tree_plan dbg e tbl sel ts = Ok (sel_tree codes sel 0 o t, None).
  Proof.
    intros Hin. destruct (body_locate codes bigend hl f pad o t Hin) as (l1 & l2 & dd & Eb & Ho & Hd).
    destruct (positioned dbg bigend types uoff h codes f pad tbl He Hlen Hcov Hok Hfit l1 _ o Eb ltac:(discriminate) Ho)
      as [Hraw Hat].
    fold e hl body hdr in Hraw, Hat. set (E := hl + nlen body) in *.
    assert (Hpall : Forall (placed_ok e tbl codes) (on_list (placed codes) (tree_size codes) hl f))
      by (apply placed_ok_all; assumption).
    assert (Hpt : Forall (placed_ok e tbl codes) (placed codes o t)).
    { destruct (on_list_in _ _ _ _ _ Hin) as (la & k & lb & Ef & Hk).
      rewrite Ef, on_list_app, on_list_cons in Hpall. apply Forall_app in Hpall. destruct Hpall as [_ Hp].
      apply Forall_app in Hp. destruct Hp as [Hpk _].
      exact (placed_sub codes (placed_ok e tbl codes) k _ o t Hk Hpk). }
    assert (Hn : node_ok codes e t).
    { rewrite placed_unfold in Hpt. inversion Hpt as [|? ? (_ & Hn & _) _]. exact Hn. }
    eexists. split; [apply entries_tree_raw; exact Hraw|].
    cbn [r_in]. unfold walk_tree_plan, tree_root. cbn [tr_root tr_raw r_end].
    cbn [map] in Hat. rewrite map_app, Hd in Hat. rewrite shift_head, Z.sub_diag in Hat.
    fold (tail_evs codes bigend dd o t) in Hat |- *. rewrite shift_tail, Z.sub_diag in Hat.
    change bigend with (be e) in Hat |- *.
    destruct (at_chain_step _ _ _ _ _ _ _ _ Hat) as (Hr & _ & _).
    pose proof (pos0_step dbg e tbl E [] (xbytes (head_ev codes (be e) dd o t :: tail_evs codes (be e) dd o t ++ l2)) _ _ _ Hat)
      as Hpos.
    rewrite Hr. clear Hr.
    cbn [head_ev x_die x_post bind] in Hpos |- *. rewrite (root_die_not_null codes e o 0 t Hn). cbn [negb tr_entry].
    rewrite sel_tree_unfold.
    destruct (sel (root_die codes o 0 t)) as [n|]; [|reflexivity].
    match type of Hpos with pos0 _ _ _ _ _ ?t1 _ _ => set (ts1 := t1) in * end.
    destruct (walk_tree_claim2 dbg e tbl codes E [] sel t 0%Z o (map (shift dd) l2) ts1 n
                (S (S (length (xbytes (head_ev codes (be e) dd o t :: tail_evs codes (be e) dd o t ++ l2))))) Hpos Hpt)
      as (ts' & E1 & _ & _).
    - pose proof (nodes_le_size codes t) as Hs.
      assert (Hnk : nodes t = t :: forest_nodes (t_kids t)) by (destruct t; reflexivity).
      rewrite Hnk in Hs. cbn [length] in Hs.
      pose proof (evs_bytes codes (be e) t dd o) as Hb. apply (f_equal nlen) in Hb. rewrite enc_tree_len in Hb.
      rewrite evs_tail, xbytes_cons in Hb.
      rewrite !xbytes_cons, xbytes_app, !app_length. rewrite nlen_app in Hb. unfold nlen in *. lia.
    - change (0 + 1)%Z with 1%Z in E1. rewrite E1. reflexivity.
  Qed.
End UnitWalk.
