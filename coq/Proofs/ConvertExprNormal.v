(* Proofs/ConvertExprNormal.v — C12, expressions, normal form of one operation: the operation a reader reports
   for the written form (C15 normal_form) of a converted operation converts to the same write operation again. *)
From Coq Require Import List NArith ZArith Bool Lia ZifyBool ZifyN ZifyNat Sorted.
From Coq.Strings Require Import Byte.
Require Import GV.Base.Res GV.Base.Byt GV.Base.Ints GV.Model.Leb GV.Model.Prim.
Require Import GV.Spec.OpEncSpec GV.Model.OpWr GV.Model.OpDec GV.Model.ConvertExpr.
Require Import GV.Proofs.OpWrProofs GV.Proofs.OpWrDec GV.Proofs.ConvertExprProofs.
Import ListNotations.
Local Open Scope N_scope.
Local Arguments N.add : simpl never.
Local Arguments N.sub : simpl never.
Local Arguments N.mul : simpl never.
Local Arguments N.div : simpl never.
Local Arguments N.pow : simpl never.

(* the read::Operation a reader reports for a decoded operation (the two vocabularies are parallel; the operand-less
   opcodes are the ones Expression::from emits through Operation::Simple) *)
Definition simple_op (opc : N) : option operation :=
  if opc =? 19 then Some ODrop else if opc =? 22 then Some OSwap else if opc =? 23 then Some ORot
  else if opc =? 25 then Some OAbs else if opc =? 26 then Some OAnd else if opc =? 27 then Some ODiv
  else if opc =? 28 then Some OMinus else if opc =? 29 then Some OMod else if opc =? 30 then Some OMul
  else if opc =? 31 then Some ONeg else if opc =? 32 then Some ONot else if opc =? 33 then Some OOr
  else if opc =? 34 then Some OPlus else if opc =? 36 then Some OShl else if opc =? 37 then Some OShr
  else if opc =? 38 then Some OShra else if opc =? 39 then Some OXor else if opc =? 41 then Some OEq
  else if opc =? 42 then Some OGe else if opc =? 43 then Some OGt else if opc =? 44 then Some OLe
  else if opc =? 45 then Some OLt else if opc =? 46 then Some ONe else if opc =? 150 then Some ONop
  else if opc =? 151 then Some OPushObjectAddress else if opc =? 155 then Some OTLS
  else if opc =? 156 then Some OCallFrameCFA else if opc =? 159 then Some OStackValue
  else if opc =? 240 then Some OUninitialized else None.

Definition op_of_dop (d : dop) : option operation :=
  match d with
  | DoSimple opc => simple_op opc
  | DoAddress a => Some (OAddress a)
  | DoUConst v => Some (OUnsignedConstant v)
  | DoSConst v => Some (OSignedConstant v)
  | DoPick i => Some (OPick i)
  | DoDeref b s sp => Some (ODeref b s sp)
  | DoPlusConst v => Some (OPlusConstant v)
  | DoBra t => Some (OBra t)
  | DoSkip t => Some (OSkip t)
  | DoRegister r => Some (ORegister r)
  | DoRegOffset r off b => Some (ORegisterOffset r off b)
  | DoFrameOffset off => Some (OFrameOffset off)
  | DoPiece bits bo => Some (OPiece bits bo)
  | DoCallUnit off => Some (OCall (UnitRef off))
  | DoCallRef off => Some (OCall (DebugInfoRef off))
  | DoVarValue off => Some (OVariableValue off)
  | DoImplicitValue data => Some (OImplicitValue data)
  | DoImplicitPointer off bo => Some (OImplicitPointer off bo)
  | DoAddrIndex i => Some (OAddressIndex i)
  | DoConstIndex i => Some (OConstantIndex i)
  | DoEntryValue x => Some (OEntryValue x)
  | DoParameterRef off => Some (OParameterRef off)
  | DoTypedLiteral b v => Some (OTypedLiteral b v)
  | DoConvert b => Some (OConvert b)
  | DoReinterpret b => Some (OReinterpret b)
  | DoWasmLocal i => Some (OWasmLocal i)
  | DoWasmGlobal i => Some (OWasmGlobal i)
  | DoWasmStack i => Some (OWasmStack i)
  end.

(* operations whose written form holds a .debug_info reference: the decoded value is the placeholder until the
   fix-ups are applied (C15 fixup_resolved); outside this statement *)
Definition info_ref_free (o : operation) : bool :=
  match o with
  | OCall (DebugInfoRef _) | OVariableValue _ | OImplicitPointer _ _ => false
  | _ => true
  end.

Definition is_branch (o : operation) : bool := match o with OBra _ | OSkip _ => true | _ => false end.

Lemma index_of_sorted x : forall l i k,
  StronglySorted N.lt l -> nth_error l k = Some x -> index_of x l i = Some (i + N.of_nat k).
Proof.
  induction l as [|y r IH]; intros i k Hs Hk; [destruct k; discriminate|].
  apply StronglySorted_inv in Hs. destruct Hs as [Hs Hall]. cbn [index_of].
  destruct k as [|k]; cbn [nth_error] in Hk.
  - inversion Hk; subst. replace (x =? x) with true by lia. f_equal. lia.
  - assert (y < x). { rewrite Forall_forall in Hall. apply Hall. eapply nth_error_In; eauto. }
    replace (y =? x) with false by lia. rewrite (IH (i + 1) k Hs Hk). f_equal. lia.
Qed.

(* the displacement the writer stored, added in usize arithmetic to the offset after the operation, is the offset
   of the target operation *)
Lemma branch_offset_back (wpos tv base : N) (disp : Z) :
  base <= wpos -> base <= tv -> wpos + 3 < 2 ^ 63 -> tv < 2 ^ 63 ->
  (Z.of_N wpos + 3 + disp = Z.of_N tv)%Z ->
  wrap64 (wpos + 3 - base + of_i64 disp) = tv - base.
Proof.
  intros H1 H2 H3 H4 Hd. unfold wrap64, of_i64, of_signed, two64.
  change (2 ^ 64) with 18446744073709551616. change (2 ^ 63) with 9223372036854775808 in *.
  change (Z.of_N 18446744073709551616) with 18446744073709551616%Z.
  assert (Hdisp : disp = (Z.of_N tv - Z.of_N wpos - 3)%Z) by lia.
  assert (Hm : (0 <= disp mod 18446744073709551616 < 18446744073709551616)%Z) by (apply Z.mod_pos_bound; lia).
  assert (Hq : disp = (18446744073709551616 * (disp / 18446744073709551616) + disp mod 18446744073709551616)%Z)
    by (apply Z.div_mod; lia).
  apply N2Z.inj. rewrite N2Z.inj_mod. rewrite N2Z.inj_add, Z2N.id by lia.
  rewrite !N2Z.inj_sub by lia. rewrite N2Z.inj_add. change (Z.of_N 3) with 3%Z.
  change (Z.of_N 18446744073709551616) with 18446744073709551616%Z.
  assert (Hr : (0 <= Z.of_N tv - Z.of_N base < 18446744073709551616)%Z) by lia.
  symmetry. apply Z.mod_unique_pos with (q := (- (disp / 18446744073709551616))%Z); lia.
Qed.

Section Normal.
  (* first conversion *)
  Variable e : OpDec.enc.
  Variable unit_addr : option (N -> res N).
  Variable cvt_addr : N -> option waddr.
  Variable unit_ref : N -> res N.
  Variable info_ref : N -> res dref.
  Variable nested : list byte -> res wexpr.
  (* the writer *)
  Variable dbg' : bool.
  Variable we : OpWr.enc.
  Variable uo : option uoffs.
  Variable refs : bool.
  (* second conversion, of what was written *)
  Variable e2 : OpDec.enc.
  Variable unit_addr2 : option (N -> res N).
  Variable cvt_addr2 : N -> option waddr.
  Variable unit_ref2 : N -> res N.
  Variable info_ref2 : N -> res dref.
  Variable nested2 : list byte -> res wexpr.
  Hypothesis Hasz : OpWr.e_asize we = e_asz e.
  Hypothesis Hasz2 : e_asz e2 = OpWr.e_asize we.
  (* written addresses are constants, converted as constants again *)
  Hypothesis Hcvt2 : forall v, cvt_addr2 v = Some (AConst v).
  (* the second unit-reference conversion inverts the offsets the writer assigned; no entry sits at offset 0 *)
  Hypothesis Hur2 : forall en off, entry_offset dbg' uo en = Ok off -> off <> 0 /\ unit_ref2 off = Ok en.
  (* nested entry_value blocks: normal form of the inner expressions *)
  Hypothesis Hnest2 : forall x inner wb p fx,
    nested x = Ok inner -> write_expr dbg' we uo refs p inner = Ok (wb, fx) -> nested2 wb = Ok inner.

  Lemma expr_normal_form_op_lemma soffs woffs base wpos o end_ wo bs d :
    conv_op e unit_addr cvt_addr unit_ref info_ref nested soffs o end_ = Ok wo ->
    normal_form dbg' we uo refs woffs wpos wo bs d ->
    info_ref_free o = true ->
    (* the written operation starts: strictly increasing, inside the address space *)
    StronglySorted N.lt (map (fun p => p - base) woffs) -> Forall (fun p => base <= p /\ p < 2 ^ 63) woffs ->
    base <= wpos -> wpos + 3 < 2 ^ 63 ->
    exists o2, op_of_dop d = Some o2 /\
      (* the offset after a (3-byte) branch; other operations do not look at it *)
      forall end2, (is_branch o = true -> end2 = wpos + 3 - base) ->
        conv_op e2 unit_addr2 cvt_addr2 unit_ref2 info_ref2 nested2 (map (fun p => p - base) woffs) o2 end2 = Ok wo.
  Proof.
    intros Hc Hn Hfree Hsorted Hrange Hbase Hpos.
    assert (Branch : forall t tv disp, nth_N woffs t = Some tv -> (Z.of_N wpos + 3 + disp = Z.of_N tv)%Z ->
              branch_index (map (fun p => p - base) woffs) (wpos + 3 - base) disp = Ok t).
    { intros t tv disp Ht Hd. rewrite nth_N_nth_error in Ht.
      assert (Hin : base <= tv /\ tv < 2 ^ 63).
      { rewrite Forall_forall in Hrange. apply Hrange. eapply nth_error_In; eauto. }
      unfold branch_index. rewrite (branch_offset_back wpos tv base disp) by (try apply Hin; assumption).
      rewrite (index_of_sorted (tv - base) _ 0 (N.to_nat t) Hsorted).
      - cbn [of_option]. f_equal. lia.
      - rewrite nth_error_map, Ht. reflexivity. }
    destruct o; cbn [conv_op info_ref_free] in Hc, Hfree; try discriminate;
      try (inversion Hc; subst wo; clear Hc; cbn [normal_form] in Hn;
           first [ (* operand-less opcodes *)
                   (vm_compute in Hn; inversion Hn; subst d; eexists; split; [vm_compute; reflexivity|];
                    intros end2 _; reflexivity)
                 | (subst d; eexists; split; [reflexivity|];
                    intros end2 _; reflexivity) ]).
    - (* deref *)
      destruct (base_type =? 0) eqn:E0; cbn [negb] in Hc.
      + destruct (size =? e_asz e) eqn:E1; cbn [negb] in Hc; inversion Hc; subst wo; cbn [normal_form] in Hn; subst d;
          eexists; (split; [reflexivity|]); intros end2 _; cbn [conv_op].
        * rewrite Hasz2. replace (0 =? 0) with true by reflexivity. replace (OpWr.e_asize we =? OpWr.e_asize we) with true by lia. reflexivity.
        * replace (0 =? 0) with true by reflexivity. rewrite Hasz2, Hasz. rewrite E1. reflexivity.
      + binds Hc. inversion Hc; subst wo. cbn [normal_form] in Hn. destruct Hn as [off [Ho ->]].
        destruct (Hur2 _ _ Ho) as [Hnz Hu]. eexists; split; [reflexivity|]. intros end2 _. cbn [conv_op]. replace (off =? 0) with false by lia. cbn [negb]. rewrite Hu. reflexivity.
    - (* bra *)
      binds Hc. inversion Hc; subst wo. cbn [normal_form] in Hn. destruct Hn as [tv [disp [Ht [Hd ->]]]].
      eexists; split; [reflexivity|]. intros end2 He2. rewrite (He2 eq_refl). cbn [conv_op]. rewrite (Branch _ _ _ Ht Hd). reflexivity.
    - (* skip *)
      binds Hc. inversion Hc; subst wo. cbn [normal_form] in Hn. destruct Hn as [tv [disp [Ht [Hd ->]]]].
      eexists; split; [reflexivity|]. intros end2 He2. rewrite (He2 eq_refl). cbn [conv_op]. rewrite (Branch _ _ _ Ht Hd). reflexivity.
    - (* register offset / regval_type *)
      destruct (base_type =? 0) eqn:E0; cbn [negb] in Hc.
      + inversion Hc; subst wo. cbn [normal_form] in Hn. subst d. eexists; split; [reflexivity|].
        intros end2 _. reflexivity.
      + binds Hc. inversion Hc; subst wo. cbn [normal_form] in Hn. destruct Hn as [off [Ho ->]].
        destruct (Hur2 _ _ Ho) as [Hnz Hu]. eexists; split; [reflexivity|]. intros end2 _. cbn [conv_op]. replace (off =? 0) with false by lia. cbn [negb]. rewrite Hu. reflexivity.
    - (* call (unit reference) *)
      destruct offset as [off|off]; [|discriminate]. binds Hc. inversion Hc; subst wo. cbn [normal_form] in Hn.
      destruct Hn as [o2 [Ho ->]]. destruct (Hur2 _ _ Ho) as [_ Hu]. eexists; split; [reflexivity|].
      intros end2 _. cbn [conv_op]. rewrite Hu. reflexivity.
    - (* piece *)
      destruct bit_offset as [bo|]; inversion Hc; subst wo; cbn [normal_form] in Hn; subst d; eexists; (split; [reflexivity|]);
        intros end2 _; cbn [conv_op]; [reflexivity|].
      rewrite N.div_mul by discriminate. reflexivity.
    - (* entry_value *)
      binds Hc. inversion Hc; subst wo. cbn [normal_form] in Hn. destruct Hn as [lb [inner [fx [_ [-> Hw]]]]].
      eexists; split; [reflexivity|]. intros end2 _. cbn [conv_op].
      rewrite (Hnest2 _ _ _ _ _ Hv Hw). reflexivity.
    - (* parameter_ref *)
      binds Hc. inversion Hc; subst wo. cbn [normal_form] in Hn. destruct Hn as [o2 [Ho ->]].
      destruct (Hur2 _ _ Ho) as [_ Hu]. eexists; split; [reflexivity|].
      intros end2 _. cbn [conv_op]. rewrite Hu. reflexivity.
    - (* addr *)
      binds Hc. inversion Hc; subst wo. cbn [normal_form] in Hn. destruct v as [a|sy ad]; [|contradiction]. subst d.
      eexists; split; [reflexivity|]. intros end2 _. cbn [conv_op].
      unfold convert_address. rewrite Hcvt2. reflexivity.
    - (* addrx *)
      binds Hc. inversion Hc; subst wo. cbn [normal_form] in Hn. destruct v1 as [a|sy ad]; [|contradiction]. subst d.
      eexists; split; [reflexivity|]. intros end2 _. cbn [conv_op].
      unfold convert_address. rewrite Hcvt2. reflexivity.
    - (* constx *)
      binds Hc. inversion Hc; subst wo. cbn [normal_form] in Hn. subst d.
      eexists; split; [reflexivity|]. intros end2 _. reflexivity.
    - (* const_type *)
      binds Hc. inversion Hc; subst wo. cbn [normal_form] in Hn. destruct Hn as [o2 [Ho ->]].
      destruct (Hur2 _ _ Ho) as [_ Hu]. eexists; split; [reflexivity|].
      intros end2 _. cbn [conv_op]. rewrite Hu. reflexivity.
    - (* convert *)
      destruct (base_type =? 0) eqn:E0.
      + inversion Hc; subst wo. cbn [normal_form] in Hn. subst d. eexists; split; [reflexivity|].
        intros end2 _. reflexivity.
      + binds Hc. inversion Hc; subst wo. cbn [normal_form] in Hn. destruct Hn as [off [Ho ->]].
        destruct (Hur2 _ _ Ho) as [Hnz Hu]. eexists; split; [reflexivity|]. intros end2 _. cbn [conv_op]. replace (off =? 0) with false by lia. rewrite Hu. reflexivity.
    - (* reinterpret *)
      destruct (base_type =? 0) eqn:E0.
      + inversion Hc; subst wo. cbn [normal_form] in Hn. subst d. eexists; split; [reflexivity|].
        intros end2 _. reflexivity.
      + binds Hc. inversion Hc; subst wo. cbn [normal_form] in Hn. destruct Hn as [off [Ho ->]].
        destruct (Hur2 _ _ Ho) as [Hnz Hu]. eexists; split; [reflexivity|]. intros end2 _. cbn [conv_op]. replace (off =? 0) with false by lia. rewrite Hu. reflexivity.
  Qed.
End Normal.
