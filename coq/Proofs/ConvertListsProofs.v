(* Proofs/ConvertListsProofs.v — C12, range and location lists: the converted list resolves (meaning of a
   written list, Spec/ListWrSpec.v, C16) to the address ranges the source list resolves to (Spec/ListSpec.v,
   C08), expressions mapped through the expression conversion; empty ranges are dropped on both sides. *)
From Coq Require Import List NArith ZArith Bool Lia ZifyBool ZifyN ZifyNat.
From Coq.Strings Require Import Byte.
Require Import GV.Base.Res GV.Base.Byt GV.Base.Ints GV.Spec.ListSpec GV.Model.ListsRd GV.Model.ConvertLists.
Require GV.Spec.ListWrSpec.
Import ListNotations.
Local Open Scope N_scope.
Local Arguments N.add : simpl never.
Local Arguments N.sub : simpl never.
Local Arguments N.mul : simpl never.
Local Arguments N.pow : simpl never.
Local Arguments N.modulo : simpl never.

Lemma lbind {A B} (r : res A) (f : A -> res B) b :
  (let* x := r in f x) = Ok b -> exists a, r = Ok a /\ f a = Ok b.
Proof. apply bind_ok. Qed.

Ltac lbinds H :=
  repeat match type of H with
         | bind _ _ = Ok _ => let v := fresh "v" in let Hv := fresh "Hv" in
                              apply lbind in H; destruct H as [v [Hv H]]
         end.

Lemma keep_live asz r : W.keep asz r = live asz r.
Proof. unfold W.keep, live, W.tombstone, atomb, W.amod, amod. apply andb_comm. Qed.

Lemma tomb_atomb asz : W.tombstone asz = atomb asz.
Proof. reflexivity. Qed.

Lemma amod_ge asz : 1 <= asz -> 256 <= amod asz.
Proof.
  intros H. unfold amod. change 256 with (2 ^ 8). apply N.pow_le_mono_r; lia.
Qed.

(* what one source entry contributes to the resolved list *)
Definition out1 (asz : N) (o : option (N * N)) (d : list byte) : list ((N * N) * list byte) :=
  match o with Some r => if live asz r then [(r, d)] else [] | None => [] end.

Lemma resolve_loc_cons asz tbl base e d xs :
  resolve_loc asz tbl base ((e, d) :: xs) =
  match resolve1 asz tbl base e with
  | None => None
  | Some (base', o) =>
      match resolve_loc asz tbl base' xs with
      | None => None
      | Some rs => Some (out1 asz o d ++ rs)
      end
  end.
Proof.
  cbn [resolve_loc]. destruct (resolve1 asz tbl base e) as [[base' o]|]; [|reflexivity].
  destruct (resolve_loc asz tbl base' xs); [|reflexivity]. unfold out1.
  destruct o as [r|]; [destruct (live asz r)|]; reflexivity.
Qed.

Section Sound.
  Variable cvt : N -> option W.addr.
  Variable uaddr : N -> res N.
  Variable xconv : list byte -> res (list byte).
  Variable asz : N.
  Hypothesis Hasz : 1 <= asz.
  (* non-relocatable addresses: convert_address returns Address::Constant(address), or None *)
  Hypothesis Hcvt : forall a w, cvt a = Some w -> w = W.AConst a.

  Definition drel (x y : (N * N) * list byte) : Prop := fst x = fst y /\ xconv (snd x) = Ok (snd y).

  Lemma cva_const a w : cva cvt a = Ok w -> w = W.AConst a.
  Proof. unfold cva. destruct (cvt a) eqn:E; cbn; intros H; inversion H; subst. apply Hcvt. exact E. Qed.

  Lemma uaddr_tbl i v : uaddr i = Ok v -> tbl_of uaddr i = Some v.
  Proof. unfold tbl_of. intros ->. reflexivity. Qed.

  Lemma out1_rel o d d' : xconv d = Ok d' -> Forall2 drel (out1 asz o d) (out1 asz o d').
  Proof.
    intros H. unfold out1. destruct o as [r|]; [destruct (live asz r)|]; repeat constructor. cbn. exact H.
  Qed.

  Lemma emit_out1 r d rest : W.emit asz r d rest = out1 asz (Some r) d ++ rest.
  Proof. unfold W.emit, out1. rewrite keep_live. destruct (live asz r); reflexivity. Qed.

  Lemma not_live_eq a : live asz (a, a) = false.
  Proof. unfold live. cbn [fst snd]. lia. Qed.

  Lemma out1_eq a d : out1 asz (Some (a, a)) d = [].
  Proof. unfold out1. rewrite not_live_eq. reflexivity. Qed.

  Ltac consts :=
    repeat match goal with
           | H : cva cvt _ = Ok _ |- _ => apply cva_const in H; subst
           end.

  (* one entry *)
  Lemma conv_loc1_sound hb base e d hb' y :
    (hb = false -> base = 0) -> lent_fits asz e ->
    conv_loc1 cvt uaddr xconv hb (e, d) = Ok (hb', y) ->
    exists base' o d',
      resolve1 asz (tbl_of uaddr) base e = Some (base', o) /\
      (hb' = false -> base' = 0) /\
      Forall2 drel (out1 asz o d) (out1 asz o d') /\
      (exists ey, W.ent_of y = Some ey /\
         forall rest, W.resolve asz base (ey :: rest) = out1 asz o d' ++ W.resolve asz base' rest) /\
      (keep_loc y = false -> base' = base /\ out1 asz o d' = []).
  Proof.
    intros Hinv Hfit H. pose proof (amod_ge asz Hasz) as Ham.
    destruct e as [b e|a|i|i j|i len|b e| |b e|b len]; cbn [conv_loc1] in H; lbinds H; consts.
    - (* address or offset pair *)
      destruct hb.
      + cbn [both_const bind] in H. inversion H; subst hb' y; clear H.
        cbn [resolve1]. rewrite <- tomb_atomb.
        destruct (W.tombstone asz <=? base) eqn:Et.
        * exists base, None, v1. split; [reflexivity|]. split; [discriminate|]. split; [constructor|]. split.
          -- eexists; split; [reflexivity|]. intros rest. cbn [W.resolve]. rewrite Et. reflexivity.
          -- intros _. split; reflexivity.
        * exists base, (Some (wadd asz base b, wadd asz base e)), v1. split; [reflexivity|]. split; [discriminate|].
          split; [apply out1_rel; exact Hv1|]. split.
          -- eexists; split; [reflexivity|]. intros rest. cbn [W.resolve]. rewrite Et. apply emit_out1.
          -- cbn [keep_loc]. intros Hk. assert (b = e) by lia. subst e. split; [reflexivity|apply out1_eq].
      + inversion H; subst hb' y; clear H. specialize (Hinv eq_refl). subst base.
        cbn [lent_fits] in Hfit. destruct Hfit as [Hb He].
        cbn [resolve1].
        assert (Et : (atomb asz <=? 0) = false) by (unfold atomb; lia). rewrite Et.
        assert (Hw : wadd asz 0 b = b /\ wadd asz 0 e = e).
        { unfold wadd. rewrite !N.add_0_l. split; apply N.mod_small; assumption. }
        destruct Hw as [-> ->].
        exists 0, (Some (b, e)), v1. split; [reflexivity|]. split; [reflexivity|].
        split; [apply out1_rel; exact Hv1|]. split.
        * eexists; split; [reflexivity|]. intros rest. cbn [W.resolve]. apply emit_out1.
        * cbn [keep_loc W.addr_eqb]. intros Hk. assert (b = e) by lia. subst e. split; [reflexivity|apply out1_eq].
    - (* base address *)
      inversion H; subst hb' y; clear H. cbn [resolve1].
      exists a, None, []. split; [reflexivity|]. split; [discriminate|]. split; [constructor|]. split.
      + eexists; split; [reflexivity|]. intros rest. reflexivity.
      + cbn [keep_loc]. discriminate.
    - (* base addressx *)
      inversion H; subst hb' y; clear H. cbn [resolve1]. rewrite (uaddr_tbl _ _ Hv).
      exists v, None, []. split; [reflexivity|]. split; [discriminate|]. split; [constructor|]. split.
      + eexists; split; [reflexivity|]. intros rest. reflexivity.
      + cbn [keep_loc]. discriminate.
    - (* startx endx *)
      inversion H; subst hb' y; clear H. cbn [resolve1]. rewrite (uaddr_tbl _ _ Hv), (uaddr_tbl _ _ Hv1).
      exists base, (Some (v, v1)), v3. split; [reflexivity|]. split; [exact Hinv|].
      split; [apply out1_rel; exact Hv3|]. split.
      + eexists; split; [reflexivity|]. intros rest. cbn [W.resolve]. apply emit_out1.
      + cbn [keep_loc W.addr_eqb]. intros Hk. assert (v = v1) by lia. subst v1. split; [reflexivity|apply out1_eq].
    - (* startx length *)
      inversion H; subst hb' y; clear H. cbn [resolve1]. rewrite (uaddr_tbl _ _ Hv).
      exists base, (Some (v, wadd asz v len)), v1. split; [reflexivity|]. split; [exact Hinv|].
      split; [apply out1_rel; exact Hv1|]. split.
      + eexists; split; [reflexivity|]. intros rest. cbn [W.resolve]. apply emit_out1.
      + cbn [keep_loc]. intros Hk. assert (len = 0) by lia. subst len. split; [reflexivity|].
        unfold out1, live, wadd. cbn [fst snd]. rewrite N.add_0_r.
        destruct ((v <? atomb asz) && (v <? v mod amod asz)) eqn:E; [|reflexivity].
        pose proof (N.mod_le v (amod asz)). lia.
    - (* offset pair *)
      inversion H; subst hb' y; clear H. cbn [resolve1]. rewrite <- tomb_atomb.
      destruct (W.tombstone asz <=? base) eqn:Et.
      + exists base, None, v. split; [reflexivity|]. split; [exact Hinv|]. split; [constructor|]. split.
        * eexists; split; [reflexivity|]. intros rest. cbn [W.resolve]. rewrite Et. reflexivity.
        * intros _. split; reflexivity.
      + exists base, (Some (wadd asz base b, wadd asz base e)), v. split; [reflexivity|]. split; [exact Hinv|].
        split; [apply out1_rel; exact Hv|]. split.
        * eexists; split; [reflexivity|]. intros rest. cbn [W.resolve]. rewrite Et. apply emit_out1.
        * cbn [keep_loc]. intros Hk. assert (b = e) by lia. subst e. split; [reflexivity|apply out1_eq].
    - (* default location *)
      inversion H; subst hb' y; clear H. cbn [resolve1].
      exists base, (Some (0, u64_max)), v. split; [reflexivity|]. split; [exact Hinv|].
      split; [apply out1_rel; exact Hv|]. split.
      + eexists; split; [reflexivity|]. intros rest. cbn [W.resolve]. unfold out1.
        assert (L : live asz (0, u64_max) = true) by (unfold live, atomb, u64_max; cbn [fst snd]; lia).
        rewrite L. reflexivity.
      + cbn [keep_loc]. discriminate.
    - (* start end *)
      inversion H; subst hb' y; clear H. cbn [resolve1].
      exists base, (Some (b, e)), v1. split; [reflexivity|]. split; [exact Hinv|].
      split; [apply out1_rel; exact Hv1|]. split.
      + eexists; split; [reflexivity|]. intros rest. cbn [W.resolve]. apply emit_out1.
      + cbn [keep_loc W.addr_eqb]. intros Hk. assert (b = e) by lia. subst e. split; [reflexivity|apply out1_eq].
    - (* start length *)
      inversion H; subst hb' y; clear H. cbn [resolve1].
      exists base, (Some (b, wadd asz b len)), v0. split; [reflexivity|]. split; [exact Hinv|].
      split; [apply out1_rel; exact Hv0|]. split.
      + eexists; split; [reflexivity|]. intros rest. cbn [W.resolve]. apply emit_out1.
      + cbn [keep_loc]. intros Hk. assert (len = 0) by lia. subst len. split; [reflexivity|].
        unfold out1, live, wadd. cbn [fst snd]. rewrite N.add_0_r.
        destruct ((b <? atomb asz) && (b <? b mod amod asz)) eqn:E; [|reflexivity].
        pose proof (N.mod_le b (amod asz)). lia.
  Qed.
End Sound.

(* ------------------------------------------------------------------ whole lists *)

Section SoundList.
  Variable cvt : N -> option W.addr.
  Variable uaddr : N -> res N.
  Variable xconv : list byte -> res (list byte).
  Variable asz : N.
  Hypothesis Hasz : 1 <= asz.
  Hypothesis Hcvt : forall a w, cvt a = Some w -> w = W.AConst a.

  Lemma conv_locs_sound : forall xs hb base l,
    (hb = false -> base = 0) ->
    Forall (fun x => lent_fits asz (fst x)) (items xs) ->
    conv_locs cvt uaddr xconv hb xs = Ok l ->
    exists ents rs0,
      W.ents_of l = Some ents /\
      resolve_loc asz (tbl_of uaddr) base (items xs) = Some rs0 /\
      Forall2 (drel xconv) rs0 (W.resolve asz base ents).
  Proof.
    induction xs as [|x xs IH]; intros hb base l Hinv Hfit H.
    - cbn in H. inversion H; subst. exists [], []. repeat split; constructor.
    - destruct x as [[e d]|er]; cbn [conv_locs] in H; [|discriminate].
      apply lbind in H. destruct H as [[hb' y] [Hv H]]. apply lbind in H. destruct H as [v0 [Hv0 H]].
      assert (Hl : l = if keep_loc y then y :: v0 else v0) by (inversion H; reflexivity). clear H. subst l.
      cbn [items] in Hfit. inversion Hfit as [|? ? Hf1 Hf2]; subst. cbn [fst] in Hf1.
      destruct (conv_loc1_sound cvt uaddr xconv asz Hasz Hcvt hb base e d hb' y Hinv Hf1 Hv)
        as [base' [o [d' [Hr1 [Hinv' [Hrel [[ey [Hey Hres]] Hdrop]]]]]]].
      destruct (IH hb' base' v0 Hinv' Hf2 Hv0) as [ents [rs0 [He [Hr Hall]]]].
      cbn [items]. rewrite resolve_loc_cons, Hr1, Hr.
      destruct (keep_loc y) eqn:Ek.
      + exists (ey :: ents), (out1 asz o d ++ rs0). split; [cbn [W.ents_of]; rewrite Hey, He; reflexivity|].
        split; [reflexivity|]. rewrite Hres. apply Forall2_app; assumption.
      + destruct (Hdrop eq_refl) as [-> Hnil]. exists ents, (out1 asz o d ++ rs0). split; [exact He|].
        split; [reflexivity|]. rewrite Hnil in Hrel. inversion Hrel. cbn [app]. exact Hall.
  Qed.

  (* loc_convert_sound *)
  Lemma loc_convert_sound_lemma low_pc xs l :
    Forall (fun x => lent_fits asz (fst x)) (items xs) ->
    conv_loc_list cvt uaddr xconv low_pc xs = Ok l ->
    exists rs rs0,
      W.meaning_loc asz low_pc l = Some rs /\
      resolve_loc asz (tbl_of uaddr) low_pc (items xs) = Some rs0 /\
      Forall2 (drel xconv) rs0 rs.
  Proof.
    intros Hfit H. unfold conv_loc_list in H.
    destruct (conv_locs_sound xs (negb (low_pc =? 0)) low_pc l) as [ents [rs0 [He [Hr Hall]]]]; auto.
    - intros Hz. destruct (low_pc =? 0) eqn:E; [lia|discriminate].
    - exists (W.resolve asz low_pc ents), rs0. unfold W.meaning_loc. rewrite He. auto.
  Qed.
End SoundList.

(* ------------------------------------------------------------------ ranges are locations without data *)

Section Ranges.
  Variable cvt : N -> option W.addr.
  Variable uaddr : N -> res N.
  Variable asz : N.
  Hypothesis Hasz : 1 <= asz.
  Hypothesis Hcvt : forall a w, cvt a = Some w -> w = W.AConst a.

  Definition noexpr (d : list byte) : res (list byte) := Ok d.
  Definition as_loc (x : ev lent) : ev lloc :=
    match x with EvItem e => EvItem (e, []) | EvErr er => EvErr er end.

  Lemma conv_range1_loc hb e hb' r :
    conv_range1 cvt uaddr hb e = Ok (hb', r) ->
    conv_loc1 cvt uaddr noexpr hb (e, []) = Ok (hb', W.loc_of_range r) /\ keep_loc (W.loc_of_range r) = keep_range r.
  Proof.
    intros H. destruct e; cbn [conv_range1] in H; try discriminate; cbn [conv_loc1 noexpr];
      lbinds H;
      repeat match goal with Hx : ?t = Ok _ |- context [bind ?t _] => rewrite Hx; cbn [bind] end.
    - destruct hb.
      + lbinds H. destruct v1 as [bo eo]. inversion H; subst. rewrite Hv1. cbn [bind]. split; reflexivity.
      + inversion H; subst. split; reflexivity.
    - inversion H; subst. split; reflexivity.
    - inversion H; subst. split; reflexivity.
    - inversion H; subst. split; reflexivity.
    - inversion H; subst. split; reflexivity.
    - inversion H; subst. split; reflexivity.
    - inversion H; subst. split; reflexivity.
    - inversion H; subst. split; reflexivity.
  Qed.

  Lemma conv_ranges_locs : forall es hb l,
    conv_ranges cvt uaddr hb es = Ok l ->
    conv_locs cvt uaddr noexpr hb (map as_loc es) = Ok (map W.loc_of_range l).
  Proof.
    induction es as [|x es IH]; intros hb l H.
    - cbn in H. inversion H. reflexivity.
    - destruct x as [e|er]; cbn [conv_ranges] in H; [|discriminate].
      apply lbind in H. destruct H as [[hb' r] [Hv H]]. apply lbind in H. destruct H as [v0 [Hv0 H]].
      assert (Hl : l = if keep_range r then r :: v0 else v0) by (inversion H; reflexivity). clear H. subst l.
      destruct (conv_range1_loc _ _ _ _ Hv) as [H1 H2].
      cbn [map as_loc conv_locs]. rewrite H1. cbn [bind]. rewrite (IH _ _ Hv0). cbn [bind]. rewrite H2.
      destruct (keep_range r); reflexivity.
  Qed.

  Lemma items_as_loc : forall es, items (map as_loc es) = map (fun e => (e, [])) (items es).
  Proof. induction es as [|[e|er] es IH]; cbn [map as_loc items]; [reflexivity|rewrite IH; reflexivity|exact IH]. Qed.

  Lemma resolve_rng_loc tbl : forall es base,
    resolve_rng asz tbl base es = option_map (map fst) (resolve_loc asz tbl base (map (fun e => (e, [])) es)).
  Proof.
    induction es as [|e es IH]; intros base; [reflexivity|].
    cbn [map resolve_rng resolve_loc]. destruct (resolve1 asz tbl base e) as [[base' o]|]; [|reflexivity].
    rewrite IH. destruct (resolve_loc asz tbl base' (map (fun e0 => (e0, [])) es)); [|reflexivity].
    cbn [option_map]. destruct o as [r|]; [destruct (live asz r)|]; reflexivity.
  Qed.

  Lemma drel_noexpr_eq : forall a b, Forall2 (drel noexpr) a b -> a = b.
  Proof.
    induction 1 as [|[r1 d1] [r2 d2] a b [H1 H2] _ IH]; [reflexivity|].
    cbn [fst snd] in H1, H2. unfold noexpr in H2. inversion H2. subst. reflexivity.
  Qed.

  (* range_convert_sound *)
  Lemma range_convert_sound_lemma low_pc es l :
    Forall (lent_fits asz) (items es) ->
    conv_range_list cvt uaddr low_pc es = Ok l ->
    exists rs,
      W.meaning_rng asz low_pc l = Some rs /\
      resolve_rng asz (tbl_of uaddr) low_pc (items es) = Some rs.
  Proof.
    intros Hfit H. unfold conv_range_list in H. apply conv_ranges_locs in H.
    destruct (loc_convert_sound_lemma cvt uaddr noexpr asz Hasz Hcvt low_pc (map as_loc es) (map W.loc_of_range l))
      as [rs [rs0 [Hm [Hr Hall]]]].
    - rewrite items_as_loc. rewrite Forall_map. exact Hfit.
    - exact H.
    - apply drel_noexpr_eq in Hall. subst rs0.
      exists (map fst rs). split.
      + unfold W.meaning_rng. unfold W.meaning_loc in Hm.
        destruct (W.ents_of (map W.loc_of_range l)); [|discriminate]. cbn [option_map] in *. inversion Hm. reflexivity.
      + rewrite resolve_rng_loc. rewrite items_as_loc in Hr. rewrite Hr. reflexivity.
  Qed.
End Ranges.

(* ------------------------------------------------------------------ normal form: a second conversion *)

(* the raw entry a reader yields for a decoded written entry (C16 decoders dec5 / dec4) *)
Definition raw_of_ent (x : W.ent) : lloc :=
  match x with
  | W.EBase a => (LBase a, [])
  | W.EOffsetPair b e d => (LOffsetPair b e, d)
  | W.EStartEnd b e d => (LStartEnd b e, d)
  | W.EStartLength b len d => (LStartLength b len, d)
  | W.EDefault d => (LDefault, d)
  | W.EPair b e d => (LPair b e, d)
  end.

Definition loc_data (y : W.wloc) : list byte :=
  match y with
  | W.LBase _ => []
  | W.LOffsetPair _ _ d | W.LStartEnd _ _ d | W.LStartLength _ _ d | W.LDefault d => d
  end.

Section NormalForm.
  Variable cvt : N -> option W.addr.
  Variable uaddr : N -> res N.
  Variable xconv2 : list byte -> res (list byte).
  Hypothesis Hcvt : forall a, cvt a = Some (W.AConst a).

  Lemma cva_id a : cva cvt a = Ok (W.AConst a).
  Proof. unfold cva. rewrite Hcvt. reflexivity. Qed.

  (* DWARF 5 entries: the image of the conversion (constant addresses, no empty range) is reproduced *)
  Lemma locs_normal_form_v5 : forall l ents hb,
    W.ents_of l = Some ents -> forallb (keep_loc) l = true ->
    Forall (fun y => xconv2 (loc_data y) = Ok (loc_data y)) l ->
    conv_locs cvt uaddr xconv2 hb (map (fun x => EvItem (raw_of_ent x)) ents) = Ok l.
  Proof.
    induction l as [|y l IH]; intros ents hb He Hk Hx.
    - cbn in He. inversion He. reflexivity.
    - cbn [W.ents_of] in He. destruct (W.ent_of y) as [ey|] eqn:Ey; [|discriminate].
      destruct (W.ents_of l) as [es|] eqn:Es; [|discriminate]. inversion He; subst ents; clear He.
      cbn [forallb] in Hk. apply andb_true_iff in Hk. destruct Hk as [Hk1 Hk2].
      inversion Hx as [|? ? Hx1 Hx2]; subst.
      cbn [map conv_locs].
      destruct y as [a|b e d|b e d|b len d|d]; cbn [W.ent_of] in Ey.
      + destruct a as [a|]; [|discriminate]. inversion Ey; subst ey. cbn [raw_of_ent conv_loc1].
        rewrite cva_id. cbn [bind]. rewrite (IH es true eq_refl Hk2 Hx2). reflexivity.
      + inversion Ey; subst ey. cbn [raw_of_ent conv_loc1 loc_data] in *. rewrite Hx1. cbn [bind].
        rewrite (IH es hb eq_refl Hk2 Hx2). cbn [bind]. rewrite Hk1. reflexivity.
      + destruct b as [b|]; [|discriminate]. destruct e as [e|]; [|discriminate]. inversion Ey; subst ey.
        cbn [raw_of_ent conv_loc1 loc_data] in *. rewrite !cva_id, Hx1. cbn [bind].
        rewrite (IH es hb eq_refl Hk2 Hx2). cbn [bind]. rewrite Hk1. reflexivity.
      + destruct b as [b|]; [|discriminate]. inversion Ey; subst ey.
        cbn [raw_of_ent conv_loc1 loc_data] in *. rewrite !cva_id, Hx1. cbn [bind].
        rewrite (IH es hb eq_refl Hk2 Hx2). cbn [bind]. rewrite Hk1. reflexivity.
      + inversion Ey; subst ey. cbn [raw_of_ent conv_loc1 loc_data] in *. rewrite Hx1. cbn [bind].
        rewrite (IH es hb eq_refl Hk2 Hx2). reflexivity.
  Qed.

  (* DWARF <= 4 pairs: a list that uses offset pairs exactly while a base address is in force and start/end
     pairs otherwise (what the conversion of a pair-format list produces, and what the pair writer accepts: C16
     `rejected`) is reproduced from the pairs it is written as *)
  Fixpoint pair_form (hb : bool) (l : list W.wloc) : bool :=
    match l with
    | [] => true
    | W.LBase _ :: r => pair_form true r
    | W.LOffsetPair _ _ _ :: r => hb && pair_form hb r
    | W.LStartEnd _ _ _ :: r => negb hb && pair_form hb r
    | _ => false
    end.

  Lemma locs_normal_form_v4 : forall l ps hb,
    W.pairs_of l = Some ps -> pair_form hb l = true -> forallb (keep_loc) l = true ->
    Forall (fun y => xconv2 (loc_data y) = Ok (loc_data y)) l ->
    conv_locs cvt uaddr xconv2 hb (map (fun x => EvItem (raw_of_ent x)) ps) = Ok l.
  Proof.
    induction l as [|y l IH]; intros ps hb He Hp Hk Hx.
    - cbn in He. inversion He. reflexivity.
    - cbn [W.pairs_of] in He. destruct (W.pair_of y) as [ey|] eqn:Ey; [|discriminate].
      destruct (W.pairs_of l) as [es|] eqn:Es; [|discriminate]. inversion He; subst ps; clear He.
      cbn [forallb] in Hk. apply andb_true_iff in Hk. destruct Hk as [Hk1 Hk2].
      inversion Hx as [|? ? Hx1 Hx2]; subst.
      cbn [map conv_locs].
      destruct y as [a|b e d|b e d|b len d|d]; cbn [W.pair_of pair_form] in Ey, Hp; try discriminate.
      + destruct a as [a|]; [|discriminate]. inversion Ey; subst ey. cbn [raw_of_ent conv_loc1].
        rewrite cva_id. cbn [bind]. rewrite (IH es true eq_refl Hp Hk2 Hx2). reflexivity.
      + apply andb_true_iff in Hp. destruct Hp as [-> Hp]. inversion Ey; subst ey.
        cbn [raw_of_ent conv_loc1 loc_data both_const] in *. rewrite !cva_id, Hx1. cbn [bind both_const].
        rewrite (IH es true eq_refl Hp Hk2 Hx2). cbn [bind]. rewrite Hk1. reflexivity.
      + apply andb_true_iff in Hp. destruct Hp as [Hb Hp]. destruct hb; [discriminate|].
        destruct b as [b|]; [|discriminate]. destruct e as [e|]; [|discriminate]. inversion Ey; subst ey.
        cbn [raw_of_ent conv_loc1 loc_data] in *. rewrite !cva_id, Hx1. cbn [bind].
        rewrite (IH es false eq_refl Hp Hk2 Hx2). cbn [bind]. rewrite Hk1. reflexivity.
  Qed.
End NormalForm.
